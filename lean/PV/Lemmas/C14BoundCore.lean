/-
  Helper lemmas for C14Bound / C07Bound (meridian plane, unit = equatorial radius, no model terms
  beyond the maps `Tmap`, `gfun`, `cfun`, `Wd` of PV/Lemmas/C04ContractCore.lean).

  (1) the body `T(φ) = atan2(z + g(φ), r)` of the latitude iteration is a contraction with the
      distance-dependent factor `0.00677 / (R − 0.00672)`, `R = √(r² + z²) ≥ 0.99`
      (PV/Lemmas/C04ContractCore.lean proves the uniform factor 0.007 only);
  (2) `D(φ) = r sin φ − (z + g(φ)) cos φ` is the signed distance (in equatorial radii) of the point
      `(r, z)` from the normal line of the ellipse at geodetic latitude `φ`; it vanishes at the fixed
      point of `T` and is `(R + 0.01349)`-Lipschitz;
  (3) hence for the value `lat = T(φ)` returned with `|lat − φ| ≤ τ`:  `|D(lat)| ≤ 1.1e-7` whenever
      `τ ≤ 1.5718e-5` (`np.allclose`: `1e-8 + 1e-5·π/2`), uniformly in the distance — the growth of the
      lever arm `R` is cancelled by the decrease of the contraction factor.
-/
import PV.Lemmas.C04ContractLoop

namespace PV.GeoB
open Real PV.C04C

/-! ### (1) distance-dependent contraction factor -/

theorem rho_sq_ge_P {z r w P : ℝ} (hP : 0.99 ≤ P) (hp : P ^ 2 ≤ r ^ 2 + z ^ 2) (hw : |w| ≤ 0.00672) :
    (P - 0.00672) ^ 2 ≤ r ^ 2 + (z + w) ^ 2 := by
  set R := √(r ^ 2 + z ^ 2) with hR
  have hR0 : 0 ≤ r ^ 2 + z ^ 2 := by positivity
  have hR2 : R ^ 2 = r ^ 2 + z ^ 2 := Real.sq_sqrt hR0
  have hR1 : P ≤ R := by rw [hR]; exact Real.le_sqrt_of_sq_le hp
  have hzR : |z| ≤ R := by
    rw [hR]; apply Real.le_sqrt_of_sq_le; rw [sq_abs]; nlinarith [sq_nonneg r]
  have h1 : -(R * |w|) ≤ z * w := by
    have : |z * w| ≤ R * |w| := by
      rw [abs_mul]; exact mul_le_mul_of_nonneg_right hzR (abs_nonneg _)
    linarith [neg_abs_le (z * w)]
  have h2 : P - 0.00672 ≤ R - |w| := by linarith
  have h3 : (P - 0.00672) ^ 2 ≤ (R - |w|) ^ 2 := pow_le_pow_left₀ (by linarith) h2 2
  have h4 : |w| ^ 2 = w ^ 2 := sq_abs w
  nlinarith

/-- `r / (r² + (z+w)²) ≤ 1 / (P − 0.00672)` -/
theorem outer_deriv_le_P {z r w P : ℝ} (hr : 0 < r) (hP : 0.99 ≤ P) (hp : P ^ 2 ≤ r ^ 2 + z ^ 2)
    (hw : |w| ≤ 0.00672) :
    |1 / (1 + ((z + w) / r) ^ 2) * (1 / r)| ≤ 1 / (P - 0.00672) := by
  have hρ := rho_sq_ge_P hP hp hw
  set ρ2 := r ^ 2 + (z + w) ^ 2 with hρ2
  have hd : 0 < P - 0.00672 := by linarith
  have hρpos : 0 < ρ2 := lt_of_lt_of_le (by positivity) hρ
  have heq : 1 / (1 + ((z + w) / r) ^ 2) * (1 / r) = r / ρ2 := by
    rw [hρ2]; field_simp
  rw [heq, abs_of_pos (div_pos hr hρpos), div_le_div_iff₀ hρpos hd, one_mul]
  set ρ := √ρ2 with hρd
  have hρρ : ρ ^ 2 = ρ2 := Real.sq_sqrt hρpos.le
  have hrρ : r ≤ ρ := by
    rw [hρd]; apply Real.le_sqrt_of_sq_le; rw [hρ2]; nlinarith [sq_nonneg (z + w)]
  have hmρ : P - 0.00672 ≤ ρ := by
    rw [hρd]; exact Real.le_sqrt_of_sq_le hρ
  have := mul_le_mul hrρ hmρ hd.le (le_trans hr.le hrρ)
  nlinarith

theorem outer_lipschitz_P {z r P : ℝ} (hr : 0 < r) (hP : 0.99 ≤ P) (hp : P ^ 2 ≤ r ^ 2 + z ^ 2)
    {w₁ w₂ : ℝ} (h₁ : |w₁| ≤ 0.00672) (h₂ : |w₂| ≤ 0.00672) :
    |arctan ((z + w₁) / r) - arctan ((z + w₂) / r)| * (P - 0.00672) ≤ |w₁ - w₂| := by
  have hd : 0 < P - 0.00672 := by linarith
  have h := Convex.norm_image_sub_le_of_norm_hasDerivWithin_le (s := Set.Icc (-0.00672 : ℝ) 0.00672)
    (f := fun w => arctan ((z + w) / r))
    (f' := fun w => 1 / (1 + ((z + w) / r) ^ 2) * (1 / r)) (C := 1 / (P - 0.00672)) (x := w₂) (y := w₁)
    (fun x _ => (hasDerivAt_outer z r x).hasDerivWithinAt)
    (fun x hx => by
      rw [Real.norm_eq_abs]; exact outer_deriv_le_P hr hP hp (abs_le.2 ⟨hx.1, hx.2⟩))
    (convex_Icc _ _) (abs_le.1 h₂) (abs_le.1 h₁)
  simp only [Real.norm_eq_abs] at h
  have h' := mul_le_mul_of_nonneg_right h hd.le
  rwa [mul_comm (1 / (P - 0.00672)), mul_assoc, one_div_mul_cancel hd.ne', mul_one] at h'

/-- the loop body contracts with factor `0.00677 / (P − 0.00672)` at distance `≥ P ≥ 0.99` from the centre
    (written without division) -/
theorem Tmap_lipschitz_P {e : ℝ} (he : EccOK e) {z r P : ℝ} (hr : 0 ≤ r) (hP : 0.99 ≤ P)
    (hp : P ^ 2 ≤ r ^ 2 + z ^ 2) (φ₁ φ₂ : ℝ) :
    |Tmap e z r φ₁ - Tmap e z r φ₂| * (P - 0.00672) ≤ 0.00677 * |φ₁ - φ₂| := by
  unfold Tmap
  rcases hr.eq_or_lt with h0 | hpos
  · subst h0
    have hz : (0.99 : ℝ) ^ 2 ≤ z ^ 2 := by nlinarith
    rw [(arg_pole hz (gfun_abs_le he φ₁)).1, (arg_pole hz (gfun_abs_le he φ₂)).1, sub_self, abs_zero,
      zero_mul]
    positivity
  · rw [arg_eq_arctan hpos, arg_eq_arctan hpos]
    have h1 := outer_lipschitz_P hpos hP hp (gfun_abs_le he φ₁) (gfun_abs_le he φ₂)
    have h2 := gfun_lipschitz he φ₁ φ₂
    linarith

/-! ### (2) distance from the normal line -/

/-- signed distance of `(r, z)` from the line through the ellipse point of geodetic latitude `φ` along its
    normal `(cos φ, sin φ)`:  `(r − c cos φ) sin φ − (z − (1−e) c sin φ) cos φ = r sin φ − (z + g(φ)) cos φ` -/
noncomputable def Dfun (e z r φ : ℝ) : ℝ := r * sin φ - (z + gfun e φ) * cos φ

theorem Dfun_eq (e z r φ : ℝ) :
    Dfun e z r φ = (r - cfun e φ * cos φ) * sin φ - (z - (1 - e) * cfun e φ * sin φ) * cos φ := by
  unfold Dfun gfun cfun; ring

theorem hasDerivAt_Dfun {e : ℝ} (he : EccOK e) (z r φ : ℝ) :
    HasDerivAt (Dfun e z r)
      (r * cos φ - (e * cos φ / (Wd e φ * √(Wd e φ)) * cos φ + (z + gfun e φ) * (-sin φ))) φ := by
  have h1 := (hasDerivAt_sin φ).const_mul r
  have h2 := ((hasDerivAt_gfun he φ).const_add z).mul (hasDerivAt_cos φ)
  exact h1.sub h2

/-- Cauchy–Schwarz in the plane with a unit vector -/
theorem abs_dot_unit_le (r z φ : ℝ) : |r * cos φ + z * sin φ| ≤ √(r ^ 2 + z ^ 2) := by
  apply Real.abs_le_sqrt
  nlinarith [sq_nonneg (r * sin φ - z * cos φ), sin_sq_add_cos_sq φ]

theorem abs_cross_unit_le (r z φ : ℝ) : |z * cos φ - r * sin φ| ≤ √(r ^ 2 + z ^ 2) := by
  apply Real.abs_le_sqrt
  nlinarith [sq_nonneg (r * cos φ + z * sin φ), sin_sq_add_cos_sq φ]

theorem Dfun_deriv_abs_le {e : ℝ} (he : EccOK e) (z r φ : ℝ) :
    |r * cos φ - (e * cos φ / (Wd e φ * √(Wd e φ)) * cos φ + (z + gfun e φ) * (-sin φ))|
      ≤ √(r ^ 2 + z ^ 2) + 0.01349 := by
  have h1 := abs_dot_unit_le r z φ
  have h2 : |gfun e φ * sin φ| ≤ 0.00672 := by
    rw [abs_mul]
    calc |gfun e φ| * |sin φ| ≤ 0.00672 * 1 :=
          mul_le_mul (gfun_abs_le he φ) (abs_sin_le_one φ) (abs_nonneg _) (by norm_num)
      _ = 0.00672 := mul_one _
  have h3 : |e * cos φ / (Wd e φ * √(Wd e φ)) * cos φ| ≤ 0.00677 := by
    rw [abs_mul]
    calc _ ≤ 0.00677 * 1 :=
          mul_le_mul (gfun_deriv_abs_le he φ) (abs_cos_le_one φ) (abs_nonneg _) (by norm_num)
      _ = 0.00677 := mul_one _
  have hsplit : r * cos φ - (e * cos φ / (Wd e φ * √(Wd e φ)) * cos φ + (z + gfun e φ) * (-sin φ))
      = (r * cos φ + z * sin φ) + gfun e φ * sin φ - e * cos φ / (Wd e φ * √(Wd e φ)) * cos φ := by ring
  rw [hsplit]
  have := abs_sub (r * cos φ + z * sin φ + gfun e φ * sin φ) (e * cos φ / (Wd e φ * √(Wd e φ)) * cos φ)
  have := abs_add_le (r * cos φ + z * sin φ) (gfun e φ * sin φ)
  linarith

/-- `D` is `(R + 0.01349)`-Lipschitz -/
theorem Dfun_lipschitz {e : ℝ} (he : EccOK e) (z r φ₁ φ₂ : ℝ) :
    |Dfun e z r φ₁ - Dfun e z r φ₂| ≤ (√(r ^ 2 + z ^ 2) + 0.01349) * |φ₁ - φ₂| := by
  have h := Convex.norm_image_sub_le_of_norm_hasDerivWithin_le (s := Set.univ) (f := Dfun e z r)
    (f' := fun φ => r * cos φ - (e * cos φ / (Wd e φ * √(Wd e φ)) * cos φ + (z + gfun e φ) * (-sin φ)))
    (C := √(r ^ 2 + z ^ 2) + 0.01349) (x := φ₂) (y := φ₁)
    (fun x _ => (hasDerivAt_Dfun he z r x).hasDerivWithinAt)
    (fun x _ => by rw [Real.norm_eq_abs]; exact Dfun_deriv_abs_le he z r x)
    convex_univ (Set.mem_univ _) (Set.mem_univ _)
  simpa only [Real.norm_eq_abs] using h

/-! ### the fixed point in geodetic form -/

theorem point_ne_zero {e : ℝ} (he : EccOK e) {z r : ℝ} (hp : 0.99 ^ 2 ≤ r ^ 2 + z ^ 2) (φ : ℝ) :
    r ≠ 0 ∨ z + gfun e φ ≠ 0 := by
  have h := rho_sq_ge hp (gfun_abs_le he φ)
  by_contra hcon
  rw [not_or, not_not, not_not] at hcon
  rw [hcon.1, hcon.2] at h
  norm_num at h

/-- at a fixed point `φ` of the body: `(r, z + g(φ)) = ρ (cos φ, sin φ)` with `ρ > 0` -/
theorem fix_polar {e : ℝ} (he : EccOK e) {z r : ℝ} (hp : 0.99 ^ 2 ≤ r ^ 2 + z ^ 2) {φ : ℝ}
    (hfix : Tmap e z r φ = φ) : ∃ ρ : ℝ, 0 < ρ ∧ r = ρ * cos φ ∧ z + gfun e φ = ρ * sin φ := by
  obtain ⟨ρ, hρ, h1, h2⟩ := PV.C04.arg_polar_form r (z + gfun e φ) (point_ne_zero he hp φ)
  unfold Tmap at hfix
  rw [hfix] at h1 h2
  exact ⟨ρ, hρ, h1, h2⟩

/-- `D` vanishes at the fixed point: the point is on the normal through the ellipse point of latitude `φ` -/
theorem Dfun_fix {e : ℝ} (he : EccOK e) {z r : ℝ} (hp : 0.99 ^ 2 ≤ r ^ 2 + z ^ 2) {φ : ℝ}
    (hfix : Tmap e z r φ = φ) : Dfun e z r φ = 0 := by
  obtain ⟨ρ, -, h1, h2⟩ := fix_polar he hp hfix
  unfold Dfun
  rw [h2, h1]; ring

/-- geodetic form: with `c = c(φ)` and the height `h = ρ − c > −c`,
    `r = (c + h) cos φ`, `z = ((1−e) c + h) sin φ` -/
theorem fix_form {e : ℝ} (he : EccOK e) {z r : ℝ} (hp : 0.99 ^ 2 ≤ r ^ 2 + z ^ 2) {φ : ℝ}
    (hfix : Tmap e z r φ = φ) :
    ∃ h : ℝ, -cfun e φ < h ∧ r = (cfun e φ + h) * cos φ ∧ z = ((1 - e) * cfun e φ + h) * sin φ := by
  obtain ⟨ρ, hρ, h1, h2⟩ := fix_polar he hp hfix
  refine ⟨ρ - cfun e φ, by linarith, by rw [h1]; ring, ?_⟩
  have : z = ρ * sin φ - gfun e φ := by linarith
  rw [this]; unfold gfun cfun; ring

/-! ### (3) the value returned by an exit `|T(φ) − φ| ≤ τ` -/

/-- distance of the exit value from the fixed point, with the distance-dependent factor:
    `|lat − φs| (R − 0.01349) ≤ 0.00677 τ` -/
theorem exit_close_P {e : ℝ} (he : EccOK e) {z r : ℝ} (hr : 0 ≤ r) (hp : 0.99 ^ 2 ≤ r ^ 2 + z ^ 2)
    {φ lat φs τ : ℝ} (hstep : Tmap e z r φ = lat) (hclose : |lat - φ| ≤ τ)
    (hfix : Tmap e z r φs = φs) :
    |lat - φs| * (√(r ^ 2 + z ^ 2) - 0.01349) ≤ 0.00677 * τ := by
  have hR : 0.99 ≤ √(r ^ 2 + z ^ 2) := Real.le_sqrt_of_sq_le hp
  have hR2 : √(r ^ 2 + z ^ 2) ^ 2 ≤ r ^ 2 + z ^ 2 := le_of_eq (Real.sq_sqrt (by positivity))
  have h1 := Tmap_lipschitz_P he hr hR hR2 φ φs
  rw [hstep, hfix] at h1
  have h2 : |φ - φs| ≤ |φ - lat| + |lat - φs| := by
    have := abs_add_le (φ - lat) (lat - φs)
    rwa [sub_add_sub_cancel] at this
  have h3 : |φ - lat| = |lat - φ| := abs_sub_comm _ _
  nlinarith

/-- the distance from the normal line at the returned latitude: `≤ 1.1e-7` equatorial radii (0.70 m) for the
    `np.allclose` exit (`τ ≤ 1e-8 + 1e-5·π/2 ≤ 1.5718e-5`), at EVERY distance `R ≥ 0.99` -/
theorem Dfun_exit_le {e : ℝ} (he : EccOK e) {z r : ℝ} (hr : 0 ≤ r) (hp : 0.99 ^ 2 ≤ r ^ 2 + z ^ 2)
    {φ lat φs τ : ℝ} (hstep : Tmap e z r φ = lat) (hclose : |lat - φ| ≤ τ) (hτ : τ ≤ 1.5718e-5)
    (hfix : Tmap e z r φs = φs) : |Dfun e z r lat| ≤ 1.1e-7 := by
  have hR : 0.99 ≤ √(r ^ 2 + z ^ 2) := Real.le_sqrt_of_sq_le hp
  have h1 := exit_close_P he hr hp hstep hclose hfix
  have h2 := Dfun_lipschitz he z r lat φs
  rw [Dfun_fix he hp hfix, sub_zero] at h2
  set R := √(r ^ 2 + z ^ 2)
  set x := |lat - φs|
  have hx0 : 0 ≤ x := abs_nonneg _
  -- x (R − 0.01349) ≤ 0.00677 τ,  |D| ≤ (R + 0.01349) x = (R − 0.01349) x + 0.02698 x
  have hx : x * 0.97651 ≤ 0.00677 * τ := by nlinarith
  nlinarith
end PV.GeoB
