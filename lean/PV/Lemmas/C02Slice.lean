/-
  Slicing a concatenation of fixed-width columns; digit-string values; the check digit.  Core Lean only.
-/
import PV.Lemmas.C02Text
import PV.Spec.TleLayout
import PV.Model.Checksum
set_option linter.unusedSimpArgs false
namespace PV.C02
open PV.Text PV.Spec.TleLayout

/-! ### slices of concatenated columns -/

theorem slice_append_left (c r : List Char) (a w : Nat) :
    slice (c ++ r) (c.length + a) (c.length + a + w) = slice r a (a + w) := by
  unfold slice
  rw [show c.length + a + w = c.length + (a + w) by omega]
  rw [List.take_append, List.drop_append]
  simp

/-- Slicing the concatenation of columns (followed by anything) at a column's offset, over that column's
    width, returns the column. -/
theorem slice_concat_fields_at (cols : List (List Char)) (sfx : List Char) (k : Nat) (col : List Char)
    (hk : cols[k]? = some col) :
    slice (concatCols cols ++ sfx) (offset cols k) (offset cols k + col.length) = col := by
  induction cols generalizing k with
  | nil => simp at hk
  | cons c cs ih =>
    cases k with
    | zero =>
      simp only [List.getElem?_cons_zero, Option.some.injEq] at hk
      subst hk
      simp [offset, concatCols, slice, List.append_assoc]
    | succ j =>
      simp only [List.getElem?_cons_succ] at hk
      have := ih j hk
      have ho : offset (c :: cs) (j + 1) = c.length + offset cs j := by
        simp [offset]
      rw [ho]
      have hc : concatCols (c :: cs) ++ sfx = c ++ (concatCols cs ++ sfx) := by
        simp [concatCols]
      rw [hc, slice_append_left]
      exact this

/-- the form used below: offsets and widths given as numbers -/
theorem slice_col {cols : List (List Char)} {sfx : List Char} (k : Nat) {a b : Nat} {col : List Char}
    (hk : cols[k]? = some col) (ha : offset cols k = a) (hb : a + col.length = b) :
    slice (concatCols cols ++ sfx) a b = col := by
  subst ha; subst hb; exact slice_concat_fields_at cols sfx k col hk

/-! ### digit strings as numbers -/

theorem foldl_digits_acc (s : List Char) (a : Nat) :
    s.foldl (fun a c => a * 10 + digitVal c) a = a * 10 ^ s.length + s.foldl (fun a c => a * 10 + digitVal c) 0 := by
  induction s generalizing a with
  | nil => simp
  | cons c cs ih =>
    simp only [List.foldl_cons, List.length_cons]
    rw [ih (a * 10 + digitVal c), ih (0 * 10 + digitVal c)]
    rw [Nat.pow_succ, Nat.add_mul, Nat.add_mul]
    have : a * 10 * 10 ^ cs.length = a * (10 ^ cs.length * 10) := by
      rw [Nat.mul_assoc, Nat.mul_comm 10]
    omega

theorem natOfDigits_append (a b : List Char) :
    natOfDigits (a ++ b) = natOfDigits a * 10 ^ b.length + natOfDigits b := by
  unfold natOfDigits
  rw [List.foldl_append, foldl_digits_acc]

theorem digitVal_le {c : Char} (h : isAsciiDigit c = true) : digitVal c ≤ 9 := by
  have := digit_range h; unfold digitVal; omega

theorem natOfDigits_lt {s : List Char} (h : s.all isAsciiDigit = true) : natOfDigits s < 10 ^ s.length := by
  induction s with
  | nil => simp [natOfDigits]
  | cons c cs ih =>
    simp only [List.all_cons, Bool.and_eq_true] at h
    have h1 := ih h.2
    have h2 := digitVal_le h.1
    have h3 : natOfDigits (c :: cs) = digitVal c * 10 ^ cs.length + natOfDigits cs := by
      have := natOfDigits_append [c] cs
      simpa [natOfDigits] using this
    rw [h3, List.length_cons, Nat.pow_succ]
    have h4 : digitVal c * 10 ^ cs.length ≤ 9 * 10 ^ cs.length := Nat.mul_le_mul_right _ h2
    omega

/-! ### the check digit -/

theorem digitChar_facts : ∀ k : Fin 10, isAsciiDigit (digitChar k.val) = true ∧ digitVal (digitChar k.val) = k.val := by
  decide

theorem lineCheck_withCheck (body : List Char) : PV.Checksum.lineCheck (withCheck body) = .good := by
  unfold PV.Checksum.lineCheck withCheck
  have hk : PV.Checksum.sumW body % 10 < 10 := Nat.mod_lt _ (by decide)
  have := digitChar_facts ⟨_, hk⟩
  simp only [List.getLast?_append, List.getLast?_singleton, Option.some_or, List.dropLast_concat, this.1, this.2,
    if_true]

theorem strip_withCheck {c : Char} {r : List Char} (hc : isPyWs c = false) :
    strip (withCheck (c :: r)) = withCheck (c :: r) := by
  unfold withCheck
  have hk : PV.Checksum.sumW (c :: r) % 10 < 10 := Nat.mod_lt _ (by decide)
  have := digitChar_facts ⟨_, hk⟩
  exact strip_padded (s := c :: r ++ [digitChar (PV.Checksum.sumW (c :: r) % 10)]) (c := c)
    (r := r ++ [digitChar (PV.Checksum.sumW (c :: r) % 10)])
    (by
      have : c ≠ ' ' := by intro e; subst e; simp [isPyWs] at hc
      simp [List.dropWhile_cons, this])
    hc (by rw [← List.cons_append, List.getLast?_append]; rfl) (digit_not_ws this.1)

end PV.C02
