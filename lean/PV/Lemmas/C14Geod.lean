/-
  Helper lemmas for C14/C07: the geodetic helpers of geoloc.py over ℝ.
-/
import PV.Lemmas.C14
import Mathlib.Analysis.SpecialFunctions.Complex.Arg
namespace PV.C14L
open PV

/-- `1 - e² sin² φ` -/
noncomputable def Wden (a b lat : ℝ) : ℝ := 1 - (a * a - b * b) / (a * a) * Real.sin lat ^ 2

theorem Wden_pos (a b lat : ℝ) (hb : 0 < b) (hab : b < a) : 0 < Wden a b lat := by
  have ha : 0 < a := hb.trans hab
  have hs : Real.sin lat ^ 2 ≤ 1 := Real.sin_sq_le_one lat
  have hs0 : 0 ≤ Real.sin lat ^ 2 := sq_nonneg _
  have he : (a * a - b * b) / (a * a) = 1 - b * b / (a * a) := by field_simp
  have hq : 0 < b * b / (a * a) := by positivity
  have hq1 : b * b / (a * a) < 1 := by
    rw [div_lt_one (by positivity)]; nlinarith
  have := mul_le_mul_of_nonneg_left hs (by linarith : (0:ℝ) ≤ 1 - b * b / (a * a))
  unfold Wden
  rw [he]
  linarith

theorem ellipsoidPoint_real (a b lat lon : ℝ) :
    Geoloc.ellipsoidPoint a b lat lon =
      ⟨a / Real.sqrt (Wden a b lat) * Real.cos lat * Real.cos lon,
       a / Real.sqrt (Wden a b lat) * Real.cos lat * Real.sin lon,
       (1 - (a * a - b * b) / (a * a)) * (a / Real.sqrt (Wden a b lat)) * Real.sin lat⟩ := by
  simp only [Geoloc.ellipsoidPoint, Wden, r_sub, r_mul, r_div, r_sq, r_sqrt, r_sin, r_cos, r_ofNat]
  simp only [Nat.cast_one]

theorem primeVertical_real (a b lat : ℝ) : Wgs84.primeVertical a b lat = a / Real.sqrt (Wden a b lat) := by
  simp only [Wgs84.primeVertical, Wgs84.ecc2, Wden, r_sub, r_mul, r_div, r_sqrt, r_sin, r_ofNat]
  simp only [Nat.cast_one, ← pow_two]

theorem onEllipsoid_real (a b : ℝ) (p : V3 ℝ) :
    Wgs84.OnEllipsoid a b p ↔ p.x ^ 2 / a ^ 2 + p.y ^ 2 / a ^ 2 + p.z ^ 2 / b ^ 2 = 1 := by
  simp only [Wgs84.OnEllipsoid, Wgs84.ellipsoidLhs, r_add, r_mul, r_div, r_ofNat]
  simp only [Nat.cast_one, ← pow_two]

theorem onEllipsoid_iff (a b : ℝ) (p : V3 ℝ) :
    Wgs84.OnEllipsoid a b p ↔ Wgs84.ellipsoidLhs a b p = 1 := by
  simp only [Wgs84.OnEllipsoid, r_ofNat, Nat.cast_one]

theorem ellipsoidPoint_on (a b lat lon : ℝ) (hb : 0 < b) (hab : b < a) :
    Wgs84.OnEllipsoid a b (Geoloc.ellipsoidPoint a b lat lon) := by
  have ha : 0 < a := hb.trans hab
  have hW := Wden_pos a b lat hb hab
  have hsq := Real.sq_sqrt hW.le
  have hs0 : Real.sqrt (Wden a b lat) ≠ 0 := (Real.sqrt_pos.mpr hW).ne'
  rw [onEllipsoid_real, ellipsoidPoint_real]
  simp only []
  have hWd : Wden a b lat = 1 - (a * a - b * b) / (a * a) * Real.sin lat ^ 2 := rfl
  have hcl := Real.sin_sq_add_cos_sq lon
  have hcs := Real.sin_sq_add_cos_sq lat
  generalize Real.sqrt (Wden a b lat) = q at *
  rw [← hsq] at hWd
  field_simp
  field_simp at hWd
  linear_combination (a ^ 2 * b ^ 2 * Real.cos lat ^ 2) * hcl - b ^ 2 * hWd + (a ^ 2 * b ^ 2) * hcs

theorem geodStep_real (a b z r phi : ℝ) :
    Geoloc.geodStep a b z r phi =
      Complex.arg ⟨r, z + a * (1 / Real.sqrt (Wden a b phi)) * ((a * a - b * b) / (a * a)) * Real.sin phi⟩ := by
  simp only [Geoloc.geodStep, Wden, r_add, r_sub, r_mul, r_div, r_sq, r_sqrt, r_sin, r_atan2, r_ofNat]
  simp only [Nat.cast_one]

theorem arg_polar (ρ θ : ℝ) (hρ : 0 < ρ) (h1 : -Real.pi < θ) (h2 : θ ≤ Real.pi) :
    Complex.arg ⟨ρ * Real.cos θ, ρ * Real.sin θ⟩ = θ := by
  have h := Complex.arg_mul_cos_add_sin_mul_I hρ (θ := θ) ⟨h1, h2⟩
  refine Eq.trans ?_ h
  congr 1
  apply Complex.ext <;> simp [Complex.cos_ofReal_re, Complex.sin_ofReal_re, Complex.cos_ofReal_im, Complex.sin_ofReal_im]

/-- the geodetic point (lat, lon, h) in plain notation -/
noncomputable def geoP (a b lat lon h : ℝ) : V3 ℝ :=
  ⟨(a / Real.sqrt (Wden a b lat) + h) * Real.cos lat * Real.cos lon,
   (a / Real.sqrt (Wden a b lat) + h) * Real.cos lat * Real.sin lon,
   ((1 - (a * a - b * b) / (a * a)) * (a / Real.sqrt (Wden a b lat)) + h) * Real.sin lat⟩

theorem geodStep_fixed (a b lat lon h : ℝ)
    (hlat1 : -(Real.pi / 2) < lat) (hlat2 : lat < Real.pi / 2)
    (hh : 0 < a / Real.sqrt (Wden a b lat) + h) :
    Geoloc.geodStep a b (geoP a b lat lon h).z
      (Real.sqrt ((geoP a b lat lon h).x * (geoP a b lat lon h).x + (geoP a b lat lon h).y * (geoP a b lat lon h).y)) lat
      = lat := by
  have hc : 0 < Real.cos lat := Real.cos_pos_of_mem_Ioo ⟨hlat1, hlat2⟩
  have hcl := Real.sin_sq_add_cos_sq lon
  rw [geodStep_real]
  simp only [geoP]
  set N := a / Real.sqrt (Wden a b lat) with hN
  have hr : Real.sqrt ((N + h) * Real.cos lat * Real.cos lon * ((N + h) * Real.cos lat * Real.cos lon) +
      (N + h) * Real.cos lat * Real.sin lon * ((N + h) * Real.cos lat * Real.sin lon)) = (N + h) * Real.cos lat := by
    have : (N + h) * Real.cos lat * Real.cos lon * ((N + h) * Real.cos lat * Real.cos lon) +
      (N + h) * Real.cos lat * Real.sin lon * ((N + h) * Real.cos lat * Real.sin lon) = ((N + h) * Real.cos lat) ^ 2 := by
      linear_combination ((N + h) * Real.cos lat) ^ 2 * hcl
    rw [this, Real.sqrt_sq (by positivity)]
  have hz : ((1 - (a * a - b * b) / (a * a)) * N + h) * Real.sin lat +
      a * (1 / Real.sqrt (Wden a b lat)) * ((a * a - b * b) / (a * a)) * Real.sin lat = (N + h) * Real.sin lat := by
    rw [hN]; ring
  rw [hr, hz]
  exact arg_polar _ _ hh (by linarith [Real.pi_pos]) (by linarith [Real.pi_pos])

/-- the default ellipsoid of geoloc.py satisfies A > B > 0 -/
theorem default_axes' : (0 : ℝ) < Geoloc.B ∧ (Geoloc.B : ℝ) < Geoloc.A := by
  simp only [Geoloc.A, Geoloc.B, Gen.geoloc_A, Gen.geoloc_B, r_ofSci]
  norm_num

end PV.C14L
