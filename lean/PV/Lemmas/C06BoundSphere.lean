/-
  PV.Lemmas.C06BoundSphere — spherical-geometry lemmas for the C06 propagation bounds
  (PV.Props.C06Bound), over ℝ, written with explicit coordinates:

  * `zen_lip` — the angle to a fixed unit vector is 1-Lipschitz in the other unit vector
    (spherical triangle inequality) : |arccos⟨z,u⟩ − arccos⟨z,v⟩| ≤ arccos⟨u,v⟩, from the
    Gram determinant  1 − a² − b² − c² + 2abc = det[z u v]² ≥ 0;
  * `arccos_le_abs_of_cos_le` — cos Δ ≤ c ⇒ arccos c ≤ |Δ|;
  * `dir_of_radec` — (cos δ cos α, cos δ sin α, sin δ) = (cos λ, cos ε sin λ, sin ε sin λ) for
    α = atan2(cos ε sin λ, cos λ), δ = asin(sin ε sin λ), cos ε > 0;
  * `exists_int_of_arccos_cos_le` — angular distance ≤ B ⇒ agreement modulo 2π within B.
-/
import PV.NumReal
namespace PV.C06B

/-! ### Gram determinant and Cauchy–Schwarz in coordinates -/

theorem gram_abs (Z U V a b c det : ℝ) (hZ : Z = 1) (hU : U = 1) (hV : V = 1)
    (hdet : Z * U * V + 2 * a * b * c - Z * c ^ 2 - U * b ^ 2 - V * a ^ 2 = det ^ 2) :
    (c - a * b) ^ 2 ≤ (1 - a ^ 2) * (1 - b ^ 2) := by
  subst hZ hU hV
  nlinarith [sq_nonneg det]

theorem gram_id (z1 z2 z3 u1 u2 u3 v1 v2 v3 : ℝ) :
    (z1 ^ 2 + z2 ^ 2 + z3 ^ 2) * (u1 ^ 2 + u2 ^ 2 + u3 ^ 2) * (v1 ^ 2 + v2 ^ 2 + v3 ^ 2)
      + 2 * (z1 * u1 + z2 * u2 + z3 * u3) * (z1 * v1 + z2 * v2 + z3 * v3)
          * (u1 * v1 + u2 * v2 + u3 * v3)
      - (z1 ^ 2 + z2 ^ 2 + z3 ^ 2) * (u1 * v1 + u2 * v2 + u3 * v3) ^ 2
      - (u1 ^ 2 + u2 ^ 2 + u3 ^ 2) * (z1 * v1 + z2 * v2 + z3 * v3) ^ 2
      - (v1 ^ 2 + v2 ^ 2 + v3 ^ 2) * (z1 * u1 + z2 * u2 + z3 * u3) ^ 2
    = (z1 * (u2 * v3 - u3 * v2) - z2 * (u1 * v3 - u3 * v1) + z3 * (u1 * v2 - u2 * v1)) ^ 2 := by
  ring

theorem dot_sq_le_one (z1 z2 z3 u1 u2 u3 : ℝ) (hz : z1 ^ 2 + z2 ^ 2 + z3 ^ 2 = 1)
    (hu : u1 ^ 2 + u2 ^ 2 + u3 ^ 2 = 1) : (z1 * u1 + z2 * u2 + z3 * u3) ^ 2 ≤ 1 := by
  have h : (z1 ^ 2 + z2 ^ 2 + z3 ^ 2) * (u1 ^ 2 + u2 ^ 2 + u3 ^ 2)
      - (z1 * u1 + z2 * u2 + z3 * u3) ^ 2
      = (z1 * u2 - z2 * u1) ^ 2 + (z1 * u3 - z3 * u1) ^ 2 + (z2 * u3 - z3 * u2) ^ 2 := by ring
  rw [hz, hu] at h
  nlinarith [sq_nonneg (z1 * u2 - z2 * u1), sq_nonneg (z1 * u3 - z3 * u1),
    sq_nonneg (z2 * u3 - z3 * u2)]

/-! ### arccos -/

/-- cos Δ ≤ c ⇒ arccos c ≤ |Δ| (for every real Δ, also beyond π) -/
theorem arccos_le_abs_of_cos_le (c D : ℝ) (h : Real.cos D ≤ c) : Real.arccos c ≤ |D| := by
  by_cases hD : |D| ≤ Real.pi
  · rw [← Real.cos_abs] at h
    have := Real.arccos_le_arccos h
    rwa [Real.arccos_cos (abs_nonneg D) hD] at this
  · exact le_trans (Real.arccos_le_pi c) (le_of_lt (not_le.mp hD))

/-- the arccos form of the spherical triangle inequality, from the Gram inequality -/
theorem arccos_sub_le (a b c : ℝ) (ha : a ^ 2 ≤ 1) (hb : b ^ 2 ≤ 1)
    (h : (c - a * b) ^ 2 ≤ (1 - a ^ 2) * (1 - b ^ 2)) :
    |Real.arccos a - Real.arccos b| ≤ Real.arccos c := by
  obtain ⟨a1, a2⟩ := abs_le.mp ((sq_le_one_iff_abs_le_one a).mp ha)
  obtain ⟨b1, b2⟩ := abs_le.mp ((sq_le_one_iff_abs_le_one b).mp hb)
  have hsA : Real.sin (Real.arccos a) ^ 2 = 1 - a ^ 2 := by
    rw [Real.sin_arccos, Real.sq_sqrt (by linarith)]
  have hsB : Real.sin (Real.arccos b) ^ 2 = 1 - b ^ 2 := by
    rw [Real.sin_arccos, Real.sq_sqrt (by linarith)]
  have hA0 : 0 ≤ Real.sin (Real.arccos a) := by rw [Real.sin_arccos]; exact Real.sqrt_nonneg _
  have hB0 : 0 ≤ Real.sin (Real.arccos b) := by rw [Real.sin_arccos]; exact Real.sqrt_nonneg _
  have hprod : (c - a * b) ^ 2 ≤ (Real.sin (Real.arccos a) * Real.sin (Real.arccos b)) ^ 2 := by
    rw [mul_pow, hsA, hsB]; exact h
  have hle : c - a * b ≤ Real.sin (Real.arccos a) * Real.sin (Real.arccos b) :=
    (abs_le_of_sq_le_sq' hprod (mul_nonneg hA0 hB0)).2
  have hcos : c ≤ Real.cos |Real.arccos a - Real.arccos b| := by
    rw [Real.cos_abs, Real.cos_sub, Real.cos_arccos a1 a2, Real.cos_arccos b1 b2]
    linarith
  have hpi : |Real.arccos a - Real.arccos b| ≤ Real.pi := by
    rw [abs_le]
    constructor <;>
      linarith [Real.arccos_nonneg a, Real.arccos_nonneg b, Real.arccos_le_pi a,
        Real.arccos_le_pi b]
  have := Real.arccos_le_arccos hcos
  rwa [Real.arccos_cos (abs_nonneg _) hpi] at this

/-- the zenith angle (angle to the fixed unit vector z) is 1-Lipschitz in the direction:
    |∠(z,u) − ∠(z,v)| ≤ ∠(u,v) for unit vectors of ℝ³ given by coordinates -/
theorem zen_lip (z1 z2 z3 u1 u2 u3 v1 v2 v3 a b c : ℝ) (hz : z1 ^ 2 + z2 ^ 2 + z3 ^ 2 = 1)
    (hu : u1 ^ 2 + u2 ^ 2 + u3 ^ 2 = 1) (hv : v1 ^ 2 + v2 ^ 2 + v3 ^ 2 = 1)
    (ha : a = z1 * u1 + z2 * u2 + z3 * u3) (hb : b = z1 * v1 + z2 * v2 + z3 * v3)
    (hc : c = u1 * v1 + u2 * v2 + u3 * v3) :
    |Real.arccos a - Real.arccos b| ≤ Real.arccos c := by
  subst ha hb hc
  exact arccos_sub_le _ _ _ (dot_sq_le_one _ _ _ _ _ _ hz hu) (dot_sq_le_one _ _ _ _ _ _ hz hv)
    (gram_abs _ _ _ _ _ _ _ hz hu hv (gram_id z1 z2 z3 u1 u2 u3 v1 v2 v3))

/-! ### direction vector of (α, δ) -/

/-- the equatorial unit vector of the textbook RA/Dec is (cos λ, cos ε sin λ, sin ε sin λ) -/
theorem dir_of_radec (eps lam : ℝ) (hk : 0 < Real.cos eps) :
    Real.cos (Real.arcsin (Real.sin eps * Real.sin lam))
        * Real.cos (Complex.arg ⟨Real.cos lam, Real.cos eps * Real.sin lam⟩) = Real.cos lam ∧
    Real.cos (Real.arcsin (Real.sin eps * Real.sin lam))
        * Real.sin (Complex.arg ⟨Real.cos lam, Real.cos eps * Real.sin lam⟩)
      = Real.cos eps * Real.sin lam ∧
    Real.sin (Real.arcsin (Real.sin eps * Real.sin lam)) = Real.sin eps * Real.sin lam := by
  have hz : |Real.sin eps * Real.sin lam| ≤ 1 := by
    rw [abs_mul]
    exact mul_le_one₀ (Real.abs_sin_le_one _) (abs_nonneg _) (Real.abs_sin_le_one _)
  obtain ⟨z1, z2⟩ := abs_le.mp hz
  have h1 := Real.sin_sq_add_cos_sq eps
  have h2 := Real.sin_sq_add_cos_sq lam
  have hrr : 1 - (Real.sin eps * Real.sin lam) ^ 2
      = Real.cos lam ^ 2 + (Real.cos eps * Real.sin lam) ^ 2 := by
    linear_combination (-1 : ℝ) * h2 - Real.sin lam ^ 2 * h1
  have hpos : 0 < Real.cos lam ^ 2 + (Real.cos eps * Real.sin lam) ^ 2 := by
    have : 0 < Real.cos eps ^ 2 := by positivity
    nlinarith [sq_nonneg (Real.sin lam), sq_nonneg (Real.cos lam)]
  have hw : (⟨Real.cos lam, Real.cos eps * Real.sin lam⟩ : ℂ) ≠ 0 := by
    intro h0
    have e1 := congrArg Complex.re h0
    have e2 := congrArg Complex.im h0
    simp only [Complex.zero_re, Complex.zero_im] at e1 e2
    rw [e1, e2] at hpos
    simp at hpos
  have hn : ‖(⟨Real.cos lam, Real.cos eps * Real.sin lam⟩ : ℂ)‖
      = Real.sqrt (Real.cos lam ^ 2 + (Real.cos eps * Real.sin lam) ^ 2) := by
    rw [Complex.norm_eq_sqrt_sq_add_sq]
  have hs0 : 0 < Real.sqrt (Real.cos lam ^ 2 + (Real.cos eps * Real.sin lam) ^ 2) :=
    Real.sqrt_pos.mpr hpos
  refine ⟨?_, ?_, Real.sin_arcsin z1 z2⟩
  · rw [Real.cos_arcsin, Complex.cos_arg hw, hn, hrr]
    generalize Real.sqrt (Real.cos lam ^ 2 + (Real.cos eps * Real.sin lam) ^ 2) = r at hs0
    field_simp
  · rw [Real.cos_arcsin, Complex.sin_arg, hn, hrr]
    generalize Real.sqrt (Real.cos lam ^ 2 + (Real.cos eps * Real.sin lam) ^ 2) = r at hs0
    field_simp

/-! ### angular distance -/

/-- angular distance arccos(cos x) ≤ B ⇒ x is within B of a multiple of 2π -/
theorem exists_int_of_arccos_cos_le (x B : ℝ) (h : Real.arccos (Real.cos x) ≤ B) :
    ∃ k : ℤ, |x - 2 * Real.pi * k| ≤ B := by
  have hc : Real.cos (Real.arccos (Real.cos x)) = Real.cos x :=
    Real.cos_arccos (Real.neg_one_le_cos x) (Real.cos_le_one x)
  obtain ⟨k, hk | hk⟩ := Real.cos_eq_cos_iff.mp hc
  · refine ⟨k, ?_⟩
    have e : x - 2 * Real.pi * k = Real.arccos (Real.cos x) := by
      linear_combination hk
    rw [e, abs_of_nonneg (Real.arccos_nonneg _)]; exact h
  · refine ⟨k, ?_⟩
    have e : x - 2 * Real.pi * k = -Real.arccos (Real.cos x) := by
      linear_combination hk
    rw [e, abs_neg, abs_of_nonneg (Real.arccos_nonneg _)]; exact h

end PV.C06B
