/-
  C10 — the scanner of PV.Model.Collection on rendered collections (core Lean only).
-/
import PV.Model.Collection
import PV.Spec.CollectionSpec
import PV.Lemmas.C10Text
namespace PV.C10
open PV.Text PV.Collection PV.CollectionSpec

/-- the request a scanner configuration stands for -/
def reqOf (cfg : Cfg) : Req := { name := cfg.platform, regId := cfg.reg cfg.platform, stream := cfg.dummy }

@[simp] theorem reqOf_name (cfg : Cfg) : (reqOf cfg).name = cfg.platform := rfl
@[simp] theorem reqOf_regId (cfg : Cfg) : (reqOf cfg).regId = cfg.reg cfg.platform := rfl
@[simp] theorem reqOf_stream (cfg : Cfg) : (reqOf cfg).stream = cfg.dummy := rfl

theorem render_cons (e : Entry) (es : List Entry) (eol : List Char) :
    render (e :: es) eol = entryLines e eol ++ render es eol := by
  simp [render]

/-- a line that is neither the requested name nor starts with "1 " is passed over -/
theorem decode_miss (cfg : Cfg) (b : Bool) (l0 : Line) (rest : List Line)
    (hn : cfg.platform = [] ∨ strip l0 ≠ cfg.platform) (h1 : startsWith (strip l0) ['1', ' '] = false) :
    decodeLines cfg b l0 rest = .miss := by
  unfold decodeLines
  have hd : startsWith (strip l0) (designator cfg) = false := by
    cases h : startsWith (strip l0) (designator cfg) with
    | false => rfl
    | true => rw [startsWith_one_space _ _ h] at h1; cases h1
  have : (!cfg.platform.isEmpty && decide (strip l0 = cfg.platform)) = false := by
    rcases hn with h | h
    · simp [h]
    · simp [h]
  simp [this, hd]

theorem ne_of_startsWith {s t p : List Char} (hs : startsWith s p = true) (ht : startsWith t p = false) : s ≠ t := by
  intro h; rw [h, ht] at hs; cases hs

theorem two_not_one (s : List Char) (h : startsWith s ['2', ' '] = true) : startsWith s ['1', ' '] = false := by
  match s with
  | [] => simp [startsWith] at h
  | [_] => simp [startsWith] at h
  | a :: b :: r =>
    simp [startsWith] at h ⊢
    intro ha; rw [h.1] at ha; cases ha

/-- the id / first-entry part of `qualifies` -/
def idOrFirst (q : Req) (e : Entry) : Bool := idMatches q e || (q.stream && q.name.isEmpty)

theorem firstTle_cons_miss (cfg : Cfg) (l0 : Line) (rest : List Line)
    (h : decodeLines cfg true l0 rest = .miss) : firstTle cfg (l0 :: rest) = firstTle cfg rest := by
  simp [firstTle, h]

/-- scanning line 1 and line 2 of a well-formed entry -/
theorem firstTle_body (cfg : Cfg) (e : Entry) (eol : List Char) (tail : List Line)
    (heol : eol.all isPyWs = true)
    (hlen : (strip e.l1).length = 69) (h1 : startsWith (strip e.l1) ['1', ' '] = true)
    (h2 : startsWith (strip e.l2) ['2', ' '] = true)
    (hp1 : startsWith cfg.platform ['1', ' '] = false) (hp2 : startsWith cfg.platform ['2', ' '] = false)
    (hreg : ∀ id, cfg.reg cfg.platform = some id → id.length = 5 ∧ cfg.platform ≠ []) :
    firstTle cfg ((e.l1 ++ eol) :: (e.l2 ++ eol) :: tail) =
      if idOrFirst (reqOf cfg) e then .ok (some (result e)) else firstTle cfg tail := by
  have hs1 : strip (e.l1 ++ eol) = strip e.l1 := strip_append_ws _ _ heol
  have hs2 : strip (e.l2 ++ eol) = strip e.l2 := strip_append_ws _ _ heol
  have hne1 : strip e.l1 ≠ cfg.platform := ne_of_startsWith h1 hp1
  have hne2 : strip e.l2 ≠ cfg.platform := ne_of_startsWith h2 hp2
  have hmiss2 : decodeLines cfg true (e.l2 ++ eol) tail = .miss :=
    decode_miss cfg true _ _ (Or.inr (by rw [hs2]; exact hne2)) (by rw [hs2]; exact two_not_one _ h2)
  cases hr : cfg.reg cfg.platform with
  | some id =>
    obtain ⟨hid, hpne⟩ := hreg id hr
    have hiff := designator_iff_catalogue (strip e.l1) id (by omega) h1 hid
    by_cases hc : slice (strip e.l1) 2 7 = id
    · have hsw := hiff.mpr hc
      have hpe : cfg.platform.isEmpty = false := by simpa using hpne
      simp [firstTle, decodeLines, hs1, hs2, hne1, designator, hr, hsw, idOrFirst, idMatches, reqOf, catalogue, hc, result, hpe]
    · have hsw : startsWith (strip e.l1) ('1' :: ' ' :: id) = false := by
        cases h : startsWith (strip e.l1) ('1' :: ' ' :: id) with
        | false => rfl
        | true => exact absurd (hiff.mp h) hc
      have hpe : cfg.platform.isEmpty = false := by simpa using hpne
      have hm1 : decodeLines cfg true (e.l1 ++ eol) ((e.l2 ++ eol) :: tail) = .miss := by
        simp [decodeLines, hs1, hne1, designator, hr, hsw]
      rw [firstTle_cons_miss _ _ _ hm1, firstTle_cons_miss _ _ _ hmiss2]
      simp [idOrFirst, idMatches, reqOf, hr, catalogue, hc, hpe]
  | none =>
    by_cases hf : (cfg.dummy && cfg.platform.isEmpty) = true
    · have hf' := hf
      simp only [Bool.and_eq_true] at hf'
      simp [firstTle, decodeLines, hs1, hs2, hne1, designator, hr, h1, idOrFirst, idMatches, reqOf, result, hf'.1, hf'.2]
    · have hf0 : (cfg.dummy && cfg.platform.isEmpty) = false := by simpa using hf
      have hm1 : decodeLines cfg true (e.l1 ++ eol) ((e.l2 ++ eol) :: tail) = .miss := by
        simp [decodeLines, hs1, hne1, designator, hr, h1, hf0]
      rw [firstTle_cons_miss _ _ _ hm1, firstTle_cons_miss _ _ _ hmiss2]
      simp [idOrFirst, idMatches, reqOf, hr, hf0]

theorem qualifies_eq (q : Req) (e : Entry) :
    qualifies q e = (nameMatches q e || idOrFirst q e) := by
  simp [qualifies, idOrFirst, Bool.or_assoc]

/-- the facts `wfEntry` packs -/
theorem wfEntry_facts (e : Entry) (h : wfEntry e = true) :
    (strip e.l1).length = 69 ∧ startsWith (strip e.l1) ['1', ' '] = true ∧ startsWith (strip e.l2) ['2', ' '] = true ∧
    ∀ n, e.name = some n → strip n ≠ [] ∧ startsWith (strip n) ['1', ' '] = false := by
  unfold wfEntry at h
  simp only [Bool.and_eq_true, beq_iff_eq] at h
  refine ⟨h.1.1.1, h.1.1.2, h.1.2, ?_⟩
  intro n hn
  have h4 := h.2
  rw [hn] at h4
  simpa using h4

/-- the facts `wfReq` packs -/
theorem wfReq_facts (cfg : Cfg) (h : wfReq (reqOf cfg) = true) :
    startsWith cfg.platform ['1', ' '] = false ∧ startsWith cfg.platform ['2', ' '] = false ∧
    ∀ id, cfg.reg cfg.platform = some id → id.length = 5 ∧ cfg.platform ≠ [] := by
  unfold wfReq reqOf at h
  simp only [Bool.and_eq_true, Bool.not_eq_true'] at h
  refine ⟨h.1.1, h.1.2, ?_⟩
  intro id hid
  have h3 := h.2
  rw [hid] at h3
  simpa using h3

/-- scanning one well-formed entry: it is returned iff it qualifies, otherwise the scan goes on behind it -/
theorem firstTle_entry (cfg : Cfg) (e : Entry) (eol : List Char) (tail : List Line)
    (heol : wfEol eol = true) (he : wfEntry e = true) (hq : wfReq (reqOf cfg) = true) :
    firstTle cfg (entryLines e eol ++ tail) =
      if qualifies (reqOf cfg) e then .ok (some (result e)) else firstTle cfg tail := by
  obtain ⟨hlen, h1, h2, hname⟩ := wfEntry_facts e he
  obtain ⟨hp1, hp2, hreg⟩ := wfReq_facts cfg hq
  have hbody := firstTle_body cfg e eol tail heol hlen h1 h2 hp1 hp2 hreg
  rw [qualifies_eq]
  cases hn : e.name with
  | none =>
    simp only [entryLines, nameMatches, hn, List.nil_append, List.cons_append, Bool.false_or]
    exact hbody
  | some n =>
    obtain ⟨hne, hn1⟩ := hname n hn
    have hsn : strip (n ++ eol) = strip n := strip_append_ws _ _ heol
    simp only [entryLines, hn, List.cons_append, List.nil_append]
    by_cases hm : strip n = cfg.platform
    · have hpe : cfg.platform.isEmpty = false := by rw [← hm]; simpa using hne
      have hs1 : strip (e.l1 ++ eol) = strip e.l1 := strip_append_ws _ _ heol
      have hs2 : strip (e.l2 ++ eol) = strip e.l2 := strip_append_ws _ _ heol
      simp [firstTle, decodeLines, hsn, hm, hpe, hs1, hs2, reqOf, result, nameMatches, hn]
    · have hmiss : decodeLines cfg true (n ++ eol) ((e.l1 ++ eol) :: (e.l2 ++ eol) :: tail) = .miss :=
        decode_miss cfg true _ _ (Or.inr (by rw [hsn]; exact hm)) (by rw [hsn]; exact hn1)
      rw [firstTle_cons_miss _ _ _ hmiss, hbody]
      simp [nameMatches, hn, hm]

/-- **the scanner on a rendered well-formed collection is the spec's selection** -/
theorem firstTle_render (cfg : Cfg) (es : List Entry) (eol : List Char)
    (heol : wfEol eol = true) (hes : wfColl es = true) (hq : wfReq (reqOf cfg) = true) :
    firstTle cfg (render es eol) = .ok ((select (reqOf cfg) es).map result) := by
  induction es with
  | nil => simp [render, firstTle, select]
  | cons e es ih =>
    unfold wfColl at hes
    simp only [List.all_cons, Bool.and_eq_true] at hes
    rw [render_cons, firstTle_entry cfg e eol _ heol hes.1 hq]
    by_cases hqe : qualifies (reqOf cfg) e = true
    · simp [select, hqe]
    · have hqf : qualifies (reqOf cfg) e = false := by simpa using hqe
      simp only [hqf, Bool.false_eq_true, if_false]
      rw [ih (by simpa [wfColl] using hes.2)]
      simp [select, hqf]

/-! ### blank lines between entries -/

theorem decode_blank (cfg : Cfg) (b : Bool) (l0 : Line) (rest : List Line) (h : isBlank l0 = true) :
    decodeLines cfg b l0 rest = .miss := by
  have hs : strip l0 = [] := by simpa [isBlank] using h
  apply decode_miss
  · by_cases hp : cfg.platform = []
    · exact Or.inl hp
    · exact Or.inr (by rw [hs]; exact fun h => hp h.symm)
  · rw [hs]; rfl

theorem firstTle_blanks (cfg : Cfg) (g tail : List Line) (h : g.all isBlank = true) :
    firstTle cfg (g ++ tail) = firstTle cfg tail := by
  induction g with
  | nil => rfl
  | cons b bs ih =>
    simp only [List.all_cons, Bool.and_eq_true] at h
    rw [List.cons_append, firstTle_cons_miss _ _ _ (decode_blank cfg true b _ h.1), ih h.2]

theorem firstTle_renderGaps (cfg : Cfg) (ges : List (List Line × Entry)) (eol : List Char) (trail : List Line)
    (heol : wfEol eol = true) (hes : wfColl (ges.map (·.2)) = true) (hg : wfGaps ges trail = true)
    (hq : wfReq (reqOf cfg) = true) :
    firstTle cfg (renderGaps ges eol trail) = .ok ((select (reqOf cfg) (ges.map (·.2))).map result) := by
  induction ges with
  | nil =>
    simp only [wfGaps, List.all_nil, Bool.true_and] at hg
    have := firstTle_blanks cfg trail [] hg
    simp only [List.append_nil] at this
    simp [renderGaps, this, firstTle, select]
  | cons ge ges ih =>
    simp only [wfColl, List.map_cons, List.all_cons, Bool.and_eq_true] at hes
    simp only [wfGaps, List.all_cons, Bool.and_eq_true] at hg
    have hrest : renderGaps (ge :: ges) eol trail = ge.1 ++ (entryLines ge.2 eol ++ renderGaps ges eol trail) := by
      simp [renderGaps, List.append_assoc]
    rw [hrest, firstTle_blanks _ _ _ hg.1.1, firstTle_entry cfg ge.2 eol _ heol hes.1 hq]
    by_cases hqe : qualifies (reqOf cfg) ge.2 = true
    · simp [select, hqe]
    · have hqf : qualifies (reqOf cfg) ge.2 = false := by simpa using hqe
      simp only [hqf, Bool.false_eq_true, if_false]
      rw [ih (by simpa [wfColl] using hes.2) (by simp [wfGaps, hg.1.2, hg.2])]
      simp [select, hqf]

/-! ### the bulk scan (`only_first = False`, platform "") -/

/-- the configuration of the bulk scan -/
def bulkCfg (dummy : Bool) : Cfg := { platform := [], reg := fun _ => none, dummy := dummy }

theorem scanAll_cons_miss (cfg : Cfg) (l0 : Line) (rest : List Line)
    (h : decodeLines cfg false l0 rest = .miss) : scanAll cfg 0 (l0 :: rest) = scanAll cfg 0 rest := by
  simp [scanAll, h]

theorem scanAll_blanks (cfg : Cfg) (g tail : List Line) (h : g.all isBlank = true) :
    scanAll cfg 0 (g ++ tail) = scanAll cfg 0 tail := by
  induction g with
  | nil => rfl
  | cons b bs ih =>
    simp only [List.all_cons, Bool.and_eq_true] at h
    rw [List.cons_append, scanAll_cons_miss _ _ _ (decode_blank cfg false b _ h.1), ih h.2]

/-- the bulk scan over one well-formed entry yields exactly that entry and goes on behind it -/
theorem scanAll_entry (dummy : Bool) (e : Entry) (eol : List Char) (tail : List Line)
    (heol : wfEol eol = true) (he : wfEntry e = true) :
    scanAll (bulkCfg dummy) 0 (entryLines e eol ++ tail) = (scanAll (bulkCfg dummy) 0 tail).map (result e :: ·) := by
  obtain ⟨_, h1, _, hname⟩ := wfEntry_facts e he
  have hs1 : strip (e.l1 ++ eol) = strip e.l1 := strip_append_ws _ _ heol
  have hs2 : strip (e.l2 ++ eol) = strip e.l2 := strip_append_ws _ _ heol
  have hbody : scanAll (bulkCfg dummy) 0 ((e.l1 ++ eol) :: (e.l2 ++ eol) :: tail) =
      (scanAll (bulkCfg dummy) 0 tail).map (result e :: ·) := by
    simp [scanAll, decodeLines, bulkCfg, designator, hs1, hs2, h1, result]
  cases hn : e.name with
  | none => simpa [entryLines, hn] using hbody
  | some n =>
    obtain ⟨_, hn1⟩ := hname n hn
    have hsn : strip (n ++ eol) = strip n := strip_append_ws _ _ heol
    have hmiss : decodeLines (bulkCfg dummy) false (n ++ eol) ((e.l1 ++ eol) :: (e.l2 ++ eol) :: tail) = .miss :=
      decode_miss _ false _ _ (Or.inl rfl) (by rw [hsn]; exact hn1)
    simp only [entryLines, hn, List.cons_append, List.nil_append]
    rw [scanAll_cons_miss _ _ _ hmiss, hbody]

theorem allTles_renderGaps (dummy : Bool) (ges : List (List Line × Entry)) (eol : List Char) (trail : List Line)
    (heol : wfEol eol = true) (hes : wfColl (ges.map (·.2)) = true) (hg : wfGaps ges trail = true) :
    allTles dummy (renderGaps ges eol trail) = .ok ((ges.map (·.2)).map result) := by
  show scanAll (bulkCfg dummy) 0 _ = _
  induction ges with
  | nil =>
    simp only [wfGaps, List.all_nil, Bool.true_and] at hg
    have := scanAll_blanks (bulkCfg dummy) trail [] hg
    simp only [List.append_nil] at this
    simp [renderGaps, this, scanAll]
  | cons ge ges ih =>
    simp only [wfColl, List.map_cons, List.all_cons, Bool.and_eq_true] at hes
    simp only [wfGaps, List.all_cons, Bool.and_eq_true] at hg
    have hrest : renderGaps (ge :: ges) eol trail = ge.1 ++ (entryLines ge.2 eol ++ renderGaps ges eol trail) := by
      simp [renderGaps, List.append_assoc]
    rw [hrest, scanAll_blanks _ _ _ hg.1.1, scanAll_entry dummy ge.2 eol _ heol hes.1,
      ih (by simpa [wfColl] using hes.2) (by simp [wfGaps, hg.1.2, hg.2])]
    simp [Out.map]

/-- re-reading a merged pair `a + "\n" + b` as a stream with the empty name gives the stripped pair back -/
theorem reread_pair (a b : Line) (h1 : startsWith (strip a) ['1', ' '] = true) (hb : b ≠ []) :
    reread (a, b) = .tle (strip a) (strip b) := by
  have hne : b.isEmpty = false := by simpa using hb
  have hs1 : strip (a ++ ['\n']) = strip a := strip_append_ws _ _ (by decide)
  simp [reread, stringIOLines2, hne, readTle, firstTle, decodeLines, designator, hs1, h1]

theorem strip_ne_nil_of_startsWith {s : List Char} {c d : Char} (h : startsWith (strip s) [c, d] = true) : s ≠ [] := by
  intro hs; subst hs
  have : strip ([] : List Char) = [] := rfl
  rw [this] at h; simp [startsWith] at h

/-- second stage of the bulk reads: `Tle("", tle_file=io.StringIO(l1 + "\n" + l2))` gives the pair back -/
theorem reread_result (e : Entry) (he : wfEntry e = true) : reread (result e) = .tle (strip e.l1) (strip e.l2) := by
  obtain ⟨_, h1, h2, _⟩ := wfEntry_facts e he
  have hb : strip e.l2 ≠ [] := by
    intro h; rw [h] at h2; simp [startsWith] at h2
  have := reread_pair (strip e.l1) (strip e.l2) (by rw [strip_strip]; exact h1) hb
  simpa [result, strip_strip] using this

theorem render_eq_renderGaps (es : List Entry) (eol : List Char) :
    render es eol = renderGaps (es.map fun e => ([], e)) eol [] := by
  simp [render, renderGaps, List.flatMap_map]

end PV.C10
