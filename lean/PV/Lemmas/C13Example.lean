/-
  A concrete element set that is accepted, is NEAR_NORM and is answered at epoch: the hypotheses
  `init e = .ok p`, `propagate p ts = .ok k` used by the C13/C20 theorems are satisfiable.
  eo = 0.28, i = 90°, Ω = ω = M = 0, a₁ = 1.44 earth radii (n₀ = XKE/1.2³ rad/min, period ≈ 146 min),
  original mean motion 0.05 rad/min, B* = 1e-4.  All intermediate values are rational (cos 90° = 0,
  √(1 − 0.28²) = 0.96, 1.728^(2/3) = 1.44), so `norm_num` evaluates them exactly.
-/
import PV.Lemmas.C20
import Mathlib.Analysis.Real.Pi.Bounds
namespace PV.C13
open PV PV.Sgp4 Real

noncomputable def exE : Elements ℝ :=
  { eo := 0.28, xincl := π / 2, xnodeo := 0, omegao := 0, xmo := 0, xn_0 := 0.0743669161 / 1.728, xno := 0.05,
    bstar := 0.0001, sma := 0, period := 0, perigee := 0 }

theorem ex_a1 : ((0.0743669161 : ℝ) / (0.0743669161 / 1.728)) ^ ((2 : ℝ) / 3) = 1.44 := by
  have h : ((0.0743669161 : ℝ) / (0.0743669161 / 1.728)) = 1.2 ^ (3 : ℕ) := by norm_num
  rw [h, ← Real.rpow_natCast, ← Real.rpow_mul (by norm_num)]
  norm_num

theorem ex_sqrt : √(1 - (0.28 : ℝ) ^ 2) = 0.96 := by
  rw [show (1 - (0.28 : ℝ) ^ 2) = 0.96 ^ 2 by norm_num]
  exact Real.sqrt_sq (by norm_num)

theorem ex_aodp : 1.439 ≤ (basic exE).aodp ∧ (basic exE).aodp ≤ 1.44 := by
  simp only [basic, exE, XKE, CK2, Gen.orbital_XKE, Gen.orbital_CK2, r_add, r_sub, r_mul, r_div, r_sq, r_sqrt,
    r_cos, r_rpow, r_ofNat, r_ofSci]
  simp only [Nat.cast_ofNat, Nat.cast_one]
  simp only [ex_a1, ex_sqrt, cos_pi_div_two]
  norm_num

theorem ex_xnodp : 0.043 ≤ (basic exE).xnodp ∧ (basic exE).xnodp ≤ 0.0431 := by
  simp only [basic, exE, XKE, CK2, Gen.orbital_XKE, Gen.orbital_CK2, r_add, r_sub, r_mul, r_div, r_sq, r_sqrt,
    r_cos, r_rpow, r_ofNat, r_ofSci]
  simp only [Nat.cast_ofNat, Nat.cast_one]
  simp only [ex_a1, ex_sqrt, cos_pi_div_two]
  norm_num

theorem ex_period : (basic exE).period < 225 := by
  have h : (basic exE).period = 2 * π / (basic exE).xnodp := by
    simp only [basic, r_mul, r_div, r_pi, r_ofNat, XMNPDA_real]
    simp only [Nat.cast_ofNat]; congr 1; ring
  have := ex_xnodp.1
  rw [h, div_lt_iff₀ (by linarith)]
  nlinarith [pi_lt_four]

theorem ex_perigee : 220 ≤ (basic exE).perigee := by
  rw [basic_perigee]
  have := ex_aodp.1
  have h : exE.eo = 0.28 := rfl
  rw [h]; nlinarith

theorem ex_init : init exE = .ok (coeffs exE (basic exE) .nearNorm) := by
  rw [init_ok_iff]
  have hm : modeSpec exE = .nearNorm := (modeSpec_nearNorm_iff exE).2 ex_perigee
  refine ⟨?_, ?_, ?_, ex_period, by rw [hm]⟩
  · constructor <;> simp only [exE] <;> norm_num
  · constructor <;> simp only [exE] <;> nlinarith [pi_gt_three, pi_lt_four]
  · constructor <;> simp only [exE] <;> linarith [pi_pos]


/-- at epoch (ts = 0) the secular update is the identity on a, e, ω (for any coefficient set whose `delmo`,
    `sinXMO` are what `coeffs` computes) -/
theorem secular_zero (p : Params ℝ) (hm : p.mode = .nearNorm)
    (hd : p.delmo = (1 + p.eta * cos p.xmo) ^ 3) (hs : p.sinXMO = sin p.xmo) :
    (secular p 0).a = p.aodp ∧ (secular p 0).e0 = p.eo ∧ (secular p 0).omega = p.omegao := by
  have hb : (Mode.nearNorm == Mode.nearSimp) = false := rfl
  simp only [secular, hm, hb, r_add, r_sub, r_mul, r_sq, r_cube, r_sin, r_cos, r_ofNat, hd, hs]
  simp only [Nat.cast_one, mul_zero, zero_mul, add_zero, sub_self, sub_zero, one_pow, mul_one,
    Bool.false_eq_true, if_false, and_self]


theorem coeffs_delmo (e : Elements ℝ) (b : Basic ℝ) (m : Mode) :
    (coeffs e b m).delmo = (1 + (coeffs e b m).eta * cos (coeffs e b m).xmo) ^ 3 := by
  show Num.cube _ = _
  rw [r_cube]
  show (Num.ofNat 1 + _) ^ 3 = _
  rw [r_ofNat', Nat.cast_one]; rfl

theorem coeffs_aycof (e : Elements ℝ) (b : Basic ℝ) (m : Mode) :
    (coeffs e b m).aycof = 0.25 * (2.53881e-6 / 5.41308e-4) * b.sinIO := by
  show Num.ofSci 25 true 2 * A3OVK2 * b.sinIO = _
  simp only [A3OVK2, Gen.orbital_A3OVK2, Gen.orbital_XJ3, Gen.orbital_CK2, Gen.orbital_AE, r_mul, r_div, r_neg,
    r_ofSci, r_ofNat]
  show (OfScientific.ofScientific 25 true 2 : ℝ) * _ * _ = _
  norm_num

theorem clampE_id (x : ℝ) (h0 : 1e-6 ≤ x) (h1 : x ≤ 1 - 1e-6) : clampE x = x := by
  unfold clampE
  simp only [r_lt, r_gt, ECC_EPS_real, ECC_LIMIT_HIGH_real, decide_eq_true_eq]
  rw [if_neg (not_lt.2 h0), if_neg (not_lt.2 h1)]

theorem longPeriod_axn (p : Params ℝ) (s : Secular ℝ) :
    (longPeriod p s).axn = clampE s.e0 * cos s.omega := rfl
theorem longPeriod_ayn (p : Params ℝ) (s : Secular ℝ) :
    (longPeriod p s).ayn = clampE s.e0 * sin s.omega + 1 / (s.a * (1 - clampE s.e0 ^ 2)) * p.aycof := by
  simp only [longPeriod, r_add, r_sub, r_mul, r_div, r_sq, r_sin, r_ofNat, Nat.cast_one]

/-- the accepted coefficient set of the example -/
noncomputable def exP : Params ℝ := coeffs exE (basic exE) .nearNorm

theorem ex_secular : (secular exP 0).a = (basic exE).aodp ∧ (secular exP 0).e0 = 0.28 ∧
    (secular exP 0).omega = 0 :=
  secular_zero exP rfl (coeffs_delmo _ _ _) rfl

theorem ex_long : (longPeriod exP (secular exP 0)).axn = 0.28 ∧
    0 ≤ (longPeriod exP (secular exP 0)).ayn ∧ (longPeriod exP (secular exP 0)).ayn ≤ 0.001 := by
  obtain ⟨ha, he, ho⟩ := ex_secular
  have hA := ex_aodp
  have hc : clampE (0.28 : ℝ) = 0.28 := clampE_id _ (by norm_num) (by norm_num)
  have hay : exP.aycof = 0.25 * (2.53881e-6 / 5.41308e-4) := by
    unfold exP; rw [coeffs_aycof, basic_sinIO]
    simp only [exE, sin_pi_div_two, mul_one]
  rw [longPeriod_axn, longPeriod_ayn, ha, he, ho, hc, hay, cos_zero, sin_zero]
  set A := (basic exE).aodp
  have hden : 0 < A * (1 - 0.28 ^ 2) := by nlinarith [hA.1]
  refine ⟨by norm_num, by positivity, ?_⟩
  rw [mul_zero, zero_add, one_div, inv_mul_le_iff₀ hden]
  nlinarith [hA.1]


theorem ex_x3thm1 : exP.x3thm1 = -1 ∧ exP.x1mth2 = 1 := by
  constructor
  · show (basic exE).x3thm1 = -1
    simp only [basic, exE, r_sub, r_mul, r_sq, r_cos, r_ofNat]; norm_num
  · show (basic exE).x1mth2 = 1
    simp only [basic, exE, r_sub, r_sq, r_cos, r_ofNat]; norm_num

/-- the arithmetic of the example's `rk ≥ 1` -/
theorem ex_num (A elsq sq β pl r rk : ℝ) (hA0 : 1.439 ≤ A) (hA1 : A ≤ 1.44) (_hel0 : 0.0784 ≤ elsq)
    (hel1 : elsq ≤ 0.0785) (hsq0 : 0 ≤ sq) (hsq : sq ≤ 0.2802) (_hβ0 : 0 ≤ β) (hβ1 : β ≤ 1)
    (hpl : pl = A * (1 - elsq)) (hr0 : A * (1 - sq) ≤ r) (hr1 : r ≤ A * (1 + sq))
    (hrk : |rk - r| ≤ 1.5 * 5.41308e-4 / pl ^ 2 * β * 1 * r + 0.5 * 5.41308e-4 / pl * 1) : 1 ≤ rk := by
  have hplb : 1.3 ≤ pl := by
    rw [hpl]; nlinarith [mul_le_mul hA0 (by linarith : (0.9215 : ℝ) ≤ 1 - elsq) (by norm_num) (by linarith)]
  have hrlo : 1.03 ≤ r := by
    have := mul_le_mul hA0 (by linarith : (0.7198 : ℝ) ≤ 1 - sq) (by norm_num) (by linarith)
    linarith
  have hrhi : r ≤ 1.85 := by
    have := mul_le_mul hA1 (by linarith : 1 + sq ≤ (1.2802 : ℝ)) (by linarith) (by norm_num)
    linarith
  have hβr : β * r ≤ 1.85 := by
    have := mul_le_mul hβ1 hrhi (by linarith) (by norm_num); linarith
  have hpl2 : 1.69 ≤ pl ^ 2 := by
    have := mul_le_mul hplb hplb (by norm_num) (by linarith); rw [pow_two]; linarith
  have t1 : 1.5 * 5.41308e-4 / pl ^ 2 * β * 1 * r ≤ 0.001 := by
    have : 1.5 * 5.41308e-4 / pl ^ 2 * β * 1 * r = (1.5 * 5.41308e-4 * (β * r)) / pl ^ 2 := by ring
    rw [this, div_le_iff₀ (by positivity)]; linarith
  have t2 : 0.5 * 5.41308e-4 / pl * 1 ≤ 0.001 := by
    rw [mul_one, div_le_iff₀ (by linarith)]; linarith
  have := (abs_le.1 hrk).1
  linarith

/-- the example is answered at epoch -/
theorem ex_propagate : propagate exP 0 = .ok (kepOf exP 0) := by
  rw [propagate_ok_iff]
  obtain ⟨ha, he, -⟩ := ex_secular
  obtain ⟨hax, hay0, hay1⟩ := ex_long
  obtain ⟨hA0, hA1⟩ := ex_aodp
  obtain ⟨hx3, hx1⟩ := ex_x3thm1
  set s := secular exP 0
  set l := longPeriod exP s
  have helsq : l.elsq = l.axn ^ 2 + l.ayn ^ 2 := longPeriod_elsq exP s
  have hay2 : l.ayn ^ 2 ≤ 0.001 ^ 2 := pow_le_pow_left₀ hay0 hay1 2
  have hel0 : 0.0784 ≤ l.elsq := by rw [helsq, hax]; nlinarith [sq_nonneg l.ayn]
  have hel1 : l.elsq ≤ 0.0785 := by rw [helsq, hax]; norm_num at hay2 ⊢; linarith
  have hapos : 0 < s.a := by rw [ha]; linarith
  refine ⟨rfl, by rw [ha]; linarith, by rw [he]; norm_num, by linarith, ?_, rfl⟩
  obtain ⟨hr0, hr1, hrk⟩ := C20.rk_bounds_gen exP s l (newton l.axn l.ayn l.capu (Real.sqrt l.elsq))
    (newton_inv _ _ _ _) helsq (by linarith) hapos
  rw [hx3, hx1, abs_neg, abs_one] at hrk
  have hpl : (shortPeriod exP s l (newton l.axn l.ayn l.capu (Real.sqrt l.elsq))).pl = s.a * (1 - l.elsq) :=
    shortPeriod_pl _ _ _ _
  have hsq : √l.elsq ≤ 0.2802 := by
    rw [Real.sqrt_le_iff]; constructor <;> norm_num; linarith
  have hβ1 : √(1 - l.elsq) ≤ 1 := by
    rw [Real.sqrt_le_iff]; constructor <;> norm_num; linarith
  rw [ha] at hr0 hr1 hpl
  exact ex_num _ _ _ _ _ _ _ hA0 hA1 hel0 hel1 (Real.sqrt_nonneg _) hsq (Real.sqrt_nonneg _) hβ1 hpl hr0 hr1 hrk

end PV.C13
