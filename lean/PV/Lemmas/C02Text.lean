/-
  Lemmas about the Python text primitives of PV.Model.Text on the shapes that occur in TLE columns:
  blank-padded digit strings, `iii.ffff`, `s.dddddddd`, `s.ddddde±d`.  Core Lean only.
-/
import PV.Model.Text
namespace PV.C02
open PV.Text

/-! ### characters -/

theorem digit_range {c : Char} (h : isAsciiDigit c = true) : 48 ≤ c.toNat ∧ c.toNat ≤ 57 := by
  unfold isAsciiDigit at h; simpa using h

theorem digit_ne {c : Char} (h : isAsciiDigit c = true) (d : Char) (hd : d.toNat < 48 ∨ 57 < d.toNat) : c ≠ d := by
  intro e; subst e; have := digit_range h; omega

theorem digit_not_ws {c : Char} (h : isAsciiDigit c = true) : isPyWs c = false := by
  have hr := digit_range h
  unfold isPyWs
  simp only [Bool.or_eq_false_iff, decide_eq_false_iff_not]
  refine ⟨⟨⟨⟨⟨⟨⟨⟨⟨?_, ?_⟩, ?_⟩, ?_⟩, ?_⟩, ?_⟩, ?_⟩, ?_⟩, ?_⟩, ?_⟩ <;>
    (intro hc; subst hc; simp at hr)

theorem digit_not_numws {c : Char} (h : isAsciiDigit c = true) : isNumWs c = false := by
  have hr := digit_range h
  unfold isNumWs
  simp only [Bool.or_eq_false_iff, decide_eq_false_iff_not]
  refine ⟨⟨⟨⟨⟨?_, ?_⟩, ?_⟩, ?_⟩, ?_⟩, ?_⟩ <;>
    (intro hc; subst hc; simp at hr)

/-- the "outside the model" test of `pyInt`/`pyFloat` -/
def bad (c : Char) : Bool := c = '_' || c.toNat ≥ 128
def lowerf (c : Char) : Char := if 65 ≤ c.toNat ∧ c.toNat ≤ 90 then Char.ofNat (c.toNat + 32) else c
def isNI (c : Char) : Bool := c = 'n' || c = 'i'

theorem digit_bad {c : Char} (h : isAsciiDigit c = true) : bad c = false := by
  have hr := digit_range h
  unfold bad
  simp only [Bool.or_eq_false_iff, decide_eq_false_iff_not]
  refine ⟨digit_ne h _ (by decide), by omega⟩

theorem digit_lower {c : Char} (h : isAsciiDigit c = true) : lowerf c = c := by
  have hr := digit_range h
  unfold lowerf
  rw [if_neg (by omega)]

theorem digit_ni {c : Char} (h : isAsciiDigit c = true) : isNI c = false := by
  unfold isNI
  simp only [Bool.or_eq_false_iff, decide_eq_false_iff_not]
  exact ⟨digit_ne h _ (by decide), digit_ne h _ (by decide)⟩

/-! ### digit strings -/

theorem all_digits_mem {s : List Char} (h : s.all isAsciiDigit = true) : ∀ c ∈ s, isAsciiDigit c = true :=
  List.all_eq_true.mp h

theorem digits_any_bad {s : List Char} (h : s.all isAsciiDigit = true) : s.any bad = false := by
  rw [List.any_eq_false]; intro c hc; simp [digit_bad (all_digits_mem h c hc)]

theorem digits_any_ni {s : List Char} (h : s.all isAsciiDigit = true) : s.any isNI = false := by
  rw [List.any_eq_false]; intro c hc; simp [digit_ni (all_digits_mem h c hc)]

theorem digits_map_lower {s : List Char} (h : s.all isAsciiDigit = true) : s.map lowerf = s := by
  induction s with
  | nil => rfl
  | cons c cs ih =>
    simp only [List.all_cons, Bool.and_eq_true] at h
    simp [digit_lower h.1, ih h.2]

/-! ### strip -/

theorem lstrip_cons_nonws {c : Char} {s : List Char} (h : isPyWs c = false) : lstrip (c :: s) = c :: s := by
  simp [lstrip, h]

theorem lstrip_blank (s : List Char) : lstrip (' ' :: s) = lstrip s := by
  simp [lstrip, isPyWs]

theorem lstrip_dropBlanks (s : List Char) : lstrip s = lstrip (s.dropWhile (· == ' ')) := by
  induction s with
  | nil => rfl
  | cons c cs ih =>
    by_cases hc : c = ' '
    · subst hc; rw [lstrip_blank, ih]; simp
    · simp [hc]

theorem rstrip_of_last {s : List Char} {c : Char} (hl : s.getLast? = some c) (hc : isPyWs c = false) :
    rstrip s = s := by
  unfold rstrip
  have : s.reverse.head? = some c := by simpa using hl
  cases hr : s.reverse with
  | nil => rw [hr] at this; simp at this
  | cons x xs =>
    rw [hr] at this
    simp only [List.head?_cons, Option.some.injEq] at this
    subst this
    rw [lstrip_cons_nonws hc, ← hr, List.reverse_reverse]

/-- a string that starts and ends with a non-blank character, after leading blanks -/
theorem strip_padded {s : List Char} {c d : Char} {r : List Char}
    (hs : s.dropWhile (· == ' ') = c :: r) (hc : isPyWs c = false)
    (hl : (c :: r).getLast? = some d) (hd : isPyWs d = false) : strip s = c :: r := by
  unfold strip
  rw [lstrip_dropBlanks, hs, lstrip_cons_nonws hc, rstrip_of_last hl hd]

/-! ### the strip of `int()` / `float()` (`numStrip`: the blank, `\t \n \v \f \r`; not 0x1c–0x1f) -/

theorem nlstrip_cons_nonws {c : Char} {s : List Char} (h : isNumWs c = false) : nlstrip (c :: s) = c :: s := by
  simp [nlstrip, h]

theorem nlstrip_blank (s : List Char) : nlstrip (' ' :: s) = nlstrip s := by
  simp [nlstrip, isNumWs]

theorem nlstrip_dropBlanks (s : List Char) : nlstrip s = nlstrip (s.dropWhile (· == ' ')) := by
  induction s with
  | nil => rfl
  | cons c cs ih =>
    by_cases hc : c = ' '
    · subst hc; rw [nlstrip_blank, ih]; simp
    · simp [hc]

theorem nrstrip_of_last {s : List Char} {c : Char} (hl : s.getLast? = some c) (hc : isNumWs c = false) :
    nrstrip s = s := by
  unfold nrstrip
  have : s.reverse.head? = some c := by simpa using hl
  cases hr : s.reverse with
  | nil => rw [hr] at this; simp at this
  | cons x xs =>
    rw [hr] at this
    simp only [List.head?_cons, Option.some.injEq] at this
    subst this
    rw [nlstrip_cons_nonws hc, ← hr, List.reverse_reverse]

theorem numStrip_padded {s : List Char} {c d : Char} {r : List Char}
    (hs : s.dropWhile (· == ' ') = c :: r) (hc : isNumWs c = false)
    (hl : (c :: r).getLast? = some d) (hd : isNumWs d = false) : numStrip s = c :: r := by
  unfold numStrip
  rw [nlstrip_dropBlanks, hs, nlstrip_cons_nonws hc, nrstrip_of_last hl hd]

/-- the separators 0x1c–0x1f are whitespace for `str.strip()` but not for `int()`: `int("\x1c5")` is a ValueError -/
example : strip ['\x1c', '5'] = ['5'] ∧ numStrip ['\x1c', '5'] = ['\x1c', '5'] ∧ pyInt ['\x1c', '5'] = .valueError := by
  decide

/-! ### `int(text)` -/

theorem pyInt_of_strip {s t : List Char} (hs : numStrip s = t) (hd : t.all isAsciiDigit = true) (hne : t ≠ []) :
    pyInt s = .ok (natOfDigits t : Int) := by
  unfold pyInt
  simp only [hs]
  have hb : t.any (fun c => decide (c = '_') || decide (c.toNat ≥ 128)) = false := digits_any_bad hd
  rw [hb]
  simp only [Bool.false_eq_true, ↓reduceIte]
  cases t with
  | nil => exact absurd rfl hne
  | cons c cs =>
    have hc : isAsciiDigit c = true := by
      simp only [List.all_cons, Bool.and_eq_true] at hd; exact hd.1
    have h1 : c ≠ '-' := digit_ne hc _ (by decide)
    have h2 : c ≠ '+' := digit_ne hc _ (by decide)
    have had : allDigits (c :: cs) = true := by
      unfold allDigits; simp [hd]
    split
    · rename_i r heq; cases heq; exact absurd rfl h1
    · rename_i r heq; cases heq; exact absurd rfl h2
    · simp [had]

/-- a right-justified unsigned integer column: `int` gives its digits' value -/
theorem pyInt_padded {s : List Char} (hne : (s.dropWhile (· == ' ')).isEmpty = false)
    (hd : (s.dropWhile (· == ' ')).all isAsciiDigit = true) :
    pyInt s = .ok (natOfDigits (s.dropWhile (· == ' ')) : Int) := by
  cases hs : s.dropWhile (· == ' ') with
  | nil => rw [hs] at hne; simp at hne
  | cons c r =>
    rw [hs] at hd
    have hc : isAsciiDigit c = true := by
      simp only [List.all_cons, Bool.and_eq_true] at hd; exact hd.1
    have hlast : ∃ d, (c :: r).getLast? = some d ∧ isAsciiDigit d = true := by
      have hne' : (c :: r) ≠ [] := by simp
      refine ⟨(c :: r).getLast hne', List.getLast?_eq_some_getLast hne', ?_⟩
      exact all_digits_mem hd _ (List.getLast_mem hne')
    obtain ⟨d, hl, hdd⟩ := hlast
    have := numStrip_padded hs (digit_not_numws hc) hl (digit_not_numws hdd)
    exact pyInt_of_strip this hd (by simp)

end PV.C02
