/-
  C01 helper lemmas, part 4: concrete element sets for the non-vacuity examples.
  Polar orbit (cos i = 0), e = 0.28 (β = 0.96 exactly), Kozai mean motion XKE / q³ (so a₁ = q²).
-/
import PV.Lemmas.C01Prop
namespace PV.C01
open PV PV.Sgp4

/-- polar, e = 0.28, a₁ = q² earth radii, B* = `bs` -/
noncomputable def exEl (q bs : ℝ) : Sgp4.Elements ℝ :=
  { eo := 0.28, xincl := Real.pi / 2, xnodeo := 0, omegao := 0, xmo := 0, xn_0 := Str3.XKE / q ^ 3, xno := Str3.XKE / q ^ 3,
    bstar := bs, sma := q ^ 2, period := 0, perigee := 0 }

theorem rpow_cube_two_thirds {q : ℝ} (hq : 0 < q) : (q ^ 3) ^ ((2 : ℝ) / 3) = q ^ 2 := by
  rw [← Real.rpow_natCast q 3, ← Real.rpow_mul hq.le, ← Real.rpow_natCast q 2]
  congr 1; norm_num

theorem sqrt_ex : √(1 - (0.28 : ℝ) * 0.28) = 0.96 := by
  rw [show (1 - (0.28 : ℝ) * 0.28) = 0.96 * 0.96 by norm_num]
  exact Real.sqrt_mul_self (by norm_num)

/-- perigee of `exEl q bs` as an explicit rational function of `q` -/
theorem exEl_perigee (q bs : ℝ) (hq : 0 < q) : (basic (exEl q bs)).perigee =
    let d1 : ℝ := 1.5 * 5.413080e-4 * (-1) / (0.96 * 0.9216) / (q ^ 2 * q ^ 2)
    let a0 : ℝ := q ^ 2 * (1 - d1 * (1 / 3 + d1 * (1 + d1 * 134 / 81)))
    let d0 : ℝ := 1.5 * 5.413080e-4 * (-1) / (0.96 * 0.9216) / (a0 * a0)
    (a0 / (1 - d0) * (1 - 0.28) - 1) * 6378.135 := by
  simp only [basic, exEl, Num.sq]
  c01_consts
  c01_bridge
  rw [Real.cos_pi_div_two, sqrt_ex, div_div_cancel₀ XKE_pos.ne', rpow_cube_two_thirds hq]
  simp only [Str3.CK2, Str3.XKMPER, r_ofSci]
  norm_num

/-- q = 1.2 (a₁ = 1.44, period ≈ 146 min): perigee ≈ 233 km, full-drag branch -/
theorem exEl_norm_perigee (bs : ℝ) : 220 ≤ (basic (exEl 1.2 bs)).perigee := by
  rw [exEl_perigee _ _ (by norm_num)]
  norm_num

/-- q = 1.19 (a₁ = 1.4161): perigee ≈ 126 km, simplified-drag branch -/
theorem exEl_simp_perigee (bs : ℝ) : (basic (exEl 1.19 bs)).perigee < 220 := by
  rw [exEl_perigee _ _ (by norm_num)]
  norm_num

theorem exEl_isimp_false (bs : ℝ) : (Str3.consts (toEl (exEl 1.2 bs))).isimp = false := by
  rw [consts_isimp, isimp_iff]
  exact decide_eq_false (not_lt.mpr (exEl_norm_perigee bs))

theorem exEl_isimp_true (bs : ℝ) : (Str3.consts (toEl (exEl 1.19 bs))).isimp = true := by
  rw [consts_isimp, isimp_iff]
  exact decide_eq_true (exEl_simp_perigee bs)

theorem xmcof_of_bstar_zero (l : Str3.El ℝ) (h : l.bstar = 0) : (Str3.consts l).xmcof = 0 := by
  rcases hs : Str3.s4q l with ⟨s4, q⟩
  simp only [Str3.consts, hs, h]
  c01_bridge
  simp only [mul_zero, zero_div, ite_self]

/-- the Newton loop leaves through its `break` at once when `a_xN = a_yN = 0` (circular limit) -/
theorem newton_example : (newton (0 : ℝ) 0 1 0).converged = true := by
  show (newtonLoop (0 : ℝ) 0 1 0 (9 + 1) 0 1 _).converged = true
  rw [newtonLoop]
  have h : Num.lt (Num.abs ((1 : ℝ) - 1 + (0 * Num.sin 1 - 0 * Num.cos 1))) NR_EPS = true := by
    simp only [NR_EPS_eq]; c01_bridge; norm_num
  simp only [h, if_true]

end PV.C01
