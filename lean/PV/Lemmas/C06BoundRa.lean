/-
  PV.Lemmas.C06BoundRa — right ascension α = atan2(k sin λ, cos λ), k = cos ε: angular distance
  (arccos of the cosine of the difference) between two right ascensions.

  Step A (λ changes, k fixed):   sin Δα = k sin Δλ / (r₀ r₁),  r² = cos²λ + k² sin²λ ≥ k²
                                 ⇒ |sin Δα| ≤ |Δλ| / k                 (dα/dλ ≤ 1/cos ε)
  Step B (k changes, λ fixed):   sin Δα = (k₁ − k₂) sin λ cos λ / (r₁ r₂),  r₁² r₂² ≥ 4 k₁ k₂ (sin λ cos λ)²
                                 ⇒ |sin Δα| ≤ |Δk| / (2 √(k₁ k₂))       (|∂α/∂ε| ≤ tan ε / 2)
  and the planar triangle inequality (a special case of `zen_lip`).
-/
import PV.Lemmas.C06BoundSphere
import PV.Lemmas.C06BoundDec
namespace PV.C06B
open PV PV.Astro PV.C06L

/-- cos/sin of the difference of two arguments, multiplied by the product of the moduli -/
theorem planar (x0 y0 x1 y1 : ℝ) (h0 : 0 < x0 ^ 2 + y0 ^ 2) (h1 : 0 < x1 ^ 2 + y1 ^ 2) :
    ∃ R : ℝ, 0 < R ∧ R ^ 2 = (x0 ^ 2 + y0 ^ 2) * (x1 ^ 2 + y1 ^ 2) ∧
      Real.cos (Complex.arg ⟨x0, y0⟩ - Complex.arg ⟨x1, y1⟩) * R = x0 * x1 + y0 * y1 ∧
      Real.sin (Complex.arg ⟨x0, y0⟩ - Complex.arg ⟨x1, y1⟩) * R = y0 * x1 - x0 * y1 := by
  have hne : ∀ x y : ℝ, 0 < x ^ 2 + y ^ 2 → (⟨x, y⟩ : ℂ) ≠ 0 := by
    intro x y h e
    have e1 := congrArg Complex.re e
    have e2 := congrArg Complex.im e
    simp only [Complex.zero_re, Complex.zero_im] at e1 e2
    rw [e1, e2] at h
    simp at h
  have hn : ∀ x y : ℝ, ‖(⟨x, y⟩ : ℂ)‖ = Real.sqrt (x ^ 2 + y ^ 2) := by
    intro x y; rw [Complex.norm_eq_sqrt_sq_add_sq]
  have r0 : 0 < Real.sqrt (x0 ^ 2 + y0 ^ 2) := Real.sqrt_pos.mpr h0
  have r1 : 0 < Real.sqrt (x1 ^ 2 + y1 ^ 2) := Real.sqrt_pos.mpr h1
  have q0 : Real.sqrt (x0 ^ 2 + y0 ^ 2) ^ 2 = x0 ^ 2 + y0 ^ 2 := Real.sq_sqrt h0.le
  have q1 : Real.sqrt (x1 ^ 2 + y1 ^ 2) ^ 2 = x1 ^ 2 + y1 ^ 2 := Real.sq_sqrt h1.le
  refine ⟨Real.sqrt (x0 ^ 2 + y0 ^ 2) * Real.sqrt (x1 ^ 2 + y1 ^ 2), mul_pos r0 r1, ?_, ?_, ?_⟩
  · rw [mul_pow, q0, q1]
  · rw [Real.cos_sub, Complex.cos_arg (hne _ _ h0), Complex.cos_arg (hne _ _ h1), Complex.sin_arg,
      Complex.sin_arg, hn, hn]
    generalize Real.sqrt (x0 ^ 2 + y0 ^ 2) = a at r0
    generalize Real.sqrt (x1 ^ 2 + y1 ^ 2) = b at r1
    simp only
    field_simp
  · rw [Real.sin_sub, Complex.cos_arg (hne _ _ h0), Complex.cos_arg (hne _ _ h1), Complex.sin_arg,
      Complex.sin_arg, hn, hn]
    generalize Real.sqrt (x0 ^ 2 + y0 ^ 2) = a at r0
    generalize Real.sqrt (x1 ^ 2 + y1 ^ 2) = b at r1
    simp only
    field_simp

/-- angular distance from a bound on the sine, when the cosine is ≥ 0 -/
theorem angdist_le_of_sin (x B s : ℝ) (hc : 0 ≤ Real.cos x) (hs : Real.sin x ^ 2 ≤ s ^ 2)
    (hs0 : 0 ≤ s) (hB0 : 0 < B) (hB1 : B ≤ 1) (hsB : s ≤ B - B ^ 3 / 6) :
    Real.arccos (Real.cos x) ≤ B := by
  have hpi := Real.pi_gt_d2
  have hsin : s ≤ Real.sin B := le_trans hsB (le_of_lt (Real.sin_gt_sub_cube hB0))
  have hcB : 0 ≤ Real.cos B := Real.cos_nonneg_of_mem_Icc ⟨by linarith, by linarith⟩
  have h1 := Real.sin_sq_add_cos_sq x
  have h2 := Real.sin_sq_add_cos_sq B
  have hsq : Real.cos B ^ 2 ≤ Real.cos x ^ 2 := by nlinarith
  have hle : Real.cos B ≤ Real.cos x := (sq_le_sq₀ hcB hc).mp hsq
  have := Real.arccos_le_arccos hle
  rwa [Real.arccos_cos hB0.le (by linarith)] at this

/-- r² = cos²λ + k² sin²λ lies between k² and 1 for 0 < k ≤ 1 -/
theorem rsq_bounds (k lam : ℝ) (hk0 : 0 < k) (hk1 : k ≤ 1) :
    k ^ 2 ≤ Real.cos lam ^ 2 + (k * Real.sin lam) ^ 2 ∧
      0 < Real.cos lam ^ 2 + (k * Real.sin lam) ^ 2 := by
  have h := Real.sin_sq_add_cos_sq lam
  have hk2 : k ^ 2 ≤ 1 := by nlinarith
  have h1 : k ^ 2 ≤ Real.cos lam ^ 2 + (k * Real.sin lam) ^ 2 := by
    nlinarith [sq_nonneg (Real.cos lam)]
  exact ⟨h1, lt_of_lt_of_le (by positivity) h1⟩

/-- Step A: same k = cos ε, two longitudes -/
theorem ra_step_lam (k l0 l1 L B : ℝ) (hk : 0.9165 ≤ k) (hk1 : k ≤ 1) (hL : |l0 - l1| ≤ L)
    (hL1 : L ≤ 0.5) (hB0 : 0 < B) (hB1 : B ≤ 1) (hLB : L ≤ 0.9165 * (B - B ^ 3 / 6)) :
    Real.arccos (Real.cos (Complex.arg ⟨Real.cos l0, k * Real.sin l0⟩
        - Complex.arg ⟨Real.cos l1, k * Real.sin l1⟩)) ≤ B := by
  have hk0 : 0 < k := by linarith
  obtain ⟨g0, p0⟩ := rsq_bounds k l0 hk0 hk1
  obtain ⟨g1, p1⟩ := rsq_bounds k l1 hk0 hk1
  obtain ⟨R, hR, hR2, hC, hS⟩ := planar _ _ _ _ p0 p1
  generalize Complex.arg ⟨Real.cos l0, k * Real.sin l0⟩
      - Complex.arg ⟨Real.cos l1, k * Real.sin l1⟩ = x at hC hS
  have hL0 : 0 ≤ L := le_trans (abs_nonneg _) hL
  -- cross and dot products
  have hcross : k * Real.sin l0 * Real.cos l1 - Real.cos l0 * (k * Real.sin l1)
      = k * Real.sin (l0 - l1) := by rw [Real.sin_sub]; ring
  have hdot : Real.cos l0 * Real.cos l1 + k * Real.sin l0 * (k * Real.sin l1)
      = k ^ 2 * Real.cos (l0 - l1) + (1 - k ^ 2) * (Real.cos l0 * Real.cos l1) := by
    rw [Real.cos_sub]; ring
  have hcosD : 0.875 ≤ Real.cos (l0 - l1) := by
    have := Real.one_sub_sq_div_two_le_cos (x := l0 - l1)
    have hsq : (l0 - l1) ^ 2 ≤ 0.25 := by
      have := abs_le.mp (le_trans hL hL1)
      nlinarith
    linarith
  have hcc : -1 ≤ Real.cos l0 * Real.cos l1 := by
    have := abs_le.mp (abs_mul_le' (Real.abs_cos_le_one l0) (Real.abs_cos_le_one l1))
    linarith [this.1]
  have hk2 : 0.83997 ≤ k ^ 2 := by nlinarith
  have hk2' : k ^ 2 ≤ 1 := by nlinarith
  have hdotpos : 0 < Real.cos x * R := by
    rw [hC, hdot]; nlinarith
  have hcx : 0 ≤ Real.cos x := le_of_lt ((mul_pos_iff_of_pos_right hR).mp hdotpos)
  -- sine bound
  have hsinD : Real.sin (l0 - l1) ^ 2 ≤ L ^ 2 := by
    have h1 : |Real.sin (l0 - l1)| ≤ L := le_trans (Real.abs_sin_le_abs) hL
    have := sq_le_sq' (by linarith [(abs_le.mp h1).1]) (abs_le.mp h1).2
    exact this
  have hR4 : k ^ 2 * k ^ 2 ≤ R ^ 2 := by
    rw [hR2]; exact mul_le_mul g0 g1 (by positivity) (le_of_lt p0)
  have hS2 : Real.sin x ^ 2 * R ^ 2 = k ^ 2 * Real.sin (l0 - l1) ^ 2 := by
    rw [← mul_pow, hS, hcross, mul_pow]
  have hsx0 : 0 ≤ Real.sin x ^ 2 := sq_nonneg _
  have hk2pos : 0 < k ^ 2 := by positivity
  have hsk : Real.sin x ^ 2 * k ^ 2 ≤ L ^ 2 := by
    have h1 : Real.sin x ^ 2 * (k ^ 2 * k ^ 2) ≤ k ^ 2 * L ^ 2 := by
      calc Real.sin x ^ 2 * (k ^ 2 * k ^ 2) ≤ Real.sin x ^ 2 * R ^ 2 :=
            mul_le_mul_of_nonneg_left hR4 hsx0
        _ = k ^ 2 * Real.sin (l0 - l1) ^ 2 := hS2
        _ ≤ k ^ 2 * L ^ 2 := mul_le_mul_of_nonneg_left hsinD hk2pos.le
    have h2 : k ^ 2 * (Real.sin x ^ 2 * k ^ 2) ≤ k ^ 2 * L ^ 2 := by linarith [h1]
    exact le_of_mul_le_mul_left h2 hk2pos
  have hs : Real.sin x ^ 2 ≤ (L / 0.9165) ^ 2 := by
    rw [div_pow, le_div_iff₀ (by norm_num)]
    have hkk : (0.9165:ℝ) ^ 2 ≤ k ^ 2 := by nlinarith
    nlinarith [mul_nonneg hsx0 (sub_nonneg.mpr hkk)]
  refine angdist_le_of_sin x B (L / 0.9165) hcx hs (by positivity) hB0 hB1 ?_
  rw [div_le_iff₀ (by norm_num)]
  linarith

/-- Step B: same longitude, two values k₁, k₂ of cos ε -/
theorem ra_step_k (k1 k2 lam K B : ℝ) (hk1 : 0.9165 ≤ k1) (hk1' : k1 ≤ 1) (hk2 : 0.9165 ≤ k2)
    (hk2' : k2 ≤ 1) (hK : |k1 - k2| ≤ K) (hB0 : 0 < B) (hB1 : B ≤ 1)
    (hKB : K ≤ 2 * 0.9165 * (B - B ^ 3 / 6)) :
    Real.arccos (Real.cos (Complex.arg ⟨Real.cos lam, k1 * Real.sin lam⟩
        - Complex.arg ⟨Real.cos lam, k2 * Real.sin lam⟩)) ≤ B := by
  have hk10 : 0 < k1 := by linarith
  have hk20 : 0 < k2 := by linarith
  obtain ⟨-, p1⟩ := rsq_bounds k1 lam hk10 hk1'
  obtain ⟨-, p2⟩ := rsq_bounds k2 lam hk20 hk2'
  obtain ⟨R, hR, hR2, hC, hS⟩ := planar _ _ _ _ p1 p2
  generalize Complex.arg ⟨Real.cos lam, k1 * Real.sin lam⟩
      - Complex.arg ⟨Real.cos lam, k2 * Real.sin lam⟩ = x at hC hS
  have hK0 : 0 ≤ K := le_trans (abs_nonneg _) hK
  set c := Real.cos lam with hc
  set s := Real.sin lam with hs
  have hdotpos : 0 < Real.cos x * R := by
    rw [hC]
    have : 0 < c ^ 2 + k1 * k2 * s ^ 2 := by
      have h := Real.sin_sq_add_cos_sq lam
      have : 0 < k1 * k2 := mul_pos hk10 hk20
      nlinarith [sq_nonneg c, sq_nonneg s]
    nlinarith
  have hcx : 0 ≤ Real.cos x := le_of_lt ((mul_pos_iff_of_pos_right hR).mp hdotpos)
  have hS2 : Real.sin x ^ 2 * R ^ 2 = (k1 - k2) ^ 2 * (s * c) ^ 2 := by
    rw [← mul_pow, hS, ← mul_pow]; ring
  -- AM-GM : r₁² r₂² ≥ 4 k₁ k₂ (s c)²
  have hamgm : 4 * (k1 * k2) * (s * c) ^ 2 ≤ R ^ 2 := by
    rw [hR2]
    have e : (c ^ 2 + (k1 * s) ^ 2) * (c ^ 2 + (k2 * s) ^ 2) - 4 * (k1 * k2) * (s * c) ^ 2
        = (c ^ 2 - k1 * k2 * s ^ 2) ^ 2 + (k1 - k2) ^ 2 * (s * c) ^ 2 := by ring
    nlinarith [sq_nonneg (c ^ 2 - k1 * k2 * s ^ 2), mul_nonneg (sq_nonneg (k1 - k2)) (sq_nonneg (s * c))]
  have hKsq : (k1 - k2) ^ 2 ≤ K ^ 2 := by
    have := abs_le.mp hK
    exact sq_le_sq' (by linarith [this.1]) this.2
  have hkk : 0.9165 ^ 2 ≤ k1 * k2 := by nlinarith
  have hsx0 : 0 ≤ Real.sin x ^ 2 := sq_nonneg _
  have hsc0 : 0 ≤ (s * c) ^ 2 := sq_nonneg _
  have hs : Real.sin x ^ 2 ≤ (K / (2 * 0.9165)) ^ 2 := by
    rw [div_pow, le_div_iff₀ (by norm_num)]
    -- sin²x · (2·0.9165)² ≤ K²
    by_cases hz : (s * c) ^ 2 = 0
    · have : Real.sin x ^ 2 * R ^ 2 = 0 := by rw [hS2, hz, mul_zero]
      have hR2pos : 0 < R ^ 2 := by positivity
      have : Real.sin x ^ 2 = 0 := by
        rcases mul_eq_zero.mp this with h | h
        · exact h
        · exact absurd h hR2pos.ne'
      rw [this, zero_mul]; positivity
    · have hscpos : 0 < (s * c) ^ 2 := lt_of_le_of_ne hsc0 (Ne.symm hz)
      have h1 : Real.sin x ^ 2 * (4 * (k1 * k2) * (s * c) ^ 2) ≤ K ^ 2 * (s * c) ^ 2 := by
        calc Real.sin x ^ 2 * (4 * (k1 * k2) * (s * c) ^ 2) ≤ Real.sin x ^ 2 * R ^ 2 :=
              mul_le_mul_of_nonneg_left hamgm hsx0
          _ = (k1 - k2) ^ 2 * (s * c) ^ 2 := hS2
          _ ≤ K ^ 2 * (s * c) ^ 2 := mul_le_mul_of_nonneg_right hKsq hsc0
      have h2 : (Real.sin x ^ 2 * (4 * (k1 * k2))) * (s * c) ^ 2 ≤ K ^ 2 * (s * c) ^ 2 := by
        linarith [h1]
      have h3 := le_of_mul_le_mul_right h2 hscpos
      nlinarith
  refine angdist_le_of_sin x B (K / (2 * 0.9165)) hcx hs (by positivity) hB0 hB1 ?_
  rw [div_le_iff₀ (by norm_num)]
  linarith

/-- planar triangle inequality for angular distances -/
theorem angdist_triangle (a0 a1 a2 : ℝ) :
    Real.arccos (Real.cos (a0 - a2))
      ≤ Real.arccos (Real.cos (a0 - a1)) + Real.arccos (Real.cos (a1 - a2)) := by
  have h := zen_lip (Real.cos a0) (Real.sin a0) 0 (Real.cos a2) (Real.sin a2) 0
    (Real.cos a1) (Real.sin a1) 0 (Real.cos (a0 - a2)) (Real.cos (a0 - a1)) (Real.cos (a1 - a2))
    (by have := Real.sin_sq_add_cos_sq a0; linarith)
    (by have := Real.sin_sq_add_cos_sq a2; linarith)
    (by have := Real.sin_sq_add_cos_sq a1; linarith)
    (by rw [Real.cos_sub]; ring) (by rw [Real.cos_sub]; ring)
    (by rw [Real.cos_sub]; ring)
  have := (abs_le.mp h).2
  linarith

/-- |cos ε₁ − cos ε₂| ≤ 0.4 |ε₁ − ε₂| for ε ∈ [0.4089, 0.4093] rad -/
theorem cos_obl_lip (e1 e2 : ℝ) (h1 : 0.4089 ≤ e1 ∧ e1 ≤ 0.4093) (h2 : 0.4089 ≤ e2 ∧ e2 ≤ 0.4093) :
    |Real.cos e1 - Real.cos e2| ≤ 0.4 * |e1 - e2| := by
  rw [Real.cos_sub_cos, abs_mul, abs_mul, abs_neg, abs_of_pos (by norm_num : (0:ℝ) < 2)]
  obtain ⟨s0, s1, -, -⟩ := sincos_obl ((e1 + e2) / 2) (by linarith [h1.1, h2.1])
    (by linarith [h1.2, h2.2])
  have hs : |Real.sin ((e1 + e2) / 2)| ≤ 0.4 := by rw [abs_of_pos s0]; exact s1
  have hd : |Real.sin ((e1 - e2) / 2)| ≤ |e1 - e2| / 2 := by
    refine le_trans Real.abs_sin_le_abs ?_
    rw [abs_div, abs_of_pos (by norm_num : (0:ℝ) < 2)]
  have := abs_mul_le' hs hd
  rw [abs_mul] at this
  nlinarith [abs_nonneg (Real.sin ((e1 + e2) / 2)), abs_nonneg (Real.sin ((e1 - e2) / 2))]

/-- right ascension: angular distance between the two textbook forms, in radians -/
theorem ra_core (ec ea lc la : ℝ) (hc : 0.4089 ≤ ec ∧ ec ≤ 0.4093) (ha : 0.4089 ≤ ea ∧ ea ≤ 0.4093)
    (hl : |lc - la| ≤ 0.012 * (Real.pi / 180)) (he : |ec - ea| ≤ 0.0011 * (Real.pi / 180)) :
    Real.arccos (Real.cos (Complex.arg ⟨Real.cos lc, Real.cos ec * Real.sin lc⟩
        - Complex.arg ⟨Real.cos la, Real.cos ea * Real.sin la⟩))
      ≤ 0.01335 * (Real.pi / 180) := by
  have hp1 := Real.pi_gt_d4
  have hp2 := Real.pi_lt_d4
  obtain ⟨-, -, kc1, kc2⟩ := sincos_obl ec hc.1 hc.2
  obtain ⟨-, -, ka1, ka2⟩ := sincos_obl ea ha.1 ha.2
  set t := Real.pi / 180 with ht
  have ht1 : 0.01745 < t := by rw [ht]; linarith
  have ht2 : t < 0.01746 := by rw [ht]; linarith
  have hA := ra_step_lam (Real.cos ec) lc la (0.012 * t) (0.0131 * t) kc1 kc2 hl (by linarith)
    (by linarith) (by linarith) (by
      have : (0.0131 * t) ^ 3 ≤ 0.0131 ^ 3 * t := by
        have : t ^ 3 ≤ t := by nlinarith [sq_nonneg t]
        nlinarith
      nlinarith)
  have hK : |Real.cos ec - Real.cos ea| ≤ 0.4 * (0.0011 * t) :=
    le_trans (cos_obl_lip ec ea hc ha) (by linarith)
  have hB := ra_step_k (Real.cos ec) (Real.cos ea) la (0.4 * (0.0011 * t)) (0.00025 * t) kc1 kc2
    ka1 ka2 hK (by linarith) (by linarith) (by
      have : (0.00025 * t) ^ 3 ≤ 0.00025 ^ 3 * t := by
        have : t ^ 3 ≤ t := by nlinarith [sq_nonneg t]
        nlinarith
      nlinarith)
  have := angdist_triangle (Complex.arg ⟨Real.cos lc, Real.cos ec * Real.sin lc⟩)
    (Complex.arg ⟨Real.cos la, Real.cos ec * Real.sin la⟩)
    (Complex.arg ⟨Real.cos la, Real.cos ea * Real.sin la⟩)
  linarith

end PV.C06B
