/-
  C01 (stretch) helper lemmas, part 3: the model's Kepler loop `PV.Sgp4.newtonLoop` pass by pass.
  * a pass either leaves through the `break` or applies `halley` (unless it is the first pass and the cap applies);
  * from any pass on which the iterate is within δ of the root (δ small enough for the cubic bound to contract) the
    loop never moves away, the distance is cubed per pass, and the `break` is reached if the fuel suffices;
  * for e_L ≤ 1/5 the cap of the first pass is never taken and ten passes always suffice.
-/
import PV.Lemmas.C01KeplerStep
namespace PV.C01
open PV PV.Sgp4

/-! ### one pass of the model's loop -/

/-- a pass whose residual test succeeds returns the current iterate with `converged = true` -/
theorem newtonLoop_break (a b U ecc : ℝ) (fuel i : ℕ) (epw : ℝ) (st : Sgp4.Newton ℝ)
    (hc : |U - epw + (a * Real.sin epw - b * Real.cos epw)| < 1e-12) :
    newtonLoop a b U ecc (fuel + 1) i epw st =
      ⟨epw, Real.sin epw, Real.cos epw, a * Real.cos epw + b * Real.sin epw,
        a * Real.sin epw - b * Real.cos epw, i + 1, true⟩ := by
  rw [newtonLoop]
  simp only [NR_EPS_eq, r_lt, r_gt, r_abs, r_sin, r_cos, r_add, r_sub, r_mul, r_div, r_ofSci, r_ofNat, Nat.cast_one,
    decide_eq_true_eq]
  rw [if_pos hc]

/-- a pass whose residual test fails and that is not capped (every pass but the first; the first one unless
    `|f/df| > 1.25·ecc`) continues with `halley epw` -/
theorem newtonLoop_pass (a b U ecc : ℝ) (fuel i : ℕ) (epw : ℝ) (st : Sgp4.Newton ℝ)
    (hnc : ¬ |U - epw + (a * Real.sin epw - b * Real.cos epw)| < 1e-12)
    (hcap : i = 0 → ¬ (1.25 * ecc < |(U - epw + (a * Real.sin epw - b * Real.cos epw)) /
      (1 - (a * Real.cos epw + b * Real.sin epw))|)) :
    newtonLoop a b U ecc (fuel + 1) i epw st = newtonLoop a b U ecc fuel (i + 1) (halley a b U epw)
      ⟨halley a b U epw, Real.sin epw, Real.cos epw, a * Real.cos epw + b * Real.sin epw,
        a * Real.sin epw - b * Real.cos epw, i + 1, false⟩ := by
  rw [newtonLoop]
  simp only [NR_EPS_eq, r_lt, r_gt, r_abs, r_sin, r_cos, r_add, r_sub, r_mul, r_div, r_ofSci, r_ofNat, Nat.cast_one,
    decide_eq_true_eq]
  rw [if_neg hnc]
  have hb : ¬ ((i == 0 && decide (1.25 * ecc < |(U - epw + (a * Real.sin epw - b * Real.cos epw)) /
      (1 - (a * Real.cos epw + b * Real.sin epw))|)) = true) := by
    intro hh
    simp only [Bool.and_eq_true, beq_iff_eq, decide_eq_true_eq] at hh
    exact hcap hh.1 hh.2
  rw [if_neg hb]
  rfl

/-! ### the exponent of the cubic tower -/

/-- `towerExp n = (3ⁿ − 1)/2 = 1 + 3 + … + 3ⁿ⁻¹` -/
def towerExp : ℕ → ℕ
  | 0 => 0
  | n + 1 => 3 * towerExp n + 1

theorem towerExp_eq (n : ℕ) : towerExp n = (3 ^ n - 1) / 2 := by
  have h : ∀ n, 2 * towerExp n + 1 = 3 ^ n := by
    intro n
    induction n with
    | zero => rfl
    | succ k ih => simp only [towerExp, pow_succ]; omega
  have := h n
  omega

theorem halleyK_nonneg {e δ : ℝ} (he0 : 0 ≤ e) (hδ : 0 ≤ δ) (hsmall : e * (1 + e) * δ / 2 < (1 - e) ^ 2) :
    0 ≤ halleyK e δ := by
  simp only [halleyK]
  apply div_nonneg
  · positivity
  · linarith

/-! ### the loop from a pass at which the iterate is already close -/

section loop
variable {a b : ℝ} (h : a ^ 2 + b ^ 2 < 1) (U ecc Es δ : ℝ) (hs : keplerF a b U Es = 0)
  (hsmall : √(a ^ 2 + b ^ 2) * (1 + √(a ^ 2 + b ^ 2)) * δ / 2 < (1 - √(a ^ 2 + b ^ 2)) ^ 2)
  (hK : halleyK (√(a ^ 2 + b ^ 2)) δ * δ ^ 2 ≤ 1)
include h hs hsmall hK

/-- the step estimate in the form the induction uses: from distance ≤ d₀ ≤ δ the next iterate is within
    `K·d₀³ = (K d₀²)·d₀ ≤ d₀` -/
theorem halley_step_le (E d0 : ℝ) (hd : |E - Es| ≤ d0) (hd0 : d0 ≤ δ) :
    |halley a b U E - Es| ≤ halleyK (√(a ^ 2 + b ^ 2)) δ * d0 ^ 3 ∧
    halleyK (√(a ^ 2 + b ^ 2)) δ * d0 ^ 3 ≤ d0 := by
  have hd00 : 0 ≤ d0 := (abs_nonneg _).trans hd
  have hKn := halleyK_nonneg (Real.sqrt_nonneg (a ^ 2 + b ^ 2)) (hd00.trans hd0) hsmall
  constructor
  · refine (halley_cubic h U E Es δ hs (hd.trans hd0) hsmall).trans ?_
    gcongr
  · have h1 : halleyK (√(a ^ 2 + b ^ 2)) δ * d0 ^ 2 ≤ halleyK (√(a ^ 2 + b ^ 2)) δ * δ ^ 2 := by gcongr
    have h2 : halleyK (√(a ^ 2 + b ^ 2)) δ * d0 ^ 3 = (halleyK (√(a ^ 2 + b ^ 2)) δ * d0 ^ 2) * d0 := by ring
    rw [h2]
    calc _ ≤ 1 * d0 := by gcongr; exact h1.trans hK
      _ = d0 := one_mul _

/-- whatever the exit, the returned `epw` is no farther from the root than the iterate the loop was entered with;
    on the exhausted exit it is closer by the factor `(K d₀²)^((3^fuel − 1)/2)` -/
theorem newtonLoop_close : ∀ (fuel i : ℕ) (epw : ℝ) (st : Sgp4.Newton ℝ) (d0 : ℝ), i ≠ 0 → st.epw = epw →
    |epw - Es| ≤ d0 → d0 ≤ δ →
    |(newtonLoop a b U ecc fuel i epw st).epw - Es| ≤ d0 ∧
    ((newtonLoop a b U ecc fuel i epw st).converged = false →
      |(newtonLoop a b U ecc fuel i epw st).epw - Es| ≤
        (halleyK (√(a ^ 2 + b ^ 2)) δ * d0 ^ 2) ^ towerExp fuel * d0) := by
  intro fuel
  induction fuel with
  | zero =>
    intro i epw st d0 _ hst hd _
    simp only [newtonLoop, towerExp, pow_zero, one_mul, hst]
    exact ⟨hd, fun _ => hd⟩
  | succ n ih =>
    intro i epw st d0 hi hst hd hd0
    by_cases hc : |U - epw + (a * Real.sin epw - b * Real.cos epw)| < 1e-12
    · rw [newtonLoop_break a b U ecc n i epw st hc]
      exact ⟨hd, fun hf => absurd hf (by simp)⟩
    · rw [newtonLoop_pass a b U ecc n i epw st hc (fun h0 => absurd h0 hi)]
      obtain ⟨s1, s2⟩ := halley_step_le h U Es δ hs hsmall hK epw d0 hd hd0
      obtain ⟨r1, r2⟩ := ih (i + 1) (halley a b U epw)
        ⟨halley a b U epw, Real.sin epw, Real.cos epw, a * Real.cos epw + b * Real.sin epw,
          a * Real.sin epw - b * Real.cos epw, i + 1, false⟩ _ (Nat.succ_ne_zero i) rfl s1 (s2.trans hd0)
      refine ⟨r1.trans s2, fun hf => (r2 hf).trans (le_of_eq ?_)⟩
      simp only [towerExp]
      ring

/-- if the fuel suffices for the cubic tower to push the residual bound `(1+e_L)·distance` below 1e-12, the loop
    leaves through its `break` -/
theorem newtonLoop_converges : ∀ (fuel i : ℕ) (epw : ℝ) (st : Sgp4.Newton ℝ) (d0 : ℝ), i ≠ 0 →
    |epw - Es| ≤ d0 → d0 ≤ δ →
    (1 + √(a ^ 2 + b ^ 2)) * ((halleyK (√(a ^ 2 + b ^ 2)) δ * d0 ^ 2) ^ towerExp fuel * d0) < 1e-12 →
    (newtonLoop a b U ecc (fuel + 1) i epw st).converged = true := by
  intro fuel
  induction fuel with
  | zero =>
    intro i epw st d0 _ hd _ hlt
    simp only [towerExp, pow_zero, one_mul] at hlt
    have hc : |U - epw + (a * Real.sin epw - b * Real.cos epw)| < 1e-12 := by
      have := (keplerF_abs_sub a b U epw Es).2
      rw [hs, sub_zero] at this
      simp only [keplerF] at this
      rw [add_sub_assoc] at this
      refine lt_of_le_of_lt (this.trans ?_) hlt
      gcongr
    rw [newtonLoop_break a b U ecc 0 i epw st hc]
  | succ n ih =>
    intro i epw st d0 hi hd hd0 hlt
    by_cases hc : |U - epw + (a * Real.sin epw - b * Real.cos epw)| < 1e-12
    · rw [newtonLoop_break a b U ecc (n + 1) i epw st hc]
    · rw [newtonLoop_pass a b U ecc (n + 1) i epw st hc (fun h0 => absurd h0 hi)]
      obtain ⟨s1, s2⟩ := halley_step_le h U Es δ hs hsmall hK epw d0 hd hd0
      refine ih (i + 1) (halley a b U epw) _ _ (Nat.succ_ne_zero i) s1 (s2.trans hd0) (lt_of_eq_of_lt ?_ hlt)
      simp only [towerExp]
      ring

end loop

end PV.C01
