/-
  PV.Lemmas.PipelineGlue — glue facts for the end-to-end composition (PV/Props/Pipeline.lean):
  exact decimals read over ℝ, the parsed attributes of an encoded record as the printed elements,
  the stage structure of `orbitalOfLines`, the minutes-since-epoch in exact arithmetic.
-/
import PV.NumReal
import PV.Model.Pipeline
import PV.Spec.TleElements
import PV.Props.C02
import PV.Lemmas.C01Consts
import PV.Lemmas.C12Time
import PV.Lemmas.C08Time
import PV.Lemmas.C13
import Mathlib.Tactic.Ring
import Mathlib.Tactic.FieldSimp
import Mathlib.Tactic.NormNum
import Mathlib.Tactic.Linarith
namespace PV.PipelineL
open PV PV.Pipeline PV.Text PV.Spec.TleLayout PV.Spec.TleElements PV.Sgp4 PV.TleParse PV.Checksum Real

/-! ### exact decimals over ℝ -/

theorem r_ofSci_true (m e : ℕ) : (Num.ofSci m true e : ℝ) = (m : ℝ) / 10 ^ e := by
  show (OfScientific.ofScientific m true e : ℝ) = _
  rw [← Rat.cast_ofScientific]
  show ((Rat.ofScientific m true e : ℚ) : ℝ) = _
  rw [Rat.ofScientific_true_def, Rat.mkRat_eq_div]
  push_cast
  rfl

/-- `ofDec` read over ℝ is the decimal's value: no rounding, whatever the mantissa and exponent -/
theorem r_ofDec (d : Dec) : (ofDec d : ℝ) = decVal d := by
  unfold ofDec decVal
  split_ifs with h1 h2
  · rw [C12L.r_ofInt]
    obtain ⟨n, hn⟩ := Int.eq_ofNat_of_zero_le h1
    rw [hn]; push_cast
    simp only [Int.toNat_natCast, zpow_natCast]
  · have h1' : d.exp < 0 := by omega
    obtain ⟨n, hn⟩ := Int.eq_ofNat_of_zero_le (show 0 ≤ -d.exp by omega)
    obtain ⟨m, hm⟩ := Int.eq_ofNat_of_zero_le h2
    have he : d.exp = -(n : ℤ) := by omega
    rw [r_ofSci_true, hn, hm, he]
    simp only [Int.toNat_natCast, Int.cast_natCast, zpow_neg, zpow_natCast]
    rw [div_eq_mul_inv]
  · obtain ⟨n, hn⟩ := Int.eq_ofNat_of_zero_le (show 0 ≤ -d.exp by omega)
    obtain ⟨m, hm⟩ := Int.eq_ofNat_of_zero_le (show 0 ≤ -d.mant by omega)
    have he : d.exp = -(n : ℤ) := by omega
    have hmm : d.mant = -(m : ℤ) := by omega
    rw [r_neg, r_ofSci_true, hn, hm, he, hmm]
    simp only [Int.toNat_natCast, Int.cast_neg, Int.cast_natCast, zpow_neg, zpow_natCast]
    rw [div_eq_mul_inv]; ring

/-- `int(text) * 10 ** exp` read over ℝ is the same number -/
theorem r_ofIntTimesPow (d : Dec) : (ofIntTimesPow d : ℝ) = decVal d := by
  unfold ofIntTimesPow
  rw [r_mul, C12L.r_ofInt, r_ofDec]
  simp only [decVal, Int.cast_one, one_mul]

/-! ### parsed attributes of an encoded record = printed fields -/

/-- the glue between the text model and the propagator's input: the numbers `OrbitElements` reads off the
    parse result of an encoded record are the numbers printed in its fields (every reading, floats included) -/
theorem tleNumOfTle_valuesOf {α : Type} [Num α] (f : Fields) :
    (tleNumOfTle (C02.valuesOf f) : TleNum α) = tleNumOfFields f := rfl

theorem elements_xn_0 (t : TleNum ℝ) : (elements t).xn_0 = t.mean_motion * (π * 2 / 1440) := by
  simp only [elements, r_mul, r_div, r_pi, r_ofNat, C13.XMNPDA_real]

/-- `OrbitElements` of the printed numbers is the report's element set of the printed numbers -/
theorem toEl_elements_fields (f : Fields) :
    C01.toEl (elements (tleNumOfFields f : TleNum ℝ)) = printedEl f := by
  unfold C01.toEl printedEl
  simp only [elements, tleNumOfFields, r_mul, r_div, r_pi, r_ofNat, r_deg2rad, r_ofDec, r_ofIntTimesPow,
    C13.XMNPDA_real, C13.AE_real]
  simp only [Nat.cast_ofNat, mul_one]
  rw [mul_comm π 2]

/-! ### the stages of `Orbital.__init__` -/

/-- any lines, any reading: the checksum decides first, then the parser, then the element checks -/
theorem orbitalOfLines_eq {α : Type} [Num α] (l1 l2 : List Char) :
    (orbitalOfLines l1 l2 : Except Refusal (Orbital α)) =
      match accept l1 l2 with
      | .accepted =>
        (match parse Gen.tleColumns (strip l1) (strip l2) with
         | .error e => .error (.parse e)
         | .ok t => orbitalOfTle t)
      | o => .error (.checksum o) := by
  unfold orbitalOfLines orbitalOfLinesWith tleOfLines
  cases accept l1 l2 <;> simp only
  cases parse Gen.tleColumns (strip l1) (strip l2) <;> rfl

theorem elements_xn_0_raw {α : Type} [Num α] (t : TleNum α) :
    (elements t).xn_0 = t.mean_motion * (Num.pi * (2 : α) / XMNPDA) := rfl

open Classical in
/-- over ℝ: the mean-motion refusal of `OrbitElements`, then `_SGDP4Base.__init__` -/
theorem orbitalOfTle_eq (t : Tle) :
    (orbitalOfTle t : Except Refusal (Orbital ℝ)) =
      if ¬ 0 < (elements (tleNumOfTle t : TleNum ℝ)).xn_0 then .error (.init .mmRange)
      else match init (elements (tleNumOfTle t : TleNum ℝ)) with
        | .error ie => .error (.init ie)
        | .ok p => .ok ⟨t, elements (tleNumOfTle t), p⟩ := by
  unfold orbitalOfTle elementsChecked
  simp only [← elements_xn_0_raw, r_gt]
  by_cases h : (0 : ℝ) < (elements (tleNumOfTle t : TleNum ℝ)).xn_0
  · have h' : (@OfNat.ofNat ℝ 0 instOfNatNum) < (elements (tleNumOfTle t : TleNum ℝ)).xn_0 := by
      rw [r_ofNat]; exact_mod_cast h
    simp only [h', decide_true, if_true, h, not_true_eq_false, if_false]
    cases init (elements (tleNumOfTle t : TleNum ℝ)) <;> rfl
  · have h' : ¬ (@OfNat.ofNat ℝ 0 instOfNatNum) < (elements (tleNumOfTle t : TleNum ℝ)).xn_0 := by
      rw [r_ofNat]; exact_mod_cast h
    simp only [h', decide_false, Bool.false_eq_true, if_false, h, not_false_eq_true, if_true]

open Classical in
/-- the complete decision list of the construction, guards in source order -/
theorem orbitalOfTle_cases (t : Tle) :
    (orbitalOfTle t : Except Refusal (Orbital ℝ)) =
      if ¬ 0 < (elements (tleNumOfTle t : TleNum ℝ)).xn_0 then .error (.init .mmRange)
      else if ¬ C13.EccOk (elements (tleNumOfTle t)) then .error (.init .eccRange)
      else if ¬ C13.MmOk (elements (tleNumOfTle t)) then .error (.init .mmRange)
      else if ¬ C13.InclOk (elements (tleNumOfTle t)) then .error (.init .inclRange)
      else if 225 ≤ (basic (elements (tleNumOfTle t : TleNum ℝ))).period then .error (.init .deepSpace)
      else .ok ⟨t, elements (tleNumOfTle t),
        coeffs (elements (tleNumOfTle t)) (basic (elements (tleNumOfTle t))) (C13.modeSpec (elements (tleNumOfTle t)))⟩ := by
  rw [orbitalOfTle_eq, C13.init_eq]
  split_ifs <;> rfl

/-- `orbitalOfTle` is `Sgp4.construct` on the attributes' numbers, keeping the attributes and the elements
    (every reading, floats included) -/
theorem orbitalOfTle_construct {α : Type} [Num α] (t : Tle) :
    (orbitalOfTle t : Except Refusal (Orbital α)) =
      match construct (tleNumOfTle t : TleNum α) with
      | .error ie => .error (.init ie)
      | .ok p => .ok ⟨t, elements (tleNumOfTle t), p⟩ := by
  unfold orbitalOfTle construct elementsChecked
  by_cases hb : Num.gt ((tleNumOfTle t : TleNum α).mean_motion * (Num.pi * (2 : α) / XMNPDA)) (0 : α) = true
  · simp only [hb, if_true]
    cases init (elements (tleNumOfTle t : TleNum α)) <;> rfl
  · simp only [hb, Bool.false_eq_true, if_false]

theorem construct_ok {α : Type} [Num α] {t : TleNum α} {p : Params α} (h : construct t = .ok p) :
    init (elements t) = .ok p := by
  unfold construct elementsChecked at h
  by_cases hb : Num.gt (t.mean_motion * (Num.pi * (2 : α) / XMNPDA)) (0 : α) = true
  · simpa only [hb, if_true] using h
  · simp only [hb, Bool.false_eq_true, if_false, reduceCtorEq] at h

/-- encoded lines of a well-formed record pass checksum and parser: what remains is the element checks on
    the printed numbers -/
theorem orbitalOfLines_encode {α : Type} [Num α] (f : Fields) (h : WellFormed f) :
    (orbitalOfLines (encode f).1 (encode f).2 : Except Refusal (Orbital α)) = orbitalOfTle (C02.valuesOf f) := by
  unfold orbitalOfLines orbitalOfLinesWith
  rw [C02.tle_encode f h]

/-- what an existing `Orbital` object records about its construction -/
theorem orbitalOfLines_ok {l1 l2 : List Char} {o : Orbital ℝ} (h : orbitalOfLines l1 l2 = .ok o) :
    accept l1 l2 = .accepted ∧ parse Gen.tleColumns (strip l1) (strip l2) = .ok o.tle ∧
    o.elements = elements (tleNumOfTle o.tle) ∧ 0 < o.elements.xn_0 ∧ init o.elements = .ok o.params := by
  rw [orbitalOfLines_eq] at h
  cases ha : accept l1 l2 <;> rw [ha] at h <;> simp only [reduceCtorEq] at h
  cases hp : parse Gen.tleColumns (strip l1) (strip l2) with
  | error e => rw [hp] at h; simp only [reduceCtorEq] at h
  | ok t =>
    rw [hp] at h
    simp only [orbitalOfTle_eq] at h
    by_cases hm : 0 < (elements (tleNumOfTle t : TleNum ℝ)).xn_0
    · simp only [hm, not_true_eq_false, if_false] at h
      cases hi : init (elements (tleNumOfTle t : TleNum ℝ)) with
      | error ie => rw [hi] at h; simp only [reduceCtorEq] at h
      | ok p =>
        rw [hi] at h
        have ho := Except.ok.inj h
        subst ho
        exact ⟨rfl, rfl, rfl, hm, hi⟩
    · simp only [hm, not_false_eq_true, if_true, reduceCtorEq] at h

/-! ### minutes since epoch, exactly -/

/-- `(dt2np(t) − t_0) / timedelta64(1, "m")` over ℝ, every unit: (instant − epoch) / 60 s -/
theorem r_tsinceMinutes (u : Time.Unit) (ticks epochUs : ℤ) :
    (Time.tsinceMinutes u ticks epochUs : ℝ) = minutesFrom epochUs (Time.nsPerTick u) ticks := by
  unfold Time.tsinceMinutes minutesFrom
  cases u <;> simp only [r_div, C12L.r_ofInt, Time.nsPerTick] <;> push_cast <;> ring

theorem minutesSinceEpoch_eq (o : Orbital ℝ) (i : Instant) :
    minutesSinceEpoch o i = minutesFrom o.epochUs (Time.nsPerTick i.unit) i.ticks :=
  r_tsinceMinutes _ _ _

/-- an instant of `us` µs since 1970 held in any unit in which it is a whole number of ticks -/
theorem minutesFrom_representable (u : Time.Unit) (us epochUs : ℤ) (h : C08L.Representable u us) :
    minutesFrom epochUs (Time.nsPerTick u) (C08L.ticksOf u us) = ((us - epochUs : ℤ) : ℝ) / 60000000 := by
  unfold minutesFrom
  rw [C08L.ticksOf_mul u us h]
  push_cast; ring

/-- the same number through the day counts of `astronomy.jdays2000`: 1440 · (days(t) − days(epoch)) -/
theorem minutesFrom_eq_days (u : Time.Unit) (ticks epochUs : ℤ) :
    minutesFrom epochUs (Time.nsPerTick u) ticks =
      1440 * ((Time.jdays2000 u ticks : ℝ) - (Time.jdays2000 .us epochUs : ℝ)) := by
  rw [C12L.jdays2000_value, C12L.jdays2000_value]
  unfold minutesFrom
  simp only [Time.nsPerTick]
  push_cast; ring

end PV.PipelineL
