/-
  C18 — the inductive invariant of PV.Model.Cache and its preservation by one thread step.
  Core Lean only.
-/
import PV.Model.Cache
namespace PV.C18
open PV.Cache

variable {E A T P R : Type}

/-- each slot is empty or holds the canonical value -/
def SlotsOK (sem : Sem E A T P R) (e : E) (sh : Shared T P) : Prop :=
  (sh.anTime = none ∨ sh.anTime = some (sem.canonT e)) ∧
  (sh.anPeriod = none ∨ sh.anPeriod = some (sem.canonP e))

/-- What a thread at program counter `pc` knows: its loaded values are canonical, a slot it has stored
    (or seen set) is set, it is executing the code of its own kind of query, a returned value is the
    closed-form answer, and no AttributeError has escaped. -/
def PCOK (sem : Sem E A T P R) (e : E) (sh : Shared T P) (q : Kind × A) : PC T P R → Prop
  | .tryT => q.1 = .orbit
  | .tryP t => q.1 = .orbit ∧ t = sem.canonT e ∧ sh.anTime = some (sem.canonT e)
  | .compute => q.1 = .orbit
  | .storeTn => q.1 = .orbit ∧ sem.atNode e = false
  | .storeTe => q.1 = .orbit ∧ sem.atNode e = true
  | .loadT1 => q.1 = .orbit ∧ sh.anTime = some (sem.canonT e)
  | .loadT2 t1 => q.1 = .orbit ∧ t1 = sem.canonT e ∧ sh.anTime = some (sem.canonT e)
  | .storeP t1 t2 => q.1 = .orbit ∧ t1 = sem.canonT e ∧ t2 = sem.canonT e ∧ sh.anTime = some (sem.canonT e)
  | .loadT3 => q.1 = .orbit ∧ sh.anTime = some (sem.canonT e) ∧ sh.anPeriod = some (sem.canonP e)
  | .loadP3 t => q.1 = .orbit ∧ t = sem.canonT e ∧ sh.anTime = some (sem.canonT e) ∧ sh.anPeriod = some (sem.canonP e)
  | .ret t p => q.1 = .orbit ∧ t = sem.canonT e ∧ p = sem.canonP e
  | .pureCall => q.1 = .other
  | .done r => r = sem.answer e q
  | .raised => False

/-- The invariant: slots empty-or-canonical, and every thread's local knowledge is right. -/
def Inv (sem : Sem E A T P R) (s : State E A T P R) : Prop :=
  SlotsOK sem s.tle s.sh ∧ ∀ th ∈ s.threads, PCOK sem s.tle s.sh (th.kind, th.args) th.pc

/-- every event carries canonical values: stores write them (at the store statement of the branch the TLE
    selects), successful loads read them -/
def EventOK (sem : Sem E A T P R) (e : E) : Event T P → Prop
  | .loadT _ v => v = none ∨ v = some (sem.canonT e)
  | .loadP _ v => v = none ∨ v = some (sem.canonP e)
  | .storeT _ b v => b = sem.atNode e ∧ v = sem.canonT e
  | .storeP _ v => v = sem.canonP e

/-- a set canonical slot stays set and canonical -/
def Grows (sem : Sem E A T P R) (e : E) (sh sh' : Shared T P) : Prop :=
  (sh.anTime = some (sem.canonT e) → sh'.anTime = some (sem.canonT e)) ∧
  (sh.anPeriod = some (sem.canonP e) → sh'.anPeriod = some (sem.canonP e))

theorem grows_refl (sem : Sem E A T P R) (e : E) (sh : Shared T P) : Grows sem e sh sh := ⟨id, id⟩

theorem pcok_mono (sem : Sem E A T P R) (e : E) (sh sh' : Shared T P) (q : Kind × A) (pc : PC T P R)
    (hg : Grows sem e sh sh') (h : PCOK sem e sh q pc) : PCOK sem e sh' q pc := by
  obtain ⟨g1, g2⟩ := hg
  cases pc <;> simp only [PCOK] at h ⊢ <;> grind

theorem canonT_of_atNode (sem : Sem E A T P R) (e : E) (h : sem.atNode e = true) : sem.canonT e = sem.epoch e := by
  simp [Sem.canonT, h]

theorem canonT_of_not_atNode (sem : Sem E A T P R) (e : E) (h : sem.atNode e = false) : sem.canonT e = sem.lastAn e := by
  simp [Sem.canonT, h]

/-- One step of a thread whose local knowledge is right keeps the slots empty-or-canonical, only ever
    sets slots (to the canonical value), leaves the thread's knowledge right, and emits a canonical event. -/
theorem stepThread_ok (sem : Sem E A T P R) (e : E) (i : Nat) (sh : Shared T P) (th : Thread A T P R)
    (hs : SlotsOK sem e sh) (hp : PCOK sem e sh (th.kind, th.args) th.pc) :
    SlotsOK sem e (stepThread sem e i sh th).1 ∧ Grows sem e sh (stepThread sem e i sh th).1 ∧
    PCOK sem e (stepThread sem e i sh th).1 (th.kind, th.args) (stepThread sem e i sh th).2.1 ∧
    ∀ ev ∈ (stepThread sem e i sh th).2.2, EventOK sem e ev := by
  obtain ⟨k, a, pc⟩ := th
  obtain ⟨st, sp⟩ := sh
  obtain ⟨h1, h2⟩ := hs
  simp only at h1 h2
  cases pc with
  | tryT =>
    cases st with
    | none => simp_all [stepThread, PCOK, SlotsOK, Grows, EventOK]
    | some t => simp_all [stepThread, PCOK, SlotsOK, Grows, EventOK]
  | tryP t =>
    cases sp with
    | none => simp_all [stepThread, PCOK, SlotsOK, Grows, EventOK]
    | some p => simp_all [stepThread, PCOK, SlotsOK, Grows, EventOK]
  | compute =>
    cases hn : sem.atNode e <;> simp_all [stepThread, PCOK, SlotsOK, Grows, EventOK]
  | storeTn =>
    have := canonT_of_not_atNode sem e hp.2
    simp_all [stepThread, PCOK, SlotsOK, Grows, EventOK]
  | storeTe =>
    have := canonT_of_atNode sem e hp.2
    simp_all [stepThread, PCOK, SlotsOK, Grows, EventOK]
  | loadT1 => simp_all [stepThread, PCOK, SlotsOK, Grows, EventOK]
  | loadT2 t1 => simp_all [stepThread, PCOK, SlotsOK, Grows, EventOK]
  | storeP t1 t2 => simp_all [stepThread, PCOK, SlotsOK, Grows, EventOK, Sem.canonP]
  | loadT3 => simp_all [stepThread, PCOK, SlotsOK, Grows, EventOK]
  | loadP3 t => simp_all [stepThread, PCOK, SlotsOK, Grows, EventOK]
  | ret t p => simp_all [stepThread, PCOK, SlotsOK, Grows, EventOK, Sem.answer]
  | pureCall => simp_all [stepThread, PCOK, SlotsOK, Grows, EventOK, Sem.answer]
  | done r => simp_all [stepThread, PCOK, SlotsOK, Grows, EventOK]
  | raised => exact False.elim hp

end PV.C18
