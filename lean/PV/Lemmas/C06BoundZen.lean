/-
  PV.Lemmas.C06BoundZen — zenith angle / altitude / cos_zen: code vs Almanac.

  `cz φ θ ε λ` is the inner product of the observer's zenith unit vector
  z = (cos φ cos θ, cos φ sin θ, sin φ) (θ = GMST + east longitude) with the sun's equatorial unit
  vector u = (cos λ, cos ε sin λ, sin ε sin λ).  The zenith angle arccos(cz) moves by at most
  |Δλ| when λ changes (rotation about the ecliptic pole: ⟨u, u'⟩ = cos Δλ), by at most |Δε| when
  ε changes (⟨u, u'⟩ = cos²λ + sin²λ cos Δε ≥ cos Δε) and by at most |Δθ| when θ changes
  (⟨z, z'⟩ = sin²φ + cos²φ cos Δθ ≥ cos Δθ): three uses of the spherical triangle inequality
  `zen_lip`.  No Lipschitz property of arcsin/arccos near ±1 is needed.
-/
import PV.Lemmas.C06BoundSphere
import PV.Lemmas.C06BoundDec
import PV.Props.C06
import PV.Props.C12
namespace PV.C06B
open PV PV.Astro PV.C06L

/-- ⟨zenith(φ, θ), sun(ε, λ)⟩ -/
noncomputable def cz (phi th eps lam : ℝ) : ℝ :=
  Real.sin phi * (Real.sin eps * Real.sin lam)
    + Real.cos phi * (Real.cos th * Real.cos lam + Real.sin th * (Real.cos eps * Real.sin lam))

theorem unit_z (phi th : ℝ) :
    (Real.cos phi * Real.cos th) ^ 2 + (Real.cos phi * Real.sin th) ^ 2 + Real.sin phi ^ 2 = 1 := by
  have h1 := Real.sin_sq_add_cos_sq phi
  have h2 := Real.sin_sq_add_cos_sq th
  linear_combination h1 + Real.cos phi ^ 2 * h2

theorem unit_u (eps lam : ℝ) :
    Real.cos lam ^ 2 + (Real.cos eps * Real.sin lam) ^ 2 + (Real.sin eps * Real.sin lam) ^ 2
      = 1 := by
  have h1 := Real.sin_sq_add_cos_sq eps
  have h2 := Real.sin_sq_add_cos_sq lam
  linear_combination h2 + Real.sin lam ^ 2 * h1

/-- changing λ moves the zenith angle by at most |Δλ| -/
theorem zen_step_lam (phi th eps l0 l1 : ℝ) :
    |Real.arccos (cz phi th eps l0) - Real.arccos (cz phi th eps l1)| ≤ |l0 - l1| := by
  have h := zen_lip (Real.cos phi * Real.cos th) (Real.cos phi * Real.sin th) (Real.sin phi)
    (Real.cos l0) (Real.cos eps * Real.sin l0) (Real.sin eps * Real.sin l0)
    (Real.cos l1) (Real.cos eps * Real.sin l1) (Real.sin eps * Real.sin l1)
    (cz phi th eps l0) (cz phi th eps l1) (Real.cos (l0 - l1))
    (unit_z phi th) (unit_u eps l0) (unit_u eps l1) (by unfold cz; ring) (by unfold cz; ring)
    (by
      rw [Real.cos_sub]
      have h1 := Real.sin_sq_add_cos_sq eps
      linear_combination (-(Real.sin l0 * Real.sin l1)) * h1)
  exact le_trans h (arccos_le_abs_of_cos_le _ _ le_rfl)

/-- changing ε moves the zenith angle by at most |Δε| -/
theorem zen_step_eps (phi th e0 e1 lam : ℝ) :
    |Real.arccos (cz phi th e0 lam) - Real.arccos (cz phi th e1 lam)| ≤ |e0 - e1| := by
  have h := zen_lip (Real.cos phi * Real.cos th) (Real.cos phi * Real.sin th) (Real.sin phi)
    (Real.cos lam) (Real.cos e0 * Real.sin lam) (Real.sin e0 * Real.sin lam)
    (Real.cos lam) (Real.cos e1 * Real.sin lam) (Real.sin e1 * Real.sin lam)
    (cz phi th e0 lam) (cz phi th e1 lam)
    (Real.cos lam ^ 2 + Real.sin lam ^ 2 * Real.cos (e0 - e1))
    (unit_z phi th) (unit_u e0 lam) (unit_u e1 lam) (by unfold cz; ring) (by unfold cz; ring)
    (by rw [Real.cos_sub]; ring)
  refine le_trans h (arccos_le_abs_of_cos_le _ _ ?_)
  have h2 := Real.sin_sq_add_cos_sq lam
  have hc := Real.cos_le_one (e0 - e1)
  nlinarith [sq_nonneg (Real.cos lam)]

/-- changing θ = GMST + longitude moves the zenith angle by at most |Δθ| -/
theorem zen_step_th (phi t0 t1 eps lam : ℝ) :
    |Real.arccos (cz phi t0 eps lam) - Real.arccos (cz phi t1 eps lam)| ≤ |t0 - t1| := by
  have h := zen_lip (Real.cos lam) (Real.cos eps * Real.sin lam) (Real.sin eps * Real.sin lam)
    (Real.cos phi * Real.cos t0) (Real.cos phi * Real.sin t0) (Real.sin phi)
    (Real.cos phi * Real.cos t1) (Real.cos phi * Real.sin t1) (Real.sin phi)
    (cz phi t0 eps lam) (cz phi t1 eps lam)
    (Real.sin phi ^ 2 + Real.cos phi ^ 2 * Real.cos (t0 - t1))
    (unit_u eps lam) (unit_z phi t0) (unit_z phi t1) (by unfold cz; ring) (by unfold cz; ring)
    (by rw [Real.cos_sub]; ring)
  refine le_trans h (arccos_le_abs_of_cos_le _ _ ?_)
  have h2 := Real.sin_sq_add_cos_sq phi
  have hc := Real.cos_le_one (t0 - t1)
  nlinarith [sq_nonneg (Real.sin phi)]

/-- `cz` is 2π-periodic in θ -/
theorem cz_shift (phi th eps lam : ℝ) (k : ℤ) :
    cz phi (th + 2 * Real.pi * k) eps lam = cz phi th eps lam := by
  unfold cz
  have e : th + 2 * Real.pi * k = th + k * (2 * Real.pi) := by ring
  rw [e, Real.cos_add_int_mul_two_pi, Real.sin_add_int_mul_two_pi]

/-- the three steps together; the sidereal angles may differ by any multiple of 2π plus G -/
theorem zen_core (phi t0 t1 e0 e1 l0 l1 : ℝ) (k : ℤ) :
    |Real.arccos (cz phi t0 e0 l0) - Real.arccos (cz phi t1 e1 l1)|
      ≤ |l0 - l1| + |e0 - e1| + |t0 - t1 - 2 * Real.pi * k| := by
  have h1 := zen_step_lam phi t0 e0 l0 l1
  have h2 := zen_step_eps phi t0 e0 e1 l1
  have h3 := zen_step_th phi t0 (t1 + 2 * Real.pi * k) e1 l1
  rw [cz_shift] at h3
  have e : t0 - (t1 + 2 * Real.pi * k) = t0 - t1 - 2 * Real.pi * k := by ring
  rw [e] at h3
  have := abs_sub_le (Real.arccos (cz phi t0 e0 l0)) (Real.arccos (cz phi t0 e0 l1))
    (Real.arccos (cz phi t1 e1 l1))
  have := abs_sub_le (Real.arccos (cz phi t0 e0 l1)) (Real.arccos (cz phi t0 e1 l1))
    (Real.arccos (cz phi t1 e1 l1))
  linarith

/-- the cos-zenith formula at the textbook (α, δ) of (ε, λ) is `cz` -/
theorem cosZenith_eq_cz (phi g lon eps lam : ℝ) (hk : 0 < Real.cos eps) :
    Almanac.cosZenith phi (Real.arcsin (Real.sin eps * Real.sin lam))
        (Almanac.hourAngle g lon (Complex.arg ⟨Real.cos lam, Real.cos eps * Real.sin lam⟩))
      = cz phi (g + lon) eps lam := by
  obtain ⟨h1, h2, h3⟩ := dir_of_radec eps lam hk
  simp only [Almanac.cosZenith, Almanac.hourAngle, r_add, r_sub, r_mul, r_sin, r_cos]
  unfold cz
  rw [h3, Real.cos_sub]
  generalize Complex.arg ⟨Real.cos lam, Real.cos eps * Real.sin lam⟩ = al at h1 h2
  generalize Real.cos (Real.arcsin (Real.sin eps * Real.sin lam)) = cd at h1 h2
  linear_combination (Real.cos phi * Real.cos (g + lon)) * h1
    + (Real.cos phi * Real.sin (g + lon)) * h2

/-- the code's `cos_zen` is `cz` at the code's ε, λ and θ = gmst + lon -/
theorem cosZen_eq_cz (d lonDeg latDeg : ℝ) (hd : |d| ≤ 18263)
    (hlam : Real.cos (sunEclipticLongitude d) ≠ -1) :
    cosZen d lonDeg latDeg
      = cz (Num.deg2rad latDeg) (gmst d + Num.deg2rad lonDeg) (obliquity d)
          (sunEclipticLongitude d) := by
  have heps := cos_obliquity_pos d hd
  rw [PV.C06.coszen_eq_almanac, PV.C06.sunRaDec_eq_textbook d heps hlam]
  exact cosZenith_eq_cz _ _ _ _ _ heps

/-- the Almanac's cos(zenith distance) with sidereal angle g is `cz` at the Almanac's ε, λ -/
theorem almanac_cosZen_eq_cz (d g lon phi : ℝ) (hd : |d| ≤ 18263) :
    Almanac.cosZenith phi (Almanac.raDec d).2 (Almanac.hourAngle g lon (Almanac.raDec d).1)
      = cz phi (g + lon) (Num.deg2rad (Almanac.obliquityDeg d))
          (Num.deg2rad (Almanac.eclLonDeg d)) := by
  obtain ⟨a1, a2⟩ := epsA_range d hd
  obtain ⟨-, -, k1, -⟩ := sincos_obl _ a1 a2
  rw [almanac_raDec_real]
  exact cosZenith_eq_cz _ _ _ _ _ (by linarith)

/-- zenith angle, radians: code (own GMST) vs Almanac with sidereal angle g, where
    gmst d ≡ g + G' (mod 2π), |G'| ≤ G -/
theorem zenith_close_rad (d lonDeg latDeg g G : ℝ) (k : ℤ) (hd : |d| ≤ 18263)
    (hlam : Real.cos (sunEclipticLongitude d) ≠ -1) (hg : |gmst d - g - 2 * Real.pi * k| ≤ G) :
    |Real.arccos (cosZen d lonDeg latDeg)
      - Real.arccos (Almanac.cosZenith (Num.deg2rad latDeg) (Almanac.raDec d).2
          (Almanac.hourAngle g (Num.deg2rad lonDeg) (Almanac.raDec d).1))|
      ≤ 0.0131 * (Real.pi / 180) + G := by
  rw [cosZen_eq_cz d lonDeg latDeg hd hlam, almanac_cosZen_eq_cz d g _ _ hd]
  have h := zen_core (Num.deg2rad latDeg) (gmst d + Num.deg2rad lonDeg) (g + Num.deg2rad lonDeg)
    (obliquity d) (Num.deg2rad (Almanac.obliquityDeg d)) (sunEclipticLongitude d)
    (Num.deg2rad (Almanac.eclLonDeg d)) k
  have e : gmst d + Num.deg2rad lonDeg - (g + Num.deg2rad lonDeg) - 2 * Real.pi * k
      = gmst d - g - 2 * Real.pi * k := by ring
  rw [e] at h
  have hl := dlam_rad d hd
  have he := deps_rad d hd
  linarith

/-- `cz` is a cosine of an angle: |cz| ≤ 1 -/
theorem cz_range (phi th eps lam : ℝ) : -1 ≤ cz phi th eps lam ∧ cz phi th eps lam ≤ 1 := by
  have h := dot_sq_le_one (Real.cos phi * Real.cos th) (Real.cos phi * Real.sin th) (Real.sin phi)
    (Real.cos lam) (Real.cos eps * Real.sin lam) (Real.sin eps * Real.sin lam)
    (unit_z phi th) (unit_u eps lam)
  have e : cz phi th eps lam = Real.cos phi * Real.cos th * Real.cos lam
      + Real.cos phi * Real.sin th * (Real.cos eps * Real.sin lam)
      + Real.sin phi * (Real.sin eps * Real.sin lam) := by unfold cz; ring
  rw [← e] at h
  exact abs_le.mp ((sq_le_one_iff_abs_le_one _).mp h)

/-- |a − b| ≤ |arccos a − arccos b| for a, b ∈ [−1, 1] (cos is 1-Lipschitz) -/
theorem sub_le_arccos_sub (a b : ℝ) (ha : -1 ≤ a ∧ a ≤ 1) (hb : -1 ≤ b ∧ b ≤ 1) :
    |a - b| ≤ |Real.arccos a - Real.arccos b| := by
  have := Real.abs_cos_sub_cos_le (Real.arccos a) (Real.arccos b)
  rwa [Real.cos_arccos ha.1 ha.2, Real.cos_arccos hb.1 hb.2] at this

/-- arcsin a − arcsin b = −(arccos a − arccos b) -/
theorem arcsin_sub_eq (a b : ℝ) :
    Real.arcsin a - Real.arcsin b = -(Real.arccos a - Real.arccos b) := by
  rw [Real.arccos_eq_pi_div_two_sub_arcsin, Real.arccos_eq_pi_div_two_sub_arcsin]; ring

/-! ### radians → degrees -/

theorem rad2deg_le (x B : ℝ) (h : x ≤ B * (Real.pi / 180)) : x * (180 / Real.pi) ≤ B := by
  have hpos := Real.pi_pos
  have := mul_le_mul_of_nonneg_right h (by positivity : (0:ℝ) ≤ 180 / Real.pi)
  have e : B * (Real.pi / 180) * (180 / Real.pi) = B := by field_simp
  linarith

theorem rad2deg_le_add (x B G : ℝ) (h : x ≤ B * (Real.pi / 180) + G) :
    x * (180 / Real.pi) ≤ B + G * (180 / Real.pi) := by
  have hpos := Real.pi_pos
  have := mul_le_mul_of_nonneg_right h (by positivity : (0:ℝ) ≤ 180 / Real.pi)
  have e1 : B * (Real.pi / 180) * (180 / Real.pi) = B := by field_simp
  have e : (B * (Real.pi / 180) + G) * (180 / Real.pi) = B + G * (180 / Real.pi) := by
    rw [add_mul, e1]
  linarith

theorem abs_rad2deg_sub (a b : ℝ) :
    |Num.rad2deg a - Num.rad2deg b| = |a - b| * (180 / Real.pi) := by
  have hpos := Real.pi_pos
  rw [r_rad2deg, r_rad2deg, ← sub_mul, abs_mul, abs_of_pos (by positivity : (0:ℝ) < 180 / Real.pi)]

/-- |d| ≤ 18263 ⇒ |T| ≤ 1 (hypothesis of the C12 GMST theorems) -/
theorem centuries_le_one (d : ℝ) (hd : |d| ≤ 18263) : |d / 36525| ≤ 1 := by
  rw [abs_div, abs_of_pos (by norm_num : (0:ℝ) < 36525), div_le_one (by norm_num)]
  linarith

end PV.C06B
