/-
  Helper lemmas for C07Bound (meridian plane, unit = equatorial radius; maps `Tmap`, `gfun`, `cfun`,
  `Wd` of PV/Lemmas/C04ContractCore.lean, `Dfun` and the fixed-point forms of PV/Lemmas/C14BoundCore.lean).

  (B) deflection: `S(φ) = (c cos φ, (1−e) c sin φ)` is the ellipse point of geodetic latitude `φ`;
      `X(φ) = r S_z − z S_r`, `Y(φ) = r S_r + z S_z` are the cross and inner products of the position
      `(r, z)` with `S(φ)`.  At the geodetic latitude `φ*` of a point on or outside the ellipse
      `|X| ≤ 0.00336 Y` (`e²/(2√(1−e²)) = 0.0033585`, the maximal deflection of the vertical, 0.1924°),
      and `X`, `Y` are `1.0102 R`-Lipschitz, so `|X(lat)| ≤ 0.00349 Y(lat)` for `|lat − φ*| ≤ 1.2e-7`
      (`tan 0.2° = 0.0034907`).
  (C) altitude: `H(φ) = r cos φ + z sin φ − √(1 − e sin² φ)` equals the geodetic height `h` at `φ*`, is
      `(R + 0.00672)`-Lipschitz, and `h (2c + h κ) = r² + z²/(1−e) − 1`.
-/
import PV.Lemmas.C14BoundCore

namespace PV.GeoB
open Real PV.C04C

/-! ### the ellipse point of geodetic latitude φ and its derivative -/

/-- `(1−e)/W³`: meridian radius of curvature in equatorial radii -/
noncomputable def mfun (e φ : ℝ) : ℝ := (1 - e) / (Wd e φ * √(Wd e φ))
noncomputable def Srf (e φ : ℝ) : ℝ := cfun e φ * cos φ
noncomputable def Szf (e φ : ℝ) : ℝ := (1 - e) * cfun e φ * sin φ

theorem mfun_bounds {e : ℝ} (he : EccOK e) (φ : ℝ) : 0 < mfun e φ ∧ mfun e φ ≤ 1.0102 := by
  have hd := deriv_den_ge he φ
  have hp : 0 < Wd e φ * √(Wd e φ) := lt_of_lt_of_le (by norm_num) hd
  have h1 : 0 < 1 - e := by have := he.2; linarith
  unfold mfun
  refine ⟨div_pos h1 hp, ?_⟩
  rw [div_le_iff₀ hp]
  have := he.1
  nlinarith

theorem hasDerivAt_Srf {e : ℝ} (he : EccOK e) (φ : ℝ) :
    HasDerivAt (Srf e) (-(mfun e φ * sin φ)) φ := by
  have h : HasDerivAt (Srf e) _ φ := (hasDerivAt_cfun he φ).mul (hasDerivAt_cos φ)
  refine h.congr_deriv ?_
  have hp := sqrtWd_pos he φ
  have hsq : √(Wd e φ) ^ 2 = 1 - e * sin φ ^ 2 := sqrtWd_sq he φ
  have hcs := sin_sq_add_cos_sq φ
  unfold mfun cfun
  rw [← sqrtWd_sq he φ]
  set s := √(Wd e φ)
  have hs0 : s ≠ 0 := hp.ne'
  field_simp
  linear_combination (-(sin φ)) * hsq + (e * sin φ) * hcs

theorem hasDerivAt_Szf {e : ℝ} (he : EccOK e) (φ : ℝ) :
    HasDerivAt (Szf e) (mfun e φ * cos φ) φ := by
  have h : HasDerivAt (Szf e) _ φ :=
    ((hasDerivAt_cfun he φ).const_mul (1 - e)).mul (hasDerivAt_sin φ)
  refine h.congr_deriv ?_
  have hp := sqrtWd_pos he φ
  have hsq : √(Wd e φ) ^ 2 = 1 - e * sin φ ^ 2 := sqrtWd_sq he φ
  unfold mfun cfun
  rw [← sqrtWd_sq he φ]
  set s := √(Wd e φ)
  have hs0 : s ≠ 0 := hp.ne'
  field_simp
  linear_combination (cos φ - e * cos φ) * hsq

/-- cross product of the position with the ellipse point -/
noncomputable def Xfun (e z r φ : ℝ) : ℝ := r * Szf e φ - z * Srf e φ
/-- inner product of the position with the ellipse point -/
noncomputable def Yfun (e z r φ : ℝ) : ℝ := r * Srf e φ + z * Szf e φ

theorem hasDerivAt_Xfun {e : ℝ} (he : EccOK e) (z r φ : ℝ) :
    HasDerivAt (Xfun e z r) (r * (mfun e φ * cos φ) - z * (-(mfun e φ * sin φ))) φ :=
  ((hasDerivAt_Szf he φ).const_mul r).sub ((hasDerivAt_Srf he φ).const_mul z)

theorem hasDerivAt_Yfun {e : ℝ} (he : EccOK e) (z r φ : ℝ) :
    HasDerivAt (Yfun e z r) (r * (-(mfun e φ * sin φ)) + z * (mfun e φ * cos φ)) φ :=
  ((hasDerivAt_Srf he φ).const_mul r).add ((hasDerivAt_Szf he φ).const_mul z)

theorem Xfun_deriv_abs_le {e : ℝ} (he : EccOK e) (z r φ : ℝ) :
    |r * (mfun e φ * cos φ) - z * (-(mfun e φ * sin φ))| ≤ 1.0102 * √(r ^ 2 + z ^ 2) := by
  obtain ⟨hm0, hm1⟩ := mfun_bounds he φ
  have h1 := abs_dot_unit_le r z φ
  have : r * (mfun e φ * cos φ) - z * (-(mfun e φ * sin φ)) = mfun e φ * (r * cos φ + z * sin φ) := by ring
  rw [this, abs_mul, abs_of_pos hm0]
  exact mul_le_mul hm1 h1 (abs_nonneg _) (by norm_num)

theorem Yfun_deriv_abs_le {e : ℝ} (he : EccOK e) (z r φ : ℝ) :
    |r * (-(mfun e φ * sin φ)) + z * (mfun e φ * cos φ)| ≤ 1.0102 * √(r ^ 2 + z ^ 2) := by
  obtain ⟨hm0, hm1⟩ := mfun_bounds he φ
  have h1 := abs_cross_unit_le r z φ
  have : r * (-(mfun e φ * sin φ)) + z * (mfun e φ * cos φ) = mfun e φ * (z * cos φ - r * sin φ) := by ring
  rw [this, abs_mul, abs_of_pos hm0]
  exact mul_le_mul hm1 h1 (abs_nonneg _) (by norm_num)

theorem Xfun_lipschitz {e : ℝ} (he : EccOK e) (z r φ₁ φ₂ : ℝ) :
    |Xfun e z r φ₁ - Xfun e z r φ₂| ≤ 1.0102 * √(r ^ 2 + z ^ 2) * |φ₁ - φ₂| := by
  have h := Convex.norm_image_sub_le_of_norm_hasDerivWithin_le (s := Set.univ) (f := Xfun e z r)
    (f' := fun φ => r * (mfun e φ * cos φ) - z * (-(mfun e φ * sin φ)))
    (C := 1.0102 * √(r ^ 2 + z ^ 2)) (x := φ₂) (y := φ₁)
    (fun x _ => (hasDerivAt_Xfun he z r x).hasDerivWithinAt)
    (fun x _ => by rw [Real.norm_eq_abs]; exact Xfun_deriv_abs_le he z r x)
    convex_univ (Set.mem_univ _) (Set.mem_univ _)
  simpa only [Real.norm_eq_abs] using h

theorem Yfun_lipschitz {e : ℝ} (he : EccOK e) (z r φ₁ φ₂ : ℝ) :
    |Yfun e z r φ₁ - Yfun e z r φ₂| ≤ 1.0102 * √(r ^ 2 + z ^ 2) * |φ₁ - φ₂| := by
  have h := Convex.norm_image_sub_le_of_norm_hasDerivWithin_le (s := Set.univ) (f := Yfun e z r)
    (f' := fun φ => r * (-(mfun e φ * sin φ)) + z * (mfun e φ * cos φ))
    (C := 1.0102 * √(r ^ 2 + z ^ 2)) (x := φ₂) (y := φ₁)
    (fun x _ => (hasDerivAt_Yfun he z r x).hasDerivWithinAt)
    (fun x _ => by rw [Real.norm_eq_abs]; exact Yfun_deriv_abs_le he z r x)
    convex_univ (Set.mem_univ _) (Set.mem_univ _)
  simpa only [Real.norm_eq_abs] using h

/-! ### height above the ellipse at the fixed point -/

theorem cfun_sq {e : ℝ} (he : EccOK e) (φ : ℝ) : cfun e φ ^ 2 * (1 - e * sin φ ^ 2) = 1 := by
  have hp := sqrtWd_pos he φ
  have hsq : √(Wd e φ) ^ 2 = 1 - e * sin φ ^ 2 := sqrtWd_sq he φ
  unfold cfun
  rw [← hsq]
  field_simp

theorem cfun_ge_one {e : ℝ} (he : EccOK e) (φ : ℝ) : 1 ≤ cfun e φ := by
  have hp := sqrtWd_pos he φ
  have h1 : √(Wd e φ) ≤ 1 := by
    rw [show (1 : ℝ) = √1 by simp]; exact Real.sqrt_le_sqrt (Wd_le he φ)
  unfold cfun
  rw [le_div_iff₀ hp]; linarith

/-- excess of the ellipse equation in terms of the height: with `r = (c+h) cos φ`, `z = ((1−e)c + h) sin φ`,
    `(1−e) r² + z² − (1−e) = h (2 (1−e) c + h ((1−e) cos² φ + sin² φ))` -/
theorem ellipse_excess {e : ℝ} (he : EccOK e) (φ h : ℝ) :
    (1 - e) * ((cfun e φ + h) * cos φ) ^ 2 + (((1 - e) * cfun e φ + h) * sin φ) ^ 2 - (1 - e)
      = h * (2 * (1 - e) * cfun e φ + h * ((1 - e) * cos φ ^ 2 + sin φ ^ 2)) := by
  have hc := cfun_sq he φ
  have hcs := sin_sq_add_cos_sq φ
  linear_combination (1 - e) * hc + ((1 - e) * cfun e φ ^ 2 + 2 * (1 - e) * cfun e φ * h) * hcs

/-- a point on or outside the ellipse has non-negative geodetic height -/
theorem height_nonneg {e : ℝ} (he : EccOK e) {φ h : ℝ} (hc : -cfun e φ < h)
    (hout : 1 - e ≤ (1 - e) * ((cfun e φ + h) * cos φ) ^ 2 + (((1 - e) * cfun e φ + h) * sin φ) ^ 2) :
    0 ≤ h := by
  have hx := ellipse_excess he φ h
  have hc1 := cfun_ge_one he φ
  have he1 := he.1
  have he2 := he.2
  have hcs := sin_sq_add_cos_sq φ
  by_contra hneg'
  have hneg : h < 0 := not_le.1 hneg'
  -- κ' = (1−e) cos² + sin² ≤ 1, so 2(1−e)c + h κ' > 2(1−e)c − c ≥ 0.98 c > 0
  have hk : (1 - e) * cos φ ^ 2 + sin φ ^ 2 ≤ 1 := by nlinarith [sq_nonneg (cos φ)]
  have hk0 : 0 ≤ (1 - e) * cos φ ^ 2 + sin φ ^ 2 := by nlinarith [sq_nonneg (cos φ), sq_nonneg (sin φ)]
  have h2 : h * ((1 - e) * cos φ ^ 2 + sin φ ^ 2) ≥ -cfun e φ := by nlinarith
  have h3 : 0 < 2 * (1 - e) * cfun e φ + h * ((1 - e) * cos φ ^ 2 + sin φ ^ 2) := by nlinarith
  have h4 : h * (2 * (1 - e) * cfun e φ + h * ((1 - e) * cos φ ^ 2 + sin φ ^ 2)) < 0 :=
    mul_neg_of_neg_of_pos hneg h3
  linarith

/-- `1 ≤ r² + z²/(1−e)` implies the `0.99` lower bound on the distance -/
theorem outside_dist {e : ℝ} (he : EccOK e) {z r : ℝ} (hout : 1 - e ≤ (1 - e) * r ^ 2 + z ^ 2) :
    0.99 ^ 2 ≤ r ^ 2 + z ^ 2 := by
  have he1 := he.1
  have he2 := he.2
  nlinarith [sq_nonneg r, sq_nonneg z]

/-! ### (B) deflection -/

/-- the maximal deflection: `e |sin φ cos φ| ≤ 0.00336 (cos² φ + (1−e) sin² φ)` (`e/(2√(1−e)) ≤ 0.0033585`) -/
theorem deflection_core {e : ℝ} (he : EccOK e) (S C : ℝ) :
    e * S * C ≤ 0.00336 * (C ^ 2 + (1 - e) * S ^ 2) := by
  have he1 := he.1
  have he2 := he.2
  have h1 : S * C ≤ (C ^ 2 + 0.99665 ^ 2 * S ^ 2) / (2 * 0.99665) := by
    rw [le_div_iff₀ (by norm_num)]
    nlinarith [sq_nonneg (C - 0.99665 * S)]
  have h2 : e * (S * C) ≤ e * ((C ^ 2 + 0.99665 ^ 2 * S ^ 2) / (2 * 0.99665)) :=
    mul_le_mul_of_nonneg_left h1 he1.le
  have hC : 0 ≤ C ^ 2 := sq_nonneg C
  have hS : 0 ≤ S ^ 2 := sq_nonneg S
  have h3 : e * ((C ^ 2 + 0.99665 ^ 2 * S ^ 2) / (2 * 0.99665))
      ≤ 0.00336 * (C ^ 2 + (1 - e) * S ^ 2) := by
    rw [mul_div_assoc', div_le_iff₀ (by norm_num)]
    nlinarith [mul_nonneg he1.le hC, mul_nonneg he1.le hS, mul_le_mul_of_nonneg_right he2 hC,
      mul_le_mul_of_nonneg_right he2 hS]
  calc e * S * C = e * (S * C) := by ring
    _ ≤ _ := h2
    _ ≤ _ := h3

/-- at the geodetic latitude of a point at height `h ≥ 0`: `|X| ≤ 0.00336 Y`, `Y ≥ 0.9866 (c + h)`,
    and `R ≤ c + h` -/
theorem fix_cross_dot {e : ℝ} (he : EccOK e) {φ h : ℝ} (hh : 0 ≤ h) :
    |Xfun e (((1 - e) * cfun e φ + h) * sin φ) ((cfun e φ + h) * cos φ) φ|
        ≤ 0.00336 * Yfun e (((1 - e) * cfun e φ + h) * sin φ) ((cfun e φ + h) * cos φ) φ ∧
      0.9866 * (cfun e φ + h) ≤ Yfun e (((1 - e) * cfun e φ + h) * sin φ) ((cfun e φ + h) * cos φ) φ ∧
      √(((cfun e φ + h) * cos φ) ^ 2 + (((1 - e) * cfun e φ + h) * sin φ) ^ 2) ≤ cfun e φ + h := by
  have hc1 := cfun_ge_one he φ
  have he1 := he.1
  have he2 := he.2
  have hcs := sin_sq_add_cos_sq φ
  set c := cfun e φ
  set S := sin φ
  set C := cos φ
  have hX : Xfun e (((1 - e) * c + h) * S) ((c + h) * C) φ = -(c * h * (e * S * C)) := by
    unfold Xfun Szf Srf; ring
  have hY : Yfun e (((1 - e) * c + h) * S) ((c + h) * C) φ
      = c * h * (C ^ 2 + (1 - e) * S ^ 2) + c ^ 2 * (C ^ 2 + (1 - e) ^ 2 * S ^ 2) := by
    unfold Yfun Szf Srf; ring
  have hch : 0 ≤ c * h := mul_nonneg (by linarith) hh
  have hd1 := deflection_core he S C
  have hd2 := deflection_core he (-S) C
  have hC0 : 0 ≤ C ^ 2 := sq_nonneg C
  have hS0 : 0 ≤ S ^ 2 := sq_nonneg S
  have hq : 0 ≤ c ^ 2 * (C ^ 2 + (1 - e) ^ 2 * S ^ 2) := by
    apply mul_nonneg (sq_nonneg _); nlinarith [sq_nonneg (1 - e)]
  refine ⟨?_, ?_, ?_⟩
  · rw [hX, hY, abs_le]
    have ha := mul_le_mul_of_nonneg_left hd1 hch
    have hb := mul_le_mul_of_nonneg_left hd2 hch
    constructor
    · nlinarith
    · nlinarith
  · rw [hY]
    -- (1−e)² ≥ 0.9866
    have h1e : 0.9866 ≤ (1 - e) ^ 2 := by nlinarith
    have h1e' : (1 - e) ^ 2 ≤ 1 - e := by nlinarith
    have hA : (1 - e) ^ 2 * (C ^ 2 + S ^ 2) ≤ C ^ 2 + (1 - e) * S ^ 2 := by nlinarith
    have hB : (1 - e) ^ 2 * (C ^ 2 + S ^ 2) ≤ C ^ 2 + (1 - e) ^ 2 * S ^ 2 := by nlinarith
    have hCS : C ^ 2 + S ^ 2 = 1 := by linarith
    rw [hCS, mul_one] at hA hB
    have h1 : c * h * 0.9866 ≤ c * h * (C ^ 2 + (1 - e) * S ^ 2) :=
      mul_le_mul_of_nonneg_left (by linarith) hch
    have h2 : c ^ 2 * 0.9866 ≤ c ^ 2 * (C ^ 2 + (1 - e) ^ 2 * S ^ 2) :=
      mul_le_mul_of_nonneg_left (by linarith) (sq_nonneg _)
    nlinarith
  · apply Real.sqrt_le_iff.2
    refine ⟨by linarith, ?_⟩
    have h0 : 0 ≤ (1 - e) * c + h := by nlinarith
    have h1 : (1 - e) * c + h ≤ c + h := by nlinarith
    have h2 : ((1 - e) * c + h) ^ 2 ≤ (c + h) ^ 2 := pow_le_pow_left₀ h0 h1 2
    nlinarith [mul_le_mul_of_nonneg_right h2 hS0]

/-- (B), meridian plane: for a point on or outside the ellipse and a latitude within `1.2e-7 rad` of its
    geodetic latitude, the cross product with the ellipse point of that latitude is at most `0.00349` times
    the inner product (`tan 0.2° > 0.00349`) -/
theorem cross_le_dot {e : ℝ} (he : EccOK e) {z r : ℝ}
    (hout : 1 - e ≤ (1 - e) * r ^ 2 + z ^ 2) {lat φs : ℝ} (hfix : Tmap e z r φs = φs)
    (hclose : |lat - φs| ≤ 1.2e-7) :
    |Xfun e z r lat| ≤ 0.00349 * Yfun e z r lat ∧ 0 < Yfun e z r lat := by
  have hp := outside_dist he hout
  obtain ⟨h, hc, hr', hz'⟩ := fix_form he hp hfix
  have hh : 0 ≤ h := by
    apply height_nonneg he hc
    rw [← hr', ← hz']; exact hout
  obtain ⟨hXY, hYR, hRc⟩ := fix_cross_dot he (φ := φs) hh
  rw [← hr', ← hz'] at hXY hYR hRc
  have hLX := Xfun_lipschitz he z r lat φs
  have hLY := Yfun_lipschitz he z r lat φs
  set R := √(r ^ 2 + z ^ 2)
  have hR : 0.99 ≤ R := Real.le_sqrt_of_sq_le hp
  have hRε : 1.0102 * R * |lat - φs| ≤ 1.0102 * R * 1.2e-7 :=
    mul_le_mul_of_nonneg_left hclose (by positivity)
  have h1 : |Xfun e z r lat| ≤ |Xfun e z r φs| + 1.0102 * R * 1.2e-7 := by
    have := abs_sub_abs_le_abs_sub (Xfun e z r lat) (Xfun e z r φs)
    linarith
  have h2 : Yfun e z r φs - 1.0102 * R * 1.2e-7 ≤ Yfun e z r lat := by
    have := (abs_le.1 (le_trans hLY hRε)).1
    linarith
  constructor
  · nlinarith
  · nlinarith

/-! ### (C) altitude -/

/-- the altitude expression of `get_lonlatalt` (earth radii) -/
noncomputable def Hfun (e z r φ : ℝ) : ℝ := r * cos φ + z * sin φ - √(Wd e φ)

theorem hasDerivAt_Hfun {e : ℝ} (he : EccOK e) (z r φ : ℝ) :
    HasDerivAt (Hfun e z r)
      (r * (-sin φ) + z * cos φ - (-(e * (2 * sin φ * cos φ)) / (2 * √(Wd e φ)))) φ :=
  (((hasDerivAt_cos φ).const_mul r).add ((hasDerivAt_sin φ).const_mul z)).sub (hasDerivAt_sqrtWd he φ)

/-- the derivative of the altitude expression is minus the distance `D` from the normal line: the altitude is
    stationary at the geodetic latitude -/
theorem Hfun_deriv_eq {e : ℝ} (he : EccOK e) (z r φ : ℝ) :
    r * (-sin φ) + z * cos φ - (-(e * (2 * sin φ * cos φ)) / (2 * √(Wd e φ))) = -Dfun e z r φ := by
  have hp := sqrtWd_pos he φ
  unfold Dfun gfun
  field_simp
  ring

theorem Hfun_deriv_abs_le {e : ℝ} (he : EccOK e) (z r φ : ℝ) :
    |r * (-sin φ) + z * cos φ - (-(e * (2 * sin φ * cos φ)) / (2 * √(Wd e φ)))|
      ≤ √(r ^ 2 + z ^ 2) + 0.00672 := by
  rw [Hfun_deriv_eq he, abs_neg]
  unfold Dfun
  have h1 := abs_cross_unit_le r z φ
  have h2 : |gfun e φ * cos φ| ≤ 0.00672 := by
    rw [abs_mul]
    calc |gfun e φ| * |cos φ| ≤ 0.00672 * 1 :=
          mul_le_mul (gfun_abs_le he φ) (abs_cos_le_one φ) (abs_nonneg _) (by norm_num)
      _ = 0.00672 := mul_one _
  have hsplit : r * sin φ - (z + gfun e φ) * cos φ = -(z * cos φ - r * sin φ) - gfun e φ * cos φ := by ring
  rw [hsplit]
  have := abs_sub (-(z * cos φ - r * sin φ)) (gfun e φ * cos φ)
  rw [abs_neg] at this
  linarith

theorem Hfun_lipschitz {e : ℝ} (he : EccOK e) (z r φ₁ φ₂ : ℝ) :
    |Hfun e z r φ₁ - Hfun e z r φ₂| ≤ (√(r ^ 2 + z ^ 2) + 0.00672) * |φ₁ - φ₂| := by
  have h := Convex.norm_image_sub_le_of_norm_hasDerivWithin_le (s := Set.univ) (f := Hfun e z r)
    (f' := fun φ => r * (-sin φ) + z * cos φ - (-(e * (2 * sin φ * cos φ)) / (2 * √(Wd e φ))))
    (C := √(r ^ 2 + z ^ 2) + 0.00672) (x := φ₂) (y := φ₁)
    (fun x _ => (hasDerivAt_Hfun he z r x).hasDerivWithinAt)
    (fun x _ => by rw [Real.norm_eq_abs]; exact Hfun_deriv_abs_le he z r x)
    convex_univ (Set.mem_univ _) (Set.mem_univ _)
  simpa only [Real.norm_eq_abs] using h

/-- at the geodetic latitude the altitude expression is the height -/
theorem Hfun_fix {e : ℝ} (he : EccOK e) (φ h : ℝ) :
    Hfun e (((1 - e) * cfun e φ + h) * sin φ) ((cfun e φ + h) * cos φ) φ = h := by
  have hp := sqrtWd_pos he φ
  have hsq : √(Wd e φ) ^ 2 = 1 - e * sin φ ^ 2 := sqrtWd_sq he φ
  have hcs := sin_sq_add_cos_sq φ
  unfold Hfun cfun
  set s := √(Wd e φ)
  have hs0 : s ≠ 0 := hp.ne'
  field_simp
  linear_combination (-1 : ℝ) * hsq + (1 + h * s) * hcs

/-- height from the excess of the ellipse equation: if `0 ≤ h`, `Q = h (2(1−e)c + hκ) ∈ [qlo, qhi]`,
    `qhi ≤ 1e-6`, then `qlo ≤ 2.0069 h` and `1.9866 h ≤ qhi` -/
theorem height_bounds {e : ℝ} (he : EccOK e) {φ h qlo qhi : ℝ} (hh : 0 ≤ h) (h1 : qhi ≤ 1e-6)
    (hlo : qlo ≤ h * (2 * (1 - e) * cfun e φ + h * ((1 - e) * cos φ ^ 2 + sin φ ^ 2)))
    (hhi : h * (2 * (1 - e) * cfun e φ + h * ((1 - e) * cos φ ^ 2 + sin φ ^ 2)) ≤ qhi) :
    qlo ≤ h * 2.0069 ∧ h * 1.9866 ≤ qhi := by
  have hc1 := cfun_ge_one he φ
  have hc2 := (cfun_bounds he φ).2
  have he1 := he.1
  have he2 := he.2
  have hcs := sin_sq_add_cos_sq φ
  have hk : (1 - e) * cos φ ^ 2 + sin φ ^ 2 ≤ 1 := by nlinarith [sq_nonneg (cos φ)]
  have hk0 : 0 ≤ (1 - e) * cos φ ^ 2 + sin φ ^ 2 := by
    nlinarith [sq_nonneg (cos φ), sq_nonneg (sin φ)]
  generalize cfun e φ = c at *
  generalize (1 - e) * cos φ ^ 2 + sin φ ^ 2 = κ at *
  have hfac : 1.9866 ≤ 2 * (1 - e) * c := by nlinarith
  have hhκ : 0 ≤ h * κ := mul_nonneg hh hk0
  have hup : h * 1.9866 ≤ qhi := by nlinarith [mul_nonneg hh hhκ]
  have hh6 : h ≤ 1e-6 := by nlinarith
  have hfac2 : 2 * (1 - e) * c + h * κ ≤ 2.0069 := by nlinarith
  have := mul_le_mul_of_nonneg_left hfac2 hh
  exact ⟨by linarith, hup⟩

/-- a point within `1e-6` of the ellipse (in the excess `Q`) is within 1.01 of the centre -/
theorem near_surface_dist {e : ℝ} (he : EccOK e) {z r : ℝ}
    (hhi : (1 - e) * r ^ 2 + z ^ 2 - (1 - e) ≤ 1e-6) : √(r ^ 2 + z ^ 2) ≤ 1.01 := by
  have he1 := he.1
  have he2 := he.2
  apply Real.sqrt_le_iff.2
  refine ⟨by norm_num, ?_⟩
  have : (1 - e) * (r ^ 2 + z ^ 2) ≤ (1 - e) * r ^ 2 + z ^ 2 := by nlinarith [sq_nonneg z]
  nlinarith

/-- (C), meridian plane: if the excess `Q = (1−e) r² + z² − (1−e)` of the ellipse equation lies in
    `[qlo, qhi] ⊆ [0, 1e-6]` and `lat` is within `7.1e-13 rad` of the geodetic latitude then
    `qlo/2.0069 − 1e-12 ≤ H(lat) ≤ qhi/1.9866 + 1e-12` -/
theorem Hfun_near_surface {e : ℝ} (he : EccOK e) {z r qlo qhi : ℝ} (h0 : 0 ≤ qlo) (h1 : qhi ≤ 1e-6)
    (hlo : qlo ≤ (1 - e) * r ^ 2 + z ^ 2 - (1 - e)) (hhi : (1 - e) * r ^ 2 + z ^ 2 - (1 - e) ≤ qhi)
    {lat φs : ℝ} (hfix : Tmap e z r φs = φs) (hclose : |lat - φs| ≤ 7.1e-13) :
    qlo / 2.0069 - 1e-12 ≤ Hfun e z r lat ∧ Hfun e z r lat ≤ qhi / 1.9866 + 1e-12 := by
  have hout : 1 - e ≤ (1 - e) * r ^ 2 + z ^ 2 := by linarith
  have hp := outside_dist he hout
  obtain ⟨h, hc, hr', hz'⟩ := fix_form he hp hfix
  have hh : 0 ≤ h := by
    apply height_nonneg he hc
    rw [← hr', ← hz']; exact hout
  have hx := ellipse_excess he φs h
  rw [← hr', ← hz'] at hx
  have hH := Hfun_fix he φs h
  rw [← hr', ← hz'] at hH
  obtain ⟨hlow, hup⟩ := height_bounds he (φ := φs) (qlo := qlo) (qhi := qhi) hh h1
    (by rw [← hx]; exact hlo) (by rw [← hx]; exact hhi)
  have hR := near_surface_dist he (le_trans hhi h1)
  have hL := Hfun_lipschitz he z r lat φs
  rw [hH] at hL
  have hLε : (√(r ^ 2 + z ^ 2) + 0.00672) * |lat - φs| ≤ 1.02 * 7.1e-13 :=
    mul_le_mul (by linarith) hclose (abs_nonneg _) (by norm_num)
  have hb := abs_le.1 (le_trans hL hLε)
  have h3 : qlo / 2.0069 ≤ h := by rw [div_le_iff₀ (by norm_num)]; exact hlow
  have h4 : h ≤ qhi / 1.9866 := by rw [le_div_iff₀ (by norm_num)]; exact hup
  constructor
  · linarith [hb.1]
  · linarith [hb.2]

end PV.GeoB
