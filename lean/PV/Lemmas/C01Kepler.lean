/-
  C01 (stretch) helper lemmas: Kepler's equation in the SGP4 form
      F(E) = U − E + a_x sin E − a_y cos E          (a_x = a_xN, a_y = a_yN, E = E+ω)
  as a real function: derivative, two-sided slope bounds, strict monotonicity, existence and uniqueness of the
  root, and the distance to the root in terms of the residual.  Nothing here depends on the model.
-/
import PV.Lemmas.C01Prop
import Mathlib.Analysis.Calculus.Deriv.MeanValue
import Mathlib.Analysis.SpecialFunctions.Trigonometric.Deriv
import Mathlib.Topology.Order.IntermediateValue
import Mathlib.Tactic.Positivity
namespace PV.C01
open PV

/-- left side of Kepler's equation as the code evaluates it: `f = capu − epw + (axn·sin epw − ayn·cos epw)` -/
noncomputable def keplerF (a b U E : ℝ) : ℝ := U - E + a * Real.sin E - b * Real.cos E

/-- its derivative in `E`; the code's `df` is `−keplerF'` -/
noncomputable def keplerF' (a b E : ℝ) : ℝ := -1 + a * Real.cos E + b * Real.sin E

theorem keplerF_hasDerivAt (a b U E : ℝ) : HasDerivAt (keplerF a b U) (keplerF' a b E) E := by
  have h1 : HasDerivAt (fun E : ℝ => U - E) (-1) E := by
    simpa using (hasDerivAt_id E).const_sub U
  have h2 := (Real.hasDerivAt_sin E).const_mul a
  have h3 := (Real.hasDerivAt_cos E).const_mul b
  have h := (h1.add h2).sub h3
  have e : (-1 + a * Real.cos E - b * -Real.sin E) = keplerF' a b E := by
    simp only [keplerF']; ring
  rw [e] at h
  exact h

theorem keplerF_continuous (a b U : ℝ) : Continuous (keplerF a b U) :=
  continuous_iff_continuousAt.mpr fun E => (keplerF_hasDerivAt a b U E).continuousAt

theorem keplerF_differentiable (a b U : ℝ) : Differentiable ℝ (keplerF a b U) :=
  fun E => (keplerF_hasDerivAt a b U E).differentiableAt

/-- Cauchy–Schwarz for one pair: `a·c + b·s ≤ √(a²+b²)` when `s² + c² = 1` -/
theorem lin_le_sqrt (a b s c : ℝ) (h : s ^ 2 + c ^ 2 = 1) : a * c + b * s ≤ √(a ^ 2 + b ^ 2) := by
  apply Real.le_sqrt_of_sq_le
  nlinarith [sq_nonneg (a * s - b * c)]

theorem abs_lin_le_sqrt (a b s c : ℝ) (h : s ^ 2 + c ^ 2 = 1) : |a * c + b * s| ≤ √(a ^ 2 + b ^ 2) := by
  rw [abs_le]
  refine ⟨?_, lin_le_sqrt a b s c h⟩
  have := lin_le_sqrt (-a) (-b) s c h
  rw [neg_sq, neg_sq] at this
  linarith

/-- `e·cosE` of the code is bounded by `e_L` -/
theorem abs_ecosE_le_sqrt (a b E : ℝ) : |a * Real.cos E + b * Real.sin E| ≤ √(a ^ 2 + b ^ 2) :=
  abs_lin_le_sqrt a b _ _ (Real.sin_sq_add_cos_sq E)

/-- `e·sinE` of the code is bounded by `e_L` -/
theorem abs_esinE_le_sqrt (a b E : ℝ) : |a * Real.sin E - b * Real.cos E| ≤ √(a ^ 2 + b ^ 2) := by
  have h := abs_lin_le_sqrt (-b) a (Real.sin E) (Real.cos E) (Real.sin_sq_add_cos_sq E)
  rw [neg_sq, add_comm (b ^ 2)] at h
  have e : -b * Real.cos E + a * Real.sin E = a * Real.sin E - b * Real.cos E := by ring
  rwa [e] at h

theorem sqrt_elsq_lt_one {a b : ℝ} (h : a ^ 2 + b ^ 2 < 1) : √(a ^ 2 + b ^ 2) < 1 := by
  rw [← Real.sqrt_one]
  exact Real.sqrt_lt_sqrt (by positivity) h

theorem keplerF'_le (a b E : ℝ) : keplerF' a b E ≤ -(1 - √(a ^ 2 + b ^ 2)) := by
  have := (abs_le.mp (abs_ecosE_le_sqrt a b E)).2
  simp only [keplerF']; linarith

theorem keplerF'_ge (a b E : ℝ) : -(1 + √(a ^ 2 + b ^ 2)) ≤ keplerF' a b E := by
  have := (abs_le.mp (abs_ecosE_le_sqrt a b E)).1
  simp only [keplerF']; linarith

theorem keplerF_strictAnti {a b : ℝ} (h : a ^ 2 + b ^ 2 < 1) (U : ℝ) : StrictAnti (keplerF a b U) :=
  strictAnti_of_hasDerivAt_neg (keplerF_hasDerivAt a b U) fun E => by
    have := keplerF'_le a b E
    have := sqrt_elsq_lt_one h
    linarith

/-- slope bounds (mean value inequality): for `x ≤ y`,
    `(1 − e_L)(y − x) ≤ F x − F y ≤ (1 + e_L)(y − x)` -/
theorem keplerF_slope (a b U : ℝ) {x y : ℝ} (hxy : x ≤ y) :
    (1 - √(a ^ 2 + b ^ 2)) * (y - x) ≤ keplerF a b U x - keplerF a b U y ∧
    keplerF a b U x - keplerF a b U y ≤ (1 + √(a ^ 2 + b ^ 2)) * (y - x) := by
  have hd : ∀ E, deriv (keplerF a b U) E = keplerF' a b E := fun E => (keplerF_hasDerivAt a b U E).deriv
  have h1 := image_sub_le_mul_sub_of_deriv_le (keplerF_differentiable a b U) (C := -(1 - √(a ^ 2 + b ^ 2)))
    (fun E => by rw [hd]; exact keplerF'_le a b E) hxy
  have h2 := mul_sub_le_image_sub_of_le_deriv (keplerF_differentiable a b U) (C := -(1 + √(a ^ 2 + b ^ 2)))
    (fun E => by rw [hd]; exact keplerF'_ge a b E) hxy
  constructor <;> linarith

/-- two-sided Lipschitz form: `(1 − e_L)|x − y| ≤ |F x − F y| ≤ (1 + e_L)|x − y|` (needs `e_L ≤ 1` for the left
    inequality to carry information, not for its truth) -/
theorem keplerF_abs_sub (a b U x y : ℝ) :
    (1 - √(a ^ 2 + b ^ 2)) * |x - y| ≤ |keplerF a b U x - keplerF a b U y| ∧
    |keplerF a b U x - keplerF a b U y| ≤ (1 + √(a ^ 2 + b ^ 2)) * |x - y| := by
  have hs : 0 ≤ √(a ^ 2 + b ^ 2) := Real.sqrt_nonneg _
  rcases le_total x y with hxy | hxy
  · obtain ⟨h1, h2⟩ := keplerF_slope a b U hxy
    have hn : |x - y| = y - x := by rw [abs_sub_comm]; exact abs_of_nonneg (by linarith)
    rw [hn]
    constructor
    · exact h1.trans (le_abs_self _)
    · rw [abs_le]; constructor
      · linarith
      · exact h2
  · obtain ⟨h1, h2⟩ := keplerF_slope a b U hxy
    have hn : |x - y| = x - y := abs_of_nonneg (by linarith)
    rw [hn, abs_sub_comm]
    constructor
    · exact h1.trans (le_abs_self _)
    · rw [abs_le]; constructor
      · linarith
      · exact h2

/-- existence of a root: `F(U − 1) > 0 > F(U + 1)` … in fact `F(U − e_L) ≥ 0 ≥ F(U + e_L)`, and the intermediate
    value theorem -/
theorem keplerF_exists_root (a b U : ℝ) : ∃ E, keplerF a b U E = 0 := by
  set e := √(a ^ 2 + b ^ 2) with he
  have h1 : keplerF a b U (U + e) ≤ 0 := by
    have := (abs_le.mp (abs_esinE_le_sqrt a b (U + e))).2
    simp only [keplerF]; linarith
  have h2 : 0 ≤ keplerF a b U (U - e) := by
    have := (abs_le.mp (abs_esinE_le_sqrt a b (U - e))).1
    simp only [keplerF]; linarith
  have := intermediate_value_univ (U + e) (U - e) (keplerF_continuous a b U)
  obtain ⟨E, hE⟩ := this (show (0 : ℝ) ∈ Set.Icc _ _ from ⟨h1, h2⟩)
  exact ⟨E, hE⟩

theorem keplerF_existsUnique_root {a b : ℝ} (h : a ^ 2 + b ^ 2 < 1) (U : ℝ) : ∃! E, keplerF a b U E = 0 := by
  obtain ⟨E, hE⟩ := keplerF_exists_root a b U
  refine ⟨E, hE, fun y hy => (keplerF_strictAnti h U).injective (by rw [hy, hE])⟩

/-- the root lies within `e_L` of `U` -/
theorem keplerF_root_near_U (a b U E : ℝ) (hE : keplerF a b U E = 0) : |E - U| ≤ √(a ^ 2 + b ^ 2) := by
  have := abs_esinE_le_sqrt a b E
  have e : E - U = a * Real.sin E - b * Real.cos E := by
    simp only [keplerF] at hE; linarith
  rw [e]; exact this

/-- distance to the root from the residual -/
theorem keplerF_root_close {a b : ℝ} (h : a ^ 2 + b ^ 2 < 1) (U E Es ε : ℝ) (hs : keplerF a b U Es = 0)
    (hr : |keplerF a b U E| ≤ ε) : |E - Es| ≤ ε / (1 - √(a ^ 2 + b ^ 2)) := by
  have h1 := (keplerF_abs_sub a b U E Es).1
  rw [hs, sub_zero] at h1
  have hpos : 0 < 1 - √(a ^ 2 + b ^ 2) := by have := sqrt_elsq_lt_one h; linarith
  rw [le_div_iff₀ hpos]
  linarith

end PV.C01
