/-
  The conversions of PV.Model.TleParse applied to the column shapes of PV.Spec.TleLayout.  Core Lean only.
-/
import PV.Lemmas.C02Float
import PV.Model.TleParse
import PV.Spec.TleLayout
set_option linter.unusedSimpArgs false
namespace PV.C02
open PV.Text PV.TleParse PV.Spec.TleLayout

theorem any_badF_digits {s : List Char} (h : s.all isAsciiDigit = true) : s.any badF = false := digits_any_bad h
theorem map_lowF_digits {s : List Char} (h : s.all isAsciiDigit = true) : s.map lowF = s := digits_map_lower h

theorem last_digit {s : List Char} (h : s.all isAsciiDigit = true) (hne : s.isEmpty = false) (pre : List Char) :
    ∃ d, (pre ++ s).getLast? = some d ∧ isAsciiDigit d = true := by
  have hne' : s ≠ [] := by intro e; subst e; simp at hne
  refine ⟨s.getLast hne', ?_, all_digits_mem h _ (List.getLast_mem hne')⟩
  rw [List.getLast?_append, List.getLast?_eq_some_getLast hne']; rfl

/-! ### `float` of `iii.ffff` with a right-justified integer part -/

theorem pyFloat_fixedCol {ip fr : List Char}
    (hu : (unpad ip).isEmpty = false) (hip : (unpad ip).all isAsciiDigit = true)
    (hfr : fr.all isAsciiDigit = true) (hfn : fr.isEmpty = false) :
    pyFloat (fixedCol ip fr) = .ok ⟨natOfDigits (unpad ip ++ fr), -(fr.length : Int)⟩ := by
  unfold fixedCol
  have hdrop : (ip ++ '.' :: fr).dropWhile (· == ' ') = unpad ip ++ '.' :: fr := by
    rw [List.dropWhile_append]
    unfold unpad at hu
    rw [if_neg (by simp [hu])]
    rfl
  have hb0 : (unpad ip ++ '.' :: fr).any badF = false := by
    rw [List.any_append, List.any_cons, any_badF_digits hip, any_badF_digits hfr]; decide
  have hlow0 : (unpad ip ++ '.' :: fr).map lowF = unpad ip ++ '.' :: fr := by
    rw [List.map_append, List.map_cons, map_lowF_digits hip, map_lowF_digits hfr]; rfl
  cases hcr : unpad ip with
  | nil => rw [hcr] at hu; simp at hu
  | cons c r =>
    rw [hcr] at hip hdrop hb0 hlow0
    have hc : isAsciiDigit c = true := by
      simp only [List.all_cons, Bool.and_eq_true] at hip; exact hip.1
    obtain ⟨d, hl, hd⟩ := last_digit hfr hfn (c :: r ++ ['.'])
    have hl' : (c :: (r ++ '.' :: fr)).getLast? = some d := by
      have : c :: (r ++ '.' :: fr) = (c :: r ++ ['.']) ++ fr := by simp
      rw [this]; exact hl
    have hstrip : numStrip (ip ++ '.' :: fr) = (c :: r) ++ '.' :: fr :=
      numStrip_padded (r := r ++ '.' :: fr) hdrop (digit_not_numws hc) hl' (digit_not_numws hd)
    have hb : ((c :: r) ++ '.' :: fr).any badF = false := hb0
    have hlow : ((c :: r) ++ '.' :: fr).map lowF = (c :: r) ++ '.' :: fr := hlow0
    have h1 : ∀ x, (c :: r) ++ '.' :: fr ≠ '-' :: x := by
      intro x e; simp only [List.cons_append, List.cons.injEq] at e
      exact digit_ne hc _ (by decide) e.1
    have h2 : ∀ x, (c :: r) ++ '.' :: fr ≠ '+' :: x := by
      intro x e; simp only [List.cons_append, List.cons.injEq] at e
      exact digit_ne hc _ (by decide) e.1
    rw [pyFloat_plain hstrip hb hlow h1 h2, floatBody_fixed false hip hfr (by simp)]
    rfl

/-! ### `float` of `s.dddddddd` -/

theorem pyFloat_signedFrac {sg : Char} {fr : List Char} (hsg : isSign sg = true)
    (hfr : fr.all isAsciiDigit = true) (hfn : fr.isEmpty = false) :
    pyFloat (sg :: '.' :: fr) = .ok ⟨signed sg (natOfDigits fr), -(fr.length : Int)⟩ := by
  obtain ⟨d, hl, hd⟩ := last_digit hfr hfn ['.']
  have hbody : ∀ neg, floatBody neg ('.' :: fr) = .ok ⟨sgn neg (natOfDigits fr), -(fr.length : Int)⟩ := by
    intro neg
    have := floatBody_fixed neg (ip := []) (fr := fr) (by rfl) hfr (by simp [hfn])
    simpa using this
  have hb : ('.' :: fr).any badF = false := by
    rw [List.any_cons, any_badF_digits hfr]; decide
  have hlow : ('.' :: fr).map lowF = '.' :: fr := by
    rw [List.map_cons, map_lowF_digits hfr]; rfl
  unfold isSign at hsg
  simp only [Bool.or_eq_true, beq_iff_eq] at hsg
  rcases hsg with (h | h) | h <;> subst h
  · -- blank sign: stripped away
    have hstrip : numStrip (' ' :: '.' :: fr) = '.' :: fr :=
      numStrip_padded (s := ' ' :: '.' :: fr) (c := '.') (r := fr) (by simp) (by decide)
        (by simpa using hl) (digit_not_numws hd)
    rw [pyFloat_plain hstrip hb hlow (by intro x e; simp at e) (by intro x e; simp at e), hbody]
    rfl
  · have hstrip : numStrip ('+' :: '.' :: fr) = '+' :: '.' :: fr :=
      numStrip_padded (s := '+' :: '.' :: fr) (c := '+') (r := '.' :: fr) (by simp) (by decide)
        (by simpa using hl) (digit_not_numws hd)
    rw [pyFloat_pos hstrip (by rw [List.any_cons, hb]; decide) (by rw [List.map_cons, hlow]; rfl), hbody]
    rfl
  · have hstrip : numStrip ('-' :: '.' :: fr) = '-' :: '.' :: fr :=
      numStrip_padded (s := '-' :: '.' :: fr) (c := '-') (r := '.' :: fr) (by simp) (by decide)
        (by simpa using hl) (digit_not_numws hd)
    rw [pyFloat_neg hstrip (by rw [List.any_cons, hb]; decide) (by rw [List.map_cons, hlow]; rfl), hbody]
    rfl

/-! ### `_read_tle_decimal` of `sdddddSe` -/

theorem strip_digits {s : List Char} (h : s.all isAsciiDigit = true) : strip s = s := by
  cases s with
  | nil => rfl
  | cons c r =>
    have hc : isAsciiDigit c = true := by
      simp only [List.all_cons, Bool.and_eq_true] at h; exact h.1
    obtain ⟨d, hl, hd⟩ := last_digit h (by simp) []
    exact strip_padded (s := c :: r) (c := c) (r := r)
      (by simp [List.dropWhile_cons, digit_ne hc ' ' (by decide)]) (digit_not_ws hc) (by simpa using hl) (digit_not_ws hd)

theorem readTleDecimal_expoCol {sg es e : Char} {mant : List Char} (hsg : isSign sg = true)
    (hm : mant.all isAsciiDigit = true) (hmn : mant.isEmpty = false)
    (hes : isExpSign es = true) (he : isAsciiDigit e = true) :
    readTleDecimal (expoCol sg mant es e) =
      .ok ⟨signed sg (natOfDigits mant), signed es (digitVal e) - (mant.length : Int)⟩ := by
  unfold expoCol readTleDecimal
  have hlen : (sg :: (mant ++ [es, e])).length - 2 = mant.length + 1 := by simp
  have htake : (sg :: (mant ++ [es, e])).take (mant.length + 1) = sg :: mant := by
    simp [List.take_succ_cons]
  have hdrop : (sg :: (mant ++ [es, e])).drop (mant.length + 1) = [es, e] := by
    simp
  simp only [hlen, htake, hdrop, List.drop_succ_cons, List.drop_zero, strip_digits hm]
  have hes' : es = '+' ∨ es = '-' := by
    unfold isExpSign at hes; simpa using hes
  have hbody : ∀ neg, floatBody neg ('.' :: (mant ++ 'e' :: [es, e])) =
      .ok ⟨sgn neg (natOfDigits mant), signed es (digitVal e) - (mant.length : Int)⟩ := by
    intro neg
    rw [floatBody_expo neg hm hmn hes' he]; rfl
  have hbe : (mant ++ 'e' :: [es, e]).any badF = false := by
    rw [List.any_append, any_badF_digits hm]
    have := digit_bad he
    unfold bad at this
    rcases hes' with h | h <;> subst h <;> simp [this]
  have hle : (mant ++ 'e' :: [es, e]).map lowF = mant ++ 'e' :: [es, e] := by
    rw [List.map_append, map_lowF_digits hm]
    have := digit_lower he
    unfold lowerf at this
    rcases hes' with h | h <;> subst h <;> simp [this]
  have hb : ('.' :: (mant ++ 'e' :: [es, e])).any badF = false := by
    rw [List.any_cons, hbe]; decide
  have hlow : ('.' :: (mant ++ 'e' :: [es, e])).map lowF = '.' :: (mant ++ 'e' :: [es, e]) := by
    rw [List.map_cons, hle]; rfl
  have hlast : ∀ pre : List Char, (pre ++ (mant ++ 'e' :: [es, e])).getLast? = some e := by
    intro pre; simp [List.getLast?_append]
  have hews := digit_not_numws he
  unfold isSign at hsg
  simp only [Bool.or_eq_true, beq_iff_eq] at hsg
  rcases hsg with (h | h) | h <;> subst h
  · simp only [Char.reduceEq, or_true, true_or, or_false, ↓reduceIte]
    have hstrip : numStrip (' ' :: '.' :: (mant ++ 'e' :: [es, e])) = '.' :: (mant ++ 'e' :: [es, e]) :=
      numStrip_padded (s := ' ' :: '.' :: (mant ++ 'e' :: [es, e])) (c := '.') (r := mant ++ 'e' :: [es, e])
        (by simp) (by decide) (hlast ['.']) hews
    rw [pyFloat_plain hstrip hb hlow (by intro x h; simp at h) (by intro x h; simp at h), hbody]
    rfl
  · simp only [Char.reduceEq, or_true, true_or, or_false, ↓reduceIte]
    have hstrip : numStrip ('+' :: '.' :: (mant ++ 'e' :: [es, e])) = '+' :: '.' :: (mant ++ 'e' :: [es, e]) :=
      numStrip_padded (s := '+' :: '.' :: (mant ++ 'e' :: [es, e])) (c := '+') (r := '.' :: (mant ++ 'e' :: [es, e]))
        (by simp) (by decide) (hlast ['+', '.']) hews
    rw [pyFloat_pos hstrip (by rw [List.any_cons, hb]; decide) (by rw [List.map_cons, hlow]; rfl), hbody]
    rfl
  · simp only [Char.reduceEq, or_true, true_or, or_false, ↓reduceIte]
    have hstrip : numStrip ('-' :: '.' :: (mant ++ 'e' :: [es, e])) = '-' :: '.' :: (mant ++ 'e' :: [es, e]) :=
      numStrip_padded (s := '-' :: '.' :: (mant ++ 'e' :: [es, e])) (c := '-') (r := '.' :: (mant ++ 'e' :: [es, e]))
        (by simp) (by decide) (hlast ['-', '.']) hews
    rw [pyFloat_neg hstrip (by rw [List.any_cons, hb]; decide) (by rw [List.map_cons, hlow]; rfl), hbody]
    rfl

end PV.C02
