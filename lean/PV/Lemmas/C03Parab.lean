/-
  PV.Lemmas.C03Parab — one update of `_get_max_parab` (successive parabolic interpolation) read over ℝ.
-/
import PV.NumReal
import PV.Model.Passes
import Mathlib.Tactic.Ring
import Mathlib.Tactic.FieldSimp
import Mathlib.Tactic.Linarith
import Mathlib.Tactic.NormNum
namespace PV.C03L
open PV PV.Passes

/-- the update as an ordinary real expression -/
theorem parabStep_real (a b c fa fb fc x : ℝ) :
    parabStep a b c fa fb fc x
      = x - 1 / 2 * (((b - a) ^ 2 * (fb - fc) - (b - c) ^ 2 * (fb - fa)) /
                     ((b - a) * (fb - fc) - (b - c) * (fb - fa))) := by
  unfold parabStep
  simp only [r_sub, r_mul, r_div, r_sq, r_ofSci]
  norm_num

/-- the denominator of the update on a quadratic `p t² + q t + k` -/
theorem parab_den (p q k a b c : ℝ) :
    (b - a) * ((p * b ^ 2 + q * b + k) - (p * c ^ 2 + q * c + k))
      - (b - c) * ((p * b ^ 2 + q * b + k) - (p * a ^ 2 + q * a + k))
      = p * (b - a) * (b - c) * (c - a) := by ring

theorem parab_num (p q k a b c : ℝ) :
    (b - a) ^ 2 * ((p * b ^ 2 + q * b + k) - (p * c ^ 2 + q * c + k))
      - (b - c) ^ 2 * ((p * b ^ 2 + q * b + k) - (p * a ^ 2 + q * a + k))
      = (b - a) * (b - c) * (c - a) * (2 * p * b + q) := by ring

theorem parabInit_real (lo hi : ℝ) : parabInit lo hi = (lo, (lo + hi) / 2, hi) := by
  unfold parabInit
  simp only [r_add, r_div, r_ofSci]
  norm_num

end PV.C03L
