/-
  Helper lemmas for C04Conv: round trip of the value the latitude loop actually returns (not an exact
  fixed point).  With `lat = T(lat2)`, `c = c(lat2)`, `|lat − lat2| < 1e-10` (the exit test) and
  `alt' = r / cos lat − c` (earth radii, as the code computes), the WGS-84 meridian formulas give
     (c(lat) + alt') cos lat          − r = (c(lat) − c) cos lat
     (c(lat)(1−e²) + alt') sin lat    − z = (c(lat) − c)(1−e²) sin lat + c e² (sin lat2 − sin lat)
  (exact identities; the second uses tan lat = (z + c e² sin lat2)/r), and `c`, `sin` are Lipschitz.
-/
import PV.Lemmas.C04ContractLoop
import Mathlib.Analysis.SpecialFunctions.Trigonometric.Bounds

namespace PV.C04C
open PV PV.Look PV.Spec.Topo PV.C04 PV.C05 Real

theorem ecc2_wgs84_le : ecc2 wgs84F ≤ 0.0066944 ∧ 0 < ecc2 wgs84F ∧ 0 < 1 - ecc2 wgs84F ∧
    1 - ecc2 wgs84F ≤ 1 := by
  have h := eccOK_wgs84
  unfold EccOK at h
  refine ⟨h.2, h.1, ?_, ?_⟩ <;> linarith [h.1, h.2]

/-- meridian-plane residual of one exit of the loop (`r > 0`) -/
theorem meridian_residual {z r : ℝ} (hr : 0 < r) {lat2 : ℝ}
    (hclose : |(latStep z r lat2).1 - lat2| < 1e-10) :
    |((latStep z r (latStep z r lat2).1).2 + (r / cos (latStep z r lat2).1 - (latStep z r lat2).2))
        * cos (latStep z r lat2).1 - r| ≤ 6.8e-13 ∧
    |((latStep z r (latStep z r lat2).1).2 * (1 - ecc2 wgs84F)
        + (r / cos (latStep z r lat2).1 - (latStep z r lat2).2)) * sin (latStep z r lat2).1 - z|
      ≤ 1.35e-12 := by
  have he := eccOK_wgs84
  obtain ⟨he1, he0, he2, he3⟩ := ecc2_wgs84_le
  have hlat := latStep_fst z r lat2
  have hc2 := latStep_snd_eq_cfun z r lat2
  have hcl := latStep_snd_eq_cfun z r (latStep z r lat2).1
  set lat := (latStep z r lat2).1 with hlatd
  set c := (latStep z r lat2).2 with hcd
  set cl := (latStep z r lat).2 with hcld
  set e := ecc2 wgs84F with hed
  have hb := arg_range_of_re_pos hr (z + c * e * sin lat2)
  rw [← hlat] at hb
  have hcos : 0 < cos lat := cos_pos_of_mem_Ioo ⟨hb.1, hb.2⟩
  have ht := Complex.tan_arg ⟨r, z + c * e * sin lat2⟩
  rw [← hlat, tan_eq_sin_div_cos] at ht
  simp only at ht
  rw [div_eq_div_iff hcos.ne' hr.ne'] at ht
  -- Lipschitz facts
  have hLc : |cl - c| ≤ 0.00677 * 1e-10 := by
    rw [hcl, hc2]
    have := cfun_lipschitz he lat lat2
    linarith
  have hcb := cfun_bounds he lat2
  rw [← hc2] at hcb
  have hLs : |sin lat2 - sin lat| ≤ 1e-10 := by
    have := abs_sin_sub_sin_le lat2 lat
    rw [abs_sub_comm lat2 lat] at this
    linarith
  have hcos1 : |cos lat| ≤ 1 := abs_cos_le_one lat
  have hsin1 : |sin lat| ≤ 1 := abs_sin_le_one lat
  have hA : |(cl - c) * cos lat| ≤ 0.00677 * 1e-10 := by
    rw [abs_mul]
    calc |cl - c| * |cos lat| ≤ |cl - c| * 1 := mul_le_mul_of_nonneg_left hcos1 (abs_nonneg _)
      _ ≤ 0.00677 * 1e-10 := by rw [mul_one]; exact hLc
  have hB : |(cl - c) * (1 - e) * sin lat| ≤ 0.00677 * 1e-10 := by
    rw [abs_mul, abs_mul, abs_of_pos he2]
    have h1 : |cl - c| * (1 - e) ≤ |cl - c| * 1 := mul_le_mul_of_nonneg_left he3 (abs_nonneg _)
    have h2 : |cl - c| * (1 - e) * |sin lat| ≤ |cl - c| * (1 - e) * 1 :=
      mul_le_mul_of_nonneg_left hsin1 (mul_nonneg (abs_nonneg _) he2.le)
    linarith
  have hC : |c * e * (sin lat2 - sin lat)| ≤ 1.00342 * 0.0066944 * 1e-10 := by
    rw [abs_mul, abs_mul, abs_of_pos hcb.1, abs_of_pos he0]
    have h1 : c * e ≤ 1.00342 * 0.0066944 := mul_le_mul hcb.2 he1 he0.le (by norm_num)
    exact mul_le_mul h1 hLs (abs_nonneg _) (by norm_num)
  constructor
  · have hid : (cl + (r / cos lat - c)) * cos lat - r = (cl - c) * cos lat := by
      field_simp; ring
    rw [hid]
    refine le_trans hA (by norm_num)
  · have hid : (cl * (1 - e) + (r / cos lat - c)) * sin lat - z
        = (cl - c) * (1 - e) * sin lat + c * e * (sin lat2 - sin lat) := by
      field_simp
      linear_combination ht
    rw [hid]
    refine le_trans (abs_add_le _ _) ?_
    refine le_trans (add_le_add hB hC) (by norm_num)

/-- 3-D round trip of a loop result: `pn` in earth radii (km / XKMPER) off the polar axis; converting
    the returned latitude / the altitude the code forms back with the WGS-84 formulas and the rotation by
    GMST gives `A · pn` up to `A · 1.35e-12` per component (≈ 9 µm) -/
theorem roundtrip_of_loop (d : ℝ) (pn : V3 ℝ) (hxy : pn.x ≠ 0 ∨ pn.y ≠ 0)
    {fuel : ℕ} {lat0 lat c : ℝ} {n : ℕ}
    (h : latLoop pn.z (√(pn.x ^ 2 + pn.y ^ 2)) fuel lat0 = some (lat, c, n)) :
    |(geodeticToCartesian wgs84A wgs84F lat
        (Astro.gmst d + wrapLon (Complex.arg ⟨pn.x * 6378.135, pn.y * 6378.135⟩ - Astro.gmst d))
        ((√(pn.x ^ 2 + pn.y ^ 2) / cos lat - c) * wgs84A)).x - wgs84A * pn.x| ≤ wgs84A * 6.8e-13 ∧
    |(geodeticToCartesian wgs84A wgs84F lat
        (Astro.gmst d + wrapLon (Complex.arg ⟨pn.x * 6378.135, pn.y * 6378.135⟩ - Astro.gmst d))
        ((√(pn.x ^ 2 + pn.y ^ 2) / cos lat - c) * wgs84A)).y - wgs84A * pn.y| ≤ wgs84A * 6.8e-13 ∧
    |(geodeticToCartesian wgs84A wgs84F lat
        (Astro.gmst d + wrapLon (Complex.arg ⟨pn.x * 6378.135, pn.y * 6378.135⟩ - Astro.gmst d))
        ((√(pn.x ^ 2 + pn.y ^ 2) / cos lat - c) * wgs84A)).z - wgs84A * pn.z| ≤ wgs84A * 1.35e-12 := by
  have hr : 0 < √(pn.x ^ 2 + pn.y ^ 2) := by
    apply Real.sqrt_pos.2
    rcases hxy with h | h
    · have := sq_pos_of_ne_zero h; nlinarith [sq_nonneg pn.y]
    · have := sq_pos_of_ne_zero h; nlinarith [sq_nonneg pn.x]
  have hr2 : √(pn.x ^ 2 + pn.y ^ 2) ^ 2 = pn.x ^ 2 + pn.y ^ 2 := Real.sq_sqrt (by positivity)
  obtain ⟨lat2, hstep, hclose⟩ := latLoop_some _ _ fuel lat0 lat c n h
  have hl : (latStep pn.z (√(pn.x ^ 2 + pn.y ^ 2)) lat2).1 = lat := by rw [hstep]
  have hcc : (latStep pn.z (√(pn.x ^ 2 + pn.y ^ 2)) lat2).2 = c := by rw [hstep]
  rw [← hl] at hclose
  have hm := meridian_residual hr hclose
  rw [hl, hcc] at hm
  obtain ⟨hm1, hm2⟩ := hm
  obtain ⟨hcos, hsin⟩ := cos_sin_atan2_scaled (x := pn.x) (y := pn.y) (k := 6378.135) (by norm_num) hr
  have hclv := latStep_snd pn.z (√(pn.x ^ 2 + pn.y ^ 2)) lat
  set r := √(pn.x ^ 2 + pn.y ^ 2)
  set cl := (latStep pn.z r lat).2
  set g := Astro.gmst d
  set a := Complex.arg ⟨pn.x * 6378.135, pn.y * 6378.135⟩
  have hA : (0 : ℝ) < wgs84A := by unfold wgs84A; norm_num
  have hN : primeVertical wgs84A wgs84F lat = wgs84A * cl := by
    rw [hclv]; unfold primeVertical; ring
  have hct : cos (g + wrapLon (a - g)) = pn.x / r := by
    rw [cos_add, cos_wrapLon, sin_wrapLon, ← cos_add, add_sub_cancel, hcos]
  have hst : sin (g + wrapLon (a - g)) = pn.y / r := by
    rw [sin_add, cos_wrapLon, sin_wrapLon, ← sin_add, add_sub_cancel, hsin]
  have hxr : |pn.x / r| ≤ 1 := by
    rw [abs_div, abs_of_pos hr, div_le_one hr]
    apply Real.abs_le_sqrt
    nlinarith [sq_nonneg pn.y]
  have hyr : |pn.y / r| ≤ 1 := by
    rw [abs_div, abs_of_pos hr, div_le_one hr]
    apply Real.abs_le_sqrt
    nlinarith [sq_nonneg pn.x]
  simp only [geodeticToCartesian, hN, hct, hst]
  set R' := (cl + (r / cos lat - c)) * cos lat
  set Z' := (cl * (1 - ecc2 wgs84F) + (r / cos lat - c)) * sin lat
  refine ⟨?_, ?_, ?_⟩
  · have : (wgs84A * cl + (r / cos lat - c) * wgs84A) * cos lat * (pn.x / r) - wgs84A * pn.x
        = wgs84A * ((R' - r) * (pn.x / r)) := by
      simp only [R']; field_simp
    rw [this, abs_mul, abs_of_pos hA, abs_mul]
    apply mul_le_mul_of_nonneg_left _ hA.le
    calc |R' - r| * |pn.x / r| ≤ 6.8e-13 * 1 := mul_le_mul hm1 hxr (abs_nonneg _) (by norm_num)
      _ = 6.8e-13 := mul_one _
  · have : (wgs84A * cl + (r / cos lat - c) * wgs84A) * cos lat * (pn.y / r) - wgs84A * pn.y
        = wgs84A * ((R' - r) * (pn.y / r)) := by
      simp only [R']; field_simp
    rw [this, abs_mul, abs_of_pos hA, abs_mul]
    apply mul_le_mul_of_nonneg_left _ hA.le
    calc |R' - r| * |pn.y / r| ≤ 6.8e-13 * 1 := mul_le_mul hm1 hyr (abs_nonneg _) (by norm_num)
      _ = 6.8e-13 := mul_one _
  · have : (wgs84A * cl * (1 - ecc2 wgs84F) + (r / cos lat - c) * wgs84A) * sin lat - wgs84A * pn.z
        = wgs84A * (Z' - pn.z) := by
      simp only [Z']; ring
    rw [this, abs_mul, abs_of_pos hA]
    exact mul_le_mul_of_nonneg_left hm2 hA.le

theorem sq_err_bound {q x ε : ℝ} (h : |q - wgs84A * x| ≤ ε) :
    (q - 6378.135 * x) ^ 2 ≤ 2 * ε ^ 2 + 2 * (0.002 * x) ^ 2 := by
  have he : q - 6378.135 * x = (q - wgs84A * x) + 0.002 * x := by unfold wgs84A; ring
  have h2 : (q - wgs84A * x) ^ 2 ≤ ε ^ 2 := by
    rw [← sq_abs]; exact pow_le_pow_left₀ (abs_nonneg _) h 2
  rw [he]
  nlinarith [sq_nonneg ((q - wgs84A * x) - 0.002 * x)]

/-- component residuals against `A·pn` ⇒ euclidean distance from the true position `XKMPER·pn` at most
    `2e-6` of its length (the unit mismatch A/XKMPER − 1 = 3.14e-7 dominates) -/
theorem roundtrip_2e6_of_components {qx qy qz x y z : ℝ}
    (hx : |qx - wgs84A * x| ≤ wgs84A * 6.8e-13) (hy : |qy - wgs84A * y| ≤ wgs84A * 6.8e-13)
    (hz : |qz - wgs84A * z| ≤ wgs84A * 1.35e-12) (hp : 0.99 ^ 2 ≤ x ^ 2 + y ^ 2 + z ^ 2) :
    (qx - 6378.135 * x) ^ 2 + (qy - 6378.135 * y) ^ 2 + (qz - 6378.135 * z) ^ 2
      ≤ (2e-6 * 6378.135) ^ 2 * (x ^ 2 + y ^ 2 + z ^ 2) := by
  have hA : wgs84A * 6.8e-13 ≤ wgs84A * 1.35e-12 := by unfold wgs84A; norm_num
  have h1 := sq_err_bound (le_trans hx hA)
  have h2 := sq_err_bound (le_trans hy hA)
  have h3 := sq_err_bound hz
  have hε : (wgs84A * 1.35e-12) ^ 2 ≤ 1e-16 := by unfold wgs84A; norm_num
  nlinarith

end PV.C04C
