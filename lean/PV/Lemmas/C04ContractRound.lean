/-
  Helper lemmas for C04Conv: round trip of the value the latitude loop actually returns (not an exact
  fixed point).  With `lat = T(lat2)`, `|lat − lat2| < 1e-10` (the exit test) and the altitude
  `alt' = r cos lat + z sin lat − √(1 − e² sin² lat)` (earth radii, as the code computes), the WGS-84
  meridian formulas give
     (c(lat) + alt') cos lat        − r =  (g(lat) − g(lat2)) sin lat cos lat
     (c(lat)(1−e²) + alt') sin lat  − z = −(g(lat) − g(lat2)) cos² lat
  (exact identities, `PV.C04.step_residual_core`: polar form of atan2, valid on the polar axis too), and
  `g` is 0.00677-Lipschitz.
-/
import PV.Lemmas.C04ContractLoop
import Mathlib.Analysis.SpecialFunctions.Trigonometric.Bounds

namespace PV.C04C
open PV PV.Look PV.Spec.Topo PV.C04 PV.C05 Real

theorem ecc2_wgs84_le : ecc2 wgs84F ≤ 0.0066944 ∧ 0 < ecc2 wgs84F ∧ 0 < 1 - ecc2 wgs84F ∧
    1 - ecc2 wgs84F ≤ 1 := by
  have h := eccOK_wgs84
  unfold EccOK at h
  refine ⟨h.2, h.1, ?_, ?_⟩ <;> linarith [h.1, h.2]

/-- outside the sphere of radius 0.99 the point `(r, z + c e² sin lat2)` whose direction the body takes is
    never the origin (so `atan2` is a genuine angle, polar axis included) -/
theorem arg_point_ne_zero {z r : ℝ} (hp : 0.99 ^ 2 ≤ r ^ 2 + z ^ 2) (lat2 : ℝ) :
    r ≠ 0 ∨ z + (latStep z r lat2).2 * ecc2 wgs84F * sin lat2 ≠ 0 := by
  have he := eccOK_wgs84
  have hg : (latStep z r lat2).2 * ecc2 wgs84F * sin lat2 = gfun (ecc2 wgs84F) lat2 := by
    rw [latStep_snd_eq_cfun]; unfold cfun gfun; ring
  rw [hg]
  have h := rho_sq_ge hp (gfun_abs_le he lat2)
  by_contra hcon
  rw [not_or, not_not, not_not] at hcon
  rw [hcon.1, hcon.2] at h
  norm_num at h

/-- meridian-plane residual of one exit of the loop: with the altitude `altOf` the code forms and
    `c(lat)`, the WGS-84 formulas give back `(r, z)` up to `(g(lat) − g(lat2)) · (sin lat cos lat, −cos² lat)`;
    polar axis included -/
theorem meridian_residual {z r : ℝ} {lat2 : ℝ}
    (hne : r ≠ 0 ∨ z + (latStep z r lat2).2 * ecc2 wgs84F * sin lat2 ≠ 0)
    (hclose : |(latStep z r lat2).1 - lat2| < 1e-10) :
    |((latStep z r (latStep z r lat2).1).2 + altOf z r (latStep z r lat2).1)
        * cos (latStep z r lat2).1 - r| ≤ 6.8e-13 ∧
    |((latStep z r (latStep z r lat2).1).2 * (1 - ecc2 wgs84F) + altOf z r (latStep z r lat2).1)
        * sin (latStep z r lat2).1 - z| ≤ 6.8e-13 := by
  have he := eccOK_wgs84
  have hlat := latStep_fst z r lat2
  have hcl := latStep_snd z r (latStep z r lat2).1
  have hc2 := latStep_snd z r lat2
  obtain ⟨ha, hb⟩ := step_residual_core (ecc2 wgs84F) (latStep z r lat2).2 z r lat2 hne
    (by rw [← hlat]; exact denominator_pos _)
  rw [← hlat] at ha hb
  rw [altOf_real, hcl]
  set lat := (latStep z r lat2).1
  have hg : ecc2 wgs84F * (1 / √(1 - ecc2 wgs84F * sin lat ^ 2) * sin lat - (latStep z r lat2).2 * sin lat2)
      = gfun (ecc2 wgs84F) lat - gfun (ecc2 wgs84F) lat2 := by
    rw [hc2]; unfold gfun Wd; ring
  rw [hg] at ha hb
  rw [ha, hb]
  have hL : |gfun (ecc2 wgs84F) lat - gfun (ecc2 wgs84F) lat2| ≤ 0.00677 * 1e-10 := by
    have := gfun_lipschitz he lat lat2
    linarith
  have hcos1 : |cos lat| ≤ 1 := abs_cos_le_one lat
  have hsin1 : |sin lat| ≤ 1 := abs_sin_le_one lat
  have hD := abs_nonneg (gfun (ecc2 wgs84F) lat - gfun (ecc2 wgs84F) lat2)
  constructor
  · rw [abs_mul, abs_mul]
    have h1 : |gfun (ecc2 wgs84F) lat - gfun (ecc2 wgs84F) lat2| * |sin lat| ≤
        |gfun (ecc2 wgs84F) lat - gfun (ecc2 wgs84F) lat2| * 1 := mul_le_mul_of_nonneg_left hsin1 hD
    have h2 := mul_le_mul_of_nonneg_left hcos1 (mul_nonneg hD (abs_nonneg (sin lat)))
    linarith
  · rw [abs_neg, abs_mul, abs_pow]
    have h1 : |cos lat| ^ 2 ≤ 1 := pow_le_one₀ (abs_nonneg _) hcos1
    have h2 := mul_le_mul_of_nonneg_left h1 hD
    linarith

/-- 3-D round trip of a loop result: `pn` in earth radii (km / XKMPER), off the polar axis or at least 0.99
    from the centre (polar axis included); converting the returned latitude / the altitude the code forms back
    with the WGS-84 formulas and the rotation by GMST gives `A · pn` up to `A · 6.8e-13` per component (≈ 4 µm) -/
theorem roundtrip_of_loop (d : ℝ) (pn : V3 ℝ)
    (h0 : (pn.x ≠ 0 ∨ pn.y ≠ 0) ∨ 0.99 ^ 2 ≤ pn.x ^ 2 + pn.y ^ 2 + pn.z ^ 2)
    {fuel : ℕ} {lat0 lat c : ℝ} {n : ℕ}
    (h : latLoop pn.z (√(pn.x ^ 2 + pn.y ^ 2)) fuel lat0 = some (lat, c, n)) :
    |(geodeticToCartesian wgs84A wgs84F lat
        (Astro.gmst d + wrapLon (Complex.arg ⟨pn.x * 6378.135, pn.y * 6378.135⟩ - Astro.gmst d))
        (altOf pn.z (√(pn.x ^ 2 + pn.y ^ 2)) lat * wgs84A)).x - wgs84A * pn.x| ≤ wgs84A * 6.8e-13 ∧
    |(geodeticToCartesian wgs84A wgs84F lat
        (Astro.gmst d + wrapLon (Complex.arg ⟨pn.x * 6378.135, pn.y * 6378.135⟩ - Astro.gmst d))
        (altOf pn.z (√(pn.x ^ 2 + pn.y ^ 2)) lat * wgs84A)).y - wgs84A * pn.y| ≤ wgs84A * 6.8e-13 ∧
    |(geodeticToCartesian wgs84A wgs84F lat
        (Astro.gmst d + wrapLon (Complex.arg ⟨pn.x * 6378.135, pn.y * 6378.135⟩ - Astro.gmst d))
        (altOf pn.z (√(pn.x ^ 2 + pn.y ^ 2)) lat * wgs84A)).z - wgs84A * pn.z| ≤ wgs84A * 6.8e-13 := by
  have hr2 : √(pn.x ^ 2 + pn.y ^ 2) ^ 2 = pn.x ^ 2 + pn.y ^ 2 := Real.sq_sqrt (by positivity)
  obtain ⟨lat2, hstep, hclose⟩ := latLoop_some _ _ fuel lat0 lat c n h
  have hl : (latStep pn.z (√(pn.x ^ 2 + pn.y ^ 2)) lat2).1 = lat := by rw [hstep]
  rw [← hl] at hclose
  have hne : √(pn.x ^ 2 + pn.y ^ 2) ≠ 0 ∨
      pn.z + (latStep pn.z (√(pn.x ^ 2 + pn.y ^ 2)) lat2).2 * ecc2 wgs84F * sin lat2 ≠ 0 := by
    rcases h0 with hxy | hp
    · left
      apply ne_of_gt
      apply Real.sqrt_pos.2
      rcases hxy with h | h
      · have := sq_pos_of_ne_zero h; nlinarith [sq_nonneg pn.y]
      · have := sq_pos_of_ne_zero h; nlinarith [sq_nonneg pn.x]
    · exact arg_point_ne_zero (by rw [hr2]; exact hp) lat2
  have hm := meridian_residual hne hclose
  rw [hl] at hm
  obtain ⟨hm1, hm2⟩ := hm
  obtain ⟨hx, hy⟩ := xy_polar (Astro.gmst d) pn.x pn.y
  have hclv := latStep_snd pn.z (√(pn.x ^ 2 + pn.y ^ 2)) lat
  set r := √(pn.x ^ 2 + pn.y ^ 2)
  set cl := (latStep pn.z r lat).2
  set g := Astro.gmst d
  set θ := g + wrapLon (Complex.arg ⟨pn.x * 6378.135, pn.y * 6378.135⟩ - g)
  set alt := altOf pn.z r lat
  have hA : (0 : ℝ) < wgs84A := by unfold wgs84A; norm_num
  have hN : primeVertical wgs84A wgs84F lat = wgs84A * cl := by
    rw [hclv]; unfold primeVertical; ring
  simp only [geodeticToCartesian, hN]
  set R' := (cl + alt) * cos lat
  set Z' := (cl * (1 - ecc2 wgs84F) + alt) * sin lat
  refine ⟨?_, ?_, ?_⟩
  · have : (wgs84A * cl + alt * wgs84A) * cos lat * cos θ - wgs84A * pn.x
        = wgs84A * ((R' - r) * cos θ) := by
      simp only [R']; rw [hx]; ring
    rw [this, abs_mul, abs_of_pos hA, abs_mul]
    apply mul_le_mul_of_nonneg_left _ hA.le
    calc |R' - r| * |cos θ| ≤ 6.8e-13 * 1 :=
          mul_le_mul hm1 (abs_cos_le_one θ) (abs_nonneg _) (by norm_num)
      _ = 6.8e-13 := mul_one _
  · have : (wgs84A * cl + alt * wgs84A) * cos lat * sin θ - wgs84A * pn.y
        = wgs84A * ((R' - r) * sin θ) := by
      simp only [R']; rw [hy]; ring
    rw [this, abs_mul, abs_of_pos hA, abs_mul]
    apply mul_le_mul_of_nonneg_left _ hA.le
    calc |R' - r| * |sin θ| ≤ 6.8e-13 * 1 :=
          mul_le_mul hm1 (abs_sin_le_one θ) (abs_nonneg _) (by norm_num)
      _ = 6.8e-13 := mul_one _
  · have : (wgs84A * cl * (1 - ecc2 wgs84F) + alt * wgs84A) * sin lat - wgs84A * pn.z
        = wgs84A * (Z' - pn.z) := by
      simp only [Z']; ring
    rw [this, abs_mul, abs_of_pos hA]
    exact mul_le_mul_of_nonneg_left hm2 hA.le

theorem sq_err_bound {q x ε : ℝ} (h : |q - wgs84A * x| ≤ ε) :
    (q - 6378.135 * x) ^ 2 ≤ 2 * ε ^ 2 + 2 * (0.002 * x) ^ 2 := by
  have he : q - 6378.135 * x = (q - wgs84A * x) + 0.002 * x := by unfold wgs84A; ring
  have h2 : (q - wgs84A * x) ^ 2 ≤ ε ^ 2 := by
    rw [← sq_abs]; exact pow_le_pow_left₀ (abs_nonneg _) h 2
  rw [he]
  nlinarith [sq_nonneg ((q - wgs84A * x) - 0.002 * x)]

/-- component residuals against `A·pn` ⇒ euclidean distance from the true position `XKMPER·pn` at most
    `2e-6` of its length (the unit mismatch A/XKMPER − 1 = 3.14e-7 dominates) -/
theorem roundtrip_2e6_of_components {qx qy qz x y z : ℝ}
    (hx : |qx - wgs84A * x| ≤ wgs84A * 6.8e-13) (hy : |qy - wgs84A * y| ≤ wgs84A * 6.8e-13)
    (hz : |qz - wgs84A * z| ≤ wgs84A * 6.8e-13) (hp : 0.99 ^ 2 ≤ x ^ 2 + y ^ 2 + z ^ 2) :
    (qx - 6378.135 * x) ^ 2 + (qy - 6378.135 * y) ^ 2 + (qz - 6378.135 * z) ^ 2
      ≤ (2e-6 * 6378.135) ^ 2 * (x ^ 2 + y ^ 2 + z ^ 2) := by
  have hA : wgs84A * 6.8e-13 ≤ wgs84A * 1.35e-12 := by unfold wgs84A; norm_num
  have h1 := sq_err_bound (le_trans hx hA)
  have h2 := sq_err_bound (le_trans hy hA)
  have h3 := sq_err_bound (le_trans hz hA)
  have hε : (wgs84A * 1.35e-12) ^ 2 ≤ 1e-16 := by unfold wgs84A; norm_num
  nlinarith

end PV.C04C
