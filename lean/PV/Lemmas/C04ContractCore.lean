/-
  Helper lemmas for C04Conv (pure ℝ, no model terms): the body of the geodetic-latitude
  fixed-point iteration  T(φ) = atan2(z + g(φ), r),  g(φ) = e² sin φ / √(1 − e² sin² φ),
  is a contraction with factor 7/1000 for every (r, z) with r ≥ 0 and r² + z² ≥ 0.99²
  (unit = equatorial radius; the ellipsoid's surface has radius ≥ b/a = 0.99665), for every e² ∈ (0, 0.0066944]  (WGS-84: 0.00669438).

  Decomposition used:  T = A ∘ g  with  A(w) = arctan((z + w)/r)  (r > 0),
    |g| ≤ γ = 0.00672,  |g'| ≤ G = 0.00677  (g' = e² cos φ / (1 − e² sin² φ)^{3/2}),
    |A'(w)| = r / (r² + (z+w)²) ≤ 1.0171  for |w| ≤ γ  (since √(r² + (z+w)²) ≥ 0.99 − γ),
  and the mean value theorem on convex sets.  For r = 0 the map is constant (±π/2).
-/
import Mathlib.Analysis.SpecialFunctions.Trigonometric.ArctanDeriv
import Mathlib.Analysis.SpecialFunctions.Trigonometric.Deriv
import Mathlib.Analysis.SpecialFunctions.Sqrt
import Mathlib.Analysis.SpecialFunctions.Complex.Arg
import Mathlib.Analysis.Calculus.MeanValue
import Mathlib.Tactic.LinearCombination
import Mathlib.Tactic.Positivity

namespace PV.C04C
open Real

/-- admissible eccentricity squared: `0 < e ≤ 0.0066944` (WGS-84 has 0.00669438) -/
def EccOK (e : ℝ) : Prop := 0 < e ∧ e ≤ 0.0066944

/-- `1 − e sin² φ` -/
noncomputable def Wd (e φ : ℝ) : ℝ := 1 - e * sin φ ^ 2
/-- `g(φ) = e sin φ / √(1 − e sin² φ)` -/
noncomputable def gfun (e φ : ℝ) : ℝ := e * sin φ / √(Wd e φ)
/-- `c(φ) = 1 / √(1 − e sin² φ)` -/
noncomputable def cfun (e φ : ℝ) : ℝ := 1 / √(Wd e φ)
/-- the loop body as a map on latitudes -/
noncomputable def Tmap (e z r φ : ℝ) : ℝ := Complex.arg ⟨r, z + gfun e φ⟩

theorem Wd_ge {e : ℝ} (he : EccOK e) (φ : ℝ) : 0.9933056 ≤ Wd e φ := by
  have h2 : sin φ ^ 2 ≤ 1 := sin_sq_le_one φ
  have h3 : 0 ≤ sin φ ^ 2 := sq_nonneg _
  have := mul_le_mul he.2 h2 h3 (by norm_num : (0 : ℝ) ≤ 0.0066944)
  unfold Wd; linarith

theorem Wd_le {e : ℝ} (he : EccOK e) (φ : ℝ) : Wd e φ ≤ 1 := by
  have := mul_nonneg he.1.le (sq_nonneg (sin φ))
  unfold Wd; linarith

theorem Wd_pos {e : ℝ} (he : EccOK e) (φ : ℝ) : 0 < Wd e φ :=
  lt_of_lt_of_le (by norm_num) (Wd_ge he φ)

theorem sqrtWd_ge {e : ℝ} (he : EccOK e) (φ : ℝ) : 0.9966 ≤ √(Wd e φ) := by
  apply Real.le_sqrt_of_sq_le
  exact le_trans (by norm_num) (Wd_ge he φ)

theorem sqrtWd_pos {e : ℝ} (he : EccOK e) (φ : ℝ) : 0 < √(Wd e φ) :=
  lt_of_lt_of_le (by norm_num) (sqrtWd_ge he φ)

theorem sqrtWd_sq {e : ℝ} (he : EccOK e) (φ : ℝ) : √(Wd e φ) ^ 2 = Wd e φ :=
  Real.sq_sqrt (Wd_pos he φ).le

/-- `|g| ≤ γ = 0.00672` -/
theorem gfun_abs_le {e : ℝ} (he : EccOK e) (φ : ℝ) : |gfun e φ| ≤ 0.00672 := by
  have hs := sqrtWd_ge he φ
  have hp := sqrtWd_pos he φ
  unfold gfun
  rw [abs_div, abs_of_pos hp, div_le_iff₀ hp, abs_mul, abs_of_pos he.1]
  have h1 : |sin φ| ≤ 1 := abs_sin_le_one φ
  have h2 : e * |sin φ| ≤ 0.0066944 * 1 := mul_le_mul he.2 h1 (abs_nonneg _) (by norm_num)
  nlinarith

/-- `c ≤ 1/0.9966 < 1.00342` and `c > 0` -/
theorem cfun_bounds {e : ℝ} (he : EccOK e) (φ : ℝ) : 0 < cfun e φ ∧ cfun e φ ≤ 1.00342 := by
  have hs := sqrtWd_ge he φ
  have hp := sqrtWd_pos he φ
  unfold cfun
  refine ⟨by positivity, ?_⟩
  rw [div_le_iff₀ hp]; nlinarith

theorem hasDerivAt_Wd (e φ : ℝ) : HasDerivAt (Wd e) (-(e * (2 * sin φ * cos φ))) φ := by
  have hs : HasDerivAt sin (cos φ) φ := hasDerivAt_sin φ
  have h : HasDerivAt (Wd e) _ φ := ((hs.pow 2).const_mul e).const_sub 1
  refine h.congr_deriv ?_
  simp

theorem hasDerivAt_sqrtWd {e : ℝ} (he : EccOK e) (φ : ℝ) :
    HasDerivAt (fun φ => √(Wd e φ)) (-(e * (2 * sin φ * cos φ)) / (2 * √(Wd e φ))) φ :=
  (hasDerivAt_Wd e φ).sqrt (Wd_pos he φ).ne'

/-- `g'(φ) = e cos φ / (1 − e sin² φ)^{3/2}` -/
theorem hasDerivAt_gfun {e : ℝ} (he : EccOK e) (φ : ℝ) :
    HasDerivAt (gfun e) (e * cos φ / (Wd e φ * √(Wd e φ))) φ := by
  have hs : HasDerivAt sin (cos φ) φ := hasDerivAt_sin φ
  have hp := sqrtWd_pos he φ
  have h : HasDerivAt (gfun e) _ φ := (hs.const_mul e).div (hasDerivAt_sqrtWd he φ) hp.ne'
  refine h.congr_deriv ?_
  have hsq := sqrtWd_sq he φ
  set s := √(Wd e φ)
  have hW : s ^ 2 = 1 - e * sin φ ^ 2 := hsq
  rw [← hsq]
  have hs0 : s ≠ 0 := hp.ne'
  field_simp
  linear_combination (e * cos φ) * hW

/-- `c'(φ) = e sin φ cos φ / (1 − e sin² φ)^{3/2}` -/
theorem hasDerivAt_cfun {e : ℝ} (he : EccOK e) (φ : ℝ) :
    HasDerivAt (cfun e) (e * sin φ * cos φ / (Wd e φ * √(Wd e φ))) φ := by
  have hp := sqrtWd_pos he φ
  have h : HasDerivAt (cfun e) _ φ := (hasDerivAt_const φ (1 : ℝ)).div (hasDerivAt_sqrtWd he φ) hp.ne'
  refine h.congr_deriv ?_
  have hsq := sqrtWd_sq he φ
  set s := √(Wd e φ)
  rw [← hsq]
  have hs0 : s ≠ 0 := hp.ne'
  field_simp
  ring

theorem deriv_den_ge {e : ℝ} (he : EccOK e) (φ : ℝ) : 0.98992 ≤ Wd e φ * √(Wd e φ) := by
  have h1 := Wd_ge he φ
  have h2 := sqrtWd_ge he φ
  nlinarith

/-- `|g'| ≤ G = 0.00677` -/
theorem gfun_deriv_abs_le {e : ℝ} (he : EccOK e) (φ : ℝ) :
    |e * cos φ / (Wd e φ * √(Wd e φ))| ≤ 0.00677 := by
  have hd := deriv_den_ge he φ
  have hp : 0 < Wd e φ * √(Wd e φ) := lt_of_lt_of_le (by norm_num) hd
  rw [abs_div, abs_of_pos hp, div_le_iff₀ hp, abs_mul, abs_of_pos he.1]
  have h1 : |cos φ| ≤ 1 := abs_cos_le_one φ
  have h2 : e * |cos φ| ≤ 0.0066944 * 1 := mul_le_mul he.2 h1 (abs_nonneg _) (by norm_num)
  nlinarith

/-- `|c'| ≤ 0.00677` -/
theorem cfun_deriv_abs_le {e : ℝ} (he : EccOK e) (φ : ℝ) :
    |e * sin φ * cos φ / (Wd e φ * √(Wd e φ))| ≤ 0.00677 := by
  have hd := deriv_den_ge he φ
  have hp : 0 < Wd e φ * √(Wd e φ) := lt_of_lt_of_le (by norm_num) hd
  rw [abs_div, abs_of_pos hp, div_le_iff₀ hp, abs_mul, abs_mul, abs_of_pos he.1]
  have h1 : |cos φ| ≤ 1 := abs_cos_le_one φ
  have h0 : |sin φ| ≤ 1 := abs_sin_le_one φ
  have h3 : |sin φ| * |cos φ| ≤ 1 := by
    calc |sin φ| * |cos φ| ≤ 1 * 1 := mul_le_mul h0 h1 (abs_nonneg _) zero_le_one
      _ = 1 := one_mul 1
  have h2 : e * (|sin φ| * |cos φ|) ≤ 0.0066944 * 1 :=
    mul_le_mul he.2 h3 (mul_nonneg (abs_nonneg _) (abs_nonneg _)) (by norm_num)
  rw [mul_assoc]
  nlinarith

/-- `g` is `G`-Lipschitz on ℝ -/
theorem gfun_lipschitz {e : ℝ} (he : EccOK e) (φ₁ φ₂ : ℝ) :
    |gfun e φ₁ - gfun e φ₂| ≤ 0.00677 * |φ₁ - φ₂| := by
  have h := Convex.norm_image_sub_le_of_norm_hasDerivWithin_le (s := Set.univ) (f := gfun e)
    (f' := fun φ => e * cos φ / (Wd e φ * √(Wd e φ))) (C := 0.00677) (x := φ₂) (y := φ₁)
    (fun x _ => (hasDerivAt_gfun he x).hasDerivWithinAt)
    (fun x _ => by rw [Real.norm_eq_abs]; exact gfun_deriv_abs_le he x)
    convex_univ (Set.mem_univ _) (Set.mem_univ _)
  simpa only [Real.norm_eq_abs] using h

/-- `c` is 0.00677-Lipschitz on ℝ -/
theorem cfun_lipschitz {e : ℝ} (he : EccOK e) (φ₁ φ₂ : ℝ) :
    |cfun e φ₁ - cfun e φ₂| ≤ 0.00677 * |φ₁ - φ₂| := by
  have h := Convex.norm_image_sub_le_of_norm_hasDerivWithin_le (s := Set.univ) (f := cfun e)
    (f' := fun φ => e * sin φ * cos φ / (Wd e φ * √(Wd e φ))) (C := 0.00677) (x := φ₂) (y := φ₁)
    (fun x _ => (hasDerivAt_cfun he x).hasDerivWithinAt)
    (fun x _ => by rw [Real.norm_eq_abs]; exact cfun_deriv_abs_le he x)
    convex_univ (Set.mem_univ _) (Set.mem_univ _)
  simpa only [Real.norm_eq_abs] using h

/-! ### the outer map `A(w) = arctan((z + w)/r)` -/

/-- triangle inequality in the meridian plane: `r² + (z+w)² ≥ (0.99 − γ)²` when `r² + z² ≥ 0.99²`, `|w| ≤ γ` -/
theorem rho_sq_ge {z r w : ℝ} (hp : 0.99 ^ 2 ≤ r ^ 2 + z ^ 2) (hw : |w| ≤ 0.00672) :
    0.98328 ^ 2 ≤ r ^ 2 + (z + w) ^ 2 := by
  set P := √(r ^ 2 + z ^ 2) with hP
  have hP0 : 0 ≤ r ^ 2 + z ^ 2 := by positivity
  have hP2 : P ^ 2 = r ^ 2 + z ^ 2 := Real.sq_sqrt hP0
  have hP1 : 0.99 ≤ P := by
    rw [hP]; exact Real.le_sqrt_of_sq_le hp
  have hzP : |z| ≤ P := by
    rw [hP]; apply Real.le_sqrt_of_sq_le; rw [sq_abs]; nlinarith [sq_nonneg r]
  have h1 : -(P * |w|) ≤ z * w := by
    have : |z * w| ≤ P * |w| := by
      rw [abs_mul]; exact mul_le_mul_of_nonneg_right hzP (abs_nonneg _)
    linarith [neg_abs_le (z * w)]
  have h2 : (0.98328 : ℝ) ≤ P - |w| := by linarith
  have h3 : (0.98328 : ℝ) ^ 2 ≤ (P - |w|) ^ 2 := pow_le_pow_left₀ (by norm_num) h2 2
  have h4 : |w| ^ 2 = w ^ 2 := sq_abs w
  nlinarith

/-- `r / (r² + (z+w)²) ≤ 1.0171` -/
theorem outer_deriv_le {z r w : ℝ} (hr : 0 < r) (hp : 0.99 ^ 2 ≤ r ^ 2 + z ^ 2) (hw : |w| ≤ 0.00672) :
    |1 / (1 + ((z + w) / r) ^ 2) * (1 / r)| ≤ 1.0171 := by
  have hρ := rho_sq_ge hp hw
  set ρ2 := r ^ 2 + (z + w) ^ 2 with hρ2
  have hρpos : 0 < ρ2 := lt_of_lt_of_le (by norm_num) hρ
  have heq : 1 / (1 + ((z + w) / r) ^ 2) * (1 / r) = r / ρ2 := by
    rw [hρ2]; field_simp
  rw [heq, abs_of_pos (div_pos hr hρpos), div_le_iff₀ hρpos]
  set ρ := √ρ2 with hρd
  have hρρ : ρ ^ 2 = ρ2 := Real.sq_sqrt hρpos.le
  have hrρ : r ≤ ρ := by
    rw [hρd]; apply Real.le_sqrt_of_sq_le; rw [hρ2]; nlinarith [sq_nonneg (z + w)]
  have hmρ : (0.98328 : ℝ) ≤ ρ := by
    rw [hρd]; exact Real.le_sqrt_of_sq_le hρ
  nlinarith

theorem hasDerivAt_outer (z r w : ℝ) :
    HasDerivAt (fun w => arctan ((z + w) / r)) (1 / (1 + ((z + w) / r) ^ 2) * (1 / r)) w := by
  have h := (((hasDerivAt_id w).const_add z).div_const r).arctan
  simpa using h

/-- `A` is 1.0171-Lipschitz on `[−γ, γ]` -/
theorem outer_lipschitz {z r : ℝ} (hr : 0 < r) (hp : 0.99 ^ 2 ≤ r ^ 2 + z ^ 2) {w₁ w₂ : ℝ}
    (h₁ : |w₁| ≤ 0.00672) (h₂ : |w₂| ≤ 0.00672) :
    |arctan ((z + w₁) / r) - arctan ((z + w₂) / r)| ≤ 1.0171 * |w₁ - w₂| := by
  have h := Convex.norm_image_sub_le_of_norm_hasDerivWithin_le (s := Set.Icc (-0.00672 : ℝ) 0.00672)
    (f := fun w => arctan ((z + w) / r))
    (f' := fun w => 1 / (1 + ((z + w) / r) ^ 2) * (1 / r)) (C := 1.0171) (x := w₂) (y := w₁)
    (fun x _ => (hasDerivAt_outer z r x).hasDerivWithinAt)
    (fun x hx => by
      rw [Real.norm_eq_abs]; exact outer_deriv_le hr hp (abs_le.2 ⟨hx.1, hx.2⟩))
    (convex_Icc _ _) (abs_le.1 h₂) (abs_le.1 h₁)
  simpa only [Real.norm_eq_abs] using h

/-! ### `atan2` for `r > 0` and `r = 0` -/

theorem arg_eq_arctan {r : ℝ} (hr : 0 < r) (u : ℝ) : Complex.arg ⟨r, u⟩ = arctan (u / r) := by
  have hb : |Complex.arg ⟨r, u⟩| < π / 2 := Complex.abs_arg_lt_pi_div_two_iff.2 (Or.inl hr)
  have ht := Complex.tan_arg ⟨r, u⟩
  simp only at ht
  rw [← ht, Real.arctan_tan (abs_lt.1 hb).1 (abs_lt.1 hb).2]

theorem arg_zero_pos {u : ℝ} (hu : 0 < u) : Complex.arg ⟨0, u⟩ = π / 2 :=
  Complex.arg_eq_pi_div_two_iff.2 ⟨rfl, hu⟩

theorem arg_zero_neg {u : ℝ} (hu : u < 0) : Complex.arg ⟨0, u⟩ = -(π / 2) :=
  Complex.arg_eq_neg_pi_div_two_iff.2 ⟨rfl, hu⟩

/-- on the polar axis (`r = 0`, `z² ≥ 0.99²`) `atan2(z + w, 0) = atan2(z, 0) = ±π/2` for every `|w| ≤ γ` -/
theorem arg_pole {z w : ℝ} (hp : 0.99 ^ 2 ≤ z ^ 2) (hw : |w| ≤ 0.00672) :
    Complex.arg ⟨0, z + w⟩ = Complex.arg ⟨0, z⟩ ∧
      (Complex.arg ⟨0, z⟩ = π / 2 ∨ Complex.arg ⟨0, z⟩ = -(π / 2)) := by
  have hw' := abs_le.1 hw
  rcases le_or_gt 0 z with hz | hz
  · have h1 : 0.99 ≤ z := by nlinarith
    rw [arg_zero_pos (by linarith : 0 < z + w), arg_zero_pos (by linarith : 0 < z)]
    exact ⟨rfl, Or.inl rfl⟩
  · have h1 : z ≤ -0.99 := by nlinarith
    rw [arg_zero_neg (by linarith : z + w < 0), arg_zero_neg hz]
    exact ⟨rfl, Or.inr rfl⟩

/-! ### the contraction -/

/-- the loop body is a contraction with factor 7/1000, everywhere on or outside the sphere of radius 0.99 -/
theorem Tmap_lipschitz {e : ℝ} (he : EccOK e) {z r : ℝ} (hr : 0 ≤ r) (hp : 0.99 ^ 2 ≤ r ^ 2 + z ^ 2)
    (φ₁ φ₂ : ℝ) : |Tmap e z r φ₁ - Tmap e z r φ₂| ≤ 7 / 1000 * |φ₁ - φ₂| := by
  unfold Tmap
  rcases hr.eq_or_lt with h0 | hpos
  · subst h0
    have hz : (0.99 : ℝ) ^ 2 ≤ z ^ 2 := by nlinarith
    rw [(arg_pole hz (gfun_abs_le he φ₁)).1, (arg_pole hz (gfun_abs_le he φ₂)).1, sub_self, abs_zero]
    positivity
  · rw [arg_eq_arctan hpos, arg_eq_arctan hpos]
    have h1 := outer_lipschitz hpos hp (gfun_abs_le he φ₁) (gfun_abs_le he φ₂)
    have h2 := gfun_lipschitz he φ₁ φ₂
    have h3 := abs_nonneg (φ₁ - φ₂)
    nlinarith

/-- the first pass moves the geocentric latitude `atan2(z, r)` by at most 7/1000 rad -/
theorem Tmap_first_step {e : ℝ} (he : EccOK e) {z r : ℝ} (hr : 0 ≤ r) (hp : 0.99 ^ 2 ≤ r ^ 2 + z ^ 2)
    (φ : ℝ) : |Tmap e z r φ - Complex.arg ⟨r, z⟩| ≤ 7 / 1000 := by
  unfold Tmap
  rcases hr.eq_or_lt with h0 | hpos
  · subst h0
    have hz : (0.99 : ℝ) ^ 2 ≤ z ^ 2 := by nlinarith
    rw [(arg_pole hz (gfun_abs_le he φ)).1, sub_self, abs_zero]
    norm_num
  · rw [arg_eq_arctan hpos, arg_eq_arctan hpos]
    have h1 := outer_lipschitz hpos hp (gfun_abs_le he φ) (w₂ := 0) (by rw [abs_zero]; norm_num)
    rw [add_zero, sub_zero] at h1
    have h2 := gfun_abs_le he φ
    nlinarith

/-- every value of the body is in `[−π/2, π/2]` -/
theorem Tmap_range (e : ℝ) {z r : ℝ} (hr : 0 ≤ r) (φ : ℝ) : |Tmap e z r φ| ≤ π / 2 :=
  Complex.abs_arg_le_pi_div_two_iff.2 hr

end PV.C04C
