/-
  Helper lemmas for C07Bound (B): the geocentric direction of the point `subpoint q` returns is within
  0.2° of the geocentric direction of `q` (3-D assembly over PV/Lemmas/C07BoundCore.lean `cross_le_dot`).
-/
import PV.Lemmas.C07BoundCore
import PV.Lemmas.C14BoundGeod
import PV.Lemmas.C07View
import Mathlib.Analysis.SpecialFunctions.Trigonometric.Bounds

namespace PV.C07B
open PV PV.C14L PV.C04C PV.GeoB PV.C14B Real

/-- `sin 0.2° > 0.00349` -/
theorem sin_02deg : 0.00349 ≤ sin (0.2 * π / 180) := by
  have h1 := Real.pi_gt_d4
  have h2 := Real.pi_lt_d4
  have hx0 : 0 < 0.2 * π / 180 := by positivity
  have hx1 : 0.2 * π / 180 ≤ 1 := by linarith
  have h := Real.sin_gt_sub_cube hx0
  have hlo : 0.0034905 ≤ 0.2 * π / 180 := by linarith
  have hhi : 0.2 * π / 180 ≤ 0.0035 := by linarith
  have h3 : (0.2 * π / 180) ^ 3 ≤ 0.0035 ^ 3 := pow_le_pow_left₀ hx0.le hhi 3
  have h4 : (0.0035 : ℝ) ^ 3 / 6 ≤ 1.1e-8 := by norm_num
  linarith

/-- planar: if `|X| ≤ 0.00349 Y`, `Y > 0` and `X² + Y² = N` then `cos 0.2° · √N ≤ Y` -/
theorem cos_le_of_cross_le_dot {X Y N : ℝ} (hXY : |X| ≤ 0.00349 * Y) (hY : 0 < Y) (hN : X ^ 2 + Y ^ 2 = N) :
    cos (0.2 * π / 180) * √N ≤ Y := by
  have hs := sin_02deg
  have hcs := sin_sq_add_cos_sq (0.2 * π / 180)
  set c := cos (0.2 * π / 180)
  set s := sin (0.2 * π / 180)
  have hX2 : X ^ 2 ≤ (0.00349 * Y) ^ 2 := by
    rw [← sq_abs X]; exact pow_le_pow_left₀ (abs_nonneg _) hXY 2
  have hs2 : (0.00349 : ℝ) ^ 2 ≤ s ^ 2 := pow_le_pow_left₀ (by norm_num) hs 2
  have hc2 : c ^ 2 ≤ 1 := by nlinarith [sq_nonneg s]
  have hY2 : 0 ≤ Y ^ 2 := sq_nonneg Y
  have hX0 : 0 ≤ X ^ 2 := sq_nonneg X
  -- c² (X² + Y²) ≤ Y²  ⟸  c² X² ≤ s² Y²
  have h1 : c ^ 2 * X ^ 2 ≤ s ^ 2 * Y ^ 2 := by
    have ha : c ^ 2 * X ^ 2 ≤ 1 * X ^ 2 := mul_le_mul_of_nonneg_right hc2 hX0
    have hb : (0.00349 : ℝ) ^ 2 * Y ^ 2 ≤ s ^ 2 * Y ^ 2 := mul_le_mul_of_nonneg_right hs2 hY2
    nlinarith
  have h2 : c ^ 2 * N ≤ Y ^ 2 := by rw [← hN]; nlinarith
  have hN0 : 0 ≤ N := by rw [← hN]; positivity
  by_cases hc : 0 ≤ c
  · have : (c * √N) ^ 2 ≤ Y ^ 2 := by rw [mul_pow, Real.sq_sqrt hN0]; exact h2
    exact le_of_pow_le_pow_left₀ two_ne_zero hY.le this
  · have : c * √N ≤ 0 := mul_nonpos_of_nonpos_of_nonneg (not_le.1 hc).le (Real.sqrt_nonneg _)
    linarith

/-- (B) in 3-D: for `q` on or outside the default ellipsoid, the point `s = subpoint q` satisfies
    `cos 0.2° · |s| · |q| ≤ s · q` -/
theorem subpoint_direction (q s : V3 ℝ) (fuel : ℕ)
    (hq : 1 ≤ q.x ^ 2 / (Geoloc.A : ℝ) ^ 2 + q.y ^ 2 / (Geoloc.A : ℝ) ^ 2 + q.z ^ 2 / (Geoloc.B : ℝ) ^ 2)
    (hs : Geoloc.subpoint q Geoloc.A Geoloc.B fuel = some s) :
    cos (0.2 * π / 180) * (√(nsq s) * √(nsq q)) ≤ dotR s q := by
  have hA : (0 : ℝ) < Geoloc.A := by rw [A_val]; norm_num
  have he := eccOK_default
  obtain ⟨lat, n, hlat, hs'⟩ := subpoint_some hs
  rw [geodeticLat_real] at hlat
  obtain ⟨hx, hy⟩ := xy_polar0 q.x q.y
  set r := √(q.x ^ 2 + q.y ^ 2) with hrdef
  have hr : 0 ≤ r := Real.sqrt_nonneg _
  have hr2 : r ^ 2 = q.x ^ 2 + q.y ^ 2 := Real.sq_sqrt (by positivity)
  have hp : (0.99 * (Geoloc.A : ℝ)) ^ 2 ≤ r ^ 2 + q.z ^ 2 := by
    rw [hr2]
    rw [A_val, B_val] at *
    exact outside_ellipsoid (by norm_num) (by norm_num) (by norm_num) (by norm_num) hq
  -- the returned latitude is within 1.2e-7 of the fixed point
  obtain ⟨φs, hfix, -⟩ := geodStep_fixpoint_unique hA he hr hp
  have hclose := geodLoop_exit_close hA he hr hp (Complex.abs_arg_le_pi_div_two_iff.2 hr) hlat hfix
  rw [geodStep_eq_Tmap hA] at hfix
  -- on or outside, normalised
  have hout : 1 - ecc2ab (Geoloc.A : ℝ) Geoloc.B
      ≤ (1 - ecc2ab (Geoloc.A : ℝ) Geoloc.B) * (r / Geoloc.A) ^ 2 + (q.z / Geoloc.A) ^ 2 := by
    have hB : (0 : ℝ) < Geoloc.B := default_axes'.1
    have h1e : 1 - ecc2ab (Geoloc.A : ℝ) Geoloc.B = (Geoloc.B : ℝ) ^ 2 / (Geoloc.A : ℝ) ^ 2 := by
      unfold ecc2ab; field_simp; ring
    rw [h1e, div_pow, div_pow, hr2]
    have h := mul_le_mul_of_nonneg_left hq (by positivity : (0 : ℝ) ≤ (Geoloc.B : ℝ) ^ 2 / (Geoloc.A : ℝ) ^ 2)
    have e1 : (Geoloc.B : ℝ) ^ 2 / (Geoloc.A : ℝ) ^ 2 * (q.x ^ 2 / (Geoloc.A : ℝ) ^ 2 + q.y ^ 2 / (Geoloc.A : ℝ) ^ 2
        + q.z ^ 2 / (Geoloc.B : ℝ) ^ 2)
        = (Geoloc.B : ℝ) ^ 2 / (Geoloc.A : ℝ) ^ 2 * ((q.x ^ 2 + q.y ^ 2) / (Geoloc.A : ℝ) ^ 2)
          + q.z ^ 2 / (Geoloc.A : ℝ) ^ 2 := by
      field_simp
    rw [e1, mul_one] at h
    exact h
  obtain ⟨hXY, hY⟩ := cross_le_dot he hout hfix hclose
  -- 3-D quantities
  have hcl := sin_sq_add_cos_sq (Complex.arg ⟨q.x, q.y⟩)
  have hsv : s = ⟨Geoloc.A * Srf (ecc2ab (Geoloc.A : ℝ) Geoloc.B) lat * cos (Complex.arg ⟨q.x, q.y⟩),
      Geoloc.A * Srf (ecc2ab (Geoloc.A : ℝ) Geoloc.B) lat * sin (Complex.arg ⟨q.x, q.y⟩),
      Geoloc.A * Szf (ecc2ab (Geoloc.A : ℝ) Geoloc.B) lat⟩ := by
    rw [hs', ellipsoidPoint_real]
    unfold Srf Szf cfun
    rw [← Wden_eq_Wd]
    unfold ecc2ab
    apply V3.ext' <;> simp only [] <;> ring
  set e := ecc2ab (Geoloc.A : ℝ) Geoloc.B
  set a := (Geoloc.A : ℝ)
  set lon := Complex.arg ⟨q.x, q.y⟩
  have hdot : dotR s q = a ^ 2 * Yfun e (q.z / a) (r / a) lat := by
    rw [hsv]; unfold dotR Yfun; simp only
    have e1 : a * Srf e lat * cos lon * q.x + a * Srf e lat * sin lon * q.y = a * Srf e lat * r := by
      rw [hx, hy]
      linear_combination (a * Srf e lat * r) * hcl
    rw [e1]; field_simp
  have hns : nsq s = a ^ 2 * (Srf e lat ^ 2 + Szf e lat ^ 2) := by
    rw [hsv]; unfold nsq; simp only
    linear_combination (a ^ 2 * Srf e lat ^ 2) * hcl
  have hnq : nsq q = r ^ 2 + q.z ^ 2 := by unfold nsq; rw [hr2]
  have hlag : (a ^ 2 * Xfun e (q.z / a) (r / a) lat) ^ 2 + (a ^ 2 * Yfun e (q.z / a) (r / a) lat) ^ 2
      = nsq s * nsq q := by
    rw [hns, hnq]; unfold Xfun Yfun
    field_simp
    ring
  have ha2 : 0 < a ^ 2 := by positivity
  have hXY' : |a ^ 2 * Xfun e (q.z / a) (r / a) lat| ≤ 0.00349 * (a ^ 2 * Yfun e (q.z / a) (r / a) lat) := by
    rw [abs_mul, abs_of_pos ha2]
    have := mul_le_mul_of_nonneg_left hXY ha2.le
    linarith
  have hfin := cos_le_of_cross_le_dot hXY' (mul_pos ha2 hY) hlag
  rw [Real.sqrt_mul (by unfold nsq; positivity)] at hfin
  rw [hdot]; exact hfin

end PV.C07B
