/-
  Assembly for C02: well-formedness facts, the values a well-formed record denotes, one lemma per
  row of the column table, the epoch rule.  Core Lean only.  (Hand-maintained.)
-/
import PV.Lemmas.C02Conv
import PV.Lemmas.C02Slice
set_option linter.unusedSimpArgs false
set_option linter.unusedVariables false
namespace PV.C02
open PV.Text PV.TleParse PV.Spec.TleLayout PV.Gen

/-- FIRST obligation (fails first when a slice of the source is changed): every row of the table extracted
    from the source has the published column range of its attribute. -/
theorem table_rows_standard :
    ∀ c ∈ tleColumns, ∃ e ∈ layout, e.attr = c.attr ∧ e.line = c.line ∧ c.start + 1 = e.first ∧ c.stop = e.last := by
  decide

/-- the conjuncts of `wf f`, named -/
structure WFacts (f : Fields) : Prop where
  satnum_len : (f.satnum.length == 5) = true
  ly_len : (f.launchYear.length == 2) = true
  ln_len : (f.launchNumber.length == 3) = true
  lp_len : (f.launchPiece.length == 3) = true
  ey : (digitsN 2 f.epochYear) = true
  edi : (padNum 3 f.epochDayInt) = true
  edf : (digitsN 8 f.epochDayFrac) = true
  day_lo : (decide (1 ≤ padVal f.epochDayInt)) = true
  day_hi : (decide (padVal f.epochDayInt ≤ 366)) = true
  ndot_s : (isSign f.ndotSign) = true
  ndot_f : (digitsN 8 f.ndotFrac) = true
  ndd_s : (isSign f.nddotSign) = true
  ndd_m : (digitsN 5 f.nddotMant) = true
  ndd_es : (isExpSign f.nddotExpSign) = true
  ndd_e : (isAsciiDigit f.nddotExp) = true
  bs_s : (isSign f.bstarSign) = true
  bs_m : (digitsN 5 f.bstarMant) = true
  bs_es : (isExpSign f.bstarExpSign) = true
  bs_e : (isAsciiDigit f.bstarExp) = true
  eph : ((f.ephemeris == ' ' || isAsciiDigit f.ephemeris)) = true
  elnum : (padNum 4 f.elnum) = true
  incl_i : (padNum 3 f.inclInt) = true
  incl_f : (digitsN 4 f.inclFrac) = true
  raan_i : (padNum 3 f.raanInt) = true
  raan_f : (digitsN 4 f.raanFrac) = true
  ecc : (digitsN 7 f.ecc) = true
  argp_i : (padNum 3 f.argpInt) = true
  argp_f : (digitsN 4 f.argpFrac) = true
  manom_i : (padNum 3 f.manomInt) = true
  manom_f : (digitsN 4 f.manomFrac) = true
  mm_i : (padNum 2 f.mmInt) = true
  mm_f : (digitsN 8 f.mmFrac) = true
  rev : (padNum 5 f.rev) = true

theorem wfacts {f : Fields} (h : WellFormed f) : WFacts f := by
  unfold WellFormed wf at h
  simp only [Bool.and_eq_true] at h
  obtain ⟨⟨⟨⟨⟨⟨⟨⟨⟨⟨⟨⟨⟨⟨⟨⟨⟨⟨⟨⟨⟨⟨⟨⟨⟨⟨⟨⟨⟨⟨⟨⟨h_satnum_len, h_ly_len⟩, h_ln_len⟩, h_lp_len⟩, h_ey⟩, h_edi⟩, h_edf⟩, h_day_lo⟩, h_day_hi⟩, h_ndot_s⟩, h_ndot_f⟩, h_ndd_s⟩, h_ndd_m⟩, h_ndd_es⟩, h_ndd_e⟩, h_bs_s⟩, h_bs_m⟩, h_bs_es⟩, h_bs_e⟩, h_eph⟩, h_elnum⟩, h_incl_i⟩, h_incl_f⟩, h_raan_i⟩, h_raan_f⟩, h_ecc⟩, h_argp_i⟩, h_argp_f⟩, h_manom_i⟩, h_manom_f⟩, h_mm_i⟩, h_mm_f⟩, h_rev⟩ := h
  exact ⟨h_satnum_len, h_ly_len, h_ln_len, h_lp_len, h_ey, h_edi, h_edf, h_day_lo, h_day_hi, h_ndot_s, h_ndot_f, h_ndd_s, h_ndd_m, h_ndd_es, h_ndd_e, h_bs_s, h_bs_m, h_bs_es, h_bs_e, h_eph, h_elnum, h_incl_i, h_incl_f, h_raan_i, h_raan_f, h_ecc, h_argp_i, h_argp_f, h_manom_i, h_manom_f, h_mm_i, h_mm_f, h_rev⟩

theorem wf_of_facts {f : Fields} (w : WFacts f) : WellFormed f := by
  unfold WellFormed wf
  simp only [Bool.and_eq_true]
  exact ⟨⟨⟨⟨⟨⟨⟨⟨⟨⟨⟨⟨⟨⟨⟨⟨⟨⟨⟨⟨⟨⟨⟨⟨⟨⟨⟨⟨⟨⟨⟨⟨w.satnum_len, w.ly_len⟩, w.ln_len⟩, w.lp_len⟩, w.ey⟩, w.edi⟩, w.edf⟩, w.day_lo⟩, w.day_hi⟩, w.ndot_s⟩, w.ndot_f⟩, w.ndd_s⟩, w.ndd_m⟩, w.ndd_es⟩, w.ndd_e⟩, w.bs_s⟩, w.bs_m⟩, w.bs_es⟩, w.bs_e⟩, w.eph⟩, w.elnum⟩, w.incl_i⟩, w.incl_f⟩, w.raan_i⟩, w.raan_f⟩, w.ecc⟩, w.argp_i⟩, w.argp_f⟩, w.manom_i⟩, w.manom_f⟩, w.mm_i⟩, w.mm_f⟩, w.rev⟩

theorem digitsN_len {n : Nat} {s : List Char} (h : digitsN n s = true) : s.length = n := by
  unfold digitsN at h; simp only [Bool.and_eq_true, beq_iff_eq] at h; exact h.1
theorem digitsN_all {n : Nat} {s : List Char} (h : digitsN n s = true) : s.all isAsciiDigit = true := by
  unfold digitsN at h; simp only [Bool.and_eq_true] at h; exact h.2
theorem digitsN_ne {n : Nat} {s : List Char} (h : digitsN (n + 1) s = true) : s.isEmpty = false := by
  have := digitsN_len h
  cases s with
  | nil => simp at this
  | cons _ _ => rfl
theorem padNum_len {n : Nat} {s : List Char} (h : padNum n s = true) : s.length = n := by
  unfold padNum at h; simp only [Bool.and_eq_true, beq_iff_eq] at h; exact h.1.1
theorem padNum_ne {n : Nat} {s : List Char} (h : padNum n s = true) : (unpad s).isEmpty = false := by
  unfold padNum at h; simp only [Bool.and_eq_true, Bool.not_eq_true'] at h; exact h.1.2
theorem padNum_all {n : Nat} {s : List Char} (h : padNum n s = true) : (unpad s).all isAsciiDigit = true := by
  unfold padNum at h; simp only [Bool.and_eq_true] at h; exact h.2

theorem unpad_digits {s : List Char} (h : s.all isAsciiDigit = true) : unpad s = s := by
  cases s with
  | nil => rfl
  | cons c r =>
    simp only [List.all_cons, Bool.and_eq_true] at h
    have : c ≠ ' ' := digit_ne h.1 _ (by decide)
    simp [unpad, List.dropWhile_cons, this]

namespace WFacts
theorem l_satnum {f : Fields} (w : WFacts f) : f.satnum.length = 5 := by simpa using w.satnum_len
theorem l_ly {f : Fields} (w : WFacts f) : f.launchYear.length = 2 := by simpa using w.ly_len
theorem l_ln {f : Fields} (w : WFacts f) : f.launchNumber.length = 3 := by simpa using w.ln_len
theorem l_lp {f : Fields} (w : WFacts f) : f.launchPiece.length = 3 := by simpa using w.lp_len
theorem l_ey {f : Fields} (w : WFacts f) : f.epochYear.length = 2 := digitsN_len w.ey
theorem l_edi {f : Fields} (w : WFacts f) : f.epochDayInt.length = 3 := padNum_len w.edi
theorem l_edf {f : Fields} (w : WFacts f) : f.epochDayFrac.length = 8 := digitsN_len w.edf
theorem l_ndot {f : Fields} (w : WFacts f) : f.ndotFrac.length = 8 := digitsN_len w.ndot_f
theorem l_ndd {f : Fields} (w : WFacts f) : f.nddotMant.length = 5 := digitsN_len w.ndd_m
theorem l_bs {f : Fields} (w : WFacts f) : f.bstarMant.length = 5 := digitsN_len w.bs_m
theorem l_elnum {f : Fields} (w : WFacts f) : f.elnum.length = 4 := padNum_len w.elnum
theorem l_incl_i {f : Fields} (w : WFacts f) : f.inclInt.length = 3 := padNum_len w.incl_i
theorem l_incl_f {f : Fields} (w : WFacts f) : f.inclFrac.length = 4 := digitsN_len w.incl_f
theorem l_raan_i {f : Fields} (w : WFacts f) : f.raanInt.length = 3 := padNum_len w.raan_i
theorem l_raan_f {f : Fields} (w : WFacts f) : f.raanFrac.length = 4 := digitsN_len w.raan_f
theorem l_ecc {f : Fields} (w : WFacts f) : f.ecc.length = 7 := digitsN_len w.ecc
theorem l_argp_i {f : Fields} (w : WFacts f) : f.argpInt.length = 3 := padNum_len w.argp_i
theorem l_argp_f {f : Fields} (w : WFacts f) : f.argpFrac.length = 4 := digitsN_len w.argp_f
theorem l_manom_i {f : Fields} (w : WFacts f) : f.manomInt.length = 3 := padNum_len w.manom_i
theorem l_manom_f {f : Fields} (w : WFacts f) : f.manomFrac.length = 4 := digitsN_len w.manom_f
theorem l_mm_i {f : Fields} (w : WFacts f) : f.mmInt.length = 2 := padNum_len w.mm_i
theorem l_mm_f {f : Fields} (w : WFacts f) : f.mmFrac.length = 8 := digitsN_len w.mm_f
theorem l_rev {f : Fields} (w : WFacts f) : f.rev.length = 5 := padNum_len w.rev
end WFacts

/-! ### line lengths and slices of the encoded lines -/

theorem len_line1 {f : Fields} (w : WFacts f) : (encode f).1.length = 69 := by
  simp [encode, withCheck, concatCols, cols1, fixedCol, ndotCol, expoCol, w.l_satnum, w.l_ly, w.l_ln, w.l_lp, w.l_ey, w.l_edi, w.l_edf, w.l_ndot, w.l_ndd, w.l_bs, w.l_elnum, w.l_incl_i, w.l_incl_f, w.l_raan_i, w.l_raan_f, w.l_ecc, w.l_argp_i, w.l_argp_f, w.l_manom_i, w.l_manom_f, w.l_mm_i, w.l_mm_f, w.l_rev]

theorem len_line2 {f : Fields} (w : WFacts f) : (encode f).2.length = 69 := by
  simp [encode, withCheck, concatCols, cols2, fixedCol, ndotCol, expoCol, w.l_satnum, w.l_ly, w.l_ln, w.l_lp, w.l_ey, w.l_edi, w.l_edf, w.l_ndot, w.l_ndd, w.l_bs, w.l_elnum, w.l_incl_i, w.l_incl_f, w.l_raan_i, w.l_raan_f, w.l_ecc, w.l_argp_i, w.l_argp_f, w.l_manom_i, w.l_manom_f, w.l_mm_i, w.l_mm_f, w.l_rev]

theorem slice1 {f : Fields} (k : Nat) {a b : Nat} {col : List Char}
    (hk : (cols1 f)[k]? = some col) (ha : offset (cols1 f) k = a) (hb : a + col.length = b) :
    slice (encode f).1 a b = col := by
  unfold encode withCheck; exact slice_col k hk ha hb

theorem slice2 {f : Fields} (k : Nat) {a b : Nat} {col : List Char}
    (hk : (cols2 f)[k]? = some col) (ha : offset (cols2 f) k = a) (hb : a + col.length = b) :
    slice (encode f).2 a b = col := by
  unfold encode withCheck; exact slice_col k hk ha hb

/-! ### every column of the standard layout, sliced out of the encoded lines -/

theorem col_satnumber {f : Fields} (w : WFacts f) : slice (encode f).1 2 7 = f.satnum :=
  slice1 2 (by rfl) (by simp [offset, cols1, fixedCol, ndotCol, expoCol, w.l_satnum, w.l_ly, w.l_ln, w.l_lp, w.l_ey, w.l_edi, w.l_edf, w.l_ndot, w.l_ndd, w.l_bs, w.l_elnum, w.l_incl_i, w.l_incl_f, w.l_raan_i, w.l_raan_f, w.l_ecc, w.l_argp_i, w.l_argp_f, w.l_manom_i, w.l_manom_f, w.l_mm_i, w.l_mm_f, w.l_rev])
    (by simp [fixedCol, ndotCol, expoCol, w.l_satnum, w.l_ly, w.l_ln, w.l_lp, w.l_ey, w.l_edi, w.l_edf, w.l_ndot, w.l_ndd, w.l_bs, w.l_elnum, w.l_incl_i, w.l_incl_f, w.l_raan_i, w.l_raan_f, w.l_ecc, w.l_argp_i, w.l_argp_f, w.l_manom_i, w.l_manom_f, w.l_mm_i, w.l_mm_f, w.l_rev])

theorem col_classification {f : Fields} (w : WFacts f) : slice (encode f).1 7 8 = [f.classification] :=
  slice1 3 (by rfl) (by simp [offset, cols1, fixedCol, ndotCol, expoCol, w.l_satnum, w.l_ly, w.l_ln, w.l_lp, w.l_ey, w.l_edi, w.l_edf, w.l_ndot, w.l_ndd, w.l_bs, w.l_elnum, w.l_incl_i, w.l_incl_f, w.l_raan_i, w.l_raan_f, w.l_ecc, w.l_argp_i, w.l_argp_f, w.l_manom_i, w.l_manom_f, w.l_mm_i, w.l_mm_f, w.l_rev])
    (by simp [fixedCol, ndotCol, expoCol, w.l_satnum, w.l_ly, w.l_ln, w.l_lp, w.l_ey, w.l_edi, w.l_edf, w.l_ndot, w.l_ndd, w.l_bs, w.l_elnum, w.l_incl_i, w.l_incl_f, w.l_raan_i, w.l_raan_f, w.l_ecc, w.l_argp_i, w.l_argp_f, w.l_manom_i, w.l_manom_f, w.l_mm_i, w.l_mm_f, w.l_rev])

theorem col_id_launch_year {f : Fields} (w : WFacts f) : slice (encode f).1 9 11 = f.launchYear :=
  slice1 5 (by rfl) (by simp [offset, cols1, fixedCol, ndotCol, expoCol, w.l_satnum, w.l_ly, w.l_ln, w.l_lp, w.l_ey, w.l_edi, w.l_edf, w.l_ndot, w.l_ndd, w.l_bs, w.l_elnum, w.l_incl_i, w.l_incl_f, w.l_raan_i, w.l_raan_f, w.l_ecc, w.l_argp_i, w.l_argp_f, w.l_manom_i, w.l_manom_f, w.l_mm_i, w.l_mm_f, w.l_rev])
    (by simp [fixedCol, ndotCol, expoCol, w.l_satnum, w.l_ly, w.l_ln, w.l_lp, w.l_ey, w.l_edi, w.l_edf, w.l_ndot, w.l_ndd, w.l_bs, w.l_elnum, w.l_incl_i, w.l_incl_f, w.l_raan_i, w.l_raan_f, w.l_ecc, w.l_argp_i, w.l_argp_f, w.l_manom_i, w.l_manom_f, w.l_mm_i, w.l_mm_f, w.l_rev])

theorem col_id_launch_number {f : Fields} (w : WFacts f) : slice (encode f).1 11 14 = f.launchNumber :=
  slice1 6 (by rfl) (by simp [offset, cols1, fixedCol, ndotCol, expoCol, w.l_satnum, w.l_ly, w.l_ln, w.l_lp, w.l_ey, w.l_edi, w.l_edf, w.l_ndot, w.l_ndd, w.l_bs, w.l_elnum, w.l_incl_i, w.l_incl_f, w.l_raan_i, w.l_raan_f, w.l_ecc, w.l_argp_i, w.l_argp_f, w.l_manom_i, w.l_manom_f, w.l_mm_i, w.l_mm_f, w.l_rev])
    (by simp [fixedCol, ndotCol, expoCol, w.l_satnum, w.l_ly, w.l_ln, w.l_lp, w.l_ey, w.l_edi, w.l_edf, w.l_ndot, w.l_ndd, w.l_bs, w.l_elnum, w.l_incl_i, w.l_incl_f, w.l_raan_i, w.l_raan_f, w.l_ecc, w.l_argp_i, w.l_argp_f, w.l_manom_i, w.l_manom_f, w.l_mm_i, w.l_mm_f, w.l_rev])

theorem col_id_launch_piece {f : Fields} (w : WFacts f) : slice (encode f).1 14 17 = f.launchPiece :=
  slice1 7 (by rfl) (by simp [offset, cols1, fixedCol, ndotCol, expoCol, w.l_satnum, w.l_ly, w.l_ln, w.l_lp, w.l_ey, w.l_edi, w.l_edf, w.l_ndot, w.l_ndd, w.l_bs, w.l_elnum, w.l_incl_i, w.l_incl_f, w.l_raan_i, w.l_raan_f, w.l_ecc, w.l_argp_i, w.l_argp_f, w.l_manom_i, w.l_manom_f, w.l_mm_i, w.l_mm_f, w.l_rev])
    (by simp [fixedCol, ndotCol, expoCol, w.l_satnum, w.l_ly, w.l_ln, w.l_lp, w.l_ey, w.l_edi, w.l_edf, w.l_ndot, w.l_ndd, w.l_bs, w.l_elnum, w.l_incl_i, w.l_incl_f, w.l_raan_i, w.l_raan_f, w.l_ecc, w.l_argp_i, w.l_argp_f, w.l_manom_i, w.l_manom_f, w.l_mm_i, w.l_mm_f, w.l_rev])

theorem col_epoch_year {f : Fields} (w : WFacts f) : slice (encode f).1 18 20 = f.epochYear :=
  slice1 9 (by rfl) (by simp [offset, cols1, fixedCol, ndotCol, expoCol, w.l_satnum, w.l_ly, w.l_ln, w.l_lp, w.l_ey, w.l_edi, w.l_edf, w.l_ndot, w.l_ndd, w.l_bs, w.l_elnum, w.l_incl_i, w.l_incl_f, w.l_raan_i, w.l_raan_f, w.l_ecc, w.l_argp_i, w.l_argp_f, w.l_manom_i, w.l_manom_f, w.l_mm_i, w.l_mm_f, w.l_rev])
    (by simp [fixedCol, ndotCol, expoCol, w.l_satnum, w.l_ly, w.l_ln, w.l_lp, w.l_ey, w.l_edi, w.l_edf, w.l_ndot, w.l_ndd, w.l_bs, w.l_elnum, w.l_incl_i, w.l_incl_f, w.l_raan_i, w.l_raan_f, w.l_ecc, w.l_argp_i, w.l_argp_f, w.l_manom_i, w.l_manom_f, w.l_mm_i, w.l_mm_f, w.l_rev])

theorem col_epoch_day {f : Fields} (w : WFacts f) : slice (encode f).1 20 32 = fixedCol f.epochDayInt f.epochDayFrac :=
  slice1 10 (by rfl) (by simp [offset, cols1, fixedCol, ndotCol, expoCol, w.l_satnum, w.l_ly, w.l_ln, w.l_lp, w.l_ey, w.l_edi, w.l_edf, w.l_ndot, w.l_ndd, w.l_bs, w.l_elnum, w.l_incl_i, w.l_incl_f, w.l_raan_i, w.l_raan_f, w.l_ecc, w.l_argp_i, w.l_argp_f, w.l_manom_i, w.l_manom_f, w.l_mm_i, w.l_mm_f, w.l_rev])
    (by simp [fixedCol, ndotCol, expoCol, w.l_satnum, w.l_ly, w.l_ln, w.l_lp, w.l_ey, w.l_edi, w.l_edf, w.l_ndot, w.l_ndd, w.l_bs, w.l_elnum, w.l_incl_i, w.l_incl_f, w.l_raan_i, w.l_raan_f, w.l_ecc, w.l_argp_i, w.l_argp_f, w.l_manom_i, w.l_manom_f, w.l_mm_i, w.l_mm_f, w.l_rev])

theorem col_mean_motion_derivative {f : Fields} (w : WFacts f) : slice (encode f).1 33 43 = ndotCol f :=
  slice1 12 (by rfl) (by simp [offset, cols1, fixedCol, ndotCol, expoCol, w.l_satnum, w.l_ly, w.l_ln, w.l_lp, w.l_ey, w.l_edi, w.l_edf, w.l_ndot, w.l_ndd, w.l_bs, w.l_elnum, w.l_incl_i, w.l_incl_f, w.l_raan_i, w.l_raan_f, w.l_ecc, w.l_argp_i, w.l_argp_f, w.l_manom_i, w.l_manom_f, w.l_mm_i, w.l_mm_f, w.l_rev])
    (by simp [fixedCol, ndotCol, expoCol, w.l_satnum, w.l_ly, w.l_ln, w.l_lp, w.l_ey, w.l_edi, w.l_edf, w.l_ndot, w.l_ndd, w.l_bs, w.l_elnum, w.l_incl_i, w.l_incl_f, w.l_raan_i, w.l_raan_f, w.l_ecc, w.l_argp_i, w.l_argp_f, w.l_manom_i, w.l_manom_f, w.l_mm_i, w.l_mm_f, w.l_rev])

theorem col_mean_motion_sec_derivative {f : Fields} (w : WFacts f) : slice (encode f).1 44 52 = expoCol f.nddotSign f.nddotMant f.nddotExpSign f.nddotExp :=
  slice1 14 (by rfl) (by simp [offset, cols1, fixedCol, ndotCol, expoCol, w.l_satnum, w.l_ly, w.l_ln, w.l_lp, w.l_ey, w.l_edi, w.l_edf, w.l_ndot, w.l_ndd, w.l_bs, w.l_elnum, w.l_incl_i, w.l_incl_f, w.l_raan_i, w.l_raan_f, w.l_ecc, w.l_argp_i, w.l_argp_f, w.l_manom_i, w.l_manom_f, w.l_mm_i, w.l_mm_f, w.l_rev])
    (by simp [fixedCol, ndotCol, expoCol, w.l_satnum, w.l_ly, w.l_ln, w.l_lp, w.l_ey, w.l_edi, w.l_edf, w.l_ndot, w.l_ndd, w.l_bs, w.l_elnum, w.l_incl_i, w.l_incl_f, w.l_raan_i, w.l_raan_f, w.l_ecc, w.l_argp_i, w.l_argp_f, w.l_manom_i, w.l_manom_f, w.l_mm_i, w.l_mm_f, w.l_rev])

theorem col_bstar {f : Fields} (w : WFacts f) : slice (encode f).1 53 61 = expoCol f.bstarSign f.bstarMant f.bstarExpSign f.bstarExp :=
  slice1 16 (by rfl) (by simp [offset, cols1, fixedCol, ndotCol, expoCol, w.l_satnum, w.l_ly, w.l_ln, w.l_lp, w.l_ey, w.l_edi, w.l_edf, w.l_ndot, w.l_ndd, w.l_bs, w.l_elnum, w.l_incl_i, w.l_incl_f, w.l_raan_i, w.l_raan_f, w.l_ecc, w.l_argp_i, w.l_argp_f, w.l_manom_i, w.l_manom_f, w.l_mm_i, w.l_mm_f, w.l_rev])
    (by simp [fixedCol, ndotCol, expoCol, w.l_satnum, w.l_ly, w.l_ln, w.l_lp, w.l_ey, w.l_edi, w.l_edf, w.l_ndot, w.l_ndd, w.l_bs, w.l_elnum, w.l_incl_i, w.l_incl_f, w.l_raan_i, w.l_raan_f, w.l_ecc, w.l_argp_i, w.l_argp_f, w.l_manom_i, w.l_manom_f, w.l_mm_i, w.l_mm_f, w.l_rev])

theorem col_ephemeris_type {f : Fields} (w : WFacts f) : slice (encode f).1 62 63 = [f.ephemeris] :=
  slice1 18 (by rfl) (by simp [offset, cols1, fixedCol, ndotCol, expoCol, w.l_satnum, w.l_ly, w.l_ln, w.l_lp, w.l_ey, w.l_edi, w.l_edf, w.l_ndot, w.l_ndd, w.l_bs, w.l_elnum, w.l_incl_i, w.l_incl_f, w.l_raan_i, w.l_raan_f, w.l_ecc, w.l_argp_i, w.l_argp_f, w.l_manom_i, w.l_manom_f, w.l_mm_i, w.l_mm_f, w.l_rev])
    (by simp [fixedCol, ndotCol, expoCol, w.l_satnum, w.l_ly, w.l_ln, w.l_lp, w.l_ey, w.l_edi, w.l_edf, w.l_ndot, w.l_ndd, w.l_bs, w.l_elnum, w.l_incl_i, w.l_incl_f, w.l_raan_i, w.l_raan_f, w.l_ecc, w.l_argp_i, w.l_argp_f, w.l_manom_i, w.l_manom_f, w.l_mm_i, w.l_mm_f, w.l_rev])

theorem col_element_number {f : Fields} (w : WFacts f) : slice (encode f).1 64 68 = f.elnum :=
  slice1 20 (by rfl) (by simp [offset, cols1, fixedCol, ndotCol, expoCol, w.l_satnum, w.l_ly, w.l_ln, w.l_lp, w.l_ey, w.l_edi, w.l_edf, w.l_ndot, w.l_ndd, w.l_bs, w.l_elnum, w.l_incl_i, w.l_incl_f, w.l_raan_i, w.l_raan_f, w.l_ecc, w.l_argp_i, w.l_argp_f, w.l_manom_i, w.l_manom_f, w.l_mm_i, w.l_mm_f, w.l_rev])
    (by simp [fixedCol, ndotCol, expoCol, w.l_satnum, w.l_ly, w.l_ln, w.l_lp, w.l_ey, w.l_edi, w.l_edf, w.l_ndot, w.l_ndd, w.l_bs, w.l_elnum, w.l_incl_i, w.l_incl_f, w.l_raan_i, w.l_raan_f, w.l_ecc, w.l_argp_i, w.l_argp_f, w.l_manom_i, w.l_manom_f, w.l_mm_i, w.l_mm_f, w.l_rev])

theorem col_inclination {f : Fields} (w : WFacts f) : slice (encode f).2 8 16 = fixedCol f.inclInt f.inclFrac :=
  slice2 4 (by rfl) (by simp [offset, cols2, fixedCol, ndotCol, expoCol, w.l_satnum, w.l_ly, w.l_ln, w.l_lp, w.l_ey, w.l_edi, w.l_edf, w.l_ndot, w.l_ndd, w.l_bs, w.l_elnum, w.l_incl_i, w.l_incl_f, w.l_raan_i, w.l_raan_f, w.l_ecc, w.l_argp_i, w.l_argp_f, w.l_manom_i, w.l_manom_f, w.l_mm_i, w.l_mm_f, w.l_rev])
    (by simp [fixedCol, ndotCol, expoCol, w.l_satnum, w.l_ly, w.l_ln, w.l_lp, w.l_ey, w.l_edi, w.l_edf, w.l_ndot, w.l_ndd, w.l_bs, w.l_elnum, w.l_incl_i, w.l_incl_f, w.l_raan_i, w.l_raan_f, w.l_ecc, w.l_argp_i, w.l_argp_f, w.l_manom_i, w.l_manom_f, w.l_mm_i, w.l_mm_f, w.l_rev])

theorem col_right_ascension {f : Fields} (w : WFacts f) : slice (encode f).2 17 25 = fixedCol f.raanInt f.raanFrac :=
  slice2 6 (by rfl) (by simp [offset, cols2, fixedCol, ndotCol, expoCol, w.l_satnum, w.l_ly, w.l_ln, w.l_lp, w.l_ey, w.l_edi, w.l_edf, w.l_ndot, w.l_ndd, w.l_bs, w.l_elnum, w.l_incl_i, w.l_incl_f, w.l_raan_i, w.l_raan_f, w.l_ecc, w.l_argp_i, w.l_argp_f, w.l_manom_i, w.l_manom_f, w.l_mm_i, w.l_mm_f, w.l_rev])
    (by simp [fixedCol, ndotCol, expoCol, w.l_satnum, w.l_ly, w.l_ln, w.l_lp, w.l_ey, w.l_edi, w.l_edf, w.l_ndot, w.l_ndd, w.l_bs, w.l_elnum, w.l_incl_i, w.l_incl_f, w.l_raan_i, w.l_raan_f, w.l_ecc, w.l_argp_i, w.l_argp_f, w.l_manom_i, w.l_manom_f, w.l_mm_i, w.l_mm_f, w.l_rev])

theorem col_excentricity {f : Fields} (w : WFacts f) : slice (encode f).2 26 33 = f.ecc :=
  slice2 8 (by rfl) (by simp [offset, cols2, fixedCol, ndotCol, expoCol, w.l_satnum, w.l_ly, w.l_ln, w.l_lp, w.l_ey, w.l_edi, w.l_edf, w.l_ndot, w.l_ndd, w.l_bs, w.l_elnum, w.l_incl_i, w.l_incl_f, w.l_raan_i, w.l_raan_f, w.l_ecc, w.l_argp_i, w.l_argp_f, w.l_manom_i, w.l_manom_f, w.l_mm_i, w.l_mm_f, w.l_rev])
    (by simp [fixedCol, ndotCol, expoCol, w.l_satnum, w.l_ly, w.l_ln, w.l_lp, w.l_ey, w.l_edi, w.l_edf, w.l_ndot, w.l_ndd, w.l_bs, w.l_elnum, w.l_incl_i, w.l_incl_f, w.l_raan_i, w.l_raan_f, w.l_ecc, w.l_argp_i, w.l_argp_f, w.l_manom_i, w.l_manom_f, w.l_mm_i, w.l_mm_f, w.l_rev])

theorem col_arg_perigee {f : Fields} (w : WFacts f) : slice (encode f).2 34 42 = fixedCol f.argpInt f.argpFrac :=
  slice2 10 (by rfl) (by simp [offset, cols2, fixedCol, ndotCol, expoCol, w.l_satnum, w.l_ly, w.l_ln, w.l_lp, w.l_ey, w.l_edi, w.l_edf, w.l_ndot, w.l_ndd, w.l_bs, w.l_elnum, w.l_incl_i, w.l_incl_f, w.l_raan_i, w.l_raan_f, w.l_ecc, w.l_argp_i, w.l_argp_f, w.l_manom_i, w.l_manom_f, w.l_mm_i, w.l_mm_f, w.l_rev])
    (by simp [fixedCol, ndotCol, expoCol, w.l_satnum, w.l_ly, w.l_ln, w.l_lp, w.l_ey, w.l_edi, w.l_edf, w.l_ndot, w.l_ndd, w.l_bs, w.l_elnum, w.l_incl_i, w.l_incl_f, w.l_raan_i, w.l_raan_f, w.l_ecc, w.l_argp_i, w.l_argp_f, w.l_manom_i, w.l_manom_f, w.l_mm_i, w.l_mm_f, w.l_rev])

theorem col_mean_anomaly {f : Fields} (w : WFacts f) : slice (encode f).2 43 51 = fixedCol f.manomInt f.manomFrac :=
  slice2 12 (by rfl) (by simp [offset, cols2, fixedCol, ndotCol, expoCol, w.l_satnum, w.l_ly, w.l_ln, w.l_lp, w.l_ey, w.l_edi, w.l_edf, w.l_ndot, w.l_ndd, w.l_bs, w.l_elnum, w.l_incl_i, w.l_incl_f, w.l_raan_i, w.l_raan_f, w.l_ecc, w.l_argp_i, w.l_argp_f, w.l_manom_i, w.l_manom_f, w.l_mm_i, w.l_mm_f, w.l_rev])
    (by simp [fixedCol, ndotCol, expoCol, w.l_satnum, w.l_ly, w.l_ln, w.l_lp, w.l_ey, w.l_edi, w.l_edf, w.l_ndot, w.l_ndd, w.l_bs, w.l_elnum, w.l_incl_i, w.l_incl_f, w.l_raan_i, w.l_raan_f, w.l_ecc, w.l_argp_i, w.l_argp_f, w.l_manom_i, w.l_manom_f, w.l_mm_i, w.l_mm_f, w.l_rev])

theorem col_mean_motion {f : Fields} (w : WFacts f) : slice (encode f).2 52 63 = fixedCol f.mmInt f.mmFrac :=
  slice2 14 (by rfl) (by simp [offset, cols2, fixedCol, ndotCol, expoCol, w.l_satnum, w.l_ly, w.l_ln, w.l_lp, w.l_ey, w.l_edi, w.l_edf, w.l_ndot, w.l_ndd, w.l_bs, w.l_elnum, w.l_incl_i, w.l_incl_f, w.l_raan_i, w.l_raan_f, w.l_ecc, w.l_argp_i, w.l_argp_f, w.l_manom_i, w.l_manom_f, w.l_mm_i, w.l_mm_f, w.l_rev])
    (by simp [fixedCol, ndotCol, expoCol, w.l_satnum, w.l_ly, w.l_ln, w.l_lp, w.l_ey, w.l_edi, w.l_edf, w.l_ndot, w.l_ndd, w.l_bs, w.l_elnum, w.l_incl_i, w.l_incl_f, w.l_raan_i, w.l_raan_f, w.l_ecc, w.l_argp_i, w.l_argp_f, w.l_manom_i, w.l_manom_f, w.l_mm_i, w.l_mm_f, w.l_rev])

theorem col_orbit {f : Fields} (w : WFacts f) : slice (encode f).2 63 68 = f.rev :=
  slice2 15 (by rfl) (by simp [offset, cols2, fixedCol, ndotCol, expoCol, w.l_satnum, w.l_ly, w.l_ln, w.l_lp, w.l_ey, w.l_edi, w.l_edf, w.l_ndot, w.l_ndd, w.l_bs, w.l_elnum, w.l_incl_i, w.l_incl_f, w.l_raan_i, w.l_raan_f, w.l_ecc, w.l_argp_i, w.l_argp_f, w.l_manom_i, w.l_manom_f, w.l_mm_i, w.l_mm_f, w.l_rev])
    (by simp [fixedCol, ndotCol, expoCol, w.l_satnum, w.l_ly, w.l_ln, w.l_lp, w.l_ey, w.l_edi, w.l_edf, w.l_ndot, w.l_ndd, w.l_bs, w.l_elnum, w.l_incl_i, w.l_incl_f, w.l_raan_i, w.l_raan_f, w.l_ecc, w.l_argp_i, w.l_argp_f, w.l_manom_i, w.l_manom_f, w.l_mm_i, w.l_mm_f, w.l_rev])

/-! ### the values a well-formed record denotes -/

/-- the epoch as the parser's `%y` rule gives it for every two-digit year (00–68 ↦ 20yy, 69–99 ↦ 19yy) -/
def pivotEpochUs (f : Fields) : Int :=
  yearStartUs (if (yy f : Int) ≤ 68 then 2000 + (yy f : Int) else 1900 + (yy f : Int)) + ((doyE8 f : Int) - 100000000) * 864

/-- each attribute = the value printed in its column -/
def valuesOf (f : Fields) : Tle where
  satnumber := f.satnum
  classification := [f.classification]
  id_launch_year := f.launchYear
  id_launch_number := f.launchNumber
  id_launch_piece := f.launchPiece
  epoch_year := f.epochYear
  epoch_day := fixedVal f.epochDayInt f.epochDayFrac 8
  mean_motion_derivative := ndotVal f
  mean_motion_sec_derivative := expoVal f.nddotSign f.nddotMant f.nddotExpSign f.nddotExp
  bstar := expoVal f.bstarSign f.bstarMant f.bstarExpSign f.bstarExp
  ephemeris_type := ephemerisVal f
  element_number := (padVal f.elnum : Int)
  inclination := fixedVal f.inclInt f.inclFrac 4
  right_ascension := fixedVal f.raanInt f.raanFrac 4
  excentricity := eccVal f
  arg_perigee := fixedVal f.argpInt f.argpFrac 4
  mean_anomaly := fixedVal f.manomInt f.manomFrac 4
  mean_motion := fixedVal f.mmInt f.mmFrac 8
  orbit := (padVal f.rev : Int)
  epochUs := pivotEpochUs f

/-- decidable equality of parser results (for the `decide` non-vacuity examples) -/
instance instDecEqResult : DecidableEq (Except Err Tle) := fun a b =>
  match a, b with
  | .ok x, .ok y => if h : x = y then isTrue (by rw [h]) else isFalse (by intro e; cases e; exact h rfl)
  | .error x, .error y => if h : x = y then isTrue (by rw [h]) else isFalse (by intro e; cases e; exact h rfl)
  | .ok _, .error _ => isFalse (by intro e; cases e)
  | .error _, .ok _ => isFalse (by intro e; cases e)

/-! ### conversions of the columns -/

theorem conv_fixed {n k : Nat} {ip fr : List Char} (hi : padNum n ip = true) (hf : digitsN (k + 1) fr = true) :
    convert .float (fixedCol ip fr) = .ok (.dec (fixedVal ip fr (k + 1))) := by
  unfold convert
  rw [pyFloat_fixedCol (padNum_ne hi) (padNum_all hi) (digitsN_all hf) (digitsN_ne hf), digitsN_len hf]
  rfl

theorem conv_ndot {f : Fields} (w : WFacts f) : convert .float (ndotCol f) = .ok (.dec (ndotVal f)) := by
  unfold convert ndotCol
  rw [pyFloat_signedFrac w.ndot_s (digitsN_all w.ndot_f) (digitsN_ne w.ndot_f), w.l_ndot]
  rfl

theorem conv_expo {sg es e : Char} {mant : List Char} (hsg : isSign sg = true) (hm : digitsN 5 mant = true)
    (hes : isExpSign es = true) (he : isAsciiDigit e = true) :
    convert .expo (expoCol sg mant es e) = .ok (.dec (expoVal sg mant es e)) := by
  unfold convert
  rw [readTleDecimal_expoCol hsg (digitsN_all hm) (digitsN_ne hm) hes he, digitsN_len hm]
  rfl

theorem conv_int {n : Nat} {s : List Char} (h : padNum n s = true) :
    convert .int s = .ok (.int (padVal s : Int)) := by
  unfold convert
  have := pyInt_padded (s := s) (padNum_ne h) (padNum_all h)
  rw [this]; rfl

theorem conv_ecc {f : Fields} (w : WFacts f) : convert .intE7 f.ecc = .ok (.dec (eccVal f)) := by
  unfold convert
  have hd := digitsN_all w.ecc
  have hu := unpad_digits hd
  have hne : (List.dropWhile (· == ' ') f.ecc).isEmpty = false := by
    have : unpad f.ecc = List.dropWhile (· == ' ') f.ecc := rfl
    rw [← this, hu]; exact digitsN_ne w.ecc
  have hall : (List.dropWhile (· == ' ') f.ecc).all isAsciiDigit = true := by
    have : unpad f.ecc = List.dropWhile (· == ' ') f.ecc := rfl
    rw [← this, hu]; exact hd
  have h := pyInt_padded (s := f.ecc) hne hall
  have : List.dropWhile (· == ' ') f.ecc = f.ecc := hu
  rw [this] at h
  rw [h]; rfl

theorem conv_ephemeris {f : Fields} (w : WFacts f) :
    convert .intOr0 [f.ephemeris] = .ok (.int (ephemerisVal f)) := by
  have h := w.eph
  simp only [Bool.or_eq_true, beq_iff_eq] at h
  unfold convert ephemerisVal
  rcases h with h | h
  · rw [h]; rfl
  · have hne : f.ephemeris ≠ ' ' := digit_ne h _ (by decide)
    have hp := pyInt_padded (s := [f.ephemeris]) (by simp [List.dropWhile_cons, hne]) (by simp [List.dropWhile_cons, hne, h])
    have hd : List.dropWhile (· == ' ') [f.ephemeris] = [f.ephemeris] := by simp [List.dropWhile_cons, hne]
    rw [hd] at hp
    rw [hp, if_neg hne]
    simp [natOfDigits]

/-! ### the epoch -/

theorem doyE8_le {f : Fields} (w : WFacts f) : doyE8 f ≤ 36699999999 := by
  unfold doyE8
  rw [natOfDigits_append, w.l_edf]
  have h1 := natOfDigits_lt (digitsN_all w.edf)
  rw [w.l_edf] at h1
  have h2 : padVal f.epochDayInt ≤ 366 := of_decide_eq_true w.day_hi
  unfold padVal at h2
  omega

theorem doyE8_ge {f : Fields} (w : WFacts f) : 100000000 ≤ doyE8 f := by
  unfold doyE8
  rw [natOfDigits_append, w.l_edf]
  have h2 : 1 ≤ padVal f.epochDayInt := of_decide_eq_true w.day_lo
  unfold padVal at h2
  omega

theorem yy_lt {f : Fields} (w : WFacts f) : yy f < 100 := by
  unfold yy
  have := natOfDigits_lt (digitsN_all w.ey)
  rw [w.l_ey] at this
  exact this

theorem epochOf_wf {f : Fields} (w : WFacts f) :
    epochOf f.epochYear (fixedVal f.epochDayInt f.epochDayFrac 8) = .ok (pivotEpochUs f) := by
  unfold epochOf
  have hd := digitsN_all w.ey
  have hb : f.epochYear.any (fun c => decide (c.toNat ≥ 128)) = false := by
    rw [List.any_eq_false]; intro c hc
    have := digit_range (all_digits_mem hd c hc)
    simp; omega
  have hle := doyE8_le w
  have hday : dayE8 (fixedVal f.epochDayInt f.epochDayFrac 8) = some (doyE8 f : Int) := by
    unfold dayE8 fixedVal
    have hd8 : natOfDigits (unpad f.epochDayInt ++ f.epochDayFrac) = doyE8 f := rfl
    simp only [hd8]
    have h1 : ¬ ((-((8 : Nat) : Int)) > 4 ∨ (-((8 : Nat) : Int)) < -24) := by omega
    have h2 : (-((8 : Nat) : Int)) ≥ -8 := by omega
    have h3 : ((-((8 : Nat) : Int)) + 8).toNat = 0 := by decide
    rw [if_neg h1, if_pos h2, h3, Int.pow_zero, Int.mul_one]
    simp only []
    rw [if_pos (by omega)]
  simp only [hb, w.l_ey, hd, hday, Bool.false_eq_true, ↓reduceIte, and_self]
  rfl

/-- the model's 1 January (days-from-civil algorithm) is the Fliegel–Van Flandern one -/
theorem yearStart_eq_jan1 (y : Int) (h1 : 1900 ≤ y) (h2 : y ≤ 2100) : yearStartUs y = jan1Us y := by
  unfold yearStartUs jan1Us PV.Time.usOfCivil PV.Time.daysFromCivil PV.Time.jdnFVF
  simp +zetaDelta only []
  omega

/-! ### every row of the generated table, evaluated on the encoded lines -/

theorem row_satnumber {f : Fields} (w : WFacts f) :
    rowValue ⟨"satnumber", 1, 2, 7, .str⟩ (encode f).1 (encode f).2 = .ok (.str (f.satnum)) := by
  simp only [rowValue, len_line1 w, len_line2 w, col_satnumber w, Nat.reduceAdd, Nat.reduceEqDiff, Nat.reduceLeDiff,
    or_true, true_or, or_false, false_or, and_false, false_and, and_true, true_and, ↓reduceIte]
  rfl

theorem row_classification {f : Fields} (w : WFacts f) :
    rowValue ⟨"classification", 1, 7, 8, .str⟩ (encode f).1 (encode f).2 = .ok (.str ([f.classification])) := by
  simp only [rowValue, len_line1 w, len_line2 w, col_classification w, Nat.reduceAdd, Nat.reduceEqDiff, Nat.reduceLeDiff,
    or_true, true_or, or_false, false_or, and_false, false_and, and_true, true_and, ↓reduceIte]
  rfl

theorem row_id_launch_year {f : Fields} (w : WFacts f) :
    rowValue ⟨"id_launch_year", 1, 9, 11, .str⟩ (encode f).1 (encode f).2 = .ok (.str (f.launchYear)) := by
  simp only [rowValue, len_line1 w, len_line2 w, col_id_launch_year w, Nat.reduceAdd, Nat.reduceEqDiff, Nat.reduceLeDiff,
    or_true, true_or, or_false, false_or, and_false, false_and, and_true, true_and, ↓reduceIte]
  rfl

theorem row_id_launch_number {f : Fields} (w : WFacts f) :
    rowValue ⟨"id_launch_number", 1, 11, 14, .str⟩ (encode f).1 (encode f).2 = .ok (.str (f.launchNumber)) := by
  simp only [rowValue, len_line1 w, len_line2 w, col_id_launch_number w, Nat.reduceAdd, Nat.reduceEqDiff, Nat.reduceLeDiff,
    or_true, true_or, or_false, false_or, and_false, false_and, and_true, true_and, ↓reduceIte]
  rfl

theorem row_id_launch_piece {f : Fields} (w : WFacts f) :
    rowValue ⟨"id_launch_piece", 1, 14, 17, .str⟩ (encode f).1 (encode f).2 = .ok (.str (f.launchPiece)) := by
  simp only [rowValue, len_line1 w, len_line2 w, col_id_launch_piece w, Nat.reduceAdd, Nat.reduceEqDiff, Nat.reduceLeDiff,
    or_true, true_or, or_false, false_or, and_false, false_and, and_true, true_and, ↓reduceIte]
  rfl

theorem row_epoch_year {f : Fields} (w : WFacts f) :
    rowValue ⟨"epoch_year", 1, 18, 20, .str⟩ (encode f).1 (encode f).2 = .ok (.str (f.epochYear)) := by
  simp only [rowValue, len_line1 w, len_line2 w, col_epoch_year w, Nat.reduceAdd, Nat.reduceEqDiff, Nat.reduceLeDiff,
    or_true, true_or, or_false, false_or, and_false, false_and, and_true, true_and, ↓reduceIte]
  rfl

theorem row_epoch_day {f : Fields} (w : WFacts f) :
    rowValue ⟨"epoch_day", 1, 20, 32, .float⟩ (encode f).1 (encode f).2 = .ok (.dec (fixedVal f.epochDayInt f.epochDayFrac 8)) := by
  simp only [rowValue, len_line1 w, len_line2 w, col_epoch_day w, Nat.reduceAdd, Nat.reduceEqDiff, Nat.reduceLeDiff,
    or_true, true_or, or_false, false_or, and_false, false_and, and_true, true_and, ↓reduceIte]
  exact conv_fixed w.edi w.edf

theorem row_mean_motion_derivative {f : Fields} (w : WFacts f) :
    rowValue ⟨"mean_motion_derivative", 1, 33, 43, .float⟩ (encode f).1 (encode f).2 = .ok (.dec (ndotVal f)) := by
  simp only [rowValue, len_line1 w, len_line2 w, col_mean_motion_derivative w, Nat.reduceAdd, Nat.reduceEqDiff, Nat.reduceLeDiff,
    or_true, true_or, or_false, false_or, and_false, false_and, and_true, true_and, ↓reduceIte]
  exact conv_ndot w

theorem row_mean_motion_sec_derivative {f : Fields} (w : WFacts f) :
    rowValue ⟨"mean_motion_sec_derivative", 1, 44, 52, .expo⟩ (encode f).1 (encode f).2 = .ok (.dec (expoVal f.nddotSign f.nddotMant f.nddotExpSign f.nddotExp)) := by
  simp only [rowValue, len_line1 w, len_line2 w, col_mean_motion_sec_derivative w, Nat.reduceAdd, Nat.reduceEqDiff, Nat.reduceLeDiff,
    or_true, true_or, or_false, false_or, and_false, false_and, and_true, true_and, ↓reduceIte]
  exact conv_expo w.ndd_s w.ndd_m w.ndd_es w.ndd_e

theorem row_bstar {f : Fields} (w : WFacts f) :
    rowValue ⟨"bstar", 1, 53, 61, .expo⟩ (encode f).1 (encode f).2 = .ok (.dec (expoVal f.bstarSign f.bstarMant f.bstarExpSign f.bstarExp)) := by
  simp only [rowValue, len_line1 w, len_line2 w, col_bstar w, Nat.reduceAdd, Nat.reduceEqDiff, Nat.reduceLeDiff,
    or_true, true_or, or_false, false_or, and_false, false_and, and_true, true_and, ↓reduceIte]
  exact conv_expo w.bs_s w.bs_m w.bs_es w.bs_e

theorem row_ephemeris_type {f : Fields} (w : WFacts f) :
    rowValue ⟨"ephemeris_type", 1, 62, 63, .intOr0⟩ (encode f).1 (encode f).2 = .ok (.int (ephemerisVal f)) := by
  simp only [rowValue, len_line1 w, len_line2 w, col_ephemeris_type w, Nat.reduceAdd, Nat.reduceEqDiff, Nat.reduceLeDiff,
    or_true, true_or, or_false, false_or, and_false, false_and, and_true, true_and, ↓reduceIte]
  exact conv_ephemeris w

theorem row_element_number {f : Fields} (w : WFacts f) :
    rowValue ⟨"element_number", 1, 64, 68, .int⟩ (encode f).1 (encode f).2 = .ok (.int (padVal f.elnum : Int)) := by
  simp only [rowValue, len_line1 w, len_line2 w, col_element_number w, Nat.reduceAdd, Nat.reduceEqDiff, Nat.reduceLeDiff,
    or_true, true_or, or_false, false_or, and_false, false_and, and_true, true_and, ↓reduceIte]
  exact conv_int w.elnum

theorem row_inclination {f : Fields} (w : WFacts f) :
    rowValue ⟨"inclination", 2, 8, 16, .float⟩ (encode f).1 (encode f).2 = .ok (.dec (fixedVal f.inclInt f.inclFrac 4)) := by
  simp only [rowValue, len_line1 w, len_line2 w, col_inclination w, Nat.reduceAdd, Nat.reduceEqDiff, Nat.reduceLeDiff,
    or_true, true_or, or_false, false_or, and_false, false_and, and_true, true_and, ↓reduceIte]
  exact conv_fixed w.incl_i w.incl_f

theorem row_right_ascension {f : Fields} (w : WFacts f) :
    rowValue ⟨"right_ascension", 2, 17, 25, .float⟩ (encode f).1 (encode f).2 = .ok (.dec (fixedVal f.raanInt f.raanFrac 4)) := by
  simp only [rowValue, len_line1 w, len_line2 w, col_right_ascension w, Nat.reduceAdd, Nat.reduceEqDiff, Nat.reduceLeDiff,
    or_true, true_or, or_false, false_or, and_false, false_and, and_true, true_and, ↓reduceIte]
  exact conv_fixed w.raan_i w.raan_f

theorem row_excentricity {f : Fields} (w : WFacts f) :
    rowValue ⟨"excentricity", 2, 26, 33, .intE7⟩ (encode f).1 (encode f).2 = .ok (.dec (eccVal f)) := by
  simp only [rowValue, len_line1 w, len_line2 w, col_excentricity w, Nat.reduceAdd, Nat.reduceEqDiff, Nat.reduceLeDiff,
    or_true, true_or, or_false, false_or, and_false, false_and, and_true, true_and, ↓reduceIte]
  exact conv_ecc w

theorem row_arg_perigee {f : Fields} (w : WFacts f) :
    rowValue ⟨"arg_perigee", 2, 34, 42, .float⟩ (encode f).1 (encode f).2 = .ok (.dec (fixedVal f.argpInt f.argpFrac 4)) := by
  simp only [rowValue, len_line1 w, len_line2 w, col_arg_perigee w, Nat.reduceAdd, Nat.reduceEqDiff, Nat.reduceLeDiff,
    or_true, true_or, or_false, false_or, and_false, false_and, and_true, true_and, ↓reduceIte]
  exact conv_fixed w.argp_i w.argp_f

theorem row_mean_anomaly {f : Fields} (w : WFacts f) :
    rowValue ⟨"mean_anomaly", 2, 43, 51, .float⟩ (encode f).1 (encode f).2 = .ok (.dec (fixedVal f.manomInt f.manomFrac 4)) := by
  simp only [rowValue, len_line1 w, len_line2 w, col_mean_anomaly w, Nat.reduceAdd, Nat.reduceEqDiff, Nat.reduceLeDiff,
    or_true, true_or, or_false, false_or, and_false, false_and, and_true, true_and, ↓reduceIte]
  exact conv_fixed w.manom_i w.manom_f

theorem row_mean_motion {f : Fields} (w : WFacts f) :
    rowValue ⟨"mean_motion", 2, 52, 63, .float⟩ (encode f).1 (encode f).2 = .ok (.dec (fixedVal f.mmInt f.mmFrac 8)) := by
  simp only [rowValue, len_line1 w, len_line2 w, col_mean_motion w, Nat.reduceAdd, Nat.reduceEqDiff, Nat.reduceLeDiff,
    or_true, true_or, or_false, false_or, and_false, false_and, and_true, true_and, ↓reduceIte]
  exact conv_fixed w.mm_i w.mm_f

theorem row_orbit {f : Fields} (w : WFacts f) :
    rowValue ⟨"orbit", 2, 63, 68, .int⟩ (encode f).1 (encode f).2 = .ok (.int (padVal f.rev : Int)) := by
  simp only [rowValue, len_line1 w, len_line2 w, col_orbit w, Nat.reduceAdd, Nat.reduceEqDiff, Nat.reduceLeDiff,
    or_true, true_or, or_false, false_or, and_false, false_and, and_true, true_and, ↓reduceIte]
  exact conv_int w.rev

/-- the interpreter on the generated table, on the encoding of a well-formed record -/
theorem parse_encode_facts {f : Fields} (w : WFacts f) :
    parse tleColumns (encode f).1 (encode f).2 = .ok (valuesOf f) := by
  unfold parse tleColumns
  simp only [runRows, step, row_satnumber w, row_classification w, row_id_launch_year w, row_id_launch_number w, row_id_launch_piece w, row_epoch_year w, row_epoch_day w, row_mean_motion_derivative w, row_mean_motion_sec_derivative w, row_bstar w, row_ephemeris_type w, row_element_number w, row_inclination w, row_right_ascension w, row_excentricity w, row_arg_perigee w, row_mean_anomaly w, row_mean_motion w, row_orbit w, epochOf_wf w, lookup, String.reduceEq, ↓reduceIte]
  rfl

end PV.C02
