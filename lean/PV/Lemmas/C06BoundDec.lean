/-
  PV.Lemmas.C06BoundDec — inputs of the C06 propagation (radian forms of the proved series bounds,
  range of both obliquities, sin ε ≤ 0.4, cos ε ≥ 0.9165) and the declination bound
  (arcsin is 1.0911-Lipschitz on [−0.4, 0.4], mean value theorem).
-/
import PV.NumReal
import PV.Model.Astro
import PV.Spec.Almanac
import PV.Lemmas.C06Trig
import PV.Lemmas.C06Almanac
import Mathlib.Analysis.Calculus.MeanValue
import Mathlib.Analysis.SpecialFunctions.Trigonometric.InverseDeriv
namespace PV.C06B
open PV PV.Astro PV.C06L

/-! ### inputs in radians -/

/-- |λ_code − λ_AA| ≤ 0.012° in radians -/
theorem dlam_rad (d : ℝ) (hd : |d| ≤ 18263) :
    |sunEclipticLongitude d - Num.deg2rad (Almanac.eclLonDeg d)| ≤ 0.012 * (Real.pi / 180) := by
  have h := eclLon_close_deg d hd
  rw [sunEclipticLongitude_real, r_deg2rad, ← sub_mul, abs_mul,
    abs_of_pos (by positivity : (0:ℝ) < Real.pi / 180)]
  exact mul_le_mul_of_nonneg_right h (by positivity)

/-- |ε_code − ε_AA| ≤ 0.0011° in radians -/
theorem deps_rad (d : ℝ) (hd : |d| ≤ 18263) :
    |obliquity d - Num.deg2rad (Almanac.obliquityDeg d)| ≤ 0.0011 * (Real.pi / 180) := by
  have h := obliquity_close_deg d hd
  rw [obliquity_real, r_deg2rad, ← sub_mul, abs_mul,
    abs_of_pos (by positivity : (0:ℝ) < Real.pi / 180)]
  exact mul_le_mul_of_nonneg_right h (by positivity)

/-- the Almanac obliquity stays in [23.43°, 23.45°] on the range -/
theorem almanac_obliquity_range (d : ℝ) (hd : |d| ≤ 18263) :
    23.43 ≤ Almanac.obliquityDeg d ∧ Almanac.obliquityDeg d ≤ 23.45 := by
  rw [almanac_obliquity_real]
  obtain ⟨d1, d2⟩ := abs_le.mp hd
  constructor <;> linarith

/-- an angle of 23.43°…23.45° lies in [0.4089, 0.4093] rad -/
theorem obl_rad_range (e : ℝ) (h1 : 23.43 ≤ e) (h2 : e ≤ 23.45) :
    0.4089 ≤ e * (Real.pi / 180) ∧ e * (Real.pi / 180) ≤ 0.4093 := by
  have hp1 := Real.pi_gt_d4
  have hp2 := Real.pi_lt_d4
  constructor <;> nlinarith

theorem sin_04093 : Real.sin 0.4093 ≤ 0.39799 := by
  have h := Real.sin_bound (x := 0.4093) (by rw [abs_le]; constructor <;> norm_num)
  rw [abs_of_pos (by norm_num : (0:ℝ) < 0.4093)] at h
  have := (abs_le.mp h).2
  have e : (0.4093:ℝ) - 0.4093 ^ 3 / 6 + 0.4093 ^ 5 / 100 ≤ 0.39799 := by norm_num
  linarith

/-- for x ∈ [0.4089, 0.4093] rad : 0 < sin x ≤ 0.4 and cos x ≥ 0.9165 -/
theorem sincos_obl (x : ℝ) (h1 : 0.4089 ≤ x) (h2 : x ≤ 0.4093) :
    0 < Real.sin x ∧ Real.sin x ≤ 0.4 ∧ 0.9165 ≤ Real.cos x ∧ Real.cos x ≤ 1 := by
  have hpi := Real.pi_gt_d2
  have hs0 : 0 < Real.sin x := Real.sin_pos_of_pos_of_lt_pi (by linarith) (by linarith)
  have hs1 : Real.sin x ≤ Real.sin 0.4093 :=
    Real.sin_le_sin_of_le_of_le_pi_div_two (by linarith) (by linarith) h2
  have hs : Real.sin x ≤ 0.4 := by linarith [sin_04093]
  have hc0 : 0 < Real.cos x := Real.cos_pos_of_mem_Ioo ⟨by linarith, by linarith⟩
  have hsq := Real.sin_sq_add_cos_sq x
  refine ⟨hs0, hs, ?_, Real.cos_le_one x⟩
  by_contra hlt
  rw [not_le] at hlt
  nlinarith

/-- the code's obliquity in radians lies in [0.4089, 0.4093] -/
theorem epsC_range (d : ℝ) (hd : |d| ≤ 18263) : 0.4089 ≤ obliquity d ∧ obliquity d ≤ 0.4093 := by
  obtain ⟨h1, h2⟩ := obliquityDeg_range d hd
  rw [obliquity_real]
  exact obl_rad_range _ h1 h2

/-- the Almanac obliquity in radians lies in [0.4089, 0.4093] -/
theorem epsA_range (d : ℝ) (hd : |d| ≤ 18263) :
    0.4089 ≤ Num.deg2rad (Almanac.obliquityDeg d) ∧
      Num.deg2rad (Almanac.obliquityDeg d) ≤ 0.4093 := by
  obtain ⟨h1, h2⟩ := almanac_obliquity_range d hd
  rw [r_deg2rad]
  exact obl_rad_range _ h1 h2

/-! ### arcsin is Lipschitz away from ±1 -/

theorem inv_sqrt_bound (x : ℝ) (h1 : -0.4 ≤ x) (h2 : x ≤ 0.4) :
    ‖1 / Real.sqrt (1 - x ^ 2)‖ ≤ 1.0911 := by
  have hx2 : x ^ 2 ≤ 0.16 := by nlinarith
  have hs : (0.91651:ℝ) ≤ Real.sqrt (1 - x ^ 2) := by
    apply Real.le_sqrt_of_sq_le
    nlinarith
  have hpos : 0 < Real.sqrt (1 - x ^ 2) := by linarith
  rw [Real.norm_eq_abs, abs_of_pos (by positivity), div_le_iff₀ hpos]
  nlinarith

/-- |arcsin a − arcsin b| ≤ 1.0911·|a − b| for a, b ∈ [−0.4, 0.4]
    (1/√(1 − 0.4²) = 1.09109…) -/
theorem arcsin_lip (a b : ℝ) (ha : |a| ≤ 0.4) (hb : |b| ≤ 0.4) :
    |Real.arcsin a - Real.arcsin b| ≤ 1.0911 * |a - b| := by
  obtain ⟨a1, a2⟩ := abs_le.mp ha
  obtain ⟨b1, b2⟩ := abs_le.mp hb
  have key := Convex.norm_image_sub_le_of_norm_hasDerivWithin_le (f := Real.arcsin)
    (f' := fun x => 1 / Real.sqrt (1 - x ^ 2)) (s := Set.Icc (-0.4 : ℝ) 0.4) (C := 1.0911)
    (fun x hx => (Real.hasDerivAt_arcsin (by linarith [hx.1]) (by linarith [hx.2])).hasDerivWithinAt)
    (fun x hx => inv_sqrt_bound x hx.1 hx.2) (convex_Icc _ _)
    (show b ∈ Set.Icc (-0.4 : ℝ) 0.4 from ⟨b1, b2⟩) (show a ∈ Set.Icc (-0.4 : ℝ) 0.4 from ⟨a1, a2⟩)
  simpa [Real.norm_eq_abs] using key

/-! ### declination -/

/-- the code's declination is arcsin(sin ε sin λ) (no guard needed) -/
theorem sunDec_eq (d : ℝ) :
    (sunRaDec d).2 = Real.arcsin (Real.sin (obliquity d) * Real.sin (sunEclipticLongitude d)) := by
  rw [sunRaDec_real]
  simp only
  have hz : |Real.sin (obliquity d) * Real.sin (sunEclipticLongitude d)| ≤ 1 := by
    have := abs_mul_le' (Real.abs_sin_le_one (obliquity d))
      (Real.abs_sin_le_one (sunEclipticLongitude d))
    linarith
  have := arg_sqrt_one_sub_sq _ hz
  rw [sq] at this
  exact this

/-- the Almanac RA/Dec read over ℝ -/
theorem almanac_raDec_real (d : ℝ) :
    Almanac.raDec d =
      (Complex.arg ⟨Real.cos (Num.deg2rad (Almanac.eclLonDeg d)),
          Real.cos (Num.deg2rad (Almanac.obliquityDeg d))
            * Real.sin (Num.deg2rad (Almanac.eclLonDeg d))⟩,
       Real.arcsin (Real.sin (Num.deg2rad (Almanac.obliquityDeg d))
            * Real.sin (Num.deg2rad (Almanac.eclLonDeg d)))) := rfl

/-- abstract core: |arcsin(sin ε₁ sin λ₁) − arcsin(sin ε₂ sin λ₂)| ≤ 1.0911 (|Δε| + 0.4 |Δλ|) -/
theorem dec_core (e1 e2 l1 l2 : ℝ) (h1 : 0 < Real.sin e1 ∧ Real.sin e1 ≤ 0.4)
    (h2 : 0 < Real.sin e2 ∧ Real.sin e2 ≤ 0.4) :
    |Real.arcsin (Real.sin e1 * Real.sin l1) - Real.arcsin (Real.sin e2 * Real.sin l2)|
      ≤ 1.0911 * (|e1 - e2| + 0.4 * |l1 - l2|) := by
  have hb : ∀ e l : ℝ, 0 < Real.sin e ∧ Real.sin e ≤ 0.4 → |Real.sin e * Real.sin l| ≤ 0.4 := by
    intro e l h
    have := abs_mul_le' (show |Real.sin e| ≤ 0.4 by rw [abs_of_pos h.1]; exact h.2)
      (Real.abs_sin_le_one l)
    linarith
  refine le_trans (arcsin_lip _ _ (hb e1 l1 h1) (hb e2 l2 h2)) ?_
  apply mul_le_mul_of_nonneg_left _ (by norm_num)
  have e : Real.sin e1 * Real.sin l1 - Real.sin e2 * Real.sin l2
      = (Real.sin e1 - Real.sin e2) * Real.sin l1 + Real.sin e2 * (Real.sin l1 - Real.sin l2) := by
    ring
  rw [e]
  refine le_trans (abs_add_le _ _) ?_
  have t1 := abs_mul_le' (Real.abs_sin_sub_sin_le e1 e2) (Real.abs_sin_le_one l1)
  have t2 := abs_mul_le' (show |Real.sin e2| ≤ 0.4 by rw [abs_of_pos h2.1]; exact h2.2)
    (Real.abs_sin_sub_sin_le l1 l2)
  linarith

/-- declination: code vs Almanac, in radians -/
theorem dec_close_rad (d : ℝ) (hd : |d| ≤ 18263) :
    |(sunRaDec d).2 - (Almanac.raDec d).2| ≤ 0.0065 * (Real.pi / 180) := by
  rw [sunDec_eq, almanac_raDec_real]
  simp only
  obtain ⟨c1, c2⟩ := epsC_range d hd
  obtain ⟨a1, a2⟩ := epsA_range d hd
  obtain ⟨s1, s2, -, -⟩ := sincos_obl _ c1 c2
  obtain ⟨s3, s4, -, -⟩ := sincos_obl _ a1 a2
  refine le_trans (dec_core _ _ _ _ ⟨s1, s2⟩ ⟨s3, s4⟩) ?_
  have hl := dlam_rad d hd
  have he := deps_rad d hd
  have hpos := Real.pi_pos
  nlinarith

end PV.C06B
