/-
  PV.Lemmas.C12Cal — integer calendar lemmas for C12 (core Lean only).

  `daysFromCivilC` is Hinnant's `days_from_civil` with the C semantics of `/` (truncation,
  `Int.tdiv`) in the era computation — the algorithm numpy's datetime64 runs.  It equals the
  Fliegel–Van Flandern Julian day number (floor division) minus 2440588 for EVERY year.
  The model's `Time.daysFromCivil` writes the era division with Lean's `/` on `Int` (floor
  division); the two agree whenever the March-based year is ≥ 0, i.e. for every civil year ≥ 1
  (and for year 0 from March on).
-/
import PV.Model.Time
namespace PV.C12L
open PV.Time

/-- Hinnant's `days_from_civil` with C's truncating division in the era step -/
def daysFromCivilC (y : Int) (m d : Nat) : Int :=
  let y' : Int := if m ≤ 2 then y - 1 else y
  let era : Int := Int.tdiv (if y' ≥ 0 then y' else y' - 399) 400
  let yoe : Int := y' - era * 400
  let mp : Int := ((m : Int) + 9) % 12
  let doy : Int := (153 * mp + 2) / 5 + (d : Int) - 1
  let doe : Int := yoe * 365 + yoe / 4 - yoe / 100 + doy
  era * 146097 + doe - 719468

theorem month_cases (m : Nat) (hm1 : 1 ≤ m) (hm2 : m ≤ 12) :
    m = 1 ∨ m = 2 ∨ m = 3 ∨ m = 4 ∨ m = 5 ∨ m = 6 ∨ m = 7 ∨ m = 8 ∨ m = 9 ∨ m = 10 ∨ m = 11 ∨
      m = 12 := by omega

/-- the C era `trunc((y ≥ 0 ? y : y − 399) / 400)` is the floor of `y / 400` -/
theorem era_trunc_eq_floor (y : Int) :
    Int.tdiv (if y ≥ 0 then y else y - 399) 400 = y / 400 := by
  split
  · rename_i h; exact Int.tdiv_eq_ediv_of_nonneg h
  · rename_i h
    have h1 : y - 399 = -(399 - y) := by omega
    rw [h1, Int.neg_tdiv, Int.tdiv_eq_ediv_of_nonneg (by omega)]
    omega

/-- Hinnant (C semantics) = Fliegel–Van Flandern − 2440588 for every proleptic-Gregorian date -/
theorem daysC_eq_jdn (y : Int) (m d : Nat) (hm1 : 1 ≤ m) (hm2 : m ≤ 12) :
    daysFromCivilC y m d + 2440588 = jdnFVF y m d := by
  unfold daysFromCivilC jdnFVF
  simp only [era_trunc_eq_floor]
  rcases month_cases m hm1 hm2 with h|h|h|h|h|h|h|h|h|h|h|h <;> subst h <;>
    simp only [Nat.reduceLeDiff, ↓reduceIte] <;> omega

/-- the model's day count agrees with the C algorithm when the March-based year is ≥ 0 -/
theorem daysFromCivil_eq_C (y : Int) (m d : Nat) (hy : 0 ≤ (if m ≤ 2 then y - 1 else y)) :
    daysFromCivil y m d = daysFromCivilC y m d := by
  unfold daysFromCivil daysFromCivilC
  simp only [ge_iff_le, hy, ↓reduceIte]
  try simp only [Int.tdiv_eq_ediv_of_nonneg hy]

/-- model day count = Fliegel–Van Flandern − 2440588 (March-based year ≥ 0) -/
theorem days_eq_jdn' (y : Int) (m d : Nat) (hm1 : 1 ≤ m) (hm2 : m ≤ 12)
    (hy : 0 ≤ (if m ≤ 2 then y - 1 else y)) :
    daysFromCivil y m d + 2440588 = jdnFVF y m d := by
  rw [daysFromCivil_eq_C y m d hy]; exact daysC_eq_jdn y m d hm1 hm2

theorem days_eq_jdn (y : Int) (m d : Nat) (hm1 : 1 ≤ m) (hm2 : m ≤ 12) (hy : 1 ≤ y) :
    daysFromCivil y m d + 2440588 = jdnFVF y m d :=
  days_eq_jdn' y m d hm1 hm2 (by split <;> omega)

end PV.C12L
