/-
  Helper lemmas for C07: `ScanGeometry.vectors` (`Geoloc.viewVector`) over ℝ.
-/
import PV.Lemmas.C14
import PV.Lemmas.C14Geod
namespace PV.C07L
open PV PV.C14L

/-- cross product in plain notation -/
def crossR (a b : V3 ℝ) : V3 ℝ := ⟨a.y * b.z - a.z * b.y, a.z * b.x - a.x * b.z, a.x * b.y - a.y * b.x⟩

theorem cross_real (a b : V3 ℝ) : V3.cross a b = crossR a b := by
  simp only [V3.cross, crossR, r_sub, r_mul]

/-- the body of `vectors` after the subpoint `nd` has been computed; `φ = fovs[0] + roll`, `ψ = fovs[1] + pitch` -/
noncomputable def viewOf (nd vel : V3 ℝ) (φ ψ yaw : ℝ) : V3 ℝ :=
  Geoloc.qrotate (Geoloc.qrotate (Geoloc.qrotate (unitR nd) (unitR vel) φ) (unitR (crossR (unitR nd) vel)) ψ)
    (unitR nd) yaw

theorem viewVector_eq (pos vel : V3 ℝ) (fx fy roll pitch yaw : ℝ) :
    Geoloc.viewVector pos vel fx fy roll pitch yaw =
      (Geoloc.subpoint (V3.neg pos) Geoloc.A Geoloc.B).map (fun nd => viewOf nd vel (fx + roll) (fy + pitch) yaw) := by
  unfold Geoloc.viewVector
  cases Geoloc.subpoint (V3.neg pos) (Geoloc.A : ℝ) Geoloc.B with
  | none => rfl
  | some nd =>
    simp only [Option.map_some, viewOf, cross_real, r_add]
    have hu : ∀ k : V3 ℝ, (⟨k.x / V3.norm k, k.y / V3.norm k, k.z / V3.norm k⟩ : V3 ℝ) = unitR k := by
      intro k; simp only [V3.norm, unitR, nsq, r_add, r_sqrt, ← pow_two]
    simp only [hu]

/-! ### non-degeneracy -/

theorem lagrange (a b : V3 ℝ) : nsq (crossR a b) = nsq a * nsq b - dotR a b ^ 2 := by
  simp only [nsq, crossR, dotR]; ring

theorem nsq_nonneg (a : V3 ℝ) : 0 ≤ nsq a := by unfold nsq; positivity

/-- `a × b ≠ 0` forces `a ≠ 0` and `b ≠ 0` -/
theorem nsq_pos_of_cross (a b : V3 ℝ) (h : 0 < nsq (crossR a b)) : 0 < nsq a ∧ 0 < nsq b := by
  rw [lagrange] at h
  have h1 : 0 < nsq a * nsq b := by nlinarith [sq_nonneg (dotR a b)]
  have ha := nsq_nonneg a
  have hb := nsq_nonneg b
  constructor
  · by_contra hc
    have : nsq a = 0 := le_antisymm (not_lt.mp hc) ha
    rw [this, zero_mul] at h1; exact lt_irrefl _ h1
  · by_contra hc
    have : nsq b = 0 := le_antisymm (not_lt.mp hc) hb
    rw [this, mul_zero] at h1; exact lt_irrefl _ h1

theorem nsq_cross_unit (nd vel : V3 ℝ) (hnd : 0 < nsq nd) :
    nsq (crossR (unitR nd) vel) = nsq (crossR nd vel) / nsq nd := by
  have h := Real.sq_sqrt hnd.le
  have h0 : Real.sqrt (nsq nd) ≠ 0 := (Real.sqrt_pos.mpr hnd).ne'
  rw [eq_div_iff hnd.ne']
  simp only [unitR]
  generalize Real.sqrt (nsq nd) = q at *
  rw [← h]
  simp only [nsq, crossR]
  field_simp

/-- a point of an ellipsoid is not the origin -/
theorem nsq_pos_of_on (a b : ℝ) (p : V3 ℝ) (h : Wgs84.OnEllipsoid a b p) : 0 < nsq p := by
  rw [onEllipsoid_real] at h
  by_contra hc
  have h0 : nsq p = 0 := le_antisymm (not_lt.mp hc) (nsq_nonneg p)
  unfold nsq at h0
  have hx : p.x ^ 2 = 0 := by nlinarith [sq_nonneg p.x, sq_nonneg p.y, sq_nonneg p.z]
  have hy : p.y ^ 2 = 0 := by nlinarith [sq_nonneg p.x, sq_nonneg p.y, sq_nonneg p.z]
  have hz : p.z ^ 2 = 0 := by nlinarith [sq_nonneg p.x, sq_nonneg p.y, sq_nonneg p.z]
  rw [hx, hy, hz] at h
  simp at h

/-- all three rotation axes of `vectors` are non-zero when the (unnormalised) nadir and the velocity are not parallel -/
theorem axes_ok (nd vel : V3 ℝ) (hc : 0 < nsq (crossR nd vel)) :
    0 < nsq (unitR nd) ∧ 0 < nsq (unitR vel) ∧ 0 < nsq (unitR (crossR (unitR nd) vel)) := by
  obtain ⟨hnd, hvel⟩ := nsq_pos_of_cross nd vel hc
  have hy : 0 < nsq (crossR (unitR nd) vel) := by rw [nsq_cross_unit nd vel hnd]; exact div_pos hc hnd
  rw [unitR_unit nd hnd, unitR_unit vel hvel, unitR_unit _ hy]
  exact ⟨one_pos, one_pos, one_pos⟩

theorem qrotate_nsq (v k : V3 ℝ) (θ : ℝ) (hk : 0 < nsq k) : nsq (Geoloc.qrotate v k θ) = nsq v := by
  rw [qrotate_eq_rod v k θ hk]
  exact rod_nsq _ _ _ _ (unitR_unit k hk) (Real.sin_sq_add_cos_sq θ)

theorem qrotate_dotR (v w k : V3 ℝ) (θ : ℝ) (hk : 0 < nsq k) :
    dotR (Geoloc.qrotate v k θ) (Geoloc.qrotate w k θ) = dotR v w := by
  rw [qrotate_eq_rod v k θ hk, qrotate_eq_rod w k θ hk]
  exact rod_dot _ _ _ _ _ (unitR_unit k hk) (Real.sin_sq_add_cos_sq θ)

theorem qrotate_self (k : V3 ℝ) (θ : ℝ) (hk : 0 < nsq k) : Geoloc.qrotate k k θ = k := by
  have h0 : Real.sqrt (nsq k) ≠ 0 := (Real.sqrt_pos.mpr hk).ne'
  have hs : k = ⟨Real.sqrt (nsq k) * (unitR k).x, Real.sqrt (nsq k) * (unitR k).y, Real.sqrt (nsq k) * (unitR k).z⟩ := by
    apply V3.ext' <;> simp only [unitR] <;> field_simp
  rw [qrotate_eq_rod _ k θ hk]
  have := rod_axis (unitR k) (Real.sqrt (nsq k)) (Real.cos θ) (Real.sin θ) (unitR_unit k hk)
  rw [← hs] at this
  exact this

theorem qrotate_zero' (v k : V3 ℝ) (hk : 0 < nsq k) : Geoloc.qrotate v k 0 = v := by
  rw [qrotate_eq_rod v k 0 hk, Real.cos_zero, Real.sin_zero, rod_zero]

theorem viewOf_nsq (nd vel : V3 ℝ) (φ ψ yaw : ℝ) (hc : 0 < nsq (crossR nd vel)) :
    nsq (viewOf nd vel φ ψ yaw) = 1 := by
  obtain ⟨h1, h2, h3⟩ := axes_ok nd vel hc
  unfold viewOf
  rw [qrotate_nsq _ _ _ h1, qrotate_nsq _ _ _ h3, qrotate_nsq _ _ _ h2]
  exact unitR_unit nd (nsq_pos_of_cross nd vel hc).1

theorem viewOf_zero (nd vel : V3 ℝ) (hc : 0 < nsq (crossR nd vel)) :
    viewOf nd vel 0 0 0 = unitR nd := by
  obtain ⟨h1, h2, h3⟩ := axes_ok nd vel hc
  unfold viewOf
  rw [qrotate_zero' _ _ h1, qrotate_zero' _ _ h3, qrotate_zero' _ _ h2]

/-- the final yaw rotation (about nadir) does not change the inner product with nadir -/
theorem viewOf_yaw (nd vel : V3 ℝ) (φ ψ yaw yaw' : ℝ) (hc : 0 < nsq (crossR nd vel)) :
    dotR (viewOf nd vel φ ψ yaw) (unitR nd) = dotR (viewOf nd vel φ ψ yaw') (unitR nd) := by
  obtain ⟨h1, _, _⟩ := axes_ok nd vel hc
  have h : ∀ (w : V3 ℝ) (t : ℝ), dotR (Geoloc.qrotate w (unitR nd) t) (unitR nd) = dotR w (unitR nd) := by
    intro w t
    conv_lhs => rw [← qrotate_self (unitR nd) t h1]
    conv_lhs => arg 1; arg 2; rw [qrotate_self (unitR nd) t h1]
    exact qrotate_dotR _ _ _ _ h1
  unfold viewOf
  rw [h, h]

/-! ### sense of the scan angles -/

theorem unitR_idem (k : V3 ℝ) (hk : 0 < nsq k) : unitR (unitR k) = unitR k := by
  have h0 : 0 < Real.sqrt (nsq k) := Real.sqrt_pos.mpr hk
  have h := unitR_smul k (1 / Real.sqrt (nsq k)) (by positivity) hk
  have e : unitR k = ⟨1 / Real.sqrt (nsq k) * k.x, 1 / Real.sqrt (nsq k) * k.y, 1 / Real.sqrt (nsq k) * k.z⟩ := by
    apply V3.ext' <;> simp only [unitR] <;> ring
  rw [← e] at h
  exact h

/-- rotating about a unit axis given as `unitR k` -/
theorem qrotate_unit_axis (w k : V3 ℝ) (θ : ℝ) (hk : 0 < nsq k) :
    Geoloc.qrotate w (unitR k) θ = rod (unitR k) w (Real.cos θ) (Real.sin θ) := by
  rw [qrotate_eq_rod w (unitR k) θ (by rw [unitR_unit k hk]; exact one_pos), unitR_idem k hk]

theorem dotR_axis_inv (w k : V3 ℝ) (θ : ℝ) (hk : 0 < nsq k) :
    dotR (Geoloc.qrotate w k θ) k = dotR w k := by
  conv_lhs => rw [← qrotate_self k θ hk]
  conv_lhs => arg 1; arg 2; rw [qrotate_self k θ hk]
  exact qrotate_dotR _ _ _ _ hk

theorem across_poly (a b : V3 ℝ) (p q c s : ℝ) (hp : p ≠ 0) (hq : q ≠ 0) :
    dotR (rod ⟨b.x / q, b.y / q, b.z / q⟩ ⟨a.x / p, a.y / p, a.z / p⟩ c s) (crossR a b)
      = s * (nsq (crossR a b) / (p * q)) := by
  simp only [rod, dotR, crossR, nsq]
  field_simp
  ring

/-- with no yaw, the component of the view vector along `nd × vel` (pointing to the right of the velocity when `nd`
    points down) is `sin φ` times a positive factor, whatever the along-track angle `ψ` -/
theorem viewOf_across (nd vel : V3 ℝ) (φ ψ : ℝ) (hc : 0 < nsq (crossR nd vel)) :
    dotR (viewOf nd vel φ ψ 0) (crossR nd vel)
      = Real.sin φ * (nsq (crossR nd vel) / (Real.sqrt (nsq nd) * Real.sqrt (nsq vel))) := by
  obtain ⟨h1, h2, h3⟩ := axes_ok nd vel hc
  obtain ⟨hnd, hvel⟩ := nsq_pos_of_cross nd vel hc
  have hp : Real.sqrt (nsq nd) ≠ 0 := (Real.sqrt_pos.mpr hnd).ne'
  have hq : Real.sqrt (nsq vel) ≠ 0 := (Real.sqrt_pos.mpr hvel).ne'
  have hy : 0 < nsq (crossR (unitR nd) vel) := by rw [nsq_cross_unit nd vel hnd]; exact div_pos hc hnd
  set g := Real.sqrt (nsq (crossR (unitR nd) vel)) with hg
  have hyn : g ≠ 0 := (Real.sqrt_pos.mpr hy).ne'
  set Y := unitR (crossR (unitR nd) vel) with hY
  have hYx : Y.x = (crossR (unitR nd) vel).x / g := rfl
  have hYy : Y.y = (crossR (unitR nd) vel).y / g := rfl
  have hYz : Y.z = (crossR (unitR nd) vel).z / g := rfl
  -- nd × vel is a multiple of the rotation axis Y
  have hR : crossR nd vel = ⟨(Real.sqrt (nsq nd) * g) * Y.x, (Real.sqrt (nsq nd) * g) * Y.y,
      (Real.sqrt (nsq nd) * g) * Y.z⟩ := by
    apply V3.ext' <;> simp only [hYx, hYy, hYz] <;> simp only [crossR, unitR] <;> field_simp
  have hlin : ∀ (w : V3 ℝ) (t : ℝ), dotR w ⟨t * Y.x, t * Y.y, t * Y.z⟩ = t * dotR w Y := by
    intro w t; simp only [dotR]; ring
  unfold viewOf
  rw [qrotate_zero' _ _ h1]
  conv_lhs => rw [hR, hlin, dotR_axis_inv _ Y ψ h3, ← hlin, ← hR]
  rw [qrotate_unit_axis _ vel φ hvel]
  exact across_poly nd vel _ _ _ _ hp hq

theorem along_poly (n vel : V3 ℝ) (g c s : ℝ) (hn : nsq n = 1) (hg0 : g ≠ 0) (hg : g ^ 2 = nsq (crossR n vel)) :
    dotR (rod ⟨(crossR n vel).x / g, (crossR n vel).y / g, (crossR n vel).z / g⟩ n c s)
      ⟨vel.x - dotR n vel * n.x, vel.y - dotR n vel * n.y, vel.z - dotR n vel * n.z⟩ = -(s * g) := by
  simp only [rod, dotR, crossR, nsq] at *
  field_simp
  grind

/-- with no across-track angle and no yaw, the component of the view vector along the horizontal part of the velocity
    `vel − (n·vel) n` (`n` the unit nadir) is `−sin ψ` times a positive factor -/
theorem viewOf_along (nd vel : V3 ℝ) (ψ : ℝ) (hc : 0 < nsq (crossR nd vel)) :
    dotR (viewOf nd vel 0 ψ 0)
      ⟨vel.x - dotR (unitR nd) vel * (unitR nd).x, vel.y - dotR (unitR nd) vel * (unitR nd).y,
       vel.z - dotR (unitR nd) vel * (unitR nd).z⟩
      = -(Real.sin ψ * Real.sqrt (nsq (crossR (unitR nd) vel))) := by
  obtain ⟨h1, h2, h3⟩ := axes_ok nd vel hc
  obtain ⟨hnd, hvel⟩ := nsq_pos_of_cross nd vel hc
  have hy : 0 < nsq (crossR (unitR nd) vel) := by rw [nsq_cross_unit nd vel hnd]; exact div_pos hc hnd
  unfold viewOf
  rw [qrotate_zero' _ _ h1, qrotate_zero' _ _ h2, qrotate_unit_axis _ _ ψ hy]
  exact along_poly (unitR nd) vel _ _ _ (unitR_unit nd hnd) (Real.sqrt_pos.mpr hy).ne' (Real.sq_sqrt hy.le)

/-! ### glue for the property statements -/

theorem cross_nsq (a b : V3 ℝ) : V3.dot (V3.cross a b) (V3.cross a b) = nsq (crossR a b) := by
  rw [dot_real, cross_real, dotR_self]

theorem viewVector_some (pos vel nd w : V3 ℝ) (fx fy roll pitch yaw : ℝ)
    (hsub : Geoloc.subpoint (V3.neg pos) Geoloc.A Geoloc.B = some nd)
    (h : Geoloc.viewVector pos vel fx fy roll pitch yaw = some w) :
    w = viewOf nd vel (fx + roll) (fy + pitch) yaw := by
  rw [viewVector_eq, hsub, Option.map_some] at h
  exact (Option.some.inj h).symm

/-! ### a concrete non-degenerate instance (non-vacuity of the view-vector theorems) -/

theorem ex_sqrt : Real.sqrt (-7000 * -7000) = 7000 := by
  rw [show (-7000 : ℝ) * -7000 = 7000 ^ 2 by norm_num, Real.sqrt_sq (by norm_num)]

theorem ex_arg : Complex.arg ⟨7000, 0⟩ = 0 := Complex.arg_ofReal_of_nonneg (x := 7000) (by norm_num)

theorem ex_arg' : Complex.arg ⟨-7000, 0⟩ = Real.pi := Complex.arg_ofReal_of_neg (x := -7000) (by norm_num)

theorem ex_step (a b : ℝ) : Geoloc.geodStep a b 0 7000 0 = 0 := by
  rw [geodStep_real]
  simp only [Real.sin_zero, mul_zero, add_zero]
  exact ex_arg

theorem ex_lat : Geoloc.geodeticLat (V3.neg (⟨7000, 0, 0⟩ : V3 ℝ)) Geoloc.A Geoloc.B = some (0, 1) := by
  unfold Geoloc.geodeticLat
  simp only [V3.neg, r_neg, r_mul, r_sqrt, r_atan2, neg_zero, mul_zero, add_zero, ex_sqrt, ex_arg]
  show Geoloc.geodLoop Geoloc.A Geoloc.B 0 7000 (199 + 1) 0 = some (0, 1)
  rw [Geoloc.geodLoop]
  simp only [ex_step, Geoloc.allclose1, r_le, r_abs, sub_self, abs_zero, mul_zero, add_zero]
  rw [if_pos]
  simp only [r_ofSci, decide_eq_true_eq]
  norm_num

/-- satellite on the x axis: `subpoint(-pos)` is the point `(-Geoloc.A, 0, 0)` -/
theorem ex_subpoint : Geoloc.subpoint (V3.neg (⟨7000, 0, 0⟩ : V3 ℝ)) Geoloc.A Geoloc.B = some ⟨-Geoloc.A, 0, 0⟩ := by
  unfold Geoloc.subpoint
  rw [ex_lat]
  simp only [ellipsoidPoint_real, V3.neg, r_neg, r_atan2, neg_zero, ex_arg', Wden, Real.sin_zero, Real.cos_zero,
    Real.cos_pi, Real.sin_pi]
  norm_num

theorem ex_cross : 0 < V3.dot (V3.cross (⟨-Geoloc.A, 0, 0⟩ : V3 ℝ) ⟨0, 7, 0⟩) (V3.cross (⟨-Geoloc.A, 0, 0⟩ : V3 ℝ) ⟨0, 7, 0⟩) := by
  rw [cross_nsq]
  simp only [nsq, crossR]
  have := default_axes'
  have hA : (0 : ℝ) < Geoloc.A := this.1.trans this.2
  nlinarith [mul_pos hA hA]

end PV.C07L
