/-
  PV.Lemmas.C03Examples — concrete instances used by the non-vacuity examples of Props/C03.lean and by
  the exact-zero-sample counterexample.
-/
import PV.Lemmas.C03Spec
import Mathlib.Tactic.IntervalCases
import Mathlib.Tactic.NormNum
namespace PV.C03L
open PV PV.Passes

/-! ### a one-hump pass: elevation − horizon = −(t − 1/2)(t − 5/2), four minute samples -/

noncomputable def exF (t : ℝ) : ℝ := -(t - 1 / 2) * (t - 5 / 2)
noncomputable def exE : List ℝ := [-5 / 4, 3 / 4, 3 / 4, -5 / 4]
noncomputable def exRoot (g : ℕ) : ℝ := if g = 0 then 1 / 2 else 5 / 2
noncomputable def exMid (lo hi : ℝ) : ℝ := (lo + hi) / 2
/-- the exact maximiser of `exF` on a bracket: 3/2 clamped to the bracket -/
noncomputable def exClamp (lo hi : ℝ) : ℝ := max lo (min hi (3 / 2))

theorem exSampled : Sampled exF exE := by
  intro i h
  have h4 : i < 4 := by simpa [-r_ofNat, -r_ofNat', exE] using h
  interval_cases i <;> simp [-r_ofNat, -r_ofNat', exE, exF] <;> norm_num

theorem exNoZero : NoZeroSample exE := by
  intro i h
  have h4 : i < 4 := by simpa [-r_ofNat, -r_ofNat', exE] using h
  interval_cases i <;> simp [-r_ofNat, -r_ofNat', exE]

theorem exRootContract : RootContract exF exE exRoot := by
  intro g hg
  rw [mem_zeroCrossings exSampled.view] at hg
  obtain ⟨h4, hsg⟩ := hg
  have h4 : g + 1 < 4 := by simpa [-r_ofNat, -r_ofNat', exE] using h4
  have hg3 : g < 3 := by omega
  interval_cases g
  · simp [-r_ofNat, -r_ofNat', exRoot, exF]; norm_num
  · exfalso; apply hsg
    have h1 : exF ((1 + 1 : ℕ) : ℝ) = 3 / 4 := by simp [-r_ofNat, -r_ofNat', exF]; norm_num
    have h2 : exF ((1 : ℕ) : ℝ) = 3 / 4 := by simp [-r_ofNat, -r_ofNat', exF]; norm_num
    rw [h1, h2]
  · simp [-r_ofNat, -r_ofNat', exRoot, exF]; norm_num

theorem exMid_inside : MaxInside exMid := by
  intro lo hi h; unfold exMid; constructor <;> linarith

theorem exMid_inBracket : MaxInBracket exMid := by
  intro lo hi h; unfold exMid; constructor <;> linarith

theorem exF_diff (x y : ℝ) : exF y - exF x = (y - x) * (3 - x - y) := by unfold exF; ring

theorem exF_up (r : ℝ) : StrictMonoOn exF (Set.Icc r (3 / 2)) := by
  intro x hx y hy hxy
  have := exF_diff x y
  have h1 : 0 < y - x := by linarith
  have h2 : 0 < 3 - x - y := by linarith [hx.2, hy.2]
  nlinarith [mul_pos h1 h2]

theorem exF_down (h : ℝ) : StrictAntiOn exF (Set.Icc (3 / 2) h) := by
  intro x hx y hy hxy
  have := exF_diff x y
  have h1 : 0 < y - x := by linarith
  have h2 : 0 < x + y - 3 := by linarith [hx.1, hy.1]
  nlinarith [mul_pos h1 h2]

theorem exClamp_accurate : MaxAccurate exF exClamp 0 := by
  intro lo hi hlh t ht1 ht2
  unfold exClamp
  rw [add_zero]
  rcases le_total hi (3 / 2) with h | h
  · rw [min_eq_left h, max_eq_right hlh.le]
    have := exF_diff t hi
    nlinarith [mul_nonneg (sub_nonneg.mpr ht2) (by linarith : (0 : ℝ) ≤ 3 - t - hi)]
  · rw [min_eq_right h]
    rcases le_total lo (3 / 2) with h' | h'
    · rw [max_eq_right h']
      have := exF_diff t (3 / 2)
      nlinarith [sq_nonneg (t - 3 / 2)]
    · rw [max_eq_left h']
      have := exF_diff lo t
      nlinarith [mul_nonneg (sub_nonneg.mpr ht1) (by linarith : (0 : ℝ) ≤ lo + t - 3)]

theorem exLen : exE.length = 4 := by simp [-r_ofNat, -r_ofNat', exE]
theorem exF_n0 : exF ((0 : ℕ) : ℝ) = -5 / 4 := by simp [-r_ofNat, -r_ofNat', exF]; norm_num
theorem exF_n1 : exF ((1 : ℕ) : ℝ) = 3 / 4 := by simp [-r_ofNat, -r_ofNat', exF]; norm_num
theorem exF_n2 : exF ((2 : ℕ) : ℝ) = 3 / 4 := by simp [-r_ofNat, -r_ofNat', exF]; norm_num
theorem exF_n3 : exF ((3 : ℕ) : ℝ) = -5 / 4 := by simp [-r_ofNat, -r_ofNat', exF]; norm_num

theorem exRoot0 : exRoot 0 = 1 / 2 := by simp [-r_ofNat, -r_ofNat', exRoot]
theorem exRoot2 : exRoot 2 = 5 / 2 := by simp [-r_ofNat, -r_ofNat', exRoot]

/-- the run of positive samples 1, 2 between the negative samples 0 and 3 -/
theorem exRun : (0 : ℕ) < 2 ∧ 2 + 1 < exE.length ∧ exF ((0 : ℕ) : ℝ) < 0 ∧
    (∀ k : ℕ, 0 < k → k ≤ 2 → 0 < exF (k : ℝ)) ∧ exF ((2 + 1 : ℕ) : ℝ) < 0 := by
  refine ⟨by omega, by rw [exLen]; omega, by rw [exF_n0]; norm_num, ?_, by rw [exF_n3]; norm_num⟩
  intro k h1 h2
  have : k = 1 ∨ k = 2 := by omega
  rcases this with rfl | rfl
  · rw [exF_n1]; norm_num
  · rw [exF_n2]; norm_num

/-- the crossing indices of the example are 0 and 2 -/
theorem exCross {g : ℕ} (hg : g ∈ zeroCrossings exE) : g = 0 ∨ g = 2 := by
  rw [mem_zeroCrossings exSampled.view] at hg
  obtain ⟨h4, hsg⟩ := hg
  rw [exLen] at h4
  have : g ≠ 1 := by
    intro h; subst h; apply hsg
    show sgn (exF ((2 : ℕ) : ℝ)) = sgn (exF ((1 : ℕ) : ℝ))
    rw [exF_n1, exF_n2]
  omega

theorem exFloor : ⌊(1 / 2 : ℝ)⌋ = 0 := by rw [Int.floor_eq_iff]; norm_num
theorem exCeil : ⌈(5 / 2 : ℝ)⌉ = 3 := by rw [Int.ceil_eq_iff]; norm_num

/-! ### a sample exactly on the horizon -/

noncomputable def zF (t : ℝ) : ℝ := if t = 0 then -1 else if t = 2 then 1 else if t = 3 then -1 else 0
noncomputable def zE : List ℝ := [-1, 0, 1, -1]
noncomputable def zRoot (g : ℕ) : ℝ := if g = 2 then 5 / 2 else 1

theorem zF0 : zF ((0 : ℕ) : ℝ) = -1 := by simp [-r_ofNat, -r_ofNat', zF]
theorem zF1 : zF ((1 : ℕ) : ℝ) = 0 := by simp [-r_ofNat, -r_ofNat', zF]
theorem zF2 : zF ((2 : ℕ) : ℝ) = 1 := by simp [-r_ofNat, -r_ofNat', zF]
theorem zF3 : zF ((3 : ℕ) : ℝ) = -1 := by simp [-r_ofNat, -r_ofNat', zF]

theorem zSampled : Sampled zF zE := by
  intro i h
  have h4 : i < 4 := by simpa [-r_ofNat, -r_ofNat', zE] using h
  interval_cases i
  · rw [zF0]; simp [-r_ofNat, -r_ofNat', zE]
  · rw [zF1]; simp [-r_ofNat, -r_ofNat', zE]
  · rw [zF2]; simp [-r_ofNat, -r_ofNat', zE]
  · rw [zF3]; simp [-r_ofNat, -r_ofNat', zE]

theorem zRootContract : RootContract zF zE zRoot := by
  intro g hg
  have h4 := zeroCrossings_lt hg
  have h4 : g + 1 < 4 := by simpa [-r_ofNat, -r_ofNat', zE] using h4
  have hg3 : g < 3 := by omega
  interval_cases g
  · simp [-r_ofNat, -r_ofNat', zRoot, zF]
  · simp [-r_ofNat, -r_ofNat', zRoot, zF]
  · simp [-r_ofNat, -r_ofNat', zRoot, zF]; norm_num

theorem zCross (g : ℕ) (hg : g < 3) : g ∈ zeroCrossings zE := by
  rw [mem_zeroCrossings zSampled.view]
  refine ⟨by simp [-r_ofNat, -r_ofNat', zE]; omega, ?_⟩
  interval_cases g
  · show sgn (zF ((0 + 1 : ℕ) : ℝ)) ≠ sgn (zF ((0 : ℕ) : ℝ))
    rw [zF1, zF0, sgn_zero, sgn_neg (by norm_num)]; omega
  · show sgn (zF ((1 + 1 : ℕ) : ℝ)) ≠ sgn (zF ((1 : ℕ) : ℝ))
    rw [zF2, zF1, sgn_zero, sgn_pos (by norm_num)]; omega
  · show sgn (zF ((2 + 1 : ℕ) : ℝ)) ≠ sgn (zF ((2 : ℕ) : ℝ))
    rw [zF3, zF2, sgn_neg (by norm_num), sgn_pos (by norm_num)]; omega

theorem zRise0 : riseAt zE 0 = true := by
  rw [riseAt_iff zSampled.view]; exact ⟨by simp [-r_ofNat, -r_ofNat', zE], by show zF ((0 : ℕ) : ℝ) < 0; rw [zF0]; norm_num⟩

theorem zRise1 : riseAt zE 1 = false := by
  rw [riseAt_false_iff zSampled.view (by simp [-r_ofNat, -r_ofNat', zE])]; show 0 ≤ zF ((1 : ℕ) : ℝ); rw [zF1]

theorem zRise2 : riseAt zE 2 = false := by
  rw [riseAt_false_iff zSampled.view (by simp [-r_ofNat, -r_ofNat', zE])]; show 0 ≤ zF ((2 : ℕ) : ℝ); rw [zF2]; norm_num

theorem zPaired01 : Paired zE 0 1 := by
  rw [paired_iff]
  refine ⟨zCross 1 (by omega), zRise1, zCross 0 (by omega), by omega, zRise0, ?_⟩
  intro k _ h1 h2; omega

theorem zPaired02 : Paired zE 0 2 := by
  rw [paired_iff]
  refine ⟨zCross 2 (by omega), zRise2, zCross 0 (by omega), by omega, zRise0, ?_⟩
  intro k _ h1 h2
  have : k = 1 := by omega
  rw [this]; exact zRise1

end PV.C03L
