/-
  Lemmas for C15: effect of the SQL statements of `update_db` on the table map, and the history-side
  (specification) decomposition lemmas.   Core Lean only.
-/
import PV.Lemmas.C15Iso
namespace PV.C15
open PV.Db

/-! ### induction from the right -/

theorem snoc_induction {α : Type} {P : List α → Prop} (h0 : P [])
    (h1 : ∀ l a, P l → P (l ++ [a])) : ∀ l, P l := by
  intro l
  rw [← List.reverse_reverse l]
  induction l.reverse with
  | nil => exact h0
  | cons a t ih => rw [List.reverse_cons]; exact h1 _ _ ih

/-! ### table map -/

/-- `SELECT tle, source FROM '<sat>' WHERE epoch = k` -/
def lookupRow (rows : List Row) (k : List Char) : Option (List Char × List Char) :=
  (rows.find? (fun r => decide (r.epoch = k))).map (fun r => (r.tle, r.source))

theorem lookupNat_append {β : Type} (l : List (Nat × β)) (k : Nat) (v : β) (n : Nat) :
    lookupNat (l ++ [(k, v)]) n = match lookupNat l n with
      | some x => some x
      | none => if k = n then some v else none := by
  induction l with
  | nil => simp [lookupNat]
  | cons p rest ih =>
    obtain ⟨k', v'⟩ := p
    simp only [List.cons_append, lookupNat]
    by_cases h : k' = n
    · simp [h]
    · simp [h, ih]

theorem lookupNat_setTable (t : List (Nat × List Row)) (n : Nat) (rows : List Row) (s : Nat) :
    lookupNat (setTable t n rows) s =
      if n = s then (match lookupNat t n with | some _ => some rows | none => none) else lookupNat t s := by
  induction t with
  | nil => simp [setTable, lookupNat]
  | cons p rest ih =>
    obtain ⟨k, v⟩ := p
    simp only [setTable]
    by_cases hk : k = n
    · subst hk
      by_cases hs : k = s
      · subst hs; simp [lookupNat]
      · simp [lookupNat, hs]
    · simp only [hk, if_false, lookupNat]
      by_cases hs : k = s
      · subst hs
        have : ¬ n = k := fun h => hk h.symm
        simp [this]
      · simp only [hs, if_false, ih]

theorem hasKey_append (rows : List Row) (r : Row) (k : List Char) :
    hasKey (rows ++ [r]) k = (hasKey rows k || decide (r.epoch = k)) := by
  simp [hasKey, List.any_append]

theorem hasKey_iff_lookup (rows : List Row) (k : List Char) :
    hasKey rows k = (lookupRow rows k).isSome := by
  unfold hasKey lookupRow
  induction rows with
  | nil => simp
  | cons r rs ih =>
    simp only [List.any_cons, List.find?_cons]
    by_cases h : r.epoch = k
    · simp [h]
    · simp [h, ih]

theorem lookupRow_append (rows : List Row) (r : Row) (k : List Char) :
    lookupRow (rows ++ [r]) k = match lookupRow rows k with
      | some v => some v
      | none => if r.epoch = k then some (r.tle, r.source) else none := by
  unfold lookupRow
  rw [List.find?_append]
  cases h : rows.find? (fun r => decide (r.epoch = k)) with
  | some v => simp
  | none => by_cases h2 : r.epoch = k <;> simp [h2]

theorem hasKey_iff_mem (rows : List Row) (k : List Char) :
    hasKey rows k = true ↔ ∃ r ∈ rows, r.epoch = k := by
  simp [hasKey]

/-- the state of the per-satellite tables and of `platform_names` that the code maintains -/
structure NamesOk (db : Db) : Prop where
  ex : ∃ ns, db.names = some ns
  sub : ∀ ns, db.names = some ns → ∀ p ∈ ns, (db.tableOf p.1).isSome = true

theorem hasName_false_of_no_table (db : Db) (ns : List (Nat × List Char)) (sat : Nat)
    (h : NamesOk db) (hn : db.names = some ns) (ht : db.tableOf sat = none) : hasName ns sat = false := by
  cases hh : hasName ns sat with
  | false => rfl
  | true =>
    simp only [hasName, List.any_eq_true, decide_eq_true_eq] at hh
    obtain ⟨p, hp, hps⟩ := hh
    have := h.sub ns hn p hp
    rw [hps, ht] at this
    simp at this

/-- database after the first `k` statements of an update -/
def afterK (cfg : Cfg) (db : Db) (k sat : Nat) (e : Epoch) (l1 l2 src : List Char) : Db × Option (Err × Stmt) :=
  runStmts db ((plan cfg db sat e l1 l2 src).take k)

/-- number of statements up to and including the row INSERT -/
def need (db : Db) (sat : Nat) : Nat := if (db.tableOf sat).isSome then 1 else 3

def newRow (e : Epoch) (l1 l2 src : List Char) : Row := ⟨iso e, joinLines l1 l2, src⟩

theorem afterK_unconfigured (cfg : Cfg) (db : Db) (k sat : Nat) (e : Epoch) (l1 l2 src : List Char)
    (hc : cfg.nameOf sat = none) : afterK cfg db k sat e l1 l2 src = (db, none) := by
  simp [afterK, plan, hc, runStmts]

theorem plan_length_le (cfg : Cfg) (db : Db) (sat : Nat) (e : Epoch) (l1 l2 src : List Char) :
    (plan cfg db sat e l1 l2 src).length ≤ 3 := by
  unfold plan
  cases cfg.nameOf sat with
  | none => simp
  | some name => cases db.tableOf sat <;> simp

theorem runStmts_plan_eq_afterK (cfg : Cfg) (db : Db) (sat : Nat) (e : Epoch) (l1 l2 src : List Char) :
    runStmts db (plan cfg db sat e l1 l2 src) = afterK cfg db 3 sat e l1 l2 src := by
  unfold afterK
  rw [List.take_of_length_le (plan_length_le ..)]

/-- **Effect of the first `k` statements of an update of a configured satellite.** -/
theorem afterK_spec (cfg : Cfg) (db : Db) (k sat : Nat) (e : Epoch) (l1 l2 src : List Char) (name : List Char)
    (hc : cfg.nameOf sat = some name) (hn : NamesOk db) :
    let r := afterK cfg db k sat e l1 l2 src
    let ins : Bool := decide (need db sat ≤ k) && !hasKey (rowsOf db sat) (iso e)
    NamesOk r.1 ∧
    (∀ s, (r.1.tableOf s).isSome = ((db.tableOf s).isSome || (decide (sat = s) && decide (1 ≤ k)))) ∧
    (∀ s, rowsOf r.1 s = if sat = s ∧ ins = true then rowsOf db sat ++ [newRow e l1 l2 src] else rowsOf db s) ∧
    (r.2 = if decide (need db sat ≤ k) && hasKey (rowsOf db sat) (iso e) then
             some (.integrity, .insertRow sat (newRow e l1 l2 src)) else none) := by
  obtain ⟨ns, hns⟩ := hn.ex
  cases ht : db.tableOf sat with
  | some rows =>
    have hneed : need db sat = 1 := by simp [need, ht]
    have hrows : rowsOf db sat = rows := by simp [rowsOf, ht]
    have hplan : plan cfg db sat e l1 l2 src = [.insertRow sat (newRow e l1 l2 src)] := by
      simp [plan, hc, ht, newRow]
    cases k with
    | zero =>
      simp only [afterK, hplan, List.take_zero, runStmts, hneed, hrows]
      refine ⟨hn, ?_, ?_, ?_⟩ <;> simp
    | succ k =>
      simp only [afterK, hplan, List.take_succ_cons, List.take_nil, hneed, hrows]
      cases hk : hasKey rows (iso e) with
      | true =>
        have : exec db (.insertRow sat (newRow e l1 l2 src)) = .error .integrity := by
          simp [exec, ht, newRow, hk]
        simp only [runStmts, this]
        refine ⟨hn, ?_, ?_, ?_⟩
        · intro s; by_cases hs : sat = s
          · subst hs; simp [ht]
          · simp [hs]
        · simp
        · simp
      | false =>
        have : exec db (.insertRow sat (newRow e l1 l2 src)) =
            .ok { db with tables := setTable db.tables sat (rows ++ [newRow e l1 l2 src]) } := by
          simp [exec, ht, newRow, hk]
        simp only [runStmts, this]
        have htab : ∀ s, Db.tableOf { db with tables := setTable db.tables sat (rows ++ [newRow e l1 l2 src]) } s =
            if sat = s then some (rows ++ [newRow e l1 l2 src]) else db.tableOf s := by
          intro s
          have ht' : lookupNat db.tables sat = some rows := ht
          simp only [Db.tableOf, lookupNat_setTable, ht']
        refine ⟨⟨⟨ns, hns⟩, ?_⟩, ?_, ?_, ?_⟩
        · intro ns' hns' p hp
          have := hn.sub ns' hns' p hp
          rw [htab]; by_cases hs : sat = p.1 <;> simp [hs, this]
        · intro s; rw [htab]; by_cases hs : sat = s
          · subst hs; simp [ht]
          · simp [hs]
        · intro s; unfold rowsOf; rw [htab]; by_cases hs : sat = s
          · subst hs; simp
          · simp [hs]
        · simp
  | none =>
    have hneed : need db sat = 3 := by simp [need, ht]
    have hrows : rowsOf db sat = [] := by simp [rowsOf, ht]
    have hplan : plan cfg db sat e l1 l2 src =
        [.createTable sat, .insertName sat name, .insertRow sat (newRow e l1 l2 src)] := by
      simp [plan, hc, ht, newRow]
    have hname := hasName_false_of_no_table db ns sat hn hns ht
    -- the three intermediate databases
    let db1 : Db := { db with tables := db.tables ++ [(sat, [])] }
    let db2 : Db := { db1 with names := some (ns ++ [(sat, name)]) }
    let db3 : Db := { db2 with tables := setTable db2.tables sat ([] ++ [newRow e l1 l2 src]) }
    have e1 : exec db (.createTable sat) = .ok db1 := by simp [exec, ht, db1]
    have htab1 : ∀ s, db1.tableOf s = if sat = s then some [] else db.tableOf s := by
      intro s
      simp only [Db.tableOf, db1, lookupNat_append]
      by_cases hs : sat = s
      · subst hs
        have : lookupNat db.tables sat = none := ht
        simp [this]
      · simp only [hs, if_false]
        cases lookupNat db.tables s <;> rfl
    have e2 : exec db1 (.insertName sat name) = .ok db2 := by
      simp [exec, db1, db2, hns, hname]
    have htab2 : ∀ s, db2.tableOf s = db1.tableOf s := fun s => rfl
    have e3 : exec db2 (.insertRow sat (newRow e l1 l2 src)) = .ok db3 := by
      have : db2.tableOf sat = some [] := by rw [htab2, htab1]; simp
      simp [exec, this, hasKey, db3]
    have htab3 : ∀ s, db3.tableOf s = if sat = s then some [newRow e l1 l2 src] else db.tableOf s := by
      intro s
      have h2 : lookupNat db2.tables sat = some [] := by
        have : db2.tableOf sat = some [] := by rw [htab2, htab1]; simp
        exact this
      have h2s : lookupNat db2.tables s = if sat = s then some [] else db.tableOf s := by
        have := htab1 s; rw [← htab2] at this; exact this
      simp only [Db.tableOf, db3, lookupNat_setTable, h2, List.nil_append]
      by_cases hs : sat = s
      · simp [hs]
      · simp only [hs, if_false, h2s]; rfl
    have sub1 : ∀ p ∈ ns, (db1.tableOf p.1).isSome = true := by
      intro p hp
      have := hn.sub ns hns p hp
      rw [htab1]; by_cases hs : sat = p.1 <;> simp [hs, this]
    have ok1 : NamesOk db1 := ⟨⟨ns, hns⟩, fun ns' h' p hp => by
      have : ns' = ns := by have h'' : db.names = some ns' := h'; rw [hns] at h''; exact (Option.some.inj h'').symm
      subst this; exact sub1 p hp⟩
    have ok2 : NamesOk db2 := ⟨⟨_, rfl⟩, fun ns' h' p hp => by
      have : ns' = ns ++ [(sat, name)] := by
        have h'' : some (ns ++ [(sat, name)]) = some ns' := h'; exact (Option.some.inj h'').symm
      subst this
      rw [htab2]
      rcases List.mem_append.mp hp with hp | hp
      · exact sub1 p hp
      · simp only [List.mem_singleton] at hp; subst hp; rw [htab1]; simp⟩
    have ok3 : NamesOk db3 := ⟨⟨_, rfl⟩, fun ns' h' p hp => by
      have h2 := ok2.sub ns' h' p hp
      rw [htab2, htab1] at h2
      rw [htab3]
      by_cases hs : sat = p.1
      · simp [hs]
      · simp only [hs, if_false] at h2 ⊢; exact h2⟩
    simp only [hneed, hrows, hasKey, List.any_nil, Bool.not_false, Bool.and_true, Bool.and_false]
    match k with
    | 0 =>
      simp only [afterK, hplan, List.take_zero, runStmts]
      refine ⟨hn, ?_, ?_, ?_⟩ <;> simp
    | 1 =>
      simp only [afterK, hplan, List.take_succ_cons, List.take_zero, runStmts, e1]
      refine ⟨ok1, ?_, ?_, ?_⟩
      · intro s; rw [htab1]; by_cases hs : sat = s <;> simp [hs]
      · intro s; unfold rowsOf; rw [htab1]; by_cases hs : sat = s
        · subst hs; simp [ht]
        · simp [hs]
      · simp
    | 2 =>
      simp only [afterK, hplan, List.take_succ_cons, List.take_zero, runStmts, e1, e2]
      refine ⟨ok2, ?_, ?_, ?_⟩
      · intro s; rw [htab2, htab1]; by_cases hs : sat = s <;> simp [hs]
      · intro s; unfold rowsOf; rw [htab2, htab1]; by_cases hs : sat = s
        · subst hs; simp [ht]
        · simp [hs]
      · simp
    | k + 3 =>
      simp only [afterK, hplan, List.take_succ_cons, List.take_nil, runStmts, e1, e2, e3]
      refine ⟨ok3, ?_, ?_, ?_⟩
      · intro s; rw [htab3]; by_cases hs : sat = s <;> simp [hs]
      · intro s; unfold rowsOf; rw [htab3]; by_cases hs : sat = s
        · subst hs; simp
        · simp [hs]
      · simp


/-! ### `openDb` -/

theorem openDb_tableOf (db : Db) (s : Nat) : (openDb db).db.tableOf s = db.tableOf s := rfl

theorem openDb_rowsOf (db : Db) (s : Nat) : rowsOf (openDb db).db s = rowsOf db s := rfl

theorem openDb_updated (db : Db) : (openDb db).updated = false := rfl

theorem namesOk_openDb (db : Db) (h : ∀ ns, db.names = some ns → ∀ p ∈ ns, (db.tableOf p.1).isSome = true) :
    NamesOk (openDb db).db := by
  cases hn : db.names with
  | none =>
    refine ⟨⟨[], by simp [openDb, hn]⟩, ?_⟩
    intro ns hns p hp
    simp [openDb, hn] at hns
    subst hns; simp at hp
  | some ns0 =>
    refine ⟨⟨ns0, by simp [openDb, hn]⟩, ?_⟩
    intro ns hns p hp
    simp [openDb, hn] at hns
    subst hns
    exact h ns0 hn p hp

/-! ### the history side -/

theorem tableMade_snoc (cfg : Cfg) (ops : List Op) (op : Op) (s : Nat) :
    tableMade cfg (ops ++ [op]) s = (tableMade cfg ops s || touches cfg s op) := by
  simp [tableMade, List.any_append]

theorem committedAux_snoc (cfg : Cfg) (pre ops : List Op) (op : Op) :
    committedAux cfg pre (ops ++ [op]) = committedAux cfg pre ops ++ (commits cfg (pre ++ ops) op).toList := by
  induction ops generalizing pre with
  | nil => simp [committedAux]
  | cons o rest ih => simp [committedAux, ih, List.append_assoc]

theorem committed_snoc (cfg : Cfg) (ops : List Op) (op : Op) :
    committed cfg (ops ++ [op]) = committed cfg ops ++ (commits cfg ops op).toList := by
  simpa [committed] using committedAux_snoc cfg [] ops op

/-- what an offered entry contributes to the pair (sat, e) -/
def offer (en : Option Entry) (sat : Nat) (e : Epoch) : Option (List Char × List Char) :=
  match en with
  | some en => if en.sat = sat ∧ en.epoch = e then some (en.tle, en.source) else none
  | none => none

/-- first-wins, step form -/
theorem seen_snoc (cfg : Cfg) (ops : List Op) (op : Op) (sat : Nat) (e : Epoch) :
    seen cfg (ops ++ [op]) sat e = match seen cfg ops sat e with
      | some v => some v
      | none => offer (commits cfg ops op) sat e := by
  unfold seen
  rw [committed_snoc, List.find?_append]
  cases h : (committed cfg ops).find? (fun en => decide (en.sat = sat) && decide (en.epoch = e)) with
  | some v => simp
  | none =>
    cases hc : commits cfg ops op with
    | none => simp [offer]
    | some en =>
      by_cases h2 : en.sat = sat ∧ en.epoch = e
      · simp [offer, h2]
      · simp only [Option.toList_some, List.find?_cons, List.find?_nil, Option.map_none, Option.none_or, offer, h2, if_false]
        have : (decide (en.sat = sat) && decide (en.epoch = e)) = false := by
          simp only [Bool.and_eq_false_iff, decide_eq_false_iff_not]
          by_cases h3 : en.sat = sat
          · right; intro h4; exact h2 ⟨h3, h4⟩
          · left; exact h3
        simp [this]

theorem opsValid_snoc {ops : List Op} {op : Op} (h : OpsValid (ops ++ [op])) : OpsValid ops ∧ op.epochValid :=
  ⟨fun o ho => h o (List.mem_append_left _ ho), h op (by simp)⟩

theorem commits_valid (cfg : Cfg) (pre : List Op) (op : Op) (en : Entry) (hv : op.epochValid)
    (h : commits cfg pre op = some en) : en.epoch.valid := by
  cases op with
  | update s e l1 l2 src =>
    simp only [commits] at h
    split at h
    · cases h; exact hv
    · cases h
  | crashedUpdate k s e l1 l2 src =>
    simp only [commits] at h
    by_cases hc : (configured cfg s && decide ((if tableMade cfg pre s = true then 1 else 3) ≤ k)) = true
    · rw [if_pos hc] at h; cases h; exact hv
    · rw [if_neg hc] at h; cases h
  | «export» wa wn => simp [commits] at h
  | reopen => simp [commits] at h

theorem commits_configured (cfg : Cfg) (pre : List Op) (op : Op) (en : Entry)
    (h : commits cfg pre op = some en) : configured cfg en.sat = true := by
  cases op with
  | update s e l1 l2 src =>
    simp only [commits] at h
    split at h
    · rename_i hc; cases h; exact hc
    · cases h
  | crashedUpdate k s e l1 l2 src =>
    simp only [commits] at h
    by_cases hc : (configured cfg s && decide ((if tableMade cfg pre s = true then 1 else 3) ≤ k)) = true
    · rw [if_pos hc] at h; cases h
      simp only [Bool.and_eq_true] at hc; exact hc.1
    · rw [if_neg hc] at h; cases h
  | «export» wa wn => simp [commits] at h
  | reopen => simp [commits] at h

/-- only valid epochs of configured satellites are ever seen -/
theorem seen_some (cfg : Cfg) : ∀ (ops : List Op), OpsValid ops → ∀ sat e v, seen cfg ops sat e = some v →
    e.valid ∧ configured cfg sat = true := by
  intro ops
  induction ops using snoc_induction with
  | h0 => intro _ sat e v h; simp [seen, committed, committedAux] at h
  | h1 ops op ih =>
    intro hv sat e v h
    obtain ⟨hv1, hv2⟩ := opsValid_snoc hv
    rw [seen_snoc] at h
    cases hs : seen cfg ops sat e with
    | some v' => exact ih hv1 sat e v' hs
    | none =>
      rw [hs] at h
      simp only at h
      cases hc : commits cfg ops op with
      | none => simp [hc, offer] at h
      | some en =>
        simp only [hc, offer] at h
        split at h
        · rename_i h2
          obtain ⟨h2a, h2b⟩ := h2
          subst h2a; subst h2b
          exact ⟨commits_valid cfg ops op en hv2 hc, commits_configured cfg ops op en hc⟩
        · cases h

/-! ### the invariant tying the database to the history -/

structure Inv (cfg : Cfg) (ops : List Op) (c : Conn) : Prop where
  names : NamesOk c.db
  made : ∀ s, (c.db.tableOf s).isSome = tableMade cfg ops s
  look : ∀ s e, e.valid → lookupRow (rowsOf c.db s) (iso e) = seen cfg ops s e
  keys : ∀ s r, r ∈ rowsOf c.db s → ∃ e, e.valid ∧ r.epoch = iso e
  nodup : ∀ s, (rowsOf c.db s).Pairwise (fun a b => a.epoch ≠ b.epoch)

def entryRow (en : Entry) : Row := ⟨iso en.epoch, en.tle, en.source⟩

/-- rows after an entry has been offered: appended unless its key is present -/
def offerRows (rows : Nat → List Row) (en : Option Entry) (s : Nat) : List Row :=
  match en with
  | some en => if en.sat = s ∧ hasKey (rows en.sat) (iso en.epoch) = false then rows en.sat ++ [entryRow en] else rows s
  | none => rows s

theorem inv_of_offer (cfg : Cfg) (ops : List Op) (op : Op) (c c' : Conn) (hv : op.epochValid)
    (h : Inv cfg ops c) (hn : NamesOk c'.db)
    (hm : ∀ s, (c'.db.tableOf s).isSome = ((c.db.tableOf s).isSome || touches cfg s op))
    (hr : ∀ s, rowsOf c'.db s = offerRows (rowsOf c.db) (commits cfg ops op) s) :
    Inv cfg (ops ++ [op]) c' := by
  refine ⟨hn, ?_, ?_, ?_, ?_⟩
  · intro s; rw [hm, tableMade_snoc, h.made]
  · intro s e he
    rw [hr, seen_snoc, ← h.look s e he]
    cases hc : commits cfg ops op with
    | none => simp only [offerRows, offer]; cases lookupRow (rowsOf c.db s) (iso e) <;> rfl
    | some en =>
      have hev := commits_valid cfg ops op en hv hc
      simp only [offerRows, offer]
      by_cases h1 : en.sat = s
      · subst h1
        cases hk : hasKey (rowsOf c.db en.sat) (iso en.epoch) with
        | true =>
          simp only [true_and, Bool.true_eq_false, if_false]
          cases hl : lookupRow (rowsOf c.db en.sat) (iso e) with
          | some v => rfl
          | none =>
            by_cases h2 : en.epoch = e
            · subst h2
              rw [hasKey_iff_lookup, hl] at hk; simp at hk
            · simp [h2]
        | false =>
          simp only [true_and, if_true]
          rw [lookupRow_append]
          cases hl : lookupRow (rowsOf c.db en.sat) (iso e) with
          | some v => rfl
          | none =>
            simp only [entryRow]
            by_cases h2 : en.epoch = e
            · subst h2; simp
            · have : ¬ iso en.epoch = iso e := fun h3 => h2 (iso_inj _ _ hev he h3)
              simp [h2, this]
      · simp only [h1, false_and, if_false]
        cases lookupRow (rowsOf c.db s) (iso e) <;> rfl
  · intro s r hmem
    rw [hr] at hmem
    cases hc : commits cfg ops op with
    | none => rw [hc] at hmem; exact h.keys s r hmem
    | some en =>
      rw [hc] at hmem
      simp only [offerRows] at hmem
      split at hmem
      · rcases List.mem_append.mp hmem with hm1 | hm1
        · exact h.keys _ r hm1
        · simp only [List.mem_singleton] at hm1
          subst hm1
          exact ⟨en.epoch, commits_valid cfg ops op en hv hc, rfl⟩
      · exact h.keys s r hmem
  · intro s
    rw [hr]
    cases hc : commits cfg ops op with
    | none => exact h.nodup s
    | some en =>
      simp only [offerRows]
      split
      · rename_i h1
        rw [List.pairwise_append]
        refine ⟨h.nodup _, by simp, ?_⟩
        intro a ha b hb
        simp only [List.mem_singleton] at hb
        subst hb
        intro heq
        have : hasKey (rowsOf c.db en.sat) (iso en.epoch) = true := (hasKey_iff_mem _ _).mpr ⟨a, ha, heq⟩
        rw [h1.2] at this; cases this
      · exact h.nodup s


/-! ### one operation -/

theorem need_le_three (db : Db) (sat : Nat) : need db sat ≤ 3 := by
  unfold need; split <;> omega

theorem plan_isEmpty_configured (cfg : Cfg) (db : Db) (sat : Nat) (e : Epoch) (l1 l2 src name : List Char)
    (hc : cfg.nameOf sat = some name) : (plan cfg db sat e l1 l2 src).isEmpty = false := by
  unfold plan
  rw [hc]
  cases db.tableOf sat <;> simp

/-- a complete `update_db` of a configured satellite: returns normally, the database is that after all statements,
    `updated` is raised exactly when the key was new -/
theorem updateOp_configured (cfg : Cfg) (c : Conn) (sat : Nat) (e : Epoch) (l1 l2 src name : List Char)
    (hc : cfg.nameOf sat = some name) (hn : NamesOk c.db) :
    updateOp cfg c sat e l1 l2 src =
      (⟨(afterK cfg c.db 3 sat e l1 l2 src).1, c.updated || !hasKey (rowsOf c.db sat) (iso e)⟩, .done) := by
  have hs := (afterK_spec cfg c.db 3 sat e l1 l2 src name hc hn).2.2.2
  have hemp := plan_isEmpty_configured cfg c.db sat e l1 l2 src name hc
  have h3 : decide (need c.db sat ≤ 3) = true := by simp [need_le_three]
  unfold updateOp
  simp only [runStmts_plan_eq_afterK, hemp]
  simp only [h3, Bool.true_and] at hs
  generalize afterK cfg c.db 3 sat e l1 l2 src = r at hs ⊢
  obtain ⟨db', st⟩ := r
  simp only at hs
  cases hk : hasKey (rowsOf c.db sat) (iso e) with
  | true => simp [hk] at hs; subst hs; simp
  | false => simp [hk] at hs; subst hs; simp

theorem updateOp_unconfigured (cfg : Cfg) (c : Conn) (sat : Nat) (e : Epoch) (l1 l2 src : List Char)
    (hc : cfg.nameOf sat = none) : updateOp cfg c sat e l1 l2 src = (c, .done) := by
  unfold updateOp
  simp [plan, hc, runStmts]

theorem configured_eq (cfg : Cfg) (sat : Nat) : configured cfg sat = (cfg.nameOf sat).isSome := rfl

/-- **One operation preserves the invariant** (history extended by that operation). -/
theorem step_inv (cfg : Cfg) (ops : List Op) (op : Op) (c : Conn) (hv : op.epochValid) (h : Inv cfg ops c) :
    Inv cfg (ops ++ [op]) (step cfg c op).1 := by
  cases op with
  | update s e l1 l2 src =>
    simp only [step]
    cases hc : cfg.nameOf s with
    | none =>
      rw [updateOp_unconfigured cfg c s e l1 l2 src hc]
      apply inv_of_offer cfg ops _ c c hv h h.names
      · intro s'; simp [touches, configured_eq, hc]
      · intro s'; simp [commits, configured_eq, hc, offerRows]
    | some name =>
      rw [updateOp_configured cfg c s e l1 l2 src name hc h.names]
      obtain ⟨h1, h2, h3, _⟩ := afterK_spec cfg c.db 3 s e l1 l2 src name hc h.names
      apply inv_of_offer cfg ops _ c _ hv h h1
      · intro s'; rw [h2]; simp [touches, configured_eq, hc]
      · intro s'
        rw [h3]
        simp only [commits, configured_eq, hc, Option.isSome_some, if_true, offerRows, entryRow, newRow]
        have : decide (need c.db s ≤ 3) = true := by simp [need_le_three]
        simp [this]
  | crashedUpdate k s e l1 l2 src =>
    simp only [step]
    cases hc : cfg.nameOf s with
    | none =>
      have := afterK_unconfigured cfg c.db k s e l1 l2 src hc
      unfold afterK at this
      rw [this]
      apply inv_of_offer cfg ops _ c _ hv h (namesOk_openDb _ h.names.sub)
      · intro s'; rw [openDb_tableOf]; simp [touches, configured_eq, hc]
      · intro s'; rw [openDb_rowsOf]; simp [commits, configured_eq, hc, offerRows]
    | some name =>
      obtain ⟨h1, h2, h3, _⟩ := afterK_spec cfg c.db k s e l1 l2 src name hc h.names
      unfold afterK at h1 h2 h3
      apply inv_of_offer cfg ops _ c _ hv h (namesOk_openDb _ h1.sub)
      · intro s'; rw [openDb_tableOf, h2]; simp [touches, configured_eq, hc]
      · intro s'
        rw [openDb_rowsOf]
        rw [h3]
        have hm : (if tableMade cfg ops s = true then 1 else 3) = need c.db s := by
          unfold need; rw [h.made]
        simp only [commits, configured_eq, hc, Option.isSome_some, Bool.true_and, hm]
        by_cases hk : need c.db s ≤ k
        · simp [hk, offerRows, entryRow, newRow]
        · simp [hk, offerRows]
  | «export» wa wn =>
    have : (step cfg c (.export wa wn)).1 = c := by
      simp only [step]
      split
      · rfl
      · split <;> rfl
    rw [this]
    apply inv_of_offer cfg ops _ c c hv h h.names
    · intro s'; simp [touches]
    · intro s'; simp [commits, offerRows]
  | reopen =>
    simp only [step]
    apply inv_of_offer cfg ops _ c _ hv h (namesOk_openDb _ h.names.sub)
    · intro s'; rw [openDb_tableOf]; simp [touches]
    · intro s'; rw [openDb_rowsOf]; simp [commits, offerRows]

theorem run_snoc (cfg : Cfg) (ops : List Op) (op : Op) :
    run cfg (ops ++ [op]) = (step cfg (run cfg ops) op).1 := by
  simp [run, List.foldl_append]

theorem inv_init (cfg : Cfg) : Inv cfg [] init := by
  refine ⟨namesOk_openDb _ (by intro ns h; simp [Db.empty] at h), ?_, ?_, ?_, ?_⟩
  · intro s; rfl
  · intro s e _; rfl
  · intro s r h; simp [init, rowsOf, openDb, Db.empty, Db.tableOf, lookupNat] at h
  · intro s; simp [init, rowsOf, openDb, Db.empty, Db.tableOf, lookupNat]

/-- **The invariant holds after every history.** -/
theorem inv_run (cfg : Cfg) : ∀ (ops : List Op), OpsValid ops → Inv cfg ops (run cfg ops) := by
  intro ops
  induction ops using snoc_induction with
  | h0 => intro _; exact inv_init cfg
  | h1 ops op ih =>
    intro hv
    obtain ⟨hv1, hv2⟩ := opsValid_snoc hv
    rw [run_snoc]
    exact step_inv cfg ops op _ hv2 (ih hv1)

end PV.C15
