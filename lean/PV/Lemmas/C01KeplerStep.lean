/-
  C01 (stretch) helper lemmas, part 2: the correction the code applies in a pass of the Kepler loop,
      nr  = f / df,   epw += f / (df + 0.5·esinE·nr)        (orbital.py:1171-1180)
  is Halley's method for F; one such step cubes the distance to the root.  Pure real analysis; the link to the
  model's `newtonLoop` is in C01KeplerLoop.lean.
-/
import PV.Lemmas.C01Kepler
import Mathlib.Analysis.SpecialFunctions.Trigonometric.Bounds
namespace PV.C01
open PV

/-- the pass of the loop body that is not capped: `epw + f/(df + 0.5·esinE·(f/df))`, written with the code's
    operation order (`f = capu − epw + esinE`, `df = 1 − ecosE`) -/
noncomputable def halley (a b U E : ℝ) : ℝ :=
  E + (U - E + (a * Real.sin E - b * Real.cos E)) /
    ((1 - (a * Real.cos E + b * Real.sin E)) + 0.5 * (a * Real.sin E - b * Real.cos E) *
      ((U - E + (a * Real.sin E - b * Real.cos E)) / (1 - (a * Real.cos E + b * Real.sin E))))

/-- the constant of the cubic bound: `K(e,δ) = (e(1+e)/6 + e²/4 + δ(e(1+e)/24 + e²/12)) / ((1−e)² − e(1+e)δ/2)` -/
noncomputable def halleyK (e δ : ℝ) : ℝ :=
  (e * (1 + e) / 6 + e ^ 2 / 4 + δ * (e * (1 + e) / 24 + e ^ 2 / 12)) / ((1 - e) ^ 2 - e * (1 + e) * δ / 2)

theorem one_sub_cos_bounds (d : ℝ) :
    0 ≤ 1 - Real.cos d ∧ 1 - Real.cos d ≤ d ^ 2 / 2 ∧ d ^ 2 / 2 - (1 - Real.cos d) ≤ d ^ 4 / 24 := by
  refine ⟨by linarith [Real.cos_le_one d], by linarith [Real.one_sub_sq_div_two_le_cos (x := d)], ?_⟩
  have hc : Real.cos d = 1 - 2 * Real.sin (d / 2) ^ 2 := by
    have h2 : d = 2 * (d / 2) := by ring
    conv_lhs => rw [h2, Real.cos_two_mul, Real.cos_sq']
    ring
  set h := d / 2 with hh
  set s := Real.sin h with hs
  have hq : |h - s| ≤ |h| ^ 3 / 6 := Real.abs_sub_sin_le h
  have hs1 : |s| ≤ |h| := Real.abs_sin_le_abs
  have hp : |(h - s) * (h + s)| ≤ |h| ^ 3 / 6 * (2 * |h|) := by
    rw [abs_mul]
    gcongr
    exact (abs_add_le _ _).trans (by linarith)
  have h4 : |h| ^ 3 / 6 * (2 * |h|) = h ^ 4 / 3 := by
    have : |h| ^ 3 / 6 * (2 * |h|) = (|h| ^ 2) ^ 2 / 3 := by ring
    rw [this, sq_abs]; ring
  rw [h4] at hp
  have := (abs_le.mp hp).2
  have hd : d = 2 * h := by rw [hh]; ring
  rw [hc, hd]
  linarith

/-- Kepler's equation at the root, seen from a point `E = E* + d`:
    `f(E) = esinE·(1 − cos d) − d·(1 − ecosE) − ecosE·(d − sin d)` -/
theorem keplerF_from_root (a b U E Es : ℝ) (hs : keplerF a b U Es = 0) :
    U - E + (a * Real.sin E - b * Real.cos E) =
      (a * Real.sin E - b * Real.cos E) * (1 - Real.cos (E - Es)) - (E - Es) * (1 - (a * Real.cos E + b * Real.sin E))
        - (a * Real.cos E + b * Real.sin E) * ((E - Es) - Real.sin (E - Es)) := by
  obtain ⟨d, rfl⟩ : ∃ d, Es = E - d := ⟨E - Es, by ring⟩
  simp only [keplerF] at hs
  rw [Real.sin_sub, Real.cos_sub] at hs
  rw [sub_sub_cancel]
  linear_combination hs

/-- `d + f/(df + 0.5·S·(f/df))` over the common denominator `df² + S·f/2` -/
theorem halley_rewrite (df S f d : ℝ) (hdf : df ≠ 0) (hD : df ^ 2 + S * f / 2 ≠ 0) :
    d + f / (df + 0.5 * S * (f / df)) = (d * (df ^ 2 + S * f / 2) + f * df) / (df ^ 2 + S * f / 2) := by
  have h05 : (0.5 : ℝ) = 1 / 2 := by norm_num
  have key : df + 0.5 * S * (f / df) = (df ^ 2 + S * f / 2) / df := by
    have := div_mul_cancel₀ f hdf
    rw [eq_div_iff hdf, h05]; linear_combination (1 / 2 * S) * this
  rw [key, div_div_eq_mul_div, eq_div_iff hD, add_mul, div_mul_cancel₀ _ hD]

theorem halley_core (e δ S C d p q f : ℝ) (he0 : 0 ≤ e) (he1 : e < 1) (hS : |S| ≤ e) (hC : |C| ≤ e)
    (hd : |d| ≤ δ) (hp0 : 0 ≤ p) (hp : p ≤ d ^ 2 / 2) (hρ : d ^ 2 / 2 - p ≤ d ^ 4 / 24) (hq : |q| ≤ |d| ^ 3 / 6)
    (hf : f = S * p - d * (1 - C) - C * q) (hfb : |f| ≤ (1 + e) * |d|)
    (hsmall : e * (1 + e) * δ / 2 < (1 - e) ^ 2) :
    |d + f / ((1 - C) + 0.5 * S * (f / (1 - C)))| ≤ halleyK e δ * |d| ^ 3 := by
  obtain ⟨hC1, hC2⟩ := abs_le.mp hC
  obtain ⟨t, ht⟩ : ∃ t, t = |d| := ⟨_, rfl⟩
  rw [← ht] at hd hq hfb ⊢
  have ht0 : 0 ≤ t := ht ▸ abs_nonneg d
  have hdt : |d| ≤ t := ht.ge
  have hd2 : d ^ 2 = t ^ 2 := by rw [ht, sq_abs]
  have hd4 : d ^ 4 = t ^ 4 := by
    have : d ^ 4 = (d ^ 2) ^ 2 := by ring
    rw [this, hd2]; ring
  obtain ⟨df, hdf⟩ : ∃ df, df = 1 - C := ⟨_, rfl⟩
  rw [← hdf] at hf ⊢
  have hdf1 : 1 - e ≤ df := by linarith
  have hdf2 : df ≤ 1 + e := by linarith
  have hdfpos : 0 < df := by linarith
  have hdfabs : |df| ≤ 1 + e := by rw [abs_of_pos hdfpos]; exact hdf2
  -- the denominator
  have hSf : |S * f| ≤ e * ((1 + e) * δ) := by
    rw [abs_mul]
    have : (1 + e) * t ≤ (1 + e) * δ := by gcongr
    gcongr
    exact hfb.trans this
  have hDn : (1 - e) ^ 2 - e * (1 + e) * δ / 2 ≤ df ^ 2 + S * f / 2 := by
    have h1 : (1 - e) ^ 2 ≤ df ^ 2 := by
      apply pow_le_pow_left₀ (by linarith) hdf1
    have h2 := (abs_le.mp hSf).1
    linarith
  have hDpos : 0 < df ^ 2 + S * f / 2 := by linarith
  have hDminpos : 0 < (1 - e) ^ 2 - e * (1 + e) * δ / 2 := by linarith
  -- numerator / denominator form
  have hrew : d + f / (df + 0.5 * S * (f / df)) =
      (df * S * (p - d ^ 2 / 2) - df * C * q + S * d * (S * p - C * q) / 2) / (df ^ 2 + S * f / 2) := by
    rw [halley_rewrite df S f d hdfpos.ne' hDpos.ne']
    congr 1
    rw [hf]; ring
  rw [hrew, abs_div, abs_of_pos hDpos]
  -- bound the numerator
  have hρ' : |p - d ^ 2 / 2| ≤ t ^ 4 / 24 := by
    rw [abs_le]; constructor <;> [linarith; linarith]
  have hp' : |p| ≤ t ^ 2 / 2 := by rw [abs_of_nonneg hp0, ← hd2]; exact hp
  have b1 : |df * S * (p - d ^ 2 / 2)| ≤ (1 + e) * e * (t ^ 4 / 24) := by
    rw [abs_mul, abs_mul]; gcongr
  have b2 : |df * C * q| ≤ (1 + e) * e * (t ^ 3 / 6) := by
    rw [abs_mul, abs_mul]; gcongr
  have b3a : |S * p - C * q| ≤ e * (t ^ 2 / 2) + e * (t ^ 3 / 6) := by
    refine (abs_sub _ _).trans ?_
    rw [abs_mul, abs_mul]; gcongr
  have b3 : |S * d * (S * p - C * q) / 2| ≤ e * t * (e * (t ^ 2 / 2) + e * (t ^ 3 / 6)) / 2 := by
    rw [abs_div, abs_mul, abs_mul, abs_of_pos (by norm_num : (0 : ℝ) < 2)]; gcongr
  have hN : |df * S * (p - d ^ 2 / 2) - df * C * q + S * d * (S * p - C * q) / 2| ≤
      (e * (1 + e) / 6 + e ^ 2 / 4 + δ * (e * (1 + e) / 24 + e ^ 2 / 12)) * t ^ 3 := by
    refine (abs_add_le _ _).trans ?_
    have := abs_sub (df * S * (p - d ^ 2 / 2)) (df * C * q)
    have ht3 : 0 ≤ t ^ 3 := by positivity
    have ht4 : t ^ 4 ≤ δ * t ^ 3 := by
      have : t ^ 4 = t * t ^ 3 := by ring
      rw [this]; gcongr
    have hcoef : 0 ≤ e * (1 + e) / 24 + e ^ 2 / 12 := by positivity
    linarith [mul_le_mul_of_nonneg_left ht4 hcoef]
  have hA0 : 0 ≤ (e * (1 + e) / 6 + e ^ 2 / 4 + δ * (e * (1 + e) / 24 + e ^ 2 / 12)) * t ^ 3 := by
    have : 0 ≤ δ := ht0.trans hd
    positivity
  calc _ ≤ (e * (1 + e) / 6 + e ^ 2 / 4 + δ * (e * (1 + e) / 24 + e ^ 2 / 12)) * t ^ 3 /
        (df ^ 2 + S * f / 2) := by gcongr
    _ ≤ (e * (1 + e) / 6 + e ^ 2 / 4 + δ * (e * (1 + e) / 24 + e ^ 2 / 12)) * t ^ 3 /
        ((1 - e) ^ 2 - e * (1 + e) * δ / 2) := by gcongr
    _ = halleyK e δ * t ^ 3 := by simp only [halleyK]; ring

/-- one uncapped pass of the loop cubes the distance to the root: if `|E − E*| ≤ δ` and
    `e_L(1+e_L)δ/2 < (1−e_L)²` then `|halley E − E*| ≤ K(e_L,δ)·|E − E*|³` -/
theorem halley_cubic {a b : ℝ} (h : a ^ 2 + b ^ 2 < 1) (U E Es δ : ℝ) (hs : keplerF a b U Es = 0)
    (hd : |E - Es| ≤ δ)
    (hsmall : √(a ^ 2 + b ^ 2) * (1 + √(a ^ 2 + b ^ 2)) * δ / 2 < (1 - √(a ^ 2 + b ^ 2)) ^ 2) :
    |halley a b U E - Es| ≤ halleyK (√(a ^ 2 + b ^ 2)) δ * |E - Es| ^ 3 := by
  obtain ⟨c0, c1, c2⟩ := one_sub_cos_bounds (E - Es)
  have hfb : |U - E + (a * Real.sin E - b * Real.cos E)| ≤ (1 + √(a ^ 2 + b ^ 2)) * |E - Es| := by
    have := (keplerF_abs_sub a b U E Es).2
    rw [hs, sub_zero] at this
    simp only [keplerF] at this
    rwa [add_sub_assoc] at this
  have := halley_core (√(a ^ 2 + b ^ 2)) δ (a * Real.sin E - b * Real.cos E) (a * Real.cos E + b * Real.sin E)
    (E - Es) (1 - Real.cos (E - Es)) ((E - Es) - Real.sin (E - Es)) (U - E + (a * Real.sin E - b * Real.cos E))
    (Real.sqrt_nonneg _) (sqrt_elsq_lt_one h) (abs_esinE_le_sqrt a b E) (abs_ecosE_le_sqrt a b E) hd c0 c1 c2
    (Real.abs_sub_sin_le _) (keplerF_from_root a b U E Es hs) hfb hsmall
  have e1 : halley a b U E - Es = (E - Es) + (U - E + (a * Real.sin E - b * Real.cos E)) /
    ((1 - (a * Real.cos E + b * Real.sin E)) + 0.5 * (a * Real.sin E - b * Real.cos E) *
      ((U - E + (a * Real.sin E - b * Real.cos E)) / (1 - (a * Real.cos E + b * Real.sin E)))) := by
    simp only [halley]; ring
  rw [e1]; exact this

end PV.C01
