/-
  Helper lemmas for C04Conv: the same contraction for `PV.Geoloc.geodStep` / `geodLoop`
  (pyorbital/geoloc.py `geodetic_lat`, lengths in km, e² = (a² − b²)/a², exit test `np.allclose`).
  `atan2(z + a g(φ), r) = atan2(z/a + g(φ), r/a)` for a > 0, so the body is `Tmap e² (z/a) (r/a)`.
-/
import PV.Lemmas.C14Geod
import PV.Lemmas.C04ContractCore
import Mathlib.Analysis.Real.Pi.Bounds
import Mathlib.Topology.MetricSpace.Contracting

namespace PV.C04C
open PV PV.C14L Real

/-- `(a² − b²)/a²` as the code writes it -/
noncomputable def ecc2ab (a b : ℝ) : ℝ := (a * a - b * b) / (a * a)

theorem arg_scale {a : ℝ} (ha : 0 < a) (r u : ℝ) : Complex.arg ⟨r, u⟩ = Complex.arg ⟨r / a, u / a⟩ := by
  have h : (⟨r, u⟩ : ℂ) = ((a : ℝ) : ℂ) * ⟨r / a, u / a⟩ := by
    apply Complex.ext
    · simp only [Complex.mul_re, Complex.ofReal_re, Complex.ofReal_im]; field_simp; ring
    · simp only [Complex.mul_im, Complex.ofReal_re, Complex.ofReal_im]; field_simp; ring
  rw [h, Complex.arg_real_mul _ ha]

theorem geodStep_eq_Tmap {a : ℝ} (ha : 0 < a) (b z r φ : ℝ) :
    Geoloc.geodStep a b z r φ = Tmap (ecc2ab a b) (z / a) (r / a) φ := by
  rw [geodStep_real, arg_scale ha]
  unfold Tmap gfun Wd Wden ecc2ab
  congr 2
  field_simp

theorem ecc2ab_default : ecc2ab (Geoloc.A : ℝ) (Geoloc.B : ℝ) = ecc2ab 6378.137 6356.75231414 := by
  simp only [Geoloc.A, Geoloc.B, Gen.geoloc_A, Gen.geoloc_B, r_ofSci]

theorem A_val : (Geoloc.A : ℝ) = 6378.137 := by
  simp only [Geoloc.A, Gen.geoloc_A, r_ofSci]

/-- the default ellipsoid of geoloc.py (A = 6378.137, B = 6356.75231414) is admissible -/
theorem eccOK_default : EccOK (ecc2ab (Geoloc.A : ℝ) (Geoloc.B : ℝ)) := by
  rw [ecc2ab_default]
  unfold EccOK ecc2ab; constructor <;> norm_num

theorem scaled_outside {a z r : ℝ} (ha : 0 < a) (hp : (0.99 * a) ^ 2 ≤ r ^ 2 + z ^ 2) :
    0.99 ^ 2 ≤ (r / a) ^ 2 + (z / a) ^ 2 := by
  rw [div_pow, div_pow, ← add_div, le_div_iff₀ (by positivity)]
  linarith [mul_pow (0.99 : ℝ) a 2]

theorem geodStep_lipschitz' {a b : ℝ} (ha : 0 < a) (he : EccOK (ecc2ab a b)) {z r : ℝ} (hr : 0 ≤ r)
    (hp : (0.99 * a) ^ 2 ≤ r ^ 2 + z ^ 2) (φ₁ φ₂ : ℝ) :
    |Geoloc.geodStep a b z r φ₁ - Geoloc.geodStep a b z r φ₂| ≤ 7 / 1000 * |φ₁ - φ₂| := by
  rw [geodStep_eq_Tmap ha, geodStep_eq_Tmap ha]
  exact Tmap_lipschitz he (div_nonneg hr ha.le) (scaled_outside ha hp) φ₁ φ₂

theorem geodStep_first_step {a b : ℝ} (ha : 0 < a) (he : EccOK (ecc2ab a b)) {z r : ℝ} (hr : 0 ≤ r)
    (hp : (0.99 * a) ^ 2 ≤ r ^ 2 + z ^ 2) (φ : ℝ) :
    |Geoloc.geodStep a b z r φ - Complex.arg ⟨r, z⟩| ≤ 7 / 1000 := by
  rw [geodStep_eq_Tmap ha, arg_scale ha r z]
  exact Tmap_first_step he (div_nonneg hr ha.le) (scaled_outside ha hp) φ

theorem geodStep_abs_le {a : ℝ} (ha : 0 < a) (b : ℝ) {z r : ℝ} (hr : 0 ≤ r) (φ : ℝ) :
    |Geoloc.geodStep a b z r φ| ≤ π / 2 := by
  rw [geodStep_eq_Tmap ha]
  exact Tmap_range _ (div_nonneg hr ha.le) φ

/-- one unfolding of `geodLoop` over ℝ -/
theorem geodLoop_succ (a b z r : ℝ) (fuel : ℕ) (φ : ℝ) :
    Geoloc.geodLoop a b z r (fuel + 1) φ =
      if |Geoloc.geodStep a b z r φ - φ| ≤ 1e-8 + 1e-5 * |φ| then
        some (Geoloc.geodStep a b z r φ, 1)
      else (Geoloc.geodLoop a b z r fuel (Geoloc.geodStep a b z r φ)).map
        (fun res => (res.1, res.2 + 1)) := by
  rw [Geoloc.geodLoop]
  simp only [Geoloc.allclose1, r_le, r_abs, r_sub, r_add, r_mul, r_ofSci, decide_eq_true_eq]
  split_ifs with h
  · rfl
  · cases Geoloc.geodLoop a b z r fuel (Geoloc.geodStep a b z r φ) with
    | none => rfl
    | some res => rfl

theorem geodLoop_terminates_aux (a b z r : ℝ)
    (hL : ∀ x y, |Geoloc.geodStep a b z r x - Geoloc.geodStep a b z r y| ≤ 7 / 1000 * |x - y|) :
    ∀ (n fuel : ℕ) (φ : ℝ), |Geoloc.geodStep a b z r φ - φ| * (7 / 1000) ^ n ≤ 1e-8 → n < fuel →
      ∃ lat m, Geoloc.geodLoop a b z r fuel φ = some (lat, m) ∧ 1 ≤ m ∧ m ≤ n + 1 := by
  intro n
  induction n with
  | zero =>
    intro fuel φ h hf
    obtain ⟨f, rfl⟩ : ∃ f, fuel = f + 1 := ⟨fuel - 1, by omega⟩
    rw [pow_zero, mul_one] at h
    have h' : |Geoloc.geodStep a b z r φ - φ| ≤ 1e-8 + 1e-5 * |φ| := by
      have := abs_nonneg φ
      linarith
    rw [geodLoop_succ, if_pos h']
    exact ⟨_, 1, rfl, le_refl _, by omega⟩
  | succ n ih =>
    intro fuel φ h hf
    obtain ⟨f, rfl⟩ : ∃ f, fuel = f + 1 := ⟨fuel - 1, by omega⟩
    rw [geodLoop_succ]
    split_ifs with hex
    · exact ⟨_, 1, rfl, le_refl _, by omega⟩
    · have hb : |Geoloc.geodStep a b z r (Geoloc.geodStep a b z r φ) - Geoloc.geodStep a b z r φ|
            * (7 / 1000) ^ n ≤ 1e-8 := by
        have h1 := hL (Geoloc.geodStep a b z r φ) φ
        have h2 : (0 : ℝ) ≤ (7 / 1000) ^ n := by positivity
        have h3 := mul_le_mul_of_nonneg_right h1 h2
        rw [pow_succ] at h
        calc _ ≤ 7 / 1000 * |Geoloc.geodStep a b z r φ - φ| * (7 / 1000) ^ n := h3
          _ = |Geoloc.geodStep a b z r φ - φ| * ((7 / 1000) ^ n * (7 / 1000)) := by ring
          _ ≤ 1e-8 := h
      obtain ⟨lat, m, hm, h1m, hle⟩ := ih f (Geoloc.geodStep a b z r φ) hb (by omega)
      rw [hm]
      exact ⟨lat, m + 1, rfl, by omega, by omega⟩

/-- from the code's initial value `atan2(z, r)`: at most 4 passes -/
theorem geodLoop_terminates_init {a b : ℝ} (ha : 0 < a) (he : EccOK (ecc2ab a b)) {z r : ℝ}
    (hr : 0 ≤ r) (hp : (0.99 * a) ^ 2 ≤ r ^ 2 + z ^ 2) {fuel : ℕ} (hf : 4 ≤ fuel) :
    ∃ lat n, Geoloc.geodLoop a b z r fuel (Complex.arg ⟨r, z⟩) = some (lat, n) ∧ 1 ≤ n ∧ n ≤ 4 := by
  apply geodLoop_terminates_aux a b z r (geodStep_lipschitz' ha he hr hp) 3 fuel _ _ (by omega)
  have h := geodStep_first_step ha he hr hp (Complex.arg ⟨r, z⟩)
  calc _ ≤ 7 / 1000 * (7 / 1000 : ℝ) ^ 3 := mul_le_mul_of_nonneg_right h (by positivity)
    _ ≤ 1e-8 := by norm_num

/-- every exit of `geodLoop` started in `[−π/2, π/2]` returns a body output whose input `φ` was in
    `[−π/2, π/2]` and met the `allclose` test -/
theorem geodLoop_some {a : ℝ} (ha : 0 < a) (b : ℝ) {z r : ℝ} (hr : 0 ≤ r) :
    ∀ (fuel : ℕ) (φ0 lat : ℝ) (n : ℕ), |φ0| ≤ π / 2 →
      Geoloc.geodLoop a b z r fuel φ0 = some (lat, n) →
      ∃ φ, |φ| ≤ π / 2 ∧ Geoloc.geodStep a b z r φ = lat ∧ |lat - φ| ≤ 1e-8 + 1e-5 * |φ| := by
  intro fuel
  induction fuel with
  | zero => intro φ0 lat n _ h; simp [Geoloc.geodLoop] at h
  | succ k ih =>
    intro φ0 lat n h0 h
    rw [geodLoop_succ] at h
    split_ifs at h with hex
    · simp only [Option.some.injEq, Prod.mk.injEq] at h
      refine ⟨φ0, h0, h.1, ?_⟩
      rw [← h.1]; exact hex
    · cases hrec : Geoloc.geodLoop a b z r k (Geoloc.geodStep a b z r φ0) with
      | none => simp [hrec] at h
      | some res =>
        obtain ⟨l, m⟩ := res
        simp only [hrec, Option.map_some, Option.some.injEq, Prod.mk.injEq] at h
        obtain ⟨rfl, _⟩ := h
        exact ih _ _ _ (geodStep_abs_le ha b hr φ0) hrec

/-- distance of the exit value from any fixed point: `≤ 1.2e-7 rad` (the `allclose` exit test is loose:
    `1e-8 + 1e-5·|φ|`) -/
theorem geodLoop_exit_close {a b : ℝ} (ha : 0 < a) (he : EccOK (ecc2ab a b)) {z r : ℝ}
    (hr : 0 ≤ r) (hp : (0.99 * a) ^ 2 ≤ r ^ 2 + z ^ 2) {fuel : ℕ} {φ0 lat : ℝ} {n : ℕ} (h0 : |φ0| ≤ π / 2)
    (h : Geoloc.geodLoop a b z r fuel φ0 = some (lat, n))
    {φs : ℝ} (hfix : Geoloc.geodStep a b z r φs = φs) : |lat - φs| ≤ 1.2e-7 := by
  have hL := geodStep_lipschitz' ha he hr hp
  obtain ⟨φ, hφ, hstep, hclose⟩ := geodLoop_some ha b hr fuel φ0 lat n h0 h
  have h1 := hL φ φs
  rw [hstep, hfix] at h1
  have h2 : |φ - φs| ≤ |φ - lat| + |lat - φs| := by
    have := abs_add_le (φ - lat) (lat - φs)
    rwa [sub_add_sub_cancel] at this
  have h3 : |φ - lat| = |lat - φ| := abs_sub_comm _ _
  have hpi := Real.pi_lt_d2
  linarith

/-- Banach: `geodStep` has exactly one fixed point -/
theorem geodStep_fixpoint_unique {a b : ℝ} (ha : 0 < a) (he : EccOK (ecc2ab a b)) {z r : ℝ}
    (hr : 0 ≤ r) (hp : (0.99 * a) ^ 2 ≤ r ^ 2 + z ^ 2) : ∃! φ : ℝ, Geoloc.geodStep a b z r φ = φ := by
  have hL := geodStep_lipschitz' ha he hr hp
  have hc : ContractingWith (7 / 1000 : NNReal) (fun φ : ℝ => Geoloc.geodStep a b z r φ) := by
    refine ⟨by norm_num, LipschitzWith.of_dist_le_mul (fun x y => ?_)⟩
    rw [Real.dist_eq, Real.dist_eq]
    have := hL x y
    push_cast
    exact this
  refine ⟨ContractingWith.fixedPoint _ hc, hc.fixedPoint_isFixedPt, fun y hy => ?_⟩
  have hx : Geoloc.geodStep a b z r (ContractingWith.fixedPoint _ hc) = ContractingWith.fixedPoint _ hc :=
    hc.fixedPoint_isFixedPt
  set x := ContractingWith.fixedPoint _ hc
  have h := hL y x
  simp only at hy
  rw [hy, hx] at h
  have h0 := abs_nonneg (y - x)
  have : |y - x| = 0 := by linarith
  linarith [abs_eq_zero.1 this]

/-- every point on or outside an ellipsoid with `0.99 a ≤ b ≤ a` is at distance `≥ 0.99 a` from the centre -/
theorem outside_ellipsoid {a b x y z : ℝ} (ha : 0 < a) (hb : 0 < b) (hba : b ≤ a) (hb99 : 0.99 * a ≤ b)
    (h : 1 ≤ x ^ 2 / a ^ 2 + y ^ 2 / a ^ 2 + z ^ 2 / b ^ 2) :
    (0.99 * a) ^ 2 ≤ x ^ 2 + y ^ 2 + z ^ 2 := by
  have hb2 : (0.99 * a) ^ 2 ≤ b ^ 2 := pow_le_pow_left₀ (by positivity) hb99 2
  have hab2 : b ^ 2 ≤ a ^ 2 := pow_le_pow_left₀ hb.le hba 2
  have ha2 : 0 < a ^ 2 := by positivity
  have hbb : 0 < b ^ 2 := by positivity
  have hx : b ^ 2 * (x ^ 2 / a ^ 2) ≤ x ^ 2 := by
    rw [mul_div_assoc', div_le_iff₀ ha2]; nlinarith [sq_nonneg x]
  have hy : b ^ 2 * (y ^ 2 / a ^ 2) ≤ y ^ 2 := by
    rw [mul_div_assoc', div_le_iff₀ ha2]; nlinarith [sq_nonneg y]
  have hz : b ^ 2 * (z ^ 2 / b ^ 2) = z ^ 2 := by field_simp
  have := mul_le_mul_of_nonneg_left h hbb.le
  nlinarith

theorem B_val : (Geoloc.B : ℝ) = 6356.75231414 := by
  simp only [Geoloc.B, Gen.geoloc_B, r_ofSci]

end PV.C04C
