/-
  PV.Lemmas.C03Loop — the rise/fall pairing loop of `get_next_passes` on crossing *indices*
  (core Lean only): `loopIdx`, its membership characterisation and its order.
-/
import PV.Model.Passes
namespace PV.C03L
open PV PV.Passes

/-- the code's `elev[guess] < 0` -/
def riseAt {α : Type} [Num α] (e : List α) (g : Nat) : Bool :=
  match e[g]? with
  | some x => Num.lt x (0 : α)
  | none => false

/-- the loop of `get_next_passes` on indices only: state = index of the latest rise crossing -/
def loopIdx (R : Nat → Bool) : List Nat → Option Nat → List (Nat × Nat)
  | [], _ => []
  | g :: gs, r =>
    if R g then loopIdx R gs (some g)
    else
      match r with
      | none => loopIdx R gs none
      | some g1 => (g1, g) :: loopIdx R gs (some g1)

/-- Membership in the output of the pairing loop (strictly increasing crossing list):
    `(a, b)` is emitted iff `b` is a fall crossing and `a` is the LAST rise crossing before `b`
    (or the rise inherited from the initial state when no rise crossing precedes `b`). -/
theorem mem_loopIdx (R : Nat → Bool) (gs : List Nat) (hs : gs.Pairwise (· < ·)) (r : Option Nat) (a b : Nat) :
    (a, b) ∈ loopIdx R gs r ↔
      b ∈ gs ∧ R b = false ∧
        ((a ∈ gs ∧ a < b ∧ R a = true ∧ ∀ k ∈ gs, a < k → k < b → R k = false) ∨
         (r = some a ∧ ∀ k ∈ gs, k < b → R k = false)) := by
  induction gs generalizing r with
  | nil => simp [loopIdx]
  | cons g gs ih =>
    rw [List.pairwise_cons] at hs
    obtain ⟨hg, hs'⟩ := hs
    unfold loopIdx
    by_cases hR : R g = true
    · simp only [hR, if_true]
      rw [ih hs']
      constructor
      · rintro ⟨hb, hRb, h⟩
        have hgb : g < b := hg b hb
        refine ⟨List.mem_cons_of_mem _ hb, hRb, ?_⟩
        rcases h with ⟨ha, hab, hRa, hk⟩ | ⟨hga, hk⟩
        · left
          refine ⟨List.mem_cons_of_mem _ ha, hab, hRa, ?_⟩
          intro k hk' h1 h2
          rcases List.mem_cons.mp hk' with rfl | hk''
          · have := hg a ha; omega
          · exact hk k hk'' h1 h2
        · left
          have : g = a := by simpa using hga
          subst this
          refine ⟨List.mem_cons_self, hgb, hR, ?_⟩
          intro k hk' h1 h2
          rcases List.mem_cons.mp hk' with rfl | hk''
          · omega
          · exact hk k hk'' h2
      · rintro ⟨hb, hRb, h⟩
        have hb' : b ∈ gs := by
          rcases List.mem_cons.mp hb with rfl | hb'
          · rw [hR] at hRb; cases hRb
          · exact hb'
        have hgb : g < b := hg b hb'
        refine ⟨hb', hRb, ?_⟩
        rcases h with ⟨ha, hab, hRa, hk⟩ | ⟨_, hk⟩
        · rcases List.mem_cons.mp ha with rfl | ha'
          · right
            refine ⟨rfl, ?_⟩
            intro k hk' h2
            exact hk k (List.mem_cons_of_mem _ hk') (hg k hk') h2
          · left
            exact ⟨ha', hab, hRa, fun k hk' h1 h2 => hk k (List.mem_cons_of_mem _ hk') h1 h2⟩
        · have := hk g List.mem_cons_self hgb
          rw [hR] at this; cases this
    · have hRf : R g = false := by simpa using hR
      simp only [hRf, Bool.false_eq_true, if_false]
      cases r with
      | none =>
        simp only
        rw [ih hs']
        constructor
        · rintro ⟨hb, hRb, h⟩
          refine ⟨List.mem_cons_of_mem _ hb, hRb, ?_⟩
          rcases h with ⟨ha, hab, hRa, hk⟩ | ⟨hga, _⟩
          · left
            refine ⟨List.mem_cons_of_mem _ ha, hab, hRa, ?_⟩
            intro k hk' h1 h2
            rcases List.mem_cons.mp hk' with rfl | hk''
            · have := hg a ha; omega
            · exact hk k hk'' h1 h2
          · cases hga
        · rintro ⟨hb, hRb, h⟩
          rcases h with ⟨ha, hab, hRa, hk⟩ | ⟨hga, _⟩
          · have ha' : a ∈ gs := by
              rcases List.mem_cons.mp ha with rfl | ha'
              · rw [hRf] at hRa; cases hRa
              · exact ha'
            have hb' : b ∈ gs := by
              rcases List.mem_cons.mp hb with rfl | hb'
              · have := hg a ha'; omega
              · exact hb'
            exact ⟨hb', hRb, Or.inl ⟨ha', hab, hRa, fun k hk' h1 h2 => hk k (List.mem_cons_of_mem _ hk') h1 h2⟩⟩
          · cases hga
      | some g1 =>
        simp only [List.mem_cons, Prod.mk.injEq]
        rw [ih hs']
        constructor
        · rintro (⟨rfl, rfl⟩ | ⟨hb, hRb, h⟩)
          · refine ⟨Or.inl rfl, hRf, Or.inr ⟨rfl, ?_⟩⟩
            intro k hk' h2
            rcases hk' with rfl | hk''
            · omega
            · have := hg k hk''; omega
          · refine ⟨Or.inr hb, hRb, ?_⟩
            rcases h with ⟨ha, hab, hRa, hk⟩ | ⟨hga, hk⟩
            · left
              refine ⟨Or.inr ha, hab, hRa, ?_⟩
              intro k hk' h1 h2
              rcases hk' with rfl | hk''
              · have := hg a ha; omega
              · exact hk k hk'' h1 h2
            · right
              refine ⟨hga, ?_⟩
              intro k hk' h2
              rcases hk' with rfl | hk''
              · exact hRf
              · exact hk k hk'' h2
        · rintro ⟨hb, hRb, h⟩
          rcases hb with rfl | hb'
          · left
            rcases h with ⟨ha, hab, hRa, _⟩ | ⟨hga, _⟩
            · rcases ha with rfl | ha'
              · omega
              · have := hg a ha'; omega
            · exact ⟨by simpa using hga.symm, rfl⟩
          · right
            refine ⟨hb', hRb, ?_⟩
            rcases h with ⟨ha, hab, hRa, hk⟩ | ⟨hga, hk⟩
            · rcases ha with rfl | ha'
              · rw [hRf] at hRa; cases hRa
              · exact Or.inl ⟨ha', hab, hRa, fun k hk' h1 h2 => hk k (Or.inr hk') h1 h2⟩
            · exact Or.inr ⟨hga, fun k hk' h2 => hk k (Or.inr hk') h2⟩

/-- every emitted fall index is an element of the crossing list -/
theorem snd_mem_of_mem_loopIdx (R : Nat → Bool) (gs : List Nat) (r : Option Nat) (p : Nat × Nat)
    (h : p ∈ loopIdx R gs r) : p.2 ∈ gs := by
  induction gs generalizing r with
  | nil => simp [loopIdx] at h
  | cons g gs ih =>
    unfold loopIdx at h
    split at h
    · exact List.mem_cons_of_mem _ (ih _ h)
    · split at h
      · exact List.mem_cons_of_mem _ (ih _ h)
      · rcases List.mem_cons.mp h with rfl | h'
        · exact List.mem_cons_self
        · exact List.mem_cons_of_mem _ (ih _ h')

/-- the emitted passes are in the order of their fall crossings -/
theorem loopIdx_sorted (R : Nat → Bool) (gs : List Nat) (hs : gs.Pairwise (· < ·)) (r : Option Nat) :
    (loopIdx R gs r).Pairwise (fun p q => p.2 < q.2) := by
  induction gs generalizing r with
  | nil => simp [loopIdx]
  | cons g gs ih =>
    rw [List.pairwise_cons] at hs
    obtain ⟨hg, hs'⟩ := hs
    unfold loopIdx
    split
    · exact ih hs' _
    · split
      · exact ih hs' _
      · rw [List.pairwise_cons]
        refine ⟨?_, ih hs' _⟩
        intro q hq
        exact hg _ (snd_mem_of_mem_loopIdx R gs _ q hq)

end PV.C03L
