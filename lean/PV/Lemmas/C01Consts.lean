/-
  C01 helper lemmas, part 1: the constants (tie T-B) and the common set-up.
-/
import PV.NumReal
import PV.Model.Sgp4
import PV.Spec.Str3
import Mathlib.Tactic.NormNum.Basic
import Mathlib.Tactic.NormNum.OfScientific
import Mathlib.Tactic.Ring
import Mathlib.Tactic.Linarith

namespace PV.C01
open PV PV.Sgp4

/-- the report's element set that corresponds to the code's `OrbitElements`
    (`Str3.El.xno` is the TLE's Kozai mean motion = the model's `xn_0`) -/
def toEl (e : Sgp4.Elements ℝ) : Str3.El ℝ :=
  ⟨e.xn_0, e.eo, e.xincl, e.omegao, e.xmo, e.xnodeo, e.bstar⟩

@[simp] theorem toEl_xno (e : Sgp4.Elements ℝ) : (toEl e).xno = e.xn_0 := rfl
@[simp] theorem toEl_eo (e : Sgp4.Elements ℝ) : (toEl e).eo = e.eo := rfl
@[simp] theorem toEl_xincl (e : Sgp4.Elements ℝ) : (toEl e).xincl = e.xincl := rfl
@[simp] theorem toEl_omegao (e : Sgp4.Elements ℝ) : (toEl e).omegao = e.omegao := rfl
@[simp] theorem toEl_xmo (e : Sgp4.Elements ℝ) : (toEl e).xmo = e.xmo := rfl
@[simp] theorem toEl_xnodeo (e : Sgp4.Elements ℝ) : (toEl e).xnodeo = e.xnodeo := rfl
@[simp] theorem toEl_bstar (e : Sgp4.Elements ℝ) : (toEl e).bstar = e.bstar := rfl

/-- turn a generic `Num` term read over ℝ into ordinary Mathlib notation -/
macro "c01_bridge" : tactic => `(tactic| (
  simp only [PV.r_add, PV.r_sub, PV.r_mul, PV.r_div, PV.r_neg, PV.r_ofNat,
    PV.r_ofNat', PV.r_ofSci, PV.r_sqrt, PV.r_sin, PV.r_cos, PV.r_abs, PV.r_sign, PV.r_rpow, PV.r_pi, PV.r_lt, PV.r_le,
    PV.r_gt, PV.r_ge, PV.r_atan2]
  try simp only [Nat.cast_ofNat, Nat.cast_one, Nat.cast_zero]))

/-! ### T-B: every generated constant the model uses equals the report's literal -/

theorem XKE_eq : (Gen.orbital_XKE : ℝ) = Str3.XKE := by
  simp only [Gen.orbital_XKE, Str3.XKE, r_ofSci]
theorem CK2_eq : (Gen.orbital_CK2 : ℝ) = Str3.CK2 := by
  simp only [Gen.orbital_CK2, Str3.CK2, r_ofSci]; norm_num1
theorem CK4_eq : (Gen.orbital_CK4 : ℝ) = Str3.CK4 := by
  simp only [Gen.orbital_CK4, Str3.CK4, r_ofSci]
theorem QOMS2T_eq : (Gen.orbital_QOMS2T : ℝ) = Str3.QOMS2T := by
  simp only [Gen.orbital_QOMS2T, Str3.QOMS2T, r_ofSci]
theorem XKMPER_eq : (Gen.orbital_XKMPER : ℝ) = Str3.XKMPER := by
  simp only [Gen.orbital_XKMPER, Str3.XKMPER, r_ofSci]
theorem XMNPDA_eq : (Gen.orbital_XMNPDA : ℝ) = Str3.XMNPDA := by
  simp only [Gen.orbital_XMNPDA, Str3.XMNPDA]
theorem AE_eq : (Gen.orbital_AE : ℝ) = 1 := by
  simp only [Gen.orbital_AE, r_ofNat]; simp only [Nat.cast_one]
theorem SECDAY_eq : (Gen.orbital_SECDAY : ℝ) = 86400 := by
  simp only [Gen.orbital_SECDAY, r_ofNat]
theorem KS_eq : (Gen.orbital_KS : ℝ) = Str3.S := by
  simp only [Gen.orbital_KS, Gen.orbital_AE, Gen.orbital_S0, Gen.orbital_XKMPER, Str3.S, Str3.XKMPER,
    r_ofSci, r_ofNat, r_add, r_mul, r_div]
  norm_num
theorem A3OVK2_eq : (Gen.orbital_A3OVK2 : ℝ) = Str3.A3OVK2 := by
  simp only [Gen.orbital_A3OVK2, Gen.orbital_AE, Gen.orbital_XJ3, Gen.orbital_CK2, Str3.A3OVK2, Str3.XJ3, Str3.CK2,
    r_ofSci, r_ofNat, r_neg, r_mul, r_div]
  norm_num
theorem PERIOD_DEEP_eq : (Gen.orbital___SGDP4Base__set_mode_L0 : ℝ) = 225 := by
  simp only [Gen.orbital___SGDP4Base__set_mode_L0, r_ofNat]
theorem PERIGEE_SIMP_eq : (Gen.orbital___SGDP4Base__set_mode_L1 : ℝ) = 220 := by
  simp only [Gen.orbital___SGDP4Base__set_mode_L1, r_ofNat]
theorem PERIGEE_S4_eq : (Gen.orbital___SGDP4Base__get_s4_qoms24_L0 : ℝ) = 156 := by
  simp only [Gen.orbital___SGDP4Base__get_s4_qoms24_L0, r_ofNat]
theorem S4_OFFSET_eq : (Gen.orbital___SGDP4Base__get_s4_qoms24_L1 : ℝ) = 78 := by
  simp only [Gen.orbital___SGDP4Base__get_s4_qoms24_L1, r_ofNat]
theorem S4_MIN_eq : (Gen.orbital___SGDP4Base__get_s4_qoms24_L2 : ℝ) = 20 := by
  simp only [Gen.orbital___SGDP4Base__get_s4_qoms24_L2, r_ofNat]
theorem S4_MIN'_eq : (Gen.orbital___SGDP4Base__get_s4_qoms24_L3 : ℝ) = 20 := by
  simp only [Gen.orbital___SGDP4Base__get_s4_qoms24_L3, r_ofNat]
theorem Q0_eq : (Gen.orbital___SGDP4Base__get_s4_qoms24_L4 : ℝ) = 120 := by
  simp only [Gen.orbital___SGDP4Base__get_s4_qoms24_L4, r_ofNat]
theorem ECC_ALL_eq : (Gen.orbital_ECC_ALL : ℝ) = 1e-4 := by
  simp only [Gen.orbital_ECC_ALL, r_ofSci]
theorem EPS_COS_eq : (Gen.orbital_EPS_COS : ℝ) = 1.5e-12 := by
  simp only [Gen.orbital_EPS_COS, r_ofSci]
theorem ECC_EPS_eq : (Gen.orbital_ECC_EPS : ℝ) = 1e-6 := by
  simp only [Gen.orbital_ECC_EPS, r_ofSci]
theorem ECC_LIMIT_HIGH_eq : (Gen.orbital_ECC_LIMIT_HIGH : ℝ) = 1 - 1e-6 := by
  simp only [Gen.orbital_ECC_LIMIT_HIGH, Gen.orbital_ECC_EPS, r_ofSci, r_ofNat, r_sub]; simp only [Nat.cast_one]
theorem NR_EPS_eq : (Gen.orbital_NR_EPS : ℝ) = 1e-12 := by
  simp only [Gen.orbital_NR_EPS, r_ofSci]
theorem ECC_LIMIT_LOW_eq : (Gen.orbital_ECC_LIMIT_LOW : ℝ) = -1e-3 := by
  simp only [Gen.orbital_ECC_LIMIT_LOW, r_ofSci, r_neg]

/-- rewrite the model's generated constants into the report's names / literals -/
macro "c01_consts" : tactic => `(tactic| simp only [XKE_eq, CK2_eq, CK4_eq, QOMS2T_eq, XKMPER_eq, XMNPDA_eq, AE_eq, SECDAY_eq,
  KS_eq, A3OVK2_eq, PERIOD_DEEP_eq, PERIGEE_SIMP_eq, PERIGEE_S4_eq, S4_OFFSET_eq, S4_MIN_eq, S4_MIN'_eq, Q0_eq,
  ECC_ALL_eq, EPS_COS_eq, ECC_EPS_eq, ECC_LIMIT_HIGH_eq, NR_EPS_eq, ECC_LIMIT_LOW_eq])

theorem XKMPER_val : (Str3.XKMPER : ℝ) = 6378.135 := by simp only [Str3.XKMPER, r_ofSci]
theorem XKMPER_pos : (0 : ℝ) < Str3.XKMPER := by rw [XKMPER_val]; norm_num
theorem XKE_pos : (0 : ℝ) < Str3.XKE := by simp only [Str3.XKE, r_ofSci]; norm_num
theorem XMNPDA_val : (Str3.XMNPDA : ℝ) = 1440 := by simp only [Str3.XMNPDA, r_ofNat]
theorem TOTHRD_val : (Str3.TOTHRD : ℝ) = 2 / 3 := by
  simp only [Str3.TOTHRD, r_ofNat, r_div]

end PV.C01
