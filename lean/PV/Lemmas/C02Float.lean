/-
  `float(text)` of PV.Model.Text on the TLE column shapes.  Core Lean only.
-/
import PV.Lemmas.C02Text
set_option linter.unusedSimpArgs false
namespace PV.C02
open PV.Text

/-- the part of `pyFloat` after sign removal -/
def floatBody (neg : Bool) (body : List Char) : Py Dec :=
  if body.any (fun c => c = 'n' || c = 'i') then .outOfModel else
  let mantS := body.takeWhile (· ≠ 'e')
  let expS := body.dropWhile (· ≠ 'e')
  match parseFixed mantS with
  | none => .valueError
  | some (ds, nfrac) =>
    let m : Int := natOfDigits ds
    let m := if neg then -m else m
    match expS with
    | [] => .ok ⟨m, -(nfrac : Int)⟩
    | _ :: e =>
      match pyFloat.pyIntNoWs e with
      | some k => .ok ⟨m, k - nfrac⟩
      | none => .valueError

abbrev badF : Char → Bool := fun c => decide (c = '_') || decide (c.toNat ≥ 128)
abbrev lowF : Char → Char := fun c => if 65 ≤ c.toNat ∧ c.toNat ≤ 90 then Char.ofNat (c.toNat + 32) else c

/-- `pyFloat` = strip, lower-case, sign, body -/
theorem pyFloat_neg {s r : List Char} (hs : numStrip s = '-' :: r)
    (hb : ('-' :: r).any badF = false) (hl : ('-' :: r).map lowF = '-' :: r) :
    pyFloat s = floatBody true r := by
  unfold pyFloat
  simp only [hs, hb, hl, Bool.false_eq_true, ↓reduceIte]
  rfl

theorem pyFloat_pos {s r : List Char} (hs : numStrip s = '+' :: r)
    (hb : ('+' :: r).any badF = false) (hl : ('+' :: r).map lowF = '+' :: r) :
    pyFloat s = floatBody false r := by
  unfold pyFloat
  simp only [hs, hb, hl, Bool.false_eq_true, ↓reduceIte]
  rfl

theorem pyFloat_plain {s t : List Char} (hs : numStrip s = t)
    (hb : t.any badF = false) (hl : t.map lowF = t)
    (h1 : ∀ r, t ≠ '-' :: r) (h2 : ∀ r, t ≠ '+' :: r) :
    pyFloat s = floatBody false t := by
  unfold pyFloat
  simp only [hs, hb, hl, Bool.false_eq_true, ↓reduceIte]
  rfl

/-! ### the body on `ip.fr` and `.fr e±d` -/

theorem not_e_of_digits {s : List Char} (h : s.all isAsciiDigit = true) :
    ∀ a ∈ s, (fun x => decide (x ≠ 'e')) a = true := by
  intro a ha
  simp only [decide_eq_true_eq]
  exact digit_ne (all_digits_mem h a ha) _ (by decide)

theorem parseFixed_point {ip fr : List Char} (hip : ip.all isAsciiDigit = true) (hfr : fr.all isAsciiDigit = true)
    (hne : (ip.isEmpty && fr.isEmpty) = false) :
    parseFixed (ip ++ '.' :: fr) = some (ip ++ fr, fr.length) := by
  unfold parseFixed
  have h1 : List.takeWhile isAsciiDigit (ip ++ '.' :: fr) = ip := by
    rw [List.takeWhile_append_of_pos (all_digits_mem hip)]
    simp [List.takeWhile_cons, isAsciiDigit]
  have h2 : List.dropWhile isAsciiDigit (ip ++ '.' :: fr) = '.' :: fr := by
    rw [List.dropWhile_append_of_pos (all_digits_mem hip)]
    simp [List.dropWhile_cons, isAsciiDigit]
  simp only [h1, h2, hfr, hne]
  rfl

def sgn (neg : Bool) (n : Nat) : Int := if neg then -(n : Int) else n

theorem floatBody_fixed (neg : Bool) {ip fr : List Char} (hip : ip.all isAsciiDigit = true)
    (hfr : fr.all isAsciiDigit = true) (hne : (ip.isEmpty && fr.isEmpty) = false) :
    floatBody neg (ip ++ '.' :: fr) = .ok ⟨sgn neg (natOfDigits (ip ++ fr)), -(fr.length : Int)⟩ := by
  unfold floatBody
  have hni : (ip ++ '.' :: fr).any (fun c => decide (c = 'n') || decide (c = 'i')) = false := by
    rw [List.any_append, List.any_cons]
    have a := digits_any_ni hip
    have b := digits_any_ni hfr
    unfold isNI at a b
    rw [a, b]; decide
  have hall : ∀ a ∈ ip ++ '.' :: fr, (fun x => decide (x ≠ 'e')) a = true := by
    intro a ha
    rw [List.mem_append, List.mem_cons] at ha
    rcases ha with ha | ha | ha
    · exact not_e_of_digits hip a ha
    · subst ha; decide
    · exact not_e_of_digits hfr a ha
  have ht : List.takeWhile (fun x => decide (x ≠ 'e')) (ip ++ '.' :: fr) = ip ++ '.' :: fr := by
    have := List.takeWhile_append_of_pos (l₂ := []) hall
    simpa using this
  have hd : List.dropWhile (fun x => decide (x ≠ 'e')) (ip ++ '.' :: fr) = [] := by
    have := List.dropWhile_append_of_pos (l₂ := []) hall
    simpa using this
  simp only [hni, ht, hd, parseFixed_point hip hfr hne, Bool.false_eq_true, ↓reduceIte]
  cases neg <;> rfl

theorem floatBody_expo (neg : Bool) {fr : List Char} {es ed : Char} (hfr : fr.all isAsciiDigit = true)
    (hne : fr.isEmpty = false) (hes : es = '+' ∨ es = '-') (hed : isAsciiDigit ed = true) :
    floatBody neg ('.' :: (fr ++ 'e' :: [es, ed])) =
      .ok ⟨sgn neg (natOfDigits fr), (if es = '-' then -(digitVal ed : Int) else (digitVal ed : Int)) - (fr.length : Int)⟩ := by
  unfold floatBody
  have hni : ('.' :: (fr ++ 'e' :: [es, ed])).any (fun c => decide (c = 'n') || decide (c = 'i')) = false := by
    rw [List.any_cons, List.any_append]
    have b := digits_any_ni hfr
    have c := digit_ni hed
    unfold isNI at b c
    rw [b]
    rcases hes with h | h <;> subst h <;> simp [c]
  have hall : ∀ a ∈ '.' :: fr, (fun x => decide (x ≠ 'e')) a = true := by
    intro a ha
    rw [List.mem_cons] at ha
    rcases ha with ha | ha
    · subst ha; decide
    · exact not_e_of_digits hfr a ha
  have happ : '.' :: (fr ++ 'e' :: [es, ed]) = ('.' :: fr) ++ 'e' :: [es, ed] := rfl
  have ht : List.takeWhile (fun x => decide (x ≠ 'e')) ('.' :: (fr ++ 'e' :: [es, ed])) = [] ++ '.' :: fr := by
    rw [happ, List.takeWhile_append_of_pos hall]; simp [List.takeWhile_cons]
  have hd : List.dropWhile (fun x => decide (x ≠ 'e')) ('.' :: (fr ++ 'e' :: [es, ed])) = 'e' :: [es, ed] := by
    rw [happ, List.dropWhile_append_of_pos hall]; simp [List.dropWhile_cons]
  have hpf := parseFixed_point (ip := []) (fr := fr) (by rfl) hfr (by simp [hne])
  have had : allDigits [ed] = true := by simp [allDigits, hed]
  have hnd : natOfDigits [ed] = digitVal ed := by simp [natOfDigits]
  simp only [hni, ht, hd, hpf, Bool.false_eq_true, ↓reduceIte]
  rcases hes with h | h <;> subst h <;> cases neg <;>
    simp [pyFloat.pyIntNoWs, had, hnd, sgn]

end PV.C02
