/-
  Helper lemmas for C14Bound: `PV.Geoloc.subpoint` / `geodeticLat` (geoloc.py, km, `np.allclose` exit)
  reduced to the meridian-plane core PV/Lemmas/C14BoundCore.lean, and the 3-D assembly
  (distance of the query point from the normal line through the returned subpoint).
-/
import PV.Lemmas.C14BoundCore
import PV.Lemmas.C04ContractGeod

namespace PV.C14B
open PV PV.C14L PV.C04C PV.GeoB Real

/-- what `subpoint` returns: the ellipsoid point at the latitude `geodetic_lat` returned (always for the
    default A, B) and the longitude `atan2(y, x)` -/
theorem subpoint_some {q s : V3 ℝ} {a b : ℝ} {fuel : ℕ} (h : Geoloc.subpoint q a b fuel = some s) :
    ∃ lat n, Geoloc.geodeticLat q Geoloc.A Geoloc.B fuel = some (lat, n) ∧
      s = Geoloc.ellipsoidPoint a b lat (Complex.arg ⟨q.x, q.y⟩) := by
  unfold Geoloc.subpoint at h
  split at h
  · exact absurd h (by simp)
  · rename_i lat n hlat
    injection h with h
    exact ⟨lat, n, hlat, by rw [← h, r_atan2]⟩

/-- `geodetic_lat` over ℝ: the loop started at `atan2(z, r)`, `r = √(x² + y²)` -/
theorem geodeticLat_real (q : V3 ℝ) (a b : ℝ) (fuel : ℕ) :
    Geoloc.geodeticLat q a b fuel =
      Geoloc.geodLoop a b q.z (√(q.x ^ 2 + q.y ^ 2)) fuel (Complex.arg ⟨√(q.x ^ 2 + q.y ^ 2), q.z⟩) := by
  have hs : q.x * q.x + q.y * q.y = q.x ^ 2 + q.y ^ 2 := by ring
  simp only [Geoloc.geodeticLat, r_sqrt, r_mul, r_atan2, hs]

/-- `(x, y) = r (cos λ, sin λ)` for `r = √(x² + y²)`, `λ = atan2(y, x)`; on the polar axis both sides are 0 -/
theorem xy_polar0 (x y : ℝ) :
    x = √(x ^ 2 + y ^ 2) * cos (Complex.arg ⟨x, y⟩) ∧ y = √(x ^ 2 + y ^ 2) * sin (Complex.arg ⟨x, y⟩) := by
  by_cases hne : x ≠ 0 ∨ y ≠ 0
  · obtain ⟨ρ, hρ, h1, h2⟩ := PV.C04.arg_polar_form x y hne
    have hρ2 : x ^ 2 + y ^ 2 = ρ ^ 2 := by
      have := sin_sq_add_cos_sq (Complex.arg ⟨x, y⟩)
      linear_combination (x + ρ * cos (Complex.arg ⟨x, y⟩)) * h1 + (y + ρ * sin (Complex.arg ⟨x, y⟩)) * h2
        + ρ ^ 2 * this
    rw [hρ2, Real.sqrt_sq hρ.le]
    exact ⟨h1, h2⟩
  · rw [not_or, not_not, not_not] at hne
    rw [hne.1, hne.2]; simp

/-- the tolerance of `np.allclose(geod_lat, phi)` for a latitude in `[−π/2, π/2]` -/
theorem allclose_tol_le {φ : ℝ} (h : |φ| ≤ π / 2) : 1e-8 + 1e-5 * |φ| ≤ (1.5718e-5 : ℝ) := by
  have := Real.pi_lt_d4
  nlinarith

theorem Wden_eq_Wd (a b φ : ℝ) : Wden a b φ = Wd (ecc2ab a b) φ := rfl

/-- meridian-plane statement in km: for the latitude `lat` returned by `geodetic_lat` (default ellipsoid) the
    point `(r, z)` is within `A · 1.1e-7 ≤ 7.1e-4 km` of the normal line of the ellipse at `lat` -/
theorem meridian_dist_le {z r : ℝ} (hr : 0 ≤ r)
    (hp : (0.99 * (Geoloc.A : ℝ)) ^ 2 ≤ r ^ 2 + z ^ 2) {fuel : ℕ} {lat : ℝ} {n : ℕ}
    (h : Geoloc.geodLoop Geoloc.A Geoloc.B z r fuel (Complex.arg ⟨r, z⟩) = some (lat, n)) :
    |Dfun (ecc2ab (Geoloc.A : ℝ) Geoloc.B) (z / Geoloc.A) (r / Geoloc.A) lat| ≤ 1.1e-7 := by
  have hA : (0 : ℝ) < Geoloc.A := by rw [A_val]; norm_num
  have he := eccOK_default
  obtain ⟨φ, hφ, hstep, hclose⟩ := geodLoop_some hA Geoloc.B hr fuel _ lat n
    (Complex.abs_arg_le_pi_div_two_iff.2 hr) h
  obtain ⟨φs, hfix, -⟩ := geodStep_fixpoint_unique hA he hr hp
  rw [geodStep_eq_Tmap hA] at hstep hfix
  exact Dfun_exit_le he (div_nonneg hr hA.le) (scaled_outside hA hp) hstep hclose
    (allclose_tol_le hφ) hfix

/-- planar algebra: with `t = (q − s)·n` the residual `q − (s + t n)` has length `|(q − s) × n|` -/
theorem line_dist_sq (x y r z C S cl sl Sr Sz : ℝ) (h1 : S ^ 2 + C ^ 2 = 1) (h2 : sl ^ 2 + cl ^ 2 = 1)
    (hx : x = r * cl) (hy : y = r * sl) :
    (x - (Sr * cl + ((r - Sr) * C + (z - Sz) * S) * (C * cl)))
        * (x - (Sr * cl + ((r - Sr) * C + (z - Sz) * S) * (C * cl)))
      + (y - (Sr * sl + ((r - Sr) * C + (z - Sz) * S) * (C * sl)))
        * (y - (Sr * sl + ((r - Sr) * C + (z - Sz) * S) * (C * sl)))
      + (z - (Sz + ((r - Sr) * C + (z - Sz) * S) * S)) * (z - (Sz + ((r - Sr) * C + (z - Sz) * S) * S))
      = ((r - Sr) * S - (z - Sz) * C) ^ 2 := by
  subst hx hy
  linear_combination ((r - Sr) - ((r - Sr) * C + (z - Sz) * S) * C) ^ 2 * h2
    + (((r - Sr) * C + (z - Sz) * S) ^ 2 - (r - Sr) ^ 2 - (z - Sz) ^ 2) * h1

/-- 3-D: distance of `q` from the line `{s + t n}`, `s = ellipsoidPoint a b lat λ`, `n = geodeticNormal lat λ`,
    `λ = atan2(q.y, q.x)`, at the foot `t = (q − s)·n`, is `a |D(lat)|` -/
theorem dist_to_normal_line (q : V3 ℝ) (a b lat : ℝ) (ha : 0 < a) :
    ∃ t : ℝ, V3.norm (V3.sub q (V3.add (Geoloc.ellipsoidPoint a b lat (Complex.arg ⟨q.x, q.y⟩))
        (V3.smul t (Wgs84.geodeticNormal lat (Complex.arg ⟨q.x, q.y⟩)))))
      = a * |Dfun (ecc2ab a b) (q.z / a) (√(q.x ^ 2 + q.y ^ 2) / a) lat| := by
  obtain ⟨hx, hy⟩ := xy_polar0 q.x q.y
  have hD : (√(q.x ^ 2 + q.y ^ 2) - a / √(Wden a b lat) * cos lat) * sin lat
      - (q.z - (1 - (a * a - b * b) / (a * a)) * (a / √(Wden a b lat)) * sin lat) * cos lat
      = a * Dfun (ecc2ab a b) (q.z / a) (√(q.x ^ 2 + q.y ^ 2) / a) lat := by
    rw [Dfun_eq]
    unfold cfun
    rw [← Wden_eq_Wd]
    unfold ecc2ab
    field_simp
  have key := line_dist_sq q.x q.y (√(q.x ^ 2 + q.y ^ 2)) q.z (cos lat) (sin lat)
    (cos (Complex.arg ⟨q.x, q.y⟩)) (sin (Complex.arg ⟨q.x, q.y⟩)) (a / √(Wden a b lat) * cos lat)
    ((1 - (a * a - b * b) / (a * a)) * (a / √(Wden a b lat)) * sin lat)
    (sin_sq_add_cos_sq lat) (sin_sq_add_cos_sq _) hx hy
  rw [hD] at key
  refine ⟨(√(q.x ^ 2 + q.y ^ 2) - a / √(Wden a b lat) * cos lat) * cos lat
    + (q.z - (1 - (a * a - b * b) / (a * a)) * (a / √(Wden a b lat)) * sin lat) * sin lat, ?_⟩
  rw [ellipsoidPoint_real]
  simp only [V3.norm, V3.sub, V3.add, V3.smul, Wgs84.geodeticNormal, r_sqrt, r_add, r_sub, r_mul, r_sin, r_cos]
  refine (congrArg Real.sqrt key).trans ?_
  rw [Real.sqrt_sq_eq_abs, abs_mul, abs_of_pos ha]

/-- the normalised gradient of the ellipsoid equation at the point `ellipsoidPoint a b lat lon` is the
    geodetic normal `(cos lat cos lon, cos lat sin lon, sin lat)`: the parameter `lat` IS the geodetic
    latitude of that surface point -/
theorem unit_gradNormal (a b lat lon : ℝ) (hb : 0 < b) (hab : b < a) :
    Rodrigues.unit (Wgs84.gradNormal a b (Geoloc.ellipsoidPoint a b lat lon))
      = Wgs84.geodeticNormal lat lon := by
  have ha : 0 < a := hb.trans hab
  have hW := Wden_pos a b lat hb hab
  have hq : 0 < √(Wden a b lat) := Real.sqrt_pos.2 hW
  have hk0 : 0 < 1 / (a * √(Wden a b lat)) := by positivity
  have hg : Wgs84.gradNormal a b (Geoloc.ellipsoidPoint a b lat lon)
      = ⟨1 / (a * √(Wden a b lat)) * (cos lat * cos lon), 1 / (a * √(Wden a b lat)) * (cos lat * sin lon),
         1 / (a * √(Wden a b lat)) * sin lat⟩ := by
    rw [ellipsoidPoint_real]
    simp only [Wgs84.gradNormal, r_div, r_mul]
    apply V3.ext' <;> simp only [] <;> field_simp
    ring
  rw [unit_real, hg]
  have hn : nsq (⟨1 / (a * √(Wden a b lat)) * (cos lat * cos lon),
      1 / (a * √(Wden a b lat)) * (cos lat * sin lon), 1 / (a * √(Wden a b lat)) * sin lat⟩ : V3 ℝ)
      = (1 / (a * √(Wden a b lat))) ^ 2 := by
    unfold nsq
    simp only
    linear_combination (1 / (a * √(Wden a b lat))) ^ 2 * cos lat ^ 2 * sin_sq_add_cos_sq lon
      + (1 / (a * √(Wden a b lat))) ^ 2 * sin_sq_add_cos_sq lat
  unfold unitR
  rw [hn, Real.sqrt_sq hk0.le]
  simp only [Wgs84.geodeticNormal, r_mul, r_sin, r_cos]
  apply V3.ext' <;> simp only [] <;> field_simp

theorem sqrt_scaled {a : ℝ} (ha : 0 < a) (r z : ℝ) :
    √((r / a) ^ 2 + (z / a) ^ 2) = √(r ^ 2 + z ^ 2) / a := by
  rw [div_pow, div_pow, ← add_div, Real.sqrt_div (by positivity), Real.sqrt_sq ha.le]

/-- distance-dependent accuracy of the latitude `geodetic_lat` returns (default ellipsoid, `np.allclose` exit):
    `|lat − φ*| · (R/A − 0.01349) ≤ 0.00677 · 1.5718e-5 = 1.0642e-7`, `R = √(r² + z²)` the distance from the centre:
    `1.09e-7 rad` at the surface, `1.3e-8 rad` at 50 000 km -/
theorem geodLoop_exit_close_P {z r : ℝ} (hr : 0 ≤ r)
    (hp : (0.99 * (Geoloc.A : ℝ)) ^ 2 ≤ r ^ 2 + z ^ 2) {fuel : ℕ} {lat : ℝ} {n : ℕ}
    (h : Geoloc.geodLoop Geoloc.A Geoloc.B z r fuel (Complex.arg ⟨r, z⟩) = some (lat, n))
    {φs : ℝ} (hfix : Geoloc.geodStep Geoloc.A Geoloc.B z r φs = φs) :
    |lat - φs| * (√(r ^ 2 + z ^ 2) / Geoloc.A - 0.01349) ≤ 0.00677 * 1.5718e-5 := by
  have hA : (0 : ℝ) < Geoloc.A := by rw [A_val]; norm_num
  have he := eccOK_default
  obtain ⟨φ, hφ, hstep, hclose⟩ := geodLoop_some hA Geoloc.B hr fuel _ lat n
    (Complex.abs_arg_le_pi_div_two_iff.2 hr) h
  rw [geodStep_eq_Tmap hA] at hstep hfix
  have h1 := exit_close_P he (div_nonneg hr hA.le) (scaled_outside hA hp) hstep hclose hfix
  rw [sqrt_scaled hA] at h1
  have h2 := allclose_tol_le hφ
  linarith

/-- every point on or outside the default ellipsoid is at least `0.99 A` from the centre, in the
    meridian-plane form (`r = √(x² + y²)`) the lemmas use -/
theorem outside_meridian (q : V3 ℝ)
    (hq : 1 ≤ q.x ^ 2 / (Geoloc.A : ℝ) ^ 2 + q.y ^ 2 / (Geoloc.A : ℝ) ^ 2 + q.z ^ 2 / (Geoloc.B : ℝ) ^ 2) :
    (0.99 * (Geoloc.A : ℝ)) ^ 2 ≤ √(q.x ^ 2 + q.y ^ 2) ^ 2 + q.z ^ 2 := by
  rw [Real.sq_sqrt (by positivity)]
  rw [A_val, B_val] at *
  exact outside_ellipsoid (by norm_num) (by norm_num) (by norm_num) (by norm_num) hq

end PV.C14B
