/-
  Helper lemmas for C05 (and C04): reduction mod 2π, the `arg (−w) + π` identity,
  the south/east/zenith rotation of `Look.topo` against the spec frame, `clip1`.
-/
import PV.NumReal
import PV.Model.Look
import PV.Spec.Topo
import Mathlib.Tactic.LinearCombination
import Mathlib.Tactic.Positivity

namespace PV.C05
open PV PV.Look PV.Spec.Topo Real

/-! ### reduction mod 2π -/

theorem pymod_two_pi (x : ℝ) : Num.pymod x ((2 : ℝ) * π) = mod2pi x := by
  simp only [r_pymod, mod2pi]

theorem two_pi_pos : (0 : ℝ) < 2 * π := by positivity

theorem mod2pi_nonneg (x : ℝ) : 0 ≤ mod2pi x := by
  have := Int.sub_floor_div_mul_nonneg x two_pi_pos
  unfold mod2pi; linarith

theorem mod2pi_lt (x : ℝ) : mod2pi x < 2 * π := by
  have := Int.sub_floor_div_mul_lt x two_pi_pos
  unfold mod2pi; linarith

theorem mod2pi_add_two_pi (x : ℝ) : mod2pi (x + 2 * π) = mod2pi x := by
  unfold mod2pi
  have h : (x + 2 * π) / (2 * π) = x / (2 * π) + 1 := by
    rw [add_div, div_self two_pi_pos.ne']
  rw [h, Int.floor_add_one]; push_cast; ring

theorem cos_mod2pi (x : ℝ) : cos (mod2pi x) = cos x := by
  unfold mod2pi
  rw [mul_comm (2 * π)]; exact cos_sub_int_mul_two_pi x _

theorem sin_mod2pi (x : ℝ) : sin (mod2pi x) = sin x := by
  unfold mod2pi
  rw [mul_comm (2 * π)]; exact sin_sub_int_mul_two_pi x _

/-- an angle already in `[0, 2π)` is not changed -/
theorem mod2pi_of_mem {x : ℝ} (h0 : 0 ≤ x) (h1 : x < 2 * π) : mod2pi x = x := by
  unfold mod2pi
  have : ⌊x / (2 * π)⌋ = 0 := by
    rw [Int.floor_eq_iff]
    constructor
    · rw [Int.cast_zero]; exact div_nonneg h0 two_pi_pos.le
    · rw [Int.cast_zero, zero_add]; exact (div_lt_one two_pi_pos).2 h1
  rw [this, Int.cast_zero, mul_zero, sub_zero]

/-! ### `atan2(−E, S) + π` against `atan2(E, −S)` -/

/-- `arg (−w) + π ≡ arg w (mod 2π)` for `w ≠ 0`, across the branch cut -/
theorem mod2pi_arg_neg_add_pi {w : ℂ} (hw : w ≠ 0) :
    mod2pi (Complex.arg (-w) + π) = mod2pi (Complex.arg w) := by
  rcases lt_trichotomy w.im 0 with hi | hi | hi
  · rw [Complex.arg_neg_eq_arg_add_pi_of_im_neg hi]
    rw [show Complex.arg w + π + π = Complex.arg w + 2 * π by ring, mod2pi_add_two_pi]
  · rcases lt_trichotomy w.re 0 with hr | hr | hr
    · rw [Complex.arg_neg_eq_arg_sub_pi_iff.2 (Or.inr ⟨hi, hr⟩)]; ring_nf
    · exact absurd (Complex.ext hr hi) hw
    · rw [Complex.arg_neg_eq_arg_add_pi_iff.2 (Or.inr ⟨hi, hr⟩)]
      rw [show Complex.arg w + π + π = Complex.arg w + 2 * π by ring, mod2pi_add_two_pi]
  · rw [Complex.arg_neg_eq_arg_sub_pi_of_im_pos hi]; ring_nf

/-! ### the rotation -/

theorem topo_theta (d lon lat : ℝ) (r : V3 ℝ) :
    (topo d lon lat r).theta = mod2pi (Astro.gmst d + lon) := by
  simp only [topo, r_mul, r_pi, r_ofNat]
  simp only [Nat.cast_ofNat, pymod_two_pi]

theorem topo_s (d lon lat : ℝ) (r : V3 ℝ) :
    (topo d lon lat r).s = -(dot r (north lat (topo d lon lat r).theta)) := by
  simp only [topo, dot, north, r_add, r_sub, r_mul, r_neg, r_sin, r_cos]; ring

theorem topo_e (d lon lat : ℝ) (r : V3 ℝ) :
    (topo d lon lat r).e = dot r (east (topo d lon lat r).theta) := by
  simp only [topo, dot, east, r_add, r_sub, r_mul, r_neg, r_sin, r_cos]; ring

theorem topo_z (d lon lat : ℝ) (r : V3 ℝ) :
    (topo d lon lat r).z = dot r (up lat (topo d lon lat r).theta) := by
  simp only [topo, dot, up, r_add, r_sub, r_mul, r_neg, r_sin, r_cos]; ring

/-- the three spec vectors are orthonormal, hence `(r·n)² + (r·e)² + (r·u)² = |r|²` -/
theorem frame_isometry (φ θ : ℝ) (r : V3 ℝ) :
    dot r (north φ θ) ^ 2 + dot r (east θ) ^ 2 + dot r (up φ θ) ^ 2 = normSq r := by
  simp only [dot, north, east, up, normSq]
  have h1 := sin_sq_add_cos_sq φ
  have h2 := sin_sq_add_cos_sq θ
  linear_combination
    (r.x ^ 2 * cos θ ^ 2 + r.y ^ 2 * sin θ ^ 2 + 2 * r.x * r.y * cos θ * sin θ + r.z ^ 2) * h1
      + (r.x ^ 2 + r.y ^ 2) * h2

theorem east_unit (θ : ℝ) : normSq (east θ) = 1 := by
  simp only [east, normSq]; have := sin_sq_add_cos_sq θ; linear_combination this
theorem north_unit (φ θ : ℝ) : normSq (north φ θ) = 1 := by
  simp only [north, normSq]
  have h1 := sin_sq_add_cos_sq φ
  have h2 := sin_sq_add_cos_sq θ
  linear_combination h1 + sin φ ^ 2 * h2
theorem up_unit (φ θ : ℝ) : normSq (up φ θ) = 1 := by
  simp only [up, normSq]
  have h1 := sin_sq_add_cos_sq φ
  have h2 := sin_sq_add_cos_sq θ
  linear_combination h1 + cos φ ^ 2 * h2
theorem east_north (φ θ : ℝ) : dot (east θ) (north φ θ) = 0 := by
  simp only [east, north, dot]; ring
theorem east_up (φ θ : ℝ) : dot (east θ) (up φ θ) = 0 := by
  simp only [east, up, dot]; ring
theorem north_up (φ θ : ℝ) : dot (north φ θ) (up φ θ) = 0 := by
  simp only [north, up, dot]
  have h2 := sin_sq_add_cos_sq θ
  linear_combination (-(sin φ * cos φ)) * h2
/-- right-handed: east × north = up -/
theorem east_cross_north (φ θ : ℝ) : cross (east θ) (north φ θ) = up φ θ := by
  simp only [east, north, up, cross]
  have h2 := sin_sq_add_cos_sq θ
  congr 1
  · ring
  · ring
  · linear_combination (sin φ) * h2

/-- the model's range `rg` is the spec norm -/
theorem rg_eq_norm (r : V3 ℝ) :
    Num.sqrt (r.x * r.x + r.y * r.y + r.z * r.z) = len r := by
  simp only [r_sqrt, len, normSq]; congr 1; ring

theorem abs_dot_up_le_norm (φ θ : ℝ) (r : V3 ℝ) : |dot r (up φ θ)| ≤ len r := by
  unfold len
  apply Real.abs_le_sqrt
  have := frame_isometry φ θ r
  nlinarith [sq_nonneg (dot r (north φ θ)), sq_nonneg (dot r (east θ))]

/-! ### clip -/

theorem clip1_eq (x : ℝ) : clip1 x = if 1 < x then 1 else if x < -1 then -1 else x := by
  simp only [clip1, r_gt, r_lt, r_neg, r_ofNat, decide_eq_true_eq]; norm_num

theorem clip1_of_abs_le {x : ℝ} (h : |x| ≤ 1) : clip1 x = x := by
  rw [clip1_eq]; rw [abs_le] at h
  rw [if_neg (by linarith), if_neg (by linarith)]

theorem clip1_bounds (x : ℝ) : -1 ≤ clip1 x ∧ clip1 x ≤ 1 := by
  rw [clip1_eq]
  split_ifs with h1 h2
  · constructor <;> norm_num
  · constructor <;> norm_num
  · constructor <;> linarith

/-! ### degrees -/

theorem deg_pos : (0 : ℝ) < 180 / π := by positivity
theorem two_pi_deg : 2 * π * (180 / π) = 360 := by
  have := pi_ne_zero; field_simp; norm_num
theorem pi_deg : π * (180 / π) = 180 := by
  have := pi_ne_zero; field_simp
theorem half_pi_deg : π / 2 * (180 / π) = 90 := by
  have := pi_ne_zero; field_simp; norm_num

/-! ### the two components of `lookModuleOfDiff` over ℝ -/

/-- observer geodetic latitude in radians as the code forms it (`np.deg2rad`) -/
noncomputable abbrev radOf (deg : ℝ) : ℝ := deg * (π / 180)

theorem look_az (d lonDeg latDeg : ℝ) (r : V3 ℝ) :
    (lookModuleOfDiff d lonDeg latDeg r).1 =
      mod2pi (Complex.arg ⟨(topo d (radOf lonDeg) (radOf latDeg) r).s,
                           -(topo d (radOf lonDeg) (radOf latDeg) r).e⟩ + π) * (180 / π) := by
  simp only [lookModuleOfDiff, r_rad2deg, r_deg2rad, r_atan2, r_add, r_mul, r_pi, r_neg, r_ofNat]
  simp only [Nat.cast_ofNat, pymod_two_pi]

theorem look_el (d lonDeg latDeg : ℝ) (r : V3 ℝ) :
    (lookModuleOfDiff d lonDeg latDeg r).2 =
      arcsin (clip1 ((topo d (radOf lonDeg) (radOf latDeg) r).z / len r)) * (180 / π) := by
  simp only [lookModuleOfDiff, r_rad2deg, r_deg2rad, r_asin, r_div, rg_eq_norm]

end PV.C05
