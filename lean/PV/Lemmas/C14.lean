/-
  Helper lemmas for C14 (rotation and geodetic helpers), over ℝ.
-/
import PV.NumReal
import PV.Model.Geoloc
import PV.Spec.Rodrigues
import PV.Spec.Wgs84
import Mathlib.Tactic.Ring
import Mathlib.Tactic.LinearCombination
import Mathlib.Tactic.FieldSimp
import Mathlib.Tactic.Positivity
import Mathlib.Tactic.NormNum
namespace PV.C14L
open PV

theorem V3.ext' {α : Type} {a b : V3 α} (hx : a.x = b.x) (hy : a.y = b.y) (hz : a.z = b.z) : a = b := by
  cases a; cases b; simp_all

/-- squared length, in plain Mathlib notation -/
def nsq (k : V3 ℝ) : ℝ := k.x ^ 2 + k.y ^ 2 + k.z ^ 2

/-- `k / |k|` in plain Mathlib notation -/
noncomputable def unitR (k : V3 ℝ) : V3 ℝ :=
  ⟨k.x / Real.sqrt (nsq k), k.y / Real.sqrt (nsq k), k.z / Real.sqrt (nsq k)⟩

/-- clockwise Rodrigues rotation as a polynomial in the unit axis `u`, `c = cos θ`, `s = sin θ` -/
def rod (u v : V3 ℝ) (c s : ℝ) : V3 ℝ :=
  ⟨v.x * c - (u.y * v.z - u.z * v.y) * s + u.x * (u.x * v.x + u.y * v.y + u.z * v.z) * (1 - c),
   v.y * c - (u.z * v.x - u.x * v.z) * s + u.y * (u.x * v.x + u.y * v.y + u.z * v.z) * (1 - c),
   v.z * c - (u.x * v.y - u.y * v.x) * s + u.z * (u.x * v.x + u.y * v.y + u.z * v.z) * (1 - c)⟩

theorem unitR_unit (k : V3 ℝ) (hk : 0 < nsq k) : nsq (unitR k) = 1 := by
  have h := Real.sq_sqrt hk.le
  have h0 : Real.sqrt (nsq k) ≠ 0 := (Real.sqrt_pos.mpr hk).ne'
  simp only [unitR]
  unfold nsq at *
  simp only []
  field_simp
  linarith

/-- the quaternion matrix applied to `v`, polynomial form (`u` the axis, `s`,`w` sine and cosine of the half angle) -/
def qmat (u v : V3 ℝ) (w s : ℝ) : V3 ℝ :=
  ⟨v.x * (w ^ 2 + (u.x * s) ^ 2 - (u.y * s) ^ 2 - (u.z * s) ^ 2)
     + v.y * (2 * (u.x * s) * (u.y * s) + 2 * (u.z * s) * w)
     + v.z * (2 * (u.x * s) * (u.z * s) - 2 * (u.y * s) * w),
   v.x * (2 * (u.x * s) * (u.y * s) - 2 * (u.z * s) * w)
     + v.y * (w ^ 2 - (u.x * s) ^ 2 + (u.y * s) ^ 2 - (u.z * s) ^ 2)
     + v.z * (2 * (u.y * s) * (u.z * s) + 2 * (u.x * s) * w),
   v.x * (2 * (u.x * s) * (u.z * s) + 2 * (u.y * s) * w)
     + v.y * (2 * (u.y * s) * (u.z * s) - 2 * (u.x * s) * w)
     + v.z * (w ^ 2 - (u.x * s) ^ 2 - (u.y * s) ^ 2 + (u.z * s) ^ 2)⟩

theorem qrotate_eq_qmat (v k : V3 ℝ) (θ : ℝ) :
    Geoloc.qrotate v k θ = qmat (unitR k) v (Real.cos (θ / 2)) (Real.sin (θ / 2)) := by
  simp only [Geoloc.qrotate, V3.norm, qmat, unitR, nsq, r_add, r_sub, r_mul, r_div, r_sq, r_sqrt, r_sin, r_cos,
    r_ofNat]
  simp only [Nat.cast_ofNat, ← pow_two]

theorem qmat_eq_rod (u v : V3 ℝ) (w s : ℝ) (hu : nsq u = 1) (hws : s ^ 2 + w ^ 2 = 1) :
    qmat u v w s = rod u v (w ^ 2 - s ^ 2) (2 * s * w) := by
  unfold nsq at hu
  apply V3.ext' <;> simp only [qmat, rod]
  · linear_combination (-v.x * s ^ 2) * hu + (u.x * (u.x * v.x + u.y * v.y + u.z * v.z)) * hws
  · linear_combination (-v.y * s ^ 2) * hu + (u.y * (u.x * v.x + u.y * v.y + u.z * v.z)) * hws
  · linear_combination (-v.z * s ^ 2) * hu + (u.z * (u.x * v.x + u.y * v.y + u.z * v.z)) * hws

theorem qrotate_eq_rod (v k : V3 ℝ) (θ : ℝ) (hk : 0 < nsq k) :
    Geoloc.qrotate v k θ = rod (unitR k) v (Real.cos θ) (Real.sin θ) := by
  rw [qrotate_eq_qmat, qmat_eq_rod _ _ _ _ (unitR_unit k hk) (Real.sin_sq_add_cos_sq _)]
  have h1 : Real.cos θ = Real.cos (θ / 2) ^ 2 - Real.sin (θ / 2) ^ 2 := by
    have := Real.cos_sq' (θ / 2); have := Real.cos_two_mul (θ / 2)
    rw [mul_div_cancel₀ _ (two_ne_zero)] at this; linarith [Real.sin_sq_add_cos_sq (θ/2)]
  have h2 : Real.sin θ = 2 * Real.sin (θ / 2) * Real.cos (θ / 2) := by
    have := Real.sin_two_mul (θ / 2); rw [mul_div_cancel₀] at this; exact this; norm_num
  rw [← h1, ← h2]

/-! ### corollaries on the polynomial form -/

def dotR (a b : V3 ℝ) : ℝ := a.x * b.x + a.y * b.y + a.z * b.z

theorem dot_real (a b : V3 ℝ) : V3.dot a b = dotR a b := by
  simp only [V3.dot, dotR, r_add, r_mul]

theorem dotR_self (a : V3 ℝ) : dotR a a = nsq a := by unfold dotR nsq; ring

theorem rod_nsq (u v : V3 ℝ) (c s : ℝ) (hu : nsq u = 1) (hcs : s ^ 2 + c ^ 2 = 1) :
    nsq (rod u v c s) = nsq v := by
  unfold nsq at *
  simp only [rod]
  grind

theorem rod_dot (u v w : V3 ℝ) (c s : ℝ) (hu : nsq u = 1) (hcs : s ^ 2 + c ^ 2 = 1) :
    dotR (rod u v c s) (rod u w c s) = dotR v w := by
  unfold nsq at *
  simp only [rod, dotR]
  grind

theorem rod_axis (u : V3 ℝ) (t c s : ℝ) (hu : nsq u = 1) :
    rod u ⟨t * u.x, t * u.y, t * u.z⟩ c s = ⟨t * u.x, t * u.y, t * u.z⟩ := by
  unfold nsq at *
  apply V3.ext' <;> simp only [rod] <;> grind

theorem rod_zero (u v : V3 ℝ) : rod u v 1 0 = v := by
  apply V3.ext' <;> simp only [rod] <;> ring

theorem rod_add (u v : V3 ℝ) (c1 s1 c2 s2 : ℝ) (hu : nsq u = 1) :
    rod u (rod u v c1 s1) c2 s2 = rod u v (c1 * c2 - s1 * s2) (s1 * c2 + c1 * s2) := by
  unfold nsq at *
  apply V3.ext' <;> simp only [rod] <;> grind

/-! ### the published formula (PV.Spec.Rodrigues) in the polynomial form -/

theorem unit_real (k : V3 ℝ) : Rodrigues.unit k = unitR k := by
  simp only [Rodrigues.unit, V3.norm, unitR, nsq, r_add, r_div, r_sqrt, ← pow_two]

theorem rotateCw_eq_rod (v k : V3 ℝ) (θ : ℝ) :
    Rodrigues.rotateCw v k θ = rod (unitR k) v (Real.cos θ) (Real.sin θ) := by
  simp only [Rodrigues.rotateCw, unit_real, V3.dot, V3.cross, r_add, r_sub, r_mul, r_cos, r_sin, r_ofNat]
  simp only [Nat.cast_one]
  apply V3.ext' <;> simp only [rod]

theorem rotate_neg_eq_rod (v k : V3 ℝ) (θ : ℝ) :
    Rodrigues.rotate v k (-θ) = rod (unitR k) v (Real.cos θ) (Real.sin θ) := by
  simp only [Rodrigues.rotate, unit_real, V3.dot, V3.cross, r_add, r_sub, r_mul, r_cos, r_sin, r_ofNat,
    Real.cos_neg, Real.sin_neg]
  simp only [Nat.cast_one]
  apply V3.ext' <;> simp only [rod] <;> ring

theorem unitR_smul (k : V3 ℝ) (t : ℝ) (ht : 0 < t) (hk : 0 < nsq k) :
    unitR ⟨t * k.x, t * k.y, t * k.z⟩ = unitR k := by
  have h1 : nsq ⟨t * k.x, t * k.y, t * k.z⟩ = t ^ 2 * nsq k := by unfold nsq; ring
  have h2 : Real.sqrt (t ^ 2 * nsq k) = t * Real.sqrt (nsq k) := by
    rw [Real.sqrt_mul (sq_nonneg t), Real.sqrt_sq ht.le]
  have h0 : Real.sqrt (nsq k) ≠ 0 := (Real.sqrt_pos.mpr hk).ne'
  unfold unitR
  rw [h1, h2]
  apply V3.ext' <;> simp only [] <;> field_simp

end PV.C14L
