/-
  Lemmas for C15: `ORDER BY epoch DESC LIMIT 1`, the export loop, the `updated` flag.   Core Lean only.
-/
import PV.Lemmas.C15Db
namespace PV.C15
open PV.Db

/-! ### greatest key -/

theorem lexLt_connex : ∀ (x y : List Char), lexLt x y = false → lexLt y x = false → x = y := by
  intro x
  induction x with
  | nil => intro y h1 h2; cases y with
    | nil => rfl
    | cons b bs => simp [lexLt] at h1
  | cons a as ih =>
    intro y h1 h2
    cases y with
    | nil => simp [lexLt] at h2
    | cons b bs =>
      have n1 : ¬ lexLt (a :: as) (b :: bs) = true := by rw [h1]; simp
      have n2 : ¬ lexLt (b :: bs) (a :: as) = true := by rw [h2]; simp
      rw [lexLt_cons_cons] at n1 n2
      have hab : a.toNat = b.toNat := by
        apply Classical.byContradiction; intro hne
        have : a.toNat < b.toNat ∨ b.toNat < a.toNat := by omega
        rcases this with h | h
        · exact n1 (Or.inl h)
        · exact n2 (Or.inl h)
      have hc : a = b := Char.toNat_inj.mp hab
      subst hc
      have t1 : lexLt as bs = false := by
        cases h : lexLt as bs with
        | false => rfl
        | true => exact absurd (Or.inr ⟨rfl, h⟩) n1
      have t2 : lexLt bs as = false := by
        cases h : lexLt bs as with
        | false => rfl
        | true => exact absurd (Or.inr ⟨rfl, h⟩) n2
      rw [ih bs t1 t2]

theorem newest_eq_none (rows : List Row) : newest rows = none ↔ rows = [] := by
  cases rows with
  | nil => simp [newest]
  | cons r rs =>
    simp only [newest]
    cases newest rs with
    | none => simp
    | some b => simp only; split <;> simp

theorem newest_mem : ∀ (rows : List Row) (r : Row), newest rows = some r → r ∈ rows := by
  intro rows
  induction rows with
  | nil => intro r h; simp [newest] at h
  | cons x xs ih =>
    intro r h
    simp only [newest] at h
    cases hn : newest xs with
    | none => rw [hn] at h; simp at h; subst h; simp
    | some b =>
      rw [hn] at h
      simp only at h
      split at h
      · have hbr : b = r := Option.some.inj h
        rw [← hbr]; exact List.mem_cons_of_mem _ (ih b hn)
      · have hbr : x = r := Option.some.inj h
        rw [← hbr]; simp

/-- the selected row has the greatest key -/
theorem newest_max : ∀ (rows : List Row) (r : Row), newest rows = some r →
    ∀ r' ∈ rows, lexLt r.epoch r'.epoch = false := by
  intro rows
  induction rows with
  | nil => intro r h; simp [newest] at h
  | cons x xs ih =>
    intro r h r' hr'
    simp only [newest] at h
    cases hn : newest xs with
    | none =>
      rw [hn] at h; simp at h; subst h
      have : xs = [] := (newest_eq_none xs).mp hn
      subst this
      simp at hr'; subst hr'
      exact lexLt_irrefl _
    | some b =>
      rw [hn] at h
      simp only at h
      by_cases hxb : lexLt x.epoch b.epoch = true
      · rw [if_pos hxb] at h
        have hbr : b = r := Option.some.inj h
        subst hbr
        rcases List.mem_cons.mp hr' with h1 | h1
        · subst h1; exact lexLt_asymm _ _ hxb
        · exact ih b hn r' h1
      · rw [if_neg hxb] at h
        have hbr : x = r := Option.some.inj h
        subst hbr
        rcases List.mem_cons.mp hr' with h1 | h1
        · subst h1; exact lexLt_irrefl _
        · have hb := ih b hn r' h1
          cases hx : lexLt x.epoch r'.epoch with
          | false => rfl
          | true =>
            exfalso
            have hxb' : lexLt x.epoch b.epoch = false := by
              cases h' : lexLt x.epoch b.epoch with
              | false => rfl
              | true => exact absurd h' hxb
            cases hbx : lexLt b.epoch x.epoch with
            | true =>
              have := lexLt_trans _ _ _ hbx hx
              rw [hb] at this; cases this
            | false =>
              have := lexLt_connex _ _ hxb' hbx
              rw [this] at hx
              rw [hb] at hx; cases hx

theorem lookupRow_of_mem : ∀ (rows : List Row), rows.Pairwise (fun a b => a.epoch ≠ b.epoch) →
    ∀ r ∈ rows, lookupRow rows r.epoch = some (r.tle, r.source) := by
  intro rows
  induction rows with
  | nil => intro _ r h; simp at h
  | cons x xs ih =>
    intro hp r hr
    rw [List.pairwise_cons] at hp
    unfold lookupRow
    simp only [List.find?_cons]
    by_cases hx : x.epoch = r.epoch
    · simp only [hx, decide_true]
      rcases List.mem_cons.mp hr with h1 | h1
      · subst h1; rfl
      · exact absurd hx (hp.1 r h1)
    · simp only [hx, decide_false]
      rcases List.mem_cons.mp hr with h1 | h1
      · subst h1; exact absurd rfl hx
      · exact ih hp.2 r h1

theorem lookupRow_some_mem (rows : List Row) (k : List Char) (v : List Char × List Char)
    (h : lookupRow rows k = some v) : ∃ r ∈ rows, r.epoch = k ∧ v = (r.tle, r.source) := by
  unfold lookupRow at h
  cases hf : rows.find? (fun r => decide (r.epoch = k)) with
  | none => rw [hf] at h; simp at h
  | some r =>
    rw [hf] at h
    simp only [Option.map_some, Option.some.injEq] at h
    have hm := List.mem_of_find?_eq_some hf
    have hk := List.find?_some hf
    simp only [decide_eq_true_eq] at hk
    exact ⟨r, hm, hk, h.symm⟩

/-! ### the export loop -/

/-- what the loop collects for one platform -/
def blockOf (db : Db) (wn : Bool) (p : Nat × List Char) : List (List Char) :=
  match newest (rowsOf db p.1) with
  | none => []
  | some r => (if wn then [p.2] else []) ++ [r.tle]

/-- with ISO keys the loop never raises; platforms without table or with an empty table contribute nothing -/
theorem exportData_eq (db : Db) (wn : Bool)
    (hk : ∀ s r, r ∈ rowsOf db s → ∃ e : Epoch, e.valid ∧ r.epoch = iso e) :
    ∀ ps : List (Nat × List Char), exportData db wn ps = some ((ps.map (blockOf db wn)).flatten) := by
  intro ps
  induction ps with
  | nil => simp [exportData]
  | cons p rest ih =>
    obtain ⟨sat, name⟩ := p
    simp only [exportData, List.map_cons, List.flatten_cons, blockOf]
    cases ht : db.tableOf sat with
    | none =>
      have : rowsOf db sat = [] := by simp [rowsOf, ht]
      simp [this, newest, ih]
    | some rows =>
      have hr : rowsOf db sat = rows := by simp [rowsOf, ht]
      rw [hr]
      simp only
      cases hn : newest rows with
      | none => simp [ih]
      | some r =>
        simp only
        have hm : r ∈ rowsOf db sat := by rw [hr]; exact newest_mem rows r hn
        obtain ⟨e, he, hke⟩ := hk sat r hm
        rw [hke, parseIso_iso e he, ih]
        simp

/-- the row chosen by the model carries the first-seen text of the chronologically greatest epoch -/
theorem block_spec (cfg : Cfg) (ops : List Op) (c : Conn) (hv : OpsValid ops) (h : Inv cfg ops c) (wn : Bool)
    (p : Nat × List Char) : Block cfg ops wn p (blockOf c.db wn p) := by
  unfold blockOf Block
  cases hn : newest (rowsOf c.db p.1) with
  | none =>
    left
    refine ⟨?_, rfl⟩
    intro e
    have hnil := (newest_eq_none _).mp hn
    cases hs : seen cfg ops p.1 e with
    | none => rfl
    | some v =>
      have he := (seen_some cfg ops hv p.1 e v hs).1
      have := h.look p.1 e he
      rw [hnil, hs] at this
      simp [lookupRow] at this
  | some r =>
    right
    refine ⟨r.tle, ?_, rfl⟩
    have hm := newest_mem _ r hn
    obtain ⟨e, he, hke⟩ := h.keys p.1 r hm
    refine ⟨e, r.source, ?_, ?_⟩
    · rw [← h.look p.1 e he, ← hke]
      exact lookupRow_of_mem _ (h.nodup p.1) r hm
    · intro e' v hs hlt
      have he' := (seen_some cfg ops hv p.1 e' v hs).1
      have hl := h.look p.1 e' he'
      rw [hs] at hl
      obtain ⟨r', hm', hk', _⟩ := lookupRow_some_mem _ _ _ hl
      have := newest_max _ r hn r' hm'
      rw [hke, hk'] at this
      have h2 := (iso_lt_iff' e e' he he').mpr hlt
      rw [this] at h2; cases h2

/-! ### the `updated` flag -/

theorem snoc_eq_append_cons {α : Type} (ops : List α) (op : α) (pre : List α) (u : α) (post : List α)
    (h : ops ++ [op] = pre ++ u :: post) :
    (post = [] ∧ pre = ops ∧ u = op) ∨ (∃ post', post = post' ++ [op] ∧ ops = pre ++ u :: post') := by
  rcases List.eq_nil_or_concat post with hp | ⟨L, b, hp⟩ <;> try rw [List.concat_eq_append] at hp
  · subst hp
    have := List.append_inj' h (by simp)
    left; exact ⟨rfl, this.1.symm, by simpa using this.2.symm⟩
  · subst hp
    have h' : ops ++ [op] = (pre ++ u :: L) ++ [b] := by rw [h]; simp
    have := List.append_inj' h' (by simp)
    right
    refine ⟨L, ?_, this.1⟩
    have hb : op = b := by simpa using this.2
    rw [hb]

theorem added_snoc_restart (cfg : Cfg) (ops : List Op) (op : Op) (hr : op.restarts = true) :
    ¬ Added cfg (ops ++ [op]) := by
  rintro ⟨pre, sat, e, l1, l2, src, post, heq, _, _, hpost⟩
  rcases snoc_eq_append_cons _ _ _ _ _ heq with ⟨_, _, hu⟩ | ⟨post', hp, _⟩
  · subst hu; simp [Op.restarts] at hr
  · have := hpost op (by rw [hp]; simp)
    rw [hr] at this; cases this

theorem added_snoc_keep (cfg : Cfg) (ops : List Op) (op : Op) (hr : op.restarts = false) (h : Added cfg ops) :
    Added cfg (ops ++ [op]) := by
  obtain ⟨pre, sat, e, l1, l2, src, post, heq, hc, hs, hpost⟩ := h
  refine ⟨pre, sat, e, l1, l2, src, post ++ [op], by rw [heq]; simp, hc, hs, ?_⟩
  intro o ho
  rcases List.mem_append.mp ho with h1 | h1
  · exact hpost o h1
  · simp only [List.mem_singleton] at h1; subst h1; exact hr

theorem added_snoc_inv (cfg : Cfg) (ops : List Op) (op : Op) (h : Added cfg (ops ++ [op])) :
    Added cfg ops ∨ ∃ sat e l1 l2 src, op = .update sat e l1 l2 src ∧ configured cfg sat = true ∧ seen cfg ops sat e = none := by
  obtain ⟨pre, sat, e, l1, l2, src, post, heq, hc, hs, hpost⟩ := h
  rcases snoc_eq_append_cons _ _ _ _ _ heq with ⟨_, hpre, hu⟩ | ⟨post', hp, hops⟩
  · right; subst hpre; exact ⟨sat, e, l1, l2, src, hu.symm, hc, hs⟩
  · left
    refine ⟨pre, sat, e, l1, l2, src, post', hops, hc, hs, ?_⟩
    intro o ho; exact hpost o (by rw [hp]; exact List.mem_append_left _ ho)

theorem added_snoc_new (cfg : Cfg) (ops : List Op) (sat : Nat) (e : Epoch) (l1 l2 src : List Char)
    (hc : configured cfg sat = true) (hs : seen cfg ops sat e = none) :
    Added cfg (ops ++ [.update sat e l1 l2 src]) :=
  ⟨ops, sat, e, l1, l2, src, [], rfl, hc, hs, by simp⟩

/-- the flag after one more operation -/
theorem step_updated (cfg : Cfg) (ops : List Op) (op : Op) (c : Conn) (hv : op.epochValid) (h : Inv cfg ops c) :
    (step cfg c op).1.updated = match op with
      | .update s e _ _ _ => c.updated || (configured cfg s && (seen cfg ops s e).isNone)
      | .crashedUpdate .. => false
      | .export .. => c.updated
      | .reopen => false := by
  cases op with
  | update s e l1 l2 src =>
    simp only [step]
    cases hc : cfg.nameOf s with
    | none => rw [updateOp_unconfigured cfg c s e l1 l2 src hc]; simp [configured_eq, hc]
    | some name =>
      rw [updateOp_configured cfg c s e l1 l2 src name hc h.names]
      simp only [configured_eq, hc, Option.isSome_some, Bool.true_and]
      rw [hasKey_iff_lookup, h.look s e hv]
      cases seen cfg ops s e <;> rfl
  | crashedUpdate k s e l1 l2 src => rfl
  | «export» wa wn =>
    simp only [step]
    split
    · rfl
    · split <;> rfl
  | reopen => rfl

end PV.C15
