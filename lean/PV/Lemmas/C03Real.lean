/-
  PV.Lemmas.C03Real — the ℝ reading of PV.Model.Passes: signs, crossings, the pairing of
  rises and falls in terms of the samples, `np.argmax`, the culmination bracket.
-/
import PV.NumReal
import PV.Model.Passes
import PV.Lemmas.C03Loop
import Mathlib.Algebra.Order.Floor.Ring
import Mathlib.Tactic.Linarith
import Mathlib.Tactic.Ring
namespace PV.C03L
open PV PV.Passes

/-- `int(np.floor x)` / `int(np.ceil x)` over ℝ -/
noncomputable instance instFloorCeilReal : FloorCeil ℝ := ⟨Int.floor, Int.ceil⟩

@[simp] theorem r_floorI (x : ℝ) : FloorCeil.floorI x = ⌊x⌋ := rfl
@[simp] theorem r_ceilI (x : ℝ) : FloorCeil.ceilI x = ⌈x⌉ := rfl

theorem r_zero : (@OfNat.ofNat ℝ 0 instOfNatNum) = (0 : ℝ) := by
  rw [r_ofNat]; exact Nat.cast_zero

theorem sgn_pos {x : ℝ} (h : 0 < x) : sgn x = 1 := by
  unfold sgn; rw [r_lt, r_zero]; simp [h]

theorem sgn_neg {x : ℝ} (h : x < 0) : sgn x = -1 := by
  unfold sgn; rw [r_lt, r_lt, r_zero]; simp [h, not_lt.mpr h.le]

theorem sgn_zero : sgn (0 : ℝ) = 0 := by
  unfold sgn; rw [r_lt, r_zero]; simp

theorem sgn_eq_one_iff {x : ℝ} : sgn x = 1 ↔ 0 < x := by
  constructor
  · intro h
    by_contra hx
    rcases lt_or_eq_of_le (not_lt.mp hx) with h1 | h1
    · rw [sgn_neg h1] at h; omega
    · rw [h1, sgn_zero] at h; omega
  · exact sgn_pos

theorem sgn_eq_neg_one_iff {x : ℝ} : sgn x = -1 ↔ x < 0 := by
  constructor
  · intro h
    by_contra hx
    rcases lt_or_eq_of_le (not_lt.mp hx) with h1 | h1
    · rw [sgn_pos h1] at h; omega
    · rw [← h1, sgn_zero] at h; omega
  · exact sgn_neg

/-- `s` is a total view of the samples -/
def View (e : List ℝ) (s : ℕ → ℝ) : Prop := ∀ i (h : i < e.length), e[i] = s i

theorem view_getD (e : List ℝ) : View e (fun i => e.getD i 0) := by
  intro i h; simp [List.getD_eq_getElem?_getD, h]

theorem riseAt_iff {e : List ℝ} {s : ℕ → ℝ} (hs : View e s) (g : Nat) :
    riseAt e g = true ↔ g < e.length ∧ s g < 0 := by
  unfold riseAt
  by_cases h : g < e.length
  · rw [List.getElem?_eq_getElem h]
    simp only [r_lt, r_zero, decide_eq_true_eq, hs g h, h, true_and]
  · rw [List.getElem?_eq_none (by omega)]
    simp [h]

theorem crossAt_iff {e : List ℝ} {s : ℕ → ℝ} (hs : View e s) (g : Nat) :
    crossAt e g = true ↔ g + 1 < e.length ∧ sgn (s (g + 1)) ≠ sgn (s g) := by
  unfold crossAt
  by_cases h : g + 1 < e.length
  · have h0 : g < e.length := by omega
    rw [List.getElem?_eq_getElem h, List.getElem?_eq_getElem h0]
    simp only [hs g h0, hs (g + 1) h, h, true_and, bne_iff_ne, ne_eq]
    omega
  · rw [List.getElem?_eq_none (l := e) (i := g + 1) (by omega)]
    constructor
    · intro hc; split at hc <;> simp_all
    · intro hc; exact absurd hc.1 h

theorem mem_zeroCrossings {e : List ℝ} {s : ℕ → ℝ} (hs : View e s) (g : Nat) :
    g ∈ zeroCrossings e ↔ g + 1 < e.length ∧ sgn (s (g + 1)) ≠ sgn (s g) := by
  unfold zeroCrossings
  rw [List.mem_filter, List.mem_range, crossAt_iff hs]
  constructor
  · rintro ⟨_, h⟩; exact h
  · intro h; exact ⟨by omega, h⟩

theorem zeroCrossings_sorted (e : List ℝ) : (zeroCrossings e).Pairwise (· < ·) :=
  List.Pairwise.filter _ List.pairwise_lt_range

theorem zeroCrossings_lt {e : List ℝ} {g : Nat} (h : g ∈ zeroCrossings e) : g + 1 < e.length :=
  ((mem_zeroCrossings (view_getD e) g).mp h).1

/-- the model's loop is the index loop followed by the body of the `else` branch -/
theorem loop_eq_map (e : List ℝ) (root : ℕ → ℝ) (maxim : ℝ → ℝ → ℝ) (gs : List Nat)
    (hgs : ∀ g ∈ gs, g < e.length) (r : Option Nat) :
    loop e root maxim gs (r.map root)
      = (loopIdx (riseAt e) gs r).map (fun p => mkPass e maxim (root p.1) (root p.2)) := by
  induction gs generalizing r with
  | nil => simp [loop, loopIdx]
  | cons g gs ih =>
    have hg : g < e.length := hgs g List.mem_cons_self
    have hgs' : ∀ g ∈ gs, g < e.length := fun x hx => hgs x (List.mem_cons_of_mem _ hx)
    unfold loop loopIdx
    have hR : riseAt e g = Num.lt e[g] (@OfNat.ofNat ℝ 0 instOfNatNum) := by
      unfold riseAt; rw [List.getElem?_eq_getElem hg]
    rw [List.getElem?_eq_getElem hg]
    simp only [hR]
    by_cases hlt : Num.lt e[g] (@OfNat.ofNat ℝ 0 instOfNatNum) = true
    · simp only [hlt, if_true]
      exact ih hgs' (some g)
    · simp only [hlt, Bool.false_eq_true, if_false]
      cases r with
      | none => simpa using ih hgs' none
      | some g1 =>
        simp only [Option.map_some, List.map_cons]
        rw [← ih hgs' (some g1)]
        rfl

/-- `(g1, g2)` is a (rise crossing, fall crossing) pair handled by the `else` branch -/
def Paired (e : List ℝ) (g1 g2 : Nat) : Prop :=
  (g1, g2) ∈ loopIdx (riseAt e) (zeroCrossings e) none

theorem mem_passes_iff (e : List ℝ) (root : ℕ → ℝ) (maxim : ℝ → ℝ → ℝ) (p : Pass ℝ) :
    p ∈ passes e root maxim ↔ ∃ g1 g2, Paired e g1 g2 ∧ p = mkPass e maxim (root g1) (root g2) := by
  unfold passes Paired
  have h := loop_eq_map e root maxim (zeroCrossings e)
    (fun g hg => by have := zeroCrossings_lt hg; omega) none
  simp only [Option.map_none] at h
  rw [h, List.mem_map]
  constructor
  · rintro ⟨⟨a, b⟩, hm, rfl⟩; exact ⟨a, b, hm, rfl⟩
  · rintro ⟨a, b, hm, rfl⟩; exact ⟨(a, b), hm, rfl⟩

theorem passes_eq_map (e : List ℝ) (root : ℕ → ℝ) (maxim : ℝ → ℝ → ℝ) :
    passes e root maxim = (loopIdx (riseAt e) (zeroCrossings e) none).map
      (fun p => mkPass e maxim (root p.1) (root p.2)) := by
  unfold passes
  have h := loop_eq_map e root maxim (zeroCrossings e)
    (fun g hg => by have := zeroCrossings_lt hg; omega) none
  simpa using h

/-- what pairing means on the crossing list -/
theorem paired_iff (e : List ℝ) (g1 g2 : Nat) :
    Paired e g1 g2 ↔ g2 ∈ zeroCrossings e ∧ riseAt e g2 = false ∧ g1 ∈ zeroCrossings e ∧ g1 < g2 ∧
      riseAt e g1 = true ∧ ∀ k ∈ zeroCrossings e, g1 < k → k < g2 → riseAt e k = false := by
  unfold Paired
  rw [mem_loopIdx _ _ (zeroCrossings_sorted e)]
  constructor
  · rintro ⟨h1, h2, h3 | h3⟩
    · exact ⟨h1, h2, h3⟩
    · cases h3.1
  · rintro ⟨h1, h2, h3⟩
    exact ⟨h1, h2, Or.inl h3⟩

theorem riseAt_false_iff {e : List ℝ} {s : ℕ → ℝ} (hs : View e s) {g : Nat} (hg : g < e.length) :
    riseAt e g = false ↔ 0 ≤ s g := by
  rw [← Bool.not_eq_true, riseAt_iff hs]
  constructor
  · intro h; by_contra hc; exact h ⟨hg, not_le.mp hc⟩
  · rintro h ⟨_, h2⟩; linarith

/-- a maximal run of positive samples between two negative ones is paired (no assumption on zeros elsewhere) -/
theorem paired_of_run {e : List ℝ} {s : ℕ → ℝ} (hs : View e s) {g1 g2 : Nat}
    (h12 : g1 < g2) (hN : g2 + 1 < e.length) (h1 : s g1 < 0)
    (hpos : ∀ k, g1 < k → k ≤ g2 → 0 < s k) (h2 : s (g2 + 1) < 0) : Paired e g1 g2 := by
  rw [paired_iff]
  have hp2 : 0 < s g2 := hpos g2 h12 (le_refl _)
  have hp1 : 0 < s (g1 + 1) := hpos (g1 + 1) (by omega) (by omega)
  refine ⟨?_, ?_, ?_, h12, ?_, ?_⟩
  · rw [mem_zeroCrossings hs]
    refine ⟨hN, ?_⟩
    rw [sgn_neg h2, sgn_pos hp2]; omega
  · rw [riseAt_false_iff hs (by omega)]; exact hp2.le
  · rw [mem_zeroCrossings hs]
    refine ⟨by omega, ?_⟩
    rw [sgn_neg h1, sgn_pos hp1]; omega
  · rw [riseAt_iff hs]; exact ⟨by omega, h1⟩
  · intro k _ hk1 hk2
    rw [riseAt_false_iff hs (by omega)]
    exact (hpos k hk1 (by omega)).le

/-- the converse when no sample is exactly zero: a paired (rise, fall) delimits a maximal run of
    positive samples -/
theorem run_of_paired {e : List ℝ} {s : ℕ → ℝ} (hs : View e s) (hnz : ∀ i, i < e.length → s i ≠ 0)
    {g1 g2 : Nat} (hp : Paired e g1 g2) :
    g1 < g2 ∧ g2 + 1 < e.length ∧ s g1 < 0 ∧ (∀ k, g1 < k → k ≤ g2 → 0 < s k) ∧ s (g2 + 1) < 0 := by
  rw [paired_iff] at hp
  obtain ⟨hz2, hR2, hz1, h12, hR1, hbetween⟩ := hp
  rw [mem_zeroCrossings hs] at hz1 hz2
  obtain ⟨hN, hc2⟩ := hz2
  obtain ⟨_, hc1⟩ := hz1
  rw [riseAt_iff hs] at hR1
  rw [riseAt_false_iff hs (by omega)] at hR2
  have hs2 : 0 < s g2 := lt_of_le_of_ne hR2 (Ne.symm (hnz g2 (by omega)))
  -- no negative sample strictly after g1 up to g2
  have hD : ∀ d k, k + d = g2 → g1 < k → s k < 0 → False := by
    intro d
    induction d with
    | zero => intro k hk _ hneg; have : k = g2 := by omega
              subst this; linarith
    | succ d ih =>
      intro k hk hgk hneg
      have hk1 : k + 1 < e.length := by omega
      rcases lt_or_gt_of_ne (hnz (k + 1) hk1) with hn | hp
      · exact ih (k + 1) (by omega) (by omega) hn
      · have hkz : k ∈ zeroCrossings e := by
          rw [mem_zeroCrossings hs]
          refine ⟨hk1, ?_⟩
          rw [sgn_pos hp, sgn_neg hneg]; omega
        have := hbetween k hkz hgk (by omega)
        rw [riseAt_false_iff hs (by omega)] at this
        linarith
  refine ⟨h12, hN, hR1.2, ?_, ?_⟩
  · intro k hk1 hk2
    rcases lt_or_gt_of_ne (hnz k (by omega)) with hn | hp
    · exact absurd hn (fun hn => hD (g2 - k) k (by omega) hk1 hn)
    · exact hp
  · rcases lt_or_gt_of_ne (hnz (g2 + 1) hN) with hn | hp
    · exact hn
    · exfalso; apply hc2; rw [sgn_pos hp, sgn_pos hs2]

end PV.C03L
