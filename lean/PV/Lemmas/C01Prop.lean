/-
  C01 helper lemmas, part 3: the propagation step (secular, long period, Kepler, short period, orientation).
-/
import PV.Lemmas.C01Init
namespace PV.C01
open PV PV.Sgp4

/-- the facts about a coefficient object that the propagation step uses: each field equals the report's constant -/
structure Corr (p : Sgp4.Params ℝ) (l : Str3.El ℝ) (c : Str3.Co ℝ) : Prop where
  eo : p.eo = l.eo
  xincl : p.xincl = l.xincl
  omegao : p.omegao = l.omegao
  xmo : p.xmo = l.xmo
  xnodeo : p.xnodeo = l.xnodeo
  bstar : p.bstar = l.bstar
  xnodp : p.xnodp = c.xnodp
  aodp : p.aodp = c.aodp
  cosIO : p.cosIO = c.cosio
  sinIO : p.sinIO = c.sinio
  x3thm1 : p.x3thm1 = c.x3thm1
  x1mth2 : p.x1mth2 = c.x1mth2
  x7thm1 : p.x7thm1 = c.x7thm1
  eta : p.eta = c.eta
  c1 : p.c1 = c.c1
  c4 : p.c4 = c.c4
  xmdot : p.xmdot = c.xmdot
  omgdot : p.omgdot = c.omgdot
  xnodot : p.xnodot = c.xnodot
  xmcof : p.xmcof = c.xmcof
  xnodcf : p.xnodcf = c.xnodcf
  t2cof : p.t2cof = c.t2cof
  xlcof : p.xlcof = c.xlcof
  aycof : p.aycof = c.aycof
  delmo : p.delmo = c.delmo
  sinXMO : p.sinXMO = c.sinmo

/-- the additional facts for the full-drag (NEAR_NORM) branch -/
structure CorrNorm (p : Sgp4.Params ℝ) (l : Str3.El ℝ) (c : Str3.Co ℝ) : Prop extends Corr p l c where
  c5 : p.c5 = c.c5
  omgcof : p.omgcof = c.omgcof
  d2 : p.d2 = c.d2
  d3 : p.d3 = c.d3
  d4 : p.d4 = c.d4
  t3cof : p.t3cof = c.t3cof
  t4cof : p.t4cof = c.t4cof
  t5cof : p.t5cof = c.t5cof

theorem coeffs_fields (e : Sgp4.Elements ℝ) (b : Sgp4.Basic ℝ) (mode : Mode) :
    (coeffs e b mode).mode = mode ∧ (coeffs e b mode).eo = e.eo ∧ (coeffs e b mode).xincl = e.xincl ∧
    (coeffs e b mode).omegao = e.omegao ∧ (coeffs e b mode).xmo = e.xmo ∧ (coeffs e b mode).xnodeo = e.xnodeo ∧
    (coeffs e b mode).bstar = e.bstar ∧ (coeffs e b mode).perigee = b.perigee ∧ (coeffs e b mode).period = b.period := by
  rcases hm : s4qoms24 b.perigee with ⟨s4, q⟩
  simp only [coeffs, hm, and_self]

theorem corr_coeffs (e : Sgp4.Elements ℝ) (mode : Mode) :
    Corr (coeffs e (basic e) mode) (toEl e) (Str3.consts (toEl e)) := by
  obtain ⟨-, h1, h2, h3, h4, h5, h6, -, -⟩ := coeffs_fields e (basic e) mode
  exact ⟨h1, h2, h3, h4, h5, h6, xnodp_eq e mode, aodp_eq e mode, cosIO_eq e mode, sinIO_eq e mode, x3thm1_eq e mode,
    x1mth2_eq e mode, x7thm1_eq e mode, eta_eq e mode, c1_eq e mode, c4_eq e mode, xmdot_eq e mode, omgdot_eq e mode,
    xnodot_eq e mode, xmcof_eq e mode, xnodcf_eq e mode, t2cof_eq e mode, xlcof_eq e mode, aycof_eq e mode,
    delmo_eq e mode, sinXMO_eq e mode⟩

theorem corrNorm_coeffs (e : Sgp4.Elements ℝ) :
    CorrNorm (coeffs e (basic e) .nearNorm) (toEl e) (Str3.consts (toEl e)) :=
  { corr_coeffs e .nearNorm with
    c5 := c5_eq e, omgcof := omgcof_eq e, d2 := d2_eq e _, d3 := d3_eq e _, d4 := d4_eq e _,
    t3cof := t3cof_eq e _, t4cof := t4cof_eq e _, t5cof := t5cof_eq e _ }

/-- `_calculate_e`'s two `np.where` = the report's `min (max e 1e-6) (1 - 1e-6)` -/
theorem clampE_eq' (x : ℝ) : Sgp4.clampE x = Num.min (Num.max x (1e-6 : ℝ)) ((1 : ℝ) - (1e-6 : ℝ)) := by
  simp only [clampE, Num.min, Num.max]
  c01_consts
  c01_bridge
  rfl

theorem mode_ne' : (Mode.nearNorm == Mode.nearSimp) = false := by decide

section secular
variable {p : Sgp4.Params ℝ} {l : Str3.El ℝ} {c : Str3.Co ℝ}

/-! #### full-drag branch (NEAR_NORM / `isimp = false`): Horner form = explicit powers -/

theorem secular_xmp_norm (h : CorrNorm p l c) (hi : c.isimp = false) (ts : ℝ) :
    (secular p ts).xmp = (Str3.mean l c ts).xmp := by
  simp only [secular, Str3.mean, hi, h.xmo, h.xmdot, h.omgcof, h.xmcof, h.eta, h.delmo, Bool.false_eq_true, if_false]
  c01_bridge
  ring

theorem secular_omega_norm (h : CorrNorm p l c) (hi : c.isimp = false) (ts : ℝ) :
    (secular p ts).omega = (Str3.mean l c ts).omega := by
  simp only [secular, Str3.mean, hi, h.xmo, h.xmdot, h.omgcof, h.xmcof, h.eta, h.delmo, h.omegao, h.omgdot,
    Bool.false_eq_true, if_false]
  c01_bridge
  ring

theorem secular_xnode (h : Corr p l c) (ts : ℝ) :
    (secular p ts).xnode = (Str3.mean l c ts).xnode := by
  simp only [secular, Str3.mean, h.xnodeo, h.xnodot, h.xnodcf]
  c01_bridge
  ring

theorem secular_a_norm (h : CorrNorm p l c) (hm : p.mode = .nearNorm) (hi : c.isimp = false) (ts : ℝ) :
    (secular p ts).a = (Str3.mean l c ts).a := by
  simp only [secular, Str3.mean, hi, hm, h.aodp, h.c1, h.d2, h.d3, h.d4, Bool.false_eq_true, if_false, mode_ne',
    Num.sq]
  c01_bridge
  ring

theorem secular_e0_norm (h : CorrNorm p l c) (hm : p.mode = .nearNorm) (hi : c.isimp = false) (ts : ℝ) :
    clampE (secular p ts).e0 = (Str3.mean l c ts).e := by
  rw [clampE_eq']
  have hx := secular_xmp_norm h hi ts
  simp only [secular, Str3.mean, hi, hm, h.eo, h.bstar, h.c4, h.c5, h.sinXMO, Bool.false_eq_true, if_false, mode_ne'] at hx ⊢
  rw [hx]
  c01_bridge
  congr 2
  ring

theorem secular_templ_norm (h : CorrNorm p l c) (hm : p.mode = .nearNorm) (ts : ℝ) :
    (secular p ts).templ = c.t2cof * (ts * ts) + c.t3cof * (ts * ts * ts) + ts * (ts * ts * ts) * (c.t4cof + ts * c.t5cof) := by
  simp only [secular, hm, h.t2cof, h.t3cof, h.t4cof, h.t5cof, mode_ne', Bool.false_eq_true, if_false]
  c01_bridge
  ring

/-! #### structural facts (definitional unfoldings) -/
theorem mean_axn (ts : ℝ) : (Str3.mean l c ts).axn = (Str3.mean l c ts).e * Real.cos (Str3.mean l c ts).omega := rfl
theorem mean_ayn (ts : ℝ) : (Str3.mean l c ts).ayn = (Str3.mean l c ts).e * Real.sin (Str3.mean l c ts).omega +
    1 / ((Str3.mean l c ts).a * (1 - (Str3.mean l c ts).e * (Str3.mean l c ts).e)) * c.aycof := by
  simp only [Str3.mean]; c01_bridge
theorem mean_capu_norm (hi : c.isimp = false) (ts : ℝ) : (Str3.mean l c ts).capu =
    (Str3.mean l c ts).xmp + (Str3.mean l c ts).omega + (Str3.mean l c ts).xnode + c.xnodp *
      (c.t2cof * (ts * ts) + c.t3cof * (ts * ts * ts) + ts * (ts * ts * ts) * (c.t4cof + ts * c.t5cof)) +
    1 / ((Str3.mean l c ts).a * (1 - (Str3.mean l c ts).e * (Str3.mean l c ts).e)) * c.xlcof * (Str3.mean l c ts).axn
    - (Str3.mean l c ts).xnode := by
  simp only [Str3.mean, hi, Bool.false_eq_true, if_false]
  c01_bridge
theorem mean_xn (ts : ℝ) : (Str3.mean l c ts).xn = Str3.XKE / (Str3.mean l c ts).a ^ (1.5 : ℝ) := by
  simp only [Str3.mean]; c01_bridge

theorem longPeriod_e (s : Sgp4.Secular ℝ) : (longPeriod p s).e = clampE s.e0 := rfl
theorem longPeriod_axn (s : Sgp4.Secular ℝ) : (longPeriod p s).axn = clampE s.e0 * Real.cos s.omega := rfl
theorem longPeriod_ayn (s : Sgp4.Secular ℝ) : (longPeriod p s).ayn =
    clampE s.e0 * Real.sin s.omega + 1 / (s.a * (1 - clampE s.e0 * clampE s.e0)) * p.aycof := by
  simp only [longPeriod, Num.sq]; c01_bridge
theorem longPeriod_elsq (s : Sgp4.Secular ℝ) : (longPeriod p s).elsq =
    (longPeriod p s).axn * (longPeriod p s).axn + (longPeriod p s).ayn * (longPeriod p s).ayn := rfl
theorem longPeriod_xlt (s : Sgp4.Secular ℝ) : (longPeriod p s).xlt =
    s.xmp + s.omega + s.xnode + p.xnodp * s.templ + 1 / (s.a * (1 - clampE s.e0 * clampE s.e0)) * p.xlcof *
      (longPeriod p s).axn := by
  simp only [longPeriod, Num.sq]; c01_bridge
theorem longPeriod_capu (s : Sgp4.Secular ℝ) : (longPeriod p s).capu =
    Num.fmod ((longPeriod p s).xlt - s.xnode) (2 * Real.pi) := by
  simp only [longPeriod]; c01_bridge

/-! #### long-period periodics, full-drag branch -/
theorem lp_e_norm (h : CorrNorm p l c) (hm : p.mode = .nearNorm) (hi : c.isimp = false) (ts : ℝ) :
    (longPeriod p (secular p ts)).e = (Str3.mean l c ts).e := by
  rw [longPeriod_e, secular_e0_norm h hm hi]

theorem lp_axn_norm (h : CorrNorm p l c) (hm : p.mode = .nearNorm) (hi : c.isimp = false) (ts : ℝ) :
    (longPeriod p (secular p ts)).axn = (Str3.mean l c ts).axn := by
  rw [longPeriod_axn, secular_e0_norm h hm hi, secular_omega_norm h hi, mean_axn]

theorem lp_ayn_norm (h : CorrNorm p l c) (hm : p.mode = .nearNorm) (hi : c.isimp = false) (ts : ℝ) :
    (longPeriod p (secular p ts)).ayn = (Str3.mean l c ts).ayn := by
  rw [longPeriod_ayn, secular_e0_norm h hm hi, secular_omega_norm h hi, secular_a_norm h hm hi, h.aycof, mean_ayn]

/-- the model reduces `U` with `fmod`; before the reduction it is the report's `U = L_T − Ω` -/
theorem lp_capu_norm (h : CorrNorm p l c) (hm : p.mode = .nearNorm) (hi : c.isimp = false) (ts : ℝ) :
    (longPeriod p (secular p ts)).xlt - (secular p ts).xnode = (Str3.mean l c ts).capu := by
  rw [longPeriod_xlt, lp_axn_norm h hm hi, secular_e0_norm h hm hi, secular_omega_norm h hi, secular_a_norm h hm hi,
    secular_xmp_norm h hi, secular_xnode h.toCorr, secular_templ_norm h hm, h.xnodp, h.xlcof, mean_capu_norm hi]

/-! #### simplified-drag branch (NEAR_SIMP / `isimp = true`).
  The report's ISIMP branch skips both `DELOMG` and `DELM`; the code zeroes `omgcof` but still adds
  `delm = xmcof·((1+η cos M_DF)³ − DELMO)` to the mean anomaly and subtracts it from ω (orbital.py:1044-1047,
  1069: no mode test).  So the two agree exactly when that term vanishes. -/

theorem secular_xmp_simp (h : Corr p l c) (ho : p.omgcof = 0) (hi : c.isimp = true) (ts : ℝ) :
    (secular p ts).xmp = (Str3.mean l c ts).xmp +
      c.xmcof * ((1 + c.eta * Real.cos (l.xmo + c.xmdot * ts)) ^ 3 - c.delmo) := by
  simp only [secular, Str3.mean, hi, ho, h.xmo, h.xmdot, h.xmcof, h.eta, h.delmo, if_true, r_cube]
  c01_bridge
  ring

theorem secular_omega_simp (h : Corr p l c) (ho : p.omgcof = 0) (hi : c.isimp = true) (ts : ℝ) :
    (secular p ts).omega = (Str3.mean l c ts).omega -
      c.xmcof * ((1 + c.eta * Real.cos (l.xmo + c.xmdot * ts)) ^ 3 - c.delmo) := by
  simp only [secular, Str3.mean, hi, ho, h.xmo, h.xmdot, h.xmcof, h.eta, h.delmo, h.omegao, h.omgdot, if_true, r_cube]
  c01_bridge
  ring

theorem secular_a_simp (h : Corr p l c) (hm : p.mode = .nearSimp) (hi : c.isimp = true) (ts : ℝ) :
    (secular p ts).a = (Str3.mean l c ts).a := by
  simp only [secular, Str3.mean, hi, hm, h.aodp, h.c1, if_true, beq_self_eq_true, Num.sq]
  c01_bridge
  ring

theorem secular_e0_simp (h : Corr p l c) (hm : p.mode = .nearSimp) (hi : c.isimp = true) (ts : ℝ) :
    clampE (secular p ts).e0 = (Str3.mean l c ts).e := by
  rw [clampE_eq']
  simp only [secular, Str3.mean, hi, hm, h.eo, h.bstar, h.c4, if_true, beq_self_eq_true]
  c01_bridge
  congr 2
  ring

theorem secular_templ_simp (h : Corr p l c) (hm : p.mode = .nearSimp) (ts : ℝ) :
    (secular p ts).templ = c.t2cof * (ts * ts) := by
  simp only [secular, hm, h.t2cof, if_true, beq_self_eq_true]
  c01_bridge
  ring

theorem mean_capu_simp (hi : c.isimp = true) (ts : ℝ) : (Str3.mean l c ts).capu =
    (Str3.mean l c ts).xmp + (Str3.mean l c ts).omega + (Str3.mean l c ts).xnode + c.xnodp * (c.t2cof * (ts * ts)) +
    1 / ((Str3.mean l c ts).a * (1 - (Str3.mean l c ts).e * (Str3.mean l c ts).e)) * c.xlcof * (Str3.mean l c ts).axn
    - (Str3.mean l c ts).xnode := by
  simp only [Str3.mean, hi, if_true]
  c01_bridge

/-- under `xmcof = 0` (e.g. `eo ≤ 1e-4`, or `B* = 0`) the code's NEAR_SIMP step is the report's ISIMP step -/
theorem secular_xmp_simp0 (h : Corr p l c) (ho : p.omgcof = 0) (hx : c.xmcof = 0) (hi : c.isimp = true) (ts : ℝ) :
    (secular p ts).xmp = (Str3.mean l c ts).xmp := by
  rw [secular_xmp_simp h ho hi, hx, zero_mul, add_zero]

theorem secular_omega_simp0 (h : Corr p l c) (ho : p.omgcof = 0) (hx : c.xmcof = 0) (hi : c.isimp = true) (ts : ℝ) :
    (secular p ts).omega = (Str3.mean l c ts).omega := by
  rw [secular_omega_simp h ho hi, hx, zero_mul, sub_zero]

theorem lp_axn_simp0 (h : Corr p l c) (hm : p.mode = .nearSimp) (ho : p.omgcof = 0) (hx : c.xmcof = 0)
    (hi : c.isimp = true) (ts : ℝ) :
    (longPeriod p (secular p ts)).axn = (Str3.mean l c ts).axn := by
  rw [longPeriod_axn, secular_e0_simp h hm hi, secular_omega_simp0 h ho hx hi, mean_axn]

theorem lp_ayn_simp0 (h : Corr p l c) (hm : p.mode = .nearSimp) (ho : p.omgcof = 0) (hx : c.xmcof = 0)
    (hi : c.isimp = true) (ts : ℝ) :
    (longPeriod p (secular p ts)).ayn = (Str3.mean l c ts).ayn := by
  rw [longPeriod_ayn, secular_e0_simp h hm hi, secular_omega_simp0 h ho hx hi, secular_a_simp h hm hi, h.aycof, mean_ayn]

theorem lp_capu_simp0 (h : Corr p l c) (hm : p.mode = .nearSimp) (ho : p.omgcof = 0) (hx : c.xmcof = 0)
    (hi : c.isimp = true) (ts : ℝ) :
    (longPeriod p (secular p ts)).xlt - (secular p ts).xnode = (Str3.mean l c ts).capu := by
  rw [longPeriod_xlt, lp_axn_simp0 h hm ho hx hi, secular_e0_simp h hm hi, secular_omega_simp0 h ho hx hi,
    secular_a_simp h hm hi, secular_xmp_simp0 h ho hx hi, secular_xnode h, secular_templ_simp h hm, h.xnodp, h.xlcof,
    mean_capu_simp hi]

end secular

/-! ### Kepler's equation: what the ≤ 10 Newton steps return -/

/-- the returned trigonometric quantities belong to the point `x` at which the loop last evaluated them -/
def NewtonAt (axn ayn : ℝ) (r : Sgp4.Newton ℝ) (x : ℝ) : Prop :=
  r.sinEPW = Real.sin x ∧ r.cosEPW = Real.cos x ∧
  r.ecosE = axn * Real.cos x + ayn * Real.sin x ∧ r.esinE = axn * Real.sin x - ayn * Real.cos x

theorem newtonLoop_spec (axn ayn capu ecc : ℝ) :
    ∀ (fuel i : Nat) (epw : ℝ) (st : Sgp4.Newton ℝ), st.converged = false →
      (newtonLoop axn ayn capu ecc fuel i epw st).converged = true →
      let r := newtonLoop axn ayn capu ecc fuel i epw st
      |capu - r.epw + (axn * Real.sin r.epw - ayn * Real.cos r.epw)| < 1e-12 ∧ NewtonAt axn ayn r r.epw := by
  intro fuel
  induction fuel with
  | zero => intro i epw st h0 h1; simp only [newtonLoop] at h1; rw [h0] at h1; exact absurd h1 (by decide)
  | succ n ih =>
    intro i epw st h0 h1
    simp only [newtonLoop] at h1 ⊢
    split_ifs at h1 ⊢ with hc hj
    · refine ⟨?_, rfl, rfl, rfl, rfl⟩
      simp only [NR_EPS_eq, r_lt, r_abs, r_sin, r_cos, decide_eq_true_eq] at hc
      exact hc
    · exact ih _ _ _ rfl h1
    · exact ih _ _ _ rfl h1


theorem newtonLoop_at (axn ayn capu ecc : ℝ) :
    ∀ (fuel i : Nat) (epw : ℝ) (st : Sgp4.Newton ℝ) (x : ℝ), NewtonAt axn ayn st x →
      ∃ y, NewtonAt axn ayn (newtonLoop axn ayn capu ecc fuel i epw st) y := by
  intro fuel
  induction fuel with
  | zero => intro i epw st x hx; exact ⟨x, hx⟩
  | succ n ih =>
    intro i epw st x _
    simp only [newtonLoop]
    split_ifs with hc hj
    · exact ⟨epw, rfl, rfl, rfl, rfl⟩
    · exact ih _ _ _ epw ⟨rfl, rfl, rfl, rfl⟩
    · exact ih _ _ _ epw ⟨rfl, rfl, rfl, rfl⟩

theorem newtonLoop_at_succ (axn ayn capu ecc : ℝ) (fuel i : Nat) (epw : ℝ) (st : Sgp4.Newton ℝ) :
    ∃ y, NewtonAt axn ayn (newtonLoop axn ayn capu ecc (fuel + 1) i epw st) y := by
  simp only [newtonLoop]
  split_ifs with hc hj
  · exact ⟨epw, rfl, rfl, rfl, rfl⟩
  · exact newtonLoop_at axn ayn capu ecc _ _ _ _ epw ⟨rfl, rfl, rfl, rfl⟩
  · exact newtonLoop_at axn ayn capu ecc _ _ _ _ epw ⟨rfl, rfl, rfl, rfl⟩

/-- whatever the exit, the sin/cos/e·cosE/e·sinE the loop hands on were all computed at one point `y` -/
theorem newton_at (axn ayn capu ecc : ℝ) : ∃ y, NewtonAt axn ayn (newton axn ayn capu ecc) y :=
  newtonLoop_at_succ axn ayn capu ecc 9 0 capu _

theorem newton_converged (axn ayn capu ecc : ℝ) (hc : (newton axn ayn capu ecc).converged = true) :
    |capu - (newton axn ayn capu ecc).epw + (axn * Real.sin (newton axn ayn capu ecc).epw
        - ayn * Real.cos (newton axn ayn capu ecc).epw)| < 1e-12 ∧
      NewtonAt axn ayn (newton axn ayn capu ecc) (newton axn ayn capu ecc).epw :=
  newtonLoop_spec axn ayn capu ecc 10 0 capu _ rfl hc

/-! ### short-period periodics and orientation -/

theorem rpow_three_half {a : ℝ} (ha : 0 < a) : a ^ (1.5 : ℝ) = a * √a := by
  rw [Real.sqrt_eq_rpow, show (1.5 : ℝ) = 1 + 1 / 2 by norm_num, Real.rpow_add ha, Real.rpow_one]

theorem state_core {p : Sgp4.Params ℝ} {l : Str3.El ℝ} {c : Str3.Co ℝ} (h : Corr p l c)
    (s : Sgp4.Secular ℝ) (lp : Sgp4.LongPeriod ℝ) (nw : Sgp4.Newton ℝ) (m : Str3.Mean ℝ) (x : ℝ)
    (ha : s.a = m.a) (hn : s.xnode = m.xnode) (hax : lp.axn = m.axn) (hay : lp.ayn = m.ayn)
    (hel : lp.elsq = lp.axn * lp.axn + lp.ayn * lp.ayn) (hxn : m.xn = Str3.XKE / m.a ^ (1.5 : ℝ)) (hpos : 0 < m.a)
    (hnw : NewtonAt m.axn m.ayn nw x) :
    kep2xyz (shortPeriod p s lp nw) = Str3.state l c m x := by
  obtain ⟨h1, h2, h3, h4⟩ := hnw
  simp only [kep2xyz, shortPeriod, Str3.state, h1, h2, h3, h4, ha, hn, hel, hax, hay, hxn, h.x3thm1, h.x1mth2, h.x7thm1,
    h.cosIO, h.sinIO, h.xincl, Num.sq, rpow_three_half hpos]
  c01_consts
  c01_bridge
  generalize Real.sin x = sx
  generalize Real.cos x = cx
  generalize m.a * (1 / (m.a * (1 - (m.axn * cx + m.ayn * sx)))) * (cx - m.axn + m.ayn * (m.axn * sx - m.ayn * cx) *
    (1 / (1 + √(1 - (m.axn * m.axn + m.ayn * m.ayn))))) = cosu
  generalize m.a * (1 / (m.a * (1 - (m.axn * cx + m.ayn * sx)))) * (sx - m.ayn - m.axn * (m.axn * sx - m.ayn * cx) *
    (1 / (1 + √(1 - (m.axn * m.axn + m.ayn * m.ayn))))) = sinu
  rw [mul_assoc (2 : ℝ) cosu cosu]
  generalize 1 / (m.a * (1 - (m.axn * m.axn + m.ayn * m.ayn))) = ipl
  generalize Real.sin (m.xnode + 1.5 * (Str3.CK2 * ipl * ipl) * c.cosio * (2 * sinu * cosu)) = sS
  generalize Real.cos (m.xnode + 1.5 * (Str3.CK2 * ipl * ipl) * c.cosio * (2 * sinu * cosu)) = cS
  generalize Real.sin (l.xincl + 1.5 * (Str3.CK2 * ipl * ipl) * c.cosio * c.sinio * (2 * (cosu * cosu) - 1)) = sI
  generalize Real.cos (l.xincl + 1.5 * (Str3.CK2 * ipl * ipl) * c.cosio * c.sinio * (2 * (cosu * cosu) - 1)) = cI
  generalize Real.sin (Complex.arg ⟨cosu, sinu⟩ - 0.25 * (Str3.CK2 * ipl * ipl) * c.x7thm1 * (2 * sinu * cosu)) = sT
  generalize Real.cos (Complex.arg ⟨cosu, sinu⟩ - 0.25 * (Str3.CK2 * ipl * ipl) * c.x7thm1 * (2 * sinu * cosu)) = cT
  simp only [Prod.mk.injEq, V3.mk.injEq]
  refine ⟨⟨?_, ?_, ?_⟩, ⟨?_, ?_, ?_⟩⟩ <;> (norm_num1; ring)


/-! ### guards: what `init` / `propagate` answering implies -/

theorem consts_isimp (l : Str3.El ℝ) : (Str3.consts l).isimp = Str3.isimp l := by
  rcases hs : Str3.s4q l with ⟨s4, q⟩
  simp only [Str3.consts, hs]

/-- the report's ISIMP test (`aodp(1-e) < 220/XKMPER + 1`) is the code's `perigee < 220` -/
theorem isimp_iff (e : Sgp4.Elements ℝ) : Str3.isimp (toEl e) = decide ((basic e).perigee < 220) := by
  rw [basic_perigee, basic_aodp_eq]
  simp only [Str3.isimp, toEl_eo]
  c01_bridge
  congr 1
  rw [eq_iff_iff, ← lt_div_iff₀ XKMPER_pos]
  constructor <;> intro h <;> linarith

theorem modeOf_eq (x : ℝ) : modeOf x = if x < 220 then Mode.nearSimp else Mode.nearNorm := by
  simp only [modeOf, PERIGEE_SIMP_eq, r_lt, decide_eq_true_eq]

theorem checkElements_none {e : Sgp4.Elements ℝ} (h : checkElements e = none) :
    0 < e.eo ∧ e.eo < 1 - 1e-6 ∧ 0 < e.xincl ∧ e.xincl < Real.pi := by
  simp only [checkElements] at h
  split_ifs at h with h1 h2 h3
  simp only [ECC_LIMIT_HIGH_eq, r_lt, r_pi, r_ofNat, Nat.cast_zero, Bool.not_eq_true', Bool.and_eq_false_iff, not_or,
    Bool.not_eq_false, decide_eq_true_eq] at h1 h3
  exact ⟨h1.1, h1.2, h3.1, h3.2⟩

theorem init_ok {e : Sgp4.Elements ℝ} {p : Sgp4.Params ℝ} (h : init e = .ok p) :
    checkElements e = none ∧ (basic e).period < 225 ∧ p = coeffs e (basic e) (modeOf (basic e).perigee) := by
  simp only [init] at h
  split at h
  · exact absurd h (by simp)
  · rename_i hc
    split_ifs at h with hd
    simp only [PERIOD_DEEP_eq, r_ge, decide_eq_true_eq, not_le] at hd
    exact ⟨hc, hd, (Except.ok.inj h).symm⟩

theorem propagate_ok {p : Sgp4.Params ℝ} {ts : ℝ} {k : Sgp4.Kep ℝ} (h : propagate p ts = .ok k) :
    p.mode = .nearNorm ∧ calculate p ts = .ok k := by
  simp only [propagate] at h
  split_ifs at h with hm
  exact ⟨by simpa using hm, h⟩

/-- what `calculate` answering means: the four run-time guards passed and the answer is `shortPeriod` of the pipeline -/
theorem calculate_ok {p : Sgp4.Params ℝ} {ts : ℝ} {k : Sgp4.Kep ℝ} (h : calculate p ts = .ok k) :
    1 ≤ (secular p ts).a ∧ -1e-3 ≤ (secular p ts).e0 ∧ (longPeriod p (secular p ts)).elsq < 1 ∧
    k = shortPeriod p (secular p ts) (longPeriod p (secular p ts))
      (newton (longPeriod p (secular p ts)).axn (longPeriod p (secular p ts)).ayn (longPeriod p (secular p ts)).capu
        (√(longPeriod p (secular p ts)).elsq)) ∧ 1 ≤ k.rk := by
  simp only [calculate] at h
  split_ifs at h with h1 h2 h3 h4
  simp only [ECC_LIMIT_LOW_eq, r_lt, r_ge, r_ofNat, Nat.cast_one, decide_eq_true_eq, not_lt, not_le] at h1 h2 h3 h4
  have hk := (Except.ok.inj h).symm
  refine ⟨h1, h2, h3, hk, ?_⟩
  rw [hk]; exact h4

end PV.C01
