/-
  Helper lemmas for C10 about the text operations of PV.Model.Text (core Lean only).
-/
import PV.Model.Text
namespace PV.C10
open PV.Text

theorem lstrip_ws_append (w s : List Char) (hw : w.all isPyWs = true) : lstrip (w ++ s) = lstrip s := by
  induction w with
  | nil => rfl
  | cons c cs ih =>
    simp only [List.all_cons, Bool.and_eq_true] at hw
    simp [lstrip, hw.1, ih hw.2]

theorem lstrip_all_ws (w : List Char) (hw : w.all isPyWs = true) : lstrip w = [] := by
  have := lstrip_ws_append w [] hw
  simpa [lstrip] using this

theorem rstrip_append_ws (s w : List Char) (hw : w.all isPyWs = true) : rstrip (s ++ w) = rstrip s := by
  unfold rstrip
  rw [List.reverse_append, lstrip_ws_append _ _ (by simpa using hw)]

theorem lstrip_append_ws (s w : List Char) (hw : w.all isPyWs = true) :
    lstrip (s ++ w) = if lstrip s = [] then [] else lstrip s ++ w := by
  induction s with
  | nil => simp [lstrip, lstrip_all_ws w hw]
  | cons c cs ih =>
    by_cases hc : isPyWs c = true
    · simp [lstrip, hc, ih]
    · simp [lstrip, hc]

/-- `strip` ignores a trailing run of whitespace (the line ending) -/
theorem strip_append_ws (s w : List Char) (hw : w.all isPyWs = true) : strip (s ++ w) = strip s := by
  unfold strip
  rw [lstrip_append_ws s w hw]
  split
  · rename_i h; rw [h]
  · exact rstrip_append_ws _ _ hw

/-- what `lstrip` leaves is empty or begins with a non-blank -/
theorem lstrip_head (s : List Char) : lstrip s = [] ∨ ∃ c t, lstrip s = c :: t ∧ isPyWs c = false := by
  induction s with
  | nil => exact Or.inl rfl
  | cons c cs ih =>
    by_cases hc : isPyWs c = true
    · simpa [lstrip, hc] using ih
    · exact Or.inr ⟨c, cs, by simp [lstrip, hc], by simpa using hc⟩

theorem lstrip_of_head (c : Char) (t : List Char) (hc : isPyWs c = false) : lstrip (c :: t) = c :: t := by
  simp [lstrip, hc]

theorem lstrip_lstrip (s : List Char) : lstrip (lstrip s) = lstrip s := by
  rcases lstrip_head s with h | ⟨c, t, h, hc⟩
  · rw [h]; rfl
  · rw [h, lstrip_of_head c t hc]

theorem lstrip_append_nonws (u : List Char) (c : Char) (hc : isPyWs c = false) :
    lstrip (u ++ [c]) = lstrip u ++ [c] := by
  induction u with
  | nil => simp [lstrip, hc]
  | cons d ds ih =>
    by_cases hd : isPyWs d = true
    · simp [lstrip, hd, ih]
    · simp [lstrip, hd]

theorem rstrip_cons_nonws (c : Char) (t : List Char) (hc : isPyWs c = false) : rstrip (c :: t) = c :: rstrip t := by
  unfold rstrip
  rw [List.reverse_cons, lstrip_append_nonws _ _ hc]
  simp

theorem rstrip_rstrip (s : List Char) : rstrip (rstrip s) = rstrip s := by
  unfold rstrip
  rw [List.reverse_reverse, lstrip_lstrip]

/-- `strip` is idempotent -/
theorem strip_strip (s : List Char) : strip (strip s) = strip s := by
  unfold strip
  rcases lstrip_head s with h | ⟨c, t, h, hc⟩
  · rw [h]; rfl
  · rw [h, rstrip_cons_nonws c t hc, lstrip_of_head c _ hc, ← rstrip_cons_nonws c t hc, rstrip_rstrip]

theorem startsWith_iff_take (s p : List Char) : startsWith s p = true ↔ s.take p.length = p := by
  induction p generalizing s with
  | nil => simp [startsWith]
  | cons q qs ih =>
    cases s with
    | nil => simp [startsWith]
    | cons c cs => simp [startsWith, ih]

theorem startsWith_one_space (s t : List Char) (h : startsWith s ('1' :: ' ' :: t) = true) :
    startsWith s ['1', ' '] = true := by
  match s with
  | [] => simp [startsWith] at h
  | [_] => simp [startsWith] at h
  | a :: b :: r => simp [startsWith] at h ⊢; exact ⟨h.1, h.2.1⟩

/-- for a line of at least 7 characters starting "1 ", "starts with `1 <id>`" (5-character id) is
    "columns 2..7 are the id" -/
theorem designator_iff_catalogue (s id : List Char) (hlen : 7 ≤ s.length) (h1 : startsWith s ['1', ' '] = true)
    (hid : id.length = 5) : startsWith s ('1' :: ' ' :: id) = true ↔ slice s 2 7 = id := by
  match s, hlen with
  | a :: b :: r, hlen =>
    simp [startsWith] at h1
    simp only [startsWith, h1.1, h1.2, beq_self_eq_true, Bool.true_and, startsWith_iff_take, hid, slice]
    simp
