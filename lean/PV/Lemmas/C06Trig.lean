/-
  PV.Lemmas.C06Trig — trigonometric / complex-argument lemmas for C06.
-/
import PV.NumReal
import PV.Model.Astro
namespace PV.C06L
open PV.Astro
open PV

/-- off the closed negative real axis, `x + √(x²+y²) > 0` -/
theorem add_sqrt_pos (x y : ℝ) (h : ¬ (y = 0 ∧ x ≤ 0)) : 0 < x + Real.sqrt (x ^ 2 + y ^ 2) := by
  have hr2 : Real.sqrt (x ^ 2 + y ^ 2) ^ 2 = x ^ 2 + y ^ 2 := Real.sq_sqrt (by positivity)
  have hr0 : 0 ≤ Real.sqrt (x ^ 2 + y ^ 2) := Real.sqrt_nonneg _
  by_contra hneg
  rw [not_lt] at hneg
  have hx : x ≤ 0 := by linarith
  have h1 : Real.sqrt (x ^ 2 + y ^ 2) ^ 2 ≤ x ^ 2 := by nlinarith
  have hy2 : y ^ 2 ≤ 0 := by linarith
  have hy : y = 0 := by nlinarith [sq_nonneg y]
  exact h ⟨hy, hx⟩

/-- half-angle form of atan2: `2·atan2(y, x + r) = atan2(y, x)`, `r = √(x²+y²)`,
    for (x, y) off the closed negative x-axis -/
theorem two_arg_half (x y : ℝ) (h : ¬ (y = 0 ∧ x ≤ 0)) :
    2 * Complex.arg ⟨x + Real.sqrt (x ^ 2 + y ^ 2), y⟩ = Complex.arg ⟨x, y⟩ := by
  have hpos := add_sqrt_pos x y h
  have hr2 : Real.sqrt (x ^ 2 + y ^ 2) ^ 2 = x ^ 2 + y ^ 2 := Real.sq_sqrt (by positivity)
  generalize Real.sqrt (x ^ 2 + y ^ 2) = r at hpos hr2
  have hw0 : (⟨x + r, y⟩ : ℂ) ≠ 0 := by
    intro h0
    have := congrArg Complex.re h0
    simp at this
    linarith
  have hw : (⟨x + r, y⟩ : ℂ) * ⟨x + r, y⟩ = ((2 * (x + r) : ℝ) : ℂ) * ⟨x, y⟩ := by
    apply Complex.ext
    · simp only [Complex.mul_re, Complex.ofReal_re, Complex.ofReal_im]; nlinarith
    · simp only [Complex.mul_im, Complex.ofReal_re, Complex.ofReal_im]; ring
  have harg : |Complex.arg ⟨x + r, y⟩| < Real.pi / 2 :=
    Complex.abs_arg_lt_pi_div_two_iff.mpr (Or.inl hpos)
  obtain ⟨h1, h2⟩ := abs_lt.mp harg
  have hmul := Complex.arg_mul hw0 hw0 (by constructor <;> linarith)
  rw [two_mul, ← hmul, hw, Complex.arg_real_mul _ (by linarith)]

/-- `atan2(z, √(1 − z²)) = arcsin z` for |z| ≤ 1 -/
theorem arg_sqrt_one_sub_sq (z : ℝ) (hz : |z| ≤ 1) :
    Complex.arg ⟨Real.sqrt (1 - z ^ 2), z⟩ = Real.arcsin z := by
  have h0 : 0 ≤ 1 - z ^ 2 := by
    have := (sq_le_one_iff_abs_le_one z).mpr hz; linarith
  rw [Complex.arg_of_re_nonneg (by simp [Real.sqrt_nonneg])]
  have hn : ‖(⟨Real.sqrt (1 - z ^ 2), z⟩ : ℂ)‖ = 1 := by
    rw [Complex.norm_eq_sqrt_sq_add_sq]
    simp only
    rw [Real.sq_sqrt h0]; simp
  rw [hn]; simp

/-- scaling both arguments of atan2 by a positive factor does not change it -/
theorem arg_scale (c x y : ℝ) (hc : 0 < c) : Complex.arg ⟨c * x, c * y⟩ = Complex.arg ⟨x, y⟩ := by
  have : (⟨c * x, c * y⟩ : ℂ) = ((c : ℝ) : ℂ) * ⟨x, y⟩ := by
    apply Complex.ext <;> simp
  rw [this, Complex.arg_real_mul _ hc]

/-- Cauchy–Schwarz for the cos-zenith expression -/
theorem abs_coszen_le_one (sp cp sd cd ch : ℝ) (h1 : sp ^ 2 + cp ^ 2 = 1) (h2 : sd ^ 2 + cd ^ 2 = 1)
    (h3 : ch ^ 2 ≤ 1) : |sp * sd + cp * cd * ch| ≤ 1 := by
  rw [← sq_le_one_iff_abs_le_one]
  have hq : cd ^ 2 * ch ^ 2 ≤ cd ^ 2 := by nlinarith [sq_nonneg cd]
  nlinarith [sq_nonneg (sp * (cd * ch) - cp * sd)]

end PV.C06L

namespace PV.C06L
open PV.Astro
open PV

/-! ### real readings of the sun-angle model -/

theorem sunRaDec_real (d : ℝ) :
    sunRaDec d =
      (2 * Complex.arg ⟨Real.cos (sunEclipticLongitude d)
            + Real.sqrt (1 - (Real.sin (obliquity d) * Real.sin (sunEclipticLongitude d))
                * (Real.sin (obliquity d) * Real.sin (sunEclipticLongitude d))),
          Real.cos (obliquity d) * Real.sin (sunEclipticLongitude d)⟩,
       Complex.arg ⟨Real.sqrt (1 - (Real.sin (obliquity d) * Real.sin (sunEclipticLongitude d))
                * (Real.sin (obliquity d) * Real.sin (sunEclipticLongitude d))),
          Real.sin (obliquity d) * Real.sin (sunEclipticLongitude d)⟩) := by
  simp only [sunRaDec, r_add, r_sub, r_mul, r_ofNat, r_sqrt, r_sin, r_cos, r_atan2]
  simp only [Nat.cast_ofNat, Nat.cast_one]

theorem hourAngle_real (d lon ra : ℝ) : hourAngle d lon ra = gmst d + lon - ra := by
  simp only [hourAngle, lmst, r_add, r_sub]

theorem cosZenRad_real (d lon lat : ℝ) :
    cosZenRad d lon lat = Real.sin lat * Real.sin (sunRaDec d).2
      + Real.cos lat * Real.cos (sunRaDec d).2 * Real.cos (hourAngle d lon (sunRaDec d).1) := rfl

theorem altAz_real (d lonDeg latDeg : ℝ) :
    altAz d lonDeg latDeg =
      (Real.arcsin (cosZen d lonDeg latDeg),
       Complex.arg ⟨Real.cos (latDeg * (Real.pi / 180)) * Real.tan (sunRaDec d).2
           - Real.sin (latDeg * (Real.pi / 180))
             * Real.cos (hourAngle d (lonDeg * (Real.pi / 180)) (sunRaDec d).1),
         -Real.sin (hourAngle d (lonDeg * (Real.pi / 180)) (sunRaDec d).1)⟩) := by
  rw [← r_deg2rad, ← r_deg2rad]; rfl

/-- the code's `r = √(1 − z²)` is `√(x² + y²)` because (x, y, z) is a unit vector -/
theorem one_sub_zz (eps lam : ℝ) :
    1 - (Real.sin eps * Real.sin lam) * (Real.sin eps * Real.sin lam)
      = Real.cos lam ^ 2 + (Real.cos eps * Real.sin lam) ^ 2 := by
  have h1 := Real.sin_sq_add_cos_sq eps
  have h2 := Real.sin_sq_add_cos_sq lam
  linear_combination (-1 : ℝ) * h2 - Real.sin lam ^ 2 * h1

end PV.C06L
