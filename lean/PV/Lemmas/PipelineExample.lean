/-
  PV.Lemmas.PipelineExample — a concrete two-line element set for which, over ℝ, the whole pipeline runs:
  the lines are well-formed, accepted and parsed, the object is constructed (NEAR_NORM) and the position at the
  epoch is answered.  This witnesses the hypotheses of PV/Props/Pipeline.lean.

      1 00001U 00001A   08264.51782528  .00000000  00000-0  10000-3 0    18
      2 00001  90.0000   0.0000 2800000   0.0000   0.0000  9.86322000    13

  i = 90° (cos i = 0), e = 0.28 (√(1 − e²) = 0.96), Ω = ω = M = 0, B* = 1e-4, n = 9.86322 rev/day, for which
  XKE/n₀ ∈ [1.19999³, 1.20001³] (π ∈ (3.141592, 3.141593)), so a₁ ∈ [1.19999², 1.20001²]: the same orbit as
  `PV.C13.exE` up to 2e-5, whose arithmetic (`PV.C13.ex_num`) is reused.  (/repo answers this element set at its
  epoch with position (6615.12, 0, −13.24) km.)
-/
import PV.Lemmas.PipelineGeo
import PV.Lemmas.C13Example
namespace PV.PipelineL
open PV PV.Pipeline PV.Text PV.Spec.TleLayout PV.Spec.TleElements PV.Sgp4 PV.TleParse PV.C13 Real

def exFields : Fields where
  satnum := "00001".toList
  classification := 'U'
  launchYear := "00".toList
  launchNumber := "001".toList
  launchPiece := "A  ".toList
  epochYear := "08".toList
  epochDayInt := "264".toList
  epochDayFrac := "51782528".toList
  ndotSign := ' '
  ndotFrac := "00000000".toList
  nddotSign := ' '
  nddotMant := "00000".toList
  nddotExpSign := '-'
  nddotExp := '0'
  bstarSign := ' '
  bstarMant := "10000".toList
  bstarExpSign := '-'
  bstarExp := '3'
  ephemeris := '0'
  elnum := "   1".toList
  inclInt := " 90".toList
  inclFrac := "0000".toList
  raanInt := "  0".toList
  raanFrac := "0000".toList
  ecc := "2800000".toList
  argpInt := "  0".toList
  argpFrac := "0000".toList
  manomInt := "  0".toList
  manomFrac := "0000".toList
  mmInt := " 9".toList
  mmFrac := "86322000".toList
  rev := "    1".toList

def exLine1 : List Char := "1 00001U 00001A   08264.51782528  .00000000  00000-0  10000-3 0    18".toList
def exLine2 : List Char := "2 00001  90.0000   0.0000 2800000   0.0000   0.0000  9.86322000    13".toList

theorem exFields_wf : WellFormed exFields := by decide
theorem exFields_encode : encode exFields = (exLine1, exLine2) := by decide +kernel
theorem exFields_yy : yy exFields ≤ 56 ∨ 69 ≤ yy exFields := by decide
theorem exFields_epoch : epochUs exFields = 1221913540104192 := by decide +kernel

/-- the printed numbers, exactly -/
theorem exFields_dec :
    eccVal exFields = ⟨2800000, -7⟩ ∧ fixedVal exFields.inclInt exFields.inclFrac 4 = ⟨900000, -4⟩ ∧
    fixedVal exFields.raanInt exFields.raanFrac 4 = ⟨0, -4⟩ ∧ fixedVal exFields.argpInt exFields.argpFrac 4 = ⟨0, -4⟩ ∧
    fixedVal exFields.manomInt exFields.manomFrac 4 = ⟨0, -4⟩ ∧
    fixedVal exFields.mmInt exFields.mmFrac 8 = ⟨986322000, -8⟩ ∧
    expoVal exFields.bstarSign exFields.bstarMant exFields.bstarExpSign exFields.bstarExp = ⟨10000, -8⟩ := by
  decide +kernel

/-- `OrbitElements` of the example -/
noncomputable def exEl : Elements ℝ := elements (tleNumOfFields exFields)

theorem exEl_vals : exEl.eo = 0.28 ∧ exEl.xincl = π / 2 ∧ exEl.xnodeo = 0 ∧ exEl.omegao = 0 ∧ exEl.xmo = 0 ∧
    exEl.xn_0 = 9.86322 * (π * 2 / 1440) ∧ exEl.bstar = 0.0001 := by
  obtain ⟨h1, h2, h3, h4, h5, h6, h7⟩ := exFields_dec
  have hE := toEl_elements_fields exFields
  have e1 : exEl.eo = (printedEl exFields).eo := by rw [← hE]; rfl
  have e2 : exEl.xincl = (printedEl exFields).xincl := by rw [← hE]; rfl
  have e3 : exEl.xnodeo = (printedEl exFields).xnodeo := by rw [← hE]; rfl
  have e4 : exEl.omegao = (printedEl exFields).omegao := by rw [← hE]; rfl
  have e5 : exEl.xmo = (printedEl exFields).xmo := by rw [← hE]; rfl
  have e6 : exEl.xn_0 = (printedEl exFields).xno := by rw [← hE]; rfl
  have e7 : exEl.bstar = (printedEl exFields).bstar := by rw [← hE]; rfl
  rw [e1, e2, e3, e4, e5, e6, e7]
  simp only [printedEl, h1, h2, h3, h4, h5, h6, h7, decVal]
  refine ⟨?_, ?_, ?_, ?_, ?_, ?_, ?_⟩ <;> norm_num <;> ring

/-! ### interval arithmetic of the Kozai → Brouwer recovery for this orbit -/

theorem ex_arith_g (u : ℝ) (hu1 : 4.42e-4 ≤ u) (hu2 : u ≤ 4.43e-4) :
    1.000147 ≤ 1 - -u * (1 / 3 + -u * (1 + -u * 134 / 81)) ∧
    1 - -u * (1 / 3 + -u * (1 + -u * 134 / 81)) ≤ 1.000148 := by
  have h0 : (0 : ℝ) ≤ u := by linarith
  constructor
  · nlinarith [mul_nonneg (mul_nonneg h0 h0) h0]
  · nlinarith [mul_nonneg h0 h0]

theorem ex_u_bounds (s T : ℝ) (hs1 : 2.0735 ≤ s) (hs2 : s ≤ 2.0743) (hT1 : -9.18e-4 ≤ T) (hT2 : T ≤ -9.17e-4) :
    4.42e-4 ≤ -(T / s) ∧ -(T / s) ≤ 4.43e-4 := by
  have hpos : 0 < s := by linarith
  constructor
  · rw [← neg_div, le_div_iff₀ hpos]; nlinarith
  · rw [← neg_div, div_le_iff₀ hpos]; nlinarith

theorem ex_arith_a0 (a1 g : ℝ) (h1 : 1.439976 ≤ a1) (h2 : a1 ≤ 1.440025) (hg1 : 1.000147 ≤ g) (hg2 : g ≤ 1.000148) :
    1.44018 ≤ a1 * g ∧ a1 * g ≤ 1.44024 ∧ 2.0735 ≤ (a1 * g) ^ 2 ∧ (a1 * g) ^ 2 ≤ 2.0743 := by
  have l : 1.44018 ≤ a1 * g := by nlinarith
  have u : a1 * g ≤ 1.44024 := by nlinarith
  exact ⟨l, u, by nlinarith, by nlinarith⟩

theorem ex_arith_aodp (a0 v : ℝ) (h1 : 1.44018 ≤ a0) (h2 : a0 ≤ 1.44024) (hv1 : 4.42e-4 ≤ v) (hv2 : v ≤ 4.43e-4) :
    1.439 ≤ a0 / (1 - -v) ∧ a0 / (1 - -v) ≤ 1.44 := by
  have hden : 0 < 1 - -v := by linarith
  constructor
  · rw [le_div_iff₀ hden]; nlinarith
  · rw [div_le_iff₀ hden]; nlinarith

theorem ex_arith (a1 T : ℝ) (h1 : 1.439976 ≤ a1) (h2 : a1 ≤ 1.440025) (hT1 : -9.18e-4 ≤ T) (hT2 : T ≤ -9.17e-4) :
    1.439 ≤ a1 * (1 - T / a1 ^ 2 * (1 / 3 + T / a1 ^ 2 * (1 + T / a1 ^ 2 * 134 / 81))) /
        (1 - T / (a1 * (1 - T / a1 ^ 2 * (1 / 3 + T / a1 ^ 2 * (1 + T / a1 ^ 2 * 134 / 81)))) ^ 2) ∧
    a1 * (1 - T / a1 ^ 2 * (1 / 3 + T / a1 ^ 2 * (1 + T / a1 ^ 2 * 134 / 81))) /
        (1 - T / (a1 * (1 - T / a1 ^ 2 * (1 / 3 + T / a1 ^ 2 * (1 + T / a1 ^ 2 * 134 / 81)))) ^ 2) ≤ 1.44 ∧
    0.9995 ≤ 1 + T / (a1 * (1 - T / a1 ^ 2 * (1 / 3 + T / a1 ^ 2 * (1 + T / a1 ^ 2 * 134 / 81)))) ^ 2 ∧
    1 + T / (a1 * (1 - T / a1 ^ 2 * (1 / 3 + T / a1 ^ 2 * (1 + T / a1 ^ 2 * 134 / 81)))) ^ 2 ≤ 0.9996 := by
  have hsq1 : 2.0735 ≤ a1 ^ 2 := by nlinarith
  have hsq2 : a1 ^ 2 ≤ 2.0743 := by nlinarith
  obtain ⟨u, hu⟩ : ∃ u, u = -(T / a1 ^ 2) := ⟨_, rfl⟩
  have hd : T / a1 ^ 2 = -u := by rw [hu]; ring
  obtain ⟨hu1, hu2⟩ := ex_u_bounds _ T hsq1 hsq2 hT1 hT2
  rw [← hu] at hu1 hu2
  rw [hd]
  obtain ⟨hg1, hg2⟩ := ex_arith_g u hu1 hu2
  obtain ⟨g, hg⟩ : ∃ g, g = 1 - -u * (1 / 3 + -u * (1 + -u * 134 / 81)) := ⟨_, rfl⟩
  rw [← hg] at hg1 hg2 ⊢
  obtain ⟨ha01, ha02, hs1, hs2⟩ := ex_arith_a0 a1 g h1 h2 hg1 hg2
  obtain ⟨a0, ha0⟩ : ∃ a0, a0 = a1 * g := ⟨_, rfl⟩
  rw [← ha0] at ha01 ha02 hs1 hs2 ⊢
  obtain ⟨v, hv⟩ : ∃ v, v = -(T / a0 ^ 2) := ⟨_, rfl⟩
  have hd0 : T / a0 ^ 2 = -v := by rw [hv]; ring
  obtain ⟨hv1, hv2⟩ := ex_u_bounds _ T hs1 hs2 hT1 hT2
  rw [← hv] at hv1 hv2
  rw [hd0]
  obtain ⟨b1, b2⟩ := ex_arith_aodp a0 v ha01 ha02 hv1 hv2
  exact ⟨b1, b2, by linarith, by linarith⟩

/-- the same recovery as `OrbitElements` codes it (exponent 2/3 on 1 − e², whence `k ∈ [−1/0.9216, −1]`): only a
    crude enclosure of the original mean motion is needed, its accepted range is wide -/
theorem ex_c_bounds (s : ℝ) (h1 : 2.04 ≤ s) (h2 : s ≤ 2.11) :
    2.5e-4 ≤ 541308e-9 / s ∧ 541308e-9 / s ≤ 2.7e-4 := by
  have hpos : 0 < s := by linarith
  constructor
  · rw [le_div_iff₀ hpos]; nlinarith
  · rw [div_le_iff₀ hpos]; nlinarith

theorem ex_g_bounds (d : ℝ) (hd1 : -4.5e-4 ≤ d) (hd2 : d ≤ -3.7e-4) :
    1 ≤ 1 - d / 3 - d ^ 2 - 134 / 81 * d ^ 3 ∧ 1 - d / 3 - d ^ 2 - 134 / 81 * d ^ 3 ≤ 1.001 := by
  constructor
  · have : d ^ 2 ≤ 4.5e-4 * -d := by nlinarith
    have : d ^ 3 ≤ 0 := by
      have : d ^ 3 = d * d ^ 2 := by ring
      rw [this]; exact mul_nonpos_of_nonpos_of_nonneg (by linarith) (sq_nonneg d)
    nlinarith
  · have h3 : -(4.5e-4 : ℝ) ^ 3 ≤ d ^ 3 := by
      have : d ^ 3 = -((-d) ^ 3) := by ring
      rw [this, neg_le_neg_iff]
      exact pow_le_pow_left₀ (by linarith) (by linarith) 3
    nlinarith [sq_nonneg d]

theorem ex_a0_crude (a1 g : ℝ) (h1 : 1.43 ≤ a1) (h2 : a1 ≤ 1.45) (hg1 : 1 ≤ g) (hg2 : g ≤ 1.001) :
    2.04 ≤ (a1 * g) ^ 2 ∧ (a1 * g) ^ 2 ≤ 2.11 := by
  have l : 1.43 ≤ a1 * g := by nlinarith
  have u : a1 * g ≤ 1.452 := by nlinarith
  exact ⟨by nlinarith, by nlinarith⟩

theorem ex_arith_xno (a1 k mm : ℝ) (h1 : 1.43 ≤ a1) (h2 : a1 ≤ 1.45) (hk1 : -1.1 ≤ k) (hk2 : k ≤ -1) (hmm : 0 < mm) :
    mm ≤ mm / (1 + 3 / 2 * (541308e-9 / (a1 * (1 - 3 / 2 * (541308e-9 / a1 ^ 2) * k / 3
        - (3 / 2 * (541308e-9 / a1 ^ 2) * k) ^ 2 - 134 / 81 * (3 / 2 * (541308e-9 / a1 ^ 2) * k) ^ 3)) ^ 2) * k) ∧
    mm / (1 + 3 / 2 * (541308e-9 / (a1 * (1 - 3 / 2 * (541308e-9 / a1 ^ 2) * k / 3
        - (3 / 2 * (541308e-9 / a1 ^ 2) * k) ^ 2 - 134 / 81 * (3 / 2 * (541308e-9 / a1 ^ 2) * k) ^ 3)) ^ 2) * k)
      ≤ mm * 1.002 := by
  have hsq1 : 2.04 ≤ a1 ^ 2 := by nlinarith
  have hsq2 : a1 ^ 2 ≤ 2.11 := by nlinarith
  obtain ⟨hc1, hc2⟩ := ex_c_bounds _ hsq1 hsq2
  obtain ⟨c, hc⟩ : ∃ c, c = 541308e-9 / a1 ^ 2 := ⟨_, rfl⟩
  rw [← hc] at hc1 hc2 ⊢
  obtain ⟨d, hd⟩ : ∃ d, d = 3 / 2 * c * k := ⟨_, rfl⟩
  have hd1 : -4.5e-4 ≤ d := by rw [hd]; nlinarith
  have hd2 : d ≤ -3.7e-4 := by rw [hd]; nlinarith
  have hd3 : 3 / 2 * c * k / 3 = d / 3 := by rw [hd]
  rw [hd3, ← hd]
  obtain ⟨hg1, hg2⟩ := ex_g_bounds d hd1 hd2
  obtain ⟨g, hg⟩ : ∃ g, g = 1 - d / 3 - d ^ 2 - 134 / 81 * d ^ 3 := ⟨_, rfl⟩
  rw [← hg] at hg1 hg2 ⊢
  obtain ⟨hs1, hs2⟩ := ex_a0_crude a1 g h1 h2 hg1 hg2
  obtain ⟨hc01, hc02⟩ := ex_c_bounds _ hs1 hs2
  obtain ⟨c0, hc0⟩ : ∃ c0, c0 = 541308e-9 / (a1 * g) ^ 2 := ⟨_, rfl⟩
  rw [← hc0] at hc01 hc02 ⊢
  have hq1 : -4.5e-4 ≤ 3 / 2 * c0 * k := by nlinarith
  have hq2 : 3 / 2 * c0 * k ≤ 0 := by nlinarith
  have hden : 0 < 1 + 3 / 2 * c0 * k := by linarith
  constructor
  · rw [le_div_iff₀ hden]; nlinarith
  · rw [div_le_iff₀ hden]; nlinarith

/-! ### the example's recovered mean motion and semi-major axis -/

theorem ex_x_bounds : (1.19999 : ℝ) ^ (3 : ℕ) ≤ 743669161e-10 / (9.86322 * (π * 2 / 1440)) ∧
    743669161e-10 / (9.86322 * (π * 2 / 1440)) ≤ (1.20001 : ℝ) ^ (3 : ℕ) := by
  have h1 := Real.pi_gt_d6
  have h2 := Real.pi_lt_d6
  have hpos : 0 < 9.86322 * (π * 2 / 1440) := by positivity
  constructor
  · rw [le_div_iff₀ hpos]; norm_num; nlinarith
  · rw [div_le_iff₀ hpos]; norm_num; nlinarith

theorem rpow_cube_two_thirds (q : ℝ) (hq : 0 ≤ q) : (q ^ (3 : ℕ)) ^ ((2 : ℝ) / 3) = q ^ 2 := by
  rw [← Real.rpow_natCast, ← Real.rpow_mul hq]
  norm_num

theorem ex_a1_bounds : 1.439976 ≤ ((743669161e-10 : ℝ) / (9.86322 * (π * 2 / 1440))) ^ ((2 : ℝ) / 3) ∧
    ((743669161e-10 : ℝ) / (9.86322 * (π * 2 / 1440))) ^ ((2 : ℝ) / 3) ≤ 1.440025 := by
  obtain ⟨h1, h2⟩ := ex_x_bounds
  have l := Real.rpow_le_rpow (by positivity) h1 (by norm_num : (0 : ℝ) ≤ 2 / 3)
  have u := Real.rpow_le_rpow (by positivity) h2 (by norm_num : (0 : ℝ) ≤ 2 / 3)
  rw [rpow_cube_two_thirds _ (by norm_num)] at l u
  constructor
  · refine le_trans ?_ l; norm_num
  · refine le_trans u ?_; norm_num

theorem exEl_basic : 1.439 ≤ (basic exEl).aodp ∧ (basic exEl).aodp ≤ 1.44 ∧
    0.043 ≤ (basic exEl).xnodp ∧ (basic exEl).xnodp ≤ 0.0431 := by
  obtain ⟨heo, hi, -, -, -, hxn, -⟩ := exEl_vals
  obtain ⟨hl, hh⟩ := ex_a1_bounds
  have hT : (1.5 * 541308e-9 * (3 * 0 ^ 2 - 1) / (0.96 * (1 - 0.28 ^ 2)) : ℝ) = -(8.11962e-4 / 0.884736) := by norm_num
  have hT1 : (-9.18e-4 : ℝ) ≤ -(8.11962e-4 / 0.884736) := by norm_num
  have hT2 : -(8.11962e-4 / 0.884736) ≤ (-9.17e-4 : ℝ) := by norm_num
  obtain ⟨b1, b2, b3, b4⟩ := ex_arith _ _ hl hh hT1 hT2
  have hpi1 := Real.pi_gt_d6
  have hpi2 := Real.pi_lt_d6
  have hx0 : 0.04303 ≤ (9.86322 * (π * 2 / 1440) : ℝ) := by nlinarith
  have hx1 : (9.86322 * (π * 2 / 1440) : ℝ) ≤ 0.04304 := by nlinarith
  simp only [basic, heo, hi, hxn, XKE, CK2, Gen.orbital_XKE, Gen.orbital_CK2, r_add, r_sub, r_mul, r_div, r_sq, r_sqrt,
    r_cos, r_rpow, r_ofNat, r_ofSci]
  simp only [Nat.cast_ofNat, Nat.cast_one]
  simp only [ex_sqrt, cos_pi_div_two, hT]
  refine ⟨b1, b2, ?_, ?_⟩
  · rw [le_div_iff₀ (by linarith)]; nlinarith
  · rw [div_le_iff₀ (by linarith)]; nlinarith

/-! ### any element set on this orbit is constructed and answered at its epoch -/

/-- eo = 0.28, i = 90°, ω = M = 0, recovered semi-major axis in [1.439, 1.44], recovered mean motion ≥ 0.043 rad/min,
    original mean motion in range: accepted in NEAR_NORM mode, and `propagate` answers at ts = 0 -/
theorem answered_at_epoch (e : Elements ℝ) (heo : e.eo = 0.28) (hi : e.xincl = π / 2) (hom : e.omegao = 0)
    (hA : 1.439 ≤ (basic e).aodp ∧ (basic e).aodp ≤ 1.44) (hX : 0.043 ≤ (basic e).xnodp) (hmm : MmOk e) :
    init e = .ok (coeffs e (basic e) .nearNorm) ∧
    propagate (coeffs e (basic e) .nearNorm) 0 = .ok (kepOf (coeffs e (basic e) .nearNorm) 0) := by
  obtain ⟨hA0, hA1⟩ := hA
  have hper : (basic e).period < 225 := by
    have h : (basic e).period = 2 * π / (basic e).xnodp := by
      simp only [basic, r_mul, r_div, r_pi, r_ofNat, XMNPDA_real]
      simp only [Nat.cast_ofNat]; congr 1; ring
    rw [h, div_lt_iff₀ (by linarith)]
    nlinarith [pi_lt_four]
  have hperi : 220 ≤ (basic e).perigee := by
    rw [basic_perigee, heo]; nlinarith
  have hmode : modeSpec e = .nearNorm := (modeSpec_nearNorm_iff e).2 hperi
  have hinit : init e = .ok (coeffs e (basic e) .nearNorm) := by
    rw [init_ok_iff]
    refine ⟨?_, hmm, ?_, hper, by rw [hmode]⟩
    · constructor <;> rw [heo] <;> norm_num
    · constructor <;> rw [hi] <;> linarith [pi_pos]
  refine ⟨hinit, ?_⟩
  set p := coeffs e (basic e) .nearNorm with hp
  rw [propagate_ok_iff]
  obtain ⟨ha, he, ho⟩ := secular_zero p rfl (coeffs_delmo _ _ _) rfl
  have hpa : p.aodp = (basic e).aodp := rfl
  have hpe : p.eo = 0.28 := heo
  have hpo : p.omegao = 0 := hom
  rw [hpa] at ha; rw [hpe] at he; rw [hpo] at ho
  set s := secular p 0
  set l := longPeriod p s
  have hc : clampE (0.28 : ℝ) = 0.28 := clampE_id _ (by norm_num) (by norm_num)
  have hay : p.aycof = 0.25 * (2.53881e-6 / 5.41308e-4) := by
    rw [hp, coeffs_aycof, basic_sinIO, hi, sin_pi_div_two, mul_one]
  have hax : l.axn = 0.28 := by
    show (longPeriod p s).axn = _
    rw [longPeriod_axn, he, ho, hc, cos_zero, mul_one]
  have hayn : 0 ≤ l.ayn ∧ l.ayn ≤ 0.001 := by
    show 0 ≤ (longPeriod p s).ayn ∧ (longPeriod p s).ayn ≤ _
    rw [longPeriod_ayn, ha, he, ho, hc, hay, sin_zero]
    have hden : 0 < (basic e).aodp * (1 - 0.28 ^ 2) := by nlinarith
    refine ⟨by positivity, ?_⟩
    rw [mul_zero, zero_add, one_div, inv_mul_le_iff₀ hden]
    nlinarith
  obtain ⟨hay0, hay1⟩ := hayn
  have hx3 : p.x3thm1 = -1 := by
    show (basic e).x3thm1 = -1
    simp only [basic, hi, r_sub, r_mul, r_sq, r_cos, r_ofNat]; norm_num
  have hx1 : p.x1mth2 = 1 := by
    show (basic e).x1mth2 = 1
    simp only [basic, hi, r_sub, r_sq, r_cos, r_ofNat]; norm_num
  have helsq : l.elsq = l.axn ^ 2 + l.ayn ^ 2 := longPeriod_elsq p s
  have hay2 : l.ayn ^ 2 ≤ 0.001 ^ 2 := pow_le_pow_left₀ hay0 hay1 2
  have hel0 : 0.0784 ≤ l.elsq := by rw [helsq, hax]; nlinarith [sq_nonneg l.ayn]
  have hel1 : l.elsq ≤ 0.0785 := by rw [helsq, hax]; norm_num at hay2 ⊢; linarith
  have hapos : 0 < s.a := by rw [ha]; linarith
  refine ⟨rfl, by rw [ha]; linarith, by rw [he]; norm_num, by linarith, ?_, rfl⟩
  obtain ⟨hr0, hr1, hrk⟩ := C20.rk_bounds_gen p s l (newton l.axn l.ayn l.capu (Real.sqrt l.elsq))
    (newton_inv _ _ _ _) helsq (by linarith) hapos
  rw [hx3, hx1, abs_neg, abs_one] at hrk
  have hpl : (shortPeriod p s l (newton l.axn l.ayn l.capu (Real.sqrt l.elsq))).pl = s.a * (1 - l.elsq) :=
    shortPeriod_pl _ _ _ _
  have hsq : √l.elsq ≤ 0.2802 := by
    rw [Real.sqrt_le_iff]; constructor <;> norm_num; linarith
  have hβ1 : √(1 - l.elsq) ≤ 1 := by
    rw [Real.sqrt_le_iff]; constructor <;> norm_num; linarith
  rw [ha] at hr0 hr1 hpl
  exact ex_num _ _ _ _ _ _ _ hA0 hA1 hel0 hel1 (Real.sqrt_nonneg _) hsq (Real.sqrt_nonneg _) hβ1 hpl hr0 hr1 hrk

/-! ### the example, end to end -/

theorem elements_xno (t : TleNum ℝ) :
    (elements t).xno = (oeRecover (t.mean_motion * (π * 2 / 1440)) t.excentricity (t.inclination * (π / 180))).1 := by
  simp only [elements, r_mul, r_div, r_pi, r_ofNat, r_deg2rad, XMNPDA_real]

theorem ex_rho : (0.9216 : ℝ) ≤ (1 - 0.28 ^ 2 : ℝ) ^ ((2 : ℝ) / 3) ∧ (1 - 0.28 ^ 2 : ℝ) ^ ((2 : ℝ) / 3) ≤ 1 := by
  have h : (1 - 0.28 ^ 2 : ℝ) = 0.9216 := by norm_num
  rw [h]
  constructor
  · have := Real.rpow_le_rpow_of_exponent_ge (x := 0.9216) (y := 1) (z := (2 : ℝ) / 3) (by norm_num) (by norm_num)
      (by norm_num)
    rwa [Real.rpow_one] at this
  · exact Real.rpow_le_one (by norm_num) (by norm_num) (by norm_num)

theorem exEl_mmOk : MmOk exEl := by
  obtain ⟨heo, hi, -, -, -, hxn, -⟩ := exEl_vals
  obtain ⟨hl, hh⟩ := ex_a1_bounds
  obtain ⟨hr1, hr2⟩ := ex_rho
  have hpi1 := Real.pi_gt_d6
  have hpi2 := Real.pi_lt_d6
  have hx0 : 0.04303 ≤ (9.86322 * (π * 2 / 1440) : ℝ) := by nlinarith
  have hx1 : (9.86322 * (π * 2 / 1440) : ℝ) ≤ 0.04304 := by nlinarith
  have hrpos : (0 : ℝ) < (1 - 0.28 ^ 2 : ℝ) ^ ((2 : ℝ) / 3) := by linarith
  have hk1 : (-1.1 : ℝ) ≤ (3 * 0 ^ 2 - 1) / (1 - 0.28 ^ 2 : ℝ) ^ ((2 : ℝ) / 3) := by
    rw [le_div_iff₀ hrpos]; nlinarith
  have hk2 : (3 * 0 ^ 2 - 1) / (1 - 0.28 ^ 2 : ℝ) ^ ((2 : ℝ) / 3) ≤ (-1 : ℝ) := by
    rw [div_le_iff₀ hrpos]; nlinarith
  obtain ⟨b1, b2⟩ := ex_arith_xno (((743669161e-10 : ℝ) / (9.86322 * (π * 2 / 1440))) ^ ((2 : ℝ) / 3)) _
    (9.86322 * (π * 2 / 1440)) (by linarith) (by linarith) hk1 hk2 (by linarith)
  have hxno : exEl.xno = (oeRecover (9.86322 * (π * 2 / 1440)) 0.28 (π / 2)).1 := by
    have e1 : exEl.xn_0 = (tleNumOfFields exFields : TleNum ℝ).mean_motion * (π * 2 / 1440) := elements_xn_0 _
    have e2 : exEl.eo = (tleNumOfFields exFields : TleNum ℝ).excentricity := rfl
    have e3 : exEl.xincl = (tleNumOfFields exFields : TleNum ℝ).inclination * (π / 180) := by
      show Num.deg2rad _ = _; rw [r_deg2rad]
    show (elements _).xno = _
    rw [elements_xno, ← e1, ← e2, ← e3, hxn, heo, hi]
  unfold MmOk
  rw [hxno]
  simp only [oeRecover, XKE, CK2, Gen.orbital_XKE, Gen.orbital_CK2, r_add, r_sub, r_mul, r_div, r_sq, r_cube,
    r_cos, r_rpow, r_ofNat, r_ofSci]
  simp only [Nat.cast_ofNat, Nat.cast_one, cos_pi_div_two]
  constructor
  · refine lt_of_lt_of_le ?_ b1; nlinarith
  · refine lt_of_le_of_lt b2 ?_; nlinarith

/-- the object `Orbital("…", line1=exLine1, line2=exLine2)` -/
noncomputable def exOrbital : Orbital ℝ :=
  ⟨C02.valuesOf exFields, exEl, coeffs exEl (basic exEl) .nearNorm⟩

/-- the query time equal to the printed epoch, as a `datetime` -/
def exEpochInstant : Instant := ⟨.us, 1221913540104192⟩

theorem ex_constructed : (orbitalOfLines exLine1 exLine2 : Except Refusal (Orbital ℝ)) = .ok exOrbital := by
  obtain ⟨heo, hi, -, hom, -, -, -⟩ := exEl_vals
  obtain ⟨hA0, hA1, hX, -⟩ := exEl_basic
  obtain ⟨hinit, -⟩ := answered_at_epoch exEl heo hi hom ⟨hA0, hA1⟩ hX exEl_mmOk
  have henc := orbitalOfLines_encode (α := ℝ) exFields exFields_wf
  rw [exFields_encode] at henc
  rw [henc, orbitalOfTle_eq, tleNumOfTle_valuesOf]
  have hpos : 0 < (elements (tleNumOfFields exFields : TleNum ℝ)).xn_0 := by
    have := exEl_vals.2.2.2.2.2.1
    show 0 < exEl.xn_0
    rw [this]; positivity
  rw [if_neg (not_not.2 hpos)]
  show (match init exEl with | .error ie => _ | .ok p => _) = _
  rw [hinit]; rfl

theorem ex_answered :
    positionAt exOrbital exEpochInstant false = .ok (kep2xyz (kepOf (coeffs exEl (basic exEl) .nearNorm) 0)) := by
  obtain ⟨heo, hi, -, hom, -, -, -⟩ := exEl_vals
  obtain ⟨hA0, hA1, hX, -⟩ := exEl_basic
  obtain ⟨-, hprop⟩ := answered_at_epoch exEl heo hi hom ⟨hA0, hA1⟩ hX exEl_mmOk
  have hts : minutesSinceEpoch exOrbital exEpochInstant = 0 := by
    rw [minutesSinceEpoch_eq]
    have : exOrbital.epochUs = 1221913540104192 := by
      show (C02.valuesOf exFields).epochUs = _
      decide +kernel
    rw [this]
    simp only [minutesFrom, exEpochInstant, Time.nsPerTick]
    norm_num
  unfold positionAt
  rw [hts, getPosition_false]
  show (propagate (coeffs exEl (basic exEl) .nearNorm) 0).map kep2xyz = _
  rw [hprop]; rfl

/-! ### the refusal classes are inhabited -/

/-- the same record with a zero eccentricity printed -/
def exFieldsCircular : Fields := { exFields with ecc := "0000000".toList }

theorem exFieldsCircular_wf : WellFormed exFieldsCircular := by decide

/-- … is accepted by checksum and parser and refused by `_check_orbital_elements`: "Eccentricity out of range" -/
theorem ex_refused_ecc :
    (orbitalOfLines (encode exFieldsCircular).1 (encode exFieldsCircular).2 : Except Refusal (Orbital ℝ)) =
      .error (.init .eccRange) := by
  rw [orbitalOfLines_encode _ exFieldsCircular_wf, orbitalOfTle_cases, tleNumOfTle_valuesOf]
  have hE := toEl_elements_fields exFieldsCircular
  have h1 : eccVal exFieldsCircular = ⟨0, -7⟩ := by decide +kernel
  have h6 : fixedVal exFieldsCircular.mmInt exFieldsCircular.mmFrac 8 = ⟨986322000, -8⟩ := by decide +kernel
  have e1 : (elements (tleNumOfFields exFieldsCircular : TleNum ℝ)).eo = 0 := by
    have : (elements (tleNumOfFields exFieldsCircular : TleNum ℝ)).eo = (printedEl exFieldsCircular).eo := by
      rw [← hE]; rfl
    rw [this]; simp only [printedEl, h1, decVal]; norm_num
  have e6 : 0 < (elements (tleNumOfFields exFieldsCircular : TleNum ℝ)).xn_0 := by
    have : (elements (tleNumOfFields exFieldsCircular : TleNum ℝ)).xn_0 = (printedEl exFieldsCircular).xno := by
      rw [← hE]; rfl
    rw [this]; simp only [printedEl, h6, decVal]; positivity
  rw [if_neg (not_not.2 e6), if_pos]
  unfold EccOk
  rw [e1]; norm_num

/-- line 1 with a wrong check digit -/
def exLine1BadCheck : List Char := "1 00001U 00001A   08264.51782528  .00000000  00000-0  10000-3 0    17".toList
/-- line 2 with a letter in the inclination column (its check digit is still right: letters count 0) -/
def exLine2BadIncl : List Char := "2 00001  9X.0000   0.0000 2800000   0.0000   0.0000  9.86322000    13".toList

theorem ex_rejected_checksum :
    (orbitalOfLines exLine1BadCheck exLine2 : Except Refusal (Orbital ℝ)) = .error (.checksum .checksumError) := by
  rw [orbitalOfLines_eq]
  have : Checksum.accept exLine1BadCheck exLine2 = .checksumError := by decide +kernel
  rw [this]

theorem ex_refused_parse :
    (orbitalOfLines exLine1 exLine2BadIncl : Except Refusal (Orbital ℝ)) = .error (.parse .valueError) := by
  rw [orbitalOfLines_eq]
  have h1 : Checksum.accept exLine1 exLine2BadIncl = .accepted := by decide +kernel
  have h2 : parse Gen.tleColumns (strip exLine1) (strip exLine2BadIncl) = .error .valueError := by decide +kernel
  rw [h1]; simp only [h2]

end PV.PipelineL
