/-
  C18 — lemmas about whole states of PV.Model.Cache: the invariant under `step`/`run`, the frame of a step,
  the step-count measure, single calls and sequential histories.  Core Lean only.
-/
import PV.Lemmas.C18Inv
namespace PV.C18
open PV.Cache

variable {E A T P R : Type}

/-! ### frame facts of one step -/

theorem step_tle (sem : Sem E A T P R) (s : State E A T P R) (i : Nat) : (step sem s i).tle = s.tle := by
  unfold step; split <;> rfl

theorem step_length (sem : Sem E A T P R) (s : State E A T P R) (i : Nat) :
    (step sem s i).threads.length = s.threads.length := by
  unfold step; split <;> simp

theorem step_other (sem : Sem E A T P R) (s : State E A T P R) (i j : Nat) (h : j ≠ i) :
    (step sem s i).threads[j]? = s.threads[j]? := by
  unfold step; split
  · rfl
  · simp [Ne.symm h]

theorem step_self (sem : Sem E A T P R) (s : State E A T P R) (i : Nat) (th : Thread A T P R)
    (h : s.threads[i]? = some th) :
    (step sem s i).threads[i]? = some { th with pc := (stepThread sem s.tle i s.sh th).2.1 } ∧
    (step sem s i).sh = (stepThread sem s.tle i s.sh th).1 ∧
    (step sem s i).trace = s.trace ++ (stepThread sem s.tle i s.sh th).2.2.toList := by
  have hi : i < s.threads.length := by
    rcases Nat.lt_or_ge i s.threads.length with h' | h'
    · exact h'
    · simp [List.getElem?_eq_none h'] at h
  simp only [step, h]
  simp [hi]

theorem step_none (sem : Sem E A T P R) (s : State E A T P R) (i : Nat) (h : s.threads[i]? = none) :
    step sem s i = s := by
  simp only [step, h]

/-- kind and arguments of every thread are never changed -/
theorem step_query (sem : Sem E A T P R) (s : State E A T P R) (i j : Nat) :
    ((step sem s i).threads[j]?).map (fun t => (t.kind, t.args)) = (s.threads[j]?).map (fun t => (t.kind, t.args)) := by
  by_cases h : j = i
  · subst h
    cases hth : s.threads[j]? with
    | none => rw [step_none sem s j hth, hth]
    | some th => rw [(step_self sem s j th hth).1]; rfl
  · rw [step_other sem s i j h]

theorem run_nil (sem : Sem E A T P R) (s : State E A T P R) : run sem s [] = s := rfl

theorem run_cons (sem : Sem E A T P R) (s : State E A T P R) (i : Nat) (l : List Nat) :
    run sem s (i :: l) = run sem (step sem s i) l := rfl

theorem run_append (sem : Sem E A T P R) (s : State E A T P R) (l1 l2 : List Nat) :
    run sem s (l1 ++ l2) = run sem (run sem s l1) l2 := by
  simp [run, List.foldl_append]

/-! ### the invariant -/

theorem inv_start (sem : Sem E A T P R) (e : E) (sh : Shared T P) (qs : List (Kind × A)) (h : SlotsOK sem e sh) :
    Inv sem (start e sh qs) := by
  refine ⟨h, ?_⟩
  intro th hth
  simp only [start, List.mem_map] at hth
  obtain ⟨q, _, rfl⟩ := hth
  obtain ⟨k, a⟩ := q
  cases k <;> simp [mkThread, initPC, PCOK]

theorem slotsOK_empty (sem : Sem E A T P R) (e : E) : SlotsOK sem e (emptyCache : Shared T P) :=
  ⟨Or.inl rfl, Or.inl rfl⟩

theorem inv_step' (sem : Sem E A T P R) (s : State E A T P R) (i : Nat) (h : Inv sem s) : Inv sem (step sem s i) := by
  cases hth : s.threads[i]? with
  | none => rw [step_none sem s i hth]; exact h
  | some th =>
    obtain ⟨hs, ht⟩ := h
    have hmem : th ∈ s.threads := List.mem_of_getElem? hth
    obtain ⟨k1, k2, k3, _⟩ := stepThread_ok sem s.tle i s.sh th hs (ht th hmem)
    obtain ⟨e1, e2, _⟩ := step_self sem s i th hth
    refine ⟨?_, ?_⟩
    · rw [step_tle, e2]; exact k1
    · intro th' hth'
      rw [step_tle, e2]
      obtain ⟨j, hj⟩ := List.getElem?_of_mem hth'
      by_cases hji : j = i
      · subst hji
        rw [e1] at hj
        cases hj
        exact k3
      · rw [step_other sem s i j hji] at hj
        exact pcok_mono sem s.tle s.sh _ _ _ k2 (ht th' (List.mem_of_getElem? hj))

theorem inv_run (sem : Sem E A T P R) (sched : List Nat) (s : State E A T P R) (h : Inv sem s) :
    Inv sem (run sem s sched) := by
  induction sched generalizing s with
  | nil => exact h
  | cons i l ih => exact ih (step sem s i) (inv_step' sem s i h)

theorem run_tle (sem : Sem E A T P R) (sched : List Nat) (s : State E A T P R) : (run sem s sched).tle = s.tle := by
  induction sched generalizing s with
  | nil => rfl
  | cons i l ih => rw [run_cons, ih, step_tle]

theorem run_length (sem : Sem E A T P R) (sched : List Nat) (s : State E A T P R) :
    (run sem s sched).threads.length = s.threads.length := by
  induction sched generalizing s with
  | nil => rfl
  | cons i l ih => rw [run_cons, ih, step_length]

theorem run_query (sem : Sem E A T P R) (sched : List Nat) (s : State E A T P R) (j : Nat) :
    ((run sem s sched).threads[j]?).map (fun t => (t.kind, t.args)) = (s.threads[j]?).map (fun t => (t.kind, t.args)) := by
  induction sched generalizing s with
  | nil => rfl
  | cons i l ih => rw [run_cons, ih, step_query]

/-- a thread that is never scheduled is not touched at all -/
theorem run_other (sem : Sem E A T P R) (sched : List Nat) (s : State E A T P R) (j : Nat) (h : j ∉ sched) :
    (run sem s sched).threads[j]? = s.threads[j]? := by
  induction sched generalizing s with
  | nil => rfl
  | cons i l ih =>
    rw [run_cons, ih _ (fun hm => h (List.mem_cons_of_mem _ hm))]
    exact step_other sem s i j (fun hji => h (hji ▸ List.mem_cons_self))

/-! ### events -/

theorem trace_step (sem : Sem E A T P R) (s : State E A T P R) (i : Nat) (h : Inv sem s)
    (ht : ∀ ev ∈ s.trace, EventOK sem s.tle ev) : ∀ ev ∈ (step sem s i).trace, EventOK sem s.tle ev := by
  cases hth : s.threads[i]? with
  | none => rw [step_none sem s i hth]; exact ht
  | some th =>
    obtain ⟨hs, hp⟩ := h
    obtain ⟨_, _, _, k4⟩ := stepThread_ok sem s.tle i s.sh th hs (hp th (List.mem_of_getElem? hth))
    rw [(step_self sem s i th hth).2.2]
    intro ev hev
    rcases List.mem_append.mp hev with h1 | h1
    · exact ht ev h1
    · exact k4 ev (by simpa using h1)

theorem trace_run (sem : Sem E A T P R) (sched : List Nat) (s : State E A T P R) (h : Inv sem s)
    (ht : ∀ ev ∈ s.trace, EventOK sem s.tle ev) : ∀ ev ∈ (run sem s sched).trace, EventOK sem s.tle ev := by
  induction sched generalizing s with
  | nil => exact ht
  | cons i l ih =>
    rw [run_cons]
    have := ih (step sem s i) (inv_step' sem s i h) (by rw [step_tle]; exact trace_step sem s i h ht)
    rwa [step_tle] at this

/-! ### step counting -/

def rem (s : State E A T P R) (i : Nat) : Nat :=
  match s.threads[i]? with
  | some th => th.pc.remaining
  | none => 0

theorem stepThread_remaining (sem : Sem E A T P R) (e : E) (i : Nat) (sh : Shared T P) (th : Thread A T P R) :
    (stepThread sem e i sh th).2.1.remaining ≤ th.pc.remaining - 1 := by
  obtain ⟨k, a, pc⟩ := th
  obtain ⟨st, sp⟩ := sh
  cases pc <;> simp only [stepThread] <;> (try split) <;> simp [PC.remaining]

theorem rem_step_self (sem : Sem E A T P R) (s : State E A T P R) (i : Nat) : rem (step sem s i) i ≤ rem s i - 1 := by
  cases hth : s.threads[i]? with
  | none => rw [step_none sem s i hth]; simp [rem, hth]
  | some th =>
    simp only [rem, (step_self sem s i th hth).1, hth]
    exact stepThread_remaining sem s.tle i s.sh th

theorem rem_step_other (sem : Sem E A T P R) (s : State E A T P R) (i j : Nat) (h : j ≠ i) : rem (step sem s i) j = rem s j := by
  simp only [rem, step_other sem s i j h]

theorem rem_run (sem : Sem E A T P R) (sched : List Nat) (s : State E A T P R) (i : Nat) :
    rem (run sem s sched) i ≤ rem s i - sched.count i := by
  induction sched generalizing s with
  | nil => simp [run_nil]
  | cons j l ih =>
    rw [run_cons]
    have h1 := ih (step sem s j)
    by_cases hji : j = i
    · subst hji
      have h2 := rem_step_self sem s j
      simp only [List.count_cons_self]
      omega
    · have h2 := rem_step_other sem s j i (Ne.symm hji)
      have : (j == i) = false := by simp [hji]
      simp only [List.count_cons, this]
      simp
      omega

theorem rem_le (s : State E A T P R) (i : Nat) : rem s i ≤ maxSteps := by
  unfold rem; split
  · rename_i th _; cases th.pc <;> simp [PC.remaining, maxSteps]
  · simp

/-- a thread of an invariant state with no steps left has returned the closed-form answer -/
theorem done_of_rem_zero (sem : Sem E A T P R) (s : State E A T P R) (i : Nat) (th : Thread A T P R) (h : Inv sem s)
    (hth : s.threads[i]? = some th) (hz : rem s i = 0) : th.pc = .done (sem.answer s.tle (th.kind, th.args)) := by
  have hp := h.2 th (List.mem_of_getElem? hth)
  simp only [rem, hth] at hz
  obtain ⟨k, a, pc⟩ := th
  cases pc <;> simp [PC.remaining] at hz
  · simp only [PCOK] at hp; simp [hp]
  · exact False.elim hp

/-! ### single calls and sequential histories -/

theorem resultOf_of_done (s : State E A T P R) (i : Nat) (th : Thread A T P R) (r : R)
    (hth : s.threads[i]? = some th) (hpc : th.pc = .done r) : resultOf s i = some r := by
  obtain ⟨k, a, pc⟩ := th
  simp only at hpc
  subst hpc
  simp [resultOf, hth]

theorem resultOf_some (s : State E A T P R) (i : Nat) (r : R) (h : resultOf s i = some r) :
    ∃ th, s.threads[i]? = some th ∧ th.pc = .done r := by
  unfold resultOf at h
  split at h
  · rename_i k a r' heq
    cases h
    exact ⟨_, heq, rfl⟩
  · cases h

theorem start_thread (e : E) (sh : Shared T P) (qs : List (Kind × A)) (i : Nat) :
    (((start e sh qs : State E A T P R).threads)[i]?).map (fun t => (t.kind, t.args)) = qs[i]? := by
  simp only [start, List.getElem?_map, Option.map_map]
  cases qs[i]? <;> simp [mkThread]

/-- thread `i` of a run started from calls `qs` is still the call `qs[i]` -/
theorem run_start_query (sem : Sem E A T P R) (e : E) (sh : Shared T P) (qs : List (Kind × A)) (sched : List Nat)
    (i : Nat) (th : Thread A T P R) (hth : (run sem (start e sh qs) sched).threads[i]? = some th) :
    qs[i]? = some (th.kind, th.args) := by
  have := run_query sem sched (start e sh qs) i
  rw [start_thread, hth] at this
  exact this.symm

/-- a thread that has been scheduled `maxSteps` times has returned the closed-form answer -/
theorem finished_of_count (sem : Sem E A T P R) (e : E) (sh : Shared T P) (qs : List (Kind × A)) (sched : List Nat)
    (i : Nat) (q : Kind × A) (hs : SlotsOK sem e sh) (hq : qs[i]? = some q) (hc : maxSteps ≤ sched.count i) :
    resultOf (run sem (start e sh qs) sched) i = some (sem.answer e q) := by
  have hinv := inv_run sem sched _ (inv_start sem e sh qs hs)
  have hlen := run_length sem sched (start e sh qs : State E A T P R)
  have hi : i < qs.length := by
    rcases Nat.lt_or_ge i qs.length with h | h
    · exact h
    · simp [List.getElem?_eq_none h] at hq
  have hi' : i < (run sem (start e sh qs) sched).threads.length := by
    rw [hlen]; simpa [start] using hi
  have hth : (run sem (start e sh qs) sched).threads[i]? = some ((run sem (start e sh qs) sched).threads[i]) :=
    List.getElem?_eq_getElem hi'
  have hz : rem (run sem (start e sh qs) sched) i = 0 := by
    have h1 := rem_run sem sched (start e sh qs) i
    have h2 := rem_le (start e sh qs : State E A T P R) i
    omega
  have hd := done_of_rem_zero sem _ i _ hinv hth hz
  have hq' := run_start_query sem e sh qs sched i _ hth
  rw [hq] at hq'
  cases hq'
  rw [run_tle] at hd
  exact resultOf_of_done _ i _ _ hth hd

theorem callOn_ok (sem : Sem E A T P R) (e : E) (sh : Shared T P) (q : Kind × A) (hs : SlotsOK sem e sh) :
    (callOn sem e sh q).2 = some (sem.answer e q) ∧ SlotsOK sem e (callOn sem e sh q).1 := by
  refine ⟨?_, ?_⟩
  · have hc : maxSteps ≤ (List.replicate maxSteps 0).count 0 := by rw [List.count_replicate_self]; exact Nat.le_refl _
    have := finished_of_count sem e sh [q] (List.replicate maxSteps 0) 0 q hs rfl hc
    simpa only [callOn] using this
  · have := (inv_run sem (List.replicate maxSteps 0) _ (inv_start sem e sh [q] hs)).1
    rw [run_tle] at this
    have h2 : (start e sh [q] : State E A T P R).tle = e := rfl
    rw [h2] at this
    simpa only [callOn] using this

theorem fresh_eq (sem : Sem E A T P R) (e : E) (q : Kind × A) : fresh sem e q = some (sem.answer e q) :=
  (callOn_ok sem e emptyCache q (slotsOK_empty sem e)).1

theorem history_ok (sem : Sem E A T P R) (e : E) (qs : List (Kind × A)) (sh : Shared T P) (hs : SlotsOK sem e sh) :
    (history sem e sh qs).2 = qs.map (fresh sem e) ∧ SlotsOK sem e (history sem e sh qs).1 := by
  induction qs generalizing sh with
  | nil => exact ⟨rfl, hs⟩
  | cons q qs ih =>
    obtain ⟨h1, h2⟩ := callOn_ok sem e sh q hs
    obtain ⟨i1, i2⟩ := ih (callOn sem e sh q).1 h2
    refine ⟨?_, ?_⟩
    · simp only [history, List.map_cons, i1, h1, fresh_eq]
    · simpa only [history] using i2

/-! ### silent steps commute with everything (justifies replaying a run by its visible events) -/

theorem stepThread_silent (sem : Sem E A T P R) (e : E) (i : Nat) (sh sh' : Shared T P) (th : Thread A T P R)
    (h : th.pc.silent = true) :
    (stepThread sem e i sh th).1 = sh ∧ (stepThread sem e i sh th).2.2 = none ∧
    (stepThread sem e i sh th).2.1 = (stepThread sem e i sh' th).2.1 := by
  obtain ⟨k, a, pc⟩ := th
  cases pc <;> simp [PC.silent] at h <;> simp [stepThread]

theorem step_eq (sem : Sem E A T P R) (s : State E A T P R) (i : Nat) (th : Thread A T P R) (h : s.threads[i]? = some th) :
    step sem s i = ⟨s.tle, (stepThread sem s.tle i s.sh th).1,
      s.threads.set i { th with pc := (stepThread sem s.tle i s.sh th).2.1 },
      s.trace ++ (stepThread sem s.tle i s.sh th).2.2.toList⟩ := by
  simp only [step, h]

theorem silent_commute' (sem : Sem E A T P R) (s : State E A T P R) (i j : Nat) (hij : i ≠ j)
    (hs : ∀ th, s.threads[i]? = some th → th.pc.silent = true) :
    step sem (step sem s i) j = step sem (step sem s j) i := by
  cases hi : s.threads[i]? with
  | none =>
    rw [step_none sem s i hi]
    have : (step sem s j).threads[i]? = none := by rw [step_other sem s j i hij, hi]
    rw [step_none sem _ i this]
  | some thi =>
    cases hj : s.threads[j]? with
    | none =>
      rw [step_none sem s j hj]
      have : (step sem s i).threads[j]? = none := by rw [step_other sem s i j (Ne.symm hij), hj]
      rw [step_none sem _ j this]
    | some thj =>
      have hsi := hs thi hi
      have hj' : (step sem s i).threads[j]? = some thj := by rw [step_other sem s i j (Ne.symm hij), hj]
      have hi' : (step sem s j).threads[i]? = some thi := by rw [step_other sem s j i hij, hi]
      rw [step_eq sem _ j thj hj', step_eq sem _ i thi hi']
      rw [step_eq sem s i thi hi, step_eq sem s j thj hj]
      obtain ⟨a1, a2, a3⟩ := stepThread_silent sem s.tle i s.sh (stepThread sem s.tle j s.sh thj).1 thi hsi
      obtain ⟨b1, b2, _⟩ := stepThread_silent sem s.tle i (stepThread sem s.tle j s.sh thj).1 s.sh thi hsi
      simp only [a1, a2, b1, b2, a3, Option.toList_none, List.append_nil]
      rw [List.set_comm _ _ hij]

/-! ### the driver's replay by visible events is a genuine run of the model -/

theorem visStep_is_run (sem : Sem E A T P R) (s : State E A T P R) (i : Nat) :
    ∃ w, visStep sem s i = run sem s w := by
  by_cases h : (step sem s i).trace.length > s.trace.length
  · exact ⟨[i], by simp only [visStep, h, if_true]; rfl⟩
  · exact ⟨[i, i], by simp only [visStep, h, if_false]; rfl⟩

theorem runVis_is_run (sem : Sem E A T P R) (order : List Nat) (s : State E A T P R) :
    ∃ sched, runVis sem s order = run sem s sched := by
  induction order generalizing s with
  | nil => exact ⟨[], rfl⟩
  | cons i l ih =>
    obtain ⟨w, hw⟩ := visStep_is_run sem s i
    obtain ⟨sched, hs⟩ := ih (visStep sem s i)
    refine ⟨w ++ sched, ?_⟩
    rw [run_append, ← hw, ← hs]
    rfl

end PV.C18
