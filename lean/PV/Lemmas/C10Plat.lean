/-
  C10 — the platforms file: `str.split()` on a row of blank-separated words, one row of
  `read_platform_numbers`, and the dict built from all rows (core Lean only).
-/
import PV.Model.Collection
namespace PV.C10
open PV.Text PV.Collection

/-! ### `str.split()` -/

theorem go_ws (c : Char) (s cur : List Char) (acc : List (List Char)) (hc : isPyWs c = true) :
    splitWs.go (c :: s) cur acc = splitWs.go s [] (if cur.isEmpty then acc else cur.reverse :: acc) := by
  simp [splitWs.go, hc]

theorem go_nonws (c : Char) (s cur : List Char) (acc : List (List Char)) (hc : isPyWs c = false) :
    splitWs.go (c :: s) cur acc = splitWs.go s (c :: cur) acc := by
  simp [splitWs.go, hc]

theorem go_word (w s cur : List Char) (acc : List (List Char)) (hw : w.all (fun c => !isPyWs c) = true) :
    splitWs.go (w ++ s) cur acc = splitWs.go s (w.reverse ++ cur) acc := by
  induction w generalizing cur with
  | nil => rfl
  | cons c cs ih =>
    simp only [List.all_cons, Bool.and_eq_true, Bool.not_eq_true'] at hw
    rw [List.cons_append, go_nonws _ _ _ _ hw.1, ih _ (by simpa using hw.2)]
    simp

theorem go_blanks (sp s : List Char) (acc : List (List Char)) (hs : sp.all isPyWs = true) :
    splitWs.go (sp ++ s) [] acc = splitWs.go s [] acc := by
  induction sp with
  | nil => rfl
  | cons c cs ih =>
    simp only [List.all_cons, Bool.and_eq_true] at hs
    rw [List.cons_append, go_ws _ _ _ _ hs.1]
    simpa using ih hs.2

theorem go_sep (sp s cur : List Char) (acc : List (List Char)) (hs : sp.all isPyWs = true) (hne : sp ≠ []) :
    splitWs.go (sp ++ s) cur acc = splitWs.go s [] (if cur.isEmpty then acc else cur.reverse :: acc) := by
  cases sp with
  | nil => exact absurd rfl hne
  | cons c cs =>
    simp only [List.all_cons, Bool.and_eq_true] at hs
    rw [List.cons_append, go_ws _ _ _ _ hs.1, go_blanks _ _ _ hs.2]

/-- a row as (word, following blanks) pairs -/
def rowOf : List (List Char × List Char) → List Char
  | [] => []
  | (w, sp) :: r => w ++ (sp ++ rowOf r)

/-- words are non-empty and blank-free, separators are blank, only the last separator may be empty -/
def goodRow : List (List Char × List Char) → Bool
  | [] => true
  | (w, sp) :: r =>
    !w.isEmpty && w.all (fun c => !isPyWs c) && sp.all isPyWs && (!sp.isEmpty || r.isEmpty) && goodRow r

theorem go_rowOf (ws : List (List Char × List Char)) (h : goodRow ws = true) (acc : List (List Char)) :
    splitWs.go (rowOf ws) [] acc = acc.reverse ++ ws.map (·.1) := by
  induction ws generalizing acc with
  | nil => simp [rowOf, splitWs.go]
  | cons p r ih =>
    obtain ⟨w, sp⟩ := p
    simp only [goodRow, Bool.and_eq_true, Bool.or_eq_true, Bool.not_eq_true'] at h
    obtain ⟨⟨⟨⟨hwne, hw⟩, hsp⟩, hlast⟩, hr⟩ := h
    have hwne' : w.reverse.isEmpty = false := by simpa using hwne
    rw [rowOf, go_word _ _ _ _ hw, List.append_nil]
    by_cases hsn : sp = []
    · have hrn : r = [] := by
        rcases hlast with h | h
        · simp [hsn] at h
        · simpa using h
      subst hsn; subst hrn
      simp [rowOf, splitWs.go, hwne']
    · rw [go_sep _ _ _ _ hsp hsn, ih hr]
      simp [hwne']

/-- `row.split()` of leading blanks followed by blank-separated words is the list of words -/
theorem splitWs_row (lead : List Char) (ws : List (List Char × List Char)) (hl : lead.all isPyWs = true)
    (h : goodRow ws = true) : splitWs (lead ++ rowOf ws) = ws.map (·.1) := by
  unfold splitWs
  rw [go_blanks _ _ _ hl, go_rowOf ws h]
  rfl

theorem go_nonempty (s cur : List Char) (acc : List (List Char)) (hacc : ∀ x ∈ acc, x ≠ []) :
    ∀ x ∈ splitWs.go s cur acc, x ≠ [] := by
  induction s generalizing cur acc with
  | nil =>
    intro x hx
    simp only [splitWs.go] at hx
    by_cases hc : cur.isEmpty = true
    · simp only [hc, if_true, List.mem_reverse] at hx; exact hacc x hx
    · simp only [hc, Bool.false_eq_true, if_false, List.mem_reverse, List.mem_cons] at hx
      rcases hx with rfl | hx
      · simpa using hc
      · exact hacc x hx
  | cons c cs ih =>
    by_cases hc : isPyWs c = true
    · rw [go_ws _ _ _ _ hc]
      apply ih
      intro x hx
      by_cases he : cur.isEmpty = true
      · simp only [he, if_true] at hx; exact hacc x hx
      · simp only [he, Bool.false_eq_true, if_false, List.mem_cons] at hx
        rcases hx with rfl | hx
        · simpa using he
        · exact hacc x hx
    · rw [go_nonws _ _ _ _ (by simpa using hc)]
      exact ih _ _ hacc

/-- `str.split()` never yields an empty word -/
theorem splitWs_nonempty (s : List Char) : ∀ x ∈ splitWs s, x ≠ [] := by
  unfold splitWs
  exact go_nonempty s [] [] (by simp)

/-! ### one row -/

/-- **one row of the platforms file**: a non-comment row with at least two words maps the space-joined
    leading words (upper-cased on request) to the last word -/
theorem platLine_of_split (inUpper : Bool) (row : List Char) (words : List (List Char)) (last : List Char)
    (hc : startsWith row ['#'] = false) (hs : splitWs row = words ++ [last]) (h2 : words ≠ []) :
    platLine inUpper row = some (if inUpper then upper (joinSp words) else joinSp words, last) := by
  have hlen : 1 ≤ words.length := by
    cases words with
    | nil => exact absurd rfl h2
    | cons _ _ => simp
  simp [platLine, hc, hs, hlen]

theorem platLine_comment (inUpper : Bool) (row : List Char) (hc : startsWith row ['#'] = true) :
    platLine inUpper row = none := by
  simp [platLine, hc]

theorem platLine_short (inUpper : Bool) (row : List Char) (h : (splitWs row).length < 2) :
    platLine inUpper row = none := by
  unfold platLine
  split
  · rfl
  · simp [h]

theorem joinSp_ne_nil (a : List Char) (r : List (List Char)) (ha : a ≠ []) : joinSp (a :: r) ≠ [] := by
  cases r with
  | nil => simpa [joinSp] using ha
  | cons b bs => simp [joinSp, ha]

/-- a stored name is never the empty string -/
theorem platLine_key_ne_nil (inUpper : Bool) (row k v : List Char) (h : platLine inUpper row = some (k, v)) : k ≠ [] := by
  unfold platLine at h
  split at h
  · cases h
  · simp only at h
    split at h
    · cases h
    · rename_i hlen
      split at h
      · cases h
      · rename_i num hlast
        have hne := splitWs_nonempty row
        match hsp : splitWs row, hlen, hne with
        | a :: b :: r, _, hne =>
          rw [hsp] at h
          have ha : a ≠ [] := hne a (by simp)
          have hj : joinSp ((a :: b :: r).dropLast) ≠ [] := by
            simp only [List.dropLast_cons_cons]
            exact joinSp_ne_nil a _ ha
          simp only [Option.some.injEq, Prod.mk.injEq] at h
          rw [← h.1]
          cases inUpper
          · simpa using hj
          · simpa [upper] using hj
        | [], hlen, _ => simp at hlen
        | [_], hlen, _ => simp at hlen

/-! ### the dict -/

theorem dictGet_dictSet (d : List (Line × Line)) (k v k' : Line) :
    dictGet (dictSet d k v) k' = if k = k' then some v else dictGet d k' := by
  induction d with
  | nil => simp [dictSet, dictGet, List.find?_cons]; split <;> simp_all
  | cons p t ih =>
    obtain ⟨a, b⟩ := p
    simp only [dictSet]
    split
    · rename_i hak
      subst hak
      by_cases hk : a = k' <;> simp [dictGet, hk]
    · rename_i hak
      by_cases hk : a = k'
      · have : ¬ k = k' := fun h => hak (h ▸ hk)
        simp [dictGet, hk, this]
      · simp only [dictGet] at ih ⊢
        simp [hk, ih]

/-- the stored pairs, row by row -/
def rowPairs (inUpper : Bool) (rows : List Line) : List (Line × Line) := rows.filterMap (platLine inUpper)

theorem foldl_rows (inUpper : Bool) (rows : List Line) (d : List (Line × Line)) :
    rows.foldl (platStep inUpper) d
      = (rowPairs inUpper rows).foldl (fun d p => dictSet d p.1 p.2) d := by
  induction rows generalizing d with
  | nil => rfl
  | cons r rs ih =>
    simp only [List.foldl_cons, rowPairs, List.filterMap_cons, platStep]
    cases h : platLine inUpper r with
    | none => simpa [rowPairs] using ih d
    | some p => obtain ⟨k, v⟩ := p; simpa [rowPairs] using ih (dictSet d k v)

theorem dictGet_foldl (ps : List (Line × Line)) (d : List (Line × Line)) (k : Line) :
    dictGet (ps.foldl (fun d p => dictSet d p.1 p.2) d) k
      = ((ps.reverse.find? (·.1 = k)).map (·.2)).or (dictGet d k) := by
  induction ps generalizing d with
  | nil => simp
  | cons p ps ih =>
    rw [List.foldl_cons, ih, dictGet_dictSet, List.reverse_cons, List.find?_append]
    cases hf : List.find? (fun x => decide (x.1 = k)) ps.reverse with
    | some q => simp
    | none =>
      by_cases hk : p.1 = k
      · simp [hk]
      · simp [hk]

/-- **the platforms file as a map**: the value of a name is the last token of the *last* row whose leading
    words give that name (later duplicates overwrite) -/
theorem dictGet_readPlatformNumbers (inUpper : Bool) (rows : List Line) (k : Line) :
    dictGet (readPlatformNumbers inUpper rows) k
      = ((rowPairs inUpper rows).reverse.find? (·.1 = k)).map (·.2) := by
  unfold readPlatformNumbers
  rw [foldl_rows, dictGet_foldl]
  simp [dictGet]

/-- the empty string is never a registered name -/
theorem registry_nil (rows : List Line) : registry rows [] = none := by
  unfold registry
  rw [dictGet_readPlatformNumbers]
  have : (rowPairs true rows).reverse.find? (·.1 = []) = none := by
    rw [List.find?_eq_none]
    intro p hp
    simp only [List.mem_reverse, rowPairs, List.mem_filterMap] at hp
    obtain ⟨row, _, hrow⟩ := hp
    have := platLine_key_ne_nil true row p.1 p.2 hrow
    simpa using this
  rw [this]; rfl

end PV.C10
