/-
  PV.Lemmas.C03ParabLoop — the loop of `_get_max_parab` (PV.Model.Parab): what an accepted estimate has passed, the
  pass read over ℝ, and the run on a convex quadratic.
-/
import PV.Model.Parab
import PV.Lemmas.C03Parab
namespace PV.C03L
open PV PV.Passes PV.Parab

section generic
variable {α : Type} [Num α]

/-- a pass that accepts `x`: `x` is the update of that pass, within `tol` of the previous estimate, and neither
    neighbour at ± 10 tol (clipped to the bracket) is lower than `f x - 1e-4` -/
theorem step_accept (I : Flags α) (f : α → α) (lo hi tol : α) (s : St α) (x : α)
    (h : step I f lo hi tol s = .done (.accept x)) :
    update I s = some x ∧ Num.le (Num.abs (s.b - x)) tol = true ∧
      Num.ge (Num.min (f (Num.max (x - (10 : α) * tol) lo)) (f (Num.min (x + (10 : α) * tol) hi))) (f x - (1e-4 : α)) = true := by
  unfold step at h
  dsimp only at h
  repeat' split at h
  all_goals first
    | (cases h; done)
    | (rename_i y hy h1 h2 h3 h4
       cases h
       exact ⟨hy, h2, h4⟩)

/-- whatever the fuel: an accepted estimate has passed the test of `step_accept` in some pass -/
theorem run_accept (I : Flags α) (f : α → α) (lo hi tol : α) :
    ∀ (n : Nat) (s : St α) (x : α), run I f lo hi tol n s = .accept x →
      ∃ s', update I s' = some x ∧ Num.le (Num.abs (s'.b - x)) tol = true ∧
        Num.ge (Num.min (f (Num.max (x - (10 : α) * tol) lo)) (f (Num.min (x + (10 : α) * tol) hi))) (f x - (1e-4 : α)) = true := by
  intro n
  induction n with
  | zero => intro s x h; rw [run_zero] at h; cases h
  | succ n ih =>
    intro s x h
    rw [run_succ] at h
    cases hs : step I f lo hi tol s with
    | done o =>
      rw [hs] at h
      simp only at h
      subst h
      exact ⟨s, step_accept I f lo hi tol s x hs⟩
    | next s' =>
      rw [hs] at h
      exact ih s' x h

end generic

/-! ### over ℝ: no operation signals `invalid` -/
section real

theorem numMin_real (a b : ℝ) : Num.min a b = min a b := by
  unfold Num.min
  simp only [r_lt, decide_eq_true_eq]
  split
  · rename_i h; exact (min_eq_right (le_of_lt h)).symm
  · rename_i h; exact (min_eq_left (not_lt.mp h)).symm

theorem numMax_real (a b : ℝ) : Num.max a b = max a b := by
  unfold Num.max
  simp only [r_lt, decide_eq_true_eq]
  split
  · rename_i h; exact (max_eq_right (le_of_lt h)).symm
  · rename_i h; exact (max_eq_left (not_lt.mp h)).symm

theorem update_never (s : St ℝ) :
    update (Flags.never ℝ) s = some (parabStep s.a s.b s.c s.fa s.fb s.fc s.b) := by
  simp [update, updateInvalid, Flags.never]

/-- one pass over ℝ: the update, the agreement test with the acceptance test of 0a8290c, the divergence test, the
    shrunk bracket -/
theorem step_never (f : ℝ → ℝ) (lo hi tol : ℝ) (s : St ℝ) :
    step (Flags.never ℝ) f lo hi tol s =
      (if |s.b - parabStep s.a s.b s.c s.fa s.fb s.fc s.b| ≤ tol then
        (if f (parabStep s.a s.b s.c s.fa s.fb s.fc s.b) - 1e-4 ≤
            min (f (max (parabStep s.a s.b s.c s.fa s.fb s.fc s.b - 10 * tol) lo))
                (f (min (parabStep s.a s.b s.c s.fa s.fb s.fc s.b + 10 * tol) hi)) then
          .done (.accept (parabStep s.a s.b s.c s.fa s.fb s.fc s.b))
        else .done (.fallback .notMinimum))
      else if s.fb < f (parabStep s.a s.b s.c s.fa s.fb s.fc s.b) then .done (.fallback .diverged)
      else .next ⟨(s.a + parabStep s.a s.b s.c s.fa s.fb s.fc s.b) / 2, parabStep s.a s.b s.c s.fa s.fb s.fc s.b,
        (parabStep s.a s.b s.c s.fa s.fb s.fc s.b + s.c) / 2,
        f ((s.a + parabStep s.a s.b s.c s.fa s.fb s.fc s.b) / 2), f (parabStep s.a s.b s.c s.fa s.fb s.fc s.b),
        f ((parabStep s.a s.b s.c s.fa s.fb s.fc s.b + s.c) / 2)⟩) := by
  unfold step
  rw [update_never]
  generalize parabStep s.a s.b s.c s.fa s.fb s.fc s.b = x
  simp only [Flags.never, Bool.false_eq_true, if_false, Bool.or_false, r_le, r_abs, r_sub, r_add, r_mul, r_div, r_ge, r_gt,
    numMin_real, numMax_real, decide_eq_true_eq, parabShrink, r_ofSci, r_ofNat]
  norm_num

/-- the update of a quadratic `p t² + q t + k` (`p ≠ 0`) from three distinct abscissae is its vertex -/
theorem parabStep_quadratic (p q k a b c : ℝ) (hp : p ≠ 0) (hab : a ≠ b) (hbc : b ≠ c) (hac : a ≠ c) :
    parabStep a b c (p * a ^ 2 + q * a + k) (p * b ^ 2 + q * b + k) (p * c ^ 2 + q * c + k) b = -q / (2 * p) := by
  rw [parabStep_real, parab_den, parab_num]
  have h1 : b - a ≠ 0 := sub_ne_zero.mpr (Ne.symm hab)
  have h2 : b - c ≠ 0 := sub_ne_zero.mpr hbc
  have h3 : c - a ≠ 0 := sub_ne_zero.mpr (Ne.symm hac)
  field_simp
  ring

/-- ... and from the vertex itself it stays there, whatever the two other abscissae are (also when they coincide
    with it: the quotient is then 0 / 0, which over ℝ is 0 — on doubles that is the FloatingPointError path) -/
theorem parabStep_at_vertex (p q k a c : ℝ) (hp : p ≠ 0) :
    parabStep a (-q / (2 * p)) c (p * a ^ 2 + q * a + k) (p * (-q / (2 * p)) ^ 2 + q * (-q / (2 * p)) + k)
      (p * c ^ 2 + q * c + k) (-q / (2 * p)) = -q / (2 * p) := by
  rw [parabStep_real, parab_num]
  have : 2 * p * (-q / (2 * p)) + q = 0 := by field_simp; ring
  rw [this]
  simp only [mul_zero, zero_div, sub_zero]

/-- **the loop on a convex quadratic.**  `fun = p t² + q t + k` with `p > 0` on a bracket `lo < hi`, any tolerance
    `tol ≥ 0`, over ℝ: `_get_max_parab` returns the vertex `−q / (2p)` (the minimum of `fun`), by the accepted path, after
    at most two passes — the first update is the vertex, the second confirms it, and the acceptance test holds because
    no point is lower than the vertex. -/
theorem maxParab_quadratic (p q k lo hi tol : ℝ) (hp : 0 < p) (hlt : lo < hi) (htol : 0 ≤ tol) (n : Nat) (hn : 2 ≤ n) :
    maxParab (Flags.never ℝ) (fun t => p * t ^ 2 + q * t + k) lo hi tol n = .accept (-q / (2 * p)) := by
  obtain ⟨m, rfl⟩ : ∃ m, n = m + 2 := ⟨n - 2, by omega⟩
  have hp0 : p ≠ 0 := ne_of_gt hp
  set f : ℝ → ℝ := fun t => p * t ^ 2 + q * t + k with hf
  set v : ℝ := -q / (2 * p) with hv
  have hmin : ∀ t, f v ≤ f t := by
    intro t
    have : f t - f v = p * (t - v) ^ 2 := by simp only [hf, hv]; field_simp; ring
    nlinarith [sq_nonneg (t - v)]
  have htest : ∀ y z : ℝ, f v - 1e-4 ≤ min (f y) (f z) := by
    intro y z
    have h1 := hmin y
    have h2 := hmin z
    rw [le_min_iff]
    constructor <;> norm_num <;> linarith
  unfold maxParab
  rw [run_succ, step_never]
  have hinit : init f lo hi = ⟨lo, (lo + hi) / 2, hi, f lo, f ((lo + hi) / 2), f hi⟩ := by
    unfold init; rw [parabInit_real]
  rw [hinit]
  have hx1 : parabStep lo ((lo + hi) / 2) hi (f lo) (f ((lo + hi) / 2)) (f hi) ((lo + hi) / 2) = v :=
    parabStep_quadratic p q k lo ((lo + hi) / 2) hi hp0 (by linarith) (by linarith) (by linarith)
  simp only [hx1]
  by_cases h1 : |(lo + hi) / 2 - v| ≤ tol
  · simp only [h1, if_true, htest]
  · simp only [h1, if_false]
    have h2 : ¬ f ((lo + hi) / 2) < f v := not_lt.mpr (hmin _)
    simp only [h2, if_false]
    rw [run_succ, step_never]
    have hx2 : parabStep ((lo + v) / 2) v ((v + hi) / 2) (f ((lo + v) / 2)) (f v) (f ((v + hi) / 2)) v = v :=
      parabStep_at_vertex p q k ((lo + v) / 2) ((v + hi) / 2) hp0
    simp only [hx2, sub_self, abs_zero, htol, if_true, htest]

end real
end PV.C03L
