/-
  C15 — The TLE database keeps every distinct epoch once and always exports the newest.

  Theorems about PV.Model.Db (`SQLiteTLE` of tlefile.py and the loop of fetch_tles.py), for ARBITRARY operation
  histories (no length bound) over update / crashed update / export / close+reopen.  Core Lean only.

  `run cfg ops` is the connection after the history `ops` on a new file; `seen cfg ops sat e` is the first
  (text, source) offered for (sat, e) by an update whose row INSERT ran (a crashed update counts only if its INSERT was
  among the statements that committed), configured satellites only.  `OpsValid ops`: every epoch is a `datetime`
  (year 1..9999, the other fields in range) — what `tle.epoch.item()` always is.
-/
import PV.Lemmas.C15Export
namespace PV.C15
open PV.Db

/-- **Exactly one row per distinct (configured satellite, epoch) seen, carrying the first-seen text and source.**
    (1) reading the table by the text of an epoch gives what the history saw first for it;
    (2) the stored rows are precisely the seen pairs; (3) no key occurs twice. -/
theorem rows_eq_first_seen (cfg : Cfg) (ops : List Op) (hv : OpsValid ops) (sat : Nat) :
    (∀ e : Epoch, e.valid → lookupRow (rowsOf (run cfg ops).db sat) (iso e) = seen cfg ops sat e) ∧
    (∀ r : Row, r ∈ rowsOf (run cfg ops).db sat ↔
      ∃ e : Epoch, e.valid ∧ r.epoch = iso e ∧ seen cfg ops sat e = some (r.tle, r.source)) ∧
    (rowsOf (run cfg ops).db sat).Pairwise (fun a b => a.epoch ≠ b.epoch) := by
  have h := inv_run cfg ops hv
  refine ⟨h.look sat, ?_, h.nodup sat⟩
  intro r
  constructor
  · intro hm
    obtain ⟨e, he, hk⟩ := h.keys sat r hm
    refine ⟨e, he, hk, ?_⟩
    rw [← h.look sat e he, ← hk]
    exact lookupRow_of_mem _ (h.nodup sat) r hm
  · rintro ⟨e, he, hk, hs⟩
    rw [← h.look sat e he] at hs
    obtain ⟨r', hm', hk', hv'⟩ := lookupRow_some_mem _ _ _ hs
    have : r = r' := by
      cases r; cases r'
      simp only [Prod.mk.injEq] at hv'
      simp only at hk hk'
      simp [hk, hk', hv'.1, hv'.2]
    rw [this]; exact hm'

/-- **Nothing is stored for unconfigured satellites**: no table, no `platform_names` row. -/
theorem no_unconfigured (cfg : Cfg) (ops : List Op) (hv : OpsValid ops) (sat : Nat) (hc : configured cfg sat = false) :
    (run cfg ops).db.tableOf sat = none ∧
    ∀ ns, (run cfg ops).db.names = some ns → ∀ p ∈ ns, p.1 ≠ sat := by
  have h := inv_run cfg ops hv
  have hm : tableMade cfg ops sat = false := by
    unfold tableMade
    rw [List.any_eq_false]
    intro op _
    cases op <;> simp [touches] <;> intro h1 <;> subst h1 <;> simp [hc]
  have ht : (run cfg ops).db.tableOf sat = none := by
    have := h.made sat
    rw [hm] at this
    cases h' : (run cfg ops).db.tableOf sat with
    | none => rfl
    | some _ => rw [h'] at this; simp at this
  refine ⟨ht, ?_⟩
  intro ns hns p hp heq
  have := h.names.sub ns hns p hp
  rw [heq, ht] at this
  simp at this

/-- **No update ever raises** (in particular `INSERT INTO platform_names` never meets an existing satid, also after a
    crash between CREATE TABLE and that insert), and a duplicate key is swallowed. -/
theorem update_never_raises (cfg : Cfg) (ops : List Op) (hv : OpsValid ops) (sat : Nat) (e : Epoch) (l1 l2 src : List Char) :
    (step cfg (run cfg ops) (.update sat e l1 l2 src)).2 = .done := by
  have h := inv_run cfg ops hv
  simp only [step]
  cases hc : cfg.nameOf sat with
  | none => rw [updateOp_unconfigured _ _ _ _ _ _ _ hc]
  | some name => rw [updateOp_configured _ _ _ _ _ _ _ name hc h.names]

/-- **The updated flag is set exactly when a row has been added since the last reopen** (or crash). -/
theorem updated_iff_added (cfg : Cfg) : ∀ (ops : List Op), OpsValid ops →
    ((run cfg ops).updated = true ↔ Added cfg ops) := by
  intro ops
  induction ops using snoc_induction with
  | h0 =>
    intro _
    constructor
    · intro h; simp [run, init, openDb] at h
    · rintro ⟨pre, sat, e, l1, l2, src, post, heq, _⟩
      simp at heq
  | h1 ops op ih =>
    intro hv
    obtain ⟨hv1, hv2⟩ := opsValid_snoc hv
    have hi := inv_run cfg ops hv1
    have hu := step_updated cfg ops op (run cfg ops) hv2 hi
    rw [run_snoc, hu]
    cases op with
    | update s e l1 l2 src =>
      simp only [Bool.or_eq_true, Bool.and_eq_true, Option.isNone_iff_eq_none]
      constructor
      · rintro (h | ⟨hc, hs⟩)
        · exact added_snoc_keep cfg ops _ rfl ((ih hv1).mp h)
        · exact added_snoc_new cfg ops s e l1 l2 src hc hs
      · intro h
        rcases added_snoc_inv cfg ops _ h with h | ⟨s', e', l1', l2', src', heq, hc, hs⟩
        · left; exact (ih hv1).mpr h
        · cases heq; right; exact ⟨hc, hs⟩
    | crashedUpdate k s e l1 l2 src =>
      simp only [Bool.false_eq_true, false_iff]
      exact added_snoc_restart cfg ops _ rfl
    | «export» wa wn =>
      simp only
      rw [ih hv1]
      constructor
      · exact added_snoc_keep cfg ops _ rfl
      · intro h
        rcases added_snoc_inv cfg ops _ h with h | ⟨s', e', l1', l2', src', heq, _, _⟩
        · exact h
        · cases heq
    | reopen =>
      simp only [Bool.false_eq_true, false_iff]
      exact added_snoc_restart cfg ops _ rfl

/-- **A crash at any statement boundary leaves the rows of a prefix**: after the process died with `k` statements of
    an update committed, the new connection is clean and every table holds either the rows before the update or the
    rows after the complete update — never a partial row; from the row INSERT on (`3 ≤ k` covers every case) the file is
    exactly that of update + reopen, and with `k = 0` that of a plain reopen.  What later operations do is covered by
    the other theorems, which quantify over histories containing crashes. -/
theorem crash_prefix_consistent (cfg : Cfg) (ops : List Op) (hv : OpsValid ops) (k sat : Nat) (e : Epoch)
    (l1 l2 src : List Char) :
    let before := run cfg ops
    let crashed := run cfg (ops ++ [.crashedUpdate k sat e l1 l2 src])
    let full := run cfg (ops ++ [.update sat e l1 l2 src])
    crashed.updated = false ∧
    ((∀ s, rowsOf crashed.db s = rowsOf before.db s) ∨ (∀ s, rowsOf crashed.db s = rowsOf full.db s)) ∧
    (3 ≤ k → crashed = run cfg (ops ++ [.update sat e l1 l2 src, .reopen])) ∧
    (k = 0 → crashed = run cfg (ops ++ [.reopen])) := by
  have h := inv_run cfg ops hv
  have happ : ops ++ [Op.update sat e l1 l2 src, Op.reopen] = (ops ++ [Op.update sat e l1 l2 src]) ++ [Op.reopen] := by simp
  simp only [run_snoc, happ, step]
  refine ⟨rfl, ?_, ?_, ?_⟩
  · cases hc : cfg.nameOf sat with
    | none =>
      left; intro s
      have := afterK_unconfigured cfg (run cfg ops).db k sat e l1 l2 src hc
      unfold afterK at this
      rw [this]; rfl
    | some name =>
      obtain ⟨_, _, h3, _⟩ := afterK_spec cfg (run cfg ops).db k sat e l1 l2 src name hc h.names
      obtain ⟨_, _, g3, _⟩ := afterK_spec cfg (run cfg ops).db 3 sat e l1 l2 src name hc h.names
      unfold afterK at h3
      rw [updateOp_configured _ _ _ _ _ _ _ name hc h.names]
      by_cases hk : need (run cfg ops).db sat ≤ k
      · right; intro s
        rw [openDb_rowsOf, h3, g3]
        have : need (run cfg ops).db sat ≤ 3 := need_le_three _ _
        simp [hk, this]
      · left; intro s
        rw [openDb_rowsOf, h3]
        simp [hk]
  · intro hk
    have hlen := plan_length_le cfg (run cfg ops).db sat e l1 l2 src
    rw [List.take_of_length_le (by omega)]
    cases hc : cfg.nameOf sat with
    | none =>
      rw [updateOp_unconfigured _ _ _ _ _ _ _ hc]
      simp [plan, hc, runStmts]
    | some name =>
      rw [updateOp_configured _ _ _ _ _ _ _ name hc h.names, runStmts_plan_eq_afterK]
  · intro hk
    subst hk
    simp [runStmts]

/-- **Byte-wise order of isoformat texts = chronological order**, with and without the fraction, for all years a
    `datetime` can hold (1..9999, hence in particular the four-digit years 1000–9999): the fact behind
    `ORDER BY epoch DESC`. -/
theorem iso_lt_iff (a b : Epoch) (ha : a.valid) (hb : b.valid) : lexLt (iso a) (iso b) = true ↔ Epoch.lt a b :=
  iso_lt_iff' a b ha hb

/-- **An export writes, in configuration order, for each configured platform that has data, [name when requested] and
    the intact text of its greatest-epoch entry** — whatever the insertion order, with whole-second epochs, and with
    other platforms lacking a table or holding an empty one (they contribute the empty block). -/
theorem export_newest (cfg : Cfg) (ops : List Op) (hv : OpsValid ops) (wa wn : Bool)
    (hw : (run cfg ops).updated = true ∨ wa = true) :
    ∃ blocks : List (List (List Char)),
      step cfg (run cfg ops) (.export wa wn) = (run cfg ops, .file blocks.flatten) ∧
      blocks.length = cfg.platforms.length ∧
      ∀ pb ∈ cfg.platforms.zip blocks, Block cfg ops wn pb.1 pb.2 := by
  have h := inv_run cfg ops hv
  refine ⟨cfg.platforms.map (blockOf (run cfg ops).db wn), ?_, by simp, ?_⟩
  · simp only [step]
    have : (!(run cfg ops).updated && !wa) = false := by
      rcases hw with h1 | h1 <;> simp [h1]
    rw [this, exportData_eq _ _ h.keys]
    simp
  · generalize cfg.platforms = ps
    induction ps with
    | nil => intro pb hpb; simp at hpb
    | cons p rest ih =>
      intro pb hpb
      simp only [List.map_cons, List.zip_cons_cons, List.mem_cons] at hpb
      rcases hpb with hpb | hpb
      · subst hpb; exact block_spec cfg ops _ hv h wn p
      · exact ih pb hpb

/-- **Nothing is written when nothing was added, unless asked to write always.** -/
theorem export_skips_clean (cfg : Cfg) (ops : List Op) (hv : OpsValid ops) (wn : Bool) (hclean : ¬ Added cfg ops) :
    step cfg (run cfg ops) (.export false wn) = (run cfg ops, .nothing) := by
  have : (run cfg ops).updated = false := by
    cases h : (run cfg ops).updated with
    | false => rfl
    | true => exact absurd ((updated_iff_added cfg ops hv).mp h) hclean
  simp [step, this]

/-- **An export never fails** (repaired code): platforms without a table and with an empty table are skipped, every
    stored key — on a whole second or not — is read back by `fromisoformat`; and it leaves the connection unchanged. -/
theorem export_total (cfg : Cfg) (ops : List Op) (hv : OpsValid ops) (wa wn : Bool) :
    (step cfg (run cfg ops) (.export wa wn)).2 ≠ .raised ∧ (step cfg (run cfg ops) (.export wa wn)).1 = run cfg ops := by
  by_cases hw : (run cfg ops).updated = true ∨ wa = true
  · obtain ⟨blocks, hb, _⟩ := export_newest cfg ops hv wa wn hw
    rw [hb]; simp
  · have h1 : (run cfg ops).updated = false := by
      cases h : (run cfg ops).updated with
      | false => rfl
      | true => exact absurd (Or.inl h) hw
    have h2 : wa = false := by
      cases h : wa with
      | false => rfl
      | true => exact absurd (Or.inr h) hw
    simp [step, h1, h2]

/-- the outputs the driver prints are those of `step` on the state after the prefix -/
theorem trace_snoc (cfg : Cfg) (ops : List Op) (op : Op) :
    trace cfg init (ops ++ [op]) = trace cfg init ops ++ [step cfg (run cfg ops) op] := by
  unfold run
  generalize init = c
  induction ops generalizing c with
  | nil => simp [trace]
  | cons o rest ih => simp [trace, ih]

/-! ### non-vacuity: a concrete history with every feature of the statement

  three configured platforms; 5 gets a fractional epoch first, then an earlier whole-second one, then a later whole-second
  one (out of order), a duplicate with another text and source; an unconfigured satellite; 7 dies after CREATE TABLE
  (empty table, no `platform_names` row) ; 9 never gets data. -/

def exCfg : Cfg := ⟨[(5, "FIVE".toList), (7, "SEVEN".toList), (9, "NINE".toList)]⟩
def t1 : Epoch := ⟨2024, 1, 2, 3, 4, 5, 7⟩        -- 2024-01-02T03:04:05.000007
def t0 : Epoch := ⟨2024, 1, 2, 3, 4, 5, 0⟩        -- 2024-01-02T03:04:05      (earlier, text is a prefix)
def t2 : Epoch := ⟨2024, 1, 2, 3, 4, 6, 0⟩        -- 2024-01-02T03:04:06      (latest, whole second)
def exOps : List Op :=
  [.update 5 t1 "a1".toList "a2".toList "x".toList, .update 5 t0 "b1".toList "b2".toList "y".toList,
   .update 5 t2 "c1".toList "c2".toList "x".toList, .update 5 t2 "d1".toList "d2".toList "z".toList,
   .update 8 t2 "u1".toList "u2".toList "x".toList, .crashedUpdate 1 7 t1 "e1".toList "e2".toList "x".toList]

example : OpsValid exOps := by decide
example : iso t0 = "2024-01-02T03:04:05".toList ∧ iso t1 = "2024-01-02T03:04:05.000007".toList := by decide
example : Epoch.lt t0 t1 ∧ Epoch.lt t1 t2 ∧ lexLt (iso t0) (iso t1) = true ∧ lexLt (iso t1) (iso t2) = true := by decide
example : seen exCfg exOps 5 t2 = some ("c1\nc2".toList, "x".toList) ∧ seen exCfg exOps 7 t1 = none := by decide
example : (run exCfg exOps).db.tableOf 7 = some [] ∧ (run exCfg exOps).db.tableOf 9 = none ∧
    (run exCfg exOps).db.tableOf 8 = none ∧ (run exCfg exOps).db.names = some [(5, "FIVE".toList)] := by decide
example : (rowsOf (run exCfg exOps).db 5).map (·.epoch) = [iso t1, iso t0, iso t2] := by decide
/-- after the crash the connection is clean: a plain export writes nothing, `write_always` writes the newest of 5 only -/
example : (step exCfg (run exCfg exOps) (.export false true)).2 = .nothing := by decide
example : (step exCfg (run exCfg exOps) (.export true true)).2 = .file ["FIVE".toList, "c1\nc2".toList] := by decide
example : Added exCfg (exOps.take 5) :=
  ⟨[], 5, t1, "a1".toList, "a2".toList, "x".toList, exOps.take 5 |>.drop 1, by decide, by decide, by decide, by decide⟩
example : (run exCfg (exOps.take 5)).updated = true := by decide
/-- the repaired reader accepts a whole-second text; -/
example : parseIso "2024-01-02T03:04:05".toList = some t0 := by decide

end PV.C15
