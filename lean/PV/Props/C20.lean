/-
  C20 — state vectors are physically self-consistent with the TLE's orbit.
  Theorems over ℝ about `PV.Sgp4.kep2xyz`, `shortPeriod`, `elements`, `basic` (PV/Model/Sgp4.lean).
  Proved here: the algebraic part (orthonormal frame, |r| = r_k, radial/transverse split, orbital-plane
  inclination = `eqinc`, |eqinc − i₀| bound, summary definitions).  The measured part of C20 (velocity = d/dt
  position to 0.15 %, energy within 1 %, 40/30 km bands, nodal period) is NOT a theorem here.
-/
import PV.Lemmas.C20
import PV.Lemmas.C13Example
namespace PV.C20
open PV PV.Sgp4 Real

/-- (1) position = radius·U, velocity = rdotk·U + rfdotk·V with U, V orthonormal — for every `k`. -/
theorem uv_orthonormal (k : Kep ℝ) :
    (kep2xyz k).1 = V3.smul k.radius (U k) ∧
    (kep2xyz k).2 = V3.add (V3.smul k.rdotk (U k)) (V3.smul k.rfdotk (V k)) ∧
    V3.dot (U k) (U k) = 1 ∧ V3.dot (V k) (V k) = 1 ∧ V3.dot (U k) (V k) = 0 :=
  ⟨kep2xyz_pos k, kep2xyz_vel k, U_dot_U k, V_dot_V k, U_dot_V k⟩

/-- (2a) |position|² = radius² -/
theorem radius_eq (k : Kep ℝ) : V3.dot (kep2xyz k).1 (kep2xyz k).1 = k.radius ^ 2 := by
  have h := U_dot_U k
  rw [kep2xyz_pos, smul_real, dot_real] at *
  linear_combination (k.radius ^ 2) * h

/-- (2a') the norm the library's `vnorm` would return is the radius itself when `radius ≥ 0`
    (guaranteed on the ok leaf by the guard `rk ≥ 1`) -/
theorem norm_eq_radius (k : Kep ℝ) (h : 0 ≤ k.radius) : V3.norm (kep2xyz k).1 = k.radius := by
  have h2 := radius_eq k
  rw [dot_real] at h2
  simp only [V3.norm, r_sqrt, r_add, r_mul]
  rw [h2, Real.sqrt_sq h]

/-- (2b) position·velocity = radius·rdotk and |velocity|² = rdotk² + rfdotk²:
    `rdotk` is the radial speed (ṙ = (r·v)/|r| = rdotk when radius > 0), `rfdotk` the transverse speed -/
theorem radial_transverse (k : Kep ℝ) :
    V3.dot (kep2xyz k).1 (kep2xyz k).2 = k.radius * k.rdotk ∧
    V3.dot (kep2xyz k).2 (kep2xyz k).2 = k.rdotk ^ 2 + k.rfdotk ^ 2 ∧
    (0 < k.radius → V3.dot (kep2xyz k).1 (kep2xyz k).2 / V3.norm (kep2xyz k).1 = k.rdotk) := by
  have h1 := U_dot_U k
  have h2 := V_dot_V k
  have h3 := U_dot_V k
  have hn := fun h => norm_eq_radius k h
  rw [dot_real] at h1 h2 h3
  rw [kep2xyz_pos] at hn
  simp only [kep2xyz_pos, kep2xyz_vel, smul_real, add_real, dot_real] at hn ⊢
  have e1 : k.radius * (U k).x * (k.rdotk * (U k).x + k.rfdotk * (V k).x) +
      k.radius * (U k).y * (k.rdotk * (U k).y + k.rfdotk * (V k).y) +
      k.radius * (U k).z * (k.rdotk * (U k).z + k.rfdotk * (V k).z) = k.radius * k.rdotk := by
    linear_combination (k.radius * k.rdotk) * h1 + (k.radius * k.rfdotk) * h3
  refine ⟨e1, ?_, ?_⟩
  · linear_combination (k.rdotk ^ 2) * h1 + (k.rfdotk ^ 2) * h2 + (2 * k.rdotk * k.rfdotk) * h3
  · intro hpos
    rw [e1, hn hpos.le]
    field_simp

/-- (3) position × velocity = radius·rfdotk·W, W = U × V = (sin S sin I, −cos S sin I, cos I), |W| = 1:
    the z-component of the unit angular momentum is cos(eqinc) — the orbital-plane inclination IS `eqinc`. -/
theorem plane_inclination (k : Kep ℝ) :
    V3.cross (kep2xyz k).1 (kep2xyz k).2 = V3.smul (k.radius * k.rfdotk) (W k) ∧
    V3.cross (U k) (V k) = W k ∧
    W k = ⟨sin k.ascn * sin k.eqinc, -cos k.ascn * sin k.eqinc, cos k.eqinc⟩ ∧
    V3.dot (W k) (W k) = 1 := by
  refine ⟨?_, U_cross_V k, rfl, W_dot_W k⟩
  have h := U_cross_V k
  rw [kep2xyz_pos, kep2xyz_vel, smul_real, smul_real, smul_real, smul_real, add_real, cross_real]
  rw [cross_real] at h
  have hx := congrArg V3.x h
  have hy := congrArg V3.y h
  have hz := congrArg V3.z h
  simp only at hx hy hz
  congr 1
  · linear_combination (k.radius * k.rfdotk) * hx
  · linear_combination (k.radius * k.rfdotk) * hy
  · linear_combination (k.radius * k.rfdotk) * hz

/-- (3') the inclination recovered from r × v the usual way, arccos(h_z/|h|), is exactly `eqinc`
    (prograde transverse motion `radius·rfdotk > 0`, `eqinc` in [0, π]) -/
theorem plane_inclination_angle (k : Kep ℝ) (hh : 0 < k.radius * k.rfdotk)
    (hi : 0 ≤ k.eqinc) (hi' : k.eqinc ≤ π) :
    arccos ((V3.cross (kep2xyz k).1 (kep2xyz k).2).z / V3.norm (V3.cross (kep2xyz k).1 (kep2xyz k).2))
      = k.eqinc := by
  have hW := W_dot_W k
  rw [dot_real] at hW
  rw [(plane_inclination k).1, smul_real]
  simp only [V3.norm, r_sqrt, r_add, r_mul]
  have : k.radius * k.rfdotk * (W k).x * (k.radius * k.rfdotk * (W k).x) +
      k.radius * k.rfdotk * (W k).y * (k.radius * k.rfdotk * (W k).y) +
      k.radius * k.rfdotk * (W k).z * (k.radius * k.rfdotk * (W k).z) = (k.radius * k.rfdotk) ^ 2 := by
    linear_combination ((k.radius * k.rfdotk) ^ 2) * hW
  rw [this, Real.sqrt_sq hh.le, mul_div_cancel_left₀ _ hh.ne']
  exact arccos_cos hi hi'

/-- (4) on every answered call the osculating inclination differs from the TLE inclination by at most
    0.75·CK2/p_l² (short-period term `1.5·CK2/p_l²·cos i₀ sin i₀·cos2u`, with |cos i₀ sin i₀| ≤ ½ and
    |cos2u| ≤ 1 — the latter proved from the invariant of the Kepler loop, convergence not needed);
    for p_l ≥ 1 earth radius that is ≤ 0.00041 rad (0.0235°). -/
theorem xinc_close (e : Elements ℝ) (p : Params ℝ) (ts : ℝ) (k : Kep ℝ)
    (hi : init e = .ok p) (hk : propagate p ts = .ok k) :
    0 < k.pl ∧ |k.eqinc - e.xincl| ≤ 0.75 * 5.41308e-4 / k.pl ^ 2 ∧
    (1 ≤ k.pl → |k.eqinc - e.xincl| ≤ 0.00041) := by
  obtain ⟨-, -, -, -, rfl⟩ := (C13.init_ok_iff e p).1 hi
  obtain ⟨-, ha, -, hel, -, rfl⟩ := (C13.propagate_ok_iff _ ts k).1 hk
  set p := coeffs e (basic e) (C13.modeSpec e)
  set s := secular p ts
  set l := longPeriod p s
  have hc := cos2u_abs_le_one s l (newton l.axn l.ayn l.capu (Real.sqrt l.elsq))
    (C13.newton_inv _ _ _ _) (C13.longPeriod_elsq p _) hel (by linarith)
  have hx := xinc_close_of_cos2u p s l _ hc
  have hpl : 0 < (C13.kepOf p ts).pl := by
    unfold C13.kepOf; rw [C13.shortPeriod_pl]
    exact mul_pos (by linarith) (by linarith)
  have hcs : |p.cosIO * p.sinIO| ≤ 1 / 2 := sin_mul_cos_abs_le e.xincl
  have hmain : |(C13.kepOf p ts).eqinc - e.xincl| ≤ 0.75 * 5.41308e-4 / (C13.kepOf p ts).pl ^ 2 := by
    refine hx.trans ?_
    calc 1.5 * 5.41308e-4 / (C13.kepOf p ts).pl ^ 2 * |p.cosIO * p.sinIO|
        ≤ 1.5 * 5.41308e-4 / (C13.kepOf p ts).pl ^ 2 * (1 / 2) :=
          mul_le_mul_of_nonneg_left hcs (by positivity)
      _ = _ := by ring
  refine ⟨hpl, hmain, fun h1 => hmain.trans ?_⟩
  rw [div_le_iff₀ (by positivity)]
  nlinarith

/-- (4') on every answered call the geocentric distance (in earth radii) satisfies
    `r ∈ [a(1−e_L), a(1+e_L)]` and `|r_k − r| ≤ 1.5·CK2/p_l²·β_L·|3cos²i₀ − 1|·r + 0.5·CK2/p_l·sin²i₀`, hence
    `|r_k − r| ≤ 3·CK2/p_l²·r + 0.5·CK2/p_l`.
    (DESIGN.md writes the first constant as 1.5·CK2/p_l²; that needs |3cos²i₀ − 1| ≤ 1, which fails for
    i₀ < 35.3° or > 144.7°, where the factor is up to 2 — the sharp factor is kept explicit here.) -/
theorem rk_bounds (e : Elements ℝ) (p : Params ℝ) (ts : ℝ) (k : Kep ℝ)
    (hi : init e = .ok p) (hk : propagate p ts = .ok k) :
    k.a * (1 - √k.elsq) ≤ k.r ∧ k.r ≤ k.a * (1 + √k.elsq) ∧ k.radius = k.rk * 6378.135 ∧
    |k.rk - k.r| ≤ 1.5 * 5.41308e-4 / k.pl ^ 2 * √(1 - k.elsq) * |3 * cos e.xincl ^ 2 - 1| * k.r
        + 0.5 * 5.41308e-4 / k.pl * sin e.xincl ^ 2 ∧
    |k.rk - k.r| ≤ 3 * 5.41308e-4 / k.pl ^ 2 * k.r + 0.5 * 5.41308e-4 / k.pl := by
  obtain ⟨-, -, -, -, rfl⟩ := (C13.init_ok_iff e p).1 hi
  obtain ⟨-, ha, -, hel, -, rfl⟩ := (C13.propagate_ok_iff _ ts k).1 hk
  set p := coeffs e (basic e) (C13.modeSpec e)
  set s := secular p ts
  set l := longPeriod p s
  have hapos : 0 < s.a := by linarith
  obtain ⟨h1, h2, h3⟩ := rk_bounds_gen p s l (newton l.axn l.ayn l.capu (Real.sqrt l.elsq))
    (C13.newton_inv _ _ _ _) (C13.longPeriod_elsq p _) hel hapos
  have hx3 : p.x3thm1 = 3 * cos e.xincl ^ 2 - 1 := by
    show (basic e).x3thm1 = _
    simp only [basic, r_sub, r_mul, r_sq, r_cos, r_ofNat]
    simp only [Nat.cast_ofNat, Nat.cast_one]
  have hx1 : p.x1mth2 = sin e.xincl ^ 2 := by
    show (basic e).x1mth2 = _
    simp only [basic, r_sub, r_sq, r_cos, r_ofNat]
    simp only [Nat.cast_one]
    linear_combination (-1 : ℝ) * sin_sq_add_cos_sq e.xincl
  have hrad : (C13.kepOf p ts).radius = (C13.kepOf p ts).rk * 6378.135 := by
    conv_lhs => unfold C13.kepOf shortPeriod
    simp only [r_mul, r_div, C13.XKMPER_real, C13.AE_real, div_one]
    rfl
  rw [hx3, hx1, abs_of_nonneg (sq_nonneg (sin e.xincl))] at h3
  refine ⟨h1, h2, hrad, h3, h3.trans ?_⟩
  have hkpl : (C13.kepOf p ts).pl = s.a * (1 - l.elsq) := C13.shortPeriod_pl _ _ _ _
  have hplpos : 0 < (C13.kepOf p ts).pl := by rw [hkpl]; exact mul_pos hapos (by linarith)
  have hrpos : 0 ≤ (C13.kepOf p ts).r := by
    have : √l.elsq ≤ 1 := by rw [Real.sqrt_le_iff]; constructor <;> norm_num; linarith
    exact le_trans (mul_nonneg hapos.le (by linarith)) h1
  change _ ≤ 3 * 5.41308e-4 / (C13.kepOf p ts).pl ^ 2 * (C13.kepOf p ts).r + 0.5 * 5.41308e-4 / (C13.kepOf p ts).pl
  have hβ0 : 0 ≤ √(1 - l.elsq) := Real.sqrt_nonneg _
  have hβ1 : √(1 - l.elsq) ≤ 1 := by
    rw [Real.sqrt_le_iff]; constructor <;> norm_num
    rw [C13.longPeriod_elsq]; positivity
  have hab : |3 * cos e.xincl ^ 2 - 1| ≤ 2 := by
    rw [abs_le]; constructor <;> nlinarith [sin_sq_add_cos_sq e.xincl, sq_nonneg (sin e.xincl), sq_nonneg (cos e.xincl)]
  have hs1 : sin e.xincl ^ 2 ≤ 1 := sin_sq_le_one _
  have hc0 : (0 : ℝ) ≤ 1.5 * 5.41308e-4 / (C13.kepOf p ts).pl ^ 2 := by positivity
  have hc1 : (0 : ℝ) ≤ 0.5 * 5.41308e-4 / (C13.kepOf p ts).pl := by positivity
  have hβx : √(1 - l.elsq) * |3 * cos e.xincl ^ 2 - 1| ≤ 1 * 2 :=
    mul_le_mul hβ1 hab (abs_nonneg _) (by norm_num)
  apply add_le_add
  · calc 1.5 * 5.41308e-4 / (C13.kepOf p ts).pl ^ 2 * √(1 - l.elsq) * |3 * cos e.xincl ^ 2 - 1| * (C13.kepOf p ts).r
        = 1.5 * 5.41308e-4 / (C13.kepOf p ts).pl ^ 2 * (√(1 - l.elsq) * |3 * cos e.xincl ^ 2 - 1|) * (C13.kepOf p ts).r := by ring
      _ ≤ 1.5 * 5.41308e-4 / (C13.kepOf p ts).pl ^ 2 * (1 * 2) * (C13.kepOf p ts).r :=
        mul_le_mul_of_nonneg_right (mul_le_mul_of_nonneg_left hβx hc0) hrpos
      _ = _ := by ring
  · calc 0.5 * 5.41308e-4 / (C13.kepOf p ts).pl * sin e.xincl ^ 2
        ≤ 0.5 * 5.41308e-4 / (C13.kepOf p ts).pl * 1 := mul_le_mul_of_nonneg_left hs1 hc1
      _ = _ := by ring

/-- (5) the orbit summaries are what their names say (definitions unfolded; AE = 1, XKMPER = 6378.135):
    `OrbitElements.period = 2π/n₀″`, `OrbitElements.perigee = (a(1−e) − 1)·6378.135 km`;
    `_SGDP4Base` perigee/apogee likewise from `aodp`, its period = 2π/xnodp. -/
theorem summary_defs (t : TleNum ℝ) (e : Elements ℝ) :
    (elements t).period = 2 * π / (elements t).xno ∧
    (elements t).perigee = ((elements t).sma * (1 - (elements t).eo) / AE - AE) * XKMPER ∧
    (elements t).perigee = ((elements t).sma * (1 - (elements t).eo) - 1) * 6378.135 ∧
    (basic e).perigee = ((basic e).aodp * (1 - e.eo) - 1) * 6378.135 ∧
    (basic e).apogee = ((basic e).aodp * (1 + e.eo) - 1) * 6378.135 ∧
    (basic e).period = 2 * π / (basic e).xnodp := by
  refine ⟨?_, ?_, ?_, C13.basic_perigee e, ?_, ?_⟩
  · simp only [elements, r_mul, r_div, r_pi, r_ofNat]; simp only [Nat.cast_ofNat]; ring
  · simp only [elements, r_mul, r_div, r_sub, r_ofNat]; simp only [Nat.cast_one]
  · simp only [elements, r_mul, r_div, r_sub, r_ofNat, C13.AE_real, C13.XKMPER_real]
    simp only [Nat.cast_one, div_one]
  · simp only [basic, r_sub, r_add, r_mul, r_ofNat, C13.AE_real, C13.XKMPER_real, Nat.cast_one]
  · simp only [basic, r_mul, r_div, r_pi, r_ofNat, C13.XMNPDA_real]
    simp only [Nat.cast_ofNat]; congr 1; ring


/-! ### non-vacuity -/

/-- the hypotheses of `xinc_close` / `rk_bounds` are met by a concrete accepted element set -/
example : ∃ (e : Elements ℝ) (p : Params ℝ) (ts : ℝ) (k : Kep ℝ),
    init e = .ok p ∧ propagate p ts = .ok k :=
  ⟨C13.exE, C13.exP, 0, C13.kepOf C13.exP 0, C13.ex_init, C13.ex_propagate⟩

/-- the hypotheses of `plane_inclination_angle` -/
example : ∃ k : Kep ℝ, 0 < k.radius * k.rfdotk ∧ 0 ≤ k.eqinc ∧ k.eqinc ≤ π :=
  ⟨{ C13.kepOf C13.exP 0 with radius := 7000, rfdotk := 7, eqinc := 1 }, by norm_num, by norm_num,
    by linarith [pi_gt_three]⟩

end PV.C20
