/-
  C10 — Reading a platform from a TLE collection returns that platform's entry or fails.
  Theorems about PV.Model.Collection against PV.Spec.CollectionSpec (core Lean only; collections of any length).

  Scope of every theorem below (hypotheses are decidable Booleans; see the `example`s at the end):
    * `wfColl es`  — each stripped line 1 is 69 characters and starts "1 ", each stripped line 2 starts "2 ",
                     a name line is not blank and does not start "1 ";
    * `wfReq q`    — the requested name (already `strip().upper()`-ed by `Tle.__init__`, `normPlatform`) does not
                     start "1 " / "2 "; a registered id is 5 characters wide and belongs to a non-empty name
                     (`registry_empty_name`: pyorbital's registry never holds the empty name);
    * `wfEol eol`  — the line ending is any run of characters `strip()` removes ("\n", "\r\n", …); with `eol = []`
                     the raw lines of the entries carry their own (possibly mixed, possibly missing) endings.
  Configurations covered by `first_eq_spec`: ALL of them — file (`dummy = false`) and stream/XML (`dummy = true`),
  registered, unregistered and empty names.  (On the tree before commit 2b7c4f1 the point
  stream + non-empty unregistered name failed; the model follows the repaired condition.)
-/
import PV.Lemmas.C10Scan
import PV.Lemmas.C10Plat
namespace PV.C10
open PV.Text PV.Collection PV.CollectionSpec

/-! ### one platform -/

/-- The scanner's first result on a well-formed collection is the spec's selection: the first entry whose name
    line equals the requested name, or whose catalogue number is the registered id, or (empty name on a stream)
    the first entry; nothing when no entry qualifies.  No exception escapes. -/
theorem first_eq_spec (cfg : Cfg) (es : List Entry) (eol : List Char)
    (heol : wfEol eol = true) (hes : wfColl es = true) (hq : wfReq (reqOf cfg) = true) :
    firstTle cfg (render es eol) = .ok ((select (reqOf cfg) es).map fun e => (strip e.l1, strip e.l2)) :=
  firstTle_render cfg es eol heol hes hq

/-- The same with blank lines before entries and at the end of the text. -/
theorem first_eq_spec_blank_lines (cfg : Cfg) (ges : List (List Line × Entry)) (eol : List Char) (trail : List Line)
    (heol : wfEol eol = true) (hes : wfColl (ges.map (·.2)) = true) (hg : wfGaps ges trail = true)
    (hq : wfReq (reqOf cfg) = true) :
    firstTle cfg (renderGaps ges eol trail)
      = .ok ((select (reqOf cfg) (ges.map (·.2))).map fun e => (strip e.l1, strip e.l2)) :=
  firstTle_renderGaps cfg ges eol trail heol hes hg hq

/-- `Tle._read_tle`: the selected entry's two stripped lines, or KeyError exactly when no entry qualifies. -/
theorem read_eq_spec (cfg : Cfg) (es : List Entry) (eol : List Char)
    (heol : wfEol eol = true) (hes : wfColl es = true) (hq : wfReq (reqOf cfg) = true) :
    readTle cfg (render es eol) =
      match select (reqOf cfg) es with
      | some e => .tle (strip e.l1) (strip e.l2)
      | none => .keyError := by
  unfold readTle
  rw [first_eq_spec cfg es eol heol hes hq]
  cases select (reqOf cfg) es <;> rfl

/-- The read fails with KeyError iff no entry of the collection qualifies. -/
theorem keyerror_iff_none_qualifies (cfg : Cfg) (es : List Entry) (eol : List Char)
    (heol : wfEol eol = true) (hes : wfColl es = true) (hq : wfReq (reqOf cfg) = true) :
    readTle cfg (render es eol) = .keyError ↔ ∀ e ∈ es, qualifies (reqOf cfg) e = false := by
  rw [read_eq_spec cfg es eol heol hes hq]
  cases h : select (reqOf cfg) es with
  | none =>
    simp only [true_iff]
    intro e he
    have := List.find?_eq_none.mp h e he
    simpa using this
  | some e =>
    simp only [reduceCtorEq, false_iff]
    intro hall
    have hq := List.find?_some h
    have hm := List.mem_of_find?_eq_some h
    rw [hall e hm] at hq
    cases hq

/-- Another satellite's elements are never returned: whatever the read returns is an entry of the collection
    that qualifies for the request (name match, registered-id match, or any entry for the empty name on a stream),
    and no entry before it qualifies. -/
theorem never_other_satellite (cfg : Cfg) (es : List Entry) (eol : List Char) (a b : Line)
    (heol : wfEol eol = true) (hes : wfColl es = true) (hq : wfReq (reqOf cfg) = true)
    (h : readTle cfg (render es eol) = .tle a b) :
    ∃ pre e post, es = pre ++ e :: post ∧ qualifies (reqOf cfg) e = true ∧ (∀ x ∈ pre, qualifies (reqOf cfg) x = false)
      ∧ a = strip e.l1 ∧ b = strip e.l2 := by
  rw [read_eq_spec cfg es eol heol hes hq] at h
  cases hs : select (reqOf cfg) es with
  | none => rw [hs] at h; cases h
  | some e =>
    rw [hs] at h
    simp only [ReadOutcome.tle.injEq] at h
    obtain ⟨hqe, pre, post, hsplit, hpre⟩ := List.find?_eq_some_iff_append.mp hs
    exact ⟨pre, e, post, hsplit, hqe, fun x hx => by simpa using hpre x hx, h.1.symm, h.2.symm⟩

/-- Both result lines come from the same entry. -/
theorem lines_same_entry (cfg : Cfg) (es : List Entry) (eol : List Char) (a b : Line)
    (heol : wfEol eol = true) (hes : wfColl es = true) (hq : wfReq (reqOf cfg) = true)
    (h : firstTle cfg (render es eol) = .ok (some (a, b))) :
    ∃ e ∈ es, a = strip e.l1 ∧ b = strip e.l2 := by
  rw [first_eq_spec cfg es eol heol hes hq] at h
  cases hs : select (reqOf cfg) es with
  | none => rw [hs] at h; simp at h
  | some e =>
    rw [hs] at h
    simp only [Option.map_some, Out.ok.injEq, Option.some.injEq, Prod.mk.injEq] at h
    exact ⟨e, List.mem_of_find?_eq_some hs, h.1.symm, h.2.symm⟩

/-- With a 5-character registered id, "line 1 starts with `1 <id>`" (the code) is "columns 2..7 are the id" (the spec). -/
theorem designator_is_catalogue (e : Entry) (id : List Char) (he : wfEntry e = true) (hid : id.length = 5) :
    startsWith (strip e.l1) ('1' :: ' ' :: id) = true ↔ catalogue e = id := by
  obtain ⟨hlen, h1, _, _⟩ := wfEntry_facts e he
  exact designator_iff_catalogue _ _ (by omega) h1 hid

/-! ### bulk reads -/

/-- The bulk scan (`platform=""`, `only_first=False`) returns every entry, in order (named, unnamed or mixed). -/
theorem bulk_all_in_order (dummy : Bool) (es : List Entry) (eol : List Char)
    (heol : wfEol eol = true) (hes : wfColl es = true) :
    allTles dummy (render es eol) = .ok (es.map fun e => (strip e.l1, strip e.l2)) := by
  have hmap : (es.map fun e => (([] : List Line), e)).map (·.2) = es := by
    rw [List.map_map]; exact List.map_id' es
  have := allTles_renderGaps dummy (es.map fun e => ([], e)) eol [] heol (by rw [hmap]; exact hes) (by simp [wfGaps])
  rw [hmap, ← render_eq_renderGaps] at this
  exact this

/-- The same with blank lines before entries and at the end of the text. -/
theorem bulk_all_in_order_blank_lines (dummy : Bool) (ges : List (List Line × Entry)) (eol : List Char)
    (trail : List Line) (heol : wfEol eol = true) (hes : wfColl (ges.map (·.2)) = true)
    (hg : wfGaps ges trail = true) :
    allTles dummy (renderGaps ges eol trail) = .ok ((ges.map (·.2)).map fun e => (strip e.l1, strip e.l2)) :=
  allTles_renderGaps dummy ges eol trail heol hes hg

/-- Second stage of `_parse_tles_for_downloader`: each merged pair, re-read as a stream with the empty name,
    gives the same two lines back. -/
theorem bulk_reread (e : Entry) (he : wfEntry e = true) :
    reread (strip e.l1, strip e.l2) = .tle (strip e.l1) (strip e.l2) :=
  reread_result e he

/-- `read_tles_from_mmam_xml_files` on the `<line-1>/<line-2>` texts of a message: every entry, in order. -/
theorem xml_bulk_all_in_order (es : List Entry) (hes : wfColl es = true) :
    xmlBulk (es.map fun e => (e.l1, e.l2)) = es.map fun e => .tle (strip e.l1) (strip e.l2) := by
  unfold xmlBulk
  rw [List.map_map]
  apply List.map_congr_left
  intro e he
  have hwe : wfEntry e = true := by
    unfold wfColl at hes
    exact List.all_eq_true.mp hes e he
  obtain ⟨_, h1, h2, _⟩ := wfEntry_facts e hwe
  exact reread_pair e.l1 e.l2 h1 (strip_ne_nil_of_startsWith h2)

/-! ### the platforms file -/

/-- One row: leading blanks, then blank-separated words (only the last separator — the line ending — may be
    missing), not starting with '#', at least two words: the space-joined leading words (upper-cased on request)
    are mapped to the last word. -/
theorem platforms_row (inUpper : Bool) (lead : List Char) (ws : List (List Char × List Char))
    (last : List Char × List Char) (hl : lead.all isPyWs = true) (hg : goodRow (ws ++ [last]) = true)
    (hne : ws ≠ []) (hc : startsWith (lead ++ rowOf (ws ++ [last])) ['#'] = false) :
    platLine inUpper (lead ++ rowOf (ws ++ [last]))
      = some (if inUpper then upper (joinSp (ws.map (·.1))) else joinSp (ws.map (·.1)), last.1) := by
  apply platLine_of_split inUpper _ (ws.map (·.1)) last.1 hc
  · rw [splitWs_row lead _ hl hg]; simp
  · simpa using hne

/-- Comment rows and rows with fewer than two words store nothing. -/
theorem platforms_row_skipped (inUpper : Bool) (row : List Char)
    (h : startsWith row ['#'] = true ∨ (splitWs row).length < 2) : platLine inUpper row = none := by
  rcases h with h | h
  · exact platLine_comment inUpper row h
  · exact platLine_short inUpper row h

/-- The file as a map: a name's value is the last token of the last row storing that name
    (later duplicates overwrite earlier ones); names no row stores are absent. -/
theorem platforms_file_map (inUpper : Bool) (rows : List Line) (k : Line) :
    dictGet (readPlatformNumbers inUpper rows) k
      = (((rows.filterMap (platLine inUpper)).reverse.find? (·.1 = k)).map (·.2)) :=
  dictGet_readPlatformNumbers inUpper rows k

/-- The empty string is never a registered name (so `SATELLITES.get("", "") = ""`, as `allTles` assumes,
    and `wfReq`'s clause on the empty name holds for every registry read from a file). -/
theorem registry_empty_name (rows : List Line) : registry rows [] = none := registry_nil rows

/-! ### non-vacuity: a three-entry collection (NOAA 19 named, ISS unnamed, METOP-B named) -/

def exNoaa : Entry :=
  ⟨some "NOAA 19  ".toList,
   "1 33591U 09005A   21355.91138073  .00000074  00000+0  65091-4 0  9998".toList,
   "2 33591  99.1688  21.1338 0013414 329.8936  30.1462 14.12516400663123".toList⟩
def exIss : Entry :=
  ⟨none,
   "1 25544U 98067A   08264.51782528 -.00002182  00000-0 -11606-4 0  2927 ".toList,
   "2 25544  51.6416 247.4627 0006703 130.5360 325.0288 15.72125391563537".toList⟩
def exMetop : Entry :=
  ⟨some "METOP-B".toList,
   "1 38771U 12049A   21137.30264622  .00000000  00000+0 -49996-5 0 00017".toList,
   "2 38771  98.7162 197.7716 0002383 106.1049 122.6344 14.21477797449453".toList⟩
def exColl : List Entry := [exNoaa, exIss, exMetop]
def exReg : Line → Option Line := fun n =>
  if n = "NOAA-19".toList then some "33591".toList
  else if n = "METOP-B".toList then some "38771".toList
  else if n = "ISS".toList then some "25544".toList else none
def exCfg (p : String) (stream : Bool) : Cfg := { platform := normPlatform p.toList, reg := exReg, dummy := stream }
def crlf : List Char := ['\r', '\n']

/-- the hypotheses are met: the collection, the line ending and five kinds of request -/
example : wfColl exColl = true ∧ wfEol crlf = true
    ∧ wfReq (reqOf (exCfg " noaa-19 " false)) = true ∧ wfReq (reqOf (exCfg "NOAA 19" false)) = true
    ∧ wfReq (reqOf (exCfg "iss" true)) = true ∧ wfReq (reqOf (exCfg "METOP" false)) = true
    ∧ wfReq (reqOf (exCfg "" true)) = true ∧ wfReq (reqOf (exCfg "" false)) = true := by decide +kernel

/-- registered alias (id match), name-line match, id match behind a name mismatch, prefix of a name (KeyError),
    empty name on a stream (first entry) and on a file (KeyError) -/
example : select (reqOf (exCfg " noaa-19 " false)) exColl = some exNoaa
    ∧ select (reqOf (exCfg "NOAA 19" false)) exColl = some exNoaa
    ∧ select (reqOf (exCfg "iss" true)) exColl = some exIss
    ∧ select (reqOf (exCfg "metop-b" true)) exColl = some exMetop
    ∧ select (reqOf (exCfg "METOP" false)) exColl = none
    ∧ select (reqOf (exCfg "" true)) exColl = some exNoaa
    ∧ select (reqOf (exCfg "" false)) exColl = none := by decide +kernel

/-- the model run on the rendered text agrees (an instance of `read_eq_spec`, evaluated) -/
example : readTle (exCfg "iss" true) (render exColl crlf)
      = .tle "1 25544U 98067A   08264.51782528 -.00002182  00000-0 -11606-4 0  2927".toList
             "2 25544  51.6416 247.4627 0006703 130.5360 325.0288 15.72125391563537".toList
    ∧ readTle (exCfg "METOP" false) (render exColl crlf) = .keyError := by decide +kernel

/-- outside well-formedness the scanner can leave through StopIteration: a name line at the end of the text -/
example : readTle (exCfg "X" true) ["X\n".toList] = .stopIteration := by decide +kernel

/-- the bulk scan on the example -/
example : allTles false (render exColl crlf) = .ok (exColl.map fun e => (strip e.l1, strip e.l2)) := by decide +kernel

/-- a platforms file: comment, multi-word name with tabs, duplicate overwritten, short row skipped -/
example : readPlatformNumbers true
    ["# comment\n".toList, "Metop-B 38771\n".toList, " My \t Sat  12345 \n".toList, "lonely\n".toList, "\n".toList,
     "metop-b 99999".toList]
    = [("METOP-B".toList, "99999".toList), ("MY SAT".toList, "12345".toList)] := by decide +kernel

/-- `platforms_row`'s hypotheses are met by the row " My \t Sat  12345 \n" -/
example : goodRow ([("My".toList, " \t ".toList), ("Sat".toList, "  ".toList)] ++ [("12345".toList, " \n".toList)]) = true
    ∧ rowOf ([("My".toList, " \t ".toList), ("Sat".toList, "  ".toList)] ++ [("12345".toList, " \n".toList)])
        = "My \t Sat  12345 \n".toList := by decide +kernel

end PV.C10
