/-
  C12 — Julian dates and Greenwich sidereal time are exact.
  Theorems about PV.Model.Time (integers / ℚ) and PV.Model.Astro (read over ℝ) against the
  Fliegel–Van Flandern Julian day number and the IAU-1982 GMST polynomial (PV.Spec.Iau82).
  Helper lemmas: PV/Lemmas/C12Cal.lean, C12Time.lean, C12Gmst.lean.
-/
import PV.NumReal
import PV.Model.Time
import PV.Model.Astro
import PV.Spec.Iau82
import PV.Lemmas.C12Cal
import PV.Lemmas.C12Time
import PV.Lemmas.C12Gmst
namespace PV.C12
open PV PV.Time PV.Astro PV.C12L

/-! ### Julian date = civil-calendar Julian date -/

/-- The datetime64 day count (Hinnant's days-from-civil, as the model writes it) plus 2440588 is
    the Fliegel–Van Flandern Julian day number, for every civil date of every year ≥ 1
    (no upper bound; `datetime.datetime` cannot hold a year < 1).  The day of the month is
    unconstrained.  See `jd_eq_civil_all_years` for years ≤ 0. -/
theorem jd_eq_civil (y : Int) (m d : Nat) (hm1 : 1 ≤ m) (hm2 : m ≤ 12) (hy : 1 ≤ y) :
    daysFromCivil y m d + 2440588 = jdnFVF y m d :=
  days_eq_jdn y m d hm1 hm2 hy

/-- Same, under the weakest year condition the model satisfies: March-based year ≥ 0
    (year ≥ 1, or year 0 from March on). -/
theorem jd_eq_civil_march_year (y : Int) (m d : Nat) (hm1 : 1 ≤ m) (hm2 : m ≤ 12)
    (hy : 0 ≤ (if m ≤ 2 then y - 1 else y)) :
    daysFromCivil y m d + 2440588 = jdnFVF y m d :=
  days_eq_jdn' y m d hm1 hm2 hy

/-- For EVERY year ∈ ℤ: Hinnant's algorithm with the C semantics of `/` (`daysFromCivilC`, what
    numpy executes) plus 2440588 is the Fliegel–Van Flandern number (floor division).
    `Time.daysFromCivil` coincides with `daysFromCivilC` exactly when the March-based year is ≥ 0
    (`model_days_eq_c_days`); below that the model's floor division in the era step departs from
    C's truncation (e.g. at -0001-01-01 the model gives -719894, numpy and FVF give -719893). -/
theorem jd_eq_civil_all_years (y : Int) (m d : Nat) (hm1 : 1 ≤ m) (hm2 : m ≤ 12) :
    daysFromCivilC y m d + 2440588 = jdnFVF y m d :=
  daysC_eq_jdn y m d hm1 hm2

theorem model_days_eq_c_days (y : Int) (m d : Nat) (hy : 0 ≤ (if m ≤ 2 then y - 1 else y)) :
    daysFromCivil y m d = daysFromCivilC y m d :=
  daysFromCivil_eq_C y m d hy

/-- The exact day count: for every civil instant (year ≥ 1) held in µs,
    (µs − J2000 µs)/86400e6 + 2451545 = JDN − ½ + day fraction, as rationals. -/
theorem jd_eq_civil_daycount (y : Int) (mo d h mi s us : Nat) (hm1 : 1 ≤ mo) (hm2 : mo ≤ 12)
    (hy : 1 ≤ y) :
    ((usOfCivil y mo d h mi s us - j2000us : Int) : ℚ) / 86400000000 + 2451545
      = (jdnFVF y mo d : ℚ) - 1 / 2
        + (((h * 3600 + mi * 60 + s) * 1000000 + us : Nat) : ℚ) / 86400000000 := by
  have h1 := days_eq_jdn y mo d hm1 hm2 hy
  rw [← h1]
  simp only [usOfCivil, j2000us]
  push_cast
  ring

/-- the day fraction is in [0, 1) for a valid time of day -/
theorem day_fraction_range (h mi s us : Nat) (hh : h < 24) (hmi : mi < 60) (hs : s < 60)
    (hus : us < 1000000) :
    (0 : ℚ) ≤ (((h * 3600 + mi * 60 + s) * 1000000 + us : Nat) : ℚ) / 86400000000 ∧
    (((h * 3600 + mi * 60 + s) * 1000000 + us : Nat) : ℚ) / 86400000000 < 1 := by
  constructor
  · positivity
  · rw [div_lt_one (by norm_num)]
    have : (h * 3600 + mi * 60 + s) * 1000000 + us < 86400000000 := by omega
    exact_mod_cast this

/-- The model's `jdays ∘ jdays2000` read over ℝ on a µs instant = JDN − ½ + day fraction. -/
theorem jdays_eq_civil (y : Int) (mo d h mi s us : Nat) (hm1 : 1 ≤ mo) (hm2 : mo ≤ 12)
    (hy : 1 ≤ y) :
    (jdays (jdays2000 Time.Unit.us (usOfCivil y mo d h mi s us)) : ℝ)
      = (jdnFVF y mo d : ℝ) - 1 / 2
        + (((h * 3600 + mi * 60 + s) * 1000000 + us : Nat) : ℝ) / 86400000000 := by
  have h1 := days_eq_jdn y mo d hm1 hm2 hy
  rw [← h1, jdays, r_add, r_ofNat, jdays2000_value]
  simp only [usOfCivil, j2000us, nsPerTick]
  push_cast
  ring

/-! ### J2000 offset and reference -/

theorem j2000_offset (d : ℝ) : jdays d = d + 2451545 := by
  rw [jdays, r_add, r_ofNat]

/-- the reference instant is 2000-01-01T12:00:00, whose Julian date is 2451545.0 -/
theorem j2000_reference :
    j2000us = usOfCivil 2000 1 1 12 0 0 0 ∧ jdnFVF 2000 1 1 = 2451545 := by
  constructor <;> decide

theorem j2000_day_zero (u : Time.Unit) :
    (jdays2000 u (j2000us * 1000 / nsPerTick u) : ℝ) = 0 ∧
    (jdays (jdays2000 u (j2000us * 1000 / nsPerTick u)) : ℝ) = 2451545 := by
  have h : (jdays2000 u (j2000us * 1000 / nsPerTick u) : ℝ) = 0 := by
    rw [jdays2000_value, (ticks_exact u).1, sub_self, Int.cast_zero, zero_div]
  exact ⟨h, by rw [j2000_offset, h]; norm_num⟩

/-! ### differences of day counts are elapsed time -/

/-- `jdays2000 t₁ − jdays2000 t₂` = elapsed ticks × (ns per tick) / (ns per day), every unit -/
theorem differences_are_elapsed (u : Time.Unit) (t1 t2 : Int) :
    (jdays2000 u t1 : ℝ) - jdays2000 u t2
      = (((t1 - t2) * nsPerTick u : Int) : ℝ) / 86400000000000 ∧
    (jdays (jdays2000 u t1) : ℝ) - jdays (jdays2000 u t2)
      = (((t1 - t2) * nsPerTick u : Int) : ℝ) / 86400000000000 := by
  have h : (jdays2000 u t1 : ℝ) - jdays2000 u t2
      = (((t1 - t2) * nsPerTick u : Int) : ℝ) / 86400000000000 := by
    rw [jdays2000_value, jdays2000_value]; push_cast; ring
  exact ⟨h, by rw [j2000_offset, j2000_offset, ← h]; ring⟩

/-- in µs: difference of two exact day counts = elapsed µs / 86400e6 (exact rationals) -/
theorem differences_are_elapsed_us (t1 t2 : Int) :
    ((jd2000Ticks Time.Unit.us t1).1 : ℚ) / (jd2000Ticks Time.Unit.us t1).2
      - ((jd2000Ticks Time.Unit.us t2).1 : ℚ) / (jd2000Ticks Time.Unit.us t2).2
      = ((t1 - t2 : Int) : ℚ) / 86400000000 := by
  rw [jd2000Ticks_value, jd2000Ticks_value]
  simp only [nsPerTick]; push_cast; ring

/-! ### every time representation gives the same day count -/

/-- the numerator/denominator pair denotes (instant − J2000)/day whatever the unit -/
theorem ticks_value (u : Time.Unit) (t : Int) :
    ((jd2000Ticks u t).1 : ℚ) / ((jd2000Ticks u t).2 : ℚ) =
      ((t * nsPerTick u - j2000us * 1000 : Int) : ℚ) / 86400000000000 :=
  jd2000Ticks_value u t

/-- the same instant held in two units (ns, µs, ms, s, m) gives the same exact day count -/
theorem same_instant_same_ticks (u v : Time.Unit) (tu tv : Int)
    (h : tu * nsPerTick u = tv * nsPerTick v) :
    ((jd2000Ticks u tu).1 : ℚ) / ((jd2000Ticks u tu).2 : ℚ)
      = ((jd2000Ticks v tv).1 : ℚ) / ((jd2000Ticks v tv).2 : ℚ) ∧
    (jdays2000 u tu : ℝ) = jdays2000 v tv := by
  constructor
  · rw [jd2000Ticks_value, jd2000Ticks_value, h]
  · rw [jdays2000_value, jdays2000_value, h]

/-! ### GMST -/

/-- GMST ∈ [0, 2π) for every day count -/
theorem gmst_range (d : ℝ) : 0 ≤ gmst d ∧ gmst d < 2 * Real.pi := by
  rw [gmst_real]
  exact pymod_range _ _ (by positivity)

/-- the code's cubic is the IAU-1982 polynomial plus −5.58e-5·T³ s (source: `6.2 * 10e-6`) -/
theorem gmst_eq_iau82_plus (d : ℝ) :
    gmstTheta d = Iau82.thetaSeconds (d / 36525) - 5.58e-5 * (d / 36525) ^ 3 :=
  gmstTheta_eq d

/-- before the reduction mod 2π the code's angle is within 4.1e-9 rad of IAU-1982 for |T| ≤ 1 -/
theorem gmst_close_iau82 (d : ℝ) (hT : |d / 36525| ≤ 1) :
    |Num.deg2rad (gmstTheta d / 240) - Iau82.gmstUnreduced (d / 36525)| < 4.1e-9 := by
  rw [Iau82.gmstUnreduced, r_deg2rad, r_deg2rad, r_div, r_ofNat, gmstTheta_eq]
  simp only [Nat.cast_ofNat]
  have hc := cube_abs_le_one _ hT
  have e : (Iau82.thetaSeconds (d / 36525) - 5.58e-5 * (d / 36525) ^ 3) / 240 * (Real.pi / 180)
      - Iau82.thetaSeconds (d / 36525) / 240 * (Real.pi / 180)
      = -(5.58e-5 / 240 / 180) * Real.pi * (d / 36525) ^ 3 := by
    ring
  rw [e, abs_mul, abs_mul, abs_neg, abs_of_pos (by norm_num : (0:ℝ) < 5.58e-5 / 240 / 180),
    abs_of_pos Real.pi_pos]
  have hpi := Real.pi_lt_d2
  have hpos := Real.pi_pos
  nlinarith [abs_nonneg ((d / 36525) ^ 3)]

/-- after the reduction: GMST ≡ IAU-1982 GMST + δ (mod 2π) with |δ| < 4.1e-9 rad, for |T| ≤ 1 -/
theorem gmst_close_iau82_mod (d : ℝ) (hT : |d / 36525| ≤ 1) :
    ∃ k : ℤ, |gmst d - Iau82.gmst (d / 36525) - 2 * Real.pi * k| < 4.1e-9 := by
  have h := gmst_close_iau82 d hT
  rw [Iau82.gmstUnreduced, r_deg2rad, r_deg2rad, r_div, r_ofNat] at h
  rw [gmst_real, iau82_gmst_real]
  refine ⟨⌊Iau82.thetaSeconds (d / 36525) / 240 * (Real.pi / 180) / (2 * Real.pi)⌋
    - ⌊gmstTheta d / 240 * (Real.pi / 180) / (2 * Real.pi)⌋, ?_⟩
  push_cast at h ⊢
  convert h using 2
  ring

/-- the linear coefficient is 1.00273790935 revolutions per day to the stated digits -/
theorem gmst_rate_const : |(Iau82.revPerDay : ℝ) - 1.00273790935| < 1e-11 := by
  simp only [Iau82.revPerDay, r_add, r_mul, r_div, r_ofNat, r_ofSci]
  rw [abs_lt]; constructor <;> norm_num

/-- GMST advances by 2π·1.00273790935 rad per day: for |T| ≤ 1 the one-day increment of the
    (unreduced) angle is within 1e-10 revolution, i.e. within 2e-9 rad, of that. -/
theorem gmst_rate (d : ℝ) (hT : |d / 36525| ≤ 1) :
    |(gmstTheta (d + 1) - gmstTheta d) / 86400 - 1.00273790935| < 1e-10 ∧
    |Num.deg2rad (gmstTheta (d + 1) / 240) - Num.deg2rad (gmstTheta d / 240)
      - 2 * Real.pi * 1.00273790935| < 2e-9 := by
  have hrev : |(gmstTheta (d + 1) - gmstTheta d) / 86400 - 1.00273790935| < 1e-10 := by
    rw [gmstTheta_real, gmstTheta_real]
    generalize hTT : d / 36525 = T at hT
    have hd : d = 36525 * T := by rw [← hTT]; ring
    have hd1 : (d + 1) / 36525 = T + 1 / 36525 := by rw [hd]; ring
    rw [hd1]
    obtain ⟨h1, h2⟩ := abs_le.mp hT
    have hsq : T ^ 2 ≤ 1 := by nlinarith
    have hsq0 : 0 ≤ T ^ 2 := sq_nonneg T
    rw [abs_lt]
    constructor <;> ring_nf <;> nlinarith
  refine ⟨hrev, ?_⟩
  rw [r_deg2rad, r_deg2rad]
  have e : gmstTheta (d + 1) / 240 * (Real.pi / 180) - gmstTheta d / 240 * (Real.pi / 180)
      - 2 * Real.pi * 1.00273790935
      = 2 * Real.pi * ((gmstTheta (d + 1) - gmstTheta d) / 86400 - 1.00273790935) := by ring
  rw [e, abs_mul, abs_of_pos (by positivity : (0:ℝ) < 2 * Real.pi)]
  have hpi := Real.pi_lt_d2
  have hpos := Real.pi_pos
  nlinarith [abs_nonneg ((gmstTheta (d + 1) - gmstTheta d) / 86400 - 1.00273790935)]

/-! ### non-vacuity -/

example : (1 : Nat) ≤ 2 ∧ (2 : Nat) ≤ 12 ∧ (1 : Int) ≤ 2024 ∧
    daysFromCivil 2024 2 29 + 2440588 = 2460370 ∧ jdnFVF 2024 2 29 = 2460370 := by decide
example : daysFromCivilC (-4713) 11 24 + 2440588 = 0 := by decide
example : |(8766 : ℝ) / 36525| ≤ 1 := by rw [abs_le]; constructor <;> norm_num
example : (1 : Int) * nsPerTick Time.Unit.m = 60000 * nsPerTick Time.Unit.ms := by decide

end PV.C12
