/-
  C16 — TLE source precedence: given lines, then file, then TLES, then network only; the platforms registry.
  Theorems about PV.Model.Sources (core Lean only).  The glob result is an arbitrary list of (file, ctime).
-/
import PV.Model.Sources
import PV.Lemmas.C16
namespace PV.C16
open PV.Sources

/-! ### the statement, written independently of the model -/

/-- a `tle_file` the code treats as given (every value except `None` and falsy ones like `""`) -/
def fileGiven : TleFile → Bool
  | .path _ | .stringIO | .adminXml _ => true
  | .none | .falsy => false

/-- TLES is set to a (non-empty) pattern -/
def tlesGiven : TlesEnv → Bool
  | .glob _ => true
  | .unset | .emptyString => false

/-- some local source is configured: both lines, a file/stream, or TLES -/
def localConfigured (c : Config) : Prop :=
  (c.line1 = true ∧ c.line2 = true) ∨ fileGiven c.tleFile = true ∨ tlesGiven c.tles = true

/-- the first file of maximal ctime, stated without a loop: the first one no other file is newer than -/
def specNewest (files : List (String × Nat)) : Option (String × Nat) :=
  files.find? (fun f => files.all (fun g => decide (g.2 ≤ f.2)))

/-- the statement's order of precedence -/
def specSource (c : Config) : Source :=
  if c.line1 = true ∧ c.line2 = true then .lines
  else match c.tleFile with
    | .stringIO => .stream
    | .adminXml p => .xml p
    | .path p => .path p
    | _ => match c.tles with
      | .glob files => (match specNewest files with
          | some f => .newestByCtime f.1
          | none => .error)
      | _ => .network

/-! ### newest by change time, arbitrary lists -/

/-- `max(files, key=getctime)` returns a file of maximal ctime, and of several the first in glob order:
    everything before it is strictly older, nothing after it is newer.  Holds for every list. -/
theorem newest_is_max (files : List (String × Nat)) (f : String × Nat)
    (h : pyMaxBy (fun f => f.2) files = some f) :
    ∃ pre post, files = pre ++ f :: post ∧ (∀ g ∈ pre, g.2 < f.2) ∧ (∀ g ∈ post, g.2 ≤ f.2) :=
  pyMaxBy_firstMax (fun f : String × Nat => f.2) files f h

/-- … in particular it is one of the matches and no match has a larger ctime -/
theorem newest_mem_and_ge (files : List (String × Nat)) (f : String × Nat)
    (h : pyMaxBy (fun f => f.2) files = some f) : f ∈ files ∧ ∀ g ∈ files, g.2 ≤ f.2 := by
  obtain ⟨pre, post, hl, hpre, hpost⟩ := newest_is_max files f h
  subst hl
  refine ⟨by simp, ?_⟩
  intro g hg
  rcases List.mem_append.mp hg with hg | hg
  · exact Nat.le_of_lt (hpre g hg)
  · rcases List.mem_cons.mp hg with rfl | hg
    · exact Nat.le_refl _
    · exact hpost g hg

/-- a maximum exists exactly when the glob matched something (`max([])` is the ValueError) -/
theorem newest_none_iff (files : List (String × Nat)) : pyMaxBy (fun f => f.2) files = none ↔ files = [] :=
  pyMaxBy_none_iff _ files

/-- the loop agrees with the loop-free formulation on every list -/
theorem newest_eq_specNewest (files : List (String × Nat)) : pyMaxBy (fun f => f.2) files = specNewest files := by
  cases h : pyMaxBy (fun f => f.2) files with
  | none =>
    have := (newest_none_iff files).mp h
    subst this; simp [specNewest]
  | some f =>
    obtain ⟨pre, post, hl, hpre, hpost⟩ := newest_is_max files f h
    have hall := (newest_mem_and_ge files f h).2
    unfold specNewest
    symm
    rw [List.find?_eq_some_iff_append]
    refine ⟨?_, pre, post, hl, ?_⟩
    · simp only [List.all_eq_true, decide_eq_true_eq]; exact hall
    · intro g hg
      simp only [Bool.not_eq_true', List.all_eq_false, decide_eq_true_eq]
      refine ⟨f, by rw [hl]; simp, ?_⟩
      have := hpre g hg
      omega

/-! ### the precedence -/

/-- The model of `_read_tle` / `_get_uris_and_open_func` follows exactly the statement's order: both lines ⇒ the lines;
    else a given file / stream / admin-message XML ⇒ that; else TLES set ⇒ the newest match (error when there is none);
    else the network. -/
theorem choose_eq_spec (c : Config) : choose c = specSource c := by
  unfold choose specSource urisAndOpen
  cases h1 : c.line1 <;> cases h2 : c.line2 <;> cases c.tleFile <;> cases c.tles <;>
    simp [newest_eq_specNewest]
  all_goals (rename_i files; cases specNewest files <;> rfl)

/-- both lines given: the lines, whatever else is configured -/
theorem lines_first (c : Config) (h1 : c.line1 = true) (h2 : c.line2 = true) : choose c = .lines := by
  simp [choose, h1, h2]

/-- not both lines: a given file / stream / XML is used, whatever TLES says -/
theorem file_second (c : Config) (h : ¬ (c.line1 = true ∧ c.line2 = true)) :
    (∀ p, c.tleFile = .path p → choose c = .path p) ∧
    (c.tleFile = .stringIO → choose c = .stream) ∧
    (∀ p, c.tleFile = .adminXml p → choose c = .xml p) := by
  have hb : (c.line1 && c.line2) = false := by
    cases h1 : c.line1 <;> cases h2 : c.line2 <;> simp_all
  refine ⟨?_, ?_, ?_⟩ <;> intros <;> simp_all [choose, urisAndOpen]

/-- not both lines, no file: TLES set ⇒ the newest match by ctime (first of the newest), and never anything else -/
theorem tles_third (c : Config) (h : ¬ (c.line1 = true ∧ c.line2 = true)) (hf : fileGiven c.tleFile = false)
    (files : List (String × Nat)) (ht : c.tles = .glob files) (hne : files ≠ []) :
    ∃ f pre post, choose c = .newestByCtime f.1 ∧ files = pre ++ f :: post ∧
      (∀ g ∈ pre, g.2 < f.2) ∧ (∀ g ∈ post, g.2 ≤ f.2) := by
  have hb : (c.line1 && c.line2) = false := by
    cases h1 : c.line1 <;> cases h2 : c.line2 <;> simp_all
  cases hm : pyMaxBy (fun f => f.2) files with
  | none => exact absurd ((newest_none_iff files).mp hm) hne
  | some f =>
    obtain ⟨pre, post, hl, hpre, hpost⟩ := newest_is_max files f hm
    refine ⟨f, pre, post, ?_, hl, hpre, hpost⟩
    cases htf : c.tleFile <;> simp_all [choose, urisAndOpen, fileGiven]

/-- TLES set but matching nothing: an error (ValueError of `max([])`), not a download -/
theorem empty_glob_is_error (c : Config) (h : ¬ (c.line1 = true ∧ c.line2 = true)) (hf : fileGiven c.tleFile = false)
    (ht : c.tles = .matchesNothing) : choose c = .error := by
  have hb : (c.line1 && c.line2) = false := by
    cases h1 : c.line1 <;> cases h2 : c.line2 <;> simp_all
  cases htf : c.tleFile <;> simp_all [choose, urisAndOpen, fileGiven, pyMaxBy]

/-- The network is used exactly when no local source is configured: whenever both lines, a tle_file or TLES is
    configured the source is never `network` — even when the glob matches nothing — and without any of them it is. -/
theorem local_never_network (c : Config) : choose c = .network ↔ ¬ localConfigured c := by
  unfold localConfigured choose urisAndOpen
  cases h1 : c.line1 <;> cases h2 : c.line2 <;> cases htf : c.tleFile <;> cases ht : c.tles <;>
    simp [fileGiven, tlesGiven] <;> (split <;> simp)

/-- the same, as the one-directional reading of the statement -/
theorem local_configured_no_network (c : Config) (h : localConfigured c) : choose c ≠ .network :=
  fun hn => (local_never_network c).mp hn h

/-- the chosen source does not depend on the registry variables -/
theorem choose_ignores_registry_env (c : Config) (p : CfgPathEnv) (b : Bool) :
    choose { c with cfgPath := p, ppp := b } = choose c := rfl

/-! ### the platforms registry -/

/-- custom registry exactly when PYORBITAL_CONFIG_PATH is a directory holding platforms.txt; packaged otherwise -/
theorem registry_spec (c : Config) :
    (registryFrom c = .custom ↔ c.cfgPath = .dirWithFile) ∧ (registryFrom c = .packaged ↔ c.cfgPath ≠ .dirWithFile) := by
  unfold registryFrom configPath
  cases c.ppp <;> cases c.cfgPath <;> simp

/-- PPP_CONFIG_DIR never changes the registry; alone (PYORBITAL_CONFIG_PATH unset) it leaves the packaged one -/
theorem ppp_alone_ignored (c : Config) :
    (∀ b, registryFrom { c with ppp := b } = registryFrom c) ∧
    (c.cfgPath = .unset → registryFrom c = .packaged) := by
  refine ⟨?_, ?_⟩
  · intro b
    unfold registryFrom configPath
    cases b <;> cases c.ppp <;> cases c.cfgPath <;> simp
  · intro h
    unfold registryFrom configPath
    cases c.ppp <;> simp [h]

/-- the registry does not depend on the lines, the file or TLES -/
theorem registry_ignores_sources (c : Config) (a b : Bool) (tf : TleFile) (t : TlesEnv) :
    registryFrom { c with line1 := a, line2 := b, tleFile := tf, tles := t } = registryFrom c := rfl

/-! ### non-vacuity -/

def threeFiles : List (String × Nat) := [("a.tle", 30), ("b.tle", 50), ("c.tle", 50), ("d.tle", 10)]

example : pyMaxBy (fun f => f.2) threeFiles = some ("b.tle", 50) := by decide
example : choose ⟨true, false, .none, .glob threeFiles, .unset, true⟩ = .newestByCtime "b.tle" := by decide
example : choose ⟨false, true, .path "x.tle", .glob threeFiles, .unset, false⟩ = .path "x.tle" := by decide
example : choose ⟨true, true, .path "x.tle", .glob threeFiles, .unset, false⟩ = .lines := by decide
example : choose ⟨false, false, .none, .matchesNothing, .unset, false⟩ = .error := by decide
example : choose ⟨true, false, .falsy, .emptyString, .unset, false⟩ = .network := by decide
example : localConfigured ⟨false, false, .none, .matchesNothing, .dirWithout, true⟩ := by simp [localConfigured, tlesGiven]
example : registryFrom ⟨false, false, .none, .unset, .dirWithFile, true⟩ = .custom := by decide
example : registryFrom ⟨false, false, .none, .unset, .unset, true⟩ = .packaged := by decide

end PV.C16
