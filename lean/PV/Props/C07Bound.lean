/-
  C07Bound — stretch theorems for two "measured only" clauses of C07 (DESIGN.md section 5, C07
  "Partial"), over ℝ, about the model's own `PV.Geoloc.viewVector` / `subpoint` (geoloc.py
  `ScanGeometry.vectors`, `subpoint`, `geodetic_lat`) and `PV.Look.lonLatAltKm`
  (`geoloc.get_lonlatalt`).

  (B) "zero scan angles and attitude give the nadir direction (within 0.2 deg of geocentric nadir)".
      What the code computes (and `PV.C07.zero_angles_nadir` proves) is the unit vector
      `nd/|nd|`, `nd = subpoint(−pos)`: the GEOCENTRIC direction of the sub-satellite point of `−pos` (by
      symmetry minus the sub-satellite point of `pos`), not minus the ellipsoid normal.  Its angle to the
      geocentric nadir `−pos/|pos|` is the difference of the geocentric latitudes of the sub-satellite
      point and of the satellite; it is 0 for `h = 0`, increases with the height `h ≥ 0` and stays below
      the maximal deflection of the vertical, `arctan(e²/(2√(1−e²))) = 0.1924°`.  Proved here: `≤ 0.2°`
      for every position on or outside the default ellipsoid (any height), including the error
      `≤ 1.2e-7 rad` of the latitude `geodetic_lat` returns (`np.allclose` exit,
      `PV.C04C.geodLoop_exit_close`).
  (C) "converting the pixel positions to lon/lat/alt gives altitudes within 10 m of zero for pixels on the
      ellipsoid".  Proved: for every point of the ellipsoid `compute_pixels` intersects with
      (PA = 6378.137, PB = 6356.752314245 km) whatever `geoloc.get_lonlatalt` returns has
      `0.0019 km ≤ alt ≤ 0.0021 km` — the altitude is not 0 but the systematic 2 m of the unit mismatch
      (positions are divided by XKMPER = 6378.135 km, the ellipsoid has A = 6378.137 km,
      `PV.C04.unit_mismatch`) — hence `|alt| ≤ 0.010 km`.  The loop residual (`|lat − φ*| ≤ 7.1e-13 rad`,
      `PV.C04C.latLoop_exit_close`) contributes `< 1e-12` earth radii; PB versus the `b = A(1−F)` implied
      by F contributes `6e-14` relative (PV/Lemmas/C07BoundAlt.lean `pixel_excess`).

  Not covered: the float execution (rounding), as everywhere in the ℝ reading.
-/
import PV.Props.C07
import PV.Props.C04Conv
import PV.Lemmas.C07BoundView
import PV.Lemmas.C07BoundAlt
namespace PV.C07Bound
open PV PV.C14L PV.C07L PV.C04C PV.C07B PV.Geoloc PV.Spec.Topo Real

/-! ### (B) nadir direction -/

/-- the geocentric direction of the point `subpoint q` returns is within 0.2° of the geocentric direction
    of `q`, for every `q` on or outside the default ellipsoid: `cos 0.2° · |s| |q| ≤ s · q` -/
theorem subpoint_direction_within_0p2deg (q s : V3 ℝ) (fuel : ℕ)
    (hq : 1 ≤ q.x ^ 2 / (A : ℝ) ^ 2 + q.y ^ 2 / (A : ℝ) ^ 2 + q.z ^ 2 / (B : ℝ) ^ 2)
    (hs : subpoint q A B fuel = some s) :
    cos (0.2 * π / 180) * (V3.norm s * V3.norm q) ≤ V3.dot s q := by
  have h := subpoint_direction q s fuel hq hs
  have hn : ∀ v : V3 ℝ, V3.norm v = √(nsq v) := fun v => by
    simp only [V3.norm, nsq, r_sqrt, r_add, ← pow_two]
  rw [hn, hn, dot_real]; exact h

/-- C07, nadir clause: with zero scan angles and zero attitude `ScanGeometry.vectors` returns a unit vector `w`
    whose angle to the geocentric nadir `−pos/|pos|` is at most 0.2°:
    `cos 0.2° · |pos| ≤ w · (−pos)` and `arccos (w · (−pos) / |pos|) ≤ 0.2·π/180`;
    every `pos` on or outside the default ellipsoid (`nd = subpoint(−pos)`, velocity not parallel to it) -/
theorem zero_angles_within_0p2deg_of_geocentric_nadir (pos vel nd : V3 ℝ)
    (hpos : 1 ≤ pos.x ^ 2 / (A : ℝ) ^ 2 + pos.y ^ 2 / (A : ℝ) ^ 2 + pos.z ^ 2 / (B : ℝ) ^ 2)
    (hsub : subpoint (V3.neg pos) A B = some nd)
    (hc : 0 < V3.dot (V3.cross nd vel) (V3.cross nd vel)) :
    ∃ w : V3 ℝ, viewVector pos vel 0 0 0 0 0 = some w ∧ V3.dot w w = 1 ∧
      cos (0.2 * π / 180) * V3.norm pos ≤ V3.dot w (V3.neg pos) ∧
      arccos (V3.dot w (V3.neg pos) / V3.norm pos) ≤ 0.2 * π / 180 := by
  have hw := PV.C07.zero_angles_nadir pos vel nd hsub hc
  have hunit := PV.C07.vectors_unit pos vel nd _ 0 0 0 0 0 hsub hc hw
  have hnd : 0 < nsq nd := by
    have := PV.C07.nadir_nonzero pos nd hsub
    rwa [dot_real, dotR_self] at this
  have hq : 1 ≤ (V3.neg pos).x ^ 2 / (A : ℝ) ^ 2 + (V3.neg pos).y ^ 2 / (A : ℝ) ^ 2
      + (V3.neg pos).z ^ 2 / (B : ℝ) ^ 2 := by
    simp only [V3.neg, r_neg, neg_sq]; exact hpos
  have hdir := subpoint_direction (V3.neg pos) nd 200 hq hsub
  have hnq : nsq (V3.neg pos) = nsq pos := by
    unfold nsq; simp only [V3.neg, r_neg, neg_sq]
  have hnorm : V3.norm pos = √(nsq pos) := by
    simp only [V3.norm, nsq, r_sqrt, r_add, ← pow_two]
  have hpos0 : 0 < nsq pos := by
    have hA : (0.99 * (A : ℝ)) ^ 2 ≤ pos.x ^ 2 + pos.y ^ 2 + pos.z ^ 2 := by
      rw [A_val, B_val] at *
      exact outside_ellipsoid (by norm_num) (by norm_num) (by norm_num) (by norm_num) hpos
    rw [A_val] at hA
    unfold nsq; nlinarith
  have hsn : 0 < √(nsq nd) := Real.sqrt_pos.2 hnd
  have hsp : 0 < √(nsq pos) := Real.sqrt_pos.2 hpos0
  have hdot : V3.dot (Rodrigues.unit nd) (V3.neg pos) = dotR nd (V3.neg pos) / √(nsq nd) := by
    rw [unit_real, dot_real]; unfold unitR dotR; simp only; field_simp
  have hmain : cos (0.2 * π / 180) * V3.norm pos ≤ V3.dot (Rodrigues.unit nd) (V3.neg pos) := by
    rw [hdot, hnorm, le_div_iff₀ hsn]
    rw [hnq] at hdir
    linarith
  refine ⟨Rodrigues.unit nd, hw, hunit, hmain, ?_⟩
  have hπ := Real.pi_gt_d2
  have hπ' := Real.pi_lt_d2
  have hang : arccos (cos (0.2 * π / 180)) = 0.2 * π / 180 :=
    Real.arccos_cos (by positivity) (by linarith)
  rw [← hang]
  apply Real.arccos_le_arccos
  rw [le_div_iff₀ (by rw [hnorm]; exact hsp)]
  exact hmain

/-! ### (C) altitude of pixels on the ellipsoid -/

/-- C07, altitude clause, sharp form: for a point `p` (km) of the ellipsoid `compute_pixels` uses, whatever
    `geoloc.get_lonlatalt` returns has altitude between 1.9 m and 2.1 m — the unit mismatch
    `PA − XKMPER = 2 m`, not 0 -/
theorem pixel_altitude_is_unit_mismatch (d : ℝ) (p : V3 ℝ) (fuel : ℕ) (lon lat alt : ℝ) (n : ℕ)
    (hp : Wgs84.OnEllipsoid PA PB p)
    (h : Look.lonLatAltKm d p fuel = some (lon, lat, alt, n)) : 0.0019 ≤ alt ∧ alt ≤ 0.0021 := by
  rw [PV.C04.module_eq_method, PV.C04.lonLatAlt_unfold, Option.map_eq_some_iff] at h
  obtain ⟨⟨l, c, m⟩, hloop, hres⟩ := h
  simp only [Prod.mk.injEq] at hres
  obtain ⟨-, -, rfl, -⟩ := hres
  simp only [Gen.orbital_XKMPER, r_div, r_ofSci] at hloop ⊢
  rw [onEllipsoid_real, PA_val, PB_val] at hp
  have hexc := pixel_excess (p.x ^ 2 + p.y ^ 2) (p.z ^ 2) (by positivity) (by positivity)
    (by rw [add_div]; exact hp)
  have hr2 : √((p.x / 6378.135) ^ 2 + (p.y / 6378.135) ^ 2) ^ 2 = (p.x ^ 2 + p.y ^ 2) / 6378.135 ^ 2 := by
    rw [Real.sq_sqrt (by positivity)]; ring
  have hz2 : (p.z / 6378.135) ^ 2 = p.z ^ 2 / 6378.135 ^ 2 := by ring
  obtain ⟨hlo, hhi⟩ := altOf_on_pixel_ellipsoid (Real.sqrt_nonneg _)
    (by rw [hr2, hz2]; exact hexc.1) (by rw [hr2, hz2]; exact hexc.2) hloop
  unfold wgs84A
  constructor <;> nlinarith

/-- C07, altitude clause as stated: altitudes within 10 m (0.010 km) of zero for pixels on the ellipsoid -/
theorem pixel_altitude_within_10m (d : ℝ) (p : V3 ℝ) (fuel : ℕ) (lon lat alt : ℝ) (n : ℕ)
    (hp : Wgs84.OnEllipsoid PA PB p)
    (h : Look.lonLatAltKm d p fuel = some (lon, lat, alt, n)) : |alt| ≤ 0.010 := by
  obtain ⟨h1, h2⟩ := pixel_altitude_is_unit_mismatch d p fuel lon lat alt n hp h
  rw [abs_le]; constructor <;> linarith

/-- every hit pixel of `compute_pixels`: `geoloc.get_lonlatalt` returns for it (never `none` with the model's
    default fuel) and the altitude is within 10 m of zero -/
theorem hit_pixel_altitude_within_10m (d : ℝ) (pos v : V3 ℝ) (hd : 0 ≤ (intersect pos v).disc)
    (hl : (intersect pos v).lsq ≠ 0) :
    ∃ lon lat alt n, Look.lonLatAltKm d (intersect pos v).pixel = some (lon, lat, alt, n) ∧ |alt| ≤ 0.010 := by
  have hon := PV.C07.pixel_on_ellipsoid pos v hd hl
  have hon' := (onEllipsoid_real _ _ _).1 hon
  rw [PA_val, PB_val] at hon'
  have hdist : (0.99 * 6378.135) ^ 2 ≤ (intersect pos v).pixel.x ^ 2 + (intersect pos v).pixel.y ^ 2
      + (intersect pos v).pixel.z ^ 2 := by
    have := outside_ellipsoid (a := 6378.137) (b := 6356.752314245) (by norm_num) (by norm_num)
      (by norm_num) (by norm_num) (le_of_eq hon'.symm)
    nlinarith
  have hdef := PV.C04Conv.lonLatAltKm_defined d _ hdist
  obtain ⟨⟨lon, lat, alt, n⟩, hres⟩ := Option.ne_none_iff_exists'.1 hdef
  exact ⟨lon, lat, alt, n, hres, pixel_altitude_within_10m d _ 200 lon lat alt n hon hres⟩

/-! ### non-vacuity -/

/-- (B): satellite on the x axis at 7000 km flying along y meets all hypotheses -/
example : ∃ nd : V3 ℝ,
    (1 : ℝ) ≤ (⟨7000, 0, 0⟩ : V3 ℝ).x ^ 2 / (A : ℝ) ^ 2 + (⟨7000, 0, 0⟩ : V3 ℝ).y ^ 2 / (A : ℝ) ^ 2
      + (⟨7000, 0, 0⟩ : V3 ℝ).z ^ 2 / (B : ℝ) ^ 2 ∧
    subpoint (V3.neg (⟨7000, 0, 0⟩ : V3 ℝ)) A B = some nd ∧
    0 < V3.dot (V3.cross nd ⟨0, 7, 0⟩) (V3.cross nd ⟨0, 7, 0⟩) :=
  ⟨⟨-A, 0, 0⟩, by rw [A_val, B_val]; norm_num, ex_subpoint, ex_cross⟩

/-- (B): a position off the axes and off the equator (|pos| ≈ 7141 km) meets the position hypothesis, and
    `subpoint(−pos)` is defined for it -/
example : (1 : ℝ) ≤ (⟨4000, 3000, 5100⟩ : V3 ℝ).x ^ 2 / (A : ℝ) ^ 2 + (⟨4000, 3000, 5100⟩ : V3 ℝ).y ^ 2 / (A : ℝ) ^ 2
      + (⟨4000, 3000, 5100⟩ : V3 ℝ).z ^ 2 / (B : ℝ) ^ 2 ∧
    subpoint (V3.neg (⟨4000, 3000, 5100⟩ : V3 ℝ)) A B ≠ none := by
  refine ⟨by rw [A_val, B_val]; norm_num, PV.C04Conv.subpoint_defined _ _ _ ?_⟩
  rw [A_val]; simp only [V3.neg, r_neg]; norm_num

/-- (C): the point of the pixel ellipsoid on the x axis, and the hit pixel of a satellite at 7000 km on the
    x axis looking at the centre -/
example : Wgs84.OnEllipsoid (PA : ℝ) PB ⟨6378.137, 0, 0⟩ := by
  rw [onEllipsoid_real, PA_val, PB_val]; norm_num

example (d : ℝ) : ∃ lon lat alt n,
    Look.lonLatAltKm d (intersect (⟨7000, 0, 0⟩ : V3 ℝ) ⟨-1, 0, 0⟩).pixel = some (lon, lat, alt, n) ∧ |alt| ≤ 0.010 := by
  apply hit_pixel_altitude_within_10m
  · rw [disc_real, ldotc_real, lsq_real, csq_real]
    simp only [Lr, Qr, PA, PB, Gen.geoloc__compute_pixels_L3, Gen.geoloc__compute_pixels_L4, r_ofSci]
    norm_num
  · rw [lsq_real]
    simp only [Qr, PA, PB, Gen.geoloc__compute_pixels_L3, Gen.geoloc__compute_pixels_L4, r_ofSci]
    norm_num

end PV.C07Bound
