/-
  C04 — Sub-satellite lon/lat/alt are the WGS-84 geodetic coordinates of the position.

  Theorems over ℝ about `PV.Look.wrapLon`, `latStep`, `latLoop`, `lonLatAlt`, `lonLatAltKm`,
  `localHours` (PV/Model/Look.lean) and `PV.Astro.observerPosition` (PV/Model/Astro.lean) against
  the published WGS-84 formulas `PV.Spec.Topo` (DESIGN.md Appendix D).

  The round-trip theorems in this file are conditional on an exact fixed point of the loop body; that the
  `while True` loop terminates, that its exit value is within 7.1e-13 rad of the fixed point, and the round trip of
  the value actually returned (polar axis included) are in PV/Props/C04Conv.lean.  Not proved: the float round trip.
  The altitude is the form `r cos lat + z sin lat − √(1 − e² sin² lat)` the code uses since the polar-axis repair.
-/
import PV.Lemmas.C04
namespace PV.C04
open PV PV.Look PV.Spec.Topo PV.C05 Real

/-! ### (1) longitude range -/

/-- `% 2π` followed by the two `np.where` lands in `(−π, π]`, for every input -/
theorem lon_range (x : ℝ) : -π < wrapLon x ∧ wrapLon x ≤ π := ⟨wrapLon_gt x, wrapLon_le x⟩

/-- … hence the reported longitude is in `(−180°, 180°]` -/
theorem lon_range_deg (x : ℝ) : -180 < Num.rad2deg (wrapLon x) ∧ Num.rad2deg (wrapLon x) ≤ 180 := by
  rw [r_rad2deg]
  have h1 := mul_lt_mul_of_pos_right (wrapLon_gt x) deg_pos
  have h2 := mul_le_mul_of_nonneg_right (wrapLon_le x) deg_pos.le
  rw [neg_mul, pi_deg] at h1; rw [pi_deg] at h2
  exact ⟨h1, h2⟩

/-- the wrap only removes whole turns: the direction is unchanged -/
theorem lon_wrap_same_direction (x : ℝ) : cos (wrapLon x) = cos x ∧ sin (wrapLon x) = sin x :=
  ⟨cos_wrapLon x, sin_wrapLon x⟩

/-! ### (2) latitude range -/

/-- `atan2(z, r)` with `r ≥ 0` lies in `[−π/2, π/2]` -/
theorem lat_range {r : ℝ} (hr : 0 ≤ r) (z : ℝ) :
    -(π / 2) ≤ Complex.arg ⟨r, z⟩ ∧ Complex.arg ⟨r, z⟩ ≤ π / 2 := arg_range_of_re_nonneg hr z

/-- the initial latitude and every output of the loop body are in `[−π/2, π/2]`
    (`r` is a square root, hence `≥ 0`) -/
theorem lat_range_init_and_step (x y z lat2 : ℝ) :
    (-(π / 2) ≤ Num.atan2 z (Num.sqrt (Num.sq x + Num.sq y)) ∧
      Num.atan2 z (Num.sqrt (Num.sq x + Num.sq y)) ≤ π / 2) ∧
    (-(π / 2) ≤ (latStep z (Num.sqrt (Num.sq x + Num.sq y)) lat2).1 ∧
      (latStep z (Num.sqrt (Num.sq x + Num.sq y)) lat2).1 ≤ π / 2) := by
  rw [latStep_fst, r_atan2, r_sqrt]
  exact ⟨lat_range (Real.sqrt_nonneg _) _, lat_range (Real.sqrt_nonneg _) _⟩

/-- whenever `get_lonlatalt` returns, longitude ∈ (−180°, 180°] and latitude ∈ [−90°, 90°]
    (the returned latitude is a body output, `latLoop_some` in PV/Lemmas/C04.lean) -/
theorem subpoint_ranges (d : ℝ) (pn : V3 ℝ) (fuel : ℕ) (lon lat alt : ℝ) (n : ℕ)
    (h : lonLatAlt d pn fuel = some (lon, lat, alt, n)) :
    (-180 < lon ∧ lon ≤ 180) ∧ (-90 ≤ lat ∧ lat ≤ 90) := by
  unfold lonLatAlt at h
  simp only at h
  split at h
  · exact absurd h (by simp)
  · rename_i l c m hloop
    simp only [Option.some.injEq, Prod.mk.injEq] at h
    obtain ⟨hlon, hlat, -, -⟩ := h
    obtain ⟨lat2, hstep, -⟩ := latLoop_some _ _ _ _ _ _ _ hloop
    constructor
    · rw [← hlon]; exact lon_range_deg _
    · have hl : l = (latStep pn.z (Num.sqrt (Num.sq pn.x + Num.sq pn.y)) lat2).1 := by rw [hstep]
      have hb := (lat_range_init_and_step pn.x pn.y pn.z lat2).2
      rw [← hl] at hb
      rw [← hlat, r_rad2deg, ← half_pi_deg, ← neg_mul]
      exact ⟨mul_le_mul_of_nonneg_right hb.1 deg_pos.le, mul_le_mul_of_nonneg_right hb.2 deg_pos.le⟩

/-! ### (3), (4) observer position and velocity -/

/-- `astronomy.observer_position` is the WGS-84 geodetic→cartesian map at geodetic latitude
    φ = lat·π/180, height `alt`, rotated to the local sidereal angle θ = (gmst + lon·π/180) mod 2π -/
theorem observer_position_eq_wgs84 (d lonDeg latDeg alt : ℝ) :
    (Astro.observerPosition d lonDeg latDeg alt).1 =
      geodeticToCartesian wgs84A wgs84F (radOf latDeg) (mod2pi (Astro.gmst d + radOf lonDeg)) alt := by
  rw [← observer_core]
  simp only [Astro.observerPosition, Gen.astronomy_F, Gen.astronomy_A, wgs84A, wgs84F,
    r_add, r_sub, r_mul, r_div, r_sqrt, r_sin, r_cos, r_sq, r_deg2rad, r_ofSci, r_ofNat, r_pi]
  simp only [Nat.cast_ofNat, Nat.cast_one, pymod_two_pi]

/-- the reduction of θ to `[0, 2π)` is immaterial: same point with the unreduced angle -/
theorem observer_position_unreduced (a f φ x h : ℝ) :
    geodeticToCartesian a f φ (mod2pi x) h = geodeticToCartesian a f φ x h := by
  simp only [geodeticToCartesian, cos_mod2pi, sin_mod2pi]

/-- the square root in `observer_position` is of a positive number for every latitude -/
theorem observer_position_defined (φ : ℝ) : 0 < 1 - ecc2 wgs84F * sin φ ^ 2 := denominator_pos φ

/-- the constants: `(1−F)² = 1 − e²`, `e² = F(2−F)` -/
theorem one_sub_F_sq (f : ℝ) : (1 - f) ^ 2 = 1 - ecc2 f := by unfold ecc2; ring

/-- observer velocity = ω × position, ω = (0, 0, 7.292115e-5 rad/s) -/
theorem observer_velocity_eq (d lonDeg latDeg alt : ℝ) :
    (Astro.observerPosition d lonDeg latDeg alt).2 =
      cross ⟨0, 0, earthRate⟩ (Astro.observerPosition d lonDeg latDeg alt).1 := by
  simp only [Astro.observerPosition, Gen.astronomy_MFACTOR, cross, earthRate,
    r_neg, r_mul, r_ofSci, r_ofNat]
  simp only [Nat.cast_zero]
  congr 1 <;> ring

/-- sanity of the spec these theorems are stated against: for WGS-84 the surface point (h = 0) lies on
    the ellipsoid with semi-axes `A`, `A(1−F)`, the gradient of the ellipsoid's quadratic form there is a
    positive multiple of `up` (the vertical of C05 is the ellipsoid normal), and height is measured along `up` -/
theorem spec_is_wgs84_ellipsoid (φ θ h : ℝ) :
    ((geodeticToCartesian wgs84A wgs84F φ θ 0).x ^ 2 / wgs84A ^ 2
        + (geodeticToCartesian wgs84A wgs84F φ θ 0).y ^ 2 / wgs84A ^ 2
        + (geodeticToCartesian wgs84A wgs84F φ θ 0).z ^ 2 / (wgs84A * (1 - wgs84F)) ^ 2 = 1 ∧
      (geodeticToCartesian wgs84A wgs84F φ θ 0).x / wgs84A ^ 2
        = primeVertical wgs84A wgs84F φ / wgs84A ^ 2 * (up φ θ).x ∧
      (geodeticToCartesian wgs84A wgs84F φ θ 0).y / wgs84A ^ 2
        = primeVertical wgs84A wgs84F φ / wgs84A ^ 2 * (up φ θ).y ∧
      (geodeticToCartesian wgs84A wgs84F φ θ 0).z / (wgs84A * (1 - wgs84F)) ^ 2
        = primeVertical wgs84A wgs84F φ / wgs84A ^ 2 * (up φ θ).z ∧
      0 < primeVertical wgs84A wgs84F φ / wgs84A ^ 2) ∧
    geodeticToCartesian wgs84A wgs84F φ θ h =
      ⟨(geodeticToCartesian wgs84A wgs84F φ θ 0).x + h * (up φ θ).x,
       (geodeticToCartesian wgs84A wgs84F φ θ 0).y + h * (up φ θ).y,
       (geodeticToCartesian wgs84A wgs84F φ θ 0).z + h * (up φ θ).z⟩ :=
  ⟨geodetic_on_ellipsoid wgs84A wgs84F φ θ (by unfold wgs84A; norm_num) (by unfold wgs84F; norm_num)
    (denominator_pos φ), geodetic_height_along_up _ _ _ _ _⟩

/-! ### (5), (6) the two implementations; local time -/

/-- `geoloc.get_lonlatalt(pos_km)` is `Orbital.get_lonlatalt` run on `pos_km / XKMPER`: same
    initialisation, loop body and exit (holds in every reading, floats included) -/
theorem module_eq_method {α : Type} [Num α] (d : α) (p : V3 α) (fuel : ℕ) :
    lonLatAltKm d p fuel =
      lonLatAlt d ⟨p.x / Gen.orbital_XKMPER, p.y / Gen.orbital_XKMPER, p.z / Gen.orbital_XKMPER⟩ fuel := rfl

/-- `utc2local` adds `lon/15` hours -/
theorem utc2local_eq (lonDeg : ℝ) : localHours lonDeg = lonDeg / 15 := by
  simp only [localHours, r_mul, r_div, r_ofNat]
  simp only [Nat.cast_ofNat]; ring

/-! ### (7) round trip at a fixed point of the latitude body -/

/-- the altitude `get_lonlatalt` forms after the loop (earth radii, before `alt *= A`) -/
theorem altitude_formula (z r lat : ℝ) :
    altOf z r lat = r * cos lat + z * sin lat - √(1 - ecc2 wgs84F * sin lat ^ 2) := altOf_real z r lat

/-- If `lat` is a fixed point of the loop body then, with `c = 1/√(1−e² sin² lat)` and the altitude
    `alt' = r cos lat + z sin lat − √(1−e² sin² lat)` the code computes, the meridian-plane WGS-84 formulas
    give back `(r, z)` exactly — for every `(r, z)`, the polar axis `r = 0` included; off the axis `|lat| < π/2`. -/
theorem fixpoint_roundtrip (z r lat : ℝ) (hfix : (latStep z r lat).1 = lat) :
    (0 < r → -(π / 2) < lat ∧ lat < π / 2) ∧
    (latStep z r lat).2 = 1 / √(1 - ecc2 wgs84F * sin lat ^ 2) ∧
    ((latStep z r lat).2 + altOf z r lat) * cos lat = r ∧
    ((latStep z r lat).2 * (1 - ecc2 wgs84F) + altOf z r lat) * sin lat = z := by
  have hs := latStep_snd z r lat
  rw [latStep_fst, hs] at hfix
  obtain ⟨h3, h4⟩ := fixpoint_core _ z r lat (denominator_pos lat) hfix
  refine ⟨fun hr => ?_, hs, ?_, ?_⟩
  · have hb := arg_range_of_re_pos hr (z + 1 / √(1 - ecc2 wgs84F * sin lat ^ 2) * ecc2 wgs84F * sin lat)
    rw [hfix] at hb
    exact hb
  · rw [hs, altOf_real]; exact h3
  · rw [hs, altOf_real]; exact h4

/-- the code normalises positions by XKMPER = 6378.135 km but rescales the altitude by A = 6378.137 km:
    relative mismatch `A/XKMPER − 1 ≈ 3.136e-7` -/
theorem unit_mismatch :
    (3.1e-7 : ℝ) < (A : ℝ) / Gen.orbital_XKMPER - 1 ∧ (A : ℝ) / Gen.orbital_XKMPER - 1 < 3.2e-7 := by
  simp only [A, Gen.orbital_A, Gen.orbital_XKMPER, r_ofSci]
  constructor <;> norm_num

/-- Full 3-D round trip at a fixed point.  `pn` = position in earth radii (km / XKMPER), anywhere (polar axis
    included); `lon`, `lat`, `alt` are exactly the radian/kilometre values `get_lonlatalt` forms
    (`lonLatAlt_unfold` below).  Converting (lon, lat, alt) back with the WGS-84 formulas and the rotation
    by GMST gives `A · pn`, whereas the true position in km is `XKMPER · pn`: the result is the position
    scaled by `A/XKMPER` (`unit_mismatch`), i.e. a relative error of 3.14e-7 < 2e-6. -/
theorem subpoint_roundtrip_of_fixpoint (d : ℝ) (pn : V3 ℝ) (lat : ℝ)
    (hfix : (latStep pn.z (√(pn.x ^ 2 + pn.y ^ 2)) lat).1 = lat) :
    geodeticToCartesian wgs84A wgs84F lat
        (Astro.gmst d + wrapLon (Complex.arg ⟨pn.x * 6378.135, pn.y * 6378.135⟩ - Astro.gmst d))
        (altOf pn.z (√(pn.x ^ 2 + pn.y ^ 2)) lat * wgs84A)
      = smul wgs84A pn := by
  obtain ⟨-, hc, h3, h4⟩ := fixpoint_roundtrip pn.z _ lat hfix
  obtain ⟨hx, hy⟩ := xy_polar (Astro.gmst d) pn.x pn.y
  set r := √(pn.x ^ 2 + pn.y ^ 2)
  set c := (latStep pn.z r lat).2
  set g := Astro.gmst d
  set θ := g + wrapLon (Complex.arg ⟨pn.x * 6378.135, pn.y * 6378.135⟩ - g)
  set alt := altOf pn.z r lat
  have hN : primeVertical wgs84A wgs84F lat = wgs84A * c := by
    rw [hc]; unfold primeVertical; ring
  simp only [geodeticToCartesian, smul, hN]
  congr 1
  · have : (wgs84A * c + alt * wgs84A) * cos lat * cos θ = wgs84A * (((c + alt) * cos lat) * cos θ) := by ring
    rw [this, h3, ← hx]
  · have : (wgs84A * c + alt * wgs84A) * cos lat * sin θ = wgs84A * (((c + alt) * cos lat) * sin θ) := by ring
    rw [this, h3, ← hy]
  · have : (wgs84A * c * (1 - ecc2 wgs84F) + alt * wgs84A) * sin lat
        = wgs84A * ((c * (1 - ecc2 wgs84F) + alt) * sin lat) := by ring
    rw [this, h4]

/-- the expressions used in `subpoint_roundtrip_of_fixpoint` are the ones the model computes:
    over ℝ, `lonLatAlt` is the loop result mapped through exactly these formulas -/
theorem lonLatAlt_unfold (d : ℝ) (pn : V3 ℝ) (fuel : ℕ) :
    lonLatAlt d pn fuel =
      (latLoop pn.z (√(pn.x ^ 2 + pn.y ^ 2)) fuel (Complex.arg ⟨√(pn.x ^ 2 + pn.y ^ 2), pn.z⟩)).map
        (fun res =>
          (wrapLon (Complex.arg ⟨pn.x * 6378.135, pn.y * 6378.135⟩ - Astro.gmst d) * (180 / π),
           res.1 * (180 / π),
           altOf pn.z (√(pn.x ^ 2 + pn.y ^ 2)) res.1 * wgs84A,
           res.2.2)) := by
  unfold lonLatAlt
  simp only [Gen.orbital_XKMPER, A, Gen.orbital_A, wgs84A, r_rad2deg, r_atan2, r_sqrt, r_sq, r_sub,
    r_mul, r_ofSci]
  cases latLoop pn.z (√(pn.x ^ 2 + pn.y ^ 2)) fuel (Complex.arg ⟨√(pn.x ^ 2 + pn.y ^ 2), pn.z⟩) with
  | none => rfl
  | some res => obtain ⟨l, c, n⟩ := res; rfl

/-! ### non-vacuity -/

/-- the wrap does something: `wrapLon (3π/2) = −π/2` (second quadrant west) -/
example : wrapLon (3 * π / 2) = -(π / 2) := by
  have hp := pi_pos
  rw [wrapLon_eq', mod2pi_of_mem (by linarith) (by linarith), if_pos (by linarith)]; ring

/-- the fixed-point hypothesis is satisfiable with `r > 0`: on the equator `lat = 0` is a fixed point -/
example : (latStep 0 1 (0 : ℝ)).1 = 0 ∧ (0 : ℝ) < 1 := by
  refine ⟨?_, one_pos⟩
  rw [latStep_fst, sin_zero, mul_zero, add_zero]
  exact (Complex.arg_ofReal_of_nonneg (x := 1) zero_le_one)

/-- … and on the polar axis `lat = π/2` is a fixed point for `z > 0` (`r = 0`) -/
example : (latStep 1.1 0 (π / 2 : ℝ)).1 = π / 2 := by
  rw [latStep_fst, latStep_snd, sin_pi_div_two]
  apply Complex.arg_eq_pi_div_two_iff.2
  refine ⟨rfl, ?_⟩
  have h1 := ecc2_lt_one
  have h2 : 0 < 1 - ecc2 wgs84F * 1 ^ 2 := by nlinarith
  have h3 : 0 < 1 / √(1 - ecc2 wgs84F * 1 ^ 2) := by positivity
  show 0 < (1.1 : ℝ) + 1 / √(1 - ecc2 wgs84F * 1 ^ 2) * ecc2 wgs84F * 1
  nlinarith [mul_pos h3 h1.2]

/-- `subpoint_roundtrip_of_fixpoint` hypothesis is satisfiable: `pn = (1, 0, 0)`, `lat = 0` -/
example :
    (latStep (⟨1, 0, 0⟩ : V3 ℝ).z (√((⟨1, 0, 0⟩ : V3 ℝ).x ^ 2 + (⟨1, 0, 0⟩ : V3 ℝ).y ^ 2)) 0).1 = 0 := by
  rw [latStep_fst, sin_zero, mul_zero, add_zero]
  have : √((1 : ℝ) ^ 2 + 0 ^ 2) = 1 := by norm_num
  rw [this]
  exact (Complex.arg_ofReal_of_nonneg (x := 1) zero_le_one)

end PV.C04
