/-
  C06 — Sun angles agree with an independent solar ephemeris.
  Theorems over ℝ about PV.Model.Astro against the Astronomical-Almanac low-precision formulas
  (PV.Spec.Almanac).  Helper lemmas: PV/Lemmas/C06Trig.lean, PV/Lemmas/C06Almanac.lean.
  Not proved here (measured by the harness on Float): propagation of the longitude bound through
  RA/Dec/altitude/azimuth to the 0.03° of the statement.
-/
import PV.NumReal
import PV.Model.Astro
import PV.Spec.Almanac
import PV.Lemmas.C06Trig
import PV.Lemmas.C06Almanac
namespace PV.C06
open PV PV.Astro PV.C06L

/-! ### mutual consistency of zenith angle, cos_zen and altitude -/

/-- `sun_zenith_angle` is `rad2deg (arccos (cos_zen …))` -/
theorem zenith_eq_arccos_coszen (d lonDeg latDeg : ℝ) :
    sunZenithAngle d lonDeg latDeg = Num.rad2deg (Real.arccos (cosZen d lonDeg latDeg)) := rfl

/-- the altitude of `get_alt_az` is the arcsine of the very expression `cos_zen` returns -/
theorem altitude_eq_arcsin_coszen (d lonDeg latDeg : ℝ) :
    (altAz d lonDeg latDeg).1 = Real.arcsin (cosZen d lonDeg latDeg) := rfl

/-- zenith angle = 90° − altitude (exactly, over ℝ) -/
theorem zenith_eq_90_minus_alt (d lonDeg latDeg : ℝ) :
    sunZenithAngle d lonDeg latDeg = 90 - Num.rad2deg (altAz d lonDeg latDeg).1 := by
  rw [zenith_eq_arccos_coszen, altitude_eq_arcsin_coszen, r_rad2deg, r_rad2deg,
    Real.arccos_eq_pi_div_two_sub_arcsin]
  have := Real.pi_ne_zero
  field_simp
  ring

/-- |cos_zen| ≤ 1 (inner product of two unit vectors), so `arccos` is never clamped -/
theorem coszen_range (d lon lat : ℝ) : |cosZenRad d lon lat| ≤ 1 := by
  rw [cosZenRad_real]
  exact abs_coszen_le_one _ _ _ _ _ (Real.sin_sq_add_cos_sq lat) (Real.sin_sq_add_cos_sq _)
    ((sq_le_one_iff_abs_le_one _).mpr (Real.abs_cos_le_one _))

theorem coszen_range_deg (d lonDeg latDeg : ℝ) : |cosZen d lonDeg latDeg| ≤ 1 :=
  coszen_range d _ _

/-- the cosine of the returned zenith angle is `cos_zen` -/
theorem cos_zenith_eq_coszen (d lonDeg latDeg : ℝ) :
    Real.cos (Num.deg2rad (sunZenithAngle d lonDeg latDeg)) = cosZen d lonDeg latDeg := by
  obtain ⟨h1, h2⟩ := abs_le.mp (coszen_range_deg d lonDeg latDeg)
  rw [zenith_eq_arccos_coszen, r_rad2deg, r_deg2rad]
  have := Real.pi_ne_zero
  have e : Real.arccos (cosZen d lonDeg latDeg) * (180 / Real.pi) * (Real.pi / 180)
      = Real.arccos (cosZen d lonDeg latDeg) := by field_simp
  rw [e, Real.cos_arccos h1 h2]

/-! ### sub-solar point and antipode -/

/-- at latitude = declination and hour angle 0 (sun on the local meridian) cos_zen = 1 -/
theorem subsolar_zenith_zero (d lon lat : ℝ) (hlat : lat = (sunRaDec d).2)
    (hh : hourAngle d lon (sunRaDec d).1 = 0) : cosZenRad d lon lat = 1 := by
  rw [cosZenRad_real, hh, hlat, Real.cos_zero]
  have := Real.sin_sq_add_cos_sq (sunRaDec d).2
  linear_combination this

/-- at latitude = −declination and hour angle π cos_zen = −1 -/
theorem antipode_zenith_pi (d lon lat : ℝ) (hlat : lat = -(sunRaDec d).2)
    (hh : hourAngle d lon (sunRaDec d).1 = Real.pi) : cosZenRad d lon lat = -1 := by
  rw [cosZenRad_real, hh, hlat, Real.cos_pi, Real.sin_neg, Real.cos_neg]
  have := Real.sin_sq_add_cos_sq (sunRaDec d).2
  linear_combination (-1 : ℝ) * this

/-- hence `sun_zenith_angle` is 0° at the sub-solar point … -/
theorem subsolar_zenith_angle (d lonDeg latDeg : ℝ) (hlat : Num.deg2rad latDeg = (sunRaDec d).2)
    (hh : hourAngle d (Num.deg2rad lonDeg) (sunRaDec d).1 = 0) :
    sunZenithAngle d lonDeg latDeg = 0 := by
  rw [zenith_eq_arccos_coszen, cosZen, subsolar_zenith_zero d _ _ hlat hh, Real.arccos_one,
    r_rad2deg, zero_mul]

/-- … and 180° at its antipode -/
theorem antipode_zenith_angle (d lonDeg latDeg : ℝ) (hlat : Num.deg2rad latDeg = -(sunRaDec d).2)
    (hh : hourAngle d (Num.deg2rad lonDeg) (sunRaDec d).1 = Real.pi) :
    sunZenithAngle d lonDeg latDeg = 180 := by
  rw [zenith_eq_arccos_coszen, cosZen, antipode_zenith_pi d _ _ hlat hh, Real.arccos_neg_one,
    r_rad2deg]
  have := Real.pi_ne_zero
  field_simp

/-- both points exist at every instant (the hypotheses above are satisfiable for every d) -/
theorem subsolar_and_antipode_exist (d : ℝ) :
    (∃ lonDeg latDeg : ℝ, sunZenithAngle d lonDeg latDeg = 0) ∧
    (∃ lonDeg latDeg : ℝ, sunZenithAngle d lonDeg latDeg = 180) := by
  have hpi := Real.pi_ne_zero
  have back : ∀ x : ℝ, Num.deg2rad (x * (180 / Real.pi)) = x := by
    intro x; rw [r_deg2rad]; field_simp
  constructor
  · refine ⟨((sunRaDec d).1 - gmst d) * (180 / Real.pi), (sunRaDec d).2 * (180 / Real.pi), ?_⟩
    apply subsolar_zenith_angle
    · rw [back]
    · rw [back, hourAngle_real]; ring
  · refine ⟨((sunRaDec d).1 - gmst d + Real.pi) * (180 / Real.pi),
      (-(sunRaDec d).2) * (180 / Real.pi), ?_⟩
    apply antipode_zenith_angle
    · rw [back]
    · rw [back, hourAngle_real]; ring

/-! ### right ascension / declination are the textbook formulas -/

/-- `2·atan2(y, x + r) = atan2(y, x)` for `r = √(x²+y²)`, (x, y) off the closed negative x-axis -/
theorem ra_half_angle (x y : ℝ) (h : ¬ (y = 0 ∧ x ≤ 0)) :
    2 * Complex.arg ⟨x + Real.sqrt (x ^ 2 + y ^ 2), y⟩ = Complex.arg ⟨x, y⟩ :=
  two_arg_half x y h

/-- the code's `r = √(1 − z²)` equals `√(x² + y²)`: (x, y, z) is a unit vector -/
theorem code_r_eq (eps lam : ℝ) :
    Real.sqrt (1 - (Real.sin eps * Real.sin lam) * (Real.sin eps * Real.sin lam))
      = Real.sqrt (Real.cos lam ^ 2 + (Real.cos eps * Real.sin lam) ^ 2) := by
  rw [one_sub_zz]

/-- `sun_ra_dec` = (atan2(cos ε sin λ, cos λ), arcsin(sin ε sin λ)) with the code's own ε, λ.
    Guards: cos ε > 0 (true on 1950–2050: `cos_obliquity_pos`) and the sun not exactly at
    λ ≡ π (there the code's `atan2(0, 0)` gives RA = 0 instead of π; a single real instant per
    year that no float reaches because cos ε sin λ is then not exactly 0). -/
theorem sunRaDec_eq_textbook (d : ℝ) (heps : 0 < Real.cos (obliquity d))
    (hlam : Real.cos (sunEclipticLongitude d) ≠ -1) :
    sunRaDec d =
      (Complex.arg ⟨Real.cos (sunEclipticLongitude d),
          Real.cos (obliquity d) * Real.sin (sunEclipticLongitude d)⟩,
       Real.arcsin (Real.sin (obliquity d) * Real.sin (sunEclipticLongitude d))) := by
  rw [sunRaDec_real]
  generalize obliquity d = eps at heps
  generalize sunEclipticLongitude d = lam at hlam
  have hz : |Real.sin eps * Real.sin lam| ≤ 1 := by
    have := abs_mul_le' (Real.abs_sin_le_one eps) (Real.abs_sin_le_one lam)
    linarith
  have hoff : ¬ (Real.cos eps * Real.sin lam = 0 ∧ Real.cos lam ≤ 0) := by
    rintro ⟨h1, h2⟩
    have hs : Real.sin lam = 0 := by
      rcases mul_eq_zero.mp h1 with h | h
      · exact absurd h heps.ne'
      · exact h
    have hc := Real.sin_sq_add_cos_sq lam
    rw [hs] at hc
    have : (Real.cos lam + 1) * (Real.cos lam - 1) = 0 := by nlinarith
    rcases mul_eq_zero.mp this with h | h
    · exact hlam (by linarith)
    · linarith
  refine Prod.ext ?_ ?_
  · simp only
    rw [one_sub_zz]
    exact two_arg_half _ _ hoff
  · simp only
    have := arg_sqrt_one_sub_sq _ hz
    rw [sq] at this
    exact this

/-- cos ε > 0 for every instant of 1950–2050 (|n| ≤ 18263 d) -/
theorem obliquity_guard (d : ℝ) (hd : |d| ≤ 18263) : 0 < Real.cos (obliquity d) :=
  cos_obliquity_pos d hd

/-! ### closeness of the series to the Almanac (|n| ≤ 18263 d, before any mod reduction) -/

/-- ecliptic longitude within 0.012° of the Almanac's λ = L + 1.915° sin g + 0.020° sin 2g -/
theorem ecl_lon_close_to_almanac (d : ℝ) (hd : |d| ≤ 18263) :
    |Num.rad2deg (sunEclipticLongitude d) - Almanac.eclLonDeg d| ≤ 0.012 := by
  have h := eclLon_close_deg d hd
  rw [sunEclipticLongitude_real, r_rad2deg]
  have hpi := Real.pi_ne_zero
  have e : eclLonDegCode d * (Real.pi / 180) * (180 / Real.pi) = eclLonDegCode d := by field_simp
  rw [e]; exact h

/-- the same in radians -/
theorem ecl_lon_close_to_almanac_rad (d : ℝ) (hd : |d| ≤ 18263) :
    |sunEclipticLongitude d - Num.deg2rad (Almanac.eclLonDeg d)| ≤ Num.deg2rad 0.012 := by
  have h := eclLon_close_deg d hd
  rw [sunEclipticLongitude_real, r_deg2rad, r_deg2rad, ← sub_mul, abs_mul,
    abs_of_pos (by positivity : (0:ℝ) < Real.pi / 180)]
  exact mul_le_mul_of_nonneg_right h (by positivity)

/-- obliquity within 0.0011° (hence within 0.002°) of the Almanac's ε = 23.439° − 0.0000004° n -/
theorem obliquity_close (d : ℝ) (hd : |d| ≤ 18263) :
    |Num.rad2deg (obliquity d) - Almanac.obliquityDeg d| ≤ 0.0011 := by
  have h := obliquity_close_deg d hd
  rw [obliquity_real, r_rad2deg]
  have hpi := Real.pi_ne_zero
  have e : obliquityDegCode d * (Real.pi / 180) * (180 / Real.pi) = obliquityDegCode d := by
    field_simp
  rw [e]; exact h

/-- distance factor within 0.0005 AU (hence within 0.0009 AU) of the Almanac's R -/
theorem distance_close (d : ℝ) (hd : |d| ≤ 18263) :
    |sunEarthDistanceCorrection d - Almanac.distanceAU d| ≤ 0.0005 :=
  distance_close_au d hd

/-- for every d the factor stays in [1 − 0.0167, 1 + 0.0167] -/
theorem distance_range (d : ℝ) :
    1 - 0.0167 ≤ sunEarthDistanceCorrection d ∧ sunEarthDistanceCorrection d ≤ 1 + 0.0167 :=
  distance_range' d

/-! ### altitude / azimuth are the hour-angle formulas -/

/-- `get_alt_az` = (asin(sin φ sin δ + cos φ cos δ cos h), atan2(−sin h, cos φ tan δ − sin φ cos h))
    with h = GMST + lon − α -/
theorem altaz_eq_textbook (d lonDeg latDeg : ℝ) :
    altAz d lonDeg latDeg =
      (Almanac.altitude (Num.deg2rad latDeg) (sunRaDec d).2
          (Almanac.hourAngle (gmst d) (Num.deg2rad lonDeg) (sunRaDec d).1),
       Complex.arg ⟨Real.cos (Num.deg2rad latDeg) * Real.tan (sunRaDec d).2
           - Real.sin (Num.deg2rad latDeg)
             * Real.cos (Almanac.hourAngle (gmst d) (Num.deg2rad lonDeg) (sunRaDec d).1),
         -Real.sin (Almanac.hourAngle (gmst d) (Num.deg2rad lonDeg) (sunRaDec d).1)⟩) := rfl

/-- `cos_zen` is the Almanac's cos(zenith distance) at the code's δ and h -/
theorem coszen_eq_almanac (d lonDeg latDeg : ℝ) :
    cosZen d lonDeg latDeg =
      Almanac.cosZenith (Num.deg2rad latDeg) (sunRaDec d).2
        (Almanac.hourAngle (gmst d) (Num.deg2rad lonDeg) (sunRaDec d).1) := rfl

/-- with cos δ > 0 the azimuth is the Almanac form
    atan2(−sin h cos δ, cos φ sin δ − sin φ cos δ cos h), clockwise from north -/
theorem azimuth_eq_almanac (d lonDeg latDeg : ℝ) (hdec : 0 < Real.cos (sunRaDec d).2) :
    (altAz d lonDeg latDeg).2 =
      Almanac.azimuth (Num.deg2rad latDeg) (sunRaDec d).2
        (Almanac.hourAngle (gmst d) (Num.deg2rad lonDeg) (sunRaDec d).1) := by
  rw [altaz_eq_textbook]
  simp only [Almanac.azimuth, r_atan2, r_mul, r_sub, r_neg, r_sin, r_cos]
  generalize Almanac.hourAngle (gmst d) (Num.deg2rad lonDeg) (sunRaDec d).1 = h
  generalize Num.deg2rad latDeg = phi
  generalize (sunRaDec d).2 = dec at hdec
  rw [← arg_scale (Real.cos dec) _ _ hdec, Real.tan_eq_sin_div_cos]
  congr 2
  · field_simp
  · ring

/-- cos δ > 0 whenever cos ε > 0 (the declination never reaches ±90°) -/
theorem cos_dec_pos (d : ℝ) (heps : 0 < Real.cos (obliquity d)) : 0 < Real.cos (sunRaDec d).2 := by
  rw [sunRaDec_real]
  simp only
  generalize obliquity d = eps at heps
  generalize sunEclipticLongitude d = lam
  have hz : |Real.sin eps * Real.sin lam| ≤ 1 := by
    have := abs_mul_le' (Real.abs_sin_le_one eps) (Real.abs_sin_le_one lam)
    linarith
  have := arg_sqrt_one_sub_sq _ hz
  rw [sq] at this
  rw [this, Real.cos_arcsin]
  apply Real.sqrt_pos.mpr
  have h1 := Real.sin_sq_add_cos_sq eps
  have h2 := Real.sin_sq_le_one lam
  have h3 : 0 < Real.cos eps ^ 2 := by positivity
  have h4 : 0 ≤ Real.sin eps ^ 2 := sq_nonneg _
  nlinarith

/-! ### non-vacuity -/

example : |(9000 : ℝ)| ≤ 18263 := by rw [abs_le]; constructor <;> norm_num
example : ¬ ((1 : ℝ) = 0 ∧ (-1 : ℝ) ≤ 0) := by norm_num
example : ∃ d : ℝ, 0 < Real.cos (obliquity d) ∧ Real.cos (sunEclipticLongitude d) ≠ -1 :=
  ⟨0, obliquity_guard 0 (by norm_num), eclLon_zero_guard⟩
example : ∃ d : ℝ, 0 < Real.cos (sunRaDec d).2 :=
  ⟨0, cos_dec_pos 0 (obliquity_guard 0 (by norm_num))⟩

end PV.C06
