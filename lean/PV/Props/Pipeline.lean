/-
  Pipeline — END-TO-END COMPOSITION: the API-level statements about `pyorbital.orbital.Orbital`, obtained by
  composing the per-stage theorems the way the class composes the stages.

    lines ──checksum──▶ accepted ──_parse_tle──▶ attributes ──OrbitElements──▶ elements ──_SGDP4──▶ coefficients
          (C09)                 (C02)                       (C01 §2, C13, C20)            (C01, C13)
    time  ──dt2np / ticks──▶ minutes since epoch (C12, C08) ──propagate──▶ Keplerians ──kep2xyz──▶ position (C01)
    position ──get_lonlatalt──▶ lon, lat, alt (C04, C04Conv)      position ──get_observer_look──▶ az, el (C05)

  Model: PV/Model/Pipeline.lean (`orbitalOfLines`, `positionAt`, `lonLatAltAt`, `observerLookAt`; executed on
  `Float` it reproduces /repo bit for bit on the ISS 2008 element set).  Here it is read over ℝ.
  Spec side: PV.Spec.TleLayout (`encode`, printed field values, `epochUs`), PV.Spec.TleElements (`printedEl`:
  the report's element set of the printed numbers; `minutesFrom`), PV.Spec.Str3 (Spacetrack Report #3),
  PV.Spec.Topo (WGS-84 frame).  Helper lemmas: PV/Lemmas/PipelineGlue.lean, PipelineGeo.lean.

  Hypotheses are exactly the union of the composed theorems' guards:
    * `WellFormed f`, and `yy f ≤ 56 ∨ 69 ≤ yy f` where the epoch is named (C02 `parse_encode`, `epoch_eq`);
    * "the position is answered" (C01 `getPosition_eq_str3`); what is refused, and why, is decided completely by
      `orbital_outcome_class` / `position_outcome_class` (C13's tables lifted to the API);
    * `5 ≤ fuel` for the latitude loop (C04Conv; the model's default is 200, the source's loop is unbounded);
    * a non-vertical line of sight for the azimuth, a non-zero range for the elevation (C05 `az_eq_spec`, `el_eq_spec`).

  Assumed in the composition (hypotheses kept because no existing theorem derives them):
    * nothing for (1)–(3): in particular `|position| ≥ 0.99` earth radii, which C04Conv needs, is DERIVED here from the
      `r_k ≥ 1` guard of `propagate` (C13 `answers_are_near_norm`) and `|U| = 1` (`kep2xyz_normSq`);
    * for (4) the two C05 guards above stay hypotheses: the observer's height is a free argument, so the observer may
      coincide with, or sit exactly below, the satellite (WGS-84's 6378.137 km exceeds the 6378.135 km the `r_k ≥ 1`
      guard gives, so not even a ground observer is excluded by the guards of the code);
    * as in C01: no Kepler residual is claimed when the 10 Newton iterations are exhausted (the state is then the
      report's state at the iterate reached), and the float execution is outside the ℝ reading (measured by the harness).
-/
import PV.Lemmas.PipelineGeo
import PV.Lemmas.PipelineExample
import PV.Props.C01
import PV.Props.C13
import PV.Props.C04Conv
import PV.Props.C05
namespace PV.PipelineProps
open PV PV.Pipeline PV.PipelineL PV.Text PV.Spec.TleLayout PV.Spec.TleElements PV.Spec.Topo PV.Sgp4 PV.TleParse
  PV.Checksum PV.Gen PV.C13 Real

/-! ## (0) every pair of lines: rejected, refused with a stated class, or constructed -/

/-- Complete decision table of `Orbital(name, line1=l1, line2=l2)` for ALL character sequences, stages in source
    order: (a) a line that fails `_checksum` gives that stage's class and nothing is parsed; (b) accepted lines whose
    columns do not convert give the parser's class; (c) parsed attributes `t` are judged on
    `e = OrbitElements(t)` by C13's table (`EccOk e ↔ 0 < eo < 1 − 1e-6`, `MmOk e ↔ 0.0035·2π/1440 < xno < 18·2π/1440`,
    `InclOk e ↔ 0 < xincl < π`, see `PV.C13.init_outcome_class`), preceded by `OrbitElements`' own refusal of a
    non-positive mean motion; otherwise the object holds exactly `t`, `e` and the coefficients `coeffs e (basic e) mode`. -/
theorem orbital_outcome_class (l1 l2 : List Char) :
    (∀ c, (orbitalOfLines l1 l2 : Except Refusal (Orbital ℝ)) = .error (.checksum c) ↔
        accept l1 l2 = c ∧ c ≠ .accepted) ∧
    (∀ pe, (orbitalOfLines l1 l2 : Except Refusal (Orbital ℝ)) = .error (.parse pe) ↔
        accept l1 l2 = .accepted ∧ parse tleColumns (strip l1) (strip l2) = .error pe) ∧
    (∀ t, accept l1 l2 = .accepted → parse tleColumns (strip l1) (strip l2) = .ok t →
      let e := elements (tleNumOfTle t : TleNum ℝ)
      ((orbitalOfLines l1 l2 : Except Refusal (Orbital ℝ)) = .error (.init .mmRange) ↔
        ¬ 0 < e.xn_0 ∨ (EccOk e ∧ ¬ MmOk e)) ∧
      ((orbitalOfLines l1 l2 : Except Refusal (Orbital ℝ)) = .error (.init .eccRange) ↔ 0 < e.xn_0 ∧ ¬ EccOk e) ∧
      ((orbitalOfLines l1 l2 : Except Refusal (Orbital ℝ)) = .error (.init .inclRange) ↔
        0 < e.xn_0 ∧ EccOk e ∧ MmOk e ∧ ¬ InclOk e) ∧
      ((orbitalOfLines l1 l2 : Except Refusal (Orbital ℝ)) = .error (.init .deepSpace) ↔
        0 < e.xn_0 ∧ EccOk e ∧ MmOk e ∧ InclOk e ∧ 225 ≤ (basic e).period) ∧
      (∀ o, (orbitalOfLines l1 l2 : Except Refusal (Orbital ℝ)) = .ok o ↔
        0 < e.xn_0 ∧ EccOk e ∧ MmOk e ∧ InclOk e ∧ (basic e).period < 225 ∧
        o = ⟨t, e, coeffs e (basic e) (modeSpec e)⟩)) := by
  refine ⟨fun c => ?_, fun pe => ?_, fun t ha hp => ?_⟩
  · rw [orbitalOfLines_eq]
    cases ha : accept l1 l2 <;> cases c <;> simp only [reduceCtorEq, ne_eq, not_true_eq_false, not_false_eq_true,
      and_self, and_true, and_false, Except.error.injEq, Refusal.checksum.injEq] <;>
    · cases hp : parse tleColumns (strip l1) (strip l2) with
      | error e => simp only [Except.error.injEq, reduceCtorEq]
      | ok t => simp only [orbitalOfTle_cases]; split_ifs <;> simp only [reduceCtorEq, Except.error.injEq]
  · rw [orbitalOfLines_eq]
    cases ha : accept l1 l2 <;> simp only [reduceCtorEq, false_and, true_and, Except.error.injEq]
    cases hp : parse tleColumns (strip l1) (strip l2) with
    | error e => simp only [Except.error.injEq, Refusal.parse.injEq]
    | ok t => simp only [orbitalOfTle_cases, reduceCtorEq, iff_false]; split_ifs <;> simp only [reduceCtorEq, Except.error.injEq, not_false_eq_true]
  · intro e
    rw [orbitalOfLines_eq, ha]
    simp only [hp, orbitalOfTle_cases]
    by_cases h0 : 0 < e.xn_0 <;> by_cases h1 : EccOk e <;> by_cases h2 : MmOk e <;> by_cases h3 : InclOk e <;>
      by_cases h4 : 225 ≤ (basic e).period <;>
      simp [-r_ofNat, e, h0, h1, h2, h3, h4, eq_comm]
    exact lt_of_not_ge h4

/-- Complete decision table of `Orbital.get_position(t, normalize)` on an existing object, for every time
    representation: the minutes since epoch are `ts = (instant − epoch)/60 s` exactly (`minutesFrom`), and the outcome
    is C13's table of `propagate` at that `ts` — the same refusal whatever `normalize`; an answer is `kep2xyz` of the
    Keplerians of the last leaf, divided by (6378.135 km, 106.30225 km/s) when `normalize`. -/
theorem position_outcome_class (o : Orbital ℝ) (i : Instant) (nz : Bool) :
    let p := o.params
    let ts := minutesFrom o.epochUs (Time.nsPerTick i.unit) i.ticks
    (positionAt o i nz = .error .notImplemented ↔ p.mode ≠ .nearNorm) ∧
    (positionAt o i nz = .error .crashedA ↔ p.mode = .nearNorm ∧ (secular p ts).a < 1) ∧
    (positionAt o i nz = .error .eccLow ↔ p.mode = .nearNorm ∧ 1 ≤ (secular p ts).a ∧ (secular p ts).e0 < -1e-3) ∧
    (positionAt o i nz = .error .elsqGe1 ↔
      p.mode = .nearNorm ∧ 1 ≤ (secular p ts).a ∧ -1e-3 ≤ (secular p ts).e0 ∧
      1 ≤ (longPeriod p (secular p ts)).elsq) ∧
    (positionAt o i nz = .error .crashedRk ↔
      p.mode = .nearNorm ∧ 1 ≤ (secular p ts).a ∧ -1e-3 ≤ (secular p ts).e0 ∧
      (longPeriod p (secular p ts)).elsq < 1 ∧ (kepOf p ts).rk < 1) ∧
    (∀ pv, positionAt o i false = .ok pv ↔
      p.mode = .nearNorm ∧ 1 ≤ (secular p ts).a ∧ -1e-3 ≤ (secular p ts).e0 ∧
      (longPeriod p (secular p ts)).elsq < 1 ∧ 1 ≤ (kepOf p ts).rk ∧ pv = kep2xyz (kepOf p ts)) ∧
    positionAt o i true = (positionAt o i false).map (fun pv =>
      (⟨pv.1.x / 6378.135, pv.1.y / 6378.135, pv.1.z / 6378.135⟩,
       ⟨pv.2.x / 106.30225, pv.2.y / 106.30225, pv.2.z / 106.30225⟩)) := by
  intro p ts
  have hts : minutesSinceEpoch o i = ts := minutesSinceEpoch_eq o i
  obtain ⟨c1, c2, c3, c4, c5, c6⟩ := propagate_outcome_class p ts
  unfold positionAt
  rw [hts]
  refine ⟨?_, ?_, ?_, ?_, ?_, fun pv => ?_, C01.normalize_eq p ts⟩
  · rw [getPosition_error_iff]; exact c1
  · rw [getPosition_error_iff]; exact c2
  · rw [getPosition_error_iff]; exact c3
  · rw [getPosition_error_iff]; exact c4
  · rw [getPosition_error_iff]; exact c5
  · constructor
    · intro h
      obtain ⟨k, hk, rfl⟩ := getPosition_false_ok h
      obtain ⟨g1, g2, g3, g4, g5, rfl⟩ := (c6 k).1 hk
      exact ⟨g1, g2, g3, g4, g5, rfl⟩
    · rintro ⟨g1, g2, g3, g4, g5, rfl⟩
      rw [getPosition_false, (c6 _).2 ⟨g1, g2, g3, g4, g5, rfl⟩]; rfl

/-! ## (1) from the lines to the published model's state -/

/-- For EVERY well-formed field record `f` (C02's predicate) and every query time in every representation: the two
    lines `encode f` are never rejected by the checksum or the parser (by construction of `encode`; C02 `tle_encode`);
    the constructor either refuses with the `InitErr` class that `Sgp4.construct` assigns to the PRINTED numbers
    (decided by C13 `init_outcome_class` on `OrbitElements` of the printed numbers, see `orbital_outcome_class`), or
    builds an object whose element set is the report's element set of the printed numbers (`printedEl f`: rev/day·2π/1440,
    degrees·π/180, implied decimal points) and whose epoch is the printed epoch; and then `get_position` either
    refuses with `propagate`'s class at `ts` (decided by `position_outcome_class`) or returns EXACTLY the published
    model's state `Str3.state` (position km, velocity km/s) for the printed elements at `ts = (instant − epoch)/60 s`
    and at the model's Kepler iterate `y`; if the Newton loop left through its `break`, `y` solves the report's
    Kepler equation (with `U` reduced by `fmod 2π`) to 1e-12.
    Composes C02 `tle_encode`/`epoch_eq`, C01 `propagate_eq_str3`, C12-style tick arithmetic (`r_tsinceMinutes`). -/
theorem lines_to_state_eq_str3 (f : Fields) (h : WellFormed f) (hy : yy f ≤ 56 ∨ 69 ≤ yy f) (i : Instant) :
    let l := printedEl f
    let c := Str3.consts l
    let ts := minutesFrom (epochUs f) (Time.nsPerTick i.unit) i.ticks
    let m := Str3.mean l c ts
    let nw := newton m.axn m.ayn (Num.fmod m.capu (2 * π)) (√(m.axn * m.axn + m.ayn * m.ayn))
    (∃ ie, (orbitalOfLines (encode f).1 (encode f).2 : Except Refusal (Orbital ℝ)) = .error (.init ie) ∧
        construct (tleNumOfFields f : TleNum ℝ) = .error ie) ∨
    (∃ o : Orbital ℝ, orbitalOfLines (encode f).1 (encode f).2 = .ok o ∧
        C01.toEl o.elements = l ∧ o.epochUs = epochUs f ∧
        construct (tleNumOfFields f : TleNum ℝ) = .ok o.params ∧
        ((∃ pe, positionAt o i false = .error pe ∧ propagate o.params ts = .error pe) ∨
         (∃ y, positionAt o i false = .ok (Str3.state l c m y) ∧
            (nw.converged = true →
              |Str3.keplerResidual { m with capu := Num.fmod m.capu (2 * π) } y| < 1e-12)))) := by
  intro l c ts m nw
  rw [orbitalOfLines_encode f h, orbitalOfTle_construct, tleNumOfTle_valuesOf]
  cases hc : construct (tleNumOfFields f : TleNum ℝ) with
  | error ie => exact Or.inl ⟨ie, rfl, rfl⟩
  | ok p =>
    right
    have hinit := construct_ok hc
    have hep : (C02.valuesOf f).epochUs = epochUs f := by
      obtain ⟨t, ht, hte⟩ := C02.epoch_eq f h hy
      rw [C02.parse_encode f h] at ht
      rw [Except.ok.inj ht]; exact hte
    refine ⟨⟨C02.valuesOf f, elements (tleNumOfFields f), p⟩, rfl, toEl_elements_fields f, hep, rfl, ?_⟩
    have hts : minutesSinceEpoch (⟨C02.valuesOf f, elements (tleNumOfFields f), p⟩ : Orbital ℝ) i = ts := by
      rw [minutesSinceEpoch_eq]; show minutesFrom (C02.valuesOf f).epochUs _ _ = ts; rw [hep]
    unfold positionAt
    rw [hts, getPosition_false]
    cases hk : propagate p ts with
    | error pe => exact Or.inl ⟨pe, rfl, rfl⟩
    | ok k =>
      right
      obtain ⟨y, hy1, hy2⟩ := C01.propagate_eq_str3 _ p ts k hinit hk
      rw [toEl_elements_fields] at hy1 hy2
      refine ⟨y, ?_, fun hconv => (hy2 hconv).2⟩
      show Except.ok (kep2xyz k) = _
      rw [hy1]

/-- (1) for ARBITRARY lines (not only encodings of well-formed records: signs, blanks, any text the parser converts):
    whenever an object was built from two lines, its attributes are the parser's result on the stripped lines, its
    element set is `OrbitElements` of those attributes, and `get_position` at any time either refuses with `propagate`'s
    class or returns exactly the published model's state for that element set at `ts = (instant − epoch)/60 s`.
    Together with `orbital_outcome_class`: every pair of lines is rejected by the checksum, refused by the parser,
    refused with the class C13 states, or answered with the Str3 state. -/
theorem position_of_accepted_lines (l1 l2 : List Char) (o : Orbital ℝ) (ho : orbitalOfLines l1 l2 = .ok o)
    (i : Instant) :
    let l := C01.toEl o.elements
    let c := Str3.consts l
    let ts := minutesFrom o.epochUs (Time.nsPerTick i.unit) i.ticks
    let m := Str3.mean l c ts
    let nw := newton m.axn m.ayn (Num.fmod m.capu (2 * π)) (√(m.axn * m.axn + m.ayn * m.ayn))
    parse tleColumns (strip l1) (strip l2) = .ok o.tle ∧ o.elements = elements (tleNumOfTle o.tle) ∧
    ((∃ pe, positionAt o i false = .error pe ∧ propagate o.params ts = .error pe) ∨
     (∃ y, positionAt o i false = .ok (Str3.state l c m y) ∧
        (nw.converged = true →
          |Str3.keplerResidual { m with capu := Num.fmod m.capu (2 * π) } y| < 1e-12))) := by
  intro l c ts m nw
  obtain ⟨-, hp, hel, -, hinit⟩ := orbitalOfLines_ok ho
  refine ⟨hp, hel, ?_⟩
  have hts : minutesSinceEpoch o i = ts := minutesSinceEpoch_eq o i
  unfold positionAt
  rw [hts, getPosition_false]
  cases hk : propagate o.params ts with
  | error pe => exact Or.inl ⟨pe, rfl, rfl⟩
  | ok k =>
    right
    obtain ⟨y, hy1, hy2⟩ := C01.propagate_eq_str3 _ o.params ts k hinit hk
    refine ⟨y, ?_, fun hconv => (hy2 hconv).2⟩
    show Except.ok (kep2xyz k) = _
    rw [hy1]

/-! ## (2) the epoch and the minutes since epoch -/

/-- The time argument of the model, for every representation of the query time (`datetime` → µs ticks, `datetime64`
    of unit ns/µs/ms/s/m, arrays → ns ticks): the object's epoch is C02's `epochUs f` — 1 January of the two-digit year
    (00–56 ↦ 20yy, 69–99 ↦ 19yy) plus (day of year − 1) days, to the µs, with 1 January from the Fliegel–Van Flandern
    day number — and the minutes-since-epoch handed to the propagator are EXACTLY (instant − epoch) / 60 s:
    (a) in nanoseconds, whatever the unit and the tick count; (b) for an instant of `us` µs since 1970 held in ANY unit
    in which it is a whole number of ticks (C08's `Representable`/`ticksOf`; hence the same number for every
    representation of one instant, `PV.C08L.unitOfKind` included); (c) for a civil `datetime`; (d) equal to
    1440 × the difference of the `jdays2000` day counts of instant and epoch (C12 `differences_are_elapsed`).
    Composes C02 `epoch_eq` with the tick arithmetic of PV.Model.Time (C12/C08). -/
theorem epoch_and_minutes (f : Fields) (h : WellFormed f) (hy : yy f ≤ 56 ∨ 69 ≤ yy f) (o : Orbital ℝ)
    (ho : orbitalOfLines (encode f).1 (encode f).2 = .ok o) :
    o.epochUs = epochUs f ∧
    (∀ i : Instant, minutesSinceEpoch o i =
        ((i.ticks * Time.nsPerTick i.unit - epochUs f * 1000 : ℤ) : ℝ) / 60000000000) ∧
    (∀ (u : Time.Unit) (us : ℤ), C08L.Representable u us →
        minutesSinceEpoch o ⟨u, C08L.ticksOf u us⟩ = ((us - epochUs f : ℤ) : ℝ) / 60000000) ∧
    (∀ (y : ℤ) (mo d hh mi s us : ℕ), minutesSinceEpoch o (Instant.ofCivil y mo d hh mi s us) =
        ((Time.usOfCivil y mo d hh mi s us - epochUs f : ℤ) : ℝ) / 60000000) ∧
    (∀ i : Instant, minutesSinceEpoch o i =
        1440 * ((daysOf i : ℝ) - (Time.jdays2000 .us (epochUs f) : ℝ))) := by
  have hep : o.epochUs = epochUs f := by
    obtain ⟨-, hp, -⟩ := orbitalOfLines_ok ho
    obtain ⟨t, ht, hte⟩ := C02.epoch_eq f h hy
    have hs1 : strip (encode f).1 = (encode f).1 := C02.strip_withCheck (c := '1') (by decide)
    have hs2 : strip (encode f).2 = (encode f).2 := C02.strip_withCheck (c := '2') (by decide)
    rw [hs1, hs2, ht] at hp
    show o.tle.epochUs = _
    rw [← Except.ok.inj hp]; exact hte
  refine ⟨hep, fun i => ?_, fun u us hr => ?_, fun y mo d hh mi s us => ?_, fun i => ?_⟩
  · rw [minutesSinceEpoch_eq, hep]; rfl
  · rw [minutesSinceEpoch_eq, hep]; exact minutesFrom_representable u us _ hr
  · rw [minutesSinceEpoch_eq, hep]
    have := minutesFrom_representable .us (Time.usOfCivil y mo d hh mi s us) (epochUs f) (C08L.representable_us _)
    rw [C08L.ticksOf_us] at this
    exact this
  · rw [minutesSinceEpoch_eq, hep]; exact minutesFrom_eq_days _ _ _

/-! ## (3) sub-satellite point of the propagated position -/

/-- Every answered position is at least one earth radius (6378.135 km) from the centre — DERIVED from the `r_k ≥ 1`
    guard of `propagate` (C13 `answers_are_near_norm`) and `|U| = 1` in `kep2xyz`; this discharges C04Conv's hypothesis
    `|pn| ≥ 0.99`.  Hence, for ANY two lines from which an object was built and any time at which the position is
    answered, `get_lonlatalt` returns (the latitude loop exits within 5 passes, for every fuel ≥ 5), longitude in
    (−180°, 180°], latitude in [−90°, 90°], and converting (lon, lat, alt) back with the WGS-84 formulas and the rotation
    by GMST reproduces the propagated position (km) within 2e-6 of its length (the mismatch A/XKMPER − 1 = 3.1e-7,
    C04 `unit_mismatch`, plus the loop's exit residual).  If the position is refused, `get_lonlatalt` refuses alike.
    Composes C13, C01 `normalize_eq`, C04 `subpoint_ranges`, C04Conv `subpoint_returns_and_roundtrips`. -/
theorem lonlatalt_of_accepted_lines (l1 l2 : List Char) (o : Orbital ℝ) (ho : orbitalOfLines l1 l2 = .ok o)
    (i : Instant) (fuel : ℕ) (hf : 5 ≤ fuel) :
    (∀ pe, positionAt o i false = .error pe → lonLatAltAt o i fuel = .error pe) ∧
    (∀ pos vel, positionAt o i false = .ok (pos, vel) →
      6378.135 ^ 2 ≤ normSq pos ∧
      ∃ lon lat alt n, lonLatAltAt o i fuel = .ok (some (lon, lat, alt, n)) ∧ n ≤ 5 ∧
        (-180 < lon ∧ lon ≤ 180) ∧ (-90 ≤ lat ∧ lat ≤ 90) ∧
        ((geodeticToCartesian wgs84A wgs84F (C05.radOf lat) (Astro.gmst (daysOf i) + C05.radOf lon) alt).x - pos.x) ^ 2 +
        ((geodeticToCartesian wgs84A wgs84F (C05.radOf lat) (Astro.gmst (daysOf i) + C05.radOf lon) alt).y - pos.y) ^ 2 +
        ((geodeticToCartesian wgs84A wgs84F (C05.radOf lat) (Astro.gmst (daysOf i) + C05.radOf lon) alt).z - pos.z) ^ 2
          ≤ (2e-6) ^ 2 * normSq pos) := by
  obtain ⟨-, -, -, -, hinit⟩ := orbitalOfLines_ok ho
  have hnorm := C01.normalize_eq o.params (minutesSinceEpoch o i)
  constructor
  · intro pe hpe
    unfold lonLatAltAt positionAt at *
    rw [hnorm, hpe]; rfl
  · intro pos vel hp
    obtain ⟨k, hk, hpv⟩ := getPosition_false_ok hp
    have hrad : 6378.135 ≤ k.radius := (answers_are_near_norm _ _ _ k hinit hk).2.2.2.2.2.2.2.2.2.2.2
    have hpos : pos = (kep2xyz k).1 := congrArg Prod.fst hpv
    have hns : normSq pos = k.radius ^ 2 := by rw [hpos]; exact kep2xyz_normSq k
    have hge : (6378.135 : ℝ) ^ 2 ≤ normSq pos := by rw [hns]; nlinarith
    refine ⟨hge, ?_⟩
    set pn : V3 ℝ := ⟨pos.x / 6378.135, pos.y / 6378.135, pos.z / 6378.135⟩ with hpn
    have hpn2 : pn.x ^ 2 + pn.y ^ 2 + pn.z ^ 2 = normSq pos / 6378.135 ^ 2 := by
      simp only [hpn, normSq]; ring
    have h99 : (0.99 : ℝ) ^ 2 ≤ pn.x ^ 2 + pn.y ^ 2 + pn.z ^ 2 := by
      rw [hpn2, le_div_iff₀ (by norm_num)]; nlinarith
    obtain ⟨lon, lat, alt, n, hll, hn, hrt⟩ :=
      C04Conv.subpoint_returns_and_roundtrips (daysOf i) pn h99 fuel hf
    obtain ⟨hlon, hlat⟩ := C04.subpoint_ranges _ _ _ _ _ _ _ hll
    refine ⟨lon, lat, alt, n, ?_, hn, hlon, hlat, ?_⟩
    · unfold lonLatAltAt positionAt at *
      rw [hnorm, hp]
      simp only [Except.map]
      rw [← hpn, hll]
    · have e1 : (6378.135 : ℝ) * pn.x = pos.x := by simp only [hpn]; field_simp
      have e2 : (6378.135 : ℝ) * pn.y = pos.y := by simp only [hpn]; field_simp
      have e3 : (6378.135 : ℝ) * pn.z = pos.z := by simp only [hpn]; field_simp
      rw [e1, e2, e3, hpn2] at hrt
      calc _ ≤ (2e-6 * 6378.135) ^ 2 * (normSq pos / 6378.135 ^ 2) := hrt
        _ = (2e-6) ^ 2 * normSq pos := by field_simp

/-- (1) for an object in hand: whatever object the encoded lines of a well-formed record produced, its
    `get_position(normalize=False)` refuses with `propagate`'s class or returns the published state of the printed
    elements at `ts = (instant − printed epoch)/60 s` -/
theorem position_of_lines (f : Fields) (h : WellFormed f) (hy : yy f ≤ 56 ∨ 69 ≤ yy f) (o : Orbital ℝ)
    (ho : orbitalOfLines (encode f).1 (encode f).2 = .ok o) (i : Instant) :
    let l := printedEl f
    let c := Str3.consts l
    let ts := minutesFrom (epochUs f) (Time.nsPerTick i.unit) i.ticks
    let m := Str3.mean l c ts
    (∃ pe, positionAt o i false = .error pe ∧ propagate o.params ts = .error pe) ∨
    (∃ y, positionAt o i false = .ok (Str3.state l c m y)) := by
  intro l c ts m
  rcases lines_to_state_eq_str3 f h hy i with ⟨ie, he, -⟩ | ⟨o', ho', -, -, -, hcase⟩
  · rw [ho] at he; exact absurd he (by simp)
  · rw [ho] at ho'
    obtain rfl := Except.ok.inj ho'
    rcases hcase with ⟨pe, h1, h2⟩ | ⟨y, h1, -⟩
    · exact Or.inl ⟨pe, h1, h2⟩
    · exact Or.inr ⟨y, h1⟩

/-- (3) at the API level, from the lines: for every well-formed record and every time representation,
    `get_lonlatalt` of the object built from `encode f` either refuses with `propagate`'s class (as `get_position`
    does), or returns (lon, lat, alt) with lon ∈ (−180°, 180°], lat ∈ [−90°, 90°] whose WGS-84 point, rotated by GMST,
    is within 2e-6 (relative) of the PUBLISHED model's position for the PRINTED elements; that position is at least
    6378.135 km from the centre.  Composes (1) with `lonlatalt_of_accepted_lines`. -/
theorem lonlatalt_of_lines (f : Fields) (h : WellFormed f) (hy : yy f ≤ 56 ∨ 69 ≤ yy f) (o : Orbital ℝ)
    (ho : orbitalOfLines (encode f).1 (encode f).2 = .ok o) (i : Instant) (fuel : ℕ) (hf : 5 ≤ fuel) :
    let l := printedEl f
    let c := Str3.consts l
    let ts := minutesFrom (epochUs f) (Time.nsPerTick i.unit) i.ticks
    let m := Str3.mean l c ts
    (∃ pe, propagate o.params ts = .error pe ∧ positionAt o i false = .error pe ∧
        lonLatAltAt o i fuel = .error pe) ∨
    (∃ y lon lat alt n, positionAt o i false = .ok (Str3.state l c m y) ∧
        lonLatAltAt o i fuel = .ok (some (lon, lat, alt, n)) ∧ n ≤ 5 ∧
        (-180 < lon ∧ lon ≤ 180) ∧ (-90 ≤ lat ∧ lat ≤ 90) ∧
        6378.135 ^ 2 ≤ normSq (Str3.state l c m y).1 ∧
        ((geodeticToCartesian wgs84A wgs84F (C05.radOf lat) (Astro.gmst (daysOf i) + C05.radOf lon) alt).x
            - (Str3.state l c m y).1.x) ^ 2 +
        ((geodeticToCartesian wgs84A wgs84F (C05.radOf lat) (Astro.gmst (daysOf i) + C05.radOf lon) alt).y
            - (Str3.state l c m y).1.y) ^ 2 +
        ((geodeticToCartesian wgs84A wgs84F (C05.radOf lat) (Astro.gmst (daysOf i) + C05.radOf lon) alt).z
            - (Str3.state l c m y).1.z) ^ 2
          ≤ (2e-6) ^ 2 * normSq (Str3.state l c m y).1) := by
  intro l c ts m
  obtain ⟨herr, hok⟩ := lonlatalt_of_accepted_lines _ _ o ho i fuel hf
  rcases position_of_lines f h hy o ho i with ⟨pe, h1, h2⟩ | ⟨y, h1⟩
  · exact Or.inl ⟨pe, h2, h1, herr pe h1⟩
  · obtain ⟨hge, lon, lat, alt, n, hll, hn, hlon, hlat, hrt⟩ := hok _ _ h1
    exact Or.inr ⟨y, lon, lat, alt, n, h1, hll, hn, hlon, hlat, hge, hrt⟩

/-! ## (4) look angles of the propagated position -/

/-- For any `Orbital` object, any time representation and any observer (lon°, lat°, alt km): if `get_position`
    refuses, `get_observer_look` refuses alike; if it answers `pos`, the method returns (az, el) with az ∈ [0°, 360°),
    el ∈ [−90°, 90°], where — `obs` being the WGS-84 point of the observer at geodetic latitude φ, height `alt`, rotated
    to the local sidereal angle θ = (GMST + lon) mod 2π, and `r = pos − obs` — the azimuth is `atan2(r·east, r·north) mod 2π`
    for every non-vertical line of sight and the elevation is `asin(r·up/|r|)` whenever the range is non-zero: the
    direction of (position − observer) in the observer's WGS-84 east/north/up frame.
    Composes C04 `observer_position_eq_wgs84`, C05 `method_eq_module`, `az_range`, `el_range`, `az_eq_spec`, `el_eq_spec`
    (whose proofs rest on `topo_is_rotation`). -/
theorem look_of_position (o : Orbital ℝ) (i : Instant) (lonDeg latDeg alt : ℝ) :
    let φ := C05.radOf latDeg
    let θ := mod2pi (Astro.gmst (daysOf i) + C05.radOf lonDeg)
    let obs := geodeticToCartesian wgs84A wgs84F φ θ alt
    (∀ pe, positionAt o i false = .error pe → observerLookAt o i lonDeg latDeg alt = .error pe) ∧
    (∀ pos vel, positionAt o i false = .ok (pos, vel) →
      let r : V3 ℝ := ⟨pos.x - obs.x, pos.y - obs.y, pos.z - obs.z⟩
      ∃ az el, observerLookAt o i lonDeg latDeg alt = .ok (az, el) ∧
        (0 ≤ az ∧ az < 360) ∧ (-90 ≤ el ∧ el ≤ 90) ∧
        (dot r (north φ θ) ≠ 0 ∨ dot r (east θ) ≠ 0 → az = Spec.Topo.az φ θ r * (180 / π)) ∧
        (len r ≠ 0 → el = Spec.Topo.el φ θ r * (180 / π))) := by
  intro φ θ obs
  constructor
  · intro pe hpe
    unfold observerLookAt
    rw [hpe]
  · intro pos vel hp r
    have hr : V3.sub pos (Astro.observerPosition (daysOf i) lonDeg latDeg alt).1 = r := by
      rw [C04.observer_position_eq_wgs84]; rfl
    refine ⟨(Look.lookModuleOfDiff (daysOf i) lonDeg latDeg r).1, (Look.lookModuleOfDiff (daysOf i) lonDeg latDeg r).2,
      ?_, C05.az_range _ _ _ r, C05.el_range _ _ _ r, fun hnv => C05.az_eq_spec _ _ _ r hnv,
      fun hl => C05.el_eq_spec _ _ _ r hl⟩
    unfold observerLookAt
    rw [hp]
    simp only [C05.method_eq_module, hr]

/-- (4) at the API level, from the lines: `get_observer_look` of the object built from `encode f` either refuses with
    `propagate`'s class, or returns the azimuth/elevation of (PUBLISHED model's position for the PRINTED elements −
    observer's WGS-84 position) in the observer's east/north/up frame (same guards as `look_of_position`).
    Composes (1) with `look_of_position`. -/
theorem look_of_lines (f : Fields) (h : WellFormed f) (hy : yy f ≤ 56 ∨ 69 ≤ yy f) (o : Orbital ℝ)
    (ho : orbitalOfLines (encode f).1 (encode f).2 = .ok o) (i : Instant) (lonDeg latDeg alt : ℝ) :
    let l := printedEl f
    let c := Str3.consts l
    let ts := minutesFrom (epochUs f) (Time.nsPerTick i.unit) i.ticks
    let m := Str3.mean l c ts
    let φ := C05.radOf latDeg
    let θ := mod2pi (Astro.gmst (daysOf i) + C05.radOf lonDeg)
    let obs := geodeticToCartesian wgs84A wgs84F φ θ alt
    (∃ pe, propagate o.params ts = .error pe ∧ positionAt o i false = .error pe ∧
        observerLookAt o i lonDeg latDeg alt = .error pe) ∨
    (∃ y az el, positionAt o i false = .ok (Str3.state l c m y) ∧
        observerLookAt o i lonDeg latDeg alt = .ok (az, el) ∧
        (0 ≤ az ∧ az < 360) ∧ (-90 ≤ el ∧ el ≤ 90) ∧
        (let r : V3 ℝ := ⟨(Str3.state l c m y).1.x - obs.x, (Str3.state l c m y).1.y - obs.y,
                          (Str3.state l c m y).1.z - obs.z⟩
         (dot r (north φ θ) ≠ 0 ∨ dot r (east θ) ≠ 0 → az = Spec.Topo.az φ θ r * (180 / π)) ∧
         (len r ≠ 0 → el = Spec.Topo.el φ θ r * (180 / π)))) := by
  intro l c ts m φ θ obs
  obtain ⟨herr, hok⟩ := look_of_position o i lonDeg latDeg alt
  rcases position_of_lines f h hy o ho i with ⟨pe, h1, h2⟩ | ⟨y, h1⟩
  · exact Or.inl ⟨pe, h2, h1, herr pe h1⟩
  · obtain ⟨az, el, hl, haz, hel, h3, h4⟩ := hok _ _ h1
    exact Or.inr ⟨y, az, el, h1, hl, haz, hel, h3, h4⟩

/-! ## non-vacuity

  `exFields` (PV/Lemmas/PipelineExample.lean): i = 90°, e = 0.28, Ω = ω = M = 0, B* = 1e-4, n = 9.86322 rev/day, epoch
  08264.51782528.  Over ℝ the whole pipeline runs on its two lines: accepted, parsed, constructed (NEAR_NORM), and
  answered at the epoch (interval arithmetic with 3.141592 < π < 3.141593 through the Kozai → Brouwer recovery).
  /repo answers the same lines at the same time with position (6615.12, 0, −13.24) km. -/

example : WellFormed exFields ∧ (yy exFields ≤ 56 ∨ 69 ≤ yy exFields) ∧ encode exFields = (exLine1, exLine2) :=
  ⟨exFields_wf, exFields_yy, exFields_encode⟩

/-- the hypotheses `orbitalOfLines (encode f).1 (encode f).2 = .ok o` and `positionAt o i false = .ok pv` of
    (2), (3), (4) are met together, over ℝ -/
example : ∃ (o : Orbital ℝ) (i : Instant) (pv : V3 ℝ × V3 ℝ),
    orbitalOfLines (encode exFields).1 (encode exFields).2 = .ok o ∧ o.params.mode = .nearNorm ∧
    positionAt o i false = .ok pv :=
  ⟨exOrbital, exEpochInstant, _, by rw [exFields_encode]; exact ex_constructed, rfl, ex_answered⟩

/-- so the "answered" alternative of (1) is inhabited: the example's position at its epoch IS the published model's
    state of the printed elements -/
example : ∃ y, positionAt exOrbital exEpochInstant false =
    .ok (Str3.state (printedEl exFields) (Str3.consts (printedEl exFields))
      (Str3.mean (printedEl exFields) (Str3.consts (printedEl exFields))
        (minutesFrom (epochUs exFields) (Time.nsPerTick exEpochInstant.unit) exEpochInstant.ticks)) y) := by
  have ho : (orbitalOfLines (encode exFields).1 (encode exFields).2 : Except Refusal (Orbital ℝ)) = .ok exOrbital := by
    rw [exFields_encode]; exact ex_constructed
  rcases position_of_lines exFields exFields_wf exFields_yy exOrbital ho exEpochInstant with ⟨pe, h1, -⟩ | h
  · rw [ex_answered] at h1; exact absurd h1 (by simp)
  · exact h

/-- … and its sub-satellite point and look angles exist (fuel = the model's default) -/
example : ∃ r, lonLatAltAt exOrbital exEpochInstant = .ok (some r) := by
  obtain ⟨-, hok⟩ := lonlatalt_of_accepted_lines exLine1 exLine2 exOrbital ex_constructed exEpochInstant 200 (by norm_num)
  obtain ⟨-, lon, lat, alt, n, h, -⟩ := hok _ _ ex_answered
  exact ⟨_, h⟩

/-- every refusal stage of (0) is inhabited: checksum, parser, element check -/
example : (orbitalOfLines exLine1BadCheck exLine2 : Except Refusal (Orbital ℝ)) = .error (.checksum .checksumError) :=
  ex_rejected_checksum
example : (orbitalOfLines exLine1 exLine2BadIncl : Except Refusal (Orbital ℝ)) = .error (.parse .valueError) :=
  ex_refused_parse
example : WellFormed exFieldsCircular ∧
    (orbitalOfLines (encode exFieldsCircular).1 (encode exFieldsCircular).2 : Except Refusal (Orbital ℝ)) =
      .error (.init .eccRange) := ⟨exFieldsCircular_wf, ex_refused_ecc⟩

/-- one instant (2008-09-21T00:00:00) in three representations: representable in each, same minutes by (2b) -/
example : C08L.Representable .s 1221955200000000 ∧ C08L.Representable .m 1221955200000000 ∧
    C08L.Representable .ns 1221955200000000 ∧ C08L.ticksOf .m 1221955200000000 = 20365920 := by decide

/-- the ISS 2008 element set of the test-suite is a well-formed record too (C02's example) -/
example : WellFormed C02.issFields ∧ (yy C02.issFields ≤ 56 ∨ 69 ≤ yy C02.issFields) := by decide

/-- the C05 guards of (4) are satisfiable: a line of sight that is neither vertical nor of zero length -/
example : ∃ r : V3 ℝ, (dot r (north 0 0) ≠ 0 ∨ dot r (east 0) ≠ 0) ∧ len r ≠ 0 := by
  refine ⟨⟨0, 0, 1⟩, Or.inl ?_, ?_⟩
  · simp [dot, north]
  · simp [len, normSq]

end PV.PipelineProps
