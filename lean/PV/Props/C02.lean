/-
  C02 — TLE fields are decoded exactly as encoded in their fixed columns.

  Model: PV.Model.TleParse.parse interpreting the column table PV.Gen.tleColumns that harness/extract.py
  regenerates from the AST of tlefile.Tle._parse_tle on every run.  Spec: PV.Spec.TleLayout (the standard
  layout as an encoder, the published column numbers, the values the printed characters denote).
  Core Lean only; every statement is for ALL well-formed records (no bound on anything).

  Float-valued attributes are compared as exact decimals `mant·10^exp` (what `float(text)` denotes);
  CPython's correctly rounded `float()` and the 1-ulp claim for `int(...)*10**-7` are checked by the
  harness (exhaustively for the 10⁷ eccentricity values in the thorough tier).
-/
import PV.Lemmas.C02Main
namespace PV.C02
open PV.Text PV.TleParse PV.Spec.TleLayout PV.Gen PV.Checksum

/-- Every row of the table extracted from the source has exactly the column range the published layout
    prescribes for that attribute (1-based inclusive `first..last` ↔ Python slice `[first-1 : last]`). -/
theorem table_matches_layout :
    ∀ c ∈ tleColumns, ∃ e ∈ layout, e.attr = c.attr ∧ e.line = c.line ∧ c.start + 1 = e.first ∧ c.stop = e.last :=
  table_rows_standard

/-- ... and every attribute of the layout is read by some row of the table. -/
theorem layout_covered : ∀ e ∈ layout, ∃ c ∈ tleColumns, c.attr = e.attr := by
  decide

/-- Slicing the concatenation of fixed-width columns (followed by anything, e.g. the check digit) at a
    column's offset returns that column. -/
theorem slice_concat_fields (cols : List (List Char)) (sfx : List Char) (k : Nat) (hk : k < cols.length) :
    slice (concatCols cols ++ sfx) (offset cols k) (offset cols k + cols[k].length) = cols[k] :=
  slice_concat_fields_at cols sfx k cols[k] (List.getElem?_eq_getElem hk)

/-- The published column numbers are those of the encoder: in the encoding of a well-formed record the
    range `first..last` of every layout entry holds exactly that attribute's printed text. -/
theorem encode_columns (f : Fields) (h : WellFormed f) :
    ∀ e ∈ layout, slice (if e.line = 1 then (encode f).1 else (encode f).2) (e.first - 1) e.last = column f e.attr := by
  have w := wfacts h
  intro e he
  simp only [layout, List.mem_cons, List.not_mem_nil, or_false] at he
  rcases he with rfl | rfl | rfl | rfl | rfl | rfl | rfl | rfl | rfl | rfl | rfl | rfl | rfl | rfl | rfl | rfl | rfl | rfl | rfl
  · exact col_satnumber w
  · exact col_classification w
  · exact col_id_launch_year w
  · exact col_id_launch_number w
  · exact col_id_launch_piece w
  · exact col_epoch_year w
  · exact col_epoch_day w
  · exact col_mean_motion_derivative w
  · exact col_mean_motion_sec_derivative w
  · exact col_bstar w
  · exact col_ephemeris_type w
  · exact col_element_number w
  · exact col_inclination w
  · exact col_right_ascension w
  · exact col_excentricity w
  · exact col_arg_perigee w
  · exact col_mean_anomaly w
  · exact col_mean_motion w
  · exact col_orbit w

/-- Both encoded lines have 69 characters. -/
theorem encode_length (f : Fields) (h : WellFormed f) : (encode f).1.length = 69 ∧ (encode f).2.length = 69 :=
  ⟨len_line1 (wfacts h), len_line2 (wfacts h)⟩

/-- MAIN: parsing the encoding of any well-formed record with the table extracted from the source gives, for
    every attribute, the value printed in its column: strings verbatim, integers by value (leading blanks or
    zeros), fixed-point fields with their printed point, the `s.dddddddd` derivative with its sign, the two
    `sdddddSe` fields as ±0.ddddd·10^(±e) (implied point, signed exponent), eccentricity as ddddddd·10⁻⁷, a
    blank ephemeris type as 0, and the epoch by the `%y` rule plus (day − 1) days in exact µs. -/
theorem parse_encode (f : Fields) (h : WellFormed f) :
    parse tleColumns (encode f).1 (encode f).2 = .ok (valuesOf f) :=
  parse_encode_facts (wfacts h)

/-- The encoded lines pass `strip` unchanged and the checksum, so the constructor `Tle(line1=, line2=)`
    (strip → checksum → parse) yields exactly those values. -/
theorem tle_encode (f : Fields) (h : WellFormed f) :
    tleOfLines (parse tleColumns) (encode f).1 (encode f).2 = .ok (.ok (valuesOf f)) := by
  have hs1 : strip (encode f).1 = (encode f).1 := strip_withCheck (c := '1') (by decide)
  have hs2 : strip (encode f).2 = (encode f).2 := strip_withCheck (c := '2') (by decide)
  unfold tleOfLines accept
  rw [hs1, hs2]
  have h1 : lineCheck (encode f).1 = .good := lineCheck_withCheck _
  have h2 : lineCheck (encode f).2 = .good := lineCheck_withCheck _
  rw [h1, h2]
  simp only [ofLine]
  rw [parse_encode f h]

/-- The epoch is 1 January of the two-digit year (00–56 ↦ 20yy, 69–99 ↦ 19yy) plus (day of year − 1) days,
    to the microsecond: `jan1(year) + (doy·10⁸ − 10⁸)·864 µs`, with 1 January taken from the independent
    Fliegel–Van Flandern day number.  (Years 57–68 follow `%y`, i.e. 20yy, and are outside the statement.) -/
theorem epoch_eq (f : Fields) (h : WellFormed f) (hy : yy f ≤ 56 ∨ 69 ≤ yy f) :
    ∃ t, parse tleColumns (encode f).1 (encode f).2 = .ok t ∧ t.epochUs = epochUs f := by
  refine ⟨valuesOf f, parse_encode f h, ?_⟩
  have hlt := yy_lt (wfacts h)
  show pivotEpochUs f = epochUs f
  unfold pivotEpochUs epochUs
  generalize yy f = y at hy hlt
  by_cases h56 : y ≤ 56
  · have h68 : (y : Int) ≤ 68 := by omega
    rw [if_pos h68, if_pos h56, yearStart_eq_jan1 _ (by omega) (by omega)]
  · have h68 : ¬ (y : Int) ≤ 68 := by omega
    rw [if_neg h68, if_neg h56, yearStart_eq_jan1 _ (by omega) (by omega)]

/-- The day-of-year part in plain terms: `doyE8 = day·10⁸ + fraction` with `1 ≤ day ≤ 366`. -/
theorem doyE8_split (f : Fields) (h : WellFormed f) :
    doyE8 f = padVal f.epochDayInt * 100000000 + natOfDigits f.epochDayFrac ∧
    1 ≤ padVal f.epochDayInt ∧ padVal f.epochDayInt ≤ 366 ∧ natOfDigits f.epochDayFrac < 100000000 := by
  have w := wfacts h
  refine ⟨?_, of_decide_eq_true w.day_lo, of_decide_eq_true w.day_hi, ?_⟩
  · unfold doyE8 padVal; rw [natOfDigits_append, w.l_edf]
  · have := natOfDigits_lt (digitsN_all w.edf); rw [w.l_edf] at this; exact this

/-- line1/line2 as stored are the inputs stripped of surrounding whitespace: whatever the constructor
    returns was computed from `strip l1`, `strip l2`. -/
theorem lines_stripped {β : Type} (p : List Char → List Char → β) (l1 l2 : List Char) (r : β)
    (h : tleOfLines p l1 l2 = .ok r) : r = p (strip l1) (strip l2) := by
  unfold tleOfLines at h
  split at h
  · exact (Except.ok.inj h).symm
  · cases h

/-- in particular the pair of stored lines itself -/
theorem stored_lines_stripped (l1 l2 a b : List Char)
    (h : tleOfLines (fun x y => (x, y)) l1 l2 = .ok (a, b)) : a = strip l1 ∧ b = strip l2 := by
  have := lines_stripped (fun x y => (x, y)) l1 l2 (a, b) h
  exact ⟨congrArg Prod.fst this, congrArg Prod.snd this⟩

/-! ### non-vacuity: the ISS 2008 element set of the test-suite -/

def issFields : Fields where
  satnum := "25544".toList
  classification := 'U'
  launchYear := "98".toList
  launchNumber := "067".toList
  launchPiece := "A  ".toList
  epochYear := "08".toList
  epochDayInt := "264".toList
  epochDayFrac := "51782528".toList
  ndotSign := '-'
  ndotFrac := "00002182".toList
  nddotSign := ' '
  nddotMant := "00000".toList
  nddotExpSign := '-'
  nddotExp := '0'
  bstarSign := '-'
  bstarMant := "11606".toList
  bstarExpSign := '-'
  bstarExp := '4'
  ephemeris := '0'
  elnum := " 292".toList
  inclInt := " 51".toList
  inclFrac := "6416".toList
  raanInt := "247".toList
  raanFrac := "4627".toList
  ecc := "0006703".toList
  argpInt := "130".toList
  argpFrac := "5360".toList
  manomInt := "325".toList
  manomFrac := "0288".toList
  mmInt := "15".toList
  mmFrac := "72125391".toList
  rev := "56353".toList

def iss1 : List Char := "1 25544U 98067A   08264.51782528 -.00002182  00000-0 -11606-4 0  2927".toList
def iss2 : List Char := "2 25544  51.6416 247.4627 0006703 130.5360 325.0288 15.72125391563537".toList

example : WellFormed issFields := by decide
example : encode issFields = (iss1, iss2) := by decide +kernel
example : yy issFields ≤ 56 ∨ 69 ≤ yy issFields := by decide

/-- the model, run on the literal lines with the generated table, gives the expected attributes
    (2008-09-20T12:25:40.104192 = 1221913540104192 µs) -/
example : parse tleColumns iss1 iss2 = .ok
    { satnumber := "25544".toList, classification := "U".toList, id_launch_year := "98".toList,
      id_launch_number := "067".toList, id_launch_piece := "A  ".toList, epoch_year := "08".toList,
      epoch_day := ⟨26451782528, -8⟩, mean_motion_derivative := ⟨-2182, -8⟩,
      mean_motion_sec_derivative := ⟨0, -5⟩, bstar := ⟨-11606, -9⟩, ephemeris_type := 0, element_number := 292,
      inclination := ⟨516416, -4⟩, right_ascension := ⟨2474627, -4⟩, excentricity := ⟨6703, -7⟩,
      arg_perigee := ⟨1305360, -4⟩, mean_anomaly := ⟨3250288, -4⟩, mean_motion := ⟨1572125391, -8⟩,
      orbit := 56353, epochUs := 1221913540104192 } := by decide +kernel

example : valuesOf issFields =
    { satnumber := "25544".toList, classification := "U".toList, id_launch_year := "98".toList,
      id_launch_number := "067".toList, id_launch_piece := "A  ".toList, epoch_year := "08".toList,
      epoch_day := ⟨26451782528, -8⟩, mean_motion_derivative := ⟨-2182, -8⟩,
      mean_motion_sec_derivative := ⟨0, -5⟩, bstar := ⟨-11606, -9⟩, ephemeris_type := 0, element_number := 292,
      inclination := ⟨516416, -4⟩, right_ascension := ⟨2474627, -4⟩, excentricity := ⟨6703, -7⟩,
      arg_perigee := ⟨1305360, -4⟩, mean_anomaly := ⟨3250288, -4⟩, mean_motion := ⟨1572125391, -8⟩,
      orbit := 56353, epochUs := 1221913540104192 } := by decide +kernel

example : epochUs issFields = 1221913540104192 := by decide +kernel

end PV.C02
