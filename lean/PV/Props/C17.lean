/-
  C17 — Downloads degrade per URI: HTTP errors drop only their own data; timeouts are loud.
  Theorems about PV.Model.Download (core Lean only), by induction over arbitrary lists: no bound on the number of
  sources, URIs or entries.  `okEntries`, `specDict`, `firstTimeout` (the statement's vocabulary) are defined in
  PV.Lemmas.C17:  NoTimeout a = no URI of any source times out; okEntries us = concatenation, in order, of the entries of the URIs answered 200;
  specDict a = every source of `a`, in order, with okEntries of its URIs; firstTimeout a = first timed-out URI.
  Hypothesis `Nodup (keys)`: `sources` is a Python dict (a YAML mapping), its keys are distinct.
-/
import PV.Model.Download
import PV.Lemmas.C17
namespace PV.C17
open PV.Download

variable {S U E : Type}

/-- the whole function in closed form: the first timeout as an error, else the statement's dict -/
theorem fetchPlain_closed_form [DecidableEq S] (a : List (S × List (U × Outcome E)))
    (hnd : (a.map (·.1)).Nodup) :
    fetchPlain a = match firstTimeout a with
      | some u => .timeoutError u
      | none => .dict (specDict a) := by
  unfold fetchPlain
  rw [sourceLoop_eq [] a hnd (by simp)]
  cases firstTimeout a <;> simp

/-- For every assignment without a timeout: the result is a dict whose keys are exactly the configured sources, in
    order (every configured source appears, also one whose URIs all failed or served nothing), and `result[source]`
    is exactly the in-order concatenation of the entries served by the source's successful URIs. -/
theorem plain_result [DecidableEq S] (a : List (S × List (U × Outcome E)))
    (hnd : (a.map (·.1)).Nodup) (hnt : NoTimeout a) :
    fetchPlain a = .dict (specDict a) ∧
    (specDict a).map (·.1) = a.map (·.1) ∧
    (∀ s us, (s, us) ∈ a → dictGet (specDict a) s = some (okEntries us)) := by
  refine ⟨?_, ?_, ?_⟩
  · rw [fetchPlain_closed_form a hnd, (firstTimeout_none_iff a).mpr hnt]
  · simp [specDict, Function.comp_def]
  · intro s us hm
    exact dictGet_specDict a hnd s us hm

/-- Changing the outcome of one URI from success (200, body `b`) to an HTTP error (any status `k ≠ 200`, any body)
    removes exactly that URI's entries from its own source and changes nothing else: not the other URIs of the
    source (before or after it), not the other sources, not the set or order of keys. -/
theorem http_error_local [DecidableEq S] (pre post : List (S × List (U × Outcome E))) (s : S)
    (us1 us2 : List (U × Outcome E)) (u : U) (b b' : Body E) (k : Nat) (hk : k ≠ 200)
    (hnd : ((pre ++ (s, us1 ++ (u, Outcome.resp 200 b) :: us2) :: post).map (·.1)).Nodup)
    (hnt : NoTimeout (pre ++ (s, us1 ++ (u, Outcome.resp 200 b) :: us2) :: post)) :
    fetchPlain (pre ++ (s, us1 ++ (u, Outcome.resp 200 b) :: us2) :: post)
      = .dict (specDict pre ++ (s, okEntries us1 ++ b.entries ++ okEntries us2) :: specDict post) ∧
    fetchPlain (pre ++ (s, us1 ++ (u, Outcome.resp k b') :: us2) :: post)
      = .dict (specDict pre ++ (s, okEntries us1 ++ okEntries us2) :: specDict post) := by
  have hnt0 := (firstTimeout_none_iff _).mpr hnt
  have h1 := (firstTimeout_append_none pre _).mp hnt0
  have hpost : firstTimeout post = none := by
    have := h1.2
    simp only [firstTimeout, List.findSome?_cons] at this ⊢
    cases hx : firstTimeoutUris (us1 ++ (u, Outcome.resp 200 b) :: us2) with
    | some t => simp [hx] at this
    | none => simpa [hx] using this
  have hmid : firstTimeoutUris (us1 ++ (u, Outcome.resp 200 b) :: us2) = none := by
    have := h1.2
    simp only [firstTimeout, List.findSome?_cons] at this
    cases hx : firstTimeoutUris (us1 ++ (u, Outcome.resp 200 b) :: us2) with
    | some t => simp [hx] at this
    | none => rfl
  have hmid' : firstTimeoutUris (us1 ++ (u, Outcome.resp k b') :: us2) = none := by
    have h2 := (firstTimeoutUris_append_none us1 _).mp hmid
    apply (firstTimeoutUris_append_none us1 _).mpr
    refine ⟨h2.1, ?_⟩
    have := h2.2
    simp only [firstTimeoutUris, List.findSome?_cons] at this ⊢
    exact this
  have hnt' : firstTimeout (pre ++ (s, us1 ++ (u, Outcome.resp k b') :: us2) :: post) = none := by
    apply (firstTimeout_append_none pre _).mpr
    refine ⟨h1.1, ?_⟩
    simp only [firstTimeout, List.findSome?_cons, hmid']
    exact hpost
  have hnd' : ((pre ++ (s, us1 ++ (u, Outcome.resp k b') :: us2) :: post).map (·.1)).Nodup := by
    simpa using hnd
  constructor
  · rw [fetchPlain_closed_form _ hnd, hnt0]
    simp [specDict, okEntries_split, contrib]
  · rw [fetchPlain_closed_form _ hnd', hnt']
    simp [specDict, okEntries_split, contrib, hk]

/-- Any timeout anywhere makes the call raise the TLE-download timeout error — for the first URI (in request order)
    that timed out — and never return a dict, however many URIs succeeded before it.  No assumption on the keys. -/
theorem timeout_is_loud [DecidableEq S] (a : List (S × List (U × Outcome E)))
    (h : ∃ s us u, (s, us) ∈ a ∧ (u, Outcome.timeout) ∈ us) :
    ∃ u, firstTimeout a = some u ∧ fetchPlain a = .timeoutError u ∧ ∀ d, fetchPlain a ≠ .dict d := by
  have hs := (firstTimeout_isSome_iff a).mpr h
  cases hft : firstTimeout a with
  | none => simp [hft] at hs
  | some u =>
    have := sourceLoop_timeout ([] : List (S × List E)) a u hft
    refine ⟨u, rfl, this, ?_⟩
    intro d hd
    unfold fetchPlain at hd
    rw [this] at hd
    cases hd

/-- conversely the timeout error is raised only when some URI did time out -/
theorem timeout_only_if_timed_out [DecidableEq S] (a : List (S × List (U × Outcome E)))
    (hnd : (a.map (·.1)).Nodup) (u : U) (h : fetchPlain a = .timeoutError u) :
    ∃ s us u', (s, us) ∈ a ∧ (u', Outcome.timeout) ∈ us := by
  apply (firstTimeout_isSome_iff a).mp
  rw [fetchPlain_closed_form a hnd] at h
  cases hft : firstTimeout a with
  | none => simp [hft] at h
  | some t => rfl

/-- the downloader not configured at all: the empty dict -/
theorem not_configured_empty [DecidableEq S] : fetchPlainCfg (none : Option (List (S × List (U × Outcome E)))) = .dict [] := rfl

/-- Space-Track: a failed login yields [] and no query is issued; a failed query yields []; a success yields all
    served entries (after exactly one login and one query). -/
theorem spacetrack_cases (login query : Nat) (body : Body E) :
    (login ≠ 200 → fetchSpacetrack login query body = ([], [Req.login])) ∧
    (login = 200 → query ≠ 200 → fetchSpacetrack login query body = ([], [Req.login, Req.query])) ∧
    (login = 200 → query = 200 → fetchSpacetrack login query body = (body.entries, [Req.login, Req.query])) := by
  unfold fetchSpacetrack
  refine ⟨?_, ?_, ?_⟩
  · intro h; simp [h]
  · intro h1 h2; simp [h1, h2]
  · intro h1 h2; simp [h1, h2]

/-! ### non-vacuity -/

def demo : List (Nat × List (Nat × Outcome Nat)) :=
  [ (1, [(10, .ok (.tles [100, 101])), (11, .resp 404 (.tles [999])), (12, .ok .nonTle), (13, .ok (.tles [102]))]),
    (2, [(20, .resp 500 .nonTle)]),
    (3, [(30, .ok (.tles [])), (31, .ok (.tles [300]))]) ]

example : (demo.map (·.1)).Nodup := by decide
example : NoTimeout demo := (firstTimeout_none_iff demo).mp (by decide)
example : fetchPlain demo = .dict [(1, [100, 101, 102]), (2, []), (3, [300])] := by decide
example : fetchPlain (demo ++ [(4, [(40, .ok (.tles [400])), (41, .timeout), (42, .timeout)])]) = .timeoutError 41 := by decide
example : fetchSpacetrack 401 200 (.tles [1, 2]) = ([], [Req.login]) := by decide
example : fetchSpacetrack 200 200 (.tles [1, 2]) = ([1, 2], [Req.login, Req.query]) := by decide

end PV.C17
