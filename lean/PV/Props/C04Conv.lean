/-
  C04Conv — convergence (hence termination) of the geodetic-latitude fixed-point iteration
  (stretch theorem `lat_iteration_contracts` of DESIGN.md section 5, C04 "Partial"; also used by
  C07 "converting pixel positions to lon/lat/alt always terminates" and C14 geodetic helpers).

  Theorems over ℝ about the model's own definitions `PV.Look.latStep` / `latLoop` / `lonLatAlt` /
  `lonLatAltKm` (Orbital.get_lonlatalt, geoloc.get_lonlatalt: exit test `|lat − lat2| < 1e-10`) and
  `PV.Geoloc.geodStep` / `geodLoop` / `geodeticLat` / `subpoint` (geoloc.geodetic_lat: exit test
  `np.allclose`, `|a − b| ≤ 1e-8 + 1e-5 |b|`).

  Hypothesis on the position: distance from the earth's centre at least 0.99 equatorial radii
  (`0.99² ≤ r² + z²`).  Every point on or above the WGS-84 ellipsoid qualifies (its surface has
  radius ≥ b = 0.99665 a: `on_or_outside_default_ellipsoid`), in particular every satellite position
  and every pixel on the ellipsoid.  The polar axis `r = 0` is INCLUDED everywhere (there
  `atan2(u, 0) = ±π/2` exactly and the loop exits in its first pass, `latLoop_pole`; the altitude
  `r cos lat + z sin lat − √(1 − e² sin² lat)` is regular there, `altitude_at_pole`).

  What remains unproved: the float execution of the loop (rounding in the body; measured ≤ 5 passes)
  and NaN inputs (`np.isnan` exit of geoloc.get_lonlatalt), which are outside the ℝ reading.
-/
import PV.Props.C04
import PV.Lemmas.C04ContractRound
import PV.Lemmas.C04ContractGeod
namespace PV.C04Conv
open PV PV.Look PV.Spec.Topo PV.C04 PV.C05 PV.C04C Real

/-! ### (1) the loop body is a contraction -/

/-- `|T(φ₁) − T(φ₂)| ≤ 0.007 |φ₁ − φ₂|` for the body `T(φ) = atan2(z + c(φ) e² sin φ, r)` of
    `get_lonlatalt`, for all real `φ₁ φ₂`, every `r ≥ 0` and `r² + z² ≥ 0.99²` (earth radii) -/
theorem latStep_lipschitz (z r φ₁ φ₂ : ℝ) (hr : 0 ≤ r) (hp : 0.99 ^ 2 ≤ r ^ 2 + z ^ 2) :
    |(latStep z r φ₁).1 - (latStep z r φ₂).1| ≤ 7 / 1000 * |φ₁ - φ₂| :=
  latStep_lipschitz' hr hp φ₁ φ₂

/-- the first pass moves the initial (geocentric) latitude `atan2(z, r)` by at most 0.007 rad -/
theorem latStep_first_pass (z r : ℝ) (hr : 0 ≤ r) (hp : 0.99 ^ 2 ≤ r ^ 2 + z ^ 2) :
    |(latStep z r (Num.atan2 z r)).1 - Num.atan2 z r| ≤ 7 / 1000 := by
  rw [r_atan2]; exact latStep_first_step hr hp _

/-! ### (2) termination -/

/-- from the code's initial value the loop returns after at most 5 passes (`0.007⁵ < 1e-10`),
    for every fuel ≥ 5 -/
theorem latLoop_terminates (z r : ℝ) (hr : 0 ≤ r) (hp : 0.99 ^ 2 ≤ r ^ 2 + z ^ 2) (fuel : ℕ)
    (hf : 5 ≤ fuel) :
    ∃ lat c n, latLoop z r fuel (Num.atan2 z r) = some (lat, c, n) ∧ 1 ≤ n ∧ n ≤ 5 := by
  rw [r_atan2]; exact latLoop_terminates_init hr hp hf

/-- from any start in `[−π/2, π/2]`: at most 6 passes -/
theorem latLoop_terminates_any_start (z r lat0 : ℝ) (hr : 0 ≤ r) (hp : 0.99 ^ 2 ≤ r ^ 2 + z ^ 2)
    (h0 : |lat0| ≤ π / 2) (fuel : ℕ) (hf : 6 ≤ fuel) :
    ∃ lat c n, latLoop z r fuel lat0 = some (lat, c, n) ∧ 1 ≤ n ∧ n ≤ 6 :=
  latLoop_terminates_any hr hp hf h0

/-- `Orbital.get_lonlatalt` returns (≤ 5 passes) for every normalised position with `|pn| ≥ 0.99`,
    polar axis included -/
theorem lonLatAlt_terminates (d : ℝ) (pn : V3 ℝ) (hp : 0.99 ^ 2 ≤ pn.x ^ 2 + pn.y ^ 2 + pn.z ^ 2)
    (fuel : ℕ) (hf : 5 ≤ fuel) :
    ∃ lon lat alt n, lonLatAlt d pn fuel = some (lon, lat, alt, n) ∧ 1 ≤ n ∧ n ≤ 5 := by
  have hr2 : √(pn.x ^ 2 + pn.y ^ 2) ^ 2 = pn.x ^ 2 + pn.y ^ 2 := Real.sq_sqrt (by positivity)
  obtain ⟨lat, c, n, h, h1, h5⟩ := latLoop_terminates_init (z := pn.z) (Real.sqrt_nonneg _)
    (by rw [hr2]; exact hp) hf
  rw [lonLatAlt_unfold, h]
  exact ⟨_, _, _, _, rfl, h1, h5⟩

/-- … in particular with the model's default fuel (200) the result is never `none` -/
theorem lonLatAlt_defined (d : ℝ) (pn : V3 ℝ) (hp : 0.99 ^ 2 ≤ pn.x ^ 2 + pn.y ^ 2 + pn.z ^ 2) :
    lonLatAlt d pn ≠ none := by
  obtain ⟨_, _, _, _, h, -⟩ := lonLatAlt_terminates d pn hp 200 (by norm_num)
  rw [h]; exact Option.some_ne_none _

/-- `geoloc.get_lonlatalt(pos_km)`: returns for every position at least `0.99 · 6378.135 km` from the
    centre -/
theorem lonLatAltKm_defined (d : ℝ) (p : V3 ℝ)
    (hp : (0.99 * 6378.135) ^ 2 ≤ p.x ^ 2 + p.y ^ 2 + p.z ^ 2) : lonLatAltKm d p ≠ none := by
  rw [module_eq_method]
  apply lonLatAlt_defined
  simp only [Gen.orbital_XKMPER, r_div, r_ofSci]
  rw [div_pow, div_pow, div_pow, ← add_div, ← add_div, le_div_iff₀ (by norm_num)]
  rw [← mul_pow]; exact hp

/-- on the polar axis (`r = 0`, excluded nowhere above): `atan2(z, 0) = ±π/2` is reproduced exactly by
    the body, so the loop exits in its first pass -/
theorem latLoop_pole (z : ℝ) (hz : 0.99 ^ 2 ≤ z ^ 2) (fuel : ℕ) :
    latLoop z 0 (fuel + 1) (Num.atan2 z 0) =
        some (Num.atan2 z 0, (latStep z 0 (Num.atan2 z 0)).2, 1) ∧
      (Num.atan2 z (0 : ℝ) = π / 2 ∨ Num.atan2 z (0 : ℝ) = -(π / 2)) := by
  rw [r_atan2]; exact latLoop_pole' hz fuel

/-! ### (3) the value returned -/

/-- the body has exactly one fixed point (Banach, on ℝ) -/
theorem latStep_fixpoint_exists_unique (z r : ℝ) (hr : 0 ≤ r) (hp : 0.99 ^ 2 ≤ r ^ 2 + z ^ 2) :
    ∃! φ : ℝ, (latStep z r φ).1 = φ := latStep_fixpoint_unique hr hp

/-- whatever the start and the fuel: a returned latitude is within `7/993 · 1e-10 < 7.1e-13 rad` of the
    fixed point `φs`, and is itself a fixed point up to `7e-13` -/
theorem latLoop_result_close_to_fixpoint (z r : ℝ) (hr : 0 ≤ r) (hp : 0.99 ^ 2 ≤ r ^ 2 + z ^ 2)
    (fuel : ℕ) (lat0 lat c : ℝ) (n : ℕ) (h : latLoop z r fuel lat0 = some (lat, c, n))
    (φs : ℝ) (hfix : (latStep z r φs).1 = φs) :
    |lat - φs| ≤ 7 / 993 * 1e-10 ∧ |(latStep z r lat).1 - lat| ≤ 7 / 1000 * 1e-10 :=
  latLoop_exit_close hr hp h hfix

/-! ### (4) round trip of the returned value (no fixed-point hypothesis), polar axis included -/

/-- If `get_lonlatalt` returns (lon°, lat°, alt km) for the normalised position `pn` (km / XKMPER), off the
    polar axis or at least 0.99 from the centre (then the axis is included), converting back with the WGS-84
    formulas and the rotation by GMST gives `A · pn` up to `A · 6.8e-13` (4 µm) per component: the residual of
    the exit test `|lat − lat2| < 1e-10`. -/
theorem subpoint_roundtrip_residual (d : ℝ) (pn : V3 ℝ)
    (h0 : (pn.x ≠ 0 ∨ pn.y ≠ 0) ∨ 0.99 ^ 2 ≤ pn.x ^ 2 + pn.y ^ 2 + pn.z ^ 2) (fuel : ℕ)
    (lon lat alt : ℝ) (n : ℕ) (h : lonLatAlt d pn fuel = some (lon, lat, alt, n)) :
    |(geodeticToCartesian wgs84A wgs84F (radOf lat) (Astro.gmst d + radOf lon) alt).x
        - wgs84A * pn.x| ≤ wgs84A * 6.8e-13 ∧
    |(geodeticToCartesian wgs84A wgs84F (radOf lat) (Astro.gmst d + radOf lon) alt).y
        - wgs84A * pn.y| ≤ wgs84A * 6.8e-13 ∧
    |(geodeticToCartesian wgs84A wgs84F (radOf lat) (Astro.gmst d + radOf lon) alt).z
        - wgs84A * pn.z| ≤ wgs84A * 6.8e-13 := by
  rw [lonLatAlt_unfold, Option.map_eq_some_iff] at h
  obtain ⟨⟨l, c, m⟩, hloop, hres⟩ := h
  simp only [Prod.mk.injEq] at hres
  obtain ⟨rfl, rfl, rfl, -⟩ := hres
  have hπ := pi_ne_zero
  have e1 : radOf (l * (180 / π)) = l := by unfold radOf; field_simp
  have e2 : ∀ w : ℝ, radOf (w * (180 / π)) = w := fun w => by unfold radOf; field_simp
  rw [e1, e2]
  exact roundtrip_of_loop d pn h0 hloop

/-- C04's round-trip clause for the ℝ model, without any fixed-point hypothesis and with the polar axis
    included: the reconstructed point is within `2e-6` of the length of the true position `XKMPER · pn` (km) —
    dominated by the unit mismatch `A/XKMPER − 1 = 3.14e-7` (`PV.C04.unit_mismatch`), the loop residual adds
    `< 7e-13`. -/
theorem subpoint_roundtrip_2e6 (d : ℝ) (pn : V3 ℝ)
    (hp : 0.99 ^ 2 ≤ pn.x ^ 2 + pn.y ^ 2 + pn.z ^ 2) (fuel : ℕ)
    (lon lat alt : ℝ) (n : ℕ) (h : lonLatAlt d pn fuel = some (lon, lat, alt, n)) :
    ((geodeticToCartesian wgs84A wgs84F (radOf lat) (Astro.gmst d + radOf lon) alt).x
        - 6378.135 * pn.x) ^ 2 +
    ((geodeticToCartesian wgs84A wgs84F (radOf lat) (Astro.gmst d + radOf lon) alt).y
        - 6378.135 * pn.y) ^ 2 +
    ((geodeticToCartesian wgs84A wgs84F (radOf lat) (Astro.gmst d + radOf lon) alt).z
        - 6378.135 * pn.z) ^ 2
      ≤ (2e-6 * 6378.135) ^ 2 * (pn.x ^ 2 + pn.y ^ 2 + pn.z ^ 2) := by
  obtain ⟨hx, hy, hz⟩ := subpoint_roundtrip_residual d pn (Or.inr hp) fuel lon lat alt n h
  exact roundtrip_2e6_of_components hx hy hz hp

/-- termination and round trip together: for every position with `|pn| ≥ 0.99` (polar axis included) and
    every fuel ≥ 5, `get_lonlatalt` returns within 5 passes a triple that converts back to the position
    within `2e-6` of its length -/
theorem subpoint_returns_and_roundtrips (d : ℝ) (pn : V3 ℝ)
    (hp : 0.99 ^ 2 ≤ pn.x ^ 2 + pn.y ^ 2 + pn.z ^ 2) (fuel : ℕ) (hf : 5 ≤ fuel) :
    ∃ lon lat alt n, lonLatAlt d pn fuel = some (lon, lat, alt, n) ∧ n ≤ 5 ∧
      ((geodeticToCartesian wgs84A wgs84F (radOf lat) (Astro.gmst d + radOf lon) alt).x
          - 6378.135 * pn.x) ^ 2 +
      ((geodeticToCartesian wgs84A wgs84F (radOf lat) (Astro.gmst d + radOf lon) alt).y
          - 6378.135 * pn.y) ^ 2 +
      ((geodeticToCartesian wgs84A wgs84F (radOf lat) (Astro.gmst d + radOf lon) alt).z
          - 6378.135 * pn.z) ^ 2
        ≤ (2e-6 * 6378.135) ^ 2 * (pn.x ^ 2 + pn.y ^ 2 + pn.z ^ 2) := by
  obtain ⟨lon, lat, alt, n, h, -, h5⟩ := lonLatAlt_terminates d pn hp fuel hf
  exact ⟨lon, lat, alt, n, h, h5, subpoint_roundtrip_2e6 d pn hp fuel lon lat alt n h⟩

/-- the model's result exactly on the polar axis (`x = y = 0`, `|z| ≥ 0.99`): one pass, latitude ±90°, and the
    altitude is the height above the pole, `(|z| − (1 − f)) · A` (`1 − f = b/a`), not `−c · A` as with the
    former `r / cos lat − c` -/
theorem altitude_at_pole (d z : ℝ) (hz : 0.99 ^ 2 ≤ z ^ 2) (fuel : ℕ) :
    ∃ lon, lonLatAlt d ⟨0, 0, z⟩ (fuel + 1) =
      some (lon, (if 0 < z then 90 else -90), (|z| - (1 - wgs84F)) * wgs84A, 1) := by
  have hF : √(1 - ecc2 wgs84F * 1) = 1 - wgs84F := by
    rw [mul_one, ← one_sub_F_sq]
    exact Real.sqrt_sq (by unfold wgs84F; norm_num)
  have h00 : √((0 : ℝ) ^ 2 + 0 ^ 2) = 0 := by norm_num
  have hπ := pi_ne_zero
  refine ⟨wrapLon (Complex.arg ⟨0 * 6378.135, 0 * 6378.135⟩ - Astro.gmst d) * (180 / π), ?_⟩
  rw [lonLatAlt_unfold]
  simp only [h00]
  obtain ⟨hloop, -⟩ := latLoop_pole' hz fuel
  rw [hloop]
  simp only [Option.map_some, altitude_formula, Option.some.injEq, Prod.mk.injEq, true_and, and_true]
  rcases lt_or_gt_of_ne (show z ≠ 0 by intro h; rw [h] at hz; norm_num at hz) with hneg | hpos
  · rw [arg_zero_neg hneg, if_neg (not_lt.2 hneg.le), sin_neg, sin_pi_div_two, abs_of_neg hneg]
    constructor
    · field_simp; norm_num
    · have : (-1 : ℝ) ^ 2 = 1 := by norm_num
      rw [this, hF]; ring
  · rw [arg_zero_pos hpos, if_pos hpos, sin_pi_div_two, abs_of_pos hpos]
    constructor
    · field_simp; norm_num
    · rw [one_pow, hF]; ring

/-! ### (5) the same for `geoloc.geodetic_lat` (km, `np.allclose` exit) -/

/-- `geodStep` is a contraction with factor 0.007 for every ellipsoid with `0 < e² ≤ 0.0066944` and every
    point at least `0.99 a` from the centre -/
theorem geodStep_lipschitz (a b z r φ₁ φ₂ : ℝ) (ha : 0 < a)
    (he : 0 < (a * a - b * b) / (a * a) ∧ (a * a - b * b) / (a * a) ≤ 0.0066944)
    (hr : 0 ≤ r) (hp : (0.99 * a) ^ 2 ≤ r ^ 2 + z ^ 2) :
    |Geoloc.geodStep a b z r φ₁ - Geoloc.geodStep a b z r φ₂| ≤ 7 / 1000 * |φ₁ - φ₂| :=
  geodStep_lipschitz' ha he hr hp φ₁ φ₂

/-- the default ellipsoid of geoloc.py meets the eccentricity hypothesis -/
theorem default_ellipsoid_admissible :
    0 < ((Geoloc.A : ℝ) * Geoloc.A - Geoloc.B * Geoloc.B) / (Geoloc.A * Geoloc.A) ∧
      ((Geoloc.A : ℝ) * Geoloc.A - Geoloc.B * Geoloc.B) / (Geoloc.A * Geoloc.A) ≤ 0.0066944 :=
  eccOK_default

/-- every point on or outside the default ellipsoid is at least `0.99 A` from the centre -/
theorem on_or_outside_default_ellipsoid (x y z : ℝ)
    (h : 1 ≤ x ^ 2 / (Geoloc.A : ℝ) ^ 2 + y ^ 2 / (Geoloc.A : ℝ) ^ 2 + z ^ 2 / (Geoloc.B : ℝ) ^ 2) :
    (0.99 * (Geoloc.A : ℝ)) ^ 2 ≤ x ^ 2 + y ^ 2 + z ^ 2 := by
  rw [A_val, B_val] at *
  exact outside_ellipsoid (by norm_num) (by norm_num) (by norm_num) (by norm_num) h

/-- `geodetic_lat(point)` (default A, B) returns after at most 4 passes (`0.007⁴ < 1e-8`) for every point
    at least `0.99 A` from the centre, polar axis included -/
theorem geodeticLat_terminates (p : V3 ℝ)
    (hp : (0.99 * (Geoloc.A : ℝ)) ^ 2 ≤ p.x ^ 2 + p.y ^ 2 + p.z ^ 2) (fuel : ℕ) (hf : 4 ≤ fuel) :
    ∃ lat n, Geoloc.geodeticLat p Geoloc.A Geoloc.B fuel = some (lat, n) ∧ 1 ≤ n ∧ n ≤ 4 := by
  have hA : (0 : ℝ) < Geoloc.A := by rw [A_val]; norm_num
  have hs : p.x * p.x + p.y * p.y = p.x ^ 2 + p.y ^ 2 := by ring
  have hr2 : √(p.x ^ 2 + p.y ^ 2) ^ 2 = p.x ^ 2 + p.y ^ 2 := Real.sq_sqrt (by positivity)
  simp only [Geoloc.geodeticLat, r_sqrt, r_mul, r_atan2, hs]
  exact geodLoop_terminates_init hA eccOK_default (Real.sqrt_nonneg _) (by rw [hr2]; exact hp) hf

/-- hence `subpoint` is defined there (default fuel 200) -/
theorem subpoint_defined (q : V3 ℝ) (a b : ℝ)
    (hp : (0.99 * (Geoloc.A : ℝ)) ^ 2 ≤ q.x ^ 2 + q.y ^ 2 + q.z ^ 2) :
    Geoloc.subpoint q a b ≠ none := by
  obtain ⟨lat, n, h, -⟩ := geodeticLat_terminates q hp 200 (by norm_num)
  unfold Geoloc.subpoint
  rw [h]; exact Option.some_ne_none _

theorem geodStep_fixpoint_exists_unique (z r : ℝ) (hr : 0 ≤ r)
    (hp : (0.99 * (Geoloc.A : ℝ)) ^ 2 ≤ r ^ 2 + z ^ 2) :
    ∃! φ : ℝ, Geoloc.geodStep Geoloc.A Geoloc.B z r φ = φ :=
  geodStep_fixpoint_unique (by rw [A_val]; norm_num) eccOK_default hr hp

/-- the latitude `geodetic_lat` returns is within `1.2e-7 rad` of the fixed point (the `allclose` exit
    test `1e-8 + 1e-5 |φ|` is that loose; 1.2e-7 rad ≈ 0.8 m on the ground) -/
theorem geodeticLat_result_close_to_fixpoint (z r : ℝ) (hr : 0 ≤ r)
    (hp : (0.99 * (Geoloc.A : ℝ)) ^ 2 ≤ r ^ 2 + z ^ 2) (fuel : ℕ) (lat : ℝ) (n : ℕ)
    (h : Geoloc.geodLoop Geoloc.A Geoloc.B z r fuel (Num.atan2 z r) = some (lat, n))
    (φs : ℝ) (hfix : Geoloc.geodStep Geoloc.A Geoloc.B z r φs = φs) : |lat - φs| ≤ 1.2e-7 := by
  rw [r_atan2] at h
  exact geodLoop_exit_close (by rw [A_val]; norm_num) eccOK_default hr hp
    (Complex.abs_arg_le_pi_div_two_iff.2 hr) h hfix

/-! ### non-vacuity -/

/-- an ISS-like normalised position (|pn| ≈ 1.078, i.e. ≈ 500 km up) meets every hypothesis above -/
example : (0.99 : ℝ) ^ 2 ≤ (⟨0.7, 0.5, 0.65⟩ : V3 ℝ).x ^ 2 + (⟨0.7, 0.5, 0.65⟩ : V3 ℝ).y ^ 2
      + (⟨0.7, 0.5, 0.65⟩ : V3 ℝ).z ^ 2 := by norm_num

/-- … and so does a position exactly above the north pole (7000 km / XKMPER) -/
example : (0.99 : ℝ) ^ 2 ≤ (⟨0, 0, 1.0975⟩ : V3 ℝ).x ^ 2 + (⟨0, 0, 1.0975⟩ : V3 ℝ).y ^ 2
      + (⟨0, 0, 1.0975⟩ : V3 ℝ).z ^ 2 := by norm_num

/-- … so for it `get_lonlatalt` returns and round-trips -/
example (d : ℝ) : lonLatAlt d (⟨0.7, 0.5, 0.65⟩ : V3 ℝ) ≠ none :=
  lonLatAlt_defined d _ (by norm_num)

/-- the contraction hypotheses with `r > 0` and on the polar axis -/
example : (0 : ℝ) ≤ 0.86 ∧ (0.99 : ℝ) ^ 2 ≤ 0.86 ^ 2 + 0.65 ^ 2 := by constructor <;> norm_num
example : (0 : ℝ) ≤ 0 ∧ (0.99 : ℝ) ^ 2 ≤ 0 ^ 2 + (-1.1) ^ 2 := by constructor <;> norm_num

/-- a satellite position in km for `geodetic_lat` / `subpoint` -/
example : Geoloc.subpoint (⟨0, 0, 7000⟩ : V3 ℝ) Geoloc.A Geoloc.B ≠ none :=
  subpoint_defined _ _ _ (by rw [A_val]; norm_num)

/-- a point of the ellipsoid's surface (the equator) meets `on_or_outside_default_ellipsoid` -/
example : (1 : ℝ) ≤ (6378.137 : ℝ) ^ 2 / (Geoloc.A : ℝ) ^ 2 + 0 ^ 2 / (Geoloc.A : ℝ) ^ 2
    + 0 ^ 2 / (Geoloc.B : ℝ) ^ 2 := by
  rw [A_val, B_val]; norm_num

end PV.C04Conv
