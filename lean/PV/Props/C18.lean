/-
  C18 — Queries are pure: independent of call history, aliasing and concurrent use.

  Theorems about PV.Model.Cache (core Lean only).  They hold for every value domain, every TLE `e`, every
  list of calls (ANY number of threads), every schedule (ANY length, any order, threads may be starved or
  scheduled after they returned), and for an object whose cache is in any empty-or-canonical state `sh`
  (`emptyCache` = a fresh object).  `Inv`, `SlotsOK`, `EventOK` are defined in PV/Lemmas/C18Inv.lean.
  What is trusted: that orbital.py behaves like the model (checked by trace correspondence on real threads),
  atomicity of one attribute load/store under the GIL, purity of numpy.
-/
import PV.Lemmas.C18Run
namespace PV.C18
open PV.Cache

variable {E A T P R : Type}

/-! ### the invariant -/

/-- The invariant holds when calls start on an object whose slots are empty or canonical (a fresh object
    in particular). -/
theorem inv_init (sem : Sem E A T P R) (e : E) (sh : Shared T P) (qs : List (Kind × A)) (h : SlotsOK sem e sh) :
    Inv sem (start e sh qs) := inv_start sem e sh qs h

/-- "Each slot is empty or holds the canonical value, and a thread past its own store sees that slot set
    (and holds only canonical values in its locals)" is preserved by every step of every thread. -/
theorem inv_step (sem : Sem E A T P R) (s : State E A T P R) (i : Nat) (h : Inv sem s) : Inv sem (step sem s i) :=
  inv_step' sem s i h

/-- ... hence it holds in every reachable state: any number of threads, any schedule. -/
theorem inv_reachable (sem : Sem E A T P R) (e : E) (sh : Shared T P) (qs : List (Kind × A)) (sched : List Nat)
    (h : SlotsOK sem e sh) : Inv sem (run sem (start e sh qs) sched) :=
  inv_run sem sched _ (inv_start sem e sh qs h)

/-! ### concurrency -/

/-- Under any interleaving no AttributeError escapes the handler: a load after the handler's stores never
    finds its slot empty. -/
theorem no_attribute_error_escapes (sem : Sem E A T P R) (e : E) (sh : Shared T P) (qs : List (Kind × A))
    (sched : List Nat) (h : SlotsOK sem e sh) :
    ∀ th ∈ (run sem (start e sh qs) sched).threads, th.pc ≠ .raised := by
  intro th hth hr
  have := (inv_reachable sem e sh qs sched h).2 th hth
  rw [hr] at this
  exact this

/-- The reference call (fresh object, single thread) returns, and its value is a function of the TLE and the
    arguments only. -/
theorem fresh_result (sem : Sem E A T P R) (e : E) (q : Kind × A) : fresh sem e q = some (sem.answer e q) :=
  fresh_eq sem e q

/-- Under ANY interleaving of ANY number of concurrent calls, a thread that has returned is the call it was
    started as and returned exactly what that call returns on a fresh object in a single thread. -/
theorem any_interleaving_same_result (sem : Sem E A T P R) (e : E) (sh : Shared T P) (qs : List (Kind × A))
    (sched : List Nat) (h : SlotsOK sem e sh) (i : Nat) (r : R)
    (hr : resultOf (run sem (start e sh qs) sched) i = some r) :
    ∃ q, qs[i]? = some q ∧ fresh sem e q = some r := by
  obtain ⟨th, hth, hpc⟩ := resultOf_some _ i r hr
  have hq := run_start_query sem e sh qs sched i th hth
  refine ⟨(th.kind, th.args), hq, ?_⟩
  have := (inv_reachable sem e sh qs sched h).2 th (List.mem_of_getElem? hth)
  rw [hpc, run_tle] at this
  simp only [PCOK] at this
  rw [fresh_eq, this]
  rfl

/-- Every thread returns within `maxSteps` (= 10) of its own steps, whatever the others do in between. -/
theorem finishes_within (sem : Sem E A T P R) (e : E) (sh : Shared T P) (qs : List (Kind × A)) (sched : List Nat)
    (h : SlotsOK sem e sh) (i : Nat) (q : Kind × A) (hq : qs[i]? = some q) (hc : maxSteps ≤ sched.count i) :
    resultOf (run sem (start e sh qs) sched) i = fresh sem e q ∧ (fresh sem e q).isSome := by
  rw [fresh_eq]
  exact ⟨finished_of_count sem e sh qs sched i q h hq hc, rfl⟩

/-- Every load/store event of every reachable trace carries canonical values: stores write the canonical value
    through the store statement the TLE selects, successful loads read the canonical value. -/
theorem trace_canonical (sem : Sem E A T P R) (e : E) (sh : Shared T P) (qs : List (Kind × A)) (sched : List Nat)
    (h : SlotsOK sem e sh) : ∀ ev ∈ (run sem (start e sh qs) sched).trace, EventOK sem e ev :=
  trace_run sem sched (start e sh qs) (inv_start sem e sh qs h) (by intro ev hev; cases hev)

/-! ### call history -/

/-- Any sequence of completed queries on one object returns exactly what each query returns on a fresh object,
    and leaves the cache empty-or-canonical. -/
theorem history_independent (sem : Sem E A T P R) (e : E) (qs : List (Kind × A)) :
    (history sem e emptyCache qs).2 = qs.map (fresh sem e) ∧ SlotsOK sem e (history sem e emptyCache qs).1 :=
  history_ok sem e qs emptyCache (slotsOK_empty sem e)

/-- The same after an arbitrary concurrent phase, finished or not: whatever cache state the threads left behind,
    later queries return fresh results. -/
theorem history_after_any_run (sem : Sem E A T P R) (e : E) (qs0 : List (Kind × A)) (sched : List Nat)
    (qs : List (Kind × A)) :
    (history sem e (run sem (init e qs0) sched).sh qs).2 = qs.map (fresh sem e) := by
  have h := (inv_reachable sem e emptyCache qs0 sched (slotsOK_empty sem e)).1
  rw [run_tle] at h
  exact (history_ok sem e qs _ h).1

/-! ### frame -/

/-- A step never touches the TLE, the number of threads, the kind or the arguments of any thread, nor anything
    of any other thread (its program counter and locals included). -/
theorem frame (sem : Sem E A T P R) (s : State E A T P R) (i : Nat) :
    (step sem s i).tle = s.tle ∧ (step sem s i).threads.length = s.threads.length ∧
    (∀ j : Nat, ((step sem s i).threads[j]?).map (fun (t : Thread A T P R) => (t.kind, t.args)) = (s.threads[j]?).map (fun (t : Thread A T P R) => (t.kind, t.args))) ∧
    (∀ j, j ≠ i → (step sem s i).threads[j]? = s.threads[j]?) :=
  ⟨step_tle sem s i, step_length sem s i, step_query sem s i, fun j h => step_other sem s i j h⟩

/-- A slot is written only by the stepping thread and only at the two store steps. -/
theorem frame_step (sem : Sem E A T P R) (s : State E A T P R) (i : Nat) :
    ((step sem s i).sh.anTime ≠ s.sh.anTime → ∃ th, s.threads[i]? = some th ∧ (th.pc = .storeTn ∨ th.pc = .storeTe)) ∧
    ((step sem s i).sh.anPeriod ≠ s.sh.anPeriod → ∃ th t1 t2, s.threads[i]? = some th ∧ th.pc = .storeP t1 t2) := by
  cases hth : s.threads[i]? with
  | none => rw [step_none sem s i hth]; exact ⟨fun h => absurd rfl h, fun h => absurd rfl h⟩
  | some th =>
    rw [(step_self sem s i th hth).2.1]
    obtain ⟨k, a, pc⟩ := th
    cases pc <;> simp only [stepThread] <;> (try split) <;> simp

/-- The same along a whole run; a thread that is never scheduled is not touched at all. -/
theorem frame_run (sem : Sem E A T P R) (s : State E A T P R) (sched : List Nat) :
    (run sem s sched).tle = s.tle ∧ (run sem s sched).threads.length = s.threads.length ∧
    (∀ j : Nat, ((run sem s sched).threads[j]?).map (fun (t : Thread A T P R) => (t.kind, t.args)) = (s.threads[j]?).map (fun (t : Thread A T P R) => (t.kind, t.args))) ∧
    (∀ j, j ∉ sched → (run sem s sched).threads[j]? = s.threads[j]?) :=
  ⟨run_tle sem sched s, run_length sem sched s, run_query sem sched s, fun j h => run_other sem sched s j h⟩

/-- A step that neither loads nor stores (the computations between the attribute accesses) commutes with any
    step of any other thread: a run is determined by the order of its load/store events, which is what the
    correspondence check observes and replays. -/
theorem silent_commute (sem : Sem E A T P R) (s : State E A T P R) (i j : Nat) (hij : i ≠ j)
    (hs : ∀ th, s.threads[i]? = some th → th.pc.silent = true) :
    step sem (step sem s i) j = step sem (step sem s j) i :=
  silent_commute' sem s i j hij hs

/-- What the correspondence driver computes (replay in the observed thread order of the load/store events, then
    every thread to completion) is a genuine run of the model under some schedule: an observed event sequence that
    equals the driver's output IS a trace of the model, with all the theorems above applying to it. -/
theorem replay_is_a_run (sem : Sem E A T P R) (s : State E A T P R) (order : List Nat) :
    ∃ sched, finishAll sem (runVis sem s order) = run sem s sched := by
  obtain ⟨sched, hs⟩ := runVis_is_run sem order s
  refine ⟨sched ++ ((List.range (runVis sem s order).threads.length).flatMap fun i => List.replicate maxSteps i), ?_⟩
  rw [run_append, ← hs]
  rfl

/-! ### non-vacuity: concrete schedules on the driver's instance `demo` (canonical an_time 7, an_period 128) -/

/-- the hypothesis `SlotsOK` is met by a fresh object and by every cache state a run can leave behind -/
example : SlotsOK demo true (emptyCache : Shared Nat Nat) := slotsOK_empty demo true
example : SlotsOK demo false (⟨some 7, none⟩ : Shared Nat Nat) := by simp [SlotsOK, Sem.canonT, demo]
example : SlotsOK demo false (⟨some 7, some 128⟩ : Shared Nat Nat) := by simp [SlotsOK, Sem.canonT, Sem.canonP, demo]

/-- a fresh single-threaded call: misses, fills both slots, returns from the loaded canonical values -/
example : fresh demo false (.orbit, 42) = some (42, 7, 128) := by decide
example : (run demo (init false [(.orbit, 42)]) (List.replicate 10 0)).trace =
    [.loadT 0 none, .storeT 0 false 7, .loadT 0 (some 7), .loadT 0 (some 7), .storeP 0 128,
     .loadT 0 (some 7), .loadP 0 (some 128)] := by decide

/-- Thread 1 reads an_time BETWEEN thread 0's two stores: its `try` finds an_time set and an_period missing,
    it enters the handler and stores both (same canonical values); both return the fresh result. -/
example : (run demo (init true [(.orbit, 1), (.orbit, 2)]) [0, 0, 0, 1, 1, 1, 1, 0, 0, 0, 0, 0, 0, 0, 1, 1, 1, 1, 1, 1, 1]).trace =
    [.loadT 0 none, .storeT 0 true 7,
     .loadT 1 (some 7), .loadP 1 none, .storeT 1 true 7,
     .loadT 0 (some 7), .loadT 0 (some 7), .storeP 0 128, .loadT 0 (some 7), .loadP 0 (some 128),
     .loadT 1 (some 7), .loadT 1 (some 7), .storeP 1 128, .loadT 1 (some 7), .loadP 1 (some 128)] := by decide
example : let s := run demo (init true [(.orbit, 1), (.orbit, 2)]) [0, 0, 0, 1, 1, 1, 1, 0, 0, 0, 0, 0, 0, 0, 1, 1, 1, 1, 1, 1, 1]
    (resultOf s 0, resultOf s 1, s.sh) = (some (1, 7, 128), some (2, 7, 128), ⟨some 7, some 128⟩) := by decide

/-- three threads (one of them another query), thread 2 arrives when the cache is complete: two hits, no store -/
example : let s := run demo (init false [(.orbit, 1), (.other, 9), (.orbit, 3)]) [0, 0, 1, 0, 0, 0, 0, 0, 0, 0, 0, 2, 1, 2, 2];
    (resultOf s 0, resultOf s 1, resultOf s 2, s.trace.drop 7) =
      (some (1, 7, 128), some (9, 0, 0), some (3, 7, 128), [.loadT 2 (some 7), .loadP 2 (some 128)]) := by decide

/-- an unfinished thread has no result yet (the conclusion of `any_interleaving_same_result` is not trivial) -/
example : resultOf (run demo (init true [(.orbit, 1), (.orbit, 2)]) [0, 0, 0, 1, 1]) 0 = none := by decide

/-- a history on one object: the second and later calls hit the cache and still return fresh results -/
example : (history demo false emptyCache [(.other, 5), (.orbit, 1), (.orbit, 2), (.other, 6)]).2 =
    [some (5, 0, 0), some (1, 7, 128), some (2, 7, 128), some (6, 0, 0)] := by decide

/-- Why the invariant is needed: were a non-canonical an_time ever visible together with a period (e.g. an_time
    stored provisionally and corrected later), a call reading it would return a wrong result; the model does
    not hide this, `SlotsOK` is a real hypothesis. -/
example : (callOn demo false (⟨some 6, some 128⟩ : Shared Nat Nat) (.orbit, 1)).2 = some (1, 6, 128) := by decide
example : (callOn demo false (⟨some 6, some 128⟩ : Shared Nat Nat) (.orbit, 1)).2 ≠ fresh demo false (.orbit, 1) := by decide

end PV.C18
