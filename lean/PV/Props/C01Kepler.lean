/-
  C01 (stretch) — Kepler's equation in the SGP4 form and the model's Newton loop.

  F(E) = U − E + a_x sin E − a_y cos E   (the code's `f = capu − epw + esinE`; `E` stands for the report's E+ω,
  a_x = a_xN, a_y = a_yN, e_L = √(a_x² + a_y²); the code refuses e_L² ≥ 1: `_calculate_elsq`, orbital.py:1232-1238,
  model `PropErr.elsqGe1`).

  Upgrades `C01.kepler_residual` ("the returned E+ω has residual < 1e-12") to "the returned E+ω is within
  1e-12/(1 − e_L) of the exact solution", and proves facts about the loop `PV.Sgp4.newtonLoop` itself:
  every pass that is not the capped first one is a Halley step, a Halley step cubes the distance to the root,
  from a close iterate the loop never moves away, and for e_L ≤ 1/5 the loop always leaves through its `break`
  (so the exhausted-iterations exit, for which `kepler_residual` proves nothing, cannot occur there — over ℝ).
  Helper lemmas: PV/Lemmas/C01Kepler.lean, C01KeplerStep.lean, C01KeplerLoop.lean, C01KeplerSmall.lean.
-/
import PV.Props.C01
import PV.Lemmas.C01KeplerSmall
namespace PV.C01
open PV PV.Sgp4

/-! ## 0. the definitions used below, unfolded -/

theorem keplerF_def (a b U E : ℝ) : keplerF a b U E = U - E + a * Real.sin E - b * Real.cos E := rfl

/-- `keplerF` is the report's Kepler residual of `Spec.Str3` -/
theorem keplerF_eq_str3 (m : Str3.Mean ℝ) (E : ℝ) : Str3.keplerResidual m E = keplerF m.axn m.ayn m.capu E := by
  simp only [Str3.keplerResidual, keplerF]; c01_bridge

/-- the uncapped correction of one pass, in the code's operation order (orbital.py:1167-1180) -/
theorem halley_def (a b U E : ℝ) : halley a b U E =
    E + (U - E + (a * Real.sin E - b * Real.cos E)) /
      ((1 - (a * Real.cos E + b * Real.sin E)) + 0.5 * (a * Real.sin E - b * Real.cos E) *
        ((U - E + (a * Real.sin E - b * Real.cos E)) / (1 - (a * Real.cos E + b * Real.sin E)))) := rfl

theorem halleyK_def (e δ : ℝ) : halleyK e δ =
    (e * (1 + e) / 6 + e ^ 2 / 4 + δ * (e * (1 + e) / 24 + e ^ 2 / 12)) / ((1 - e) ^ 2 - e * (1 + e) * δ / 2) := rfl

/-! ## 1. derivative and monotonicity -/

/-- F′(E) = −1 + a_x cos E + a_y sin E ≤ −(1 − e_L) for every E (Cauchy–Schwarz); no hypothesis on e_L -/
theorem kepler_deriv_bound (a b U E : ℝ) :
    HasDerivAt (fun x => U - x + a * Real.sin x - b * Real.cos x) (-1 + a * Real.cos E + b * Real.sin E) E ∧
    -1 + a * Real.cos E + b * Real.sin E ≤ -(1 - √(a ^ 2 + b ^ 2)) :=
  ⟨keplerF_hasDerivAt a b U E, keplerF'_le a b E⟩

/-- F is strictly decreasing when e_L² < 1 -/
theorem kepler_strictAnti {a b : ℝ} (h : a ^ 2 + b ^ 2 < 1) (U : ℝ) :
    StrictAnti (fun x => U - x + a * Real.sin x - b * Real.cos x) :=
  keplerF_strictAnti h U

/-! ## 2. the exact solution exists and is unique -/

theorem kepler_exists_unique_root {a b : ℝ} (h : a ^ 2 + b ^ 2 < 1) (U : ℝ) :
    ∃! E, U - E + a * Real.sin E - b * Real.cos E = 0 :=
  keplerF_existsUnique_root h U

/-! ## 3. residual ⇒ distance to the exact solution -/

/-- |F E| ≤ ε ⇒ |E − E*| ≤ ε/(1 − e_L) (mean value inequality) -/
theorem kepler_root_close {a b : ℝ} (h : a ^ 2 + b ^ 2 < 1) (U E Es ε : ℝ)
    (hs : U - Es + a * Real.sin Es - b * Real.cos Es = 0) (hr : |U - E + a * Real.sin E - b * Real.cos E| ≤ ε) :
    |E - Es| ≤ ε / (1 - √(a ^ 2 + b ^ 2)) :=
  keplerF_root_close h U E Es ε hs hr

/-- the model: if `PV.Sgp4.newton` leaves through its `break` (the hypothesis of `kepler_residual`), the returned
    `epw` is within 1e-12/(1 − e_L) of the exact solution `Es` of Kepler's equation -/
theorem kepler_model_root_close (axn ayn capu ecc : ℝ) (h : axn ^ 2 + ayn ^ 2 < 1)
    (hc : (newton axn ayn capu ecc).converged = true) (Es : ℝ)
    (hs : capu - Es + axn * Real.sin Es - ayn * Real.cos Es = 0) :
    |(newton axn ayn capu ecc).epw - Es| ≤ 1e-12 / (1 - √(axn ^ 2 + ayn ^ 2)) :=
  kepler_root_close h capu _ Es 1e-12 hs (kepler_residual axn ayn capu ecc hc).1.le

/-- the same for an answer of `_Keplerians.calculate`: the guard `elsq ≥ 1 → raise` has passed, so the exact
    solution exists and is unique, and (if the loop left through its `break`) the eccentric anomaly `k.epw` the
    short-period step was computed from is within 1e-12/(1 − e_L) of it -/
theorem calculate_root_close (p : Sgp4.Params ℝ) (ts : ℝ) (k : Sgp4.Kep ℝ) (hk : calculate p ts = .ok k) :
    let l := longPeriod p (secular p ts)
    (∃! Es, l.capu - Es + l.axn * Real.sin Es - l.ayn * Real.cos Es = 0) ∧
    ∀ Es, l.capu - Es + l.axn * Real.sin Es - l.ayn * Real.cos Es = 0 →
      (newton l.axn l.ayn l.capu (√l.elsq)).converged = true → |k.epw - Es| ≤ 1e-12 / (1 - √l.elsq) := by
  intro l
  obtain ⟨-, -, hel, hkeq, -⟩ := calculate_ok hk
  have he : l.elsq = l.axn ^ 2 + l.ayn ^ 2 := by rw [longPeriod_elsq]; ring
  have h1 : l.axn ^ 2 + l.ayn ^ 2 < 1 := he ▸ hel
  refine ⟨kepler_exists_unique_root h1 l.capu, fun Es hs hc => ?_⟩
  have hepw : k.epw = (newton l.axn l.ayn l.capu (√l.elsq)).epw := by rw [hkeq]; rfl
  rw [hepw, he]
  exact kepler_model_root_close _ _ _ _ h1 (he ▸ hc) Es hs

/-! ## 4. the passes of the loop -/

/-- every pass of `PV.Sgp4.newtonLoop` whose residual test fails continues with `halley epw`, except the first
    pass (`i = 0`) when `|f/df| > 1.25·ecc` (then the step is capped to `sign(nr)·ecc`) -/
theorem kepler_pass_is_halley (axn ayn capu ecc : ℝ) (fuel i : ℕ) (epw : ℝ) (st : Sgp4.Newton ℝ)
    (hnc : ¬ |capu - epw + (axn * Real.sin epw - ayn * Real.cos epw)| < 1e-12)
    (hcap : i = 0 → ¬ (1.25 * ecc < |(capu - epw + (axn * Real.sin epw - ayn * Real.cos epw)) /
      (1 - (axn * Real.cos epw + ayn * Real.sin epw))|)) :
    newtonLoop axn ayn capu ecc (fuel + 1) i epw st =
      newtonLoop axn ayn capu ecc fuel (i + 1) (halley axn ayn capu epw)
        ⟨halley axn ayn capu epw, Real.sin epw, Real.cos epw, axn * Real.cos epw + ayn * Real.sin epw,
          axn * Real.sin epw - ayn * Real.cos epw, i + 1, false⟩ :=
  newtonLoop_pass axn ayn capu ecc fuel i epw st hnc hcap

/-- one Halley step cubes the distance to the exact solution: if |E − E*| ≤ δ and e_L(1+e_L)δ/2 < (1−e_L)², then
    |halley E − E*| ≤ K(e_L, δ)·|E − E*|³ with the explicit `halleyK` -/
theorem kepler_halley_cubic {a b : ℝ} (h : a ^ 2 + b ^ 2 < 1) (U E Es δ : ℝ)
    (hs : U - Es + a * Real.sin Es - b * Real.cos Es = 0) (hd : |E - Es| ≤ δ)
    (hsmall : √(a ^ 2 + b ^ 2) * (1 + √(a ^ 2 + b ^ 2)) * δ / 2 < (1 - √(a ^ 2 + b ^ 2)) ^ 2) :
    |halley a b U E - Es| ≤ halleyK (√(a ^ 2 + b ^ 2)) δ * |E - Es| ^ 3 ∧
    |halley a b U E - Es| ≤ halleyK (√(a ^ 2 + b ^ 2)) δ * δ ^ 3 := by
  have h1 := halley_cubic h U E Es δ hs hd hsmall
  refine ⟨h1, h1.trans ?_⟩
  have hKn := halleyK_nonneg (Real.sqrt_nonneg (a ^ 2 + b ^ 2)) ((abs_nonneg _).trans hd) hsmall
  gcongr

/-- the loop from any later pass (`i ≠ 0`) at which the iterate is within d₀ ≤ δ of the exact solution, δ small
    enough for the cubic bound to contract (K δ² ≤ 1): whatever the exit, the returned `epw` is within d₀; on the
    exhausted-iterations exit after `fuel` more passes it is within (K d₀²)^((3^fuel − 1)/2) · d₀ -/
theorem kepler_loop_close {a b : ℝ} (h : a ^ 2 + b ^ 2 < 1) (U ecc Es δ : ℝ)
    (hs : U - Es + a * Real.sin Es - b * Real.cos Es = 0)
    (hsmall : √(a ^ 2 + b ^ 2) * (1 + √(a ^ 2 + b ^ 2)) * δ / 2 < (1 - √(a ^ 2 + b ^ 2)) ^ 2)
    (hK : halleyK (√(a ^ 2 + b ^ 2)) δ * δ ^ 2 ≤ 1)
    (fuel i : ℕ) (epw : ℝ) (st : Sgp4.Newton ℝ) (d0 : ℝ) (hi : i ≠ 0) (hst : st.epw = epw)
    (hd : |epw - Es| ≤ d0) (hd0 : d0 ≤ δ) :
    |(newtonLoop a b U ecc fuel i epw st).epw - Es| ≤ d0 ∧
    ((newtonLoop a b U ecc fuel i epw st).converged = false →
      |(newtonLoop a b U ecc fuel i epw st).epw - Es| ≤
        (halleyK (√(a ^ 2 + b ^ 2)) δ * d0 ^ 2) ^ ((3 ^ fuel - 1) / 2) * d0) := by
  rw [← towerExp_eq]
  exact newtonLoop_close h U ecc Es δ hs hsmall hK fuel i epw st d0 hi hst hd hd0

/-- … and the loop leaves through its `break` within `fuel + 1` passes as soon as the cubic tower pushes
    (1+e_L)·distance below 1e-12 -/
theorem kepler_loop_converges {a b : ℝ} (h : a ^ 2 + b ^ 2 < 1) (U ecc Es δ : ℝ)
    (hs : U - Es + a * Real.sin Es - b * Real.cos Es = 0)
    (hsmall : √(a ^ 2 + b ^ 2) * (1 + √(a ^ 2 + b ^ 2)) * δ / 2 < (1 - √(a ^ 2 + b ^ 2)) ^ 2)
    (hK : halleyK (√(a ^ 2 + b ^ 2)) δ * δ ^ 2 ≤ 1)
    (fuel i : ℕ) (epw : ℝ) (st : Sgp4.Newton ℝ) (d0 : ℝ) (hi : i ≠ 0) (hd : |epw - Es| ≤ d0) (hd0 : d0 ≤ δ)
    (hlt : (1 + √(a ^ 2 + b ^ 2)) *
      ((halleyK (√(a ^ 2 + b ^ 2)) δ * d0 ^ 2) ^ ((3 ^ fuel - 1) / 2) * d0) < 1e-12) :
    (newtonLoop a b U ecc (fuel + 1) i epw st).converged = true := by
  rw [← towerExp_eq] at hlt
  exact newtonLoop_converges h U ecc Es δ hs hsmall hK fuel i epw st d0 hi hd hd0 hlt

/-! ## 5. e_L ≤ 1/5: the loop always converges -/

/-- for e_L ≤ 1/5 and `ecc = e_L` (what `calculate` passes) the first pass is never capped, the start value `U` is
    within e_L of the exact solution, K(e_L,e_L)·e_L² ≤ 1/250, and the ten passes always reach the `break`:
    the hypothesis of `kepler_residual` holds, and the returned `epw` is within 1e-12/(1 − e_L) of the exact
    solution -/
theorem kepler_small_ecc_converges {axn ayn : ℝ} (he : √(axn ^ 2 + ayn ^ 2) ≤ 1 / 5) (capu Es : ℝ)
    (hs : capu - Es + axn * Real.sin Es - ayn * Real.cos Es = 0) :
    (newton axn ayn capu (√(axn ^ 2 + ayn ^ 2))).converged = true ∧
    |(newton axn ayn capu (√(axn ^ 2 + ayn ^ 2))).epw - Es| ≤ 1e-12 / (1 - √(axn ^ 2 + ayn ^ 2)) := by
  have hc := (newton_small he capu Es hs).1
  exact ⟨hc, kepler_model_root_close _ _ _ _ (elsq_lt_one_of_small he) hc Es hs⟩

/-- the same for an answer of `calculate` with e_L ≤ 1/5: no hypothesis about the exit of the loop is left -/
theorem calculate_small_ecc_root_close (p : Sgp4.Params ℝ) (ts : ℝ) (k : Sgp4.Kep ℝ) (hk : calculate p ts = .ok k)
    (he : √(longPeriod p (secular p ts)).elsq ≤ 1 / 5) (Es : ℝ)
    (hs : (longPeriod p (secular p ts)).capu - Es + (longPeriod p (secular p ts)).axn * Real.sin Es
      - (longPeriod p (secular p ts)).ayn * Real.cos Es = 0) :
    |k.epw - Es| ≤ 1e-12 / (1 - √(longPeriod p (secular p ts)).elsq) := by
  have hel : (longPeriod p (secular p ts)).elsq =
      (longPeriod p (secular p ts)).axn ^ 2 + (longPeriod p (secular p ts)).ayn ^ 2 := by
    rw [longPeriod_elsq]; ring
  refine (calculate_root_close p ts k hk).2 Es hs ?_
  rw [hel] at he ⊢
  exact (kepler_small_ecc_converges he _ Es hs).1

/-! ## non-vacuity: a_x = 0.1, a_y = 0, U = 1 (e_L = 0.1) -/

example : ((0.1 : ℝ)) ^ 2 + (0 : ℝ) ^ 2 < 1 := by norm_num
example : √((0.1 : ℝ) ^ 2 + (0 : ℝ) ^ 2) = 0.1 := kepler_ex_sqrt
/-- the exact solution exists for the example and the model's loop reaches its `break` on it: the hypotheses
    `hs`, `hc` of `kepler_model_root_close` are met -/
example : ∃ Es, (1 : ℝ) - Es + 0.1 * Real.sin Es - 0 * Real.cos Es = 0 ∧
    (newton (0.1 : ℝ) 0 1 (√((0.1 : ℝ) ^ 2 + (0 : ℝ) ^ 2))).converged = true ∧
    |(newton (0.1 : ℝ) 0 1 (√((0.1 : ℝ) ^ 2 + (0 : ℝ) ^ 2))).epw - Es| ≤ 1e-12 / (1 - 0.1) := by
  obtain ⟨Es, hs, -⟩ := kepler_exists_unique_root (a := 0.1) (b := 0) (by norm_num) 1
  have he : √((0.1 : ℝ) ^ 2 + (0 : ℝ) ^ 2) ≤ 1 / 5 := by rw [kepler_ex_sqrt]; norm_num
  obtain ⟨h1, h2⟩ := kepler_small_ecc_converges he 1 Es hs
  have e1 : (1e-12 : ℝ) / (1 - √((0.1 : ℝ) ^ 2 + (0 : ℝ) ^ 2)) = 1e-12 / (1 - 0.1) := by rw [kepler_ex_sqrt]
  rw [e1] at h2
  exact ⟨Es, hs, h1, h2⟩
/-- the smallness hypotheses of `kepler_halley_cubic` / `kepler_loop_close` are met with δ = e_L = 0.1 -/
example : (0.1 : ℝ) * (1 + 0.1) * 0.1 / 2 < (1 - 0.1) ^ 2 ∧ halleyK (0.1 : ℝ) 0.1 * 0.1 ^ 2 ≤ 1 := by
  obtain ⟨h1, h2⟩ := halleyK_small (e := 0.1) (by norm_num) (by norm_num)
  exact ⟨h1, h2.trans (by norm_num)⟩

end PV.C01
