/-
  C08 — Array, scalar, time-type and dtype semantics are uniform across the API.

  (1) Kinds: the abstract interpretation PV.Model.Kinds of the astronomy entry points over the
      complete finite product {6 functions} x {10 time kinds} x {23 coordinate kinds} equals the
      statement's table (PV.Kinds.Spec) and never raises; which guard fires and which dtype the
      cast-back uses; the statement's four clauses as separate corollaries.
  (2) Time: one instant in every representation gives tick counts that denote the same rational
      number of days; bit-identity of the double follows from tick exactness for ANY rounding; the
      tick counts are below 2^53 between 1900 and 2100; the nanosecond split of `_days` has an exactly
      zero remainder term for whole-microsecond instants; nanosecond counts exceed 2^53 beyond 104
      days from J2000 and are then in general no doubles (why the unrepaired code differed).
  (3) Joint iteration: an element of an `np.all`-terminated loop is its own scalar iterate continued
      for k >= 0 further steps; a stuck element blocks the unrepaired exit test, not the repaired one.
  Helper lemmas: PV/Lemmas/C08Kinds.lean, C08Time.lean, C08Joint.lean.
-/
import PV.Model.Kinds
import PV.Model.Joint
import PV.Lemmas.C08Kinds
import PV.Lemmas.C08Time
import PV.Lemmas.C08Joint
namespace PV.C08
open PV PV.Kinds PV.Time PV.Joint PV.C08L

/-! ### (1) kinds -/

/-- Over the whole product, the descriptors (container, dtype, rank) of the values returned by the
    model of each entry point are those of the statement's table. -/
theorem kinds_eq_spec (f : Fn) (t : TK) (c : CK) :
    (run f t c).vals.map descr = (Spec.table f t c).map some :=
  forall_kinds (fun f t c => (run f t c).vals.map descr = (Spec.table f t c).map some)
    (by decide +kernel) f t c

/-- No cell of the product raises (no `.dtype` / `.astype` on a Python number, no rejected `like=`). -/
theorem kinds_never_error (f : Fn) (t : TK) (c : CK) :
    firstErr (run f t c).vals = none ∧ ∀ g, g ∈ (run f t c).guards → ∀ e, g ≠ Guard.fail e :=
  forall_kinds (fun f t c => firstErr (run f t c).vals = none ∧
      ∀ g, g ∈ (run f t c).guards → ∀ e, g ≠ Guard.fail e)
    (by
      have h : ∀ f, f ∈ allFn → ∀ t, t ∈ allTK → ∀ c, c ∈ allCK →
          (firstErr (run f t c).vals = none ∧
            (run f t c).guards.all (fun g => match g with | .fail _ => false | _ => true) = true) := by
        decide +kernel
      intro f hf t ht c hc
      obtain ⟨h1, h2⟩ := h f hf t ht c hc
      refine ⟨h1, fun g hg e he => ?_⟩
      have := List.all_eq_true.mp h2 g hg
      rw [he] at this
      exact absurd this (by simp)) f t c

/-- Which cast-back guard fires and with which dtype: skipped exactly when the tested value is a
    float64 scalar, otherwise a cast to the precision of the coordinates (float32 for float32 input,
    float64 for everything else, integers included). -/
theorem guards_eq_spec (f : Fn) (t : TK) (c : CK) : (run f t c).guards = Spec.guards f t c :=
  forall_kinds (fun f t c => (run f t c).guards = Spec.guards f t c) (by decide +kernel) f t c

/-- Which branch of `dt2np` and of `_days` runs: arrays are converted with `astype("datetime64[ns]")`,
    and exactly the nanosecond-valued times (datetime64[ns] scalars, all arrays) take the split. -/
theorem time_branches_eq_spec (f : Fn) (t : TK) (c : CK) :
    (run f t c).days = Spec.daysBranch t ∧
    ((run f t c).dt2np = .astypeNs ↔ Spec.timeRank t ≠ 0) :=
  forall_kinds (fun f t c => (run f t c).days = Spec.daysBranch t ∧
      ((run f t c).dt2np = .astypeNs ↔ Spec.timeRank t ≠ 0)) (by decide +kernel) f t c

/-- "Python int ... and integer-typed arrays are taken at their real values": every returned value is
    float64 for integer coordinates (never an integer dtype, never a Python int). -/
theorem ints_taken_at_real_values (f : Fn) (t : TK) (c : CK) (hc : Spec.isInt c = true) :
    ∀ v, v ∈ (run f t c).vals → ∃ d, descr v = some d ∧ d.dt = .f64 :=
  forall_kinds (fun f t c => Spec.isInt c = true →
      ∀ v, v ∈ (run f t c).vals → ∃ d, descr v = some d ∧ d.dt = .f64)
    (by
      have h : ∀ f, f ∈ allFn → ∀ t, t ∈ allTK → ∀ c, c ∈ allCK → Spec.isInt c = true →
          (run f t c).vals.all (fun v => match descr v with | some d => d.dt == .f64 | none => false) = true := by
        decide +kernel
      intro f hf t ht c hc hi v hv
      have := List.all_eq_true.mp (h f hf t ht c hc hi) v hv
      cases hd : descr v with
      | none => simp [hd] at this
      | some d => exact ⟨d, rfl, by simpa [hd] using this⟩) f t c hc

/-- "scalars give scalars": a scalar instant and scalar coordinates (0-d arrays included) give
    scalars, for every function and every returned component. -/
theorem scalars_give_scalars (f : Fn) (t : TK) (c : CK)
    (ht : Spec.timeRank t = 0) (hc : Spec.coordRank c = 0) (hd : Spec.isDask c = false) :
    ∀ v, v ∈ (run f t c).vals → ∃ d, descr v = some d ∧ d.cont = .scalar :=
  forall_kinds (fun f t c => Spec.timeRank t = 0 → Spec.coordRank c = 0 → Spec.isDask c = false →
      ∀ v, v ∈ (run f t c).vals → ∃ d, descr v = some d ∧ d.cont = .scalar)
    (by
      have h : ∀ f, f ∈ allFn → ∀ t, t ∈ allTK → ∀ c, c ∈ allCK →
          Spec.timeRank t = 0 → Spec.coordRank c = 0 → Spec.isDask c = false →
          (run f t c).vals.all (fun v => match descr v with | some d => d.cont == .scalar | none => false) = true := by
        decide +kernel
      intro f hf t ht c hc h1 h2 h3 v hv
      have := List.all_eq_true.mp (h f hf t ht c hc h1 h2 h3) v hv
      cases hd : descr v with
      | none => simp [hd] at this
      | some d => exact ⟨d, rfl, by simpa [hd] using this⟩) f t c ht hc hd

/-- "float32 arrays give float32 results" (and float32 scalars / dask arrays too), for the functions
    that take coordinates. -/
theorem float32_gives_float32 (f : Fn) (t : TK) (c : CK) (hf : f ≠ .gmst ∧ f ≠ .jdays)
    (hc : Spec.isF32 c = true) :
    ∀ v, v ∈ (run f t c).vals → ∃ d, descr v = some d ∧ d.dt = .f32 :=
  forall_kinds (fun f t c => (f ≠ .gmst ∧ f ≠ .jdays) → Spec.isF32 c = true →
      ∀ v, v ∈ (run f t c).vals → ∃ d, descr v = some d ∧ d.dt = .f32)
    (by
      have h : ∀ f, f ∈ allFn → ∀ t, t ∈ allTK → ∀ c, c ∈ allCK →
          (f ≠ .gmst ∧ f ≠ .jdays) → Spec.isF32 c = true →
          (run f t c).vals.all (fun v => match descr v with | some d => d.dt == .f32 | none => false) = true := by
        decide +kernel
      intro f hf t ht c hc h1 h2 v hv
      have := List.all_eq_true.mp (h f hf t ht c hc h1 h2) v hv
      cases hd : descr v with
      | none => simp [hd] at this
      | some d => exact ⟨d, rfl, by simpa [hd] using this⟩) f t c hf hc

/-- "dask arrays stay lazy dask arrays": with dask coordinates every returned component is a dask
    array (the model never materialises one), and without dask coordinates none is. -/
theorem dask_stays_lazy_dask (f : Fn) (t : TK) (c : CK) (hf : f ≠ .gmst ∧ f ≠ .jdays) :
    ∀ v, v ∈ (run f t c).vals → ∃ d, descr v = some d ∧ (d.cont = .dask ↔ Spec.isDask c = true) :=
  forall_kinds (fun f t c => (f ≠ .gmst ∧ f ≠ .jdays) →
      ∀ v, v ∈ (run f t c).vals → ∃ d, descr v = some d ∧ (d.cont = .dask ↔ Spec.isDask c = true))
    (by
      have h : ∀ f, f ∈ allFn → ∀ t, t ∈ allTK → ∀ c, c ∈ allCK → (f ≠ .gmst ∧ f ≠ .jdays) →
          (run f t c).vals.all (fun v => match descr v with
            | some d => (d.cont == .dask) == Spec.isDask c | none => false) = true := by
        decide +kernel
      intro f hf t ht c hc h1 v hv
      have := List.all_eq_true.mp (h f hf t ht c hc h1) v hv
      cases hd : descr v with
      | none => simp [hd] at this
      | some d =>
        refine ⟨d, rfl, ?_⟩
        simp only [hd] at this
        cases hk : Spec.isDask c <;> cases hcont : d.cont <;> simp_all) f t c hf

/-- Shapes: every returned component broadcasts to the common shape of the arguments (its rank is at
    most the common rank), and the first component always has the common rank. -/
theorem results_broadcast_to_common_shape (f : Fn) (t : TK) (c : CK) (hf : f ≠ .gmst ∧ f ≠ .jdays) :
    (∀ v, v ∈ (run f t c).vals → v.rank ≤ max (Spec.timeRank t) (Spec.coordRank c)) ∧
    ((run f t c).vals.head?.map AV.rank = some (max (Spec.timeRank t) (Spec.coordRank c))) :=
  forall_kinds (fun f t c => (f ≠ .gmst ∧ f ≠ .jdays) →
      (∀ v, v ∈ (run f t c).vals → v.rank ≤ max (Spec.timeRank t) (Spec.coordRank c)) ∧
      ((run f t c).vals.head?.map AV.rank = some (max (Spec.timeRank t) (Spec.coordRank c))))
    (by
      have h : ∀ f, f ∈ allFn → ∀ t, t ∈ allTK → ∀ c, c ∈ allCK → (f ≠ .gmst ∧ f ≠ .jdays) →
          ((run f t c).vals.all (fun v => decide (v.rank ≤ max (Spec.timeRank t) (Spec.coordRank c))) = true ∧
           (run f t c).vals.head?.map AV.rank = some (max (Spec.timeRank t) (Spec.coordRank c))) := by
        decide +kernel
      intro f hf t ht c hc h1
      obtain ⟨a, b⟩ := h f hf t ht c hc h1
      exact ⟨fun v hv => by simpa using List.all_eq_true.mp a v hv, b⟩) f t c hf

/-! ### (2) time representations -/

/-- One instant (`us` microseconds since 1970), held in any two units in which it is a whole number of
    ticks (s, ms, us, ns, m): the numerator / denominator pairs that `jdays2000` divides denote the same
    rational number of days, namely (us − J2000) / 86400e6. -/
theorem same_instant_same_ticks (u v : Time.Unit) (us : ℤ)
    (hu : Representable u us) (hv : Representable v us) :
    ((jd2000Ticks u (ticksOf u us)).1 : ℚ) / ((jd2000Ticks u (ticksOf u us)).2 : ℚ)
      = ((jd2000Ticks v (ticksOf v us)).1 : ℚ) / ((jd2000Ticks v (ticksOf v us)).2 : ℚ) ∧
    ((jd2000Ticks u (ticksOf u us)).1 : ℚ) / ((jd2000Ticks u (ticksOf u us)).2 : ℚ)
      = ((us - j2000us : ℤ) : ℚ) / 86400000000 :=
  ⟨(ticks_days u us hu).trans (ticks_days v us hv).symm, ticks_days u us hu⟩

/-- Bit-identity follows from tick exactness, for ANY rounding function: if the int → double
    conversion is exact below 2^53 and the two quotients denote the same rational, the correctly
    rounded divisions `rnd(float(a1)/float(b1))` and `rnd(float(a2)/float(b2))` are equal. -/
theorem bit_identical_if_exact {F : Type} (toF : ℤ → ℚ) (rnd : ℚ → F)
    (hexact : ∀ n : ℤ, |n| < two53 → toF n = (n : ℚ))
    (a1 b1 a2 b2 : ℤ) (ha1 : |a1| < two53) (hb1 : |b1| < two53) (ha2 : |a2| < two53) (hb2 : |b2| < two53)
    (hq : (a1 : ℚ) / (b1 : ℚ) = (a2 : ℚ) / (b2 : ℚ)) :
    fdiv toF rnd a1 b1 = fdiv toF rnd a2 b2 :=
  fdiv_eq_of_exact toF rnd hexact a1 b1 a2 b2 ha1 hb1 ha2 hb2 hq

/-- Between 1900-01-01 and 2101-01-01 the tick difference and the ticks per day are below 2^53 in
    microseconds and in every coarser unit, so their conversion to double is exact. -/
theorem tick_counts_exact_1900_2100 (u : Time.Unit) (hu : u ≠ .ns) (us : ℤ)
    (h1 : usOfCivil 1900 1 1 0 0 0 0 ≤ us) (h2 : us < usOfCivil 2101 1 1 0 0 0 0)
    (hr : Representable u us) :
    |(jd2000Ticks u (ticksOf u us)).1| < 2 ^ 53 ∧ |(jd2000Ticks u (ticksOf u us)).2| < 2 ^ 53 := by
  rw [range_1900_2100.1] at h1
  rw [range_1900_2100.2] at h2
  rw [← two53_eq]
  exact ticks_below_two53 u hu us h1 h2 hr

/-- The nanosecond split coded in `astronomy._days`: for an instant that is a whole number of
    microseconds the "whole" part is exactly the microsecond path's numerator and the remainder term
    is exactly zero; read over ℝ the model's nanosecond value is the microsecond value. -/
theorem ns_split_remainder_zero (us : ℤ) :
    (jd2000Ticks .ns (us * 1000)).1 / 1000 = (jd2000Ticks .us us).1 ∧
    (jd2000Ticks .ns (us * 1000)).1 - (jd2000Ticks .ns (us * 1000)).1 / 1000 * 1000 = 0 ∧
    (Time.jdays2000 .ns (us * 1000) : ℝ) = Time.jdays2000 .us us := by
  refine ⟨(ns_split us).1, (ns_split us).2, ?_⟩
  rw [PV.C12L.jdays2000_value, PV.C12L.jdays2000_value]
  simp only [nsPerTick]; push_cast; ring_nf

/-- Hence, on doubles (abstract conversion `toF`, rounding `rnd`, addition `fadd` with
    x ⊕ rnd 0 = x, which IEEE-754 satisfies for every x except −0): the repaired nanosecond path returns
    the very double of the microsecond path — for every instant, no range condition. -/
theorem ns_path_eq_us_path {F : Type} (toF : ℤ → ℚ) (rnd : ℚ → F) (fadd : F → F → F)
    (hzero : toF 0 = 0) (hadd0 : ∀ x : F, fadd x (rnd 0) = x) (us : ℤ) :
    fdays toF rnd fadd .ns (us * 1000) = fdays toF rnd fadd .us us :=
  fdays_ns_eq_us toF rnd fadd hzero hadd0 us

/-- One instant between 1900 and 2100 given as datetime, datetime64 of any unit in which it is
    representable, object array or datetime64 array: the double day count is the same, for any rounding.
    (`unitOfKind` is the unit the value has after `dt2np`: µs for datetime, its own for a datetime64
    scalar, ns for arrays.) -/
theorem same_instant_bit_identical {F : Type} (toF : ℤ → ℚ) (rnd : ℚ → F) (fadd : F → F → F)
    (hexact : ∀ n : ℤ, |n| < two53 → toF n = (n : ℚ)) (hadd0 : ∀ x : F, fadd x (rnd 0) = x)
    (t1 t2 : TK) (us : ℤ)
    (h1 : usOfCivil 1900 1 1 0 0 0 0 ≤ us) (h2 : us < usOfCivil 2101 1 1 0 0 0 0)
    (hr1 : Representable (unitOfKind t1) us) (hr2 : Representable (unitOfKind t2) us) :
    fdays toF rnd fadd (unitOfKind t1) (ticksOf (unitOfKind t1) us)
      = fdays toF rnd fadd (unitOfKind t2) (ticksOf (unitOfKind t2) us) := by
  rw [range_1900_2100.1] at h1
  rw [range_1900_2100.2] at h2
  rw [fdays_eq_us toF rnd fadd hexact hadd0 _ us h1 h2 hr1,
    fdays_eq_us toF rnd fadd hexact hadd0 _ us h1 h2 hr2]

/-- The abstract double day count, read exactly, is the shared model `Time.jdays2000` over ℝ (the
    definition the driver executes on `Float` in the correspondence). -/
theorem fdays_is_model (u : Time.Unit) (t : ℤ) :
    fdays (fun n => (n : ℚ)) (fun q => (q : ℝ)) (· + ·) u t = (Time.jdays2000 u t : ℝ) :=
  fdays_real u t

/-- Negative: more than 105 days from J2000 the nanosecond tick difference exceeds 2^53 (within 104
    days it does not), and whenever the distance in microseconds is odd with 125 × it ≥ 2^53 the count is
    not a double at all: any conversion into doubles changes it, so the unrepaired `ticks / ticks-per-day`
    divided a different number than the microsecond path — the one-ulp differences of finding F4. -/
theorem ns_since_2000_inexact (us : ℤ) :
    (105 * 86400000000 ≤ |us - j2000us| → 2 ^ 53 < |(jd2000Ticks .ns (us * 1000)).1|) ∧
    (|us - j2000us| ≤ 104 * 86400000000 → |(jd2000Ticks .ns (us * 1000)).1| < 2 ^ 53) ∧
    ((us - j2000us) % 2 = 1 → 2 ^ 53 ≤ |us - j2000us| * 125 →
      ∀ toF : ℤ → ℚ, (∀ n, ∃ d : ℤ, IsDouble d ∧ toF n = (d : ℚ)) →
        toF (jd2000Ticks .ns (us * 1000)).1 ≠ ((jd2000Ticks .ns (us * 1000)).1 : ℚ)) := by
  rw [← two53_eq]
  refine ⟨ns_ticks_exceed us, ns_ticks_small us, ?_⟩
  intro hodd hbig toF hrange heq
  obtain ⟨d, hd, hdq⟩ := hrange (jd2000Ticks .ns (us * 1000)).1
  rw [hdq] at heq
  have : d = (jd2000Ticks .ns (us * 1000)).1 := by exact_mod_cast heq
  exact ns_ticks_not_double us hodd hbig (this ▸ hd)

/-! ### (3) joint iteration -/

/-- `while True: s' = f(s); if np.all(conv(s, s')): break` on an array (any step function `f`, any
    exit test `conv`, any index set, any number of steps): if the array loop returns after `N` steps
    with `R`, then for every element `i` the scalar loop on `S i` returns after some `n ≤ N` steps, and
    `R i` is that scalar result iterated `k = N − n ≥ 0` further times. -/
theorem joint_iteration_extra_steps {σ ι : Type} (idx : List ι) (f : σ → σ) (conv : σ → σ → Bool)
    (fuel : Nat) (S : ι → σ) (N : Nat) (R : ι → σ)
    (h : jointDoWhile idx f conv fuel S = some (N, R)) (i : ι) (hi : i ∈ idx) :
    ∃ n k x, doWhile f conv fuel (S i) = some (n, x) ∧ n + k = N ∧ R i = iter f k x := by
  obtain ⟨n, k, h1, h2, h3⟩ := joint_dowhile_extra idx f conv fuel S N R h i hi
  exact ⟨n, k, _, h1, h2, h3⟩

/-- The same for a test-first loop `while not np.all(halt(s)): s = step(s)` given as a transition
    system (any step function, any halt predicate). -/
theorem joint_run_extra_steps {σ ι : Type} (idx : List ι) (step : σ → σ) (halt : σ → Bool)
    (fuel : Nat) (S : ι → σ) (N : Nat) (R : ι → σ)
    (h : jointRun idx step halt fuel S = some (N, R)) (i : ι) (hi : i ∈ idx) :
    ∃ n k x, run step halt fuel (S i) = some (n, x) ∧ n + k = N ∧ R i = iter step k x := by
  obtain ⟨n, k, h1, h2, h3⟩ := joint_run_extra idx step halt fuel S N R h i hi
  exact ⟨n, k, _, h1, h2, h3⟩

/-- Instance: the Newton–Raphson loop of `_SGDP4` (`for i in range(10): pre; if np.all(|f| < eps):
    break; post`): an element of the array run is its scalar run continued for k control steps. -/
theorem joint_newton_extra_steps {σ ι : Type} (idx : List ι) (pre post : σ → σ) (done : σ → Bool)
    (bound : Nat) (S : ι → σ) (N : Nat) (R : ι → Ctl σ)
    (h : jointNewtonLoop idx pre post done bound S = some (N, R)) (i : ι) (hi : i ∈ idx) :
    ∃ n k x, newtonLoop pre post done bound (S i) = some (n, x) ∧ n + k = N ∧
      R i = iter (newtonStep pre post) k x := by
  unfold jointNewtonLoop at h
  obtain ⟨n, k, h1, h2, h3⟩ := joint_run_extra idx _ _ _ _ N R h i hi
  exact ⟨n, k, _, h1, h2, h3⟩

/-- An element for which the test never holds (a NaN latitude: every comparison is false) keeps the
    unrepaired joint loop from ever returning, whatever the step budget. -/
theorem stuck_blocks_unrepaired_exit {σ ι : Type} (idx : List ι) (f : σ → σ) (conv : σ → σ → Bool)
    (S : ι → σ) (i : ι) (hi : i ∈ idx)
    (hstuck : ∀ n, conv (iter f n (S i)) (iter f (n + 1) (S i)) = false) (fuel : Nat) :
    jointDoWhile idx f conv fuel S = none :=
  stuck_blocks idx f conv S i hi hstuck fuel

/-- With the repaired test `conv | stuck(new)` (geoloc.py after 5907b7c) the loop returns as soon as
    every element either passes `conv` from some step on or is stuck: stuck elements no longer block. -/
theorem stuck_does_not_block_repaired_exit {σ ι : Type} (idx : List ι) (f : σ → σ) (conv : σ → σ → Bool)
    (stuck : σ → Bool) (S : ι → σ)
    (h : ∀ i, i ∈ idx → (∃ n0, ∀ n, n0 ≤ n → conv (iter f n (S i)) (iter f (n + 1) (S i)) = true) ∨
      (∀ n, stuck (iter f (n + 1) (S i)) = true)) :
    ∃ fuel p, jointDoWhile idx f (repaired conv stuck) fuel S = some p := by
  obtain ⟨M, hM⟩ := common_step idx f conv stuck S h
  refine ⟨M + 1, ?_⟩
  unfold jointDoWhile
  apply doWhile_terminates
  unfold allConv
  rw [List.all_eq_true]
  intro i hi
  rw [iter_lift, iter_lift]
  exact hM M (Nat.le_refl _) i hi

/-- For an element that is never stuck the repaired test is the original one: its scalar loop (and so,
    by `joint_iteration_extra_steps`, its value in the repaired array loop) is unchanged by the repair. -/
theorem repaired_same_for_unstuck {σ : Type} (f : σ → σ) (conv : σ → σ → Bool) (stuck : σ → Bool)
    (fuel : Nat) (s : σ) (h : ∀ n, stuck (iter f (n + 1) s) = false) :
    doWhile f (repaired conv stuck) fuel s = doWhile f conv fuel s :=
  doWhile_congr f _ _ fuel s (fun n => by unfold repaired; rw [h n]; simp)

/-! ### non-vacuity -/

-- the documentation's own call: Python int coordinates, a datetime
example : (run .sunZenithAngle .datetime .pyint).vals = [.np .f64] := by decide
-- float32 arrays and an array of datetime64: float32 arrays, both guards cast to float32, split path
example : run .sunZenithAngle (.dtarr .r1) (.arr .f32 .r2)
    = ⟨.astypeNs, .split, [.cast .f32, .cast .f32], [.nd .f32 2]⟩ := by decide
example : Spec.isInt (.arr .i64 .r1) = true ∧ Spec.isF32 (.dask .f32 .r1) = true ∧
    Spec.timeRank (.dt64 .ns) = 0 ∧ Spec.coordRank (.arr .f64 .r0) = 0 := by decide
-- 2020-06-01T12:00:00 is representable in every unit; 12:00:00.000001 only in us and ns
example : ∀ u : Time.Unit, Representable u 1591012800000000 := by intro u; cases u <;> decide
example : Representable .us 1591012800000001 ∧ ¬ Representable .ms 1591012800000001 := by decide
example : usOfCivil 1900 1 1 0 0 0 0 ≤ 1591012800000000 ∧ 1591012800000000 < usOfCivil 2101 1 1 0 0 0 0 := by
  decide
-- an abstract float model meeting the hypotheses: exact conversion, any rounding, x + rnd 0 = x
example : (∀ n : ℤ, |n| < two53 → (fun n : ℤ => (n : ℚ)) n = (n : ℚ)) ∧
    (∀ x : ℚ, (fun a b : ℚ => a + b) x ((fun q : ℚ => q) 0) = x) := ⟨fun _ _ => rfl, fun x => by simp⟩
-- 2020-06-01T12:00:00.000001: 7457 days from J2000, odd microsecond distance: its ns count is no double
example : (1591012800000001 - j2000us) % 2 = 1 ∧ (2 : ℤ) ^ 53 ≤ |1591012800000001 - j2000us| * 125 ∧
    105 * 86400000000 ≤ |1591012800000001 - j2000us| := by
  refine ⟨by decide, ?_, ?_⟩ <;> norm_num [j2000us]
-- a joint loop that returns: halving until the change is below 2; the fast element takes extra steps
example : (jointDoWhile [0, 1] (fun x : Nat => x / 2) (fun a b => decide (a - b < 2)) 50
    (fun i => if i = 0 then 100 else 3)).map (fun p => (p.1, p.2 0, p.2 1)) = some (7, 0, 0) := by decide
example : doWhile (fun x : Nat => x / 2) (fun a b => decide (a - b < 2)) 50 3 = some (2, 0) := by decide
-- the same toy with a stuck (NaN-like, negative) element: the unrepaired test never lets the loop return within the budget,
-- the repaired one returns and leaves the stuck element as it is
example : jointDoWhile [0, 1, 2] (fun x : Int => if x < 0 then x else x / 2)
    (fun a b => decide (0 ≤ b) && decide ((a - b).natAbs < 2)) 50
    (fun i => if i = 0 then 100 else if i = 1 then -1 else 3) = none := by decide
example : (jointDoWhile [0, 1, 2] (fun x : Int => if x < 0 then x else x / 2)
    (repaired (fun a b => decide (0 ≤ b) && decide ((a - b).natAbs < 2)) (fun b => decide (b < 0))) 50
    (fun i => if i = 0 then 100 else if i = 1 then -1 else 3)).map (fun p => (p.1, p.2 0, p.2 1, p.2 2))
      = some (7, 0, -1, 0) := by decide
-- a stuck element: the test is false on all its iterates
example : ∀ n, (fun (a b : Int) => decide (0 ≤ b) && decide ((a - b).natAbs < 2))
    (iter (fun x : Int => x) n (-1)) (iter (fun x : Int => x) (n + 1) (-1)) = false := by
  intro n
  have : ∀ m, iter (fun x : Int => x) m (-1) = -1 := by
    intro m; induction m with
    | zero => rfl
    | succ m ih => rw [iter_succ']; exact ih
  rw [this, this]; decide

end PV.C08
