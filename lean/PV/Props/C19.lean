/-
  C19 — instrument scan definitions are well-formed, symmetric and subset-consistent.

  Theorems about PV.Model.Instruments (the arrays `fovs`, `times`, `timesNs` built by
  geoloc_instrument_definitions.py), for EVERY number of lines and EVERY selection of scan
  positions.  Shapes / sharing / subset theorems hold for any carrier (`Float` included);
  bounds, symmetry and timing are over ℝ.  Point-wise facts are in PV.Lemmas.C19Inst.

  `Inst` = the line scanners avhrr, avhrr_gac, amsua, mhs, hirs4, atms, mwhs2, ascat;
  VIIRS (lines = scans × 32 detectors) and the resampling imagers OLCI / SLSTR separately.
-/
import PV.Lemmas.C19Inst
namespace PV.C19
open PV PV.Instr PV.Gen PV.C19L

section anycarrier
variable {α : Type} [Num α]

-- ================================================================== shape
/-- `fovs` has shape (2, lines, positions) -/
theorem shape_fovs (i : Inst) (lines : Nat) (pts : List Nat) :
    (fovs i lines pts : List (List (List α))).length = 2 ∧
    ∀ row ∈ (fovs i lines pts : List (List (List α))), row.length = lines ∧ ∀ ln ∈ row, ln.length = pts.length := by
  refine ⟨rfl, ?_⟩
  intro row hrow
  simp only [fovs, List.mem_cons, List.not_mem_nil, or_false] at hrow
  rcases hrow with rfl | rfl
  · refine ⟨List.length_replicate, ?_⟩
    intro ln hln; rw [List.eq_of_mem_replicate hln, List.length_map]
  · refine ⟨List.length_replicate, ?_⟩
    intro ln hln; rw [List.eq_of_mem_replicate hln, List.length_map]

/-- `times` (seconds and nanoseconds) has shape (lines, positions) -/
theorem shape_times (i : Inst) (lines : Nat) (pts : List Nat) :
    ((times i lines pts : List (List α)).length = lines ∧ ∀ ln ∈ (times i lines pts : List (List α)), ln.length = pts.length) ∧
    ((timesNs i lines pts : List (List α)).length = lines ∧ ∀ ln ∈ (timesNs i lines pts : List (List α)), ln.length = pts.length) := by
  refine ⟨⟨by simp [times], ?_⟩, ⟨by simp [timesNs, times], ?_⟩⟩
  · intro ln hln
    simp only [times, List.mem_map] at hln
    obtain ⟨l, _, rfl⟩ := hln; rw [List.length_map]
  · intro ln hln
    simp only [timesNs, times, List.map_map, List.mem_map] at hln
    obtain ⟨l, _, rfl⟩ := hln
    simp

/-- VIIRS: `fovs` has shape (2, scans·32, positions), `times` (scans·32, positions) -/
theorem shape_viirs (scans : Nat) (pts : List Nat) :
    viirsDet = 32 ∧
    (viirsFovs scans pts : List (List (List α))).length = 2 ∧
    (∀ row ∈ (viirsFovs scans pts : List (List (List α))), row.length = scans * 32 ∧ ∀ ln ∈ row, ln.length = pts.length) ∧
    (viirsTimes scans pts : List (List α)).length = scans * 32 ∧
    (∀ ln ∈ (viirsTimes scans pts : List (List α)), ln.length = pts.length) ∧
    (viirsTimesNs scans pts : List (List α)).length = scans * 32 ∧
    (∀ ln ∈ (viirsTimesNs scans pts : List (List α)), ln.length = pts.length) := by
  have hd : viirsDet = 32 := rfl
  refine ⟨hd, rfl, ?_, by simp [viirsTimes, hd], ?_, by simp [viirsTimesNs, viirsTimes, hd], ?_⟩
  · intro row hrow
    simp only [viirsFovs, List.mem_cons, List.not_mem_nil, or_false] at hrow
    rcases hrow with rfl | rfl
    · refine ⟨by simp [hd], ?_⟩
      intro ln hln; simp only [List.mem_map] at hln; obtain ⟨l, _, rfl⟩ := hln; rw [List.length_map]
    · refine ⟨by simp [hd], ?_⟩
      intro ln hln; simp only [List.mem_map] at hln; obtain ⟨l, _, rfl⟩ := hln; rw [List.length_map]
  · intro ln hln
    simp only [viirsTimes, List.mem_map] at hln; obtain ⟨l, _, rfl⟩ := hln; rw [List.length_map]
  · intro ln hln
    simp only [viirsTimesNs, viirsTimes, List.map_map, List.mem_map] at hln
    obtain ⟨l, _, rfl⟩ := hln
    simp

/-- OLCI / SLSTR: shapes (2, lines, positions) and (lines, positions); the times are all zero -/
theorem shape_resamp (r : Resamp) (lines : Nat) (pts : List Nat) :
    (resampFovs r lines pts : List (List (List α))).length = 2 ∧
    (∀ row ∈ (resampFovs r lines pts : List (List (List α))), row.length = lines ∧ ∀ ln ∈ row, ln.length = pts.length) ∧
    (resampTimes r lines pts : List (List α)) = List.replicate lines (List.replicate pts.length (0 : α)) := by
  refine ⟨rfl, ?_, ?_⟩
  · intro row hrow
    simp only [resampFovs, List.mem_cons, List.not_mem_nil, or_false] at hrow
    rcases hrow with rfl | rfl
    · refine ⟨List.length_replicate, ?_⟩
      intro ln hln; rw [List.eq_of_mem_replicate hln]; simp
    · refine ⟨List.length_replicate, ?_⟩
      intro ln hln; rw [List.eq_of_mem_replicate hln]; simp
  · simp only [resampTimes, List.map_const', List.length_range]

-- ================================================================== all lines share the angles
/-- every line of a line scanner carries the same angle list: the per-point formula of the selection -/
theorem lines_share_angles (i : Inst) (lines : Nat) (pts : List Nat) :
    (fovs i lines pts : List (List (List α))) =
      [List.replicate lines (pts.map i.angle), List.replicate lines (List.replicate pts.length (0 : α))] ∧
    ∀ row ∈ (fovs i lines pts : List (List (List α))), ∀ l1 ∈ row, ∀ l2 ∈ row, l1 = l2 := by
  have h : (fovs i lines pts : List (List (List α))) =
      [List.replicate lines (pts.map i.angle), List.replicate lines (List.replicate pts.length (0 : α))] := by
    simp only [fovs, List.map_const']
  refine ⟨h, ?_⟩
  rw [h]
  intro row hrow l1 h1 l2 h2
  simp only [List.mem_cons, List.not_mem_nil, or_false] at hrow
  rcases hrow with rfl | rfl
  · rw [List.eq_of_mem_replicate h1, List.eq_of_mem_replicate h2]
  · rw [List.eq_of_mem_replicate h1, List.eq_of_mem_replicate h2]

/-- VIIRS: every line has the same across-track angles; the along-track angle is constant along a line and
    depends only on the detector `line mod 32`, so all scans share the same angles -/
theorem lines_share_angles_viirs (scans : Nat) (pts : List Nat) :
    (viirsFovs scans pts : List (List (List α))) =
      [List.replicate (scans * 32) (pts.map fun p => viirsAcross (nat p)),
       (List.range (scans * 32)).map fun l => List.replicate pts.length (viirsAlong (nat (l % 32)))] := by
  have hd : viirsDet = 32 := rfl
  simp only [viirsFovs, hd, List.map_const', List.length_range]

/-- OLCI / SLSTR: every line carries the same angle list -/
theorem lines_share_angles_resamp (r : Resamp) (lines : Nat) (pts : List Nat) :
    ∀ row ∈ (resampFovs r lines pts : List (List (List α))), ∀ l1 ∈ row, ∀ l2 ∈ row, l1 = l2 := by
  intro row hrow l1 h1 l2 h2
  simp only [resampFovs, List.mem_cons, List.not_mem_nil, or_false] at hrow
  rcases hrow with rfl | rfl
  · rw [List.eq_of_mem_replicate h1, List.eq_of_mem_replicate h2]
  · rw [List.eq_of_mem_replicate h1, List.eq_of_mem_replicate h2]

-- ================================================================== along-track angles are zero for line scanners
theorem along_zero (i : Inst) (lines : Nat) (pts : List Nat) :
    (fovs i lines pts : List (List (List α)))[1]? = some (List.replicate lines (List.replicate pts.length (0 : α))) := by
  simp only [fovs, List.map_const']; rfl

theorem along_zero_resamp (r : Resamp) (lines : Nat) (pts : List Nat) :
    (resampFovs r lines pts : List (List (List α)))[1]? = some (List.replicate lines (List.replicate pts.length (0 : α))) := by
  simp only [resampFovs, List.map_const', List.length_range]; rfl

-- ================================================================== a subset is the corresponding columns
/-- selecting positions `sel` (all inside the full set) yields exactly the columns `sel` of the full geometry
    (`cols sel line = sel.map (line[·]?)`): angles -/
theorem subset_is_columns_fovs (i : Inst) (lines : Nat) (sel : List Nat) (h : ∀ s ∈ sel, s < i.npos) :
    (fovs i lines sel : List (List (List α))).map (·.map (·.map some)) =
      (fovs i lines (List.range i.npos)).map (·.map (cols sel)) := by
  simp only [fovs, List.map_cons, List.map_nil, List.map_replicate, cols_map _ i.npos sel h]

/-- … and times (seconds and nanoseconds), for every line scanner but ASCAT (whose sampling interval depends on the
    largest selected point) -/
theorem subset_is_columns_times (i : Inst) (hi : i ≠ .ascat) (lines : Nat) (sel : List Nat) (h : ∀ s ∈ sel, s < i.npos) :
    (times i lines sel : List (List α)).map (·.map some) = (times i lines (List.range i.npos)).map (cols sel) ∧
    (timesNs i lines sel : List (List α)).map (·.map some) = (timesNs i lines (List.range i.npos)).map (cols sel) := by
  have hmx : ∀ (m m' l : Nat), (i.time m l : Nat → α) = i.time m' l := by
    intro m m' l; funext p; cases i <;> first | rfl | exact absurd rfl hi
  constructor
  · simp only [times, List.map_map]
    apply List.map_congr_left
    intro l _
    simp only [Function.comp, cols_map _ i.npos sel h]
    rw [hmx _ (maxPoint (List.range i.npos)) l]
  · simp only [timesNs, times, List.map_map]
    apply List.map_congr_left
    intro l _
    simp only [Function.comp, List.map_map, cols_map _ i.npos sel h]
    rw [hmx _ (maxPoint (List.range i.npos)) l]

/-- VIIRS: a selection of pixels yields the corresponding columns of the full 6400-pixel geometry -/
theorem subset_is_columns_viirs (scans : Nat) (sel : List Nat) (h : ∀ s ∈ sel, s < viirsWidth) :
    (viirsFovs scans sel : List (List (List α))).map (·.map (·.map some)) =
      (viirsFovs scans (List.range viirsWidth)).map (·.map (cols sel)) ∧
    (viirsTimes scans sel : List (List α)).map (·.map some) = (viirsTimes scans (List.range viirsWidth)).map (cols sel) ∧
    (viirsTimesNs scans sel : List (List α)).map (·.map some) =
      (viirsTimesNs scans (List.range viirsWidth)).map (cols sel) := by
  refine ⟨?_, ?_, ?_⟩
  · simp only [viirsFovs, List.map_cons, List.map_nil, List.map_map]
    congr 1
    · apply List.map_congr_left; intro l _; simp only [Function.comp, cols_map _ viirsWidth sel h]
    · congr 1
      apply List.map_congr_left; intro l _; simp only [Function.comp, cols_map _ viirsWidth sel h]
  · simp only [viirsTimes, List.map_map]
    apply List.map_congr_left; intro l _; simp only [Function.comp, cols_map _ viirsWidth sel h]
  · simp only [viirsTimesNs, viirsTimes, List.map_map]
    apply List.map_congr_left; intro l _; simp only [Function.comp, List.map_map, cols_map _ viirsWidth sel h]

end anycarrier

-- ================================================================== the constants as they are in the source now
/-- swath half-widths (degrees → radians by π/180) -/
theorem swath_values :
    (Inst.swath .avhrr : ℝ) = 55.37 * (Real.pi / 180) ∧ (Inst.swath .avhrrGac : ℝ) = 55.37 * (Real.pi / 180) ∧
    (Inst.swath .amsua : ℝ) = 48.3 * (Real.pi / 180) ∧ (Inst.swath .mhs : ℝ) = 49.444 * (Real.pi / 180) ∧
    (Inst.swath .hirs4 : ℝ) = 49.5 * (Real.pi / 180) ∧ (Inst.swath .atms : ℝ) = 52.7 * (Real.pi / 180) ∧
    (Inst.swath .mwhs2 : ℝ) = 53.35 * (Real.pi / 180) ∧ (Inst.swath .ascat : ℝ) = 53 * (Real.pi / 180) ∧
    |Num.deg2rad (instr__viirs_L7 : ℝ)| = 56.28 * (Real.pi / 180) := by
  refine ⟨?_, ?_, ?_, ?_, ?_, ?_, ?_, ?_, ?_⟩
  · simp only [Inst.swath]; gen_simp; exact abs_d2r _ (by norm_num)
  · simp only [Inst.swath]; gen_simp; exact abs_d2r _ (by norm_num)
  · simp only [Inst.swath]; gen_simp; exact abs_d2r_neg _ (by norm_num)
  · simp only [Inst.swath]; gen_simp; exact abs_d2r_neg _ (by norm_num)
  · simp only [Inst.swath]; gen_simp; exact abs_d2r_neg _ (by norm_num)
  · simp only [Inst.swath]; gen_simp; exact abs_d2r_neg _ (by norm_num)
  · simp only [Inst.swath]; gen_simp; exact abs_d2r_neg _ (by norm_num)
  · simp only [Inst.swath]; gen_simp; push_cast; exact abs_d2r_neg 53 (by norm_num)
  · gen_simp; exact abs_d2r _ (by norm_num)

/-- scan periods (seconds) -/
theorem period_values :
    (Inst.period .avhrr : ℝ) = 1 / 6 ∧ (Inst.period .avhrrGac : ℝ) = 1 / 2 ∧ (Inst.period .amsua : ℝ) = 8 ∧
    (Inst.period .mhs : ℝ) = 8 / 3 ∧ (Inst.period .hirs4 : ℝ) = 6.4 ∧ (Inst.period .atms : ℝ) = 8 / 3 ∧
    (Inst.period .mwhs2 : ℝ) = 8 / 3 ∧ (Inst.period .ascat : ℝ) = 3.74747474747 ∧ viirsPeriod = 1.779166667 := by
  refine ⟨?_, ?_, ?_, ?_, ?_, ?_, ?_, ?_, ?_⟩ <;> simp only [Inst.period, viirsPeriod] <;> gen_simp <;> norm_num

/-- numbers of positions of the full sets, detectors per VIIRS scan, and the seconds → nanoseconds factor -/
theorem npos_values :
    Inst.npos .avhrr = 2048 ∧ Inst.npos .avhrrGac = 2048 ∧ Inst.npos .amsua = 30 ∧ Inst.npos .mhs = 90 ∧
    Inst.npos .hirs4 = 56 ∧ Inst.npos .atms = 96 ∧ Inst.npos .mwhs2 = 98 ∧ Inst.npos .ascat = 42 ∧
    ascatHalf = 21 ∧ ascatHalf2 = 21 ∧
    viirsWidth = 6400 ∧ viirsDet = 32 ∧ Resamp.npos .olci = 4000 ∧ Resamp.npos .slstr = 3000 ∧
    (instr__ScanGeometry___init___L3 : ℝ) = 1000000000 := by
  refine ⟨rfl, rfl, rfl, rfl, rfl, rfl, rfl, rfl, rfl, rfl, rfl, rfl, rfl, rfl, ?_⟩
  gen_simp

/-- sampling intervals, sync delays, ramp centres and the remaining angle constants of the model -/
theorem sampling_values :
    (instr__avhrr_L7 : ℝ) = 0.000025 ∧ (instr__avhrr_gac_L9 : ℝ) = 0.000025 ∧
    (instr__viirs__SEC_EACH_SCANCOLUMN : ℝ) = 0.0002779947917 ∧ (instr__viirs__scan_step : ℝ) = 1 ∧
    (instr__amsua__sampling_interval : ℝ) = 0.2 ∧ (instr__amsua__sync_time : ℝ) = 0.00355 ∧
    (instr__mhs__sampling_interval : ℝ) = (8 / 3 - 1) / 90 ∧ (instr__mhs__sync_time : ℝ) = 0 ∧
    (instr__hirs4__sampling_interval : ℝ) = 6.4 / 56 ∧ (instr__atms__sampling_interval : ℝ) = 0.018 ∧
    (instr__mwhs2__sampling_interval : ℝ) = (8 / 3 - 1) / 98 ∧ (instr__mwhs2__sync_time : ℝ) = 0 ∧
    (instr__avhrr_L3 : ℝ) = 1023.5 ∧ (instr__avhrr_gac_L5 : ℝ) = 1023.5 ∧
    ((instr__viirs__chn_pixels : ℝ) / instr__viirs_L4 - instr__viirs_L5) = 3199.5 ∧
    ((instr__viirs__scan_lines : ℝ) / instr__viirs_L11 - instr__viirs_L12) = 15.5 ∧
    ((instr__amsua__scan_len : ℝ) * instr__amsua_L6 - instr__amsua_L7) = 14.5 ∧
    ((instr__mhs__scan_len : ℝ) * instr__mhs_L10 - instr__mhs_L11) = 44.5 ∧
    ((instr__hirs4__scan_len : ℝ) * instr__hirs4_L4 - instr__hirs4_L5) = 27.5 ∧
    ((instr__mwhs2__scan_len : ℝ) * instr__mwhs2_L10 - instr__mwhs2_L11) = 48.5 ∧
    (instr__ascat__scan_angle_inner : ℝ) = -25 ∧ (instr__ascat__scan_angle_outer : ℝ) = -53 ∧
    (instr__viirs__y_max_angle : ℝ) = Complex.arg ⟨824, 11.87 / 2⟩ := by
  refine ⟨?_, ?_, ?_, ?_, ?_, ?_, ?_, ?_, ?_, ?_, ?_, ?_, ?_, ?_, ?_, ?_, ?_, ?_, ?_, ?_, ?_, ?_, ?_⟩
  all_goals first
    | (gen_simp; (try norm_num); done)
    | (simp only [instr__viirs__y_max_angle, r_atan2]; try gen_simp)

-- ================================================================== swath limits (ℝ)
/-- every across-track angle of every line lies within the swath, for any selection inside the full set -/
theorem angles_in_swath (i : Inst) (lines : Nat) (pts : List Nat) (h : ∀ p ∈ pts, p < i.npos) :
    ∀ row ∈ (fovs i lines pts : List (List (List ℝ))), ∀ ln ∈ row, ∀ x ∈ ln, |x| ≤ i.swath := by
  intro row hrow ln hln x hx
  simp only [fovs, List.mem_cons, List.not_mem_nil, or_false] at hrow
  rcases hrow with rfl | rfl
  · rw [List.eq_of_mem_replicate hln, List.mem_map] at hx
    obtain ⟨p, hp, rfl⟩ := hx
    exact angle_abs_le i p (h p hp)
  · rw [List.eq_of_mem_replicate hln, List.mem_map] at hx
    obtain ⟨p, _, rfl⟩ := hx
    have : (0 : ℝ) ≤ i.swath := by cases i <;> simp only [Inst.swath, r_abs] <;> exact abs_nonneg _
    simpa [r_ofNat] using this

/-- VIIRS: |across-track| ≤ deg2rad(56.28) and |along-track| ≤ y_max_angle = atan2(11.87/2, 824) -/
theorem angles_in_swath_viirs (scans : Nat) (pts : List Nat) (h : ∀ p ∈ pts, p < viirsWidth)
    (across along : List (List ℝ))
    (h0 : (viirsFovs scans pts : List (List (List ℝ)))[0]? = some across)
    (h1 : (viirsFovs scans pts : List (List (List ℝ)))[1]? = some along) :
    (∀ ln ∈ across, ∀ x ∈ ln, |x| ≤ |Num.deg2rad (instr__viirs_L7 : ℝ)|) ∧
    (∀ ln ∈ along, ∀ x ∈ ln, |x| ≤ instr__viirs__y_max_angle) := by
  simp only [viirsFovs, List.getElem?_cons_zero, List.getElem?_cons_succ, Option.some.injEq] at h0 h1
  subst h0; subst h1
  constructor
  · intro ln hln x hx
    simp only [List.mem_map] at hln
    obtain ⟨l, _, rfl⟩ := hln
    rw [List.mem_map] at hx
    obtain ⟨p, hp, rfl⟩ := hx
    exact viirsAcross_abs_le p (h p hp)
  · intro ln hln x hx
    simp only [List.mem_map] at hln
    obtain ⟨l, _, rfl⟩ := hln
    rw [List.mem_map] at hx
    obtain ⟨p, _, rfl⟩ := hx
    exact viirsAlong_abs_le _ (Nat.mod_lt _ (by decide))

/-- OLCI / SLSTR: every angle lies between the east (-22.1°) and west (46.5°) limits, whatever the number of positions -/
theorem angles_in_swath_resamp (r : Resamp) (lines : Nat) (pts : List Nat) (row : List (List ℝ))
    (h0 : (resampFovs r lines pts : List (List (List ℝ)))[0]? = some row) :
    ∀ ln ∈ row, ∀ x ∈ ln, (-22.1) * (Real.pi / 180) ≤ x ∧ x ≤ 46.5 * (Real.pi / 180) := by
  intro ln hln x hx
  simp only [resampFovs, List.getElem?_cons_zero, Option.some.injEq] at h0
  subst h0
  rw [List.eq_of_mem_replicate hln, List.mem_map] at hx
  obtain ⟨j, hj, rfl⟩ := hx
  rw [List.mem_range] at hj
  have := resamp_between r pts.length j hj
  cases r <;> simp only at this <;> revert this <;> gen_simp <;> norm_num

-- ================================================================== antisymmetry about nadir (ℝ, exact)
/-- over the full set of positions every line's across-track angles read backwards are the negated angles -/
theorem antisymmetric (i : Inst) (lines : Nat) (row : List (List ℝ))
    (h0 : (fovs i lines (List.range i.npos) : List (List (List ℝ)))[0]? = some row) :
    ∀ ln ∈ row, ln.reverse = ln.map (fun x => -x) := by
  intro ln hln
  simp only [fovs, List.getElem?_cons_zero, Option.some.injEq] at h0
  subst h0
  rw [List.eq_of_mem_replicate hln, List.map_map]
  exact reverse_map_range _ _ i.npos (fun p q h => angle_antisymm i p q h)

/-- point-wise form: positions p and N-1-p have opposite angles -/
theorem antisymmetric_pt (i : Inst) (p q : Nat) (h : p + q + 1 = i.npos) : (i.angle q : ℝ) = -i.angle p :=
  angle_antisymm i p q h

/-- VIIRS: across-track angles are antisymmetric over the 6400 pixels, along-track over the 32 detectors -/
theorem antisymmetric_viirs (scans : Nat) (row : List (List ℝ))
    (h0 : (viirsFovs scans (List.range viirsWidth) : List (List (List ℝ)))[0]? = some row) :
    (∀ ln ∈ row, ln.reverse = ln.map (fun x => -x)) ∧
    (∀ d e : Nat, d + e + 1 = viirsDet → (viirsAlong (nat e) : ℝ) = -viirsAlong (nat d)) := by
  refine ⟨?_, viirsAlong_antisymm⟩
  intro ln hln
  simp only [viirsFovs, List.getElem?_cons_zero, Option.some.injEq] at h0
  subst h0
  simp only [List.mem_map] at hln
  obtain ⟨l, _, rfl⟩ := hln
  rw [List.map_map]
  exact reverse_map_range _ _ viirsWidth (fun p q h => viirsAcross_antisymm p q h)

-- ================================================================== timing (ℝ)
/-- all modelled times are non-negative (so numpy's truncation toward zero is `floor`) -/
theorem time_nonneg (i : Inst) (lines : Nat) (pts : List Nat) :
    ∀ ln ∈ (times i lines pts : List (List ℝ)), ∀ x ∈ ln, 0 ≤ x := by
  intro ln hln x hx
  simp only [times, List.mem_map] at hln
  obtain ⟨l, _, rfl⟩ := hln
  rw [List.mem_map] at hx
  obtain ⟨p, _, rfl⟩ := hx
  exact C19L.time_nonneg i _ l p

/-- sample times increase along a line (for positions taken in increasing order) -/
theorem times_increase (i : Inst) (lines : Nat) (pts : List Nat) (h : pts.Pairwise (· < ·)) :
    ∀ ln ∈ (times i lines pts : List (List ℝ)), ln.Pairwise (· < ·) := by
  intro ln hln
  simp only [times, List.mem_map] at hln
  obtain ⟨l, _, rfl⟩ := hln
  exact List.Pairwise.map _ (fun p q hpq => time_lt i _ l p q hpq) h

/-- point-wise: the time is strictly monotone in the scan point -/
theorem times_increase_pt (i : Inst) (mx l p q : Nat) (h : p < q) : (i.time mx l p : ℝ) < i.time mx l q :=
  time_lt i mx l p q h

/-- every sample of line l precedes every sample of line l+1 (any selection inside the full set; ASCAT included) -/
theorem line_ends_before_next (i : Inst) (lines : Nat) (pts : List Nat) (h : ∀ p ∈ pts, p < i.npos)
    (l : Nat) (a b : List ℝ) (ha : (times i lines pts : List (List ℝ))[l]? = some a)
    (hb : (times i lines pts : List (List ℝ))[l + 1]? = some b) : ∀ x ∈ a, ∀ y ∈ b, x < y := by
  simp only [times, List.getElem?_map, Option.map_eq_some_iff] at ha hb
  obtain ⟨l1, h1, rfl⟩ := ha
  obtain ⟨l2, h2, rfl⟩ := hb
  rw [List.getElem?_range (by by_contra hc; rw [List.getElem?_eq_none (by simpa using hc)] at h1; cases h1)] at h1
  rw [List.getElem?_range (by by_contra hc; rw [List.getElem?_eq_none (by simpa using hc)] at h2; cases h2)] at h2
  cases h1; cases h2
  intro x hx y hy
  rw [List.mem_map] at hx hy
  obtain ⟨p, hp, rfl⟩ := hx
  obtain ⟨q, _, rfl⟩ := hy
  exact time_line_end i _ l p q (h p hp) (fun _ => le_maxPoint pts p hp)

/-- successive lines are offset by exactly the scan period (seconds, ℝ), and by the period to within
    1 ns after the conversion to integer nanoseconds -/
theorem scan_offset (i : Inst) (mx l p : Nat) :
    (i.time mx (l + 1) p : ℝ) - i.time mx l p = i.period ∧
    |toNs (i.time mx (l + 1) p : ℝ) - toNs (i.time mx l p : ℝ) - i.period * 1000000000| < 1 :=
  ⟨time_offset i mx l p, toNs_offset _ _ _ (time_offset i mx l p)⟩

/-- the truncation lemma behind the nanosecond claim -/
theorem floor_offset (x P : ℝ) : |((⌊x + P⌋ : ℤ) : ℝ) - (⌊x⌋ : ℤ) - P| < 1 := floor_shift x P

/-- list form of `scan_offset`: column j of lines l and l+1 -/
theorem scan_offset_lists (i : Inst) (lines : Nat) (pts : List Nat) (l j : Nat) (a b : List ℝ) (x y : ℝ)
    (ha : (times i lines pts : List (List ℝ))[l]? = some a) (hb : (times i lines pts : List (List ℝ))[l + 1]? = some b)
    (hx : a[j]? = some x) (hy : b[j]? = some y) : y - x = i.period := by
  simp only [times, List.getElem?_map, Option.map_eq_some_iff] at ha hb
  obtain ⟨l1, h1, rfl⟩ := ha
  obtain ⟨l2, h2, rfl⟩ := hb
  rw [List.getElem?_range (by by_contra hc; rw [List.getElem?_eq_none (by simpa using hc)] at h1; cases h1)] at h1
  rw [List.getElem?_range (by by_contra hc; rw [List.getElem?_eq_none (by simpa using hc)] at h2; cases h2)] at h2
  cases h1; cases h2
  simp only [List.getElem?_map, Option.map_eq_some_iff] at hx hy
  obtain ⟨p, hp, rfl⟩ := hx
  obtain ⟨q, hq, rfl⟩ := hy
  rw [hp] at hq; cases hq
  exact time_offset i _ l p

-- VIIRS
theorem times_viirs (scans : Nat) (pts : List Nat) :
    (∀ ln ∈ (viirsTimes scans pts : List (List ℝ)), ∀ x ∈ ln, 0 ≤ x) ∧
    (pts.Pairwise (· < ·) → ∀ ln ∈ (viirsTimes scans pts : List (List ℝ)), ln.Pairwise (· < ·)) := by
  constructor
  · intro ln hln x hx
    simp only [viirsTimes, List.mem_map] at hln
    obtain ⟨l, _, rfl⟩ := hln
    rw [List.mem_map] at hx
    obtain ⟨p, _, rfl⟩ := hx
    exact viirsTime_nonneg _ p
  · intro h ln hln
    simp only [viirsTimes, List.mem_map] at hln
    obtain ⟨l, _, rfl⟩ := hln
    exact List.Pairwise.map _ (fun p q hpq => viirsTime_lt _ p q hpq) h

/-- VIIRS: every sample of a scan precedes every sample of any later scan (the 32 lines of one scan are simultaneous) -/
theorem line_ends_before_next_viirs (scans : Nat) (pts : List Nat) (h : ∀ p ∈ pts, p < viirsWidth)
    (l l' : Nat) (hl : l / 32 < l' / 32) (a b : List ℝ)
    (ha : (viirsTimes scans pts : List (List ℝ))[l]? = some a)
    (hb : (viirsTimes scans pts : List (List ℝ))[l']? = some b) : ∀ x ∈ a, ∀ y ∈ b, x < y := by
  have hd : viirsDet = 32 := rfl
  simp only [viirsTimes, List.getElem?_map, Option.map_eq_some_iff] at ha hb
  obtain ⟨l1, h1, rfl⟩ := ha
  obtain ⟨l2, h2, rfl⟩ := hb
  rw [List.getElem?_range (by by_contra hc; rw [List.getElem?_eq_none (by simpa using hc)] at h1; cases h1)] at h1
  rw [List.getElem?_range (by by_contra hc; rw [List.getElem?_eq_none (by simpa using hc)] at h2; cases h2)] at h2
  cases h1; cases h2
  intro x hx y hy
  rw [List.mem_map] at hx hy
  obtain ⟨p, hp, rfl⟩ := hx
  obtain ⟨q, _, rfl⟩ := hy
  rw [hd]
  exact viirsTime_end _ _ p q hl (h p hp)

/-- VIIRS: line l+32 (same detector, next scan) is offset by exactly the scan period; within 1 ns in integer ns -/
theorem scan_offset_viirs (l p : Nat) :
    (viirsTime (nat ((l + 32) / viirsDet)) (nat p) : ℝ) - viirsTime (nat (l / viirsDet)) (nat p) = viirsPeriod ∧
    |toNs (viirsTime (nat ((l + 32) / viirsDet)) (nat p) : ℝ) - toNs (viirsTime (nat (l / viirsDet)) (nat p) : ℝ)
      - viirsPeriod * 1000000000| < 1 := by
  have hd : viirsDet = 32 := rfl
  have e : (l + 32) / viirsDet = l / viirsDet + 1 := by rw [hd]; omega
  rw [e]
  exact ⟨viirsTime_offset _ p, toNs_offset _ _ _ (viirsTime_offset _ p)⟩

-- ================================================================== why ASCAT times are excluded from subset consistency
/-- the ASCAT time of a point depends on the largest selected point: selecting [0, 1] does not give
    columns 0, 1 of the full 42-point geometry -/
theorem ascat_times_depend_on_selection :
    (Inst.time .ascat (maxPoint [0, 1]) 0 1 : ℝ) ≠ Inst.time .ascat (maxPoint (List.range 42)) 0 1 := by
  have h1 : maxPoint [0, 1] = 1 := by decide
  have h2 : maxPoint (List.range 42) = 41 := by decide +kernel
  rw [h1, h2]
  simp only [Inst.time, ascatTime, time2_eq]
  gen_simp; norm_num

-- ================================================================== non-vacuity
example : ∀ s ∈ [0, 2047, 24, 1000], s < Inst.npos .avhrr := by decide
example : ([0, 5, 29] : List Nat).Pairwise (· < ·) := by decide
example : (times .amsua 2 [0, 29] : List (List ℝ))[0]? = some [Inst.time .amsua 29 0 0, Inst.time .amsua 29 0 29] := by
  simp [times, maxPoint, List.range_succ]
example : ∃ b, (times .amsua 2 [0, 29] : List (List ℝ))[0 + 1]? = some b := ⟨_, by simp [times, List.range_succ]; rfl⟩
example : ∃ row, (fovs .mhs 3 (List.range (Inst.npos .mhs)) : List (List (List ℝ)))[0]? = some row := ⟨_, rfl⟩
example : ∃ row, (viirsFovs 2 [0, 6399] : List (List (List ℝ)))[1]? = some row := ⟨_, rfl⟩
example : ∃ row, (resampFovs .olci 2 [0, 1, 2] : List (List (List ℝ)))[0]? = some row := ⟨_, rfl⟩
example : (5 : Nat) / 32 < 40 / 32 := by decide

end PV.C19
