/-
  C14Bound — stretch theorem for C14's clause "the point lies on the geodetic normal through its
  subpoint to within 1 m" (DESIGN.md section 5, C14 "Partial"), over ℝ, about the model's own
  `PV.Geoloc.subpoint` / `geodeticLat` (geoloc.py:46-74, default ellipsoid A = 6378.137 km,
  B = 6356.75231414 km, exit test `np.allclose`: `|new − old| ≤ 1e-8 + 1e-5 |old|`).

  Result: for EVERY point on or outside the default ellipsoid (no upper bound on the altitude — the
  statement's "surface to 50000 km" is a special case) the distance of the point from the line
  `{s + t·n(s)}` through the returned subpoint `s` along the ellipsoid normal at `s` is at most
  `A · 1.1e-7 ≤ 7.1e-4 km` (0.71 m) < 1 m.

  Why the uniform bound holds although the exit test is loose (latitude error up to 1.1e-7 rad at the
  surface, PV.C04Conv.geodeticLat_result_close_to_fixpoint, and the lever arm grows to 56 000 km):
  the contraction factor of the loop body at distance R is `0.00677/(R/A − 0.00672)`, so the error of
  the returned latitude decreases like 1/R (`returned_latitude_accuracy`) and the product with the lever
  arm `R + 0.0135 A` stays bounded (PV/Lemmas/C14BoundCore.lean).  With the distance-independent factor
  0.007 of C04Conv one would only get `(R + 43 km) · 1.2e-7`, i.e. 6.8 m at 50 000 km.

  Not covered: the float execution (rounding in the loop body), as everywhere in the ℝ reading.
-/
import PV.Lemmas.C14BoundGeod
namespace PV.C14Bound
open PV PV.C14L PV.C04C PV.GeoB PV.C14B PV.Geoloc Real

/-- Latitude form.  `subpoint q` is the ellipsoid point of the returned latitude `lat` and the exact
    longitude, and `q` is within `7.1e-4 km` of the line through it along the geodetic normal
    `(cos lat cos lon, cos lat sin lon, sin lat)`. -/
theorem point_near_normal_lat (q s : V3 ℝ) (fuel : ℕ)
    (hq : 1 ≤ q.x ^ 2 / (A : ℝ) ^ 2 + q.y ^ 2 / (A : ℝ) ^ 2 + q.z ^ 2 / (B : ℝ) ^ 2)
    (hs : subpoint q A B fuel = some s) :
    ∃ lat n, geodeticLat q A B fuel = some (lat, n) ∧
      s = ellipsoidPoint A B lat (Complex.arg ⟨q.x, q.y⟩) ∧
      ∃ t : ℝ, V3.norm (V3.sub q (V3.add s
        (V3.smul t (Wgs84.geodeticNormal lat (Complex.arg ⟨q.x, q.y⟩))))) ≤ 7.1e-4 := by
  have hA : (0 : ℝ) < A := by rw [A_val]; norm_num
  obtain ⟨lat, n, hlat, hs'⟩ := subpoint_some hs
  refine ⟨lat, n, hlat, hs', ?_⟩
  rw [geodeticLat_real] at hlat
  have hD := meridian_dist_le (Real.sqrt_nonneg _) (outside_meridian q hq) hlat
  obtain ⟨t, ht⟩ := dist_to_normal_line q A B lat hA
  refine ⟨t, ?_⟩
  rw [hs', ht, A_val]
  rw [A_val] at hD
  nlinarith [abs_nonneg (Dfun (ecc2ab 6378.137 (B : ℝ)) (q.z / 6378.137) (√(q.x ^ 2 + q.y ^ 2) / 6378.137) lat)]

/-- C14, geodetic clause, sharp form: the distance of `q` from the line through `s = subpoint q` along the
    unit normal of the ellipsoid at `s` (normalised gradient of `x²/A² + y²/A² + z²/B²` at `s`) is at most
    `7.1e-4 km` (0.71 m), for every `q` on or outside the default ellipsoid. -/
theorem point_within_71cm_of_normal (q s : V3 ℝ) (fuel : ℕ)
    (hq : 1 ≤ q.x ^ 2 / (A : ℝ) ^ 2 + q.y ^ 2 / (A : ℝ) ^ 2 + q.z ^ 2 / (B : ℝ) ^ 2)
    (hs : subpoint q A B fuel = some s) :
    ∃ t : ℝ, V3.norm (V3.sub q (V3.add s
      (V3.smul t (Rodrigues.unit (Wgs84.gradNormal A B s))))) ≤ 7.1e-4 := by
  obtain ⟨lat, n, -, hs', t, ht⟩ := point_near_normal_lat q s fuel hq hs
  refine ⟨t, ?_⟩
  have hn : Rodrigues.unit (Wgs84.gradNormal A B s)
      = Wgs84.geodeticNormal lat (Complex.arg ⟨q.x, q.y⟩) := by
    rw [hs']; exact unit_gradNormal _ _ _ _ default_axes'.1 default_axes'.2
  rw [hn]; exact ht

/-- C14, geodetic clause as stated: "the point lies on the geodetic normal through its subpoint to within
    1 m" (1e-3 km), all points on or outside the default ellipsoid (in particular surface to 50000 km). -/
theorem point_on_normal_within_1m (q s : V3 ℝ) (fuel : ℕ)
    (hq : 1 ≤ q.x ^ 2 / (A : ℝ) ^ 2 + q.y ^ 2 / (A : ℝ) ^ 2 + q.z ^ 2 / (B : ℝ) ^ 2)
    (hs : subpoint q A B fuel = some s) :
    ∃ t : ℝ, V3.norm (V3.sub q (V3.add s
      (V3.smul t (Rodrigues.unit (Wgs84.gradNormal A B s))))) ≤ 1e-3 := by
  obtain ⟨t, ht⟩ := point_within_71cm_of_normal q s fuel hq hs
  exact ⟨t, le_trans ht (by norm_num)⟩

/-- total form (no definedness hypothesis): for every `q` on or outside the default ellipsoid `subpoint q`
    (default fuel) returns a point `s` that lies on the ellipsoid and whose normal line passes within 1 m
    of `q` -/
theorem subpoint_on_ellipsoid_and_normal_within_1m (q : V3 ℝ)
    (hq : 1 ≤ q.x ^ 2 / (A : ℝ) ^ 2 + q.y ^ 2 / (A : ℝ) ^ 2 + q.z ^ 2 / (B : ℝ) ^ 2) :
    ∃ s : V3 ℝ, subpoint q A B = some s ∧ Wgs84.OnEllipsoid A B s ∧
      ∃ t : ℝ, V3.norm (V3.sub q (V3.add s
        (V3.smul t (Rodrigues.unit (Wgs84.gradNormal A B s))))) ≤ 1e-3 := by
  have hp : (0.99 * (A : ℝ)) ^ 2 ≤ q.x ^ 2 + q.y ^ 2 + q.z ^ 2 := by
    have := outside_meridian q hq
    rwa [Real.sq_sqrt (by positivity)] at this
  have hA : (0 : ℝ) < A := by rw [A_val]; norm_num
  have hr2 : √(q.x ^ 2 + q.y ^ 2) ^ 2 = q.x ^ 2 + q.y ^ 2 := Real.sq_sqrt (by positivity)
  obtain ⟨lat, n, hlat, -⟩ := geodLoop_terminates_init hA eccOK_default (Real.sqrt_nonneg _)
    (by rw [hr2]; exact hp) (fuel := 200) (z := q.z) (by norm_num)
  have hsome : subpoint q A B = some (ellipsoidPoint A B lat (Num.atan2 q.y q.x)) := by
    unfold subpoint
    rw [geodeticLat_real, hlat]
  exact ⟨_, hsome, ellipsoidPoint_on _ _ _ _ default_axes'.1 default_axes'.2,
    point_on_normal_within_1m q _ 200 hq hsome⟩

/-- accuracy of the returned latitude as a function of the distance `R = √(r² + z²)` from the centre:
    `|lat − φ*| (R/A − 0.01349) ≤ 1.0642e-7` (`φ*` = the geodetic latitude, the unique fixed point of the body,
    `PV.C04Conv.geodStep_fixpoint_exists_unique`): the `np.allclose` exit costs 1.09e-7 rad at the surface and
    proportionally less higher up -/
theorem returned_latitude_accuracy (z r : ℝ) (hr : 0 ≤ r)
    (hp : (0.99 * (A : ℝ)) ^ 2 ≤ r ^ 2 + z ^ 2) (fuel : ℕ) (lat : ℝ) (n : ℕ)
    (h : geodLoop A B z r fuel (Num.atan2 z r) = some (lat, n))
    (φs : ℝ) (hfix : geodStep A B z r φs = φs) :
    |lat - φs| * (√(r ^ 2 + z ^ 2) / A - 0.01349) ≤ 0.00677 * 1.5718e-5 := by
  rw [r_atan2] at h
  exact geodLoop_exit_close_P hr hp h hfix

/-! ### non-vacuity -/

/-- a point of the surface (equator), a point on the polar axis (7000 km), and a point 47 500 km up
    (|q| ≈ 53 852 km) meet the hypothesis … -/
example : (1 : ℝ) ≤ (⟨6378.137, 0, 0⟩ : V3 ℝ).x ^ 2 / (A : ℝ) ^ 2 + (⟨6378.137, 0, 0⟩ : V3 ℝ).y ^ 2 / (A : ℝ) ^ 2
    + (⟨6378.137, 0, 0⟩ : V3 ℝ).z ^ 2 / (B : ℝ) ^ 2 := by
  rw [A_val, B_val]; norm_num

example : (1 : ℝ) ≤ (⟨0, 0, 7000⟩ : V3 ℝ).x ^ 2 / (A : ℝ) ^ 2 + (⟨0, 0, 7000⟩ : V3 ℝ).y ^ 2 / (A : ℝ) ^ 2
    + (⟨0, 0, 7000⟩ : V3 ℝ).z ^ 2 / (B : ℝ) ^ 2 := by
  rw [A_val, B_val]; norm_num

example : (1 : ℝ) ≤ (⟨30000, 20000, 40000⟩ : V3 ℝ).x ^ 2 / (A : ℝ) ^ 2
    + (⟨30000, 20000, 40000⟩ : V3 ℝ).y ^ 2 / (A : ℝ) ^ 2 + (⟨30000, 20000, 40000⟩ : V3 ℝ).z ^ 2 / (B : ℝ) ^ 2 := by
  rw [A_val, B_val]; norm_num

/-- … and for such a point `subpoint` does return, so both hypotheses of `point_on_normal_within_1m` are met
    together -/
example : ∃ s : V3 ℝ, subpoint (⟨30000, 20000, 40000⟩ : V3 ℝ) A B = some s ∧
    ∃ t : ℝ, V3.norm (V3.sub (⟨30000, 20000, 40000⟩ : V3 ℝ) (V3.add s
      (V3.smul t (Rodrigues.unit (Wgs84.gradNormal A B s))))) ≤ 1e-3 := by
  obtain ⟨s, h1, -, h2⟩ := subpoint_on_ellipsoid_and_normal_within_1m (⟨30000, 20000, 40000⟩ : V3 ℝ)
    (by rw [A_val, B_val]; norm_num)
  exact ⟨s, h1, h2⟩

end PV.C14Bound
