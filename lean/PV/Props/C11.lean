/-
  C11 — Orbit numbers count ascending-node crossings; last-node time is a real node.
  Theorems about PV.Model.OrbitNum (the closed form, `int()`, TBUS, the lazily cached reference node,
  the equator-crossing time) and PV.Model.NodeSearch (`get_last_an_time` over integer ticks and an
  abstract z), read over ℝ where numbers are involved.
  Helper lemmas: PV/Lemmas/C11Node.lean, C11Orbit.lean, C11Cross.lean.

  Not proved here (measured by the oracle of harness/props/c11.py): that the closed form agrees with
  the crossing count of the PROPAGATED trajectory within 2 s + 5 s/day, that the velocity at the
  returned node is northward, that no other node lies between the result and the query, and that the
  backward stepping loop finds its sign change (z changes sign every half period of a real orbit).
-/
import PV.NumReal
import PV.Model.Time
import PV.Model.NodeSearch
import PV.Model.OrbitNum
import PV.Lemmas.C11Node
import PV.Lemmas.C11Orbit
import PV.Lemmas.C11Cross
namespace PV.C11
open PV PV.NodeSearch PV.OrbitNum PV.C11L

/-! ### the number: TBUS, truncation, monotonicity, value at the nodes -/

/-- The TBUS variant is one larger, for the continuous and for the integer value, in every reading
    of the model (Float included). -/
theorem tbus_plus_one {α : Type} [Num α] (rev dt P nd ndd : α) (asFloat : Bool) :
    orbitNumber rev dt P nd ndd true asFloat = orbitNumber rev dt P nd ndd false asFloat + 1 := by
  cases asFloat <;> rfl

/-- The integer value is `int()` of the continuous value (every reading), and over ℝ `int()` is
    truncation toward zero: an integer `n` on the same side of zero as `x` with `|x - n| < 1`. -/
theorem int_is_trunc {α : Type} [Num α] (rev dt P nd ndd : α) :
    orbitNumber rev dt P nd ndd false false = pyInt (orbitNumber rev dt P nd ndd false true) ∧
    orbitNumber rev dt P nd ndd true false = pyInt (orbitNumber rev dt P nd ndd false true) + 1 :=
  ⟨rfl, rfl⟩

theorem int_is_trunc_real (x : ℝ) :
    ∃ n : ℤ, pyInt x = (n : ℝ) ∧ (0 ≤ x → (n : ℝ) ≤ x ∧ x < n + 1) ∧ (x < 0 → (n : ℝ) - 1 < x ∧ x ≤ n) := by
  rw [pyInt_real]
  by_cases hx : x < 0
  · refine ⟨⌈x⌉, by simp [hx], fun h => absurd hx (not_lt.mpr h), fun _ => ⟨?_, Int.le_ceil x⟩⟩
    have := Int.ceil_lt_add_one x
    linarith
  · refine ⟨⌊x⌋, by simp [hx], fun _ => ⟨Int.floor_le x, Int.lt_floor_add_one x⟩, fun h => absurd h hx⟩

/-- The continuous number is strictly increasing in time: for every nodal period up to 0.16 d (every
    near-earth orbit: < 225 min), |ṅ/2| ≤ 0.25 rev/d², |n̈/6| ≤ 0.03 rev/d³ and times from 1.2 d before
    to 5.2 d after the reference node (which is at most one revolution before the epoch, so this
    covers epoch − 1 d … epoch + 5 d).  The ranges of DESIGN (≥ 10 rev/d, 0.01, 1e-4) are inside. -/
theorem orbit_number_monotone (rev P nd ndd a b : ℝ) (hP0 : 0 < P) (hP : P ≤ 0.16)
    (hnd : |nd| ≤ 0.25) (hndd : |ndd| ≤ 0.03) (ha : -1.2 ≤ a) (hb : b ≤ 5.2) (hab : a < b) :
    orbitNumber rev a P nd ndd false true < orbitNumber rev b P nd ndd false true :=
  orbit_strict_mono rev P nd ndd a b hP0 hP hnd hndd ha hb hab

/-- …hence the integer orbit number (and its TBUS variant) never decreases with time. -/
theorem orbit_int_never_decreases (rev P nd ndd a b : ℝ) (tbus : Bool) (hP0 : 0 < P) (hP : P ≤ 0.16)
    (hnd : |nd| ≤ 0.25) (hndd : |ndd| ≤ 0.03) (ha : -1.2 ≤ a) (hb : b ≤ 5.2) (hab : a ≤ b) :
    orbitNumber rev a P nd ndd tbus false ≤ orbitNumber rev b P nd ndd tbus false := by
  have h : pyInt (orbitFloat rev a P nd ndd) ≤ pyInt (orbitFloat rev b P nd ndd) := by
    rcases eq_or_lt_of_le hab with h | h
    · rw [h]
    · exact pyInt_mono _ _ (orbit_strict_mono rev P nd ndd a b hP0 hP hnd hndd ha hb h).le
  cases tbus
  · exact h
  · unfold orbitNumber
    simp only [if_true, Bool.false_eq_true, if_false, r_add]
    linarith

/-- At the reference node the number is the TLE revolution number exactly (any derivative fields);
    `k` nodal periods later, with zero derivative fields, it is `rev + k`. -/
theorem at_node_integer (rev P nd ndd : ℝ) (k : ℤ) (hP : P ≠ 0) :
    orbitNumber rev 0 P nd ndd false true = rev ∧
    orbitNumber rev ((k : ℝ) * P) P 0 0 false true = rev + k := by
  constructor
  · show orbitFloat rev 0 P nd ndd = rev
    rw [orbitFloat_real]; simp
  · show orbitFloat rev ((k : ℝ) * P) P 0 0 = rev + k
    rw [orbitFloat_real]; field_simp; ring

/-- In ticks: a query at the cached node time itself has `dt = 0`, one `k` cached periods later has
    `dt / P = k` (µs representation). -/
theorem at_node_ticks (an p : Int) (k : ℤ) (hp : p ≠ 0) :
    (dtDays Time.Unit.us an an : ℝ) = 0 ∧
    (dtDays Time.Unit.us (an + k * p) an : ℝ) / periodDays p = k := by
  rw [dtDays_real, dtDays_real, periodDays_real]
  have hp' : (p : ℝ) ≠ 0 := by exact_mod_cast hp
  simp only [Time.nsPerTick]
  constructor
  · rw [sub_self, Int.cast_zero, zero_div]
  · push_cast; field_simp; ring

/-- The same instant held in any two units (ns, µs, ms, s, m) gives the same elapsed days over ℝ,
    hence the same orbit number: the representation does not matter. -/
theorem same_instant_same_number (u v : Time.Unit) (tu tv an : Int)
    (h : tu * Time.nsPerTick u = tv * Time.nsPerTick v) :
    (dtDays u tu an : ℝ) = dtDays v tv an := by
  rw [dtDays_real, dtDays_real, h]

/-- How an error in the two node times enters: if the cached node is `e1` days late and the previous
    one `e2` days late (true nodal period `P`, zero derivative fields), then AT the `k`-th true node
    after the reference the continuous number differs from `rev + k` by `-(e1 + k (e1 - e2)) / (P + e1 - e2)`:
    a difference of the two node errors is accumulated once per revolution.  (With the former
    tolerance of 1 km on z, |e| reached 1/(v sin i) s — seconds at low inclination — and the count left
    the 2 s + 5 s/day band; the tolerance is now 1 m.) -/
theorem node_error_accumulates (rev P e1 e2 : ℝ) (k : ℤ) (hP : P + e1 - e2 ≠ 0) :
    orbitNumber rev ((k : ℝ) * P - e1) (P + e1 - e2) 0 0 false true - (rev + k)
      = -(e1 + k * (e1 - e2)) / (P + e1 - e2) := by
  show orbitFloat rev ((k : ℝ) * P - e1) (P + e1 - e2) 0 0 - (rev + k) = _
  rw [orbitFloat_real]; field_simp; ring

/-! ### the lazily cached reference node: any order of first use -/

/-- Whatever queries were made before on the object (any history, any order of first use, including
    histories in which an initialisation was interrupted by an exception), every query returns
    what it returns on a fresh object.  Every reading of the model (Float included). -/
theorem any_order_same_numbers {α : Type} [Num α] (e : Env α) (qs : List Query) :
    runQueries e fresh qs = qs.map fun q => (getOrbitNumber e fresh q).1 := by
  have key : ∀ (qs : List Query) (s : Slots), SlotsOk e s →
      runQueries e s qs = qs.map fun q => (getOrbitNumber e fresh q).1 := by
    intro qs
    induction qs with
    | nil => intro s _; rfl
    | cons q qs ih =>
      intro s hs
      obtain ⟨h1, h2⟩ := getOrbitNumber_inv e s q hs
      simp only [runQueries, List.map_cons, h1, ih _ h2]
  exact key qs fresh (slotsOk_fresh e)

/-- The cached values never depend on the query that triggered the initialisation. -/
theorem cache_independent_of_query {α : Type} [Num α] (e : Env α) (q q' : Query) :
    (getOrbitNumber e fresh q).2 = (getOrbitNumber e fresh q').2 := by
  rw [getOrbitNumber_slow e fresh q (Or.inl rfl), getOrbitNumber_slow e fresh q' (Or.inl rfl)]
  unfold slowPath
  cases initAnTime e with
  | error er => rfl
  | ok t => dsimp only; cases initPeriod e t <;> rfl

/-! ### get_last_an_time: what every returned result satisfies -/

/-- Post-condition of the backward stepping loop, for every z: the bracket it hands to the bisection
    is one step (ten minutes) wide, `steps` steps before the query, with z > 0 at its late end and
    z < 0 at its early end; the result lies in that bracket and has |z| ≤ tol. -/
theorem stepping_postcondition (z : Int → ℝ) (tol : ℝ) (step : Int) (fS fB : Nat) (t0 : Int) (f : Found)
    (hstep : 0 ≤ step) (h : lastAn z tol step fS fB t0 = .ok f) :
    ∃ tOld : Int, tOld = t0 - (f.steps : Int) * step ∧ 0 < z tOld ∧ z (tOld - step) < 0 ∧
      tOld - step ≤ f.t ∧ f.t ≤ tOld ∧ |z f.t| ≤ tol ∧ (∀ x ∈ f.mids, tOld - step ≤ x ∧ x ≤ tOld) := by
  obtain ⟨tOld, _, h2, h3, h4, h5, h6, h7, _, h9, _⟩ := lastAn_sound z tol step fS fB t0 f hstep h
  exact ⟨tOld, h4, h2, h3, h5, h6, h7, h9⟩

/-- The result is a node to the tolerance: |z| ≤ tol, for every z, representation and fuel. -/
theorem result_is_node (z : Int → ℝ) (tol : ℝ) (step : Int) (fS fB : Nat) (t0 : Int) (f : Found)
    (hstep : 0 ≤ step) (h : lastAn z tol step fS fB t0 = .ok f) : |z f.t| ≤ tol := by
  obtain ⟨_, _, _, _, _, _, _, h7, _⟩ := lastAn_sound z tol step fS fB t0 f hstep h
  exact h7

/-- The result is not later than the query time, for every z. -/
theorem result_not_later (z : Int → ℝ) (tol : ℝ) (step : Int) (fS fB : Nat) (t0 : Int) (f : Found)
    (hstep : 0 ≤ step) (h : lastAn z tol step fS fB t0 = .ok f) : f.t ≤ t0 := by
  obtain ⟨tOld, _, _, _, h4, _, h6, _⟩ := lastAn_sound z tol step fS fB t0 f hstep h
  have : 0 ≤ (f.steps : Int) * step := Int.mul_nonneg (by omega) hstep
  omega

/-- …in every time representation: the returned instant (ticks of the search unit: µs, or ns for
    ns inputs) is not later than the query instant (ticks of its own unit m, s, ms, µs, ns; a
    datetime is a µs count), compared in nanoseconds; and |z| ≤ 1e-3 km ≤ 1 km there. -/
theorem result_not_later_every_unit (z : Int → ℝ) (u : Time.Unit) (fS fB : Nat) (ticks : Int) (f : Found)
    (h : lastAnOf z u fS fB ticks = .ok f) :
    f.t * Time.nsPerTick (searchUnit u) ≤ ticks * Time.nsPerTick u ∧ |z f.t| ≤ 1e-3 ∧ |z f.t| ≤ 1 := by
  have hstep : 0 ≤ stepTicks u := by cases u <;> simp [stepTicks, searchUnit, Time.nsPerTick]
  have h1 := result_not_later z tolKm (stepTicks u) fS fB (toSearchTicks u ticks) f hstep h
  have h2 := result_is_node z tolKm (stepTicks u) fS fB (toSearchTicks u ticks) f hstep h
  have htol : (tolKm : ℝ) = 1e-3 := by
    unfold tolKm; rw [r_ofSci]
  rw [htol] at h2
  refine ⟨?_, h2, by linarith [show (1e-3 : ℝ) ≤ 1 by norm_num]⟩
  cases u <;> simp only [toSearchTicks, searchUnit, Time.nsPerTick] at h1 ⊢ <;> omega

/-- An ascending node lies inside the bracket left by the stepping loop: if z at the ticks is the
    sampling of a continuous trajectory `zc`, there is an instant `c` strictly inside the bracket with
    `zc c = 0` after which `zc` stays positive up to the bracket's late end (a south-to-north crossing). -/
theorem ascending_node_between (zc : ℝ → ℝ) (hz : Continuous zc) (tol : ℝ) (step : Int) (fS fB : Nat)
    (t0 : Int) (f : Found) (hstep : 0 ≤ step)
    (h : lastAn (fun t : Int => zc (t : ℝ)) tol step fS fB t0 = .ok f) :
    ∃ (tOld : Int) (c : ℝ), tOld = t0 - (f.steps : Int) * step ∧ ((tOld - step : Int) : ℝ) < c ∧ c < (tOld : ℝ) ∧
      zc c = 0 ∧ (∀ x, c < x → x ≤ (tOld : ℝ) → 0 < zc x) ∧ tOld - step ≤ f.t ∧ f.t ≤ tOld := by
  obtain ⟨tOld, h1, h2, h3, h4, h5, _, _⟩ := stepping_postcondition _ tol step fS fB t0 f hstep h
  have hlt : ((tOld - step : Int) : ℝ) < (tOld : ℝ) := by
    by_contra hc
    have : tOld ≤ tOld - step := by exact_mod_cast not_lt.mp hc
    have : step = 0 := by omega
    rw [this] at h3
    simp only [sub_zero] at h3
    linarith
  obtain ⟨c, c1, c2, c3, c4⟩ := ascending_root zc hz _ _ hlt h3 h2
  exact ⟨tOld, c, h1, c1, c2, c3, c4, h4, h5⟩

/-- What `get_last_an_time` of a µs instant returns inside `get_orbit_number`: |z| ≤ 1 m, not later than its argument. -/
theorem lastAnUs_spec (e : Env ℝ) (t0 t : Int) (h : lastAnUs e t0 = .ok t) : |e.z t| ≤ 1e-3 ∧ t ≤ t0 := by
  unfold lastAnUs at h
  cases hl : lastAn e.z tolKm tenMin e.fuelS e.fuelB t0 with
  | error er => simp [hl] at h
  | ok f =>
    simp only [hl, Except.ok.injEq] at h
    subst h
    have htol : (tolKm : ℝ) = 1e-3 := by unfold tolKm; rw [r_ofSci]
    have h2 := result_is_node e.z tolKm tenMin e.fuelS e.fuelB t0 f (by decide) hl
    rw [htol] at h2
    exact ⟨h2, result_not_later e.z tolKm tenMin e.fuelS e.fuelB t0 f (by decide) hl⟩

/-- `epochAtNode` over ℝ: within 1 km of the equator and moving north -/
theorem epochAtNode_iff (e : Env ℝ) : epochAtNode e = true ↔ |e.z e.epoch| ≤ 1 ∧ 0 < e.vz e.epoch := by
  unfold epochAtNode
  simp only [r_gt, r_abs, r_ofNat, Nat.cast_zero, Nat.cast_one, Bool.not_eq_true', Bool.or_eq_false_iff,
    decide_eq_false_iff_not, not_lt, Bool.not_eq_false', decide_eq_true_eq]

/-- The cached reference node is never later than the epoch and is a node: either the epoch itself, which then lies
    within 1 km of the equator moving north (the "epoch at the ascending node" rule), or the precisely located last
    node before the epoch (|z| ≤ 1 m). -/
theorem reference_node_is_node (e : Env ℝ) (t : Int) (h : initAnTime e = .ok t) :
    t ≤ e.epoch ∧ |e.z t| ≤ 1 ∧
      ((t = e.epoch ∧ |e.z e.epoch| ≤ 1 ∧ 0 < e.vz e.epoch) ∨ |e.z t| ≤ 1e-3) := by
  unfold initAnTime at h
  split at h
  · rename_i hc
    simp only [Except.ok.injEq] at h
    subst h
    obtain ⟨h1, h2⟩ := (epochAtNode_iff e).mp hc
    exact ⟨le_refl _, h1, Or.inl ⟨rfl, h1, h2⟩⟩
  · obtain ⟨h1, h2⟩ := lastAnUs_spec e _ t h
    exact ⟨h2, by linarith [show (1e-3 : ℝ) ≤ 1 by norm_num], Or.inr h1⟩

/-- The cached nodal period is the difference of two PRECISELY located nodes (|z| ≤ 1 m at both, the earlier one at least
    ten minutes before the later one): the reference node and its predecessor, or — when the epoch itself is taken as the
    reference node — the node next to the epoch (at most ten minutes after it) and its predecessor.  In particular the period
    is at least ten minutes, so `dt / orbit_period` is never a division by zero. -/
theorem period_from_precise_nodes (e : Env ℝ) (t p : Int) (ht : initAnTime e = .ok t) (h : initPeriod e t = .ok p) :
    ∃ node prev : Int, p = node - prev ∧ |e.z node| ≤ 1e-3 ∧ |e.z prev| ≤ 1e-3 ∧ prev ≤ node - tenMin ∧
      node ≤ e.epoch + tenMin ∧ (epochAtNode e = false → node = t) := by
  unfold initPeriod at h
  cases hn : initNode e t with
  | error er => simp [hn] at h
  | ok node =>
    simp only [hn] at h
    cases hl : lastAnUs e (node - tenMin) with
    | error er => simp [hl] at h
    | ok prev =>
      simp only [hl, Except.ok.injEq] at h
      obtain ⟨q1, q2⟩ := lastAnUs_spec e _ prev hl
      unfold initNode at hn
      unfold initAnTime at ht
      split at hn
      · rename_i hc
        simp only [hc, if_true, Except.ok.injEq] at ht
        cases hl2 : lastAnUs e (e.epoch + tenMin) with
        | error er => simp [hl2] at hn
        | ok n =>
          simp only [hl2, Except.ok.injEq] at hn
          obtain ⟨n1, n2⟩ := lastAnUs_spec e _ n hl2
          have : node = n := by omega
          subst this
          exact ⟨node, prev, h.symm, n1, q1, q2, n2, fun hf => by rw [hc] at hf; cases hf⟩
      · rename_i hc
        simp only [Except.ok.injEq] at hn
        have hnode : node = t := by omega
        subst hnode
        simp only [hc] at ht
        obtain ⟨n1, n2⟩ := lastAnUs_spec e _ node ht
        exact ⟨node, prev, h.symm, n1, q1, q2, by unfold tenMin; omega, fun _ => rfl⟩

theorem period_positive (e : Env ℝ) (t p : Int) (ht : initAnTime e = .ok t) (h : initPeriod e t = .ok p) :
    600000000 ≤ p ∧ (0 : ℝ) < periodDays p := by
  obtain ⟨node, prev, h1, _, _, h4, _, _⟩ := period_from_precise_nodes e t p ht h
  have hp : 600000000 ≤ p := by unfold tenMin at h4; omega
  refine ⟨hp, ?_⟩
  rw [periodDays_real]
  have : (600000000 : ℝ) ≤ (p : ℝ) := by exact_mod_cast hp
  positivity

/-! ### get_last_an_time: termination -/

/-- Over ℝ the three tests `|z0| < tol`, `|z1| <= tol`, `|z1| > tol` are exhaustive: `return t_mid` is never
    reached with `t_mid` unassigned (the source's former `|z1| < 1` left `|z1| = 1` uncovered). -/
theorem unbound_unreachable (z : Int → ℝ) (tol : ℝ) (step : Int) (fS fB : Nat) (t0 : Int) :
    lastAn z tol step fS fB t0 ≠ .error .unbound :=
  lastAn_ne_unbound z tol step fS fB t0

/-- Termination of the bisection.  Once the stepping loop has handed over its bracket `(tOld - step, tOld]`
    (`stepLoop … = some (tOld, k)`: trusted for real orbits, whose z changes sign every half period),
    if z changes by at most `tol` per tick inside the bracket and the step is at most `2^K` ticks, then
    for every bisection fuel above `K` the search returns a result after at most `K + 1` bisection
    steps, and the result has |z| ≤ tol, lies in the bracket, and is not later than the query. -/
theorem bisect_terminates (z : Int → ℝ) (tol : ℝ) (step : Int) (fS fB : Nat) (t0 tOld : Int) (k K : Nat)
    (hs : stepLoop z step fS t0 = some (tOld, k)) (hstep : 0 < step) (hK : step ≤ 2 ^ K) (hfB : K < fB)
    (hL : ∀ t, tOld - step ≤ t → t < tOld → |z (t + 1) - z t| ≤ tol) :
    ∃ f, lastAn z tol step fS fB t0 = .ok f ∧ f.steps = k ∧ f.mids.length ≤ K + 1 ∧
      |z f.t| ≤ tol ∧ tOld - step ≤ f.t ∧ f.t ≤ tOld ∧ f.t ≤ t0 := by
  obtain ⟨f, h1, h2, h3⟩ := lastAn_complete z tol step fS fB t0 tOld k K hs hstep hK hfB hL
  obtain ⟨tOld', e1, _, _, _, e5, e6, e7, _⟩ := lastAn_sound z tol step fS fB t0 f hstep.le h1
  rw [hs, h2] at e1
  have : tOld' = tOld := by
    simp only [Option.some.injEq, Prod.mk.injEq] at e1; exact e1.1.symm
  subst this
  exact ⟨f, h1, h2, h3, e7, e5, e6, result_not_later z tol step fS fB t0 f hstep.le h1⟩

/-- The same with the interval's own logarithm: `Nat.log2 step + 2` bisection steps suffice. -/
theorem bisect_terminates_log2 (z : Int → ℝ) (tol : ℝ) (step : Nat) (fS fB : Nat) (t0 tOld : Int) (k : Nat)
    (hs : stepLoop z (step : Int) fS t0 = some (tOld, k)) (hstep : 0 < step) (hfB : Nat.log2 step + 1 < fB)
    (hL : ∀ t, tOld - (step : Int) ≤ t → t < tOld → |z (t + 1) - z t| ≤ tol) :
    ∃ f, lastAn z tol (step : Int) fS fB t0 = .ok f ∧ f.mids.length ≤ Nat.log2 step + 2 ∧ |z f.t| ≤ tol ∧ f.t ≤ t0 := by
  have hK : (step : Int) ≤ 2 ^ (Nat.log2 step + 1) := by
    have := @Nat.lt_log2_self step
    exact_mod_cast this.le
  obtain ⟨f, h1, _, h3, h4, _, _, h7⟩ :=
    bisect_terminates z tol (step : Int) fS fB t0 tOld k (Nat.log2 step + 1) hs (by exact_mod_cast hstep) hK hfB hL
  exact ⟨f, h1, h3, h4, h7⟩

/-- Every time representation: with the µs lift the step is 6·10⁸ µs ≤ 2³⁰ (6·10¹¹ ns ≤ 2⁴⁰ for ns
    inputs), so 41 units of bisection fuel always suffice, whenever z changes by at most 1 m per tick
    (a satellite moves < 8 km/s = 8·10⁻⁶ km per µs). -/
theorem bisect_terminates_every_unit (z : Int → ℝ) (u : Time.Unit) (fS : Nat) (ticks tOld : Int) (k : Nat)
    (hs : stepLoop z (stepTicks u) fS (toSearchTicks u ticks) = some (tOld, k))
    (hL : ∀ t, tOld - stepTicks u ≤ t → t < tOld → |z (t + 1) - z t| ≤ 1e-3) :
    ∃ f, lastAnOf z u fS 41 ticks = .ok f ∧ f.mids.length ≤ 41 ∧ |z f.t| ≤ 1 ∧
      f.t * Time.nsPerTick (searchUnit u) ≤ ticks * Time.nsPerTick u := by
  have htol : (tolKm : ℝ) = 1e-3 := by unfold tolKm; rw [r_ofSci]
  have hstep : 0 < stepTicks u ∧ stepTicks u ≤ 2 ^ 40 := by
    cases u <;> simp [stepTicks, searchUnit, Time.nsPerTick]
  obtain ⟨f, h1, _, h3, _⟩ :=
    bisect_terminates z tolKm (stepTicks u) fS 41 (toSearchTicks u ticks) tOld k 40 hs hstep.1 hstep.2 (by omega)
      (by rw [htol]; exact hL)
  obtain ⟨r1, _, r3⟩ := result_not_later_every_unit z u fS 41 ticks f h1
  exact ⟨f, h1, h3, r3, r1⟩

/-- The behaviour BEFORE the µs lift (commit 9b39664), recorded as a negative theorem about the old
    tick unit.  With ticks of one second (step = 600) or one minute (step = 10) there are trajectories
    on which the search never returns: a satellite rising through the equator at `v` km per tick
    (7 km/s: v = 7 resp. 420), half a tick after a tick.  The stepping loop stops at once, neither end
    is within the tolerance, and the bisection loop runs forever (no fuel suffices), its step having
    reached 0 ticks.  The same trajectory sampled in µs is resolved (`example` below). -/
theorem bisect_diverges_coarse (u : Time.Unit) (hu : u = Time.Unit.s ∨ u = Time.Unit.m) (v tol : ℝ)
    (htol : 0 ≤ tol) (hv : 2 * tol < v) :
    ∃ t0 : Int, 0 < zLine v t0 ∧ zLine v (t0 - stepTicksOld u) < 0 ∧
      ∀ fS fB : Nat, lastAn (zLine v) tol (stepTicksOld u) (fS + 1) fB t0 = .error .bisectFuel := by
  have hv0 : 0 < v := by linarith
  have hstep : 1 ≤ stepTicksOld u := by
    rcases hu with h | h <;> subst h <;> simp [stepTicksOld, Time.nsPerTick]
  have h1 : 0 < zLine v 1 := by unfold zLine; push_cast; linarith
  have h2 : zLine v (1 - stepTicksOld u) < 0 := by
    unfold zLine
    have : ((1 - stepTicksOld u : Int) : ℝ) ≤ 0 := by exact_mod_cast (by omega : 1 - stepTicksOld u ≤ 0)
    have : v * ((1 - stepTicksOld u : Int) : ℝ) ≤ 0 := mul_nonpos_of_nonneg_of_nonpos hv0.le this
    linarith
  refine ⟨1, h1, h2, ?_⟩
  intro fS fB
  rw [lastAn_real, stepLoop_succ, if_pos ⟨h1, h2⟩]
  simp only
  have f1 := zLine_far v tol hv htol 1
  have f2 := zLine_far v tol hv htol (1 - stepTicksOld u)
  rw [if_neg (not_lt.mpr f1.le), if_neg (not_le.mpr f2), if_pos f2, bisect_line_none v tol hv htol]

/-! ### get_equatorial_crossing_time -/

/-- The ascending equator-crossing time is where the continuous orbit number reaches an integer.
    `scipy.optimize.bisect` is an abstract root finder with the contract `BisContract` (final bracket
    ⊆ [tstart, tend], contains the returned x, at most δ wide, sign change across it); `N` is the
    continuous orbit number as a function of real time in µs (continuous: `orbit_number_continuous`).
    If a time `t` is returned then the offset is the INTEGER `int(N(tend))`, `tstart ≤ t ≤ tend`, and
    there is a real instant τ in [tstart, tend], within δ + 1 µs of `t`, with `N τ` equal to that integer. -/
theorem crossing_time_is_root (N : ℝ → ℝ) (hN : Continuous N) (bis : (ℝ → ℝ) → ℝ → ℝ → Option ℝ) (δ : ℝ)
    (hbis : BisContract bis δ) (tstart tend t : Int)
    (h : crossingTime (fun i : Int => N (i : ℝ)) (fun i : Int => (i : ℝ)) (fun x : ℝ => ⌊x⌋) bis
          tstart tend false = some t) :
    tstart ≤ t ∧ t ≤ tend ∧ ∃ (n : ℤ) (τ : ℝ), (n : ℝ) = pyInt (N (tend : ℝ)) ∧ N τ = n ∧
      |τ - (t : ℝ)| ≤ δ + 1 ∧ (tstart : ℝ) ≤ τ ∧ τ ≤ (tend : ℝ) := by
  obtain ⟨off, h1, h2, h3, τ, h4, h5, h6, h7⟩ := crossing_core N hN bis δ hbis tstart tend t false h
  have hoff : off = pyInt (N (tend : ℝ)) := by
    unfold crossingOffset at h1
    split at h1
    · cases h1
    · simpa using h1.symm
  obtain ⟨n, hn, _⟩ := int_is_trunc_real (N (tend : ℝ))
  exact ⟨h2, h3, n, τ, by rw [hn], by rw [h4, hoff, hn], h5, h6, h7⟩

/-- For the descending node the offset is that integer plus one half. -/
theorem crossing_time_descending (N : ℝ → ℝ) (hN : Continuous N) (bis : (ℝ → ℝ) → ℝ → ℝ → Option ℝ) (δ : ℝ)
    (hbis : BisContract bis δ) (tstart tend t : Int)
    (h : crossingTime (fun i : Int => N (i : ℝ)) (fun i : Int => (i : ℝ)) (fun x : ℝ => ⌊x⌋) bis
          tstart tend true = some t) :
    tstart ≤ t ∧ t ≤ tend ∧ ∃ τ : ℝ, N τ = pyInt (N (tend : ℝ)) + 0.5 ∧
      |τ - (t : ℝ)| ≤ δ + 1 ∧ (tstart : ℝ) ≤ τ ∧ τ ≤ (tend : ℝ) := by
  obtain ⟨off, h1, h2, h3, τ, h4, h5, h6, h7⟩ := crossing_core N hN bis δ hbis tstart tend t true h
  have hoff : off = pyInt (N (tend : ℝ)) + 0.5 := by
    unfold crossingOffset at h1
    split at h1
    · cases h1
    · simp only [if_true, Option.some.injEq] at h1
      rw [← h1, r_add, r_ofSci]
  exact ⟨h2, h3, τ, by rw [h4, hoff], h5, h6, h7⟩

/-- No crossing time is returned when the integer orbit number is the same at both ends. -/
theorem crossing_none_without_increment (n : Int → ℝ) (bis : (ℝ → ℝ) → ℝ → ℝ → Option ℝ)
    (tstart tend : Int) (desc : Bool) (h : pyInt (n tend) = pyInt (n tstart)) :
    crossingTime n (fun i : Int => (i : ℝ)) (fun x : ℝ => ⌊x⌋) bis tstart tend desc = none := by
  unfold crossingTime crossingOffset feq
  simp [h, r_le]

/-- the continuous orbit number is a continuous function of time (µs as a real number) -/
theorem orbit_number_continuous (rev P nd ndd an : ℝ) :
    Continuous fun τ : ℝ => orbitNumber rev ((τ - an) / 86400000000) P nd ndd false true :=
  orbit_continuous rev P nd ndd an

/-! ### non-vacuity -/

-- monotonicity hypotheses: a sun-synchronous orbit (P = 0.0704 d), typical derivative fields
example : (0 : ℝ) < 0.0704 ∧ (0.0704 : ℝ) ≤ 0.16 ∧ |(4.46e-6 : ℝ)| ≤ 0.25 ∧ |(0 : ℝ)| ≤ 0.03 ∧
    (-1.2 : ℝ) ≤ -1 ∧ (5 : ℝ) ≤ 5.2 ∧ (-1 : ℝ) < 5 := by
  refine ⟨by norm_num, by norm_num, ?_, by rw [abs_zero]; norm_num, by norm_num, by norm_num, by norm_num⟩
  rw [abs_of_pos (by norm_num)]; norm_num

-- the 7 km/s line sampled in µs (7e-6 km per tick) satisfies the per-tick bound of `bisect_terminates`
example : ∀ t : Int, |zLine 7e-6 (t + 1) - zLine 7e-6 t| ≤ 1e-3 := by
  intro t
  unfold zLine
  have : (7e-6 : ℝ) * ((t + 1 : Int) : ℝ) - 7e-6 / 2 - (7e-6 * (t : ℝ) - 7e-6 / 2) = 7e-6 := by push_cast; ring
  rw [this, abs_of_pos (by norm_num)]; norm_num

-- …and its stepping loop does hand over a bracket: from tick 300000000 (300 s) one evaluation suffices
example : stepLoop (zLine 7e-6) 600000000 1 300000000 = some (300000000, 0) := by
  rw [stepLoop_succ, if_pos]
  unfold zLine
  constructor <;> norm_num

-- hypotheses of `bisect_diverges_coarse`: 7 km per 1-s tick, tolerance 1 km
example : (0 : ℝ) ≤ 1 ∧ 2 * (1 : ℝ) < 7 := by norm_num

-- a root finder meeting `BisContract` exists (exact bisection of a function vanishing at the returned point)
example : BisContract (fun f a b => if a ≤ b ∧ f a = 0 then some a else none) 0 := by
  intro f a b x h
  simp only at h
  split at h
  · rename_i hc
    cases h
    exact ⟨a, a, le_refl _, le_refl _, le_refl _, hc.1, by simp, Or.inl ⟨hc.2.le, hc.2.ge⟩⟩
  · cases h

-- `crossing_time_is_root`: a crossing time is returned, e.g. N τ = τ on [0, 2] with a root finder that tests the right end
example : crossingTime (fun i : Int => (i : ℝ)) (fun i : Int => (i : ℝ)) (fun x : ℝ => ⌊x⌋)
    (fun f _ b => if f b = 0 then some b else none) 0 2 false = some 2 := by
  have h2 : pyInt ((2 : Int) : ℝ) = 2 := by rw [pyInt_real]; norm_num
  have h0 : pyInt ((0 : Int) : ℝ) = 0 := by rw [pyInt_real]; norm_num
  unfold crossingTime crossingOffset feq
  simp only [h2, h0, r_sub, r_le, r_ofNat]
  norm_num

-- `reference_node_is_node`: an object whose epoch is at the node (z = 0.5 km, vz > 0) has the epoch as reference node
example : initAnTime ({ z := fun _ => 0.5, vz := fun _ => 1, epoch := 5, rev := 1, nd := 0, ndd := 0, fuelS := 1, fuelB := 1 } : Env ℝ)
    = .ok 5 := by
  have h : epochAtNode ({ z := fun _ => 0.5, vz := fun _ => 1, epoch := 5, rev := 1, nd := 0, ndd := 0, fuelS := 1, fuelB := 1 } : Env ℝ) = true := by
    rw [epochAtNode_iff]; constructor
    · rw [abs_of_pos (by norm_num)]; norm_num
    · norm_num
  unfold initAnTime
  rw [if_pos h]

-- the cache invariant is met by a fresh object, and the slots of the model are exercised by the driver
example {α : Type} [Num α] (e : Env α) : SlotsOk e fresh := slotsOk_fresh e

end PV.C11
