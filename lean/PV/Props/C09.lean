/-
  C09 — Corrupted TLE lines are rejected by the modulo-10 checksum.
  Theorems about PV.Model.Checksum (core Lean only; unbounded line length).
-/
import PV.Model.Checksum
namespace PV.C09
open PV.Text PV.Checksum

/-! ### helper lemmas -/

theorem weight_lt_ten (c : Char) : weight c < 10 := by
  unfold weight isAsciiDigit digitVal
  split
  · rename_i h
    simp only [decide_eq_true_eq] at h
    omega
  · split <;> omega

theorem digit_weight (c : Char) (h : isAsciiDigit c = true) : weight c = digitVal c := by
  unfold weight; simp [h]

theorem digitVal_inj (a b : Char) (ha : isAsciiDigit a = true) (hb : isAsciiDigit b = true)
    (h : digitVal a = digitVal b) : a = b := by
  unfold isAsciiDigit at ha hb
  simp only [decide_eq_true_eq] at ha hb
  unfold digitVal at h
  have : a.toNat = b.toNat := by omega
  exact Char.toNat_inj.mp this

theorem sumW_append (a b : List Char) : sumW (a ++ b) = sumW a + sumW b := by
  induction a with
  | nil => simp [sumW]
  | cons c cs ih => simp [sumW, ih]; omega

/-- replacing one character changes the weighted sum by exactly the weight difference -/
theorem sumW_set (l : List Char) (i : Nat) (c : Char) (h : i < l.length) :
    sumW (l.set i c) + weight l[i] = sumW l + weight c := by
  induction l generalizing i with
  | nil => simp at h
  | cons x xs ih =>
    cases i with
    | zero => simp [sumW]; omega
    | succ j =>
      have hj : j < xs.length := by simpa using h
      have := ih j hj
      simp [sumW]; omega

theorem getLast?_set_of_lt (l : List Char) (i : Nat) (c : Char) (h : i + 1 < l.length) :
    (l.set i c).getLast? = l.getLast? := by
  rw [List.getLast?_eq_getElem?, List.getLast?_eq_getElem?]
  simp only [List.length_set]
  rw [List.getElem?_set_ne (by omega)]

theorem dropLast_set_of_lt (l : List Char) (i : Nat) (c : Char) (_h : i + 1 < l.length) :
    (l.set i c).dropLast = l.dropLast.set i c := by
  rw [List.dropLast_eq_take, List.dropLast_eq_take, List.length_set, List.take_set]

theorem lineCheck_good_iff (l : List Char) : lineCheck l = .good ↔ goodLine l := by
  unfold lineCheck goodLine
  cases hl : l.getLast? with
  | none => simp
  | some d =>
    simp only [Option.some.injEq, exists_eq_left']
    by_cases hd : isAsciiDigit d = true
    · simp [hd]
    · simp [hd]

/-! ### the property -/

/-- Accepted exactly when both stripped lines end in the digit `(digits + minus signs) mod 10`. -/
theorem accept_iff (l1 l2 : List Char) :
    accept l1 l2 = .accepted ↔ goodLine (strip l1) ∧ goodLine (strip l2) := by
  rw [← lineCheck_good_iff, ← lineCheck_good_iff]
  unfold accept
  cases h1 : lineCheck (strip l1) <;> cases h2 : lineCheck (strip l2) <;> simp [ofLine]

/-- Any replacement in the body of a good line that changes the character's weight mod 10 is a checksum error. -/
theorem corrupt_body_rejected (l : List Char) (i : Nat) (c : Char)
    (hg : goodLine l) (hi : i + 1 < l.length)
    (hw : weight c % 10 ≠ weight (l[i]'(by omega)) % 10) :
    lineCheck (l.set i c) = .checksumError := by
  obtain ⟨d, hlast, hd, hsum⟩ := hg
  unfold lineCheck
  rw [getLast?_set_of_lt l i c hi, hlast]
  simp only [hd, if_true]
  rw [dropLast_set_of_lt l i c hi]
  have hi' : i < l.dropLast.length := by simp; omega
  have hs := sumW_set l.dropLast i c hi'
  have hget : l.dropLast[i] = l[i]'(by omega) := by simp [List.getElem_dropLast]
  rw [hget] at hs
  have : sumW (l.dropLast.set i c) % 10 ≠ digitVal d := by
    intro hcontra
    omega
  simp [this]

/-- Replacing the check digit of a good line by another digit is a checksum error. -/
theorem corrupt_check_digit_rejected (l : List Char) (c : Char)
    (hg : goodLine l) (hc : isAsciiDigit c = true)
    (hne : l.getLast? ≠ some c) :
    lineCheck (l.set (l.length - 1) c) = .checksumError := by
  obtain ⟨d, hlast, hd, hsum⟩ := hg
  have hlen : 0 < l.length := by
    cases l with
    | nil => simp at hlast
    | cons _ _ => simp
  have hne' : l ≠ [] := by intro h; subst h; simp at hlast
  have hl : l = l.dropLast ++ [d] := by
    have h1 := List.dropLast_concat_getLast hne'
    have h2 : l.getLast hne' = d := by
      have := List.getLast?_eq_some_getLast hne'
      rw [hlast] at this; exact (Option.some.inj this).symm
    rw [h2] at h1; exact h1.symm
  have hset : l.set (l.length - 1) c = l.dropLast ++ [c] := by
    have hlen2 : l.length - 1 = l.dropLast.length := by simp
    rw [hlen2]
    have : (l.dropLast ++ [d]).set l.dropLast.length c = l.dropLast ++ [c] := by
      rw [List.set_append_right _ _ (Nat.le_refl _)]
      simp
    rw [← hl] at this
    exact this
  unfold lineCheck
  rw [hset]
  simp only [List.getLast?_append, List.getLast?_singleton, Option.some_or, List.dropLast_concat, hc, if_true]
  have hcd : c ≠ d := by
    intro h; apply hne; rw [hlast, h]
  have : digitVal c ≠ digitVal d := fun h => hcd (digitVal_inj c d hc hd h)
  have : ¬ sumW l.dropLast % 10 = digitVal c := by omega
  simp [this]

/-- Replacing any one digit (the check digit included) of a good line by a different digit is a checksum error. -/
theorem digit_swap_rejected (l : List Char) (i : Nat) (c : Char)
    (hg : goodLine l) (hi : i < l.length)
    (hold : isAsciiDigit (l[i]) = true) (hc : isAsciiDigit c = true) (hne : c ≠ l[i]) :
    lineCheck (l.set i c) = .checksumError := by
  by_cases hlast : i + 1 < l.length
  · apply corrupt_body_rejected l i c hg hlast
    rw [digit_weight c hc, digit_weight _ hold]
    have h1 := weight_lt_ten c
    have h2 := weight_lt_ten l[i]
    rw [digit_weight c hc] at h1
    rw [digit_weight _ hold] at h2
    intro h
    apply hne
    apply digitVal_inj c _ hc hold
    omega
  · have hi' : i = l.length - 1 := by omega
    subst hi'
    apply corrupt_check_digit_rejected l c hg hc
    rw [List.getLast?_eq_getElem?]
    intro h
    apply hne
    have : l[l.length - 1]? = some l[l.length - 1] := List.getElem?_eq_getElem hi
    rw [this] at h
    exact (Option.some.inj h).symm

theorem lstrip_length_le (m : List Char) : (lstrip m).length ≤ m.length := by
  induction m with
  | nil => simp [lstrip]
  | cons y ys ih => simp only [lstrip]; split <;> simp <;> omega

theorem lstrip_eq_self_iff (l : List Char) : lstrip l = l ↔ (∀ c, l.head? = some c → isPyWs c = false) := by
  cases l with
  | nil => simp [lstrip]
  | cons x xs =>
    simp only [lstrip, List.head?_cons, Option.some.injEq, forall_eq']
    cases hx : isPyWs x with
    | true =>
      simp only [if_true]
      constructor
      · intro h
        have hlen := lstrip_length_le xs
        rw [h] at hlen; simp at hlen; omega
      · intro h; simp at h
    | false => simp

theorem lstrip_ne_length_lt (l : List Char) (h : lstrip l ≠ l) : (lstrip l).length < l.length := by
  cases l with
  | nil => simp [lstrip] at h
  | cons x xs =>
    simp only [lstrip] at h ⊢
    cases hx : isPyWs x with
    | true => simp only [if_true]; have := lstrip_length_le xs; simp; omega
    | false => simp [hx] at h

/-- characterisation of lines that `strip` leaves unchanged -/
theorem strip_eq_self_iff (l : List Char) :
    strip l = l ↔ (∀ c, l.head? = some c → isPyWs c = false) ∧ (∀ c, l.getLast? = some c → isPyWs c = false) := by
  unfold strip rstrip
  constructor
  · intro h
    have hl : lstrip l = l := by
      apply Classical.byContradiction
      intro hcon
      have h1 := lstrip_ne_length_lt l hcon
      have h2 := lstrip_length_le (lstrip l).reverse
      have h3 : (lstrip (lstrip l).reverse).reverse.length = l.length := by rw [h]
      simp at h3 h2
      omega
    rw [hl] at h
    have hr : lstrip l.reverse = l.reverse := by
      have := congrArg List.reverse h
      simpa using this
    refine ⟨(lstrip_eq_self_iff l).mp hl, ?_⟩
    have := (lstrip_eq_self_iff l.reverse).mp hr
    simpa using this
  · rintro ⟨h1, h2⟩
    have hl := (lstrip_eq_self_iff l).mpr h1
    rw [hl]
    have hr := (lstrip_eq_self_iff l.reverse).mpr (by simpa using h2)
    rw [hr]; simp

/-- A stripped line stays stripped when one character is replaced by a non-blank one. -/
theorem strip_set_of_nonblank (l : List Char) (i : Nat) (c : Char)
    (hs : strip l = l) (hc : isPyWs c = false) : strip (l.set i c) = l.set i c := by
  rw [strip_eq_self_iff] at hs ⊢
  obtain ⟨h1, h2⟩ := hs
  constructor
  · intro x hx
    cases l with
    | nil => simp at hx
    | cons y ys =>
      cases i with
      | zero => simp at hx; rw [← hx]; exact hc
      | succ j => simp at hx; exact h1 x (by simp [hx])
  · intro x hx
    rw [List.getLast?_eq_getElem?] at hx
    simp only [List.length_set] at hx
    by_cases hi : i = l.length - 1
    · by_cases hl : l.length = 0
      · have : l = [] := List.length_eq_zero_iff.mp hl
        subst this; simp at hx
      · rw [hi, List.getElem?_set_self (by omega)] at hx
        rw [← Option.some.inj hx]; exact hc
    · rw [List.getElem?_set_ne (by omega)] at hx
      apply h2 x
      rw [List.getLast?_eq_getElem?]; exact hx

theorem digit_not_ws (c : Char) (h : isAsciiDigit c = true) : isPyWs c = false := by
  unfold isAsciiDigit at h
  simp only [decide_eq_true_eq] at h
  have h1 : 48 ≤ c.toNat := h.1
  unfold isPyWs
  simp only [Bool.or_eq_false_iff, decide_eq_false_iff_not]
  refine ⟨⟨⟨⟨⟨⟨⟨⟨⟨?_, ?_⟩, ?_⟩, ?_⟩, ?_⟩, ?_⟩, ?_⟩, ?_⟩, ?_⟩, ?_⟩ <;>
    (intro hc; subst hc; simp at h1)

/-- TLE level, line 1: an accepted pair with one digit of line 1 replaced by a different digit is rejected
    with a checksum error (lines as stored, i.e. stripped). -/
theorem tle_digit_swap_line1_rejected (l1 l2 : List Char) (i : Nat) (c : Char)
    (hs1 : strip l1 = l1) (hacc : accept l1 l2 = .accepted) (hi : i < l1.length)
    (hold : isAsciiDigit (l1[i]) = true) (hc : isAsciiDigit c = true) (hne : c ≠ l1[i]) :
    accept (l1.set i c) l2 = .checksumError := by
  have hg := ((accept_iff l1 l2).mp hacc).1
  rw [hs1] at hg
  unfold accept
  rw [strip_set_of_nonblank l1 i c hs1 (digit_not_ws c hc)]
  rw [digit_swap_rejected l1 i c hg hi hold hc hne]
  rfl

/-- TLE level, line 2. -/
theorem tle_digit_swap_line2_rejected (l1 l2 : List Char) (i : Nat) (c : Char)
    (hs2 : strip l2 = l2) (hacc : accept l1 l2 = .accepted) (hi : i < l2.length)
    (hold : isAsciiDigit (l2[i]) = true) (hc : isAsciiDigit c = true) (hne : c ≠ l2[i]) :
    accept l1 (l2.set i c) = .checksumError := by
  have hg := (accept_iff l1 l2).mp hacc
  have hg2 := hg.2
  rw [hs2] at hg2
  have h1 : lineCheck (strip l1) = .good := (lineCheck_good_iff _).mpr hg.1
  unfold accept
  rw [h1]
  simp only
  rw [strip_set_of_nonblank l2 i c hs2 (digit_not_ws c hc)]
  rw [digit_swap_rejected l2 i c hg2 hi hold hc hne]
  rfl

/-- A rejected pair never reaches the parser: the constructor returns the error, no elements. -/
theorem rejected_never_parsed {β : Type} (parse : List Char → List Char → β) (l1 l2 : List Char)
    (h : accept l1 l2 ≠ .accepted) : ∃ o, tleOfLines parse l1 l2 = .error o ∧ o ≠ .accepted := by
  unfold tleOfLines
  cases hacc : accept l1 l2 with
  | accepted => exact absurd hacc h
  | checksumError => exact ⟨_, rfl, by simp⟩
  | valueError => exact ⟨_, rfl, by simp⟩
  | indexError => exact ⟨_, rfl, by simp⟩

/-! ### non-vacuity: the ISS 2008 element set of the test-suite is accepted, and a corrupted copy is not -/

def iss1 : List Char := "1 25544U 98067A   08264.51782528 -.00002182  00000-0 -11606-4 0  2927".toList
def iss2 : List Char := "2 25544  51.6416 247.4627 0006703 130.5360 325.0288 15.72125391563537".toList

example : accept iss1 iss2 = .accepted := by decide
example : strip iss1 = iss1 ∧ strip iss2 = iss2 := by decide
example : accept (iss1.set 20 '9') iss2 = .checksumError := by decide

end PV.C09
