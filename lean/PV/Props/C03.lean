/-
  C03 — Pass prediction is sound and complete: rise, fall and culmination are real.

  Theorems about PV.Model.Passes (the discrete logic of `Orbital.get_next_passes`, read over ℝ) for
  EVERY sample list (any length) and EVERY root finder / maximiser meeting the stated contracts
  (PV.Lemmas.C03Spec: `Sampled`, `RootContract`, `NoZeroSample`, `MaxInBracket`, `MaxInside`,
  `MaxAccurate`).  Times are minutes since the start of the search; `e` is elevation − horizon at the
  whole minutes 0 … len−1, `f` the same quantity at real times.

  What is NOT proved here (measured by the oracle of harness/props/c03.py): that brentq and the
  maximiser of the real code meet their contracts to 1e-4° / 0.01° in binary64, and that the
  elevation has one hump per pass (hypothesis of `bracket_contains_peak`, `culmination_near_max`).

  `NoZeroSample` is necessary: `exact_zero_sample_degenerate_pass` exhibits samples with one value
  exactly on the horizon for which the code's loop reports a pass with rise = fall (the loop treats
  a zero sample as "above" and never resets `risetime`).
  Helper lemmas: PV/Lemmas/C03Loop.lean, C03Real.lean, C03Culm.lean, C03Spec.lean, C03Parab.lean.
-/
import PV.Lemmas.C03Spec
import PV.Lemmas.C03Parab
import PV.Lemmas.C03Examples
namespace PV.C03
open PV PV.Passes PV.C03L

/-! ### every interval longer than a minute contains a minute sample -/

theorem int_in_long_interval (a b : ℝ) (h : 1 < b - a) : ∃ n : ℤ, a < (n : ℝ) ∧ (n : ℝ) < b := by
  refine ⟨⌊a⌋ + 1, ?_, ?_⟩
  · push_cast; exact Int.lt_floor_add_one a
  · push_cast; linarith [Int.floor_le a]

/-! ### rise and fall are roots in their minute brackets -/

/-- Every reported pass pairs a rise crossing `g1` (sample below the horizon) with a later fall
    crossing `g2` (sample not below); rise and fall are the root finder's answers there, so they lie in
    `[g1, g1+1]`, `[g2, g2+1]` and the elevation equals the horizon at both.  No assumption on zeros. -/
theorem rise_fall_are_roots {f : ℝ → ℝ} {e : List ℝ} {root : ℕ → ℝ} (maxim : ℝ → ℝ → ℝ)
    (hs : Sampled f e) (hr : RootContract f e root) (p : Pass ℝ) (hp : p ∈ passes e root maxim) :
    ∃ g1 g2 : ℕ, g1 ∈ zeroCrossings e ∧ g2 ∈ zeroCrossings e ∧ g1 < g2 ∧ g2 + 1 < e.length ∧
      f (g1 : ℝ) < 0 ∧ 0 ≤ f (g2 : ℝ) ∧ p.rise = root g1 ∧ p.fall = root g2 ∧
      (g1 : ℝ) ≤ p.rise ∧ p.rise ≤ (g1 : ℝ) + 1 ∧ f p.rise = 0 ∧
      (g2 : ℝ) ≤ p.fall ∧ p.fall ≤ (g2 : ℝ) + 1 ∧ f p.fall = 0 := by
  obtain ⟨g1, g2, _, hpe, hz1, hz2, h12, hN, hn, hp2, a1, a2, a3, b1, b2, b3⟩ := pass_data maxim hs hr hp
  subst hpe
  exact ⟨g1, g2, hz1, hz2, h12, hN, hn, hp2, rfl, rfl, a1, a2, a3, b1, b2, b3⟩

/-! ### order -/

/-- Without any assumption on zero samples: start ≤ rise ≤ fall for every pass, and the passes are
    listed in the order of their falls. -/
theorem passes_ordered_weak {f : ℝ → ℝ} {e : List ℝ} {root : ℕ → ℝ} (maxim : ℝ → ℝ → ℝ)
    (hs : Sampled f e) (hr : RootContract f e root) :
    (∀ p ∈ passes e root maxim, 0 ≤ p.rise ∧ p.rise ≤ p.fall) ∧
    (passes e root maxim).Pairwise (fun p q => p.fall ≤ q.fall) := by
  constructor
  · intro p hp
    obtain ⟨g1, g2, _, hpe, _, _, h12, _, _, _, a1, a2, _, b1, _, _⟩ := pass_data maxim hs hr hp
    subst hpe
    have hc : (g1 : ℝ) + 1 ≤ (g2 : ℝ) := by exact_mod_cast h12
    have h0 : (0 : ℝ) ≤ (g1 : ℝ) := Nat.cast_nonneg g1
    exact ⟨by show 0 ≤ root g1; linarith, by show root g1 ≤ root g2; linarith⟩
  · rw [passes_eq_map, List.pairwise_map]
    refine List.Pairwise.imp_of_mem ?_ (loopIdx_sorted (riseAt e) (zeroCrossings e) (zeroCrossings_sorted e) none)
    intro a b ha hb hab
    have hza := snd_mem_of_mem_loopIdx _ _ _ _ ha
    have hzb := snd_mem_of_mem_loopIdx _ _ _ _ hb
    obtain ⟨_, a2, _⟩ := hr _ hza
    obtain ⟨b1, _, _⟩ := hr _ hzb
    have hc : (a.2 : ℝ) + 1 ≤ (b.2 : ℝ) := by exact_mod_cast hab
    show root a.2 ≤ root b.2
    linarith

/-- With no sample exactly on the horizon: start < rise < fall for every pass, and the passes are in
    time order and disjoint (each pass has fallen before the next one rises). -/
theorem passes_ordered {f : ℝ → ℝ} {e : List ℝ} {root : ℕ → ℝ} (maxim : ℝ → ℝ → ℝ)
    (hs : Sampled f e) (hr : RootContract f e root) (hnz : NoZeroSample e) :
    (∀ p ∈ passes e root maxim, 0 < p.rise ∧ p.rise < p.fall) ∧
    (passes e root maxim).Pairwise (fun p q => p.fall < q.rise) := by
  constructor
  · intro p hp
    obtain ⟨g1, g2, _, hpe, h12, _, _, _, _, a1, a2, _, b1, _, _⟩ := pass_run maxim hs hr hnz hp
    subst hpe
    have hc : (g1 : ℝ) + 1 ≤ (g2 : ℝ) := by exact_mod_cast h12
    have h0 : (0 : ℝ) ≤ (g1 : ℝ) := Nat.cast_nonneg g1
    exact ⟨by show 0 < root g1; linarith, by show root g1 < root g2; linarith⟩
  · rw [passes_eq_map, List.pairwise_map]
    refine List.Pairwise.imp_of_mem ?_ (loopIdx_sorted (riseAt e) (zeroCrossings e) (zeroCrossings_sorted e) none)
    intro a b ha hb hab
    have hpa : Paired e a.1 a.2 := ha
    have hpb : Paired e b.1 b.2 := hb
    have hd := paired_disjoint hs.view (hnz.view hs) hpa hpb hab
    have hza := snd_mem_of_mem_loopIdx _ _ _ _ ha
    have hzb1 : b.1 ∈ zeroCrossings e := ((paired_iff e b.1 b.2).mp hpb).2.2.1
    obtain ⟨_, a2⟩ := root_strict hs hr hnz hza
    obtain ⟨b1, _⟩ := root_strict hs hr hnz hzb1
    have hc : (a.2 : ℝ) + 1 ≤ (b.1 : ℝ) := by exact_mod_cast hd
    show root a.2 < root b.1
    linarith

/-! ### the samples of a pass -/

/-- With no sample on the horizon, every reported pass is exactly a maximal run of above-horizon
    minute samples: every whole minute strictly between rise and fall is a positive sample (and there
    is at least one), the minute mark just before the rise and the one just after the fall are
    negative samples. -/
theorem samples_between_positive {f : ℝ → ℝ} {e : List ℝ} {root : ℕ → ℝ} (maxim : ℝ → ℝ → ℝ)
    (hs : Sampled f e) (hr : RootContract f e root) (hnz : NoZeroSample e)
    (p : Pass ℝ) (hp : p ∈ passes e root maxim) :
    (∀ i : ℕ, p.rise < (i : ℝ) → (i : ℝ) < p.fall → ∃ h : i < e.length, 0 < e[i]) ∧
    (∃ i : ℕ, p.rise < (i : ℝ) ∧ (i : ℝ) < p.fall) ∧
    (∃ g1 g2 : ℕ, ∃ _ : g1 < g2, ∃ _ : g2 + 1 < e.length, ⌊p.rise⌋ = (g1 : ℤ) ∧ ⌈p.fall⌉ = (g2 : ℤ) + 1 ∧
        e[g1]'(by omega) < 0 ∧ e[g2 + 1] < 0) := by
  obtain ⟨g1, g2, _, hpe, h12, hN, hn1, hpos, hn2, a1, a2, _, b1, b2, _⟩ := pass_run maxim hs hr hnz hp
  subst hpe
  have hc : (g1 : ℝ) + 1 ≤ (g2 : ℝ) := by exact_mod_cast h12
  refine ⟨?_, ?_, ?_⟩
  · intro i hi1 hi2
    have hi1' : root g1 < (i : ℝ) := hi1
    have hi2' : (i : ℝ) < root g2 := hi2
    have h1 : g1 < i := by
      have : (g1 : ℝ) < (i : ℝ) := by linarith
      exact_mod_cast this
    have h2 : i ≤ g2 := by
      have : (i : ℝ) < (g2 : ℝ) + 1 := by linarith
      have : i < g2 + 1 := by exact_mod_cast this
      omega
    have hi : i < e.length := by omega
    exact ⟨hi, by rw [hs i hi]; exact hpos i h1 h2⟩
  · refine ⟨g1 + 1, ?_, ?_⟩
    · show root g1 < ((g1 + 1 : ℕ) : ℝ); push_cast; exact a2
    · show ((g1 + 1 : ℕ) : ℝ) < root g2; push_cast; linarith
  · refine ⟨g1, g2, h12, hN, ?_, ?_, ?_, ?_⟩
    · show ⌊root g1⌋ = (g1 : ℤ)
      rw [Int.floor_eq_iff]; exact ⟨by exact_mod_cast a1.le, by exact_mod_cast a2⟩
    · show ⌈root g2⌉ = (g2 : ℤ) + 1
      rw [Int.ceil_eq_iff]; push_cast; exact ⟨by linarith, b2.le⟩
    · rw [hs g1 (by omega)]; exact hn1
    · rw [hs (g2 + 1) hN]; exact hn2

/-! ### completeness -/

/-- Discrete completeness (no assumption on zeros elsewhere): every maximal run of positive samples
    `g1+1 … g2` between a negative sample at `g1` and a negative sample at `g2+1` is reported, with the
    root finder's answers in `[g1, g1+1]` and `[g2, g2+1]`. -/
theorem completeness_discrete {f : ℝ → ℝ} {e : List ℝ} (root : ℕ → ℝ) (maxim : ℝ → ℝ → ℝ)
    (hs : Sampled f e) (g1 g2 : ℕ) (h12 : g1 < g2) (hN : g2 + 1 < e.length)
    (hn1 : f (g1 : ℝ) < 0) (hpos : ∀ k : ℕ, g1 < k → k ≤ g2 → 0 < f (k : ℝ)) (hn2 : f ((g2 + 1 : ℕ) : ℝ) < 0) :
    ∃ p ∈ passes e root maxim, p.rise = root g1 ∧ p.fall = root g2 :=
  ⟨mkPass e maxim (root g1) (root g2),
    (mem_passes_iff e root maxim _).mpr ⟨g1, g2, paired_of_run hs.view h12 hN hn1 hpos hn2, rfl⟩, rfl, rfl⟩

/-- Completeness: let the elevation exceed the horizon exactly on `(a, b)` as far as the neighbouring
    minute marks (negative on `[⌊a⌋, a)` and on `(b, ⌈b⌉]`, `a` and `b` not on a minute mark), with
    `b − a` more than one minute, `a` after the start and `b` at least one minute before the end of the
    window (`b ≤ len − 1`; the last sample is at minute `len − 1`).  Then the output contains a pass with
    rise = `a` and fall = `b`. -/
theorem completeness {f : ℝ → ℝ} {e : List ℝ} {root : ℕ → ℝ} (maxim : ℝ → ℝ → ℝ)
    (hs : Sampled f e) (hr : RootContract f e root) (a b : ℝ)
    (hlen : 1 < b - a) (ha : 0 < a) (hb : b ≤ (e.length : ℝ) - 1)
    (ha' : (⌊a⌋ : ℝ) < a) (hb' : b < (⌈b⌉ : ℝ))
    (hpos : ∀ t, a < t → t < b → 0 < f t)
    (hbefore : ∀ t, (⌊a⌋ : ℝ) ≤ t → t < a → f t < 0)
    (hafter : ∀ t, b < t → t ≤ (⌈b⌉ : ℝ) → f t < 0) :
    ∃ p ∈ passes e root maxim, p.rise = a ∧ p.fall = b := by
  have hfa : 0 ≤ ⌊a⌋ := Int.floor_nonneg.mpr ha.le
  have hcb : 1 ≤ ⌈b⌉ := by
    have : (0 : ℝ) < b := by linarith
    exact Int.one_le_ceil_iff.mpr this
  obtain ⟨na, hna⟩ := Int.eq_ofNat_of_zero_le hfa
  obtain ⟨nb1, hnb1⟩ := Int.eq_ofNat_of_zero_le (by omega : 0 ≤ ⌈b⌉ - 1)
  have hcb' : ⌈b⌉ = (nb1 : ℤ) + 1 := by omega
  have hA : (⌊a⌋ : ℝ) = (na : ℝ) := by rw [hna]; simp
  have hB : (⌈b⌉ : ℝ) = (nb1 : ℝ) + 1 := by rw [hcb']; push_cast; ring
  have hN : nb1 + 1 < e.length := by
    have h1 : (⌈b⌉ : ℝ) ≤ ((e.length - 1 : ℤ) : ℝ) := by
      have : ⌈b⌉ ≤ (e.length : ℤ) - 1 := Int.ceil_le.mpr (by push_cast; exact hb)
      exact_mod_cast this
    have h2 : (nb1 : ℝ) + 1 ≤ (e.length : ℝ) - 1 := by rw [← hB]; push_cast at h1; exact h1
    have h3 : (nb1 : ℝ) + 1 + 1 ≤ (e.length : ℝ) := by linarith
    have : nb1 + 1 + 1 ≤ e.length := by exact_mod_cast h3
    omega
  rw [hA] at ha' hbefore
  rw [hB] at hb' hafter
  obtain ⟨p, hp, h1, h2, _⟩ := complete_nat maxim hs hr (na := na) (nb := nb1) ha'
    (by rw [← hA]; exact Int.lt_floor_add_one a)
    (by have := Int.ceil_lt_add_one b; rw [hB] at this; linarith) hb' hlen hN hpos hbefore hafter
  exact ⟨p, hp, h1, h2⟩

/-! ### the best minute sample and the culmination bracket -/

/-- The guard `np.argmax` relies on and the position of `middle` (no assumption on zeros): the slice
    `elev[int_start:int_end]` is never empty, `middle` is an index of it, its sample is the first
    maximum of the slice; the bracket handed to the maximiser is `[max(rise, middle−1), min(fall,
    middle+1)]`, it is contained in `[rise, fall]` and is not inverted. -/
theorem middle_between {f : ℝ → ℝ} {e : List ℝ} {root : ℕ → ℝ} (maxim : ℝ → ℝ → ℝ)
    (hs : Sampled f e) (hr : RootContract f e root) (p : Pass ℝ) (hp : p ∈ passes e root maxim) :
    intStart p.rise < intEnd e p.fall ∧ intEnd e p.fall ≤ e.length ∧
    intStart p.rise ≤ p.middle ∧ p.middle < intEnd e p.fall ∧
    (∀ j : ℕ, intStart p.rise ≤ j → j < intEnd e p.fall → f (j : ℝ) ≤ f (p.middle : ℝ)) ∧
    (∀ j : ℕ, intStart p.rise ≤ j → j < p.middle → f (j : ℝ) < f (p.middle : ℝ)) ∧
    p.lo = max p.rise ((p.middle : ℝ) - 1) ∧ p.hi = min p.fall ((p.middle : ℝ) + 1) ∧
    p.culm = maxim p.lo p.hi ∧
    p.rise ≤ p.lo ∧ p.lo ≤ p.hi ∧ p.hi ≤ p.fall := by
  obtain ⟨g1, g2, _, hpe, _, _, h12, hN, _, _, a1, a2, _, b1, b2, _⟩ := pass_data maxim hs hr hp
  obtain ⟨c1, c2, c3, c4, c5, c6, _, c8, c9, c10, _, _, _⟩ :=
    mkPass_general hs.view maxim h12 hN a1 a2 b1 b2 p hpe
  obtain ⟨_, _, _, d4, d5, d6⟩ := mkPass_fields e maxim (root g1) (root g2)
  subst hpe
  exact ⟨c1, c2, c3, c4, c5, c6, d4, d5, d6, c8, c10, c9⟩

/-- The culmination lies in its bracket and the bracket in `[rise, fall]`: when the maximiser answers
    inside the closed bracket, rise ≤ culmination ≤ fall (no assumption on zeros). -/
theorem culm_in_bracket {f : ℝ → ℝ} {e : List ℝ} {root : ℕ → ℝ} {maxim : ℝ → ℝ → ℝ}
    (hs : Sampled f e) (hr : RootContract f e root) (hm : MaxInBracket maxim)
    (p : Pass ℝ) (hp : p ∈ passes e root maxim) :
    p.lo ≤ p.culm ∧ p.culm ≤ p.hi ∧ p.rise ≤ p.culm ∧ p.culm ≤ p.fall := by
  obtain ⟨_, _, _, _, _, _, _, _, hc, h1, h2, h3⟩ := middle_between maxim hs hr p hp
  obtain ⟨m1, m2⟩ := hm p.lo p.hi h2
  rw [hc]
  exact ⟨m1, m2, by linarith, by linarith⟩

/-- With no sample on the horizon: the best minute sample is strictly inside the pass and strictly
    inside the (non-degenerate) bracket, it is the first maximum over all minute samples of the pass;
    when the maximiser answers strictly inside its bracket, rise < culmination < fall. -/
theorem culm_strictly_between {f : ℝ → ℝ} {e : List ℝ} {root : ℕ → ℝ} {maxim : ℝ → ℝ → ℝ}
    (hs : Sampled f e) (hr : RootContract f e root) (hnz : NoZeroSample e)
    (p : Pass ℝ) (hp : p ∈ passes e root maxim) :
    p.rise < (p.middle : ℝ) ∧ (p.middle : ℝ) < p.fall ∧ p.lo < (p.middle : ℝ) ∧ (p.middle : ℝ) < p.hi ∧
    0 < f (p.middle : ℝ) ∧
    (∀ j : ℕ, p.rise < (j : ℝ) → (j : ℝ) < p.fall → f (j : ℝ) ≤ f (p.middle : ℝ)) ∧
    (∀ j : ℕ, p.rise < (j : ℝ) → j < p.middle → f (j : ℝ) < f (p.middle : ℝ)) ∧
    (MaxInside maxim → p.rise < p.culm ∧ p.culm < p.fall) := by
  obtain ⟨g1, g2, _, hpe, h12, hN, hn1, hpos, hn2, a1, a2, _, b1, b2, _⟩ := pass_run maxim hs hr hnz hp
  obtain ⟨_, _, _, _, c5, c6, c7, c8, c9, c10, c11⟩ :=
    mkPass_run hs.view maxim h12 hN a1 a2 b1 b2 hn1 hpos hn2 p hpe
  obtain ⟨_, _, _, _, _, _, _, d8, d9, _, _, _, _⟩ :=
    mkPass_general hs.view maxim h12 hN a1.le a2.le b1.le b2.le p hpe
  have hculm : p.culm = maxim p.lo p.hi := by subst hpe; rfl
  have hrise : p.rise = root g1 := by subst hpe; rfl
  have hfall : p.fall = root g2 := by subst hpe; rfl
  rw [hrise, hfall]
  refine ⟨c8, c9, c10, c11, c5, ?_, ?_, ?_⟩
  · intro j hj1 hj2
    have h1 : g1 < j := by
      have : (g1 : ℝ) < (j : ℝ) := by linarith
      exact_mod_cast this
    have h2 : j < g2 + 1 := by
      have : (j : ℝ) < (g2 : ℝ) + 1 := by linarith
      exact_mod_cast this
    exact c6 j h1.le (by omega)
  · intro j hj1 hj2
    have h1 : g1 < j := by
      have : (g1 : ℝ) < (j : ℝ) := by linarith
      exact_mod_cast this
    exact c7 j h1.le hj2
  · intro hm
    obtain ⟨m1, m2⟩ := hm p.lo p.hi (by linarith)
    rw [hculm]
    exact ⟨by linarith, by linarith⟩

/-- One hump per pass: if the elevation rises strictly from the rise to `tstar` and falls strictly from
    `tstar` to the fall, the true culmination `tstar` lies in the bracket handed to the maximiser. -/
theorem bracket_contains_peak {f : ℝ → ℝ} {e : List ℝ} {root : ℕ → ℝ} (maxim : ℝ → ℝ → ℝ)
    (hs : Sampled f e) (hr : RootContract f e root) (hnz : NoZeroSample e)
    (p : Pass ℝ) (hp : p ∈ passes e root maxim)
    (tstar : ℝ) (ht1 : p.rise ≤ tstar) (ht2 : tstar ≤ p.fall)
    (hup : StrictMonoOn f (Set.Icc p.rise tstar)) (hdown : StrictAntiOn f (Set.Icc tstar p.fall)) :
    p.lo ≤ tstar ∧ tstar ≤ p.hi := by
  obtain ⟨g1, g2, _, hpe, h12, hN, hn1, hpos, hn2, a1, a2, _, b1, b2, _⟩ := pass_run maxim hs hr hnz hp
  have hrise : p.rise = root g1 := by subst hpe; rfl
  have hfall : p.fall = root g2 := by subst hpe; rfl
  rw [hrise] at ht1 hup
  rw [hfall] at ht2 hdown
  exact peak_in_bracket hs.view maxim h12 hN a1 a2 b1 b2 hn1 hpos hn2 tstar ht1 ht2 hup hdown p hpe

/-- … and then a maximiser that is `tol`-accurate on its bracket reports a culmination whose elevation
    is within `tol` of the maximum of the whole pass. -/
theorem culmination_near_max {f : ℝ → ℝ} {e : List ℝ} {root : ℕ → ℝ} {maxim : ℝ → ℝ → ℝ} {tol : ℝ}
    (hs : Sampled f e) (hr : RootContract f e root) (hnz : NoZeroSample e) (hacc : MaxAccurate f maxim tol)
    (p : Pass ℝ) (hp : p ∈ passes e root maxim)
    (tstar : ℝ) (ht1 : p.rise ≤ tstar) (ht2 : tstar ≤ p.fall)
    (hup : StrictMonoOn f (Set.Icc p.rise tstar)) (hdown : StrictAntiOn f (Set.Icc tstar p.fall)) :
    ∀ t, p.rise ≤ t → t ≤ p.fall → f t ≤ f p.culm + tol := by
  obtain ⟨hlo, hhi⟩ := bracket_contains_peak maxim hs hr hnz p hp tstar ht1 ht2 hup hdown
  obtain ⟨_, _, hl, _, _, _, _, _⟩ := culm_strictly_between (maxim := maxim) hs hr hnz p hp
  obtain ⟨_, _, _, _, _, _, _, _, hc, _, _, _⟩ := middle_between maxim hs hr p hp
  have hpk : f tstar ≤ f p.culm + tol := by
    rw [hc]
    exact hacc p.lo p.hi (by
      obtain ⟨_, _, h3, h4, _⟩ := culm_strictly_between (maxim := maxim) hs hr hnz p hp
      linarith) tstar hlo hhi
  intro t h1 h2
  have : f t ≤ f tstar := by
    rcases le_total t tstar with h | h
    · exact (hup.monotoneOn ⟨h1, h⟩ ⟨ht1, le_refl _⟩ h)
    · exact (hdown.antitoneOn ⟨le_refl _, ht2⟩ ⟨h, h2⟩ h)
  linarith

/-! ### successive parabolic interpolation -/

/-- One update of `_get_max_parab` from three distinct abscissae on a quadratic `p t² + q t + k`
    (`p ≠ 0`) returns its vertex `−q / (2p)` exactly (the code evaluates the update with `x = b`). -/
theorem parab_exact_on_quadratics (p q k a b c : ℝ) (hp : p ≠ 0) (hab : a ≠ b) (hbc : b ≠ c) (hac : a ≠ c) :
    parabStep a b c (p * a ^ 2 + q * a + k) (p * b ^ 2 + q * b + k) (p * c ^ 2 + q * c + k) b
      = -q / (2 * p) := by
  rw [parabStep_real, parab_den, parab_num]
  have h1 : b - a ≠ 0 := sub_ne_zero.mpr (Ne.symm hab)
  have h2 : b - c ≠ 0 := sub_ne_zero.mpr hbc
  have h3 : c - a ≠ 0 := sub_ne_zero.mpr (Ne.symm hac)
  field_simp
  ring

/-- the three starting abscissae are the ends of the bracket and its midpoint (distinct when lo < hi) -/
theorem parab_start (lo hi : ℝ) (h : lo < hi) :
    parabInit lo hi = (lo, (lo + hi) / 2, hi) ∧ lo < (lo + hi) / 2 ∧ (lo + hi) / 2 < hi := by
  refine ⟨parabInit_real lo hi, by linarith, by linarith⟩

/-! ### a sample exactly on the horizon breaks the ordering -/

/-- `NoZeroSample` cannot be dropped from `passes_ordered`: for the samples `[-1, 0, 1, -1]` (second
    sample exactly on the horizon) and a root finder meeting its contract, the loop of
    `get_next_passes` reports two passes with the SAME rise time, the first with rise = fall.
    (Reached in pyorbital by passing `horizon` = the elevation at a whole minute of the window.) -/
theorem exact_zero_sample_degenerate_pass :
    ∃ (f : ℝ → ℝ) (e : List ℝ) (root : ℕ → ℝ), Sampled f e ∧ RootContract f e root ∧
      ∀ maxim : ℝ → ℝ → ℝ, ∃ p ∈ passes e root maxim, ∃ q ∈ passes e root maxim,
        p.rise = p.fall ∧ q.rise = p.rise ∧ p.fall < q.fall := by
  refine ⟨zF, zE, zRoot, zSampled, zRootContract, fun maxim => ?_⟩
  refine ⟨mkPass zE maxim (zRoot 0) (zRoot 1), (mem_passes_iff _ _ _ _).mpr ⟨0, 1, zPaired01, rfl⟩,
    mkPass zE maxim (zRoot 0) (zRoot 2), (mem_passes_iff _ _ _ _).mpr ⟨0, 2, zPaired02, rfl⟩, ?_, rfl, ?_⟩
  · show zRoot 0 = zRoot 1; simp [-r_ofNat, -r_ofNat', zRoot]
  · show zRoot 1 < zRoot 2; simp only [zRoot]; norm_num

/-! ### non-vacuity: the hypotheses are met by a concrete one-hump pass
    (elevation − horizon = −(t − 1/2)(t − 5/2), samples at minutes 0, 1, 2, 3) -/

example : Sampled exF exE ∧ RootContract exF exE exRoot ∧ NoZeroSample exE ∧ MaxInside exMid ∧
    MaxInBracket exMid ∧ passes exE exRoot exMid ≠ [] := by
  refine ⟨exSampled, exRootContract, exNoZero, exMid_inside, exMid_inBracket, ?_⟩
  obtain ⟨h1, h2, h3, h4, h5⟩ := exRun
  obtain ⟨p, hp, _⟩ := completeness_discrete exRoot exMid exSampled 0 2 h1 h2 h3 h4 h5
  intro h; rw [h] at hp; cases hp

/-- the hypotheses of `completeness` hold for a = 1/2, b = 5/2 on that pass -/
example : ∃ p ∈ passes exE exRoot exMid, p.rise = 1 / 2 ∧ p.fall = 5 / 2 := by
  refine completeness exMid exSampled exRootContract (1 / 2) (5 / 2) (by norm_num) (by norm_num)
    (by rw [exLen]; norm_num) (by rw [exFloor]; norm_num) (by rw [exCeil]; norm_num) ?_ ?_ ?_
  · intro t h1 h2; unfold exF; nlinarith
  · intro t _ h2; unfold exF; nlinarith
  · intro t h1 _; unfold exF; nlinarith

/-- the hypotheses of `bracket_contains_peak` / `culmination_near_max` hold on that pass with the exact
    maximiser (`tstar = 3/2`, `tol = 0`) -/
example : MaxAccurate exF exClamp 0 ∧
    ∀ p ∈ passes exE exRoot exClamp, ∀ t, p.rise ≤ t → t ≤ p.fall → exF t ≤ exF p.culm + 0 := by
  refine ⟨exClamp_accurate, fun p hp => ?_⟩
  obtain ⟨g1, g2, hz1, hz2, h12, _, _, _, hr, hf, _⟩ :=
    rise_fall_are_roots exClamp exSampled exRootContract p hp
  have hg : g1 = 0 ∧ g2 = 2 := by
    rcases exCross hz1 with h | h <;> rcases exCross hz2 with h' | h' <;> omega
  obtain ⟨rfl, rfl⟩ := hg
  have hr' : p.rise = 1 / 2 := by rw [hr, exRoot0]
  have hf' : p.fall = 5 / 2 := by rw [hf, exRoot2]
  refine culmination_near_max exSampled exRootContract exNoZero exClamp_accurate p hp (3 / 2)
    (by rw [hr']; norm_num) (by rw [hf']; norm_num) (exF_up _) (exF_down _)

/-- the hypotheses of `parab_exact_on_quadratics` hold for the first step on that pass's bracket -/
example : parabStep (1 / 2) (5 / 4) 2 (exF (1 / 2)) (exF (5 / 4)) (exF 2) (5 / 4) = 3 / 2 := by
  have h := parab_exact_on_quadratics (-1) 3 (-5 / 4) (1 / 2) (5 / 4) 2 (by norm_num) (by norm_num) (by norm_num)
    (by norm_num)
  have e1 : ∀ t : ℝ, exF t = -1 * t ^ 2 + 3 * t + -5 / 4 := by intro t; unfold exF; ring
  rw [e1, e1, e1, h]; norm_num

end PV.C03
