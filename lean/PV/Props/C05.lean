/-
  C05 — Observer look angles are the true topocentric azimuth and elevation, never NaN.

  Theorems over ℝ about `PV.Look.topo`, `PV.Look.clip1`, `PV.Look.lookModuleOfDiff`,
  `PV.Look.lookMethodOfPos`, `PV.Look.lookModule` (PV/Model/Look.lean) against the published
  WGS-84 east/north/up frame `PV.Spec.Topo` (DESIGN.md Appendix D).

  Notation used in the statements: for an observer at (lonDeg, latDeg) and time `d`
    φ = latDeg·π/180  (`radOf latDeg`),   θ = (gmst d + lonDeg·π/180) mod 2π,
  and `r` is the ECI vector observer → satellite.  `mod2pi` is the reduction to `[0, 2π)`.
  What is NOT proved here: the float agreement figures (1e-4°, 5e-3°) — those are measured by
  the harness; these theorems are the exact-arithmetic content of the property.
-/
import PV.Lemmas.C05
namespace PV.C05
open PV PV.Look PV.Spec.Topo Real

/-- (1) `top_s, top_e, top_z` are the components of `r` along −north, east, up of the spec frame
    at (φ, θ), θ is the reduced local sidereal angle, and the map is an isometry. -/
theorem topo_is_rotation (d lon lat : ℝ) (r : V3 ℝ) :
    (topo d lon lat r).theta = mod2pi (Astro.gmst d + lon) ∧
    (topo d lon lat r).s = -(dot r (north lat (topo d lon lat r).theta)) ∧
    (topo d lon lat r).e = dot r (east (topo d lon lat r).theta) ∧
    (topo d lon lat r).z = dot r (up lat (topo d lon lat r).theta) ∧
    (topo d lon lat r).s ^ 2 + (topo d lon lat r).e ^ 2 + (topo d lon lat r).z ^ 2 = normSq r := by
  refine ⟨topo_theta d lon lat r, topo_s d lon lat r, topo_e d lon lat r, topo_z d lon lat r, ?_⟩
  rw [topo_s, topo_e, topo_z, neg_sq]
  exact frame_isometry _ _ _

/-- the frame does not depend on the reduction of θ to `[0, 2π)` the code performs -/
theorem frame_reduction_irrelevant (φ x : ℝ) :
    east (mod2pi x) = east x ∧ north φ (mod2pi x) = north φ x ∧ up φ (mod2pi x) = up φ x := by
  simp only [east, north, up, cos_mod2pi, sin_mod2pi, and_self]

/-- the spec frame is orthonormal and right-handed (so "rotation" is meant literally) -/
theorem frame_orthonormal (φ θ : ℝ) :
    normSq (east θ) = 1 ∧ normSq (north φ θ) = 1 ∧ normSq (up φ θ) = 1 ∧
    dot (east θ) (north φ θ) = 0 ∧ dot (east θ) (up φ θ) = 0 ∧ dot (north φ θ) (up φ θ) = 0 ∧
    cross (east θ) (north φ θ) = up φ θ :=
  ⟨east_unit θ, north_unit φ θ, up_unit φ θ, east_north φ θ, east_up φ θ, north_up φ θ,
    east_cross_north φ θ⟩

/-- (2, radians) `(atan2(−top_e, top_s) + π) mod 2π = atan2(r·e, r·n) mod 2π` unless the direction is
    vertical (`top_s = top_e = 0`, where the azimuth is undefined and the code returns 180°). -/
theorem az_eq_spec_rad (d lon lat : ℝ) (r : V3 ℝ)
    (h : (topo d lon lat r).s ≠ 0 ∨ (topo d lon lat r).e ≠ 0) :
    Num.pymod (Num.atan2 (-(topo d lon lat r).e) (topo d lon lat r).s + Num.pi) ((2 : ℝ) * Num.pi) =
      az lat (topo d lon lat r).theta r := by
  rw [r_atan2, r_pi, r_add, r_neg, pymod_two_pi, az]
  have hw : (⟨dot r (north lat (topo d lon lat r).theta), dot r (east (topo d lon lat r).theta)⟩ : ℂ) ≠ 0 := by
    intro h0
    have h1 := congrArg Complex.re h0
    have h2 := congrArg Complex.im h0
    simp only [Complex.zero_re, Complex.zero_im] at h1 h2
    rcases h with h | h
    · exact h (by rw [topo_s, h1, neg_zero])
    · exact h (by rw [topo_e, h2])
  rw [← mod2pi_arg_neg_add_pi hw]
  congr 3
  apply Complex.ext
  · rw [Complex.neg_re, topo_s]
  · rw [Complex.neg_im, topo_e]

/-- (2) the reported azimuth (degrees) is the spec azimuth `atan2(r·e, r·n) mod 2π` in degrees,
    for every non-vertical direction. -/
theorem az_eq_spec (d lonDeg latDeg : ℝ) (r : V3 ℝ)
    (h : dot r (north (radOf latDeg) (mod2pi (Astro.gmst d + radOf lonDeg))) ≠ 0 ∨
         dot r (east (mod2pi (Astro.gmst d + radOf lonDeg))) ≠ 0) :
    (lookModuleOfDiff d lonDeg latDeg r).1 =
      az (radOf latDeg) (mod2pi (Astro.gmst d + radOf lonDeg)) r * (180 / π) := by
  have h' : (topo d (radOf lonDeg) (radOf latDeg) r).s ≠ 0 ∨ (topo d (radOf lonDeg) (radOf latDeg) r).e ≠ 0 := by
    rw [topo_s, topo_e, topo_theta, neg_ne_zero]; exact h
  have := az_eq_spec_rad d (radOf lonDeg) (radOf latDeg) r h'
  rw [r_atan2, r_pi, r_add, r_neg, pymod_two_pi, topo_theta] at this
  rw [look_az, this]

/-- (3a) azimuth in `[0°, 360°)` for every input (also for the vertical direction) -/
theorem az_range (d lonDeg latDeg : ℝ) (r : V3 ℝ) :
    0 ≤ (lookModuleOfDiff d lonDeg latDeg r).1 ∧ (lookModuleOfDiff d lonDeg latDeg r).1 < 360 := by
  rw [look_az]
  constructor
  · exact mul_nonneg (mod2pi_nonneg _) deg_pos.le
  · rw [← two_pi_deg]; exact mul_lt_mul_of_pos_right (mod2pi_lt _) deg_pos

/-- (3b) elevation in `[−90°, 90°]` for every input -/
theorem el_range (d lonDeg latDeg : ℝ) (r : V3 ℝ) :
    -90 ≤ (lookModuleOfDiff d lonDeg latDeg r).2 ∧ (lookModuleOfDiff d lonDeg latDeg r).2 ≤ 90 := by
  rw [look_el, ← half_pi_deg, ← neg_mul]
  exact ⟨mul_le_mul_of_nonneg_right (neg_pi_div_two_le_arcsin _) deg_pos.le,
    mul_le_mul_of_nonneg_right (arcsin_le_pi_div_two _) deg_pos.le⟩

/-- (4a) `|top_z / rg| ≤ 1` when the range is non-zero (observer not at the satellite — the code
    relies on this: `rg_ = 0` gives `0/0`). -/
theorem sin_arg_le_one (d lon lat : ℝ) (r : V3 ℝ) (hr : len r ≠ 0) :
    |(topo d lon lat r).z / len r| ≤ 1 := by
  have hpos : 0 < len r := lt_of_le_of_ne (Real.sqrt_nonneg _) (Ne.symm hr)
  rw [abs_div, abs_of_pos hpos, div_le_one hpos, topo_z]
  exact abs_dot_up_le_norm _ _ _

/-- (4b) so in exact arithmetic the clip is the identity and the reported elevation is the spec
    elevation `asin(r·u/|r|)` in degrees. -/
theorem el_eq_spec (d lonDeg latDeg : ℝ) (r : V3 ℝ) (hr : len r ≠ 0) :
    (lookModuleOfDiff d lonDeg latDeg r).2 =
      el (radOf latDeg) (mod2pi (Astro.gmst d + radOf lonDeg)) r * (180 / π) := by
  rw [look_el, clip1_of_abs_le (sin_arg_le_one d _ _ r hr), topo_z, topo_theta, el]

/-- (5) definedness: whatever value the quotient `top_z / rg_` takes, the argument handed to
    `arcsin` lies in `[−1, 1]` (this is what the clip buys; without it rounding could leave the domain). -/
theorem clip_defined (x : ℝ) : -1 ≤ clip1 x ∧ clip1 x ≤ 1 := clip1_bounds x

/-- (6) observer exactly below the satellite (`r` a positive multiple of the local vertical):
    elevation is 90°, and the (undefined) azimuth is reported as 180°. -/
theorem zenith_elevation (d lonDeg latDeg k : ℝ) (hk : 0 < k) :
    (lookModuleOfDiff d lonDeg latDeg
        (smul k (up (radOf latDeg) (mod2pi (Astro.gmst d + radOf lonDeg))))).2 = 90 ∧
    (lookModuleOfDiff d lonDeg latDeg
        (smul k (up (radOf latDeg) (mod2pi (Astro.gmst d + radOf lonDeg))))).1 = 180 := by
  set φ := radOf latDeg
  set θ := mod2pi (Astro.gmst d + radOf lonDeg)
  have hu := up_unit φ θ
  have hlen : len (smul k (up φ θ)) = k := by
    have : normSq (smul k (up φ θ)) = k ^ 2 := by
      simp only [smul, normSq] at hu ⊢; linear_combination k ^ 2 * hu
    rw [len, this, Real.sqrt_sq hk.le]
  have hdu : dot (smul k (up φ θ)) (up φ θ) = k := by
    simp only [smul, dot, normSq] at hu ⊢; linear_combination k * hu
  have hdn : dot (smul k (up φ θ)) (north φ θ) = 0 := by
    have := north_up φ θ
    simp only [smul, dot] at this ⊢; linear_combination k * this
  have hde : dot (smul k (up φ θ)) (east θ) = 0 := by
    have := east_up φ θ
    simp only [smul, dot] at this ⊢; linear_combination k * this
  constructor
  · rw [el_eq_spec _ _ _ _ (by rw [hlen]; exact hk.ne'), el, hlen, hdu, div_self hk.ne', arcsin_one,
      half_pi_deg]
  · rw [look_az, topo_s, topo_e, topo_theta, hdn, hde]
    have h0 : (⟨-0, -0⟩ : ℂ) = 0 := by apply Complex.ext <;> simp
    rw [h0, Complex.arg_zero, zero_add, mod2pi_of_mem pi_pos.le (by linarith [pi_pos]), pi_deg]

/-- (7) the object method and the module-level function run the same computation on the difference
    vector; they differ only in where the satellite ECI position comes from (the propagated position
    for the method, `observer_position(sat_lon, sat_lat, sat_alt)` for the module function). -/
theorem method_eq_module (d : ℝ) (pos : V3 ℝ) (lonDeg latDeg alt : ℝ) :
    lookMethodOfPos d pos lonDeg latDeg alt =
      lookModuleOfDiff d lonDeg latDeg (V3.sub pos (Astro.observerPosition d lonDeg latDeg alt).1) := rfl

theorem module_eq_method_at_subpoint (d satLon satLat satAlt lonDeg latDeg alt : ℝ) :
    lookModule d satLon satLat satAlt lonDeg latDeg alt =
      lookMethodOfPos d (Astro.observerPosition d satLon satLat satAlt).1 lonDeg latDeg alt := rfl

/-! ### non-vacuity -/

/-- a non-vertical direction exists: hypotheses of `az_eq_spec_rad` are satisfiable -/
example : ∃ r : V3 ℝ, (topo 0 0 0 r).s ≠ 0 ∨ (topo 0 0 0 r).e ≠ 0 := by
  refine ⟨⟨0, 0, 1⟩, Or.inl ?_⟩
  rw [topo_s]; simp [dot, north]

/-- a non-zero range exists: hypothesis of `sin_arg_le_one` / `el_eq_spec` is satisfiable -/
example : len ⟨3, 4, 0⟩ ≠ 0 := by
  have : len ⟨3, 4, 0⟩ = 5 := by
    rw [len, normSq, show ((3:ℝ) ^ 2 + 4 ^ 2 + 0 ^ 2) = 5 ^ 2 by norm_num, Real.sqrt_sq (by norm_num)]
  rw [this]; norm_num

/-- the clip is not the identity in general (so `clip_defined` says something): `clip1 2 = 1` -/
example : clip1 (2 : ℝ) = 1 := by rw [clip1_eq]; norm_num

end PV.C05
