/-
  C14 — Vector rotation is a proper rotation with the documented (clockwise) sense;
  the geodetic helpers are consistent.
  Theorems over ℝ about PV.Model.Geoloc (`qrotate`, `ellipsoidPoint`, `subpoint`, `geodStep`)
  against PV.Spec.Rodrigues and PV.Spec.Wgs84.  Helper lemmas: PV/Lemmas/C14.lean, C14Geod.lean.

  The guard `0 < k.x²+k.y²+k.z²` (axis ≠ 0) is what `axis / vnorm(axis)` relies on in geoloc.py:167.
-/
import PV.Lemmas.C14
import PV.Lemmas.C14Geod
namespace PV.C14
open PV PV.C14L

/-! ### qrotate is Rodrigues' rotation by minus the angle -/

/-- `qrotate(v, k, θ)` is the published right-handed Rodrigues rotation about `k/|k|` by `−θ`. -/
theorem qrotate_eq_rodrigues (v k : V3 ℝ) (θ : ℝ) (hk : 0 < k.x ^ 2 + k.y ^ 2 + k.z ^ 2) :
    Geoloc.qrotate v k θ = Rodrigues.rotate v k (-θ) := by
  rw [qrotate_eq_rod v k θ hk, rotate_neg_eq_rod]

/-- the same, with the clockwise formula written out: `v cosθ − (k̂×v) sinθ + k̂ (k̂·v)(1 − cosθ)`. -/
theorem qrotate_eq_rodrigues_cw (v k : V3 ℝ) (θ : ℝ) (hk : 0 < k.x ^ 2 + k.y ^ 2 + k.z ^ 2) :
    Geoloc.qrotate v k θ = Rodrigues.rotateCw v k θ := by
  rw [qrotate_eq_rod v k θ hk, rotateCw_eq_rod]

/-- componentwise, in plain notation (`u = k/|k|`). -/
theorem qrotate_components (v k u : V3 ℝ) (θ : ℝ) (hk : 0 < k.x ^ 2 + k.y ^ 2 + k.z ^ 2)
    (hu : u = ⟨k.x / Real.sqrt (k.x ^ 2 + k.y ^ 2 + k.z ^ 2), k.y / Real.sqrt (k.x ^ 2 + k.y ^ 2 + k.z ^ 2),
      k.z / Real.sqrt (k.x ^ 2 + k.y ^ 2 + k.z ^ 2)⟩) :
    (Geoloc.qrotate v k θ).x = v.x * Real.cos θ - (u.y * v.z - u.z * v.y) * Real.sin θ
        + u.x * (u.x * v.x + u.y * v.y + u.z * v.z) * (1 - Real.cos θ) ∧
    (Geoloc.qrotate v k θ).y = v.y * Real.cos θ - (u.z * v.x - u.x * v.z) * Real.sin θ
        + u.y * (u.x * v.x + u.y * v.y + u.z * v.z) * (1 - Real.cos θ) ∧
    (Geoloc.qrotate v k θ).z = v.z * Real.cos θ - (u.x * v.y - u.y * v.x) * Real.sin θ
        + u.z * (u.x * v.x + u.y * v.y + u.z * v.z) * (1 - Real.cos θ) := by
  have hu' : u = unitR k := hu
  rw [qrotate_eq_rod v k θ hk, ← hu']
  exact ⟨rfl, rfl, rfl⟩

/-! ### corollaries: a proper rotation -/

/-- lengths are preserved (squared length) -/
theorem qrotate_norm (v k : V3 ℝ) (θ : ℝ) (hk : 0 < k.x ^ 2 + k.y ^ 2 + k.z ^ 2) :
    V3.dot (Geoloc.qrotate v k θ) (Geoloc.qrotate v k θ) = V3.dot v v := by
  rw [qrotate_eq_rod v k θ hk, dot_real, dot_real, dotR_self, dotR_self]
  exact rod_nsq _ _ _ _ (unitR_unit k hk) (Real.sin_sq_add_cos_sq θ)

/-- lengths are preserved (`vnorm`) -/
theorem qrotate_vnorm (v k : V3 ℝ) (θ : ℝ) (hk : 0 < k.x ^ 2 + k.y ^ 2 + k.z ^ 2) :
    V3.norm (Geoloc.qrotate v k θ) = V3.norm v := by
  have h := qrotate_norm v k θ hk
  simp only [V3.dot] at h
  simp only [V3.norm, h]

/-- inner products (hence mutual angles) are preserved -/
theorem qrotate_inner (v w k : V3 ℝ) (θ : ℝ) (hk : 0 < k.x ^ 2 + k.y ^ 2 + k.z ^ 2) :
    V3.dot (Geoloc.qrotate v k θ) (Geoloc.qrotate w k θ) = V3.dot v w := by
  rw [qrotate_eq_rod v k θ hk, qrotate_eq_rod w k θ hk, dot_real, dot_real]
  exact rod_dot _ _ _ _ _ (unitR_unit k hk) (Real.sin_sq_add_cos_sq θ)

/-- every multiple of the axis is fixed -/
theorem qrotate_axis_fixed (k : V3 ℝ) (t θ : ℝ) (hk : 0 < k.x ^ 2 + k.y ^ 2 + k.z ^ 2) :
    Geoloc.qrotate (V3.smul t k) k θ = V3.smul t k := by
  have h0 : Real.sqrt (nsq k) ≠ 0 := (Real.sqrt_pos.mpr hk).ne'
  have hs : V3.smul t k = ⟨(t * Real.sqrt (nsq k)) * (unitR k).x, (t * Real.sqrt (nsq k)) * (unitR k).y,
      (t * Real.sqrt (nsq k)) * (unitR k).z⟩ := by
    simp only [V3.smul, r_mul, unitR]
    apply V3.ext' <;> simp only [] <;> field_simp
  rw [qrotate_eq_rod _ k θ hk, hs]
  exact rod_axis _ _ _ _ (unitR_unit k hk)

/-- the axis itself is fixed -/
theorem qrotate_axis_fixed' (k : V3 ℝ) (θ : ℝ) (hk : 0 < k.x ^ 2 + k.y ^ 2 + k.z ^ 2) :
    Geoloc.qrotate k k θ = k := by
  have h := qrotate_axis_fixed k 1 θ hk
  have h1 : V3.smul (1 : ℝ) k = k := by
    simp only [V3.smul, one_mul]
  rwa [h1] at h

/-- rotation by 0 is the identity -/
theorem qrotate_zero (v k : V3 ℝ) (hk : 0 < k.x ^ 2 + k.y ^ 2 + k.z ^ 2) :
    Geoloc.qrotate v k 0 = v := by
  rw [qrotate_eq_rod v k 0 hk, Real.cos_zero, Real.sin_zero, rod_zero]

/-- rotation by 2π is the identity -/
theorem qrotate_two_pi (v k : V3 ℝ) (hk : 0 < k.x ^ 2 + k.y ^ 2 + k.z ^ 2) :
    Geoloc.qrotate v k (2 * Real.pi) = v := by
  rw [qrotate_eq_rod v k _ hk, Real.cos_two_pi, Real.sin_two_pi, rod_zero]

/-- successive rotations about one axis add -/
theorem qrotate_add (v k : V3 ℝ) (α β : ℝ) (hk : 0 < k.x ^ 2 + k.y ^ 2 + k.z ^ 2) :
    Geoloc.qrotate (Geoloc.qrotate v k α) k β = Geoloc.qrotate v k (α + β) := by
  rw [qrotate_eq_rod v k α hk, qrotate_eq_rod _ k β hk, qrotate_eq_rod v k (α + β) hk,
    rod_add _ _ _ _ _ _ (unitR_unit k hk), Real.cos_add, Real.sin_add]

/-- the result does not depend on the (positive) magnitude of the axis -/
theorem qrotate_scale_axis (v k : V3 ℝ) (t θ : ℝ) (ht : 0 < t) (hk : 0 < k.x ^ 2 + k.y ^ 2 + k.z ^ 2) :
    Geoloc.qrotate v (V3.smul t k) θ = Geoloc.qrotate v k θ := by
  have hs : V3.smul t k = ⟨t * k.x, t * k.y, t * k.z⟩ := by simp only [V3.smul, r_mul]
  have hk' : 0 < nsq (⟨t * k.x, t * k.y, t * k.z⟩ : V3 ℝ) := by
    have : nsq (⟨t * k.x, t * k.y, t * k.z⟩ : V3 ℝ) = t ^ 2 * nsq k := by unfold nsq; ring
    rw [this]; exact mul_pos (pow_pos ht 2) hk
  rw [hs, qrotate_eq_rod v _ θ hk', qrotate_eq_rod v k θ hk, unitR_smul k t ht hk]

/-- non-vacuity and sense: the x axis turned about (a multiple of) the z axis by +90° goes to −y (clockwise) -/
example : Geoloc.qrotate (⟨1, 0, 0⟩ : V3 ℝ) ⟨0, 0, 2⟩ (Real.pi / 2) = ⟨0, -1, 0⟩ := by
  have hk : (0 : ℝ) < (0 : ℝ) ^ 2 + (0 : ℝ) ^ 2 + (2 : ℝ) ^ 2 := by norm_num
  rw [qrotate_eq_rod ⟨1, 0, 0⟩ ⟨0, 0, 2⟩ _ hk]
  have h2 : Real.sqrt (0 ^ 2 + 0 ^ 2 + 2 ^ 2) = 2 := by
    rw [show ((0:ℝ) ^ 2 + 0 ^ 2 + 2 ^ 2) = 2 ^ 2 by norm_num]; exact Real.sqrt_sq (by norm_num)
  simp only [rod, unitR, nsq, h2, Real.cos_pi_div_two, Real.sin_pi_div_two]
  norm_num

/-! ### geodetic helpers -/

/-- the default ellipsoid of geoloc.py satisfies A > B > 0 -/
theorem default_axes : (0 : ℝ) < Geoloc.B ∧ (Geoloc.B : ℝ) < Geoloc.A := default_axes'

/-- for ANY latitude value (whatever the iteration returned) and longitude, the point built by `subpoint`
    satisfies the ellipsoid equation exactly -/
theorem subpoint_on_ellipsoid (a b lat lon : ℝ) (hb : 0 < b) (hab : b < a) :
    Wgs84.OnEllipsoid a b (Geoloc.ellipsoidPoint a b lat lon) :=
  ellipsoidPoint_on a b lat lon hb hab

/-- in plain notation -/
theorem subpoint_on_ellipsoid' (a b lat lon : ℝ) (hb : 0 < b) (hab : b < a) :
    (Geoloc.ellipsoidPoint a b lat lon).x ^ 2 / a ^ 2 + (Geoloc.ellipsoidPoint a b lat lon).y ^ 2 / a ^ 2
      + (Geoloc.ellipsoidPoint a b lat lon).z ^ 2 / b ^ 2 = 1 :=
  (onEllipsoid_real a b _).mp (ellipsoidPoint_on a b lat lon hb hab)

/-- whatever `subpoint` returns lies on the ellipsoid -/
theorem subpoint_result_on_ellipsoid (q p : V3 ℝ) (a b : ℝ) (fuel : Nat) (hb : 0 < b) (hab : b < a)
    (h : Geoloc.subpoint q a b fuel = some p) : Wgs84.OnEllipsoid a b p := by
  unfold Geoloc.subpoint at h
  split at h
  · exact absurd h (by simp)
  · injection h with h; rw [← h]; exact ellipsoidPoint_on a b _ _ hb hab

/-- the point `subpoint` builds is the published geodetic point of height 0 -/
theorem ellipsoidPoint_eq_fromGeodetic (a b lat lon : ℝ) :
    Geoloc.ellipsoidPoint a b lat lon = Wgs84.fromGeodetic a b lat lon 0 := by
  rw [ellipsoidPoint_real]
  simp only [Wgs84.fromGeodetic, primeVertical_real, Wgs84.ecc2, r_add, r_sub, r_mul, r_div, r_sin, r_cos, r_ofNat]
  simp only [Nat.cast_one]
  apply V3.ext' <;> simp only [] <;> ring

/-- the geodetic latitude is a fixed point of the body of `geodetic_lat`'s loop: for the point
    `P = subpoint + h · normal` (a > b > 0, geodetic latitude `lat`, |lat| < π/2, above the centre of curvature: N + h > 0)
    one pass of the iteration started at `lat` returns `lat`. -/
theorem normal_through_subpoint (a b lat lon h : ℝ) (hb : 0 < b) (hab : b < a)
    (hlat1 : -(Real.pi / 2) < lat) (hlat2 : lat < Real.pi / 2)
    (hh : 0 < Wgs84.primeVertical a b lat + h) (P : V3 ℝ)
    (hP : P = V3.add (Geoloc.ellipsoidPoint a b lat lon) (V3.smul h (Wgs84.geodeticNormal lat lon))) :
    Geoloc.geodStep a b P.z (Num.sqrt (P.x * P.x + P.y * P.y)) lat = lat := by
  have _hW : 0 < Wden a b lat := Wden_pos a b lat hb hab
  rw [primeVertical_real] at hh
  have hPg : P = geoP a b lat lon h := by
    rw [hP, ellipsoidPoint_real]
    simp only [V3.add, V3.smul, Wgs84.geodeticNormal, geoP, r_add, r_mul, r_sin, r_cos]
    apply V3.ext' <;> simp only [] <;> ring
  rw [hPg]
  exact geodStep_fixed a b lat lon h hlat1 hlat2 hh

/-- `P` of `normal_through_subpoint` is the published geodetic point (lat, lon, h) -/
theorem normal_point_eq_fromGeodetic (a b lat lon h : ℝ) :
    V3.add (Geoloc.ellipsoidPoint a b lat lon) (V3.smul h (Wgs84.geodeticNormal lat lon))
      = Wgs84.fromGeodetic a b lat lon h := by
  rw [ellipsoidPoint_real]
  simp only [V3.add, V3.smul, Wgs84.geodeticNormal, Wgs84.fromGeodetic, primeVertical_real, Wgs84.ecc2,
    r_add, r_sub, r_mul, r_div, r_sin, r_cos, r_ofNat]
  simp only [Nat.cast_one]
  apply V3.ext' <;> simp only [] <;> ring

/-- non-vacuity of the hypotheses of `normal_through_subpoint`: equator, height 1 on the ellipsoid (2, 1) -/
example : (0 : ℝ) < Wgs84.primeVertical 2 1 0 + 1 := by
  rw [primeVertical_real]
  have : 0 < (2 : ℝ) / Real.sqrt (Wden 2 1 0) := div_pos (by norm_num) (Real.sqrt_pos.mpr (Wden_pos 2 1 0 (by norm_num) (by norm_num)))
  linarith

end PV.C14
