/-
  C13 — unsupported or degenerate orbits are refused explicitly, never answered wrongly.
  Theorems over ℝ about the outcome classes of `PV.Sgp4.init` and `PV.Sgp4.propagate` (PV/Model/Sgp4.lean),
  with the thresholds as they are written in the source now (PV/Generated/Consts.lean).
-/
import PV.Lemmas.C13Example
namespace PV.C13
open PV PV.Sgp4 Real

/-- (1) the construction outcome is a function of (eo, xno, xincl, period, perigee): complete decision table
    of `_SGDP4Base.__init__`, guards in source order.
    `EccOk e ↔ 0 < eo < 1 − 1e-6`, `MmOk e ↔ 0.0035·2π/1440 < xno < 18·2π/1440`, `InclOk e ↔ 0 < xincl < π`. -/
theorem init_outcome_class (e : Elements ℝ) :
    (EccOk e ↔ 0 < e.eo ∧ e.eo < 1 - 1e-6) ∧
    (MmOk e ↔ 0.0035 * 2 * π / 1440 < e.xno ∧ e.xno < 18 * 2 * π / 1440) ∧
    (InclOk e ↔ 0 < e.xincl ∧ e.xincl < π) ∧
    (init e = .error .eccRange ↔ ¬ EccOk e) ∧
    (init e = .error .mmRange ↔ EccOk e ∧ ¬ MmOk e) ∧
    (init e = .error .inclRange ↔ EccOk e ∧ MmOk e ∧ ¬ InclOk e) ∧
    (init e = .error .deepSpace ↔ EccOk e ∧ MmOk e ∧ InclOk e ∧ 225 ≤ (basic e).period) ∧
    (∀ p, init e = .ok p ↔ EccOk e ∧ MmOk e ∧ InclOk e ∧ (basic e).period < 225 ∧
        p = coeffs e (basic e) (modeSpec e)) ∧
    (∀ p, init e = .ok p → (p.mode = .nearSimp ↔ (basic e).perigee < 220) ∧
        (p.mode = .nearNorm ↔ 220 ≤ (basic e).perigee)) := by
  refine ⟨Iff.rfl, Iff.rfl, Iff.rfl, ?_, ?_, ?_, ?_, init_ok_iff e, ?_⟩
  · rw [init_eq]
    by_cases h1 : EccOk e <;> by_cases h2 : MmOk e <;> by_cases h3 : InclOk e <;>
      by_cases h4 : 225 ≤ (basic e).period <;> simp [-r_ofNat, h1, h2, h3, h4]
  · rw [init_eq]
    by_cases h1 : EccOk e <;> by_cases h2 : MmOk e <;> by_cases h3 : InclOk e <;>
      by_cases h4 : 225 ≤ (basic e).period <;> simp [-r_ofNat, h1, h2, h3, h4]
  · rw [init_eq]
    by_cases h1 : EccOk e <;> by_cases h2 : MmOk e <;> by_cases h3 : InclOk e <;>
      by_cases h4 : 225 ≤ (basic e).period <;> simp [-r_ofNat, h1, h2, h3, h4]
  · rw [init_eq]
    by_cases h1 : EccOk e <;> by_cases h2 : MmOk e <;> by_cases h3 : InclOk e <;>
      by_cases h4 : 225 ≤ (basic e).period <;> simp [-r_ofNat, h1, h2, h3, h4]
  · intro p hp
    obtain ⟨-, -, -, -, rfl⟩ := (init_ok_iff e p).1 hp
    rw [coeffs_mode, modeSpec_nearNorm_iff]
    refine ⟨?_, Iff.rfl⟩
    unfold modeSpec
    split_ifs with h <;> simp [-r_ofNat, h]

/-- (2) the propagation outcome is a function of the mode and of the run-time a, e₀(t), e_L², r_k:
    complete decision table of `_SGDP4.propagate` / `_Keplerians.calculate`, guards in source order.
    `kepOf p ts` is the state built on the last leaf (short-period result of the Kepler iterate). -/
theorem propagate_outcome_class (p : Params ℝ) (ts : ℝ) :
    (propagate p ts = .error .notImplemented ↔ p.mode ≠ .nearNorm) ∧
    (propagate p ts = .error .crashedA ↔ p.mode = .nearNorm ∧ (secular p ts).a < 1) ∧
    (propagate p ts = .error .eccLow ↔
      p.mode = .nearNorm ∧ 1 ≤ (secular p ts).a ∧ (secular p ts).e0 < -1e-3) ∧
    (propagate p ts = .error .elsqGe1 ↔
      p.mode = .nearNorm ∧ 1 ≤ (secular p ts).a ∧ -1e-3 ≤ (secular p ts).e0 ∧
      1 ≤ (longPeriod p (secular p ts)).elsq) ∧
    (propagate p ts = .error .crashedRk ↔
      p.mode = .nearNorm ∧ 1 ≤ (secular p ts).a ∧ -1e-3 ≤ (secular p ts).e0 ∧
      (longPeriod p (secular p ts)).elsq < 1 ∧ (kepOf p ts).rk < 1) ∧
    (∀ k, propagate p ts = .ok k ↔
      p.mode = .nearNorm ∧ 1 ≤ (secular p ts).a ∧ -1e-3 ≤ (secular p ts).e0 ∧
      (longPeriod p (secular p ts)).elsq < 1 ∧ 1 ≤ (kepOf p ts).rk ∧ k = kepOf p ts) := by
  refine ⟨?_, ?_, ?_, ?_, ?_, propagate_ok_iff p ts⟩ <;>
  · rw [propagate_eq, calculate_eq]
    by_cases h0 : p.mode = .nearNorm <;> by_cases h1 : (secular p ts).a < 1 <;>
      by_cases h2 : (secular p ts).e0 < -1e-3 <;>
      by_cases h3 : 1 ≤ (longPeriod p (secular p ts)).elsq <;>
      by_cases h4 : (kepOf p ts).rk < 1 <;>
      simp only [h0, h1, h2, h3, h4, ne_eq, not_true_eq_false, not_false_eq_true, if_true, if_false,
        reduceCtorEq, false_iff, true_iff, true_and, false_and, and_true, and_false, not_and, not_false_eq_true,
        Except.error.injEq, not_le, not_lt, implies_true] <;>
      first
      | done
      | (intros; linarith)
      | (refine ⟨?_, ?_⟩ <;> linarith)
      | (refine ⟨?_, ?_, ?_⟩ <;> linarith)


/-- (3) whatever is answered is an in-range, near-earth, perigee ≥ 220 km element set whose modelled orbit has
    not decayed: the conjunction of every guard passed on the way to an `.ok` state. -/
theorem answers_are_near_norm (e : Elements ℝ) (p : Params ℝ) (ts : ℝ) (k : Kep ℝ)
    (hi : init e = .ok p) (hk : propagate p ts = .ok k) :
    (0 < e.eo ∧ e.eo < 1 - 1e-6) ∧
    (0.0035 * 2 * π / 1440 < e.xno ∧ e.xno < 18 * 2 * π / 1440) ∧
    (0 < e.xincl ∧ e.xincl < π) ∧
    (basic e).period < 225 ∧ 220 ≤ (basic e).perigee ∧ p.mode = .nearNorm ∧
    1 ≤ k.a ∧ 1 ≤ k.rk ∧ k.elsq < 1 ∧ 1e-6 ≤ k.e ∧ k.e ≤ 1 - 1e-6 ∧ 6378.135 ≤ k.radius := by
  obtain ⟨h1, h2, h3, h4, rfl⟩ := (init_ok_iff e p).1 hi
  obtain ⟨hm, ha, -, hel, hrk, rfl⟩ := (propagate_ok_iff _ ts k).1 hk
  have hper : 220 ≤ (basic e).perigee := by
    rw [coeffs_mode] at hm; exact (modeSpec_nearNorm_iff e).1 hm
  refine ⟨h1, h2, h3, h4, hper, hm, ha, hrk, hel, (clampE_bounds _).1, (clampE_bounds _).2, ?_⟩
  have : (kepOf (coeffs e (basic e) (modeSpec e)) ts).radius
      = (kepOf (coeffs e (basic e) (modeSpec e)) ts).rk * 6378.135 / 1 := by
    conv_lhs => unfold kepOf shortPeriod
    simp only [r_mul, r_div, XKMPER_real, AE_real]
    rfl
  rw [this]; linarith

/-- `tsi_defined`: construction in NEAR_NORM mode (perigee ≥ 220 km; the branch perigee < 156 of
    `_get_s4_qoms24` cannot occur) makes `aodp − s4 > 0`, so `tsi = 1/(aodp − s4)` is a genuine quotient, and
    `0 < η < 1`, so `psisq = |1 − η²| > 0` and `eo·η > 0` (denominators of coef1, c2, c4, xmcof). -/
theorem tsi_defined (e : Elements ℝ) (p : Params ℝ) (hi : init e = .ok p) (hm : p.mode = .nearNorm) :
    p.s4 = 1 + 78 / 6378.135 ∧ 0 < p.aodp - p.s4 ∧ p.tsi = 1 / (p.aodp - p.s4) ∧ 0 < p.tsi ∧
    0 < p.eta ∧ p.eta < 1 ∧ 0 < |1 - p.eta ^ 2| ∧ 0 < e.eo * p.eta ∧ 0 < p.aodp := by
  obtain ⟨h1, -, -, -, rfl⟩ := (init_ok_iff e p).1 hi
  rw [coeffs_mode] at hm
  have hper := (modeSpec_nearNorm_iff e).1 hm
  obtain ⟨hd, ht, h0, hlt⟩ := tsi_eta_of_perigee e (modeSpec e) h1.1.le (by linarith [h1.2]) hper
  set p := coeffs e (basic e) (modeSpec e)
  have hs4 : p.s4 = 1 + 78 / 6378.135 := by
    rw [coeffs_s4]; exact s4_of_perigee_ge _ (by linarith)
  have hA : 0 < p.aodp := by rw [hs4] at hd; have : (0:ℝ) < 1 + 78 / 6378.135 := by norm_num
                             linarith
  have heta : 0 < p.eta := by
    rw [coeffs_eta, coeffs_eo]; exact mul_pos (mul_pos hA h1.1) ht
  refine ⟨hs4, hd, coeffs_tsi _ _ _, ht, heta, hlt, ?_, mul_pos h1.1 heta, hA⟩
  have : 0 < 1 - p.eta ^ 2 := by nlinarith
  rw [abs_of_pos this]; exact this

/-- (4) definedness on the ok leaf: every denominator that a guard controls is non-zero and every square root
    that a guard controls has a non-negative argument.
    PARTIAL w.r.t. the design's `refused_or_finite` (which is about an `Option ℝ` reading in which EVERY
    division/sqrt is checked): here the model is read over ℝ and the facts are stated for the guarded
    sites only.  NOT controlled by any guard, hence not covered (they stay hypotheses of any finiteness claim):
      * `XKE / xn_0`, `sq a1`, `sq a0`, `1 + del0`, `1 − del0` of `_calculate_basic_orbit_params`
        (the range check is on `original_mean_motion`, not on `mean_motion`),
        likewise `1 + d0`, `1 − d0`, `a1`, `a0` of `OrbitElements` (`oeRecover`);
      * `df + ½·esinE·nr` of the 2nd-order Newton step (iterations 1..10);
        (the first-order `df = 1 − ecosE` IS positive: same Cauchy–Schwarz argument, not restated);
      * the clamped `t0` of `xlcof` is non-zero by its own clamp (|t0| ≥ 1.5e-12), not by a guard. -/
theorem refused_or_finite_partial (e : Elements ℝ) (p : Params ℝ) (ts : ℝ) (k : Kep ℝ)
    (hi : init e = .ok p) (hk : propagate p ts = .ok k) :
    -- construction: betao = sqrt betao2, betao·betao2, pinvsq
    (p.betao2 = 1 - e.eo ^ 2 ∧ 1.9e-6 < p.betao2 ∧ 0 < √p.betao2 * p.betao2 ∧ 0 < p.aodp ^ 2 * p.betao2 ^ 2) ∧
    -- construction: tsi, psisq, eeta (see `tsi_defined`)
    (0 < p.aodp - p.s4 ∧ 0 < |1 - p.eta ^ 2| ∧ 0 < e.eo * p.eta) ∧
    -- propagation: sqrt a, a·sqrt a, t0 = 1/(a·β²)
    (0 < k.a ∧ 0 < k.a * √k.a ∧ 0 < k.a * (1 - k.e ^ 2)) ∧
    -- ecc = sqrt elsq, betal = sqrt (1 − elsq), temp3 = 1/(1 + betal), pl, sqrt pl
    (0 ≤ k.elsq ∧ 0 < 1 - k.elsq ∧ 0 < 1 + √(1 - k.elsq) ∧ k.pl = k.a * (1 - k.elsq) ∧ 0 < k.pl) ∧
    -- invR = 1/r with r = a(1 − ecosE) > 0 (Cauchy–Schwarz on the loop invariant); final radius
    (0 < k.r ∧ 0 < k.radius) := by
  have hnn := answers_are_near_norm e p ts k hi hk
  obtain ⟨⟨he0, he1⟩, -, -, -, -, hm, ha, hrk, hel, hke0, hke1, hrad⟩ := hnn
  obtain ⟨-, hd, -, -, -, -, hpsi, heeta, hA⟩ := tsi_defined e p hi hm
  obtain ⟨-, -, -, -, rfl⟩ := (init_ok_iff e p).1 hi
  obtain ⟨-, -, -, -, -, rfl⟩ := (propagate_ok_iff _ ts k).1 hk
  set p := coeffs e (basic e) (modeSpec e)
  set s := secular p ts
  set l := longPeriod p s
  have hb2 : p.betao2 = 1 - e.eo ^ 2 := by rw [coeffs_betao2, basic_betao2]
  have hb2pos : 1.9e-6 < p.betao2 := by rw [hb2]; nlinarith
  have hb2pos' : 0 < p.betao2 := lt_trans (by norm_num) hb2pos
  have hka : (kepOf p ts).a = s.a := rfl
  have hke : (kepOf p ts).e = clampE s.e0 := rfl
  have hkel : (kepOf p ts).elsq = l.elsq := rfl
  have hkpl : (kepOf p ts).pl = s.a * (1 - l.elsq) := shortPeriod_pl _ _ _ _
  have hkr : (kepOf p ts).r = s.a * (1 - (newton l.axn l.ayn l.capu (Real.sqrt l.elsq)).ecosE) :=
    shortPeriod_r _ _ _ _
  rw [hka] at ha ⊢
  rw [hke] at hke0 hke1 ⊢
  rw [hkel] at hel ⊢
  have hapos : 0 < s.a := by linarith
  have helsq := longPeriod_elsq p s
  have hecos : (newton l.axn l.ayn l.capu (Real.sqrt l.elsq)).ecosE < 1 :=
    (newton_inv _ _ _ _).ecosE_lt_one (helsq ▸ hel)
  refine ⟨⟨hb2, hb2pos, ?_, by positivity⟩, ⟨hd, hpsi, heeta⟩, ⟨hapos, ?_, ?_⟩, ⟨?_, by linarith, ?_, ?_, ?_⟩, ?_, ?_⟩
  · exact mul_pos (Real.sqrt_pos.2 hb2pos') hb2pos'
  · exact mul_pos hapos (Real.sqrt_pos.2 hapos)
  · apply mul_pos hapos; nlinarith
  · rw [helsq]; positivity
  · have := Real.sqrt_nonneg (1 - l.elsq); linarith
  · rw [hkpl]
  · rw [hkpl]; exact mul_pos hapos (by linarith)
  · rw [hkr]; exact mul_pos hapos (by linarith)
  · linarith


/-! ### non-vacuity: the hypotheses above are met, and the refusal classes are inhabited -/

/-- an accepted NEAR_NORM element set that is answered (eo = 0.28, i = 90°, a ≈ 1.44 earth radii, ts = 0) -/
example : ∃ (e : Elements ℝ) (p : Params ℝ) (ts : ℝ) (k : Kep ℝ),
    init e = .ok p ∧ p.mode = .nearNorm ∧ propagate p ts = .ok k :=
  ⟨exE, exP, 0, kepOf exP 0, ex_init, rfl, ex_propagate⟩

example : init { exE with eo := 0 } = .error .eccRange := by
  rw [(init_outcome_class _).2.2.2.1]; intro h; exact lt_irrefl _ h.1

example : init { exE with xincl := π } = .error .inclRange := by
  have h := ex_init
  rw [init_ok_iff] at h
  rw [(init_outcome_class _).2.2.2.2.2.1]
  exact ⟨h.1, h.2.1, fun h => lt_irrefl _ h.2⟩

example : propagate { exP with mode := .nearSimp } 0 = .error .notImplemented := by
  rw [(propagate_outcome_class _ _).1]; simp

end PV.C13
