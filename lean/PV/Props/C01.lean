/-
  C01 — propagated position/velocity conform to the published SGP4 near-earth model.
  Theorems over ℝ about PV.Model.Sgp4 (the code) against PV.Spec.Str3 (Spacetrack Report #3).

  Set-up: `e : Sgp4.Elements ℝ` is the code's `OrbitElements`; `toEl e` the report's element set
  (`xno` := the TLE's Kozai mean motion `e.xn_0`).  Helper lemmas: PV/Lemmas/C01*.lean.

  Remark on divisions.  All coefficient identities below are *rearrangements*: every denominator of the code's
  expression is a denominator of the report's expression and vice versa, nothing is cancelled, so the equalities do
  not lean on `x / 0 = 0`.  Where a cancellation or a power law is used (`a^1.5 = a·√a`) the guard that the code
  relies on is an explicit hypothesis and its origin is named.
-/
import PV.Lemmas.C01Prop
import PV.Lemmas.C01Examples
namespace PV.C01
open PV PV.Sgp4

/-- the velocity normalisation constant of `get_position(normalize=True)` is 106.30225 km/s
    (from the constants as written in the source *now*) -/
theorem velocity_unit : (XKMPER * XMNPDA / SECDAY : ℝ) = 106.30225 := by
  simp only [XKMPER, XMNPDA, SECDAY, Gen.orbital_XKMPER, Gen.orbital_XMNPDA, Gen.orbital_SECDAY,
    r_ofSci, r_ofNat]
  norm_num

/-- the position normalisation constant is 6378.135 km -/
theorem position_unit : (XKMPER : ℝ) = 6378.135 := by
  simp only [XKMPER, Gen.orbital_XKMPER, r_ofSci]

/-! ## 1. constants (tie T-B) -/

/-- every constant the model takes from the (regenerated) source equals the report's value -/
theorem consts_match :
    (Sgp4.XKE : ℝ) = Str3.XKE ∧ (Sgp4.CK2 : ℝ) = Str3.CK2 ∧ (Sgp4.CK4 : ℝ) = Str3.CK4 ∧
    (Sgp4.QOMS2T : ℝ) = Str3.QOMS2T ∧ (Sgp4.XKMPER : ℝ) = Str3.XKMPER ∧ (Sgp4.XMNPDA : ℝ) = Str3.XMNPDA ∧
    (Sgp4.AE : ℝ) = 1 ∧ (Sgp4.KS : ℝ) = Str3.S ∧ (Sgp4.A3OVK2 : ℝ) = Str3.A3OVK2 ∧
    (Sgp4.PERIOD_DEEP : ℝ) = 225 ∧ (Sgp4.PERIGEE_SIMP : ℝ) = 220 ∧ (Sgp4.PERIGEE_S4 : ℝ) = 156 ∧
    (Sgp4.S4_OFFSET : ℝ) = 78 ∧ (Sgp4.S4_MIN : ℝ) = 20 ∧ (Sgp4.S4_MIN' : ℝ) = 20 ∧ (Sgp4.Q0 : ℝ) = 120 ∧
    (Sgp4.ECC_ALL : ℝ) = 1e-4 ∧ (Sgp4.EPS_COS : ℝ) = 1.5e-12 ∧ (Sgp4.ECC_EPS : ℝ) = 1e-6 ∧
    (Sgp4.ECC_LIMIT_HIGH : ℝ) = 1 - 1e-6 ∧ (Sgp4.ECC_LIMIT_LOW : ℝ) = -1e-3 ∧ (Sgp4.NR_EPS : ℝ) = 1e-12 ∧
    (Sgp4.SECDAY : ℝ) = 86400 :=
  ⟨XKE_eq, CK2_eq, CK4_eq, QOMS2T_eq, XKMPER_eq, XMNPDA_eq, AE_eq, KS_eq, A3OVK2_eq, PERIOD_DEEP_eq, PERIGEE_SIMP_eq,
    PERIGEE_S4_eq, S4_OFFSET_eq, S4_MIN_eq, S4_MIN'_eq, Q0_eq, ECC_ALL_eq, EPS_COS_eq, ECC_EPS_eq, ECC_LIMIT_HIGH_eq,
    ECC_LIMIT_LOW_eq, NR_EPS_eq, SECDAY_eq⟩

/-- the report's constants as numbers (so `consts_match` is about the published literals; `S` is the defining
    expression 1 + 78/XKMPER, DESIGN section 7) -/
theorem str3_values :
    (Str3.XKE : ℝ) = 0.0743669161 ∧ (Str3.CK2 : ℝ) = 5.413080e-4 ∧ (Str3.CK4 : ℝ) = 0.62098875e-6 ∧
    (Str3.QOMS2T : ℝ) = 1.88027916e-9 ∧ (Str3.XKMPER : ℝ) = 6378.135 ∧ (Str3.XMNPDA : ℝ) = 1440 ∧
    (Str3.S : ℝ) = 1 + 78 / 6378.135 ∧ (Str3.A3OVK2 : ℝ) = 0.253881e-5 / 5.413080e-4 := by
  refine ⟨?_, ?_, ?_, ?_, ?_, ?_, ?_, ?_⟩ <;>
    simp only [Str3.XKE, Str3.CK2, Str3.CK4, Str3.QOMS2T, Str3.XKMPER, Str3.XMNPDA, Str3.S, Str3.A3OVK2, Str3.XJ3,
      r_ofSci, r_ofNat, r_add, r_div, r_neg] <;> norm_num

/-! ## 2. Kozai → Brouwer recovery, perigee, period -/

/-- `_calculate_basic_orbit_params` = the report's recovery of n₀″, a₀″.  The hypotheses are the guards the code
    gives (`_check_orbital_elements`: 0 < eo < 1−1e-6, so β₀² > 0, β₀ ≠ 0); the identity itself is a rearrangement
    with identical denominators on both sides (β₀β₀², a₁², a₀², 1±δ₀), so they are not needed by the proof. -/
theorem basic_eq_recover (e : Sgp4.Elements ℝ) (_he0 : 0 < e.eo) (_he1 : e.eo < 1) :
    (basic e).xnodp = (Str3.recover (toEl e)).xnodp ∧ (basic e).aodp = (Str3.recover (toEl e)).aodp :=
  ⟨basic_xnodp_eq e, basic_aodp_eq e⟩

theorem perigee_eq (e : Sgp4.Elements ℝ) : (basic e).perigee = Str3.perigeeKm (toEl e) := perigee_eq' e

/-- the code's `(2π·1440/XMNPDA)/xnodp` is the report's period 2π/n₀″ (minutes) because XMNPDA = 1440 -/
theorem period_eq (e : Sgp4.Elements ℝ) : (basic e).period = Str3.periodMin (toEl e) := period_eq' e

/-! ## 3. s4 / qoms24 -/

/-- `_get_s4_qoms24` = the report's adjustment, for every perigee: the code floors with `perigee − 78 < 20`, the
    report with `perigee ≤ 98`; at 98 both give 20 -/
theorem s4q_eq (l : Str3.El ℝ) (perigee : ℝ) (hp : perigee = Str3.perigeeKm l) :
    Sgp4.s4qoms24 perigee = Str3.s4q l := s4q_eq_of l perigee hp

/-! ## 4. the initialisation coefficients -/

/-- NEAR_NORM: every coefficient of `_SGDP4Base.__init__` equals the report's.  (Guards: the code divides by `eo`
    only under `eo > 1e-4`, as the report's AIAA amendment does; the `1 + cos i` guard is the same `sign·1.5e-12`.) -/
theorem coeffs_eq_str3 (e : Sgp4.Elements ℝ) :
    let p := coeffs e (basic e) .nearNorm
    let c := Str3.consts (toEl e)
    p.c1 = c.c1 ∧ p.c2 = c.c2 ∧ p.c3 = c.c3 ∧ p.c4 = c.c4 ∧ p.c5 = c.c5 ∧ p.xmdot = c.xmdot ∧ p.omgdot = c.omgdot ∧
    p.xnodot = c.xnodot ∧ p.omgcof = c.omgcof ∧ p.xmcof = c.xmcof ∧ p.xnodcf = c.xnodcf ∧ p.t2cof = c.t2cof ∧
    p.xlcof = c.xlcof ∧ p.aycof = c.aycof ∧ p.delmo = c.delmo ∧ p.sinXMO = c.sinmo ∧ p.d2 = c.d2 ∧ p.d3 = c.d3 ∧
    p.d4 = c.d4 ∧ p.t3cof = c.t3cof ∧ p.t4cof = c.t4cof ∧ p.t5cof = c.t5cof ∧ p.eta = c.eta ∧ p.x3thm1 = c.x3thm1 ∧
    p.x1mth2 = c.x1mth2 ∧ p.x7thm1 = c.x7thm1 ∧ p.xnodp = c.xnodp ∧ p.aodp = c.aodp ∧ p.cosIO = c.cosio ∧
    p.sinIO = c.sinio :=
  ⟨c1_eq e _, c2_eq e _, c3_eq e, c4_eq e _, c5_eq e, xmdot_eq e _, omgdot_eq e _, xnodot_eq e _, omgcof_eq e,
    xmcof_eq e _, xnodcf_eq e _, t2cof_eq e _, xlcof_eq e _, aycof_eq e _, delmo_eq e _, sinXMO_eq e _, d2_eq e _,
    d3_eq e _, d4_eq e _, t3cof_eq e _, t4cof_eq e _, t5cof_eq e _, eta_eq e _, x3thm1_eq e _, x1mth2_eq e _,
    x7thm1_eq e _, xnodp_eq e _, aodp_eq e _, cosIO_eq e _, sinIO_eq e _⟩

/-- NEAR_SIMP: the coefficients the simplified branch uses agree; `c5`, `c3`, `omgcof` are zeroed by the code
    (the report computes them but its ISIMP branch never reads them); d2…t5cof agree too (unused in that branch) -/
theorem coeffs_simp_eq (e : Sgp4.Elements ℝ) :
    let p := coeffs e (basic e) .nearSimp
    let c := Str3.consts (toEl e)
    p.c1 = c.c1 ∧ p.c2 = c.c2 ∧ p.c4 = c.c4 ∧ p.xmdot = c.xmdot ∧ p.omgdot = c.omgdot ∧
    p.xnodot = c.xnodot ∧ p.xmcof = c.xmcof ∧ p.xnodcf = c.xnodcf ∧ p.t2cof = c.t2cof ∧
    p.xlcof = c.xlcof ∧ p.aycof = c.aycof ∧ p.delmo = c.delmo ∧ p.sinXMO = c.sinmo ∧ p.d2 = c.d2 ∧ p.d3 = c.d3 ∧
    p.d4 = c.d4 ∧ p.t3cof = c.t3cof ∧ p.t4cof = c.t4cof ∧ p.t5cof = c.t5cof ∧ p.eta = c.eta ∧ p.x3thm1 = c.x3thm1 ∧
    p.x1mth2 = c.x1mth2 ∧ p.x7thm1 = c.x7thm1 ∧ p.xnodp = c.xnodp ∧ p.aodp = c.aodp ∧ p.cosIO = c.cosio ∧
    p.sinIO = c.sinio ∧ p.c5 = 0 ∧ p.c3 = 0 ∧ p.omgcof = 0 :=
  ⟨c1_eq e _, c2_eq e _, c4_eq e _, xmdot_eq e _, omgdot_eq e _, xnodot_eq e _,
    xmcof_eq e _, xnodcf_eq e _, t2cof_eq e _, xlcof_eq e _, aycof_eq e _, delmo_eq e _, sinXMO_eq e _, d2_eq e _,
    d3_eq e _, d4_eq e _, t3cof_eq e _, t4cof_eq e _, t5cof_eq e _, eta_eq e _, x3thm1_eq e _, x1mth2_eq e _,
    x7thm1_eq e _, xnodp_eq e _, aodp_eq e _, cosIO_eq e _, sinIO_eq e _, c5_simp e, c3_simp e, omgcof_simp e⟩

/-- the code's mode test is the report's ISIMP flag -/
theorem isimp_eq_mode (e : Sgp4.Elements ℝ) :
    (Str3.consts (toEl e)).isimp = true ↔ modeOf (basic e).perigee = .nearSimp := by
  rw [consts_isimp, isimp_iff, modeOf_eq, decide_eq_true_eq]
  constructor
  · intro h; rw [if_pos h]
  · intro h; by_contra hn; rw [if_neg hn] at h; exact absurd h (by decide)

/-! ## 5. secular gravity and drag -/

/-- `_calculate_e`'s clamp is the spec's `min (max e 1e-6) (1 − 1e-6)` -/
theorem clampE_eq (x : ℝ) : Sgp4.clampE x = Num.min (Num.max x (1e-6 : ℝ)) ((1 : ℝ) - (1e-6 : ℝ)) := clampE_eq' x

/-- NEAR_NORM secular/drag update (Horner form) = the report's explicit powers of TSINCE.
    `hi`: the report's ISIMP flag is off, i.e. perigee ≥ 220 km (`isimp_eq_mode`, `init_near_norm`). -/
theorem secular_eq_str3 (e : Sgp4.Elements ℝ) (hi : (Str3.consts (toEl e)).isimp = false) (ts : ℝ) :
    let s := secular (coeffs e (basic e) .nearNorm) ts
    let m := Str3.mean (toEl e) (Str3.consts (toEl e)) ts
    s.xmp = m.xmp ∧ s.omega = m.omega ∧ s.xnode = m.xnode ∧ s.a = m.a ∧ clampE s.e0 = m.e := by
  have h := corrNorm_coeffs e
  have hm := (coeffs_fields e (basic e) .nearNorm).1
  exact ⟨secular_xmp_norm h hi ts, secular_omega_norm h hi ts, secular_xnode h.toCorr ts, secular_a_norm h hm hi ts,
    secular_e0_norm h hm hi ts⟩

/-- FINDING (latent: `propagate` refuses NEAR_SIMP).  In the simplified-drag branch the code still applies
    `delm = xmcof·((1+η cos M_DF)³ − DELMO)` to M and ω (orbital.py:1044-1047, 1069 have no mode test; only `omgcof`
    is zeroed), while the report's ISIMP branch skips DELOMG *and* DELM.  Exact difference: -/
theorem simp_branch_difference (e : Sgp4.Elements ℝ) (hi : (Str3.consts (toEl e)).isimp = true) (ts : ℝ) :
    let s := secular (coeffs e (basic e) .nearSimp) ts
    let c := Str3.consts (toEl e)
    let m := Str3.mean (toEl e) c ts
    s.xmp = m.xmp + c.xmcof * ((1 + c.eta * Real.cos (e.xmo + c.xmdot * ts)) ^ 3 - c.delmo) ∧
    s.omega = m.omega - c.xmcof * ((1 + c.eta * Real.cos (e.xmo + c.xmdot * ts)) ^ 3 - c.delmo) :=
  ⟨secular_xmp_simp (corr_coeffs e _) (omgcof_simp e) hi ts, secular_omega_simp (corr_coeffs e _) (omgcof_simp e) hi ts⟩

/-- PARTIAL: the code's NEAR_SIMP step equals the report's ISIMP step under the extra hypothesis `xmcof = 0`
    (true for `eo ≤ 1e-4` or `B* = 0`).  Missing for the full statement: the `delm` term of
    `simp_branch_difference`, a genuine difference between code and report.  `a`, `e`, `Ω` agree unconditionally. -/
theorem simp_branch_eq_str3_partial (e : Sgp4.Elements ℝ) (hi : (Str3.consts (toEl e)).isimp = true)
    (hx : (Str3.consts (toEl e)).xmcof = 0) (ts : ℝ) :
    let p := coeffs e (basic e) .nearSimp
    let s := secular p ts
    let m := Str3.mean (toEl e) (Str3.consts (toEl e)) ts
    s.xmp = m.xmp ∧ s.omega = m.omega ∧ s.xnode = m.xnode ∧ s.a = m.a ∧ clampE s.e0 = m.e ∧
    (longPeriod p s).axn = m.axn ∧ (longPeriod p s).ayn = m.ayn ∧ (longPeriod p s).xlt - s.xnode = m.capu := by
  have h := corr_coeffs e .nearSimp
  have hm := (coeffs_fields e (basic e) .nearSimp).1
  have ho := omgcof_simp e
  exact ⟨secular_xmp_simp0 h ho hx hi ts, secular_omega_simp0 h ho hx hi ts, secular_xnode h ts, secular_a_simp h hm hi ts,
    secular_e0_simp h hm hi ts, lp_axn_simp0 h hm ho hx hi ts, lp_ayn_simp0 h hm ho hx hi ts,
    lp_capu_simp0 h hm ho hx hi ts⟩

/-- the part of the simplified branch that needs no extra hypothesis -/
theorem simp_branch_a_e_node (e : Sgp4.Elements ℝ) (hi : (Str3.consts (toEl e)).isimp = true) (ts : ℝ) :
    let s := secular (coeffs e (basic e) .nearSimp) ts
    let m := Str3.mean (toEl e) (Str3.consts (toEl e)) ts
    s.xnode = m.xnode ∧ s.a = m.a ∧ clampE s.e0 = m.e := by
  have h := corr_coeffs e .nearSimp
  have hm := (coeffs_fields e (basic e) .nearSimp).1
  exact ⟨secular_xnode h ts, secular_a_simp h hm hi ts, secular_e0_simp h hm hi ts⟩

/-! ## 6. long-period periodics -/

/-- a_xN, a_yN and U.  The model reduces U with `fmod(·, 2π)` (orbital.py:1148); before the reduction it is the
    report's `U = L_T − Ω`, and the reduced value is `fmod` of the report's. -/
theorem longPeriod_eq_str3 (e : Sgp4.Elements ℝ) (hi : (Str3.consts (toEl e)).isimp = false) (ts : ℝ) :
    let p := coeffs e (basic e) .nearNorm
    let s := secular p ts
    let m := Str3.mean (toEl e) (Str3.consts (toEl e)) ts
    (longPeriod p s).e = m.e ∧ (longPeriod p s).axn = m.axn ∧ (longPeriod p s).ayn = m.ayn ∧
    (longPeriod p s).xlt - s.xnode = m.capu ∧ (longPeriod p s).capu = Num.fmod m.capu (2 * Real.pi) ∧
    (longPeriod p s).elsq = m.axn * m.axn + m.ayn * m.ayn := by
  have h := corrNorm_coeffs e
  have hm := (coeffs_fields e (basic e) .nearNorm).1
  refine ⟨lp_e_norm h hm hi ts, lp_axn_norm h hm hi ts, lp_ayn_norm h hm hi ts, lp_capu_norm h hm hi ts, ?_, ?_⟩
  · rw [longPeriod_capu, lp_capu_norm h hm hi ts]
  · rw [longPeriod_elsq, lp_axn_norm h hm hi ts, lp_ayn_norm h hm hi ts]

/-! ## 7. short-period periodics, orientation vectors, units -/

/-- Given the same Kepler iterate `x` (the loop's sin/cos/e·cosE/e·sinE are those of `x`), `kep2xyz ∘ shortPeriod`
    is the report's state (position km, velocity km/s).  `ha : 0 < a` is the code's "Satellite crashed" guard
    (`a < 1` raises, orbital.py:1096) and is what `XKE/(a√a) = XKE/a^1.5` needs.  Covers `_update_short_period`,
    `_collect_return_values`, `kep2xyz` and the `XKMPER/AE·XMNPDA/86400` scaling. -/
theorem shortPeriod_kep2xyz_eq_str3 (e : Sgp4.Elements ℝ) (mode : Mode) (s : Sgp4.Secular ℝ) (lp : Sgp4.LongPeriod ℝ)
    (nw : Sgp4.Newton ℝ) (m : Str3.Mean ℝ) (x : ℝ)
    (ha : s.a = m.a) (hn : s.xnode = m.xnode) (hax : lp.axn = m.axn) (hay : lp.ayn = m.ayn)
    (hel : lp.elsq = lp.axn * lp.axn + lp.ayn * lp.ayn) (hxn : m.xn = Str3.XKE / m.a ^ (1.5 : ℝ)) (hpos : 0 < m.a)
    (hnw : nw.sinEPW = Real.sin x ∧ nw.cosEPW = Real.cos x ∧
      nw.ecosE = m.axn * Real.cos x + m.ayn * Real.sin x ∧ nw.esinE = m.axn * Real.sin x - m.ayn * Real.cos x) :
    kep2xyz (shortPeriod (coeffs e (basic e) mode) s lp nw) = Str3.state (toEl e) (Str3.consts (toEl e)) m x :=
  state_core (corr_coeffs e mode) s lp nw m x ha hn hax hay hel hxn hpos hnw

/-! ## 8. Kepler's equation -/

/-- if the ≤ 10-step loop exits through its `break`, the returned `E+ω` solves the report's Kepler equation to
    1e-12 and the returned sin/cos/e·cosE/e·sinE are those of the returned `E+ω`.
    (No residual is proved for the exhausted-iterations exit; see `newton_at` for what holds then.) -/
theorem kepler_residual (axn ayn capu ecc : ℝ) (hc : (newton axn ayn capu ecc).converged = true) :
    let r := newton axn ayn capu ecc
    |capu - r.epw + axn * Real.sin r.epw - ayn * Real.cos r.epw| < 1e-12 ∧
    r.sinEPW = Real.sin r.epw ∧ r.cosEPW = Real.cos r.epw ∧
    r.ecosE = axn * Real.cos r.epw + ayn * Real.sin r.epw ∧ r.esinE = axn * Real.sin r.epw - ayn * Real.cos r.epw := by
  obtain ⟨h1, h2⟩ := newton_converged axn ayn capu ecc hc
  refine ⟨?_, h2⟩
  rw [add_sub_assoc]; exact h1

/-! ## 9. which modes are answered -/

theorem answers_imply_near_norm (p : Sgp4.Params ℝ) (ts : ℝ) (k : Sgp4.Kep ℝ) (h : propagate p ts = .ok k) :
    p.mode = .nearNorm := (propagate_ok h).1

/-- an accepted element set in NEAR_NORM mode has perigee ≥ 220 km and period < 225 min, its eccentricity and
    inclination passed `_check_orbital_elements`, and the report's ISIMP flag is off -/
theorem init_near_norm (e : Sgp4.Elements ℝ) (p : Sgp4.Params ℝ) (h : init e = .ok p) (hm : p.mode = .nearNorm) :
    (basic e).perigee ≥ 220 ∧ (basic e).period < 225 ∧ 0 < e.eo ∧ e.eo < 1 - 1e-6 ∧ 0 < e.xincl ∧ e.xincl < Real.pi ∧
    p = coeffs e (basic e) .nearNorm ∧ (Str3.consts (toEl e)).isimp = false := by
  obtain ⟨hc, hper, hp⟩ := init_ok h
  obtain ⟨g1, g2, g3, g4⟩ := checkElements_none hc
  have hmode : modeOf (basic e).perigee = .nearNorm := by
    rw [hp, (coeffs_fields e (basic e) _).1] at hm; exact hm
  have hge : (basic e).perigee ≥ 220 := by
    rw [modeOf_eq] at hmode
    by_contra hlt
    rw [if_pos (not_le.mp hlt)] at hmode
    exact absurd hmode (by decide)
  refine ⟨hge, hper, g1, g2, g3, g4, by rw [hp, hmode], ?_⟩
  rw [consts_isimp, isimp_iff]
  exact decide_eq_false (not_lt.mpr hge)

/-! ## capstone: every answer of `propagate` is the report's state at the code's Kepler iterate -/

/-- For an accepted element set (`init e = ok p`) and any `ts` for which `propagate` answers, the returned
    Keplerians turned into a state by `kep2xyz` are exactly `Str3.state` of the report's mean quantities at a point
    `y`; if the Newton loop left through its `break`, `y` is the returned `E+ω` and solves the report's Kepler
    equation (with `U` reduced by `fmod 2π`, as `Str3.sgp4` does) to 1e-12.  All of secular, drag, long-period,
    short-period, orientation and unit conversion are covered; what is *not* proved is a residual bound when the
    10 iterations are exhausted (DESIGN: measured by the oracle). -/
theorem propagate_eq_str3 (e : Sgp4.Elements ℝ) (p : Sgp4.Params ℝ) (ts : ℝ) (k : Sgp4.Kep ℝ)
    (hinit : init e = .ok p) (hk : propagate p ts = .ok k) :
    let l := toEl e
    let c := Str3.consts l
    let m := Str3.mean l c ts
    let nw := newton m.axn m.ayn (Num.fmod m.capu (2 * Real.pi)) (√(m.axn * m.axn + m.ayn * m.ayn))
    ∃ y, kep2xyz k = Str3.state l c m y ∧
      (nw.converged = true → y = k.epw ∧
        |Str3.keplerResidual { m with capu := Num.fmod m.capu (2 * Real.pi) } y| < 1e-12) := by
  intro l c m nw
  obtain ⟨hm, hcalc⟩ := propagate_ok hk
  obtain ⟨-, -, -, -, -, -, hp, hi⟩ := init_near_norm e p hinit hm
  subst hp
  obtain ⟨ha1, -, -, hkeq, -⟩ := calculate_ok hcalc
  obtain ⟨-, l2, l3, -, l5, l6⟩ := longPeriod_eq_str3 e hi ts
  obtain ⟨-, -, s3, s4, -⟩ := secular_eq_str3 e hi ts
  rw [l2, l3, l5, l6] at hkeq
  have hpos : 0 < m.a := by rw [← s4]; linarith
  have hstate : ∀ y, NewtonAt m.axn m.ayn nw y → kep2xyz k = Str3.state l c m y := fun y hy => by
    rw [hkeq]
    exact shortPeriod_kep2xyz_eq_str3 e _ _ _ _ m y s4 s3 l2 l3 (longPeriod_elsq _) (mean_xn ts) hpos hy
  by_cases hc : nw.converged = true
  · obtain ⟨r1, r2⟩ := newton_converged _ _ _ _ hc
    refine ⟨nw.epw, hstate _ r2, fun _ => ⟨?_, ?_⟩⟩
    · rw [hkeq]; rfl
    · simp only [Str3.keplerResidual]; c01_bridge
      rw [add_sub_assoc]; exact r1
  · obtain ⟨y, hy⟩ := newton_at m.axn m.ayn (Num.fmod m.capu (2 * Real.pi)) (√(m.axn * m.axn + m.ayn * m.ayn))
    exact ⟨y, hstate y hy, fun h => absurd h hc⟩

/-- the same at the API level: `get_position(normalize=False)` -/
theorem getPosition_eq_str3 (e : Sgp4.Elements ℝ) (p : Sgp4.Params ℝ) (ts : ℝ) (pv : V3 ℝ × V3 ℝ)
    (hinit : init e = .ok p) (hg : getPosition p ts false = .ok pv) :
    ∃ y, pv = Str3.state (toEl e) (Str3.consts (toEl e)) (Str3.mean (toEl e) (Str3.consts (toEl e)) ts) y := by
  simp only [getPosition] at hg
  cases hk : propagate p ts with
  | error err => rw [hk] at hg; exact absurd hg (by simp)
  | ok k =>
    rw [hk] at hg
    simp only [Bool.false_eq_true, if_false] at hg
    obtain ⟨y, hy, -⟩ := propagate_eq_str3 e p ts k hinit hk
    exact ⟨y, by rw [← hy]; exact (Except.ok.inj hg).symm⟩

/-! ## 10. normalisation -/

/-- `get_position(normalize=True)` is `get_position(normalize=False)` divided componentwise by
    (6378.135 km, 106.30225 km/s) -/
theorem normalize_eq (p : Sgp4.Params ℝ) (ts : ℝ) :
    getPosition p ts true = (getPosition p ts false).map (fun pv =>
      (⟨pv.1.x / 6378.135, pv.1.y / 6378.135, pv.1.z / 6378.135⟩,
       ⟨pv.2.x / 106.30225, pv.2.y / 106.30225, pv.2.z / 106.30225⟩)) := by
  simp only [getPosition]
  cases propagate p ts with
  | error err => rfl
  | ok k =>
    simp only [Except.map, if_true, Bool.false_eq_true, if_false]
    rw [velocity_unit, position_unit]

/-! ## non-vacuity of the hypotheses

  `exEl q bs`: polar orbit, e = 0.28, Kozai mean motion XKE/q³ (a₁ = q²), B* = bs.
  q = 1.2 → perigee ≈ 233 km (full drag), q = 1.19 → perigee ≈ 126 km (simplified drag).
  The hypotheses `init e = ok p` / `propagate p ts = ok k` of the capstone are not witnessed over ℝ (that needs
  interval arithmetic through sin/cos/rpow and ten Newton steps); they are witnessed on Float by the correspondence
  check, which runs this same model on every generated element set. -/

example (bs : ℝ) : (Str3.consts (toEl (exEl 1.2 bs))).isimp = false := exEl_isimp_false bs
example (bs : ℝ) : 220 ≤ (basic (exEl 1.2 bs)).perigee := exEl_norm_perigee bs
example : (Str3.consts (toEl (exEl 1.19 0))).isimp = true ∧ (Str3.consts (toEl (exEl 1.19 0))).xmcof = 0 :=
  ⟨exEl_isimp_true 0, xmcof_of_bstar_zero _ rfl⟩
example : (0 : ℝ) < (exEl 1.2 0).eo ∧ (exEl 1.2 0).eo < 1 := by
  simp only [exEl]; norm_num
example : (newton (0 : ℝ) 0 1 0).converged = true := newton_example
/-- the hypotheses of `shortPeriod_kep2xyz_eq_str3` are met by the pipeline itself (used so in `propagate_eq_str3`) -/
example (e : Sgp4.Elements ℝ) (mode : Mode) : Corr (coeffs e (basic e) mode) (toEl e) (Str3.consts (toEl e)) :=
  corr_coeffs e mode

end PV.C01
