/-
  C01 — propagated position/velocity conform to the published SGP4 near-earth model.
  Theorems over ℝ about PV.Model.Sgp4 against PV.Spec.Str3.
-/
import PV.NumReal
import PV.Model.Sgp4
import PV.Spec.Str3
namespace PV.C01
open PV PV.Sgp4

/-- the velocity normalisation constant of `get_position(normalize=True)` is 106.30225 km/s
    (from the constants as written in the source *now*) -/
theorem velocity_unit : (XKMPER * XMNPDA / SECDAY : ℝ) = 106.30225 := by
  simp only [XKMPER, XMNPDA, SECDAY, Gen.orbital_XKMPER, Gen.orbital_XMNPDA, Gen.orbital_SECDAY,
    r_ofSci, r_ofNat]
  norm_num

/-- the position normalisation constant is 6378.135 km -/
theorem position_unit : (XKMPER : ℝ) = 6378.135 := by
  simp only [XKMPER, Gen.orbital_XKMPER, r_ofSci]

end PV.C01
