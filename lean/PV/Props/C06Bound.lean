/-
  C06 (stretch) — propagation of the proved series bounds (|Δλ| ≤ 0.012°, |Δε| ≤ 0.0011°, C06.lean)
  to declination, right ascension, zenith angle, altitude and cos_zen, over ℝ, for every
  |n| ≤ 18263 d (1950–2050), every longitude and latitude (any real number of degrees).
  "Almanac" = PV.Spec.Almanac (`raDec`, `hourAngle`, `cosZenith`, `altitude`); the spec takes the
  sidereal time as an argument, so the zenith/altitude/cos_zen theorems come in two forms:
  `…_of_gmst` for ANY Almanac-side sidereal angle g with gmst(code) ≡ g + G' (mod 2π), |G'| ≤ G
  (explicit term G), and the instance g = IAU-1982 GMST (PV.Spec.Iau82, the one the harness
  oracle uses; G = 4.1e-9 rad by `C12.gmst_close_iau82_mod`).  With the same GMST on both sides
  take g = gmst d, k = 0, G = 0 (example at the end).

  Guard `hlam : cos λ_code ≠ −1` (RA, zenith, altitude, cos_zen): at the one real instant per year
  with λ_code ≡ π the code's half-angle form evaluates atan2(0, 0) = 0 and returns RA = 0 instead
  of π (see `sunRaDec_eq_textbook`); the bounds are false there over ℝ, so the guard is necessary.
  The declination needs no guard.

  Constants:  B_δ = 0.0065°  (1.0911·(0.0011 + 0.4·0.012)),
              B_α = 0.01335° (0.012/0.9165 + 0.4·0.0011/(2·0.9165), modulo 360°),
              B_zenith = B_altitude = 0.0131° + G  (0.012 + 0.0011 + G),  all ≤ 0.03°.
  Azimuth: not proved here.  The cos(altitude)-weighted azimuth difference does NOT follow cheaply
  from the direction bound: near the zenith the two directions may lie on opposite sides of it,
  and the honest worst case from an angular separation γ is π·γ (0.041° for γ = 0.0131°), above
  the 0.03° of the statement; it stays measured.
  Helper lemmas: PV/Lemmas/C06BoundSphere.lean, C06BoundDec.lean, C06BoundRa.lean, C06BoundZen.lean.
-/
import PV.Props.C06
import PV.Props.C12
import PV.Spec.Iau82
import PV.Lemmas.C06BoundSphere
import PV.Lemmas.C06BoundDec
import PV.Lemmas.C06BoundRa
import PV.Lemmas.C06BoundZen
namespace PV.C06
open PV PV.Astro PV.C06L PV.C06B

/-! ### (1) declination -/

/-- |δ_code − δ_AA| ≤ 0.0065° -/
theorem dec_close_to_almanac (d : ℝ) (hd : |d| ≤ 18263) :
    |Num.rad2deg (sunRaDec d).2 - Num.rad2deg (Almanac.raDec d).2| ≤ 0.0065 := by
  rw [abs_rad2deg_sub]
  exact rad2deg_le _ _ (dec_close_rad d hd)

/-! ### (2) right ascension -/

/-- angular distance (the harness's `angdiff`, = arccos cos Δ) between α_code and α_AA
    ≤ 0.01335° -/
theorem ra_angdist_close_to_almanac (d : ℝ) (hd : |d| ≤ 18263)
    (hlam : Real.cos (sunEclipticLongitude d) ≠ -1) :
    Num.rad2deg (Real.arccos (Real.cos ((sunRaDec d).1 - (Almanac.raDec d).1))) ≤ 0.01335 := by
  rw [r_rad2deg]
  apply rad2deg_le
  rw [sunRaDec_eq_textbook d (cos_obliquity_pos d hd) hlam, almanac_raDec_real]
  exact ra_core _ _ _ _ (epsC_range d hd) (epsA_range d hd) (dlam_rad d hd) (deps_rad d hd)

/-- α_code and α_AA agree modulo 360° within 0.01335° -/
theorem ra_close_to_almanac (d : ℝ) (hd : |d| ≤ 18263)
    (hlam : Real.cos (sunEclipticLongitude d) ≠ -1) :
    ∃ k : ℤ, |Num.rad2deg (sunRaDec d).1 - Num.rad2deg (Almanac.raDec d).1 - 360 * k|
      ≤ 0.01335 := by
  have h := ra_angdist_close_to_almanac d hd hlam
  rw [r_rad2deg] at h
  obtain ⟨k, hk⟩ := exists_int_of_arccos_cos_le ((sunRaDec d).1 - (Almanac.raDec d).1) _ (le_refl _)
  refine ⟨k, ?_⟩
  have hpos := Real.pi_pos
  have e : Num.rad2deg (sunRaDec d).1 - Num.rad2deg (Almanac.raDec d).1 - 360 * k
      = ((sunRaDec d).1 - (Almanac.raDec d).1 - 2 * Real.pi * k) * (180 / Real.pi) := by
    rw [r_rad2deg, r_rad2deg]; field_simp; ring
  rw [e, abs_mul, abs_of_pos (by positivity : (0:ℝ) < 180 / Real.pi)]
  exact le_trans (mul_le_mul_of_nonneg_right hk (by positivity)) h

/-! ### (3) zenith angle, altitude, cos_zen -/

/-- zenith angle (degrees): code vs Almanac evaluated with any sidereal angle g such that
    gmst(code) ≡ g + G' (mod 2π), |G'| ≤ G:  ≤ 0.0131° + G (G in radians, converted).
    The bound is the spherical triangle inequality applied to the sun direction (|Δλ| + |Δε|)
    and to the observer's zenith direction (G); it holds up to the zenith and the horizon. -/
theorem zenith_close_to_almanac_of_gmst (d lonDeg latDeg g G : ℝ) (k : ℤ) (hd : |d| ≤ 18263)
    (hlam : Real.cos (sunEclipticLongitude d) ≠ -1) (hg : |gmst d - g - 2 * Real.pi * k| ≤ G) :
    |sunZenithAngle d lonDeg latDeg
      - Num.rad2deg (Real.arccos (Almanac.cosZenith (Num.deg2rad latDeg) (Almanac.raDec d).2
          (Almanac.hourAngle g (Num.deg2rad lonDeg) (Almanac.raDec d).1)))|
      ≤ 0.0131 + Num.rad2deg G := by
  rw [zenith_eq_arccos_coszen, abs_rad2deg_sub, r_rad2deg]
  exact rad2deg_le_add _ _ _ (zenith_close_rad d lonDeg latDeg g G k hd hlam hg)

/-- zenith angle: code vs Almanac with IAU-1982 GMST: ≤ 0.01311° -/
theorem zenith_close_to_almanac (d lonDeg latDeg : ℝ) (hd : |d| ≤ 18263)
    (hlam : Real.cos (sunEclipticLongitude d) ≠ -1) :
    |sunZenithAngle d lonDeg latDeg
      - Num.rad2deg (Real.arccos (Almanac.cosZenith (Num.deg2rad latDeg) (Almanac.raDec d).2
          (Almanac.hourAngle (Iau82.gmst (d / 36525)) (Num.deg2rad lonDeg) (Almanac.raDec d).1)))|
      ≤ 0.01311 := by
  obtain ⟨k, hk⟩ := PV.C12.gmst_close_iau82_mod d (centuries_le_one d hd)
  have h := zenith_close_to_almanac_of_gmst d lonDeg latDeg (Iau82.gmst (d / 36525)) 4.1e-9 k hd
    hlam hk.le
  refine le_trans h ?_
  rw [r_rad2deg]
  have hp := Real.pi_gt_d2
  have : (180:ℝ) / Real.pi ≤ 58 := by
    rw [div_le_iff₀ Real.pi_pos]; linarith
  nlinarith

/-- altitude (degrees): same bound as the zenith angle, for any sidereal angle g as above -/
theorem altitude_close_to_almanac_of_gmst (d lonDeg latDeg g G : ℝ) (k : ℤ) (hd : |d| ≤ 18263)
    (hlam : Real.cos (sunEclipticLongitude d) ≠ -1) (hg : |gmst d - g - 2 * Real.pi * k| ≤ G) :
    |Num.rad2deg (altAz d lonDeg latDeg).1
      - Num.rad2deg (Almanac.altitude (Num.deg2rad latDeg) (Almanac.raDec d).2
          (Almanac.hourAngle g (Num.deg2rad lonDeg) (Almanac.raDec d).1))|
      ≤ 0.0131 + Num.rad2deg G := by
  have h := zenith_close_to_almanac_of_gmst d lonDeg latDeg g G k hd hlam hg
  rw [zenith_eq_arccos_coszen, abs_rad2deg_sub] at h
  rw [altitude_eq_arcsin_coszen, abs_rad2deg_sub]
  have e : Almanac.altitude (Num.deg2rad latDeg) (Almanac.raDec d).2
        (Almanac.hourAngle g (Num.deg2rad lonDeg) (Almanac.raDec d).1)
      = Real.arcsin (Almanac.cosZenith (Num.deg2rad latDeg) (Almanac.raDec d).2
        (Almanac.hourAngle g (Num.deg2rad lonDeg) (Almanac.raDec d).1)) := rfl
  rw [e, arcsin_sub_eq, abs_neg]
  exact h

/-- altitude: code vs Almanac with IAU-1982 GMST: ≤ 0.01311° -/
theorem altitude_close_to_almanac (d lonDeg latDeg : ℝ) (hd : |d| ≤ 18263)
    (hlam : Real.cos (sunEclipticLongitude d) ≠ -1) :
    |Num.rad2deg (altAz d lonDeg latDeg).1
      - Num.rad2deg (Almanac.altitude (Num.deg2rad latDeg) (Almanac.raDec d).2
          (Almanac.hourAngle (Iau82.gmst (d / 36525)) (Num.deg2rad lonDeg) (Almanac.raDec d).1))|
      ≤ 0.01311 := by
  obtain ⟨k, hk⟩ := PV.C12.gmst_close_iau82_mod d (centuries_le_one d hd)
  have h := altitude_close_to_almanac_of_gmst d lonDeg latDeg (Iau82.gmst (d / 36525)) 4.1e-9 k hd
    hlam hk.le
  refine le_trans h ?_
  rw [r_rad2deg]
  have hp := Real.pi_gt_d2
  have : (180:ℝ) / Real.pi ≤ 58 := by
    rw [div_le_iff₀ Real.pi_pos]; linarith
  nlinarith

/-- cos_zen: |Δ| ≤ (0.0131° in radians) + G, for any sidereal angle g as above
    (cos is 1-Lipschitz in the zenith angle) -/
theorem coszen_close_to_almanac_of_gmst (d lonDeg latDeg g G : ℝ) (k : ℤ) (hd : |d| ≤ 18263)
    (hlam : Real.cos (sunEclipticLongitude d) ≠ -1) (hg : |gmst d - g - 2 * Real.pi * k| ≤ G) :
    |cosZen d lonDeg latDeg
      - Almanac.cosZenith (Num.deg2rad latDeg) (Almanac.raDec d).2
          (Almanac.hourAngle g (Num.deg2rad lonDeg) (Almanac.raDec d).1)|
      ≤ Num.deg2rad 0.0131 + G := by
  have h := zenith_close_rad d lonDeg latDeg g G k hd hlam hg
  rw [r_deg2rad]
  refine le_trans (sub_le_arccos_sub _ _ ?_ ?_) h
  · rw [cosZen_eq_cz d lonDeg latDeg hd hlam]; exact cz_range _ _ _ _
  · rw [almanac_cosZen_eq_cz d g _ _ hd]; exact cz_range _ _ _ _

/-- cos_zen: code vs Almanac with IAU-1982 GMST: ≤ 0.00023 (< 0.03° in radians = 0.00052) -/
theorem coszen_close_to_almanac (d lonDeg latDeg : ℝ) (hd : |d| ≤ 18263)
    (hlam : Real.cos (sunEclipticLongitude d) ≠ -1) :
    |cosZen d lonDeg latDeg
      - Almanac.cosZenith (Num.deg2rad latDeg) (Almanac.raDec d).2
          (Almanac.hourAngle (Iau82.gmst (d / 36525)) (Num.deg2rad lonDeg) (Almanac.raDec d).1)|
      ≤ 0.00023 := by
  obtain ⟨k, hk⟩ := PV.C12.gmst_close_iau82_mod d (centuries_le_one d hd)
  have h := coszen_close_to_almanac_of_gmst d lonDeg latDeg (Iau82.gmst (d / 36525)) 4.1e-9 k hd
    hlam hk.le
  refine le_trans h ?_
  rw [r_deg2rad]
  have hp := Real.pi_lt_d2
  nlinarith

/-! ### non-vacuity -/

/-- the hypotheses hold at J2000.0 … -/
example : |(0 : ℝ)| ≤ 18263 ∧ Real.cos (sunEclipticLongitude (0 : ℝ)) ≠ -1 :=
  ⟨by norm_num, eclLon_zero_guard⟩

/-- … the sidereal-angle hypothesis is satisfiable for every d (same GMST on both sides:
    g = gmst d, k = 0, G = 0), giving the bound 0.0131° exactly … -/
example (d lonDeg latDeg : ℝ) (hd : |d| ≤ 18263) (hlam : Real.cos (sunEclipticLongitude d) ≠ -1) :
    |sunZenithAngle d lonDeg latDeg
      - Num.rad2deg (Real.arccos (Almanac.cosZenith (Num.deg2rad latDeg) (Almanac.raDec d).2
          (Almanac.hourAngle (gmst d) (Num.deg2rad lonDeg) (Almanac.raDec d).1)))| ≤ 0.0131 := by
  have h := zenith_close_to_almanac_of_gmst d lonDeg latDeg (gmst d) 0 0 hd hlam
    (by rw [Int.cast_zero, mul_zero, sub_zero, sub_self, abs_zero])
  have e : Num.rad2deg (0 : ℝ) = 0 := by rw [r_rad2deg, zero_mul]
  rw [e, add_zero] at h
  exact h

/-- … and with the IAU-1982 angle (k and G exist for every d of the range) -/
example (d : ℝ) (hd : |d| ≤ 18263) :
    ∃ k : ℤ, |gmst d - Iau82.gmst (d / 36525) - 2 * Real.pi * k| ≤ 4.1e-9 := by
  obtain ⟨k, hk⟩ := PV.C12.gmst_close_iau82_mod d (centuries_le_one d hd)
  exact ⟨k, hk.le⟩

end PV.C06
