/-
  C07 — Geolocated pixels lie on the WGS-84 ellipsoid along the line of sight.
  Theorems over ℝ about PV.Model.Geoloc (`intersect` = the ray/ellipsoid intersection of
  `compute_pixels`, `viewVector` = `ScanGeometry.vectors`) against PV.Spec.Wgs84.
  Helper lemmas: PV/Lemmas/C07.lean, C07View.lean (and the C14 lemmas).

  Guards: `lsq ≠ 0` (the view vector is not the zero vector; `vectors` returns unit vectors, see
  `vectors_unit`) is what the division `/ lsq` in geoloc.py:242 relies on; `0 ≤ disc` is the hit case
  (numpy's sqrt of a negative number is NaN, ℝ's is 0, so every statement about the pixel carries it).
-/
import PV.Lemmas.C07
import PV.Lemmas.C07View
namespace PV.C07
open PV PV.C14L PV.C07L PV.Geoloc

/-! ### the pixel is on the ellipsoid, on the ray, at the nearer intersection -/

/-- hit ⇒ the returned pixel satisfies the ellipsoid equation of the constants in `compute_pixels` exactly -/
theorem pixel_on_ellipsoid (pos v : V3 ℝ) (hd : 0 ≤ (intersect pos v).disc) (hl : (intersect pos v).lsq ≠ 0) :
    Wgs84.OnEllipsoid PA PB (intersect pos v).pixel := by
  rw [onEllipsoid_iff]
  rw [pixel_real, lhs_line, d1_real]
  rw [disc_real] at hd ⊢
  rw [ldotc_real, lsq_real, csq_real] at *
  exact near_root_solves _ _ _ hl hd

/-- the same in plain notation -/
theorem pixel_on_ellipsoid' (pos v : V3 ℝ) (hd : 0 ≤ (intersect pos v).disc) (hl : (intersect pos v).lsq ≠ 0) :
    (intersect pos v).pixel.x ^ 2 / PA ^ 2 + (intersect pos v).pixel.y ^ 2 / PA ^ 2
      + (intersect pos v).pixel.z ^ 2 / PB ^ 2 = 1 :=
  (onEllipsoid_real _ _ _).mp (pixel_on_ellipsoid pos v hd hl)

/-- and these constants are the published WGS 84 semi-axes (km) -/
theorem pixel_on_wgs84 (pos v : V3 ℝ) (hd : 0 ≤ (intersect pos v).disc) (hl : (intersect pos v).lsq ≠ 0) :
    Wgs84.OnEllipsoid Wgs84.a84 Wgs84.b84 (intersect pos v).pixel := by
  rw [← PA_eq, ← PB_eq]; exact pixel_on_ellipsoid pos v hd hl

/-- the pixel is `pos + d1 · v` (the shape of the returned expression; `d1` is meaningful in the hit case, see
    `pixel_on_ellipsoid`, `near_root_least`) -/
theorem pixel_on_ray (pos v : V3 ℝ) :
    (intersect pos v).pixel = V3.add pos (V3.smul (intersect pos v).d1 v) := by
  rw [pixel_real]
  simp only [V3.add, V3.smul, r_add, r_mul]

/-- `d1` is the smaller of the two roots (hit case) -/
theorem near_root (pos v : V3 ℝ) (hl : (intersect pos v).lsq ≠ 0) (_hd : 0 ≤ (intersect pos v).disc) :
    (intersect pos v).d1 ≤
      ((intersect pos v).ldotc + Real.sqrt (intersect pos v).disc) / (intersect pos v).lsq := by
  have hq : 0 < (intersect pos v).lsq := by
    rw [lsq_real] at hl ⊢; exact lt_of_le_of_ne (Qr_nonneg _ _ _) (Ne.symm hl)
  rw [d1_real]
  apply div_le_div_of_nonneg_right _ hq.le
  linarith [Real.sqrt_nonneg (intersect pos v).disc]

/-- the other root is an intersection as well … -/
theorem far_root_on_ellipsoid (pos v : V3 ℝ) (hd : 0 ≤ (intersect pos v).disc) (hl : (intersect pos v).lsq ≠ 0) :
    Wgs84.OnEllipsoid PA PB (V3.add pos (V3.smul
      (((intersect pos v).ldotc + Real.sqrt (intersect pos v).disc) / (intersect pos v).lsq) v)) := by
  rw [onEllipsoid_iff]
  have : ∀ t : ℝ, V3.add pos (V3.smul t v) = ⟨pos.x + t * v.x, pos.y + t * v.y, pos.z + t * v.z⟩ := by
    intro t; simp only [V3.add, V3.smul, r_add, r_mul]
  rw [this, lhs_line]
  rw [disc_real] at hd ⊢
  rw [ldotc_real, lsq_real, csq_real] at *
  exact far_root_solves _ _ _ hl hd

/-- … and every intersection of the line with the ellipsoid has parameter between the two: `d1` is the
    intersection nearest to the satellite in the direction of `v` (least parameter) -/
theorem near_root_least (pos v : V3 ℝ) (t : ℝ) (hl : (intersect pos v).lsq ≠ 0)
    (ht : Wgs84.OnEllipsoid PA PB (V3.add pos (V3.smul t v))) :
    (intersect pos v).d1 ≤ t ∧
      t ≤ ((intersect pos v).ldotc + Real.sqrt (intersect pos v).disc) / (intersect pos v).lsq := by
  have hq : 0 < (intersect pos v).lsq := by
    rw [lsq_real] at hl ⊢; exact lt_of_le_of_ne (Qr_nonneg _ _ _) (Ne.symm hl)
  rw [onEllipsoid_iff] at ht
  have : V3.add pos (V3.smul t v) = ⟨pos.x + t * v.x, pos.y + t * v.y, pos.z + t * v.z⟩ := by
    simp only [V3.add, V3.smul, r_add, r_mul]
  rw [this, lhs_line] at ht
  rw [d1_real, disc_real]
  rw [ldotc_real, lsq_real, csq_real] at *
  exact ⟨root_ge_near _ _ _ _ hq ht, root_le_far _ _ _ _ hq ht⟩

/-- satellite outside the ellipsoid (`csq > 1`), looking towards the centre side (`ldotc > 0`), hit:
    the pixel is in front of the satellite (`d1 > 0`), and the satellite is on the outer side of the
    tangent plane at the pixel: the outward normal (gradient of the ellipsoid equation) at the pixel has
    inner product `d1·√disc ≥ 0` with `pos − pixel`, strictly positive unless the ray is tangent. -/
theorem near_root_visible (pos v : V3 ℝ) (hl : (intersect pos v).lsq ≠ 0) (hd : 0 ≤ (intersect pos v).disc)
    (hc : 1 < (intersect pos v).csq) (hL : 0 < (intersect pos v).ldotc) :
    0 < (intersect pos v).d1 ∧
    V3.dot (Wgs84.gradNormal PA PB (intersect pos v).pixel) (V3.sub pos (intersect pos v).pixel)
      = (intersect pos v).d1 * Real.sqrt (intersect pos v).disc ∧
    0 ≤ V3.dot (Wgs84.gradNormal PA PB (intersect pos v).pixel) (V3.sub pos (intersect pos v).pixel) ∧
    (0 < (intersect pos v).disc →
      0 < V3.dot (Wgs84.gradNormal PA PB (intersect pos v).pixel) (V3.sub pos (intersect pos v).pixel)) := by
  have hq : 0 < (intersect pos v).lsq := by
    rw [lsq_real] at hl ⊢; exact lt_of_le_of_ne (Qr_nonneg _ _ _) (Ne.symm hl)
  have hd1 : 0 < (intersect pos v).d1 := by
    rw [d1_real, disc_real]; rw [disc_real] at hd
    exact near_root_pos _ _ _ hq hc hL hd
  have hid : V3.dot (Wgs84.gradNormal PA PB (intersect pos v).pixel) (V3.sub pos (intersect pos v).pixel)
      = (intersect pos v).d1 * Real.sqrt (intersect pos v).disc := by
    rw [pixel_real, horizon_id, ← ldotc_real, ← lsq_real]
    congr 1
    rw [d1_real]
    field_simp
    ring
  refine ⟨hd1, hid, ?_, ?_⟩
  · rw [hid]; exact mul_nonneg hd1.le (Real.sqrt_nonneg _)
  · intro h; rw [hid]; exact mul_pos hd1 (Real.sqrt_pos.mpr h)

/-! ### miss -/

/-- the discriminant is negative exactly when the line through the satellite along `v` has no real
    intersection with the ellipsoid (this is the case in which numpy's `sqrt` yields NaN pixels) -/
theorem miss_iff (pos v : V3 ℝ) (hl : (intersect pos v).lsq ≠ 0) :
    (intersect pos v).disc < 0 ↔ ¬ ∃ t : ℝ, Wgs84.OnEllipsoid PA PB (V3.add pos (V3.smul t v)) := by
  constructor
  · rintro hneg ⟨t, ht⟩
    rw [onEllipsoid_iff] at ht
    have : V3.add pos (V3.smul t v) = ⟨pos.x + t * v.x, pos.y + t * v.y, pos.z + t * v.z⟩ := by
      simp only [V3.add, V3.smul, r_add, r_mul]
    rw [this, lhs_line] at ht
    rw [disc_real, ldotc_real, lsq_real, csq_real, disc_of_root _ _ _ _ ht] at hneg
    exact absurd hneg (not_lt.mpr (sq_nonneg _))
  · intro h
    by_contra hd
    exact h ⟨(intersect pos v).d1, by rw [← pixel_on_ray]; exact pixel_on_ellipsoid pos v (not_lt.mp hd) hl⟩

/-- non-vacuity (hit): satellite at 7000 km on the x axis looking at the centre -/
example : 0 ≤ (intersect (⟨7000, 0, 0⟩ : V3 ℝ) ⟨-1, 0, 0⟩).disc ∧ (intersect (⟨7000, 0, 0⟩ : V3 ℝ) ⟨-1, 0, 0⟩).lsq ≠ 0 ∧
    1 < (intersect (⟨7000, 0, 0⟩ : V3 ℝ) ⟨-1, 0, 0⟩).csq ∧ 0 < (intersect (⟨7000, 0, 0⟩ : V3 ℝ) ⟨-1, 0, 0⟩).ldotc := by
  rw [disc_real, ldotc_real, lsq_real, csq_real]
  simp only [Lr, Qr, PA, PB, Gen.geoloc__compute_pixels_L3, Gen.geoloc__compute_pixels_L4, r_ofSci]
  norm_num

/-- non-vacuity (miss): the same satellite looking along y -/
example : (intersect (⟨7000, 0, 0⟩ : V3 ℝ) ⟨0, 1, 0⟩).disc < 0 ∧ (intersect (⟨7000, 0, 0⟩ : V3 ℝ) ⟨0, 1, 0⟩).lsq ≠ 0 := by
  rw [disc_real, ldotc_real, lsq_real, csq_real]
  simp only [Lr, Qr, PA, PB, Gen.geoloc__compute_pixels_L3, Gen.geoloc__compute_pixels_L4, r_ofSci]
  norm_num

/-! ### view vectors (`ScanGeometry.vectors`)

`nd` is what `subpoint(-pos)` returned (the un-normalised "nadir"); the non-degeneracy the code relies on
(`/ vnorm(nadir)`, `/ vnorm(vel)`, `/ vnorm(y)`) is `nd × vel ≠ 0`, stated as `0 < ‖nd × vel‖²`. -/

/-- view vectors have unit length -/
theorem vectors_unit (pos vel nd w : V3 ℝ) (fx fy roll pitch yaw : ℝ)
    (hsub : subpoint (V3.neg pos) A B = some nd)
    (hc : 0 < V3.dot (V3.cross nd vel) (V3.cross nd vel))
    (h : viewVector pos vel fx fy roll pitch yaw = some w) : V3.dot w w = 1 := by
  rw [cross_nsq] at hc
  rw [viewVector_some pos vel nd w fx fy roll pitch yaw hsub h, dot_real, dotR_self]
  exact viewOf_nsq nd vel _ _ _ hc

/-- what `subpoint` returns is never the zero vector (it lies on the ellipsoid), so `nadir /= vnorm(nadir)` is safe -/
theorem nadir_nonzero (pos nd : V3 ℝ) (hsub : subpoint (V3.neg pos) A B = some nd) : 0 < V3.dot nd nd := by
  rw [dot_real, dotR_self]
  unfold subpoint at hsub
  split at hsub
  · exact absurd hsub (by simp)
  · injection hsub with hsub
    rw [← hsub]
    exact nsq_pos_of_on _ _ _ (ellipsoidPoint_on _ _ _ _ PV.C14L.default_axes'.1 PV.C14L.default_axes'.2)

/-- zero scan angles and zero attitude give the normalised nadir -/
theorem zero_angles_nadir (pos vel nd : V3 ℝ)
    (hsub : subpoint (V3.neg pos) A B = some nd)
    (hc : 0 < V3.dot (V3.cross nd vel) (V3.cross nd vel)) :
    viewVector pos vel 0 0 0 0 0 = some (Rodrigues.unit nd) := by
  rw [cross_nsq] at hc
  rw [viewVector_eq, hsub, Option.map_some, add_zero, viewOf_zero nd vel hc, unit_real]

/-- roll adds to the across-track scan angle, pitch to the along-track scan angle: the result depends on
    `(fx, roll)` only through `fx + roll` and on `(fy, pitch)` only through `fy + pitch` -/
theorem roll_pitch_add (pos vel : V3 ℝ) (fx fy roll pitch fx' fy' roll' pitch' yaw : ℝ)
    (h1 : fx + roll = fx' + roll') (h2 : fy + pitch = fy' + pitch') :
    viewVector pos vel fx fy roll pitch yaw = viewVector pos vel fx' fy' roll' pitch' yaw := by
  rw [viewVector_eq, viewVector_eq, h1, h2]

/-- yaw leaves the inner product with nadir (the cosine of the off-nadir angle, both being unit vectors) unchanged -/
theorem yaw_keeps_off_nadir (pos vel nd w w' : V3 ℝ) (fx fy roll pitch yaw yaw' : ℝ)
    (hsub : subpoint (V3.neg pos) A B = some nd)
    (hc : 0 < V3.dot (V3.cross nd vel) (V3.cross nd vel))
    (h : viewVector pos vel fx fy roll pitch yaw = some w)
    (h' : viewVector pos vel fx fy roll pitch yaw' = some w') :
    V3.dot w (Rodrigues.unit nd) = V3.dot w' (Rodrigues.unit nd) := by
  rw [cross_nsq] at hc
  rw [viewVector_some pos vel nd w fx fy roll pitch yaw hsub h,
    viewVector_some pos vel nd w' fx fy roll pitch yaw' hsub h', dot_real, dot_real, unit_real]
  exact viewOf_yaw nd vel _ _ yaw yaw' hc

/-- sense of the across-track angle: with zero yaw (and any along-track angle) the component of the view vector
    along `nd × vel` — which points to the right of the velocity for a downward `nd` — is `sin (fx + roll)` times
    the positive factor `‖nd × vel‖² / (‖nd‖ ‖vel‖)`; so positive across-track angles (< π) tilt the view to the right -/
theorem across_track_right (pos vel nd w : V3 ℝ) (fx fy roll pitch : ℝ)
    (hsub : subpoint (V3.neg pos) A B = some nd)
    (hc : 0 < V3.dot (V3.cross nd vel) (V3.cross nd vel))
    (h : viewVector pos vel fx fy roll pitch 0 = some w) :
    V3.dot w (V3.cross nd vel) = Real.sin (fx + roll) *
      (V3.dot (V3.cross nd vel) (V3.cross nd vel) / (Real.sqrt (V3.dot nd nd) * Real.sqrt (V3.dot vel vel))) ∧
    0 < V3.dot (V3.cross nd vel) (V3.cross nd vel) / (Real.sqrt (V3.dot nd nd) * Real.sqrt (V3.dot vel vel)) ∧
    (0 < fx + roll → fx + roll < Real.pi → 0 < V3.dot w (V3.cross nd vel)) ∧
    (-Real.pi < fx + roll → fx + roll < 0 → V3.dot w (V3.cross nd vel) < 0) := by
  rw [cross_nsq] at hc ⊢
  obtain ⟨hnd, hvel⟩ := nsq_pos_of_cross nd vel hc
  have hfac : 0 < nsq (crossR nd vel) / (Real.sqrt (nsq nd) * Real.sqrt (nsq vel)) :=
    div_pos hc (mul_pos (Real.sqrt_pos.mpr hnd) (Real.sqrt_pos.mpr hvel))
  have hid : V3.dot w (V3.cross nd vel) = Real.sin (fx + roll) *
      (nsq (crossR nd vel) / (Real.sqrt (nsq nd) * Real.sqrt (nsq vel))) := by
    rw [viewVector_some pos vel nd w fx fy roll pitch 0 hsub h, dot_real, cross_real]
    exact viewOf_across nd vel _ _ hc
  rw [dot_real nd nd, dot_real vel vel, dotR_self, dotR_self]
  refine ⟨hid, hfac, ?_, ?_⟩
  · intro h0 h1; rw [hid]; exact mul_pos (Real.sin_pos_of_pos_of_lt_pi h0 h1) hfac
  · intro h0 h1; rw [hid]; exact mul_neg_of_neg_of_pos (Real.sin_neg_of_neg_of_neg_pi_lt h1 h0) hfac

/-- sense of the along-track angle, PARTIAL: proved for zero across-track angle (`fx + roll = 0`) and zero yaw.
    The component of the view vector along the horizontal part of the velocity `vel − (n·vel) n` (`n` the unit
    nadir) is `−sin (fy + pitch) · ‖n × vel‖`: positive along-track angles (< π) tilt the view backward.
    Missing: the general case `fx + roll ≠ 0`, where the along-velocity component acquires an additional term
    `cos ψ · (n·x̂)(1 − cos φ)‖n × vel‖/‖vel‖` that is not sign-definite relative to the rotated vector. -/
theorem along_track_backward_partial (pos vel nd w f : V3 ℝ) (fx fy roll pitch : ℝ)
    (hsub : subpoint (V3.neg pos) A B = some nd)
    (hc : 0 < V3.dot (V3.cross nd vel) (V3.cross nd vel))
    (hφ : fx + roll = 0)
    (h : viewVector pos vel fx fy roll pitch 0 = some w)
    (hf : f = V3.sub vel (V3.smul (V3.dot (Rodrigues.unit nd) vel) (Rodrigues.unit nd))) :
    V3.dot w f = -(Real.sin (fy + pitch) * V3.norm (V3.cross (Rodrigues.unit nd) vel)) ∧
    0 < V3.norm (V3.cross (Rodrigues.unit nd) vel) ∧
    (0 < fy + pitch → fy + pitch < Real.pi → V3.dot w f < 0) ∧
    (-Real.pi < fy + pitch → fy + pitch < 0 → 0 < V3.dot w f) := by
  rw [cross_nsq] at hc
  obtain ⟨hnd, hvel⟩ := nsq_pos_of_cross nd vel hc
  have hy : 0 < nsq (crossR (unitR nd) vel) := by rw [nsq_cross_unit nd vel hnd]; exact div_pos hc hnd
  have hnorm : V3.norm (V3.cross (Rodrigues.unit nd) vel) = Real.sqrt (nsq (crossR (unitR nd) vel)) := by
    rw [unit_real, cross_real]
    simp only [V3.norm, nsq, r_add, r_sqrt, ← pow_two]
  have hfac : 0 < V3.norm (V3.cross (Rodrigues.unit nd) vel) := by rw [hnorm]; exact Real.sqrt_pos.mpr hy
  have hid : V3.dot w f = -(Real.sin (fy + pitch) * V3.norm (V3.cross (Rodrigues.unit nd) vel)) := by
    rw [viewVector_some pos vel nd w fx fy roll pitch 0 hsub h, hφ, hnorm, hf, dot_real, unit_real, dot_real]
    have := viewOf_along nd vel (fy + pitch) hc
    simp only [V3.sub, V3.smul, r_sub, r_mul]
    exact this
  refine ⟨hid, hfac, ?_, ?_⟩
  · intro h0 h1; rw [hid]
    exact neg_neg_of_pos (mul_pos (Real.sin_pos_of_pos_of_lt_pi h0 h1) hfac)
  · intro h0 h1; rw [hid]
    exact neg_pos.mpr (mul_neg_of_neg_of_pos (Real.sin_neg_of_neg_of_neg_pi_lt h1 h0) hfac)

/-- non-vacuity of the view-vector hypotheses: satellite on the x axis at 7000 km flying along y, any angles -/
example (fx fy roll pitch yaw : ℝ) : ∃ nd w : V3 ℝ,
    subpoint (V3.neg (⟨7000, 0, 0⟩ : V3 ℝ)) A B = some nd ∧
    0 < V3.dot (V3.cross nd ⟨0, 7, 0⟩) (V3.cross nd ⟨0, 7, 0⟩) ∧
    viewVector ⟨7000, 0, 0⟩ ⟨0, 7, 0⟩ fx fy roll pitch yaw = some w :=
  ⟨⟨-A, 0, 0⟩, _, ex_subpoint, ex_cross, by rw [viewVector_eq, ex_subpoint, Option.map_some]⟩

end PV.C07
