/-
  PV.Equiv.TranslatedPassesParab — tie T-D for C03, the two translations composed: `Orbital.get_next_passes` with its
  `_get_max_parab` parameter instantiated by the TRANSLATED `_get_max_parab` (on the bracket `get_next_passes` hands over,
  with `tol / 60.0`, minimising the function the `partial(self._elevation_inv, ...)` object stands for) is the model
  `PV.Passes.passes` whose `maxim` is the loop model `PV.Parab.maxParab` (the accepted estimate, else the answer of the
  bounded search).

  Hypotheses: the bounded search answers (`hb`) and the parabolic loop ends within the fuel without a FloatingPointError
  leaving it (`hterm`); `_get_root` stays a parameter with the answers `root g` (its contract — a root inside
  `[guess, guess + 1]` — is what the C03 theorems assume of `root`).
-/
import PV.Equiv.TranslatedPasses
import PV.Equiv.TranslatedParab
set_option linter.unusedVariables false
set_option linter.unusedSectionVars false

namespace PV.Equiv.TranslatedPassesParab
open PV PV.Py PV.Gen.T PV.Passes PV.Equiv.TL
open PV.Parab (Outcome Flags)

variable {α T Times UTC : Type} [Num α] [FloorCeil α]

/-- the loop of `_get_max_parab` ends with an answer: the estimate is accepted or the bounded search is called -/
def Answers : Outcome α → Prop
  | .accept _ => True
  | .fallback _ => True
  | _ => False

/-- the culmination `get_next_passes` gets for a bracket: the accepted estimate of the parabolic loop, else the answer
    `bounded lo hi` of `_get_min_bounded` -/
def maximOf (I : Flags α) (f : α → α) (bounded : α → α → α) (tol : α) (fuel : Nat) (lo hi : α) : α :=
  match Parab.maxParab I f lo hi tol fuel with
  | .accept x => x
  | _ => bounded lo hi

/-- **C03 tie, composed.** -/
theorem get_next_passes_parab (I : Flags α) (e : List α) (root : Nat → α) (am : UTC → α → UTC)
    (mg : UTC → Int → Times) (felev felevInv : UTC → α → α → α → α → α → α) (self : Orbital.Self α T) (utc : UTC) (len : Int)
    (lon lat alt tol hor : α) (hceil : ∀ g, 0 ≤ FloorCeil.ceilI (root g) + 1)
    (gr : (α → M α) → Int → Int → α → M α)
    (hgr : ∀ g : Nat, gr (fun x => Except.ok (felev utc lon lat alt hor x)) (g : Int) (g : Int) tol = Except.ok (root g))
    (gmb : (α → M α) → α → α → α → M α) (bounded : α → α → α) (fuel : Nat)
    (h2 : (OfScientific.ofScientific 2 false 0 : α) = (2.0 : α))
    (hb : ∀ lo hi, gmb (fun x => Except.ok (felevInv utc lon lat alt hor x)) lo hi (tol / (60.0 : α)) = Except.ok (bounded lo hi))
    (hterm : ∀ lo hi, Answers (Parab.maxParab I (felevInv utc lon lat alt hor) lo hi (tol / (60.0 : α)) fuel)) :
    @Orbital.get_next_passes α (α → M α) T Times UTC TranslatedPasses.instFloatOps TranslatedPasses.instFloatArith
        (fun u m => Except.ok (am u m)) (fun u a b c d x => Except.ok (felev u a b c d x))
        (fun u a b c d x => Except.ok (felevInv u a b c d x)) (fun _ _ _ _ _ => Except.ok e)
        (fun fn lo hi t => @_get_max_parab α TranslatedParab.instFloatOps TranslatedParab.instFloatArith
          (TranslatedParab.fpInv I) gmb fuel fn lo hi (t / (60.0 : α)))
        gr (fun x => Except.ok (FloorCeil.ceilI x + 1)) (fun x => Except.ok (FloorCeil.floorI x)) mg
        (fun l => Except.ok (argmax l : Int)) (fun l => (zeroCrossings l).map Int.ofNat) self utc len lon lat alt tol hor =
      Except.ok ((passes e root (maximOf I (felevInv utc lon lat alt hor) bounded (tol / (60.0 : α)) fuel)).map
        (TranslatedPasses.toTriple am utc)) := by
  refine TranslatedPasses.get_next_passes_eq_of e root _ am mg _ _ self utc len lon lat alt tol hor hceil _ gr ?_ hgr
  intro lo hi
  rw [TranslatedParab.get_max_parab_eq I (felevInv utc lon lat alt hor) gmb lo hi (tol / (60.0 : α)) fuel h2, hb]
  have ht := hterm lo hi
  unfold maximOf
  cases hm : Parab.maxParab I (felevInv utc lon lat alt hor) lo hi (tol / (60.0 : α)) fuel with
  | accept x => rfl
  | fallback w => rfl
  | raised => rw [hm] at ht; exact absurd ht (by simp [Answers])
  | outOfFuel => rw [hm] at ht; exact absurd ht (by simp [Answers])

end PV.Equiv.TranslatedPassesParab
