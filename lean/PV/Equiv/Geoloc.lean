/-
  PV.Equiv.Geoloc — T-C tie for pyorbital/geoloc.py: qrotate (per-column axis and shared axis), the latitude iteration of
  geodetic_lat (pass by pass), subpoint, ScanGeometry.vectors and the ray/ellipsoid intersection of compute_pixels.
  The kernels are traced from the array code (einsum, cross, reshape on object arrays) for one column.
-/
import PV.Equiv.Tactic
import PV.Model.Geoloc
import PV.Generated.Kernels
set_option linter.unusedTactic false
set_option linter.unreachableTactic false
set_option linter.unnecessarySeqFocus false

namespace PV.Equiv.Geoloc
open PV PV.Geoloc

theorem qrotate_eq (vx vy vz ax ay az angle : ℝ) :
    Gen.K.geoloc_qrotate vx vy vz ax ay az angle =
      [(qrotate ⟨vx, vy, vz⟩ ⟨ax, ay, az⟩ angle).x, (qrotate ⟨vx, vy, vz⟩ ⟨ax, ay, az⟩ angle).y,
       (qrotate ⟨vx, vy, vz⟩ ⟨ax, ay, az⟩ angle).z] := by
  simp only [Gen.K.geoloc_qrotate, qrotate, V3.norm] <;> kernel_eq

/-- a shared axis of shape (3,) takes the `np.dot(n_axis, sin_angle)` branch: same function -/
theorem qrotate_shared_axis_eq (vx vy vz ax ay az angle : ℝ) :
    Gen.K.geoloc_qrotate_shared_axis vx vy vz ax ay az angle =
      [(qrotate ⟨vx, vy, vz⟩ ⟨ax, ay, az⟩ angle).x, (qrotate ⟨vx, vy, vz⟩ ⟨ax, ay, az⟩ angle).y,
       (qrotate ⟨vx, vy, vz⟩ ⟨ax, ay, az⟩ angle).z] := by
  simp only [Gen.K.geoloc_qrotate_shared_axis, qrotate, V3.norm] <;> kernel_eq

/-! ### geodetic_lat: pass by pass -/
noncomputable def gr (x y : ℝ) : ℝ := Num.sqrt (x * x + y * y)
noncomputable def glat0 (x y z : ℝ) : ℝ := Num.atan2 z (gr x y)

theorem geodetic_lat_p1 (x y z : ℝ) :
    Gen.K.geoloc_geodetic_lat_p1 x y z = [geodStep A B z (gr x y) (glat0 x y z)] := by
  simp only [Gen.K.geoloc_geodetic_lat_p1, geodStep, gr, glat0, A, B] <;> kernel_eq

theorem geodetic_lat_p1_c1 (x y z : ℝ) :
    Gen.K.geoloc_geodetic_lat_p1_c1 x y z = allclose1 (geodStep A B z (gr x y) (glat0 x y z)) (glat0 x y z) := by
  simp only [Gen.K.geoloc_geodetic_lat_p1_c1, allclose1, geodStep, gr, glat0, A, B] <;> kernel_eq

theorem geodetic_lat_p2 (x y z : ℝ) :
    Gen.K.geoloc_geodetic_lat_p2 x y z = [geodStep A B z (gr x y) (geodStep A B z (gr x y) (glat0 x y z))] := by
  simp only [Gen.K.geoloc_geodetic_lat_p2, geodStep, gr, glat0, A, B] <;> kernel_eq

theorem geodetic_lat_p2_c2 (x y z : ℝ) :
    Gen.K.geoloc_geodetic_lat_p2_c2 x y z =
      allclose1 (geodStep A B z (gr x y) (geodStep A B z (gr x y) (glat0 x y z))) (geodStep A B z (gr x y) (glat0 x y z)) := by
  simp only [Gen.K.geoloc_geodetic_lat_p2_c2, allclose1, geodStep, gr, glat0, A, B] <;> kernel_eq

/-- the model's loop is: exit test, else the same body from the new latitude -/
theorem geodLoop_succ (a b z r : ℝ) (fuel : Nat) (phi : ℝ) :
    geodLoop a b z r (fuel + 1) phi =
      if allclose1 (geodStep a b z r phi) phi then some (geodStep a b z r phi, 1)
      else (geodLoop a b z r fuel (geodStep a b z r phi)).map fun x => (x.1, x.2 + 1) := by
  simp only [geodLoop]
  split
  · rfl
  · cases geodLoop a b z r fuel (geodStep a b z r phi) <;> rfl

/-! ### subpoint, view vectors (given the latitude the iteration returned), pixel intersection -/
theorem subpoint_eq (x y z lat : ℝ) :
    Gen.K.geoloc_subpoint x y z lat =
      [(ellipsoidPoint A B lat (Num.atan2 y x)).x, (ellipsoidPoint A B lat (Num.atan2 y x)).y,
       (ellipsoidPoint A B lat (Num.atan2 y x)).z] := by
  simp only [Gen.K.geoloc_subpoint, ellipsoidPoint, A, B] <;> kernel_eq

theorem compute_pixels_eq (px py pz ux uy uz : ℝ) :
    Gen.K.geoloc_compute_pixels px py pz ux uy uz =
      [(intersect ⟨px, py, pz⟩ ⟨ux, uy, uz⟩).pixel.x, (intersect ⟨px, py, pz⟩ ⟨ux, uy, uz⟩).pixel.y,
       (intersect ⟨px, py, pz⟩ ⟨ux, uy, uz⟩).pixel.z] := by
  simp only [Gen.K.geoloc_compute_pixels, intersect, V3.neg, V3.dot, PA, PB, Gen.geoloc__compute_pixels_L3,
    Gen.geoloc__compute_pixels_L4] <;> kernel_eq

/-- `ScanGeometry.vectors` after the sub-point `nd` of `-pos` has been found -/
noncomputable def viewOfNadir (nd vel : V3 ℝ) (fx fy roll pitch yaw : ℝ) : V3 ℝ :=
  let n := V3.norm nd
  let nadir : V3 ℝ := ⟨nd.x / n, nd.y / n, nd.z / n⟩
  let vn := V3.norm vel
  let x : V3 ℝ := ⟨vel.x / vn, vel.y / vn, vel.z / vn⟩
  let y0 := V3.cross nadir vel
  let yn := V3.norm y0
  let y : V3 ℝ := ⟨y0.x / yn, y0.y / yn, y0.z / yn⟩
  let xr := qrotate nadir x (fx + roll)
  let xyr := qrotate xr y (fy + pitch)
  qrotate xyr nadir yaw

theorem viewVector_eq_viewOfNadir (pos vel : V3 ℝ) (fx fy roll pitch yaw : ℝ) :
    viewVector pos vel fx fy roll pitch yaw =
      (subpoint (V3.neg pos) A B).map fun nd => viewOfNadir nd vel fx fy roll pitch yaw := by
  unfold viewVector
  cases subpoint (V3.neg pos) A B <;> rfl

theorem vectors_eq (px py pz vx vy vz fx fy roll pitch yaw lat : ℝ) :
    Gen.K.geoloc_vectors px py pz vx vy vz fx fy roll pitch yaw lat =
      let nd := ellipsoidPoint A B lat (Num.atan2 (-py) (-px))
      [(viewOfNadir nd ⟨vx, vy, vz⟩ fx fy roll pitch yaw).x, (viewOfNadir nd ⟨vx, vy, vz⟩ fx fy roll pitch yaw).y,
       (viewOfNadir nd ⟨vx, vy, vz⟩ fx fy roll pitch yaw).z] := by
  simp only [Gen.K.geoloc_vectors, qrotate_eq, Gen.K.nth, List.getD_cons_zero, List.getD_cons_succ, viewOfNadir, V3.norm,
    V3.cross, ellipsoidPoint, A, B] <;> kernel_eq

end PV.Equiv.Geoloc
