/-
  PV.Equiv.TranslatedInit — tie T-D for C09 (and C02): the translation of `Tle.__init__` and of the both-lines-given
  branch of `Tle._read_tle` is the model's order  read (strip both lines) -> checksum (`PV.Checksum.accept`) -> parse
  (`PV.Checksum.tleOfLines`), for all ASCII lines without an inner line break.

  The hypotheses are exactly what the model leaves out:
  * ASCII: the model's `strip` knows ASCII whitespace, its checksum ASCII digits (Python: all of Unicode);
  * no '\n' inside a stripped line: the real code joins the two stripped lines with "\n" and splits again, so a line
    break inside a line makes `self._line1, self._line2 = tle.split("\n")` raise ValueError (`inner_newline_raises`),
    which `PV.Checksum.accept` does not model.
-/
import PV.Equiv.TranslatedChecksum
set_option linter.unusedSimpArgs false
set_option linter.unusedVariables false

namespace PV.Equiv.TranslatedInit
open PV.Py PV.Gen.T PV.Checksum PV.Equiv.TL PV.Equiv.TranslatedChecksum

set_option linter.unusedSectionVars false
variable {F IO O T U : Type}

/-- the object as `__init__` leaves it before `_read_tle()`, with the two lines `a`, `b` stored -/
def initSelf (platform : Str) (tle_file : FileArg IO) (a b : Option Str) : Tle.Self F IO T :=
  { (Tle.Self.unset : Tle.Self F IO T) with
    _platform := Py.upper (Py.strip platform), _tle_file := tle_file, _line1 := a, _line2 := b }

/-- `_read_tle` with both lines given: strip, join with "\n", split at "\n", unpack into exactly two -/
theorem read_tle_lines (gu : FileArg IO → M (U × O)) (gf : U → O → Str → M Str) (self : Tle.Self F IO T)
    (l1 l2 : Str) (h1 : self._line1 = some l1) (h2 : self._line2 = some l2) :
    Tle._read_tle (get_uris_and_open_func := gu) (get_first_tle := gf) self =
      (Py.unpack2 (Py.splitChar '\n' (Py.strip l1 ++ '\n' :: Py.strip l2)) >>= fun p =>
        Except.ok { self with _line1 := some p.1, _line2 := some p.2 }) := by
  unfold Tle._read_tle
  simp only [h1, h2, Option.isNone_some, Bool.not_false, Bool.and_self, Bool.or_self, Bool.and_true, Bool.true_and,
    if_true, needAttr_some, ok_bind, pure_eq, List.append_assoc, List.singleton_append, List.cons_append, List.nil_append]

/-- `_read_tle` when a line is missing (C16: the given lines win only when BOTH are given): the source is chosen by
    `_get_uris_and_open_func(tle_file)`, the entry by `_get_first_tle(uris, open_func, platform)`; an empty result is
    KeyError; the entry is split at "\n" into exactly two lines -/
theorem read_tle_source (gu : FileArg IO → M (U × O)) (gf : U → O → Str → M Str) (self : Tle.Self F IO T)
    (h : self._line1 = none ∨ self._line2 = none) :
    Tle._read_tle (get_uris_and_open_func := gu) (get_first_tle := gf) self =
      (gu self._tle_file >>= fun uo => gf uo.1 uo.2 self._platform >>= fun tle =>
        if tle.isEmpty then Except.error Exc.KeyError else
        Py.unpack2 (Py.splitChar '\n' tle) >>= fun p =>
          Except.ok { self with _line1 := some p.1, _line2 := some p.2 }) := by
  unfold Tle._read_tle
  have hc : ((!self._line1.isNone) && (!self._line2.isNone)) = false := by
    rcases h with h | h <;> simp [h]
  simp only [hc, Bool.false_eq_true, if_false, truthy, Bool.not_not, bind_assoc, pure_eq, throw_eq]
  cases gu self._tle_file with
  | error e => rfl
  | ok uo =>
    simp only [ok_bind]
    cases gf uo.1 uo.2 self._platform with
    | error e => rfl
    | ok tle =>
      simp only [ok_bind]
      cases hte : tle.isEmpty
      · simp only [Bool.false_eq_true, if_false, ok_bind]
      · simp only [if_true, error_bind]

theorem read_tle_lines_ok (gu : FileArg IO → M (U × O)) (gf : U → O → Str → M Str) (self : Tle.Self F IO T)
    (l1 l2 : Str) (h1 : self._line1 = some l1) (h2 : self._line2 = some l2)
    (n1 : '\n' ∉ Py.strip l1) (n2 : '\n' ∉ Py.strip l2) :
    Tle._read_tle (get_uris_and_open_func := gu) (get_first_tle := gf) self = Except.ok { self with _line1 := some (Py.strip l1), _line2 := some (Py.strip l2) } := by
  rw [read_tle_lines gu gf self l1 l2 h1 h2, splitChar_two n1 n2]
  rfl

variable [FloatOps F]

/-- `Tle.__init__` for every input: the attribute assignments, then `_read_tle(); _checksum(); _parse_tle()` in this
    order, each on the object the previous one left -/
theorem init_order (gu : FileArg IO → M (U × O)) (gf : U → O → Str → M Str) (fl : Str → M F) (ep : Str → F → M T)
    (it : Str → M Int) (platform : Str) (tle_file : FileArg IO) (line1 line2 : Option Str) :
    Tle.__init__ (get_uris_and_open_func := gu) (get_first_tle := gf) (float_ := fl) (epoch_of_year_and_day := ep) (int_ := it) platform tle_file line1 line2 =
      (Tle._read_tle (get_uris_and_open_func := gu) (get_first_tle := gf) (initSelf platform tle_file line1 line2) >>= fun s =>
        Tle._checksum s >>= fun _ => Tle._parse_tle (float_ := fl) (epoch_of_year_and_day := ep) (int_ := it) s) := by
  unfold Tle.__init__
  simp only [bind_pure, initSelf, Tle.Self.unset]

/-- **C09/C02 tie.**  Both lines given, ASCII, no inner line break: the real `__init__` is the model's
    `accept l1 l2`, and only when that accepts, `_parse_tle` on the object holding the stripped lines. -/
theorem init_lines_eq (gu : FileArg IO → M (U × O)) (gf : U → O → Str → M Str) (fl : Str → M F) (ep : Str → F → M T)
    (it : Str → M Int) (platform : Str) (tle_file : FileArg IO) (l1 l2 : Str)
    (a1 : Ascii l1) (a2 : Ascii l2) (n1 : '\n' ∉ Text.strip l1) (n2 : '\n' ∉ Text.strip l2) :
    Tle.__init__ (get_uris_and_open_func := gu) (get_first_tle := gf) (float_ := fl) (epoch_of_year_and_day := ep) (int_ := it) platform tle_file (some l1) (some l2) =
      (outcomeResult (accept l1 l2) >>= fun _ =>
        Tle._parse_tle (float_ := fl) (epoch_of_year_and_day := ep) (int_ := it) (initSelf platform tle_file (some (Text.strip l1)) (some (Text.strip l2)))) := by
  rw [init_order]
  have s1 := strip_ascii a1
  have s2 := strip_ascii a2
  rw [read_tle_lines_ok gu gf _ l1 l2 rfl rfl (s1 ▸ n1) (s2 ▸ n2), s1, s2]
  simp only [ok_bind]
  rw [checksum_eq_outcome _ (Text.strip l1) (Text.strip l2) rfl rfl
    (plainDigits_of_ascii (ascii_strip a1)) (plainDigits_of_ascii (ascii_strip a2)), accept_eq_checkLines]
  rfl

/-- the exception class of a rejecting model outcome -/
def excOfOutcome : Outcome → Exc
  | .checksumError => Exc.named "ChecksumError"
  | .valueError => Exc.ValueError
  | .indexError => Exc.IndexError
  | .accepted => Exc.unmodelled      -- `tleOfLines` never rejects with `accepted` (`tleOfLines_error_ne_accepted`)

theorem tleOfLines_error_ne_accepted {β : Type} (p : List Char → List Char → β) (l1 l2 : List Char) :
    tleOfLines p l1 l2 ≠ Except.error Outcome.accepted := by
  unfold tleOfLines
  cases h : accept l1 l2 <;> simp

/-- flatten the model's two-level result into the exception monad -/
def joinOutcome {β : Type} : Except Outcome (M β) → M β
  | .ok r => r
  | .error o => Except.error (excOfOutcome o)

theorem joinOutcome_tleOfLines {β : Type} (p : List Char → List Char → M β) (l1 l2 : List Char) :
    joinOutcome (tleOfLines p l1 l2) = (outcomeResult (accept l1 l2) >>= fun _ => p (Text.strip l1) (Text.strip l2)) := by
  unfold tleOfLines
  cases accept l1 l2 <;> rfl

/-- the same in terms of `PV.Checksum.tleOfLines` (the function the C02/C09 property theorems are about) -/
theorem init_lines_eq_tleOfLines (gu : FileArg IO → M (U × O)) (gf : U → O → Str → M Str) (fl : Str → M F)
    (ep : Str → F → M T) (it : Str → M Int) (platform : Str) (tle_file : FileArg IO) (l1 l2 : Str)
    (a1 : Ascii l1) (a2 : Ascii l2) (n1 : '\n' ∉ Text.strip l1) (n2 : '\n' ∉ Text.strip l2) :
    Tle.__init__ (get_uris_and_open_func := gu) (get_first_tle := gf) (float_ := fl) (epoch_of_year_and_day := ep) (int_ := it) platform tle_file (some l1) (some l2) =
      joinOutcome (tleOfLines (fun a b => Tle._parse_tle (float_ := fl) (epoch_of_year_and_day := ep) (int_ := it) (initSelf platform tle_file (some a) (some b))) l1 l2) := by
  rw [joinOutcome_tleOfLines]
  exact init_lines_eq gu gf fl ep it platform tle_file l1 l2 a1 a2 n1 n2
/-- what the model leaves out: a line break inside a line makes the tuple unpacking of `_read_tle` raise ValueError,
    whatever the checksums are -/
theorem inner_newline_raises (gu : FileArg IO → M (U × O)) (gf : U → O → Str → M Str) (fl : Str → M F)
    (ep : Str → F → M T) (it : Str → M Int) (platform : Str) (tle_file : FileArg IO) :
    Tle.__init__ (get_uris_and_open_func := gu) (get_first_tle := gf) (float_ := fl) (epoch_of_year_and_day := ep) (int_ := it) platform tle_file (some "1 2\n3".toList) (some "4".toList) = Except.error Exc.ValueError := by
  rw [init_order, read_tle_lines gu gf _ _ _ rfl rfl]
  have : Py.unpack2 (Py.splitChar '\n' (Py.strip "1 2\n3".toList ++ '\n' :: Py.strip "4".toList)) =
      (Except.error Exc.ValueError : M (Str × Str)) := by decide +kernel
  rw [this]; rfl

/-- non-vacuity of the hypotheses: the ISS lines of C09 -/
example : Ascii iss1 ∧ Ascii iss2 ∧ '\n' ∉ Text.strip iss1 ∧ '\n' ∉ Text.strip iss2 := by
  refine ⟨?_, ?_, ?_, ?_⟩ <;> first | (unfold Ascii; decide +kernel) | decide +kernel

end PV.Equiv.TranslatedInit
