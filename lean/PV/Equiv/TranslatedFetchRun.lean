/-
  PV.Equiv.TranslatedFetchRun — tie T-D for C15: the translation of `pyorbital/fetch_tles.py: run()` issues exactly the
  `update_db(entry, source)` calls of the model `PV.FetchRun.updatesOf`, downloader by downloader in the order of
  `config["downloaders"]`, then `write_tle_txt()` and `close()`.

  The archive object is a stateful parameter (`update_db`, `write_tle_txt`, `close` work on an abstract state; an
  exception of any of them ends the run there, with the state as it is).  The downloader methods are parameters
  (`getattr(downloader, name)` and the call of the bound method may raise; what a method delivers is a dict or a list:
  `isinstance(tles, dict)`).  Reading the configuration and configuring logging are parameters too.
-/
import PV.Equiv.TranslatedOrbitNum
import PV.Model.FetchRun
set_option linter.unusedVariables false
set_option linter.unusedSectionVars false
set_option linter.unusedSimpArgs false

namespace PV.Equiv.TranslatedFetchRun
open PV.Py PV.Gen.T PV.Equiv.TL PV.Equiv.TranslatedOrbitNum

variable {AS Archive Config DownloaderObj E : Type}

/-- a delivery in the model's terms -/
def toModel : Py.Fetched E → FetchRun.Fetched E
  | .bySource d => .bySource d
  | .plain l => .plain l

/-! ### the state monad -/

theorem ms_bind_assoc {σ β γ δ : Type} (x : MS σ β) (f : β → MS σ γ) (g : γ → MS σ δ) :
    (x >>= f >>= g) = (x >>= fun a => f a >>= g) := by
  funext s
  simp only [ms_bind]
  rcases x s with ⟨r | a, s'⟩ <;> rfl

theorem ms_pure_bind {σ β γ : Type} (a : β) (f : β → MS σ γ) : (pure a >>= f) = f a := rfl

theorem ms_bind_pure_unit {σ : Type} (x : MS σ PUnit) : (x >>= fun _ => pure PUnit.unit) = x := by
  funext s
  simp only [ms_bind]
  rcases x s with ⟨r | a, s'⟩ <;> rfl

/-- the `update_db` calls for a list of (entry, source), in order; the first exception ends them -/
def seqU (upd : E → Str → MS AS Unit) : List (E × Str) → MS AS PUnit
  | [] => pure PUnit.unit
  | p :: r => upd p.1 p.2 >>= fun _ => seqU upd r

theorem seqU_append (upd : E → Str → MS AS Unit) : ∀ a b : List (E × Str),
    seqU upd (a ++ b) = (seqU upd a >>= fun _ => seqU upd b)
  | [], b => rfl
  | p :: a, b => by
    simp only [List.cons_append, seqU, seqU_append upd a b, ms_bind_assoc]

/-- `for tle in l: db.update_db(tle, source)` -/
theorem inner_loop (upd : E → Str → MS AS Unit) (src : Str) : ∀ l : List E,
    forIn l PUnit.unit (fun tle (_ : PUnit) => (do upd tle src; pure (ForInStep.yield PUnit.unit) : MS AS (ForInStep PUnit)))
      = seqU upd (l.map fun e => (e, src))
  | [] => rfl
  | e :: l => by
    rw [List.forIn_cons, List.map_cons, seqU, ms_bind_assoc]
    congr 1
    funext _
    rw [ms_pure_bind]
    exact inner_loop upd src l

/-- `for source in tles: for tle in tles[source]: db.update_db(tle, source)` over the keys `ks` of the dict `d` -/
theorem dict_loop (upd : E → Str → MS AS Unit) (d : Dict Str (List E)) : ∀ ks : List (Str × List E), (∀ kv ∈ ks, kv ∈ d) →
    forIn (ks.map Prod.fst) PUnit.unit (fun source (_ : PUnit) => (do
        let l ← liftM (dictGetItem d source)
        forIn l PUnit.unit fun tle (_ : PUnit) => (do upd tle source; pure (ForInStep.yield PUnit.unit) : MS AS (ForInStep PUnit))
        pure (ForInStep.yield PUnit.unit) : MS AS (ForInStep PUnit)))
      = seqU upd (ks.flatMap fun kv => ((FetchRun.lookup d kv.1).getD []).map fun e => (e, kv.1))
  | [], _ => rfl
  | kv :: ks, h => by
    have hk : ∃ v, FetchRun.lookup d kv.1 = some v ∧ dictGet? d kv.1 = some v := by
      have hm := h kv (by simp)
      clear h
      induction d with
      | nil => cases hm
      | cons p d ih =>
        obtain ⟨k', v'⟩ := p
        by_cases hkk : k' = kv.1
        · exact ⟨v', by simp [FetchRun.lookup, hkk], by simp [dictGet?, hkk]⟩
        · have : kv ∈ d := by
            rcases List.mem_cons.mp hm with h1 | h1
            · exact absurd (by rw [h1]) hkk
            · exact h1
          obtain ⟨v, h1, h2⟩ := ih this
          exact ⟨v, by simp [FetchRun.lookup, hkk, h1], by simp [dictGet?, hkk, h2]⟩
    obtain ⟨v, h1, h2⟩ := hk
    rw [List.map_cons, List.forIn_cons, List.flatMap_cons, seqU_append, h1]
    simp only [dictGetItem, h2, pure_eq, ms_lift_ok_bind, Option.getD_some, inner_loop, ms_bind_assoc, ms_pure_bind]
    congr 1
    funext _
    have ih := dict_loop upd d ks (fun x hx => h x (by simp [hx]))
    simp only [dictGetItem, pure_eq, inner_loop] at ih
    exact ih

/-- the `update_db` calls for what one downloader delivered -/
theorem delivery (upd : E → Str → MS AS Unit) (dl : Str) (t : Py.Fetched E) :
    (if t.isDict = true then
        (do forIn (List.map Prod.fst t.dict) PUnit.unit (fun source (_ : PUnit) => (do
              let l ← liftM (dictGetItem t.dict source)
              forIn l PUnit.unit fun tle (_ : PUnit) => (do upd tle source; pure (ForInStep.yield PUnit.unit) : MS AS (ForInStep PUnit))
              pure (ForInStep.yield PUnit.unit) : MS AS (ForInStep PUnit)))
            pure (ForInStep.yield PUnit.unit) : MS AS (ForInStep PUnit))
      else
        (if Py.contains ['s', 'p', 'a', 'c', 'e', 't', 'r', 'a', 'c', 'k'] dl = true then
          (do forIn t.list PUnit.unit (fun tle (_ : PUnit) => (do upd tle ['s', 'p', 'a', 'c', 'e', 't', 'r', 'a', 'c', 'k']; pure (ForInStep.yield PUnit.unit) : MS AS (ForInStep PUnit)))
              pure (ForInStep.yield PUnit.unit) : MS AS (ForInStep PUnit))
        else
          (do forIn t.list PUnit.unit (fun tle (_ : PUnit) => (do upd tle ['f', 'i', 'l', 'e']; pure (ForInStep.yield PUnit.unit) : MS AS (ForInStep PUnit)))
              pure (ForInStep.yield PUnit.unit) : MS AS (ForInStep PUnit))))
      = (seqU upd (FetchRun.updatesOf dl (toModel t)) >>= fun _ => pure (ForInStep.yield PUnit.unit)) := by
  have hc : ∀ s : Str, FetchRun.contains "spacetrack".toList s = Py.contains ['s', 'p', 'a', 'c', 'e', 't', 'r', 'a', 'c', 'k'] s := by
    intro s
    induction s with
    | nil => rfl
    | cons c cs ih => simp only [FetchRun.contains, Py.contains, ih]; rfl
  cases t with
  | bySource d =>
    simp only [Py.Fetched.isDict, if_true, Py.Fetched.dict, toModel, FetchRun.updatesOf]
    rw [dict_loop upd d d (fun _ h => h)]
  | plain l =>
    simp only [Py.Fetched.isDict, Bool.false_eq_true, if_false, Py.Fetched.list, toModel, FetchRun.updatesOf,
      FetchRun.sourceOfName, hc]
    by_cases h : Py.contains ['s', 'p', 'a', 'c', 'e', 't', 'r', 'a', 'c', 'k'] dl = true
    · simp only [h, if_true, inner_loop]; rfl
    · simp only [h, if_false, inner_loop]; rfl

/-- downloader by downloader: look the method up, call it, offer what it delivered -/
def seqD (get : Str → M (M (Py.Fetched E))) (upd : E → Str → MS AS Unit) : List Str → MS AS PUnit
  | [] => pure PUnit.unit
  | dl :: r => (liftM (get dl) : MS AS _) >>= fun m => (liftM m : MS AS _) >>= fun t =>
      seqU upd (FetchRun.updatesOf dl (toModel t)) >>= fun _ => seqD get upd r

theorem outer_loop (get : Str → M (M (Py.Fetched E))) (upd : E → Str → MS AS Unit)
    (body : Str → PUnit → MS AS (ForInStep PUnit))
    (hbody : ∀ dl, body dl PUnit.unit = ((liftM (get dl) : MS AS _) >>= fun m => (liftM m : MS AS _) >>= fun t =>
      seqU upd (FetchRun.updatesOf dl (toModel t)) >>= fun _ => pure (ForInStep.yield PUnit.unit))) :
    ∀ dls : List Str, forIn dls PUnit.unit body = seqD get upd dls
  | [] => rfl
  | dl :: r => by
    rw [List.forIn_cons, hbody, seqD]
    simp only [ms_bind_assoc, ms_pure_bind]
    congr 1; funext m; congr 1; funext t; congr 1; funext _
    exact outer_loop get upd body hbody r

/-- **C15 tie (`fetch_tles.run`).**  For every configuration, downloader object and archive object: `run()` reads the
    configuration, configures logging, creates the downloader and the archive, then — downloader name by downloader name
    in the order of `config["downloaders"]` — looks the method up, calls it and issues the `update_db(entry, source)`
    calls of `FetchRun.updatesOf` (entries of a dict under the dict's key, entries of a list under "spacetrack" when the
    method name contains that word, else under "file"), and finally calls `write_tle_txt()` and `close()`.  An exception
    anywhere ends the run at that point. -/
theorem run_eq (archive_close : Archive → MS AS Unit) (archive_update_db : Archive → E → Str → MS AS Unit)
    (archive_write_tle_txt : Archive → MS AS Unit) (config_downloaders : Config → M (List Str))
    (config_has_logging : Config → M Bool) (downloader_getattr : DownloaderObj → Str → M (M (Py.Fetched E)))
    (logging_dictConfig : Config → M Unit) (new_Downloader : Config → M DownloaderObj)
    (open_archive : Config → Config → Config → MS AS Archive) (read_config_argv : M Config) :
    run archive_close archive_update_db archive_write_tle_txt config_downloaders config_has_logging downloader_getattr ()
        logging_dictConfig new_Downloader open_archive read_config_argv =
      ((liftM read_config_argv : MS AS _) >>= fun config =>
       (liftM (config_has_logging config) : MS AS _) >>= fun lg =>
       (if lg = true then (liftM (logging_dictConfig config) : MS AS Unit) else pure ()) >>= fun _ =>
       (liftM (new_Downloader config) : MS AS _) >>= fun d =>
       open_archive config config config >>= fun db =>
       (liftM (config_downloaders config) : MS AS _) >>= fun dls =>
       seqD (downloader_getattr d) (archive_update_db db) dls >>= fun _ =>
       archive_write_tle_txt db >>= fun _ => archive_close db) := by
  unfold run
  simp only []
  congr 1; funext config; congr 1; funext lg
  cases lg
  · simp only [Bool.false_eq_true, if_false, ms_pure_bind]
    congr 1; funext d; congr 1; funext db; congr 1; funext dls
    rw [outer_loop (downloader_getattr d) (archive_update_db db) _ ?_ dls]
    · congr 1; funext _; congr 1; funext _
      exact ms_bind_pure_unit _
    · intro dl
      congr 1; funext m; congr 1; funext t
      exact delivery (archive_update_db db) dl t
  · simp only [if_true, ms_bind_assoc]
    congr 1; funext _
    congr 1; funext d; congr 1; funext db; congr 1; funext dls
    rw [outer_loop (downloader_getattr d) (archive_update_db db) _ ?_ dls]
    · congr 1; funext _; congr 1; funext _
      exact ms_bind_pure_unit _
    · intro dl
      congr 1; funext m; congr 1; funext t
      exact delivery (archive_update_db db) dl t

/-- in a dict (distinct keys) `d[k]` is the value stored with `k` -/
theorem lookup_of_mem : ∀ (d : List (Str × List E)), FetchRun.KeysDistinct d → ∀ kv ∈ d, FetchRun.lookup d kv.1 = some kv.2
  | [], _, kv, h => by cases h
  | p :: d, hd, kv, h => by
    obtain ⟨k, v⟩ := p
    have hd' : (k ∉ d.map Prod.fst) ∧ FetchRun.KeysDistinct d := by
      simpa [FetchRun.KeysDistinct, List.nodup_cons] using hd
    rcases List.mem_cons.mp h with h1 | h1
    · subst h1; simp [FetchRun.lookup]
    · have hne : k ≠ kv.1 := fun hk => hd'.1 (hk ▸ List.mem_map_of_mem h1)
      simp only [FetchRun.lookup, hne, if_false]
      exact lookup_of_mem d hd'.2 kv h1

/-- the entries a dict delivers are offered under the key they are stored with, key by key in the dict's order -/
theorem updatesOf_dict (dl : Str) (d : List (Str × List E)) (h : FetchRun.KeysDistinct d) :
    FetchRun.updatesOf dl (.bySource d) = d.flatMap fun kv => kv.2.map fun e => (e, kv.1) := by
  have key : ∀ ks : List (Str × List E), (∀ kv ∈ ks, kv ∈ d) →
      (ks.flatMap fun kv => ((FetchRun.lookup d kv.1).getD []).map fun e => (e, kv.1)) =
        ks.flatMap fun kv => kv.2.map fun e => (e, kv.1) := by
    intro ks
    induction ks with
    | nil => intro _; rfl
    | cons kv ks ih =>
      intro hk
      rw [List.flatMap_cons, List.flatMap_cons, ih (fun x hx => hk x (by simp [hx])), lookup_of_mem d h kv (hk kv (by simp))]
      rfl
  exact key d (fun _ hx => hx)

end PV.Equiv.TranslatedFetchRun
