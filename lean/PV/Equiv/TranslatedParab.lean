/-
  PV.Equiv.TranslatedParab — tie T-D for C03: the translation of `_get_max_parab` (successive parabolic interpolation:
  the `while True` loop, the update inside `try` / `except FloatingPointError` under `np.errstate(invalid="raise")`, the
  agreement test with the acceptance test of commit 0a8290c, the divergence test, the re-bracketing, the three calls of the
  bounded search `_get_min_bounded`) is the loop model `PV.Parab.maxParab`.

  WHILE LOOP.  `while True:` gets a fuel parameter: at most `fuel` passes, then the marker `Exc.outOfFuel`.  The model has
  the same fuel.  Proved for ALL fuels: the translated function with fuel `n` is `resultOf (maxParab ... n)`: the estimate
  when the model accepts it, the value (or exception) of the bounded search when the model falls back (whatever the
  reason), FloatingPointError when an operation outside the `try` signals, `outOfFuel` when the model's fuel runs out.

  PARAMETERS.  `fun` is any function that does not raise (`fun x => ok (f x)`); `_get_min_bounded` is a parameter called with
  the original arguments; which float operations signal `invalid` is the model's `Flags` (every arithmetic operation inside
  the `with` block is checked, in the order Python evaluates them; comparisons, `abs`, `min`, `max` do not signal).  The float
  operations are read in the model's `Num α`; the translator writes the literal `2.0` as 2·10⁰, the model as 20·10⁻¹: the
  theorem takes their equality as hypothesis `h2` (true over ℝ — PV.Equiv.TranslatedParabReal — and over Float).
-/
import PV.Equiv.TranslatedLemmas
import PV.Generated.Translated
import PV.Model.Parab
set_option linter.unusedVariables false
set_option linter.unusedSectionVars false
set_option linter.unusedSimpArgs false

namespace PV.Equiv.TranslatedParab
open PV PV.Py PV.Gen.T PV.Passes PV.Equiv.TL
open PV.Parab (Outcome St Step Why)

variable {α : Type} [Num α]

instance : FloatOps α where
  ofInt := Passes.ofInt
  intPow _ _ := Num.ofNat 0
  mul a b := a * b
  sub a b := a - b

instance : FloatArith α where
  add a b := a + b
  div a b := a / b
  powNat x n := if n = 2 then Num.sq x else Num.rpow x (Num.ofNat n)
  abs := Num.abs
  gt a b := Num.lt b a
  lt a b := Num.lt a b
  le a b := Num.le a b
  ge a b := Num.le b a
  max := Num.max
  min := Num.min
  lit m e := if e < 0 then OfScientific.ofScientific m true (-e).toNat else OfScientific.ofScientific m false e.toNat
  toInt _ := 0

@[reducible] def fpInv (I : Parab.Flags α) : FloatInvalid α where
  add := I.add
  sub := I.sub
  mul := I.mul
  div := I.div
  powNat x n := if n = 2 then I.sq x else false

def resultOf (minb : M α) : Outcome α → M α
  | .accept x => Except.ok x
  | .fallback _ => minb
  | .raised => Except.error (Exc.named "FloatingPointError")
  | .outOfFuel => Except.error Exc.outOfFuel

theorem chk_bind {β γ : Type} (b : Bool) (e : Exc) (v : β) (k : β → M γ) :
    ((if b = true then Except.error e else pure v : M β) >>= k) = if b = true then Except.error e else k v := by
  cases b <;> rfl

theorem tryCatch_ite {β : Type} (b : Bool) (x y : M β) (H : Exc → M β) :
    tryCatch (if b = true then x else y) H = if b = true then tryCatch x H else tryCatch y H := by
  cases b <;> rfl

/-- the mutable locals of the translated loop: (early result, a, c, b, f_a, f_b, f_c, x) -/
abbrev S (α : Type) := Option α × α × α × α × α × α × α × α

/-- the locals at the head of a pass (`x == b`) -/
def stOf (s : St α) : S α := (none, s.a, s.c, s.b, s.fa, s.fb, s.fc, s.b)

/-- what one pass of the translated loop must do when the model's pass does `st` -/
def Matches (minb : M α) (r : M (ForInStep (S α))) : Step α → Prop
  | .next s' => r = Except.ok (ForInStep.yield (stOf s'))
  | .done (.accept x) => ∃ j, r = Except.ok (ForInStep.done (some x, j))
  | .done (.fallback _) => (∀ e, minb = Except.error e → r = Except.error e) ∧
      (∀ v, minb = Except.ok v → ∃ j, r = Except.ok (ForInStep.done (some v, j)))
  | .done .raised => r = Except.error (Exc.named "FloatingPointError")
  | .done .outOfFuel => False

theorem loop_eq (I : Parab.Flags α) (f : α → α) (lo hi tol : α) (minb : M α)
    (body : Unit → S α → M (ForInStep (S α)))
    (hbody : ∀ s : St α, Matches minb (body () (stOf s)) (Parab.step I f lo hi tol s)) :
    ∀ (n : Nat) (s : St α),
      (forIn (List.replicate n ()) (stOf s) body >>= fun r =>
        match r.1 with
        | some v => Except.ok v
        | none => Except.error Exc.outOfFuel) = resultOf minb (Parab.run I f lo hi tol n s) := by
  intro n
  induction n with
  | zero => intro s; simp only [List.replicate_zero, List.forIn_nil, pure_eq, ok_bind, Parab.run_zero, stOf, resultOf]
  | succ n ih =>
    intro s
    rw [List.replicate_succ, List.forIn_cons]
    have h := hbody s
    rw [Parab.run_succ]
    cases hst : Parab.step I f lo hi tol s with
    | next s' =>
      rw [hst] at h
      simp only [Matches] at h
      rw [h]
      simp only [ok_bind]
      exact ih s'
    | done o =>
      rw [hst] at h
      cases o with
      | accept x =>
        obtain ⟨j, hj⟩ := h
        rw [hj]; rfl
      | fallback w =>
        obtain ⟨h1, h2⟩ := h
        cases hm : minb with
        | error e => rw [h1 e hm]; rfl
        | ok v => obtain ⟨j, hj⟩ := h2 v hm; rw [hj]; rfl
      | raised =>
        simp only [Matches] at h
        rw [h]; rfl
      | outOfFuel => exact absurd h (by simp [Matches])

theorem get_max_parab_eq (I : Parab.Flags α) (f : α → α) (gmb : (α → M α) → α → α → α → M α) (lo hi tol : α) (fuel : Nat)
    (h2 : (OfScientific.ofScientific 2 false 0 : α) = (2.0 : α)) :
    @_get_max_parab α _ _ (fpInv I) gmb fuel (fun x => Except.ok (f x)) lo hi tol
      = resultOf (gmb (fun x => Except.ok (f x)) lo hi tol) (Parab.maxParab I f lo hi tol fuel) := by
  have hl : (FloatArith.lit 2 (0 : Int) : α) = (2.0 : α) := h2
  unfold _get_max_parab
  simp only [ok_bind, pure_eq, hl]
  refine (loop_eq I f lo hi tol (gmb (fun x => Except.ok (f x)) lo hi tol) _ ?_ fuel (Parab.init f lo hi)).trans rfl
  intro s
  simp only [stOf]
  generalize hT : (tryCatch _ _ : M (Except α (Unit × α))) = TC
  have key : TC = cond (Parab.updateInvalid I s)
      (gmb (fun x => Except.ok (f x)) lo hi tol >>= fun v => Except.ok (Except.error v))
      (Except.ok (Except.ok ((), parabStep s.a s.b s.c s.fa s.fb s.fc s.b))) := by
    rw [← hT]
    simp only [Fp.sub, Fp.mul, Fp.div, Fp.add, Fp.powNat, Fp.chk, FloatInvalid.sub, FloatInvalid.mul, FloatInvalid.div,
      FloatInvalid.add, FloatInvalid.powNat, FloatOps.sub, FloatOps.mul, FloatArith.div, FloatArith.powNat, if_true,
      show ((2 : Nat) = 2) = True from eq_self 2, show (FloatArith.lit 5 (-1 : Int) : α) = (0.5 : α) from rfl, Parab.updateInvalid,
      chk_bind, tryCatch_ite, throw_eq, tryCatch_error, beq_self_eq_true]
    rcases Bool.eq_false_or_eq_true (I.sub s.b s.a) with h1 | h1
    · simp only [h1, if_true, Bool.or_true, Bool.true_or, cond_true]
      rfl
    simp only [h1, Bool.false_eq_true, if_false, Bool.false_or]
    rcases Bool.eq_false_or_eq_true (I.sq (s.b - s.a)) with h2 | h2
    · simp only [h2, if_true, Bool.or_true, Bool.true_or, cond_true]
      rfl
    simp only [h2, Bool.false_eq_true, if_false, Bool.false_or]
    rcases Bool.eq_false_or_eq_true (I.sub s.fb s.fc) with h3 | h3
    · simp only [h3, if_true, Bool.or_true, Bool.true_or, cond_true]
      rfl
    simp only [h3, Bool.false_eq_true, if_false, Bool.false_or]
    rcases Bool.eq_false_or_eq_true (I.mul (Num.sq (s.b - s.a)) (s.fb - s.fc)) with h4 | h4
    · simp only [h4, if_true, Bool.or_true, Bool.true_or, cond_true]
      rfl
    simp only [h4, Bool.false_eq_true, if_false, Bool.false_or]
    rcases Bool.eq_false_or_eq_true (I.sub s.b s.c) with h5 | h5
    · simp only [h5, if_true, Bool.or_true, Bool.true_or, cond_true]
      rfl
    simp only [h5, Bool.false_eq_true, if_false, Bool.false_or]
    rcases Bool.eq_false_or_eq_true (I.sq (s.b - s.c)) with h6 | h6
    · simp only [h6, if_true, Bool.or_true, Bool.true_or, cond_true]
      rfl
    simp only [h6, Bool.false_eq_true, if_false, Bool.false_or]
    rcases Bool.eq_false_or_eq_true (I.sub s.fb s.fa) with h7 | h7
    · simp only [h7, if_true, Bool.or_true, Bool.true_or, cond_true]
      rfl
    simp only [h7, Bool.false_eq_true, if_false, Bool.false_or]
    rcases Bool.eq_false_or_eq_true (I.mul (Num.sq (s.b - s.c)) (s.fb - s.fa)) with h8 | h8
    · simp only [h8, if_true, Bool.or_true, Bool.true_or, cond_true]
      rfl
    simp only [h8, Bool.false_eq_true, if_false, Bool.false_or]
    rcases Bool.eq_false_or_eq_true (I.sub (Num.sq (s.b - s.a) * (s.fb - s.fc)) (Num.sq (s.b - s.c) * (s.fb - s.fa))) with h9 | h9
    · simp only [h9, if_true, Bool.or_true, Bool.true_or, cond_true]
      rfl
    simp only [h9, Bool.false_eq_true, if_false, Bool.false_or]
    rcases Bool.eq_false_or_eq_true (I.mul (s.b - s.a) (s.fb - s.fc)) with h10 | h10
    · simp only [h10, if_true, Bool.or_true, Bool.true_or, cond_true]
      rfl
    simp only [h10, Bool.false_eq_true, if_false, Bool.false_or]
    rcases Bool.eq_false_or_eq_true (I.mul (s.b - s.c) (s.fb - s.fa)) with h11 | h11
    · simp only [h11, if_true, Bool.or_true, Bool.true_or, cond_true]
      rfl
    simp only [h11, Bool.false_eq_true, if_false, Bool.false_or]
    rcases Bool.eq_false_or_eq_true (I.sub ((s.b - s.a) * (s.fb - s.fc)) ((s.b - s.c) * (s.fb - s.fa))) with h12 | h12
    · simp only [h12, if_true, Bool.or_true, Bool.true_or, cond_true]
      rfl
    simp only [h12, Bool.false_eq_true, if_false, Bool.false_or]
    rcases Bool.eq_false_or_eq_true (I.div (Num.sq (s.b - s.a) * (s.fb - s.fc) - Num.sq (s.b - s.c) * (s.fb - s.fa)) ((s.b - s.a) * (s.fb - s.fc) - (s.b - s.c) * (s.fb - s.fa))) with h13 | h13
    · simp only [h13, if_true, Bool.or_true, Bool.true_or, cond_true]
      rfl
    simp only [h13, Bool.false_eq_true, if_false, Bool.false_or]
    rcases Bool.eq_false_or_eq_true (I.mul (0.5 : α) ((Num.sq (s.b - s.a) * (s.fb - s.fc) - Num.sq (s.b - s.c) * (s.fb - s.fa)) / ((s.b - s.a) * (s.fb - s.fc) - (s.b - s.c) * (s.fb - s.fa)))) with h14 | h14
    · simp only [h14, if_true, Bool.or_true, Bool.true_or, cond_true]
      rfl
    simp only [h14, Bool.false_eq_true, if_false, Bool.false_or]
    rcases Bool.eq_false_or_eq_true (I.sub s.b ((0.5 : α) * ((Num.sq (s.b - s.a) * (s.fb - s.fc) - Num.sq (s.b - s.c) * (s.fb - s.fa)) / ((s.b - s.a) * (s.fb - s.fc) - (s.b - s.c) * (s.fb - s.fa))))) with h15 | h15
    · simp only [h15, if_true, Bool.or_true, Bool.true_or, cond_true]
      rfl
    simp only [h15, Bool.false_eq_true, if_false, Bool.false_or]
    simp only [cond_false, pure_eq, tryCatch_ok]
    rfl
  rw [key]
  clear key hT
  rcases Bool.eq_false_or_eq_true (Parab.updateInvalid I s) with hu | hu
  · have hs : Parab.step I f lo hi tol s = .done (.fallback .invalid) := by
      unfold Parab.step; simp [Parab.update, hu]
    rw [hs, hu]
    refine ⟨fun e hm => ?_, fun v hm => ?_⟩
    · simp only [cond_true, hm, error_bind]
    · simp only [cond_true, hm, ok_bind]; exact ⟨_, rfl⟩
  · have hup : Parab.update I s = some (parabStep s.a s.b s.c s.fa s.fb s.fc s.b) := by simp [Parab.update, hu]
    unfold Parab.step
    rw [hu, hup]
    generalize parabStep s.a s.b s.c s.fa s.fb s.fc s.b = x
    simp only [cond_false, ok_bind, Fp.sub, Fp.mul, Fp.div, Fp.add, Fp.chk, FloatInvalid.sub, FloatInvalid.mul, FloatInvalid.div,
      FloatInvalid.add, FloatOps.sub, FloatOps.mul, FloatArith.div, FloatArith.add, FloatArith.le, FloatArith.ge, FloatArith.gt,
      FloatArith.abs, FloatArith.min, FloatArith.max, FloatOps.ofInt,
      show (Passes.ofInt (10 : Int) : α) = (10 : α) from rfl,
      show (FloatArith.lit 1 (-4 : Int) : α) = (1e-4 : α) from rfl]
    have fb : ∀ (j : α × α × α × α × α × α × α) (w : Why),
        Matches (gmb (fun x => Except.ok (f x)) lo hi tol)
          (gmb (fun x => Except.ok (f x)) lo hi tol >>= fun v => Except.ok (ForInStep.done (some v, j)))
          (Step.done (Outcome.fallback w)) := by
      intro j w
      refine ⟨fun e hm => ?_, fun v hm => ?_⟩
      · simp only [hm, error_bind]
      · simp only [hm, ok_bind]; exact ⟨_, rfl⟩
    simp only [EarlyReturn.runK]
    rcases Bool.eq_false_or_eq_true (I.sub s.b x) with g1 | g1
    · simp only [g1, if_true, throw_eq, error_bind, Matches]
    simp only [g1, Bool.false_eq_true, if_false, pure_eq, ok_bind]
    rcases Bool.eq_false_or_eq_true (Num.le (Num.abs (s.b - x)) tol) with t1 | t1
    · simp only [t1, if_true]
      rcases Bool.eq_false_or_eq_true (I.mul 10 tol) with g2 | g2
      · simp only [g2, if_true, throw_eq, error_bind, Matches, Bool.true_or]
      simp only [g2, Bool.false_eq_true, if_false, pure_eq, ok_bind, Bool.false_or]
      rcases Bool.eq_false_or_eq_true (I.sub x (10 * tol)) with g3 | g3
      · simp only [g3, if_true, throw_eq, error_bind, Matches, Bool.true_or]
      simp only [g3, Bool.false_eq_true, if_false, pure_eq, ok_bind, Bool.false_or]
      rcases Bool.eq_false_or_eq_true (I.add x (10 * tol)) with g4 | g4
      · simp only [g4, if_true, throw_eq, error_bind, Matches, Bool.true_or]
      simp only [g4, Bool.false_eq_true, if_false, pure_eq, ok_bind, Bool.false_or]
      rcases Bool.eq_false_or_eq_true (I.sub (f x) 1e-4) with g5 | g5
      · simp only [g5, if_true, throw_eq, error_bind, Matches]
      simp only [g5, Bool.false_eq_true, if_false, pure_eq, ok_bind, Num.ge]
      rcases Bool.eq_false_or_eq_true (Num.le (f x - 1e-4) (Num.min (f (Num.max (x - 10 * tol) lo)) (f (Num.min (x + 10 * tol) hi))))
        with t2 | t2
      · simp only [t2, if_true, Matches]; exact ⟨_, rfl⟩
      · simp only [t2, Bool.false_eq_true, if_false]; exact fb _ _
    simp only [t1, Bool.false_eq_true, if_false, Num.gt]
    rcases Bool.eq_false_or_eq_true (Num.lt s.fb (f x)) with t3 | t3
    · simp only [t3, if_true]; exact fb _ _
    simp only [t3, Bool.false_eq_true, if_false]
    rcases Bool.eq_false_or_eq_true (I.add s.a x) with g6 | g6
    · simp only [g6, if_true, throw_eq, error_bind, Matches, Bool.true_or]
    simp only [g6, Bool.false_eq_true, if_false, pure_eq, ok_bind, Bool.false_or]
    rcases Bool.eq_false_or_eq_true (I.div (s.a + x) 2.0) with g7 | g7
    · simp only [g7, if_true, throw_eq, error_bind, Matches, Bool.true_or]
    simp only [g7, Bool.false_eq_true, if_false, pure_eq, ok_bind, Bool.false_or]
    rcases Bool.eq_false_or_eq_true (I.add x s.c) with g8 | g8
    · simp only [g8, if_true, throw_eq, error_bind, Matches, Bool.true_or]
    simp only [g8, Bool.false_eq_true, if_false, pure_eq, ok_bind, Bool.false_or]
    rcases Bool.eq_false_or_eq_true (I.div (x + s.c) 2.0) with g9 | g9
    · simp only [g9, if_true, throw_eq, error_bind, Matches]
    simp only [g9, Bool.false_eq_true, if_false, pure_eq, ok_bind, Matches, stOf, parabShrink]

end PV.Equiv.TranslatedParab
