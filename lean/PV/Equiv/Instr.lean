/-
  PV.Equiv.Instr — T-C tie for C19: the arrays traced from the current source of
  pyorbital/geoloc_instrument_definitions.py and of geoloc.ScanGeometry.__init__ / .times
  (PV/Generated/KernelsInstr.lean, regenerated on every run by harness/symtrace_instr.py) are, over ℝ and for ALL
  real scan positions p, q, the arrays of the hand-written model PV.Model.Instruments that the C19 theorems are about.

  How the tie covers the whole array.  The definition functions are run on a SYMBOLIC selection `scan_points = [p, q]`
  and a concrete number of lines n = 1, 2, 3; what they hand to `ScanGeometry(fovs, times)` is emitted as nested lists
  (the nesting is the numpy shape).  The model's arrays are, by definition (`fovs_structure`, `times_structure`,
  `viirsFovs_structure`, ...: all `rfl` / `List.map_map`), `fovsOf angle n pts` / `timesOf time n pts`: the per-point
  formula mapped over the selection, replicated (angles) or re-evaluated with the line number (times) for each line;
  `fovsOf_succ`, `timesOf_succ`, `timesOf_line` say that line n+1 is built like every other line.  The theorems
  `<instr>_fovs_n<k>`, `<instr>_times_n<k>` prove `traced = fovsOf/timesOf <model's per-point formula> k [p, q]` for all
  real p, q; `<instr>_arrays` restates them as `Model.fovs/times <instr> k [p, q] = traced (nat p) (nat q)` for natural
  scan points.  Column j therefore depends on the j-th selected point only, through the model's formula, on every line;
  the line offset is the model's `line * period` for lines 0, 1, 2.

  instrument    angles (fovs)                                   times                                         not tied (T-A only)
  ------------  ----------------------------------------------  --------------------------------------------  --------------------
  avhrr         symbolic [p,q], n=1..3: ramp                    symbolic, n=1..3 (apply_offset=True)          apply_offset=False, non-default scan_angle/frequency
  avhrr_gac     symbolic [p,q], n=1..3 (integer scan_times)     symbolic, n=1..3                              list-of-datetimes scan_times branch
  amsua, mhs,   symbolic [p,q], n=1..3: ramp                    symbolic, n=1..3 (sync time included)         —
  hirs4, mwhs2
  atms          symbolic INDEX [p,q] into the np.linspace cut   symbolic, n=1..3                              np.linspace itself is a cut point (linspaceK = numpy's
                (p q : Nat), n=1..3                                                                           documented algorithm = Model.linspace, `linspaceK_eq`)
  ascat         full concrete selection (42 points), n=1,2:     symbolic [p,q], n=1..3, with the cut          angles for a sub-selection: `concatenate(...)[scan_points]`
                the two linspace halves (`p < 21` evaluated)   mx = np.max(scan_points)                      is numpy indexing of the tied full array; np.max is a cut
  olci, slstr   symbolic [p], [p,q], [p,q,r] (values unused:    same shapes: all zero                         the 4000 / 3000 default counts (T-B constants only)
                only the COUNT enters), lines 2,1,2
  viirs         symbolic selection [p,q] of arange(6400),       symbolic, 1 and 2 scans (np.repeat of the     non-default chn_pixels / scan_lines / scan_step;
                1 and 2 scans x 32 detectors: across ramp in    per-scan offset over the 32 detector lines)   negative / slice scan_indices are numpy indexing of
                p, along ramp in the detector number l % 32                                                   arange(6400) (`np.arange(n)[i] = i` is the cut)
  ScanGeometry  `fovs` stored unchanged                         `_times` = t * 1000000000 BEFORE numpy's      the float64 -> int64[ns] cast (truncation) is not in the
                                                                cast to int64 ns; `times(s)` = `_times + s`   `Num` signature: modelled as `Instr.toNs`'s floor
                                                                                                              (`scan_geometry_ns_floor`; C19 `floor_offset`/`scan_offset`)

  Literals: the tracer lifts every float literal of the source text to an exact symbolic literal, so `8 / 3.`,
  `abs(scan_rate) / scan_len`, `1 / 6.0`, `np.deg2rad(-55.37)` reach Lean as expressions; the generated file does not use
  PV/Generated/Consts.lean, so these theorems also compare the traced literals with the AST-extracted constants (T-B)
  the model is written with.
-/
import PV.Equiv.Tactic
import PV.Model.Instruments
import PV.Generated.KernelsInstr
set_option linter.unusedTactic false
set_option linter.unreachableTactic false
set_option linter.unnecessarySeqFocus false
set_option linter.unusedSimpArgs false
set_option linter.unusedSectionVars false

namespace PV.Equiv.Instr
open PV PV.Instr PV.Gen

/-! ### the list structure of the model, with the per-point formula abstracted -/
section lists
variable {α β : Type} [Num α]

/-- `np.tile(np.vstack((angles, zeros))[:, None, :], [1, lines, 1])`: shape (2, lines, positions) -/
def fovsOf (angle : β → α) (lines : Nat) (pts : List β) : List (List (List α)) :=
  [List.replicate lines (pts.map angle), List.replicate lines (pts.map fun _ => (0 : α))]

/-- `np.tile(per-point times, [lines, 1]) + offset[:, None]`: shape (lines, positions) -/
def timesOf (time : Nat → β → α) (lines : Nat) (pts : List β) : List (List α) :=
  (List.range lines).map fun l => pts.map (time l)

/-- the model's angle array is the per-point angle mapped over the selection, the same list on every line -/
theorem fovs_structure (i : Inst) (lines : Nat) (pts : List Nat) :
    (fovs i lines pts : List (List (List α))) = fovsOf i.angle lines pts := rfl

/-- the model's time array is the per-point time mapped over the selection, line by line -/
theorem times_structure (i : Inst) (lines : Nat) (pts : List Nat) :
    (times i lines pts : List (List α)) = timesOf (i.time (maxPoint pts)) lines pts := rfl

/-- integer nanoseconds: `toNs` of every element -/
theorem timesNs_structure (i : Inst) (lines : Nat) (pts : List Nat) :
    (timesNs i lines pts : List (List α)) = (times i lines pts).map (·.map toNs) := rfl

theorem fovsOf_succ (angle : β → α) (n : Nat) (pts : List β) :
    fovsOf angle (n + 1) pts =
      [pts.map angle :: List.replicate n (pts.map angle),
       (pts.map fun _ => (0 : α)) :: List.replicate n (pts.map fun _ => (0 : α))] := by
  simp only [fovsOf, List.replicate_succ]

/-- every line of `fovsOf` is the per-point list -/
theorem fovsOf_line (angle : β → α) (lines : Nat) (pts : List β) (ln : List α)
    (h : ln ∈ List.replicate lines (pts.map angle)) : ln = pts.map angle := List.eq_of_mem_replicate h

theorem timesOf_succ (time : Nat → β → α) (n : Nat) (pts : List β) :
    timesOf time (n + 1) pts = timesOf time n pts ++ [pts.map (time n)] := by
  simp only [timesOf, List.range_succ, List.map_append, List.map_cons, List.map_nil]

/-- line `l` of `timesOf` is the per-point time at line number `l`, for every number of lines -/
theorem timesOf_line (time : Nat → β → α) (n : Nat) (pts : List β) (l : Nat) (hl : l < n) :
    (timesOf time n pts)[l]? = some (pts.map (time l)) := by
  simp [timesOf, List.getElem?_range hl]

/-- VIIRS angles over real-valued pixel positions: (2, scans·32, positions) -/
def viirsFovsOf (scans : Nat) (pts : List α) : List (List (List α)) :=
  [ (List.range (scans * viirsDet)).map (fun _ => pts.map viirsAcross),
    (List.range (scans * viirsDet)).map (fun l => pts.map fun _ => viirsAlong (nat (l % viirsDet))) ]

/-- VIIRS times over real-valued pixel positions: (scans·32, positions) -/
def viirsTimesOf (scans : Nat) (pts : List α) : List (List α) :=
  (List.range (scans * viirsDet)).map fun l => pts.map fun p => viirsTime (nat (l / viirsDet)) p

theorem viirsFovs_structure (scans : Nat) (pts : List Nat) :
    (viirsFovs scans pts : List (List (List α))) = viirsFovsOf scans (pts.map nat) := by
  simp only [viirsFovs, viirsFovsOf, List.map_map, Function.comp_def]

theorem viirsTimes_structure (scans : Nat) (pts : List Nat) :
    (viirsTimes scans pts : List (List α)) = viirsTimesOf scans (pts.map nat) := by
  simp only [viirsTimes, viirsTimesOf, List.map_map, Function.comp_def]

/-- line `l` of the VIIRS arrays: across-track per pixel, along-track by detector `l % 32`, time by scan `l / 32` -/
theorem viirsOf_line (scans : Nat) (pts : List α) (l : Nat) (hl : l < scans * viirsDet) :
    ((List.range (scans * viirsDet)).map (fun _ => pts.map viirsAcross))[l]? = some (pts.map viirsAcross) ∧
    ((List.range (scans * viirsDet)).map (fun l => pts.map fun _ => viirsAlong (nat (l % viirsDet)) : Nat → List α))[l]? =
      some (pts.map fun _ => viirsAlong (nat (l % viirsDet))) ∧
    (viirsTimesOf scans pts)[l]? = some (pts.map fun p => viirsTime (nat (l / viirsDet)) p) := by
  simp [viirsTimesOf, List.getElem?_range hl, hl]

/-- OLCI / SLSTR: only the number of selected positions enters -/
theorem resamp_length_only (r : Resamp) (lines : Nat) (pts pts' : List Nat) (h : pts.length = pts'.length) :
    (resampFovs r lines pts : List (List (List α))) = resampFovs r lines pts' ∧
    (resampTimes r lines pts : List (List α)) = resampTimes r lines pts' := by
  simp only [resampFovs, resampTimes, h, and_self]

/-- the cut point `np.linspace(a, b, n)[i]` of the generated file is the model's `linspace` -/
theorem linspaceK_eq (a b : α) (n i : Nat) : KI.linspaceK a b n i = linspace a b n i := rfl

end lists

/-! ### tactics -/
/-- unroll `fovsOf` / `timesOf` / `List.range` / `List.replicate` on numerals into explicit nested lists -/
macro "unroll" : tactic => `(tactic|
  simp only [fovsOf, timesOf, viirsFovsOf, viirsTimesOf, resampFovs, resampTimes, List.length_cons, List.length_nil,
    List.replicate_succ, List.replicate_zero, List.range_succ, List.range_zero, List.nil_append,
    List.cons_append, List.map_cons, List.map_nil, List.map_append, Nat.reduceAdd, Nat.reduceMul, Nat.reduceMod, Nat.reduceDiv,
    Nat.reduceLT, Nat.reduceSub, Nat.reduceEqDiff, ↓reduceIte, viirsDet, instr__viirs__scan_lines_N, ascatHalf, ascatHalf2,
    instr__ascat_L7_N, instr__ascat_L8_N, instr__atms__scan_len_N, ascatAngle, Resamp.angle])

/-- `tie K`: unroll the model side, unfold the traced array `K`, the model's per-point formulas and the regenerated
    constants they are written with, then decide the element-wise equalities (`kernel_eq`: rfl, else numerals + ring normal form) -/
macro "tie " k:ident : tactic => `(tactic|
  (unroll
   simp only [$k:ident, linspaceK_eq, nat, rampAngle, time2, time3, toNs,
     avhrrAngle, avhrrTime, avhrrGacAngle, avhrrGacTime, viirsAcross, viirsAlong, viirsTime,
     amsuaAngle, amsuaTime, mhsAngle, mhsTime, hirs4Angle, hirs4Time, atmsAngle, atmsTime, mwhs2Angle, mwhs2Time,
     ascatTime, olciAngle, slstrAngle,
     instr__avhrr_L3, instr__avhrr_L7, instr__avhrr__scan_angle, instr__avhrr__frequency,
     instr__avhrr_gac_L5, instr__avhrr_gac_L9, instr__avhrr_gac__scan_angle, instr__avhrr_gac__frequency,
     instr__viirs__chn_pixels, instr__viirs__scan_lines, instr__viirs__scan_step, instr__viirs_L4, instr__viirs_L5,
     instr__viirs_L7, instr__viirs_L11, instr__viirs_L12, instr__viirs__SEC_EACH_SCANCOLUMN,
     instr__viirs__sec_scan_duration, instr__viirs__y_max_angle,
     instr__amsua__scan_len, instr__amsua_L6, instr__amsua_L7, instr__amsua__scan_angle, instr__amsua__scan_rate,
     instr__amsua__sampling_interval, instr__amsua__sync_time,
     instr__mhs__scan_len, instr__mhs_L10, instr__mhs_L11, instr__mhs__scan_angle, instr__mhs__scan_rate,
     instr__mhs__sampling_interval, instr__mhs__sync_time,
     instr__hirs4__scan_len, instr__hirs4_L4, instr__hirs4_L5, instr__hirs4__scan_angle, instr__hirs4__scan_rate,
     instr__hirs4__sampling_interval,
     instr__atms__scan_angle, instr__atms__scan_rate, instr__atms__sampling_interval,
     instr__mwhs2__scan_len, instr__mwhs2_L10, instr__mwhs2_L11, instr__mwhs2__scan_angle, instr__mwhs2__scan_rate,
     instr__mwhs2__sampling_interval, instr__mwhs2__sync_time,
     instr__ascat__scan_angle_inner, instr__ascat__scan_angle_outer, instr__ascat__scan_rate,
     instr__olci__scan_angle_west, instr__olci__scan_angle_east,
     instr__slstr_nadir__scan_angle_west, instr__slstr_nadir__scan_angle_east,
     instr__ScanGeometry___init___L3] <;> kernel_eq))

/-! ### avhrr -/
theorem avhrr_fovs_n1 (p q : ℝ) : KI.avhrr_fovs_n1 p q = fovsOf avhrrAngle 1 [p, q] := by tie KI.avhrr_fovs_n1
theorem avhrr_fovs_n2 (p q : ℝ) : KI.avhrr_fovs_n2 p q = fovsOf avhrrAngle 2 [p, q] := by tie KI.avhrr_fovs_n2
theorem avhrr_fovs_n3 (p q : ℝ) : KI.avhrr_fovs_n3 p q = fovsOf avhrrAngle 3 [p, q] := by tie KI.avhrr_fovs_n3
theorem avhrr_times_n1 (p q : ℝ) : KI.avhrr_times_n1 p q = timesOf (fun l x => avhrrTime (nat l) x) 1 [p, q] := by tie KI.avhrr_times_n1
theorem avhrr_times_n2 (p q : ℝ) : KI.avhrr_times_n2 p q = timesOf (fun l x => avhrrTime (nat l) x) 2 [p, q] := by tie KI.avhrr_times_n2
theorem avhrr_times_n3 (p q : ℝ) : KI.avhrr_times_n3 p q = timesOf (fun l x => avhrrTime (nat l) x) 3 [p, q] := by tie KI.avhrr_times_n3
/-- the model's arrays for the selection `[p, q]` and 1, 2, 3 lines are the traced arrays -/
theorem avhrr_arrays (p q : Nat) :
    (fovs .avhrr 1 [p, q] : List (List (List ℝ))) = KI.avhrr_fovs_n1 (nat p) (nat q) ∧
    (fovs .avhrr 2 [p, q] : List (List (List ℝ))) = KI.avhrr_fovs_n2 (nat p) (nat q) ∧
    (fovs .avhrr 3 [p, q] : List (List (List ℝ))) = KI.avhrr_fovs_n3 (nat p) (nat q) ∧
    (times .avhrr 1 [p, q] : List (List ℝ)) = KI.avhrr_times_n1 (nat p) (nat q) ∧
    (times .avhrr 2 [p, q] : List (List ℝ)) = KI.avhrr_times_n2 (nat p) (nat q) ∧
    (times .avhrr 3 [p, q] : List (List ℝ)) = KI.avhrr_times_n3 (nat p) (nat q) := by
  simp only [avhrr_fovs_n1, avhrr_fovs_n2, avhrr_fovs_n3, avhrr_times_n1, avhrr_times_n2, avhrr_times_n3]
  exact ⟨rfl, rfl, rfl, rfl, rfl, rfl⟩

/-! ### avhrr_gac -/
theorem avhrr_gac_fovs_n1 (p q : ℝ) : KI.avhrr_gac_fovs_n1 p q = fovsOf avhrrGacAngle 1 [p, q] := by tie KI.avhrr_gac_fovs_n1
theorem avhrr_gac_fovs_n2 (p q : ℝ) : KI.avhrr_gac_fovs_n2 p q = fovsOf avhrrGacAngle 2 [p, q] := by tie KI.avhrr_gac_fovs_n2
theorem avhrr_gac_fovs_n3 (p q : ℝ) : KI.avhrr_gac_fovs_n3 p q = fovsOf avhrrGacAngle 3 [p, q] := by tie KI.avhrr_gac_fovs_n3
theorem avhrr_gac_times_n1 (p q : ℝ) : KI.avhrr_gac_times_n1 p q = timesOf (fun l x => avhrrGacTime (nat l) x) 1 [p, q] := by tie KI.avhrr_gac_times_n1
theorem avhrr_gac_times_n2 (p q : ℝ) : KI.avhrr_gac_times_n2 p q = timesOf (fun l x => avhrrGacTime (nat l) x) 2 [p, q] := by tie KI.avhrr_gac_times_n2
theorem avhrr_gac_times_n3 (p q : ℝ) : KI.avhrr_gac_times_n3 p q = timesOf (fun l x => avhrrGacTime (nat l) x) 3 [p, q] := by tie KI.avhrr_gac_times_n3
/-- the model's arrays for the selection `[p, q]` and 1, 2, 3 lines are the traced arrays -/
theorem avhrr_gac_arrays (p q : Nat) :
    (fovs .avhrrGac 1 [p, q] : List (List (List ℝ))) = KI.avhrr_gac_fovs_n1 (nat p) (nat q) ∧
    (fovs .avhrrGac 2 [p, q] : List (List (List ℝ))) = KI.avhrr_gac_fovs_n2 (nat p) (nat q) ∧
    (fovs .avhrrGac 3 [p, q] : List (List (List ℝ))) = KI.avhrr_gac_fovs_n3 (nat p) (nat q) ∧
    (times .avhrrGac 1 [p, q] : List (List ℝ)) = KI.avhrr_gac_times_n1 (nat p) (nat q) ∧
    (times .avhrrGac 2 [p, q] : List (List ℝ)) = KI.avhrr_gac_times_n2 (nat p) (nat q) ∧
    (times .avhrrGac 3 [p, q] : List (List ℝ)) = KI.avhrr_gac_times_n3 (nat p) (nat q) := by
  simp only [avhrr_gac_fovs_n1, avhrr_gac_fovs_n2, avhrr_gac_fovs_n3, avhrr_gac_times_n1, avhrr_gac_times_n2, avhrr_gac_times_n3]
  exact ⟨rfl, rfl, rfl, rfl, rfl, rfl⟩

/-! ### amsua -/
theorem amsua_fovs_n1 (p q : ℝ) : KI.amsua_fovs_n1 p q = fovsOf amsuaAngle 1 [p, q] := by tie KI.amsua_fovs_n1
theorem amsua_fovs_n2 (p q : ℝ) : KI.amsua_fovs_n2 p q = fovsOf amsuaAngle 2 [p, q] := by tie KI.amsua_fovs_n2
theorem amsua_fovs_n3 (p q : ℝ) : KI.amsua_fovs_n3 p q = fovsOf amsuaAngle 3 [p, q] := by tie KI.amsua_fovs_n3
theorem amsua_times_n1 (p q : ℝ) : KI.amsua_times_n1 p q = timesOf (fun l x => amsuaTime (nat l) x) 1 [p, q] := by tie KI.amsua_times_n1
theorem amsua_times_n2 (p q : ℝ) : KI.amsua_times_n2 p q = timesOf (fun l x => amsuaTime (nat l) x) 2 [p, q] := by tie KI.amsua_times_n2
theorem amsua_times_n3 (p q : ℝ) : KI.amsua_times_n3 p q = timesOf (fun l x => amsuaTime (nat l) x) 3 [p, q] := by tie KI.amsua_times_n3
/-- the model's arrays for the selection `[p, q]` and 1, 2, 3 lines are the traced arrays -/
theorem amsua_arrays (p q : Nat) :
    (fovs .amsua 1 [p, q] : List (List (List ℝ))) = KI.amsua_fovs_n1 (nat p) (nat q) ∧
    (fovs .amsua 2 [p, q] : List (List (List ℝ))) = KI.amsua_fovs_n2 (nat p) (nat q) ∧
    (fovs .amsua 3 [p, q] : List (List (List ℝ))) = KI.amsua_fovs_n3 (nat p) (nat q) ∧
    (times .amsua 1 [p, q] : List (List ℝ)) = KI.amsua_times_n1 (nat p) (nat q) ∧
    (times .amsua 2 [p, q] : List (List ℝ)) = KI.amsua_times_n2 (nat p) (nat q) ∧
    (times .amsua 3 [p, q] : List (List ℝ)) = KI.amsua_times_n3 (nat p) (nat q) := by
  simp only [amsua_fovs_n1, amsua_fovs_n2, amsua_fovs_n3, amsua_times_n1, amsua_times_n2, amsua_times_n3]
  exact ⟨rfl, rfl, rfl, rfl, rfl, rfl⟩

/-! ### mhs -/
theorem mhs_fovs_n1 (p q : ℝ) : KI.mhs_fovs_n1 p q = fovsOf mhsAngle 1 [p, q] := by tie KI.mhs_fovs_n1
theorem mhs_fovs_n2 (p q : ℝ) : KI.mhs_fovs_n2 p q = fovsOf mhsAngle 2 [p, q] := by tie KI.mhs_fovs_n2
theorem mhs_fovs_n3 (p q : ℝ) : KI.mhs_fovs_n3 p q = fovsOf mhsAngle 3 [p, q] := by tie KI.mhs_fovs_n3
theorem mhs_times_n1 (p q : ℝ) : KI.mhs_times_n1 p q = timesOf (fun l x => mhsTime (nat l) x) 1 [p, q] := by tie KI.mhs_times_n1
theorem mhs_times_n2 (p q : ℝ) : KI.mhs_times_n2 p q = timesOf (fun l x => mhsTime (nat l) x) 2 [p, q] := by tie KI.mhs_times_n2
theorem mhs_times_n3 (p q : ℝ) : KI.mhs_times_n3 p q = timesOf (fun l x => mhsTime (nat l) x) 3 [p, q] := by tie KI.mhs_times_n3
/-- the model's arrays for the selection `[p, q]` and 1, 2, 3 lines are the traced arrays -/
theorem mhs_arrays (p q : Nat) :
    (fovs .mhs 1 [p, q] : List (List (List ℝ))) = KI.mhs_fovs_n1 (nat p) (nat q) ∧
    (fovs .mhs 2 [p, q] : List (List (List ℝ))) = KI.mhs_fovs_n2 (nat p) (nat q) ∧
    (fovs .mhs 3 [p, q] : List (List (List ℝ))) = KI.mhs_fovs_n3 (nat p) (nat q) ∧
    (times .mhs 1 [p, q] : List (List ℝ)) = KI.mhs_times_n1 (nat p) (nat q) ∧
    (times .mhs 2 [p, q] : List (List ℝ)) = KI.mhs_times_n2 (nat p) (nat q) ∧
    (times .mhs 3 [p, q] : List (List ℝ)) = KI.mhs_times_n3 (nat p) (nat q) := by
  simp only [mhs_fovs_n1, mhs_fovs_n2, mhs_fovs_n3, mhs_times_n1, mhs_times_n2, mhs_times_n3]
  exact ⟨rfl, rfl, rfl, rfl, rfl, rfl⟩

/-! ### hirs4 -/
theorem hirs4_fovs_n1 (p q : ℝ) : KI.hirs4_fovs_n1 p q = fovsOf hirs4Angle 1 [p, q] := by tie KI.hirs4_fovs_n1
theorem hirs4_fovs_n2 (p q : ℝ) : KI.hirs4_fovs_n2 p q = fovsOf hirs4Angle 2 [p, q] := by tie KI.hirs4_fovs_n2
theorem hirs4_fovs_n3 (p q : ℝ) : KI.hirs4_fovs_n3 p q = fovsOf hirs4Angle 3 [p, q] := by tie KI.hirs4_fovs_n3
theorem hirs4_times_n1 (p q : ℝ) : KI.hirs4_times_n1 p q = timesOf (fun l x => hirs4Time (nat l) x) 1 [p, q] := by tie KI.hirs4_times_n1
theorem hirs4_times_n2 (p q : ℝ) : KI.hirs4_times_n2 p q = timesOf (fun l x => hirs4Time (nat l) x) 2 [p, q] := by tie KI.hirs4_times_n2
theorem hirs4_times_n3 (p q : ℝ) : KI.hirs4_times_n3 p q = timesOf (fun l x => hirs4Time (nat l) x) 3 [p, q] := by tie KI.hirs4_times_n3
/-- the model's arrays for the selection `[p, q]` and 1, 2, 3 lines are the traced arrays -/
theorem hirs4_arrays (p q : Nat) :
    (fovs .hirs4 1 [p, q] : List (List (List ℝ))) = KI.hirs4_fovs_n1 (nat p) (nat q) ∧
    (fovs .hirs4 2 [p, q] : List (List (List ℝ))) = KI.hirs4_fovs_n2 (nat p) (nat q) ∧
    (fovs .hirs4 3 [p, q] : List (List (List ℝ))) = KI.hirs4_fovs_n3 (nat p) (nat q) ∧
    (times .hirs4 1 [p, q] : List (List ℝ)) = KI.hirs4_times_n1 (nat p) (nat q) ∧
    (times .hirs4 2 [p, q] : List (List ℝ)) = KI.hirs4_times_n2 (nat p) (nat q) ∧
    (times .hirs4 3 [p, q] : List (List ℝ)) = KI.hirs4_times_n3 (nat p) (nat q) := by
  simp only [hirs4_fovs_n1, hirs4_fovs_n2, hirs4_fovs_n3, hirs4_times_n1, hirs4_times_n2, hirs4_times_n3]
  exact ⟨rfl, rfl, rfl, rfl, rfl, rfl⟩

/-! ### mwhs2 -/
theorem mwhs2_fovs_n1 (p q : ℝ) : KI.mwhs2_fovs_n1 p q = fovsOf mwhs2Angle 1 [p, q] := by tie KI.mwhs2_fovs_n1
theorem mwhs2_fovs_n2 (p q : ℝ) : KI.mwhs2_fovs_n2 p q = fovsOf mwhs2Angle 2 [p, q] := by tie KI.mwhs2_fovs_n2
theorem mwhs2_fovs_n3 (p q : ℝ) : KI.mwhs2_fovs_n3 p q = fovsOf mwhs2Angle 3 [p, q] := by tie KI.mwhs2_fovs_n3
theorem mwhs2_times_n1 (p q : ℝ) : KI.mwhs2_times_n1 p q = timesOf (fun l x => mwhs2Time (nat l) x) 1 [p, q] := by tie KI.mwhs2_times_n1
theorem mwhs2_times_n2 (p q : ℝ) : KI.mwhs2_times_n2 p q = timesOf (fun l x => mwhs2Time (nat l) x) 2 [p, q] := by tie KI.mwhs2_times_n2
theorem mwhs2_times_n3 (p q : ℝ) : KI.mwhs2_times_n3 p q = timesOf (fun l x => mwhs2Time (nat l) x) 3 [p, q] := by tie KI.mwhs2_times_n3
/-- the model's arrays for the selection `[p, q]` and 1, 2, 3 lines are the traced arrays -/
theorem mwhs2_arrays (p q : Nat) :
    (fovs .mwhs2 1 [p, q] : List (List (List ℝ))) = KI.mwhs2_fovs_n1 (nat p) (nat q) ∧
    (fovs .mwhs2 2 [p, q] : List (List (List ℝ))) = KI.mwhs2_fovs_n2 (nat p) (nat q) ∧
    (fovs .mwhs2 3 [p, q] : List (List (List ℝ))) = KI.mwhs2_fovs_n3 (nat p) (nat q) ∧
    (times .mwhs2 1 [p, q] : List (List ℝ)) = KI.mwhs2_times_n1 (nat p) (nat q) ∧
    (times .mwhs2 2 [p, q] : List (List ℝ)) = KI.mwhs2_times_n2 (nat p) (nat q) ∧
    (times .mwhs2 3 [p, q] : List (List ℝ)) = KI.mwhs2_times_n3 (nat p) (nat q) := by
  simp only [mwhs2_fovs_n1, mwhs2_fovs_n2, mwhs2_fovs_n3, mwhs2_times_n1, mwhs2_times_n2, mwhs2_times_n3]
  exact ⟨rfl, rfl, rfl, rfl, rfl, rfl⟩

/-! ### atms -/
theorem atms_fovs_n1 (p q : Nat) : (KI.atms_fovs_n1 p q : List (List (List ℝ))) = fovsOf atmsAngle 1 [p, q] := by tie KI.atms_fovs_n1
theorem atms_fovs_n2 (p q : Nat) : (KI.atms_fovs_n2 p q : List (List (List ℝ))) = fovsOf atmsAngle 2 [p, q] := by tie KI.atms_fovs_n2
theorem atms_fovs_n3 (p q : Nat) : (KI.atms_fovs_n3 p q : List (List (List ℝ))) = fovsOf atmsAngle 3 [p, q] := by tie KI.atms_fovs_n3
theorem atms_times_n1 (p q : ℝ) : KI.atms_times_n1 p q = timesOf (fun l x => atmsTime (nat l) x) 1 [p, q] := by tie KI.atms_times_n1
theorem atms_times_n2 (p q : ℝ) : KI.atms_times_n2 p q = timesOf (fun l x => atmsTime (nat l) x) 2 [p, q] := by tie KI.atms_times_n2
theorem atms_times_n3 (p q : ℝ) : KI.atms_times_n3 p q = timesOf (fun l x => atmsTime (nat l) x) 3 [p, q] := by tie KI.atms_times_n3
/-- the model's arrays for the selection `[p, q]` and 1, 2, 3 lines are the traced arrays -/
theorem atms_arrays (p q : Nat) :
    (fovs .atms 1 [p, q] : List (List (List ℝ))) = KI.atms_fovs_n1 p q ∧
    (fovs .atms 2 [p, q] : List (List (List ℝ))) = KI.atms_fovs_n2 p q ∧
    (fovs .atms 3 [p, q] : List (List (List ℝ))) = KI.atms_fovs_n3 p q ∧
    (times .atms 1 [p, q] : List (List ℝ)) = KI.atms_times_n1 (nat p) (nat q) ∧
    (times .atms 2 [p, q] : List (List ℝ)) = KI.atms_times_n2 (nat p) (nat q) ∧
    (times .atms 3 [p, q] : List (List ℝ)) = KI.atms_times_n3 (nat p) (nat q) := by
  simp only [atms_fovs_n1, atms_fovs_n2, atms_fovs_n3, atms_times_n1, atms_times_n2, atms_times_n3]
  exact ⟨rfl, rfl, rfl, rfl, rfl, rfl⟩

/-! ### ascat -/
theorem ascat_times_n1 (mx : Nat) (p q : ℝ) :
    KI.ascat_times_n1 (nat mx) p q = timesOf (fun l x => ascatTime mx (nat l) x) 1 [p, q] := by tie KI.ascat_times_n1
theorem ascat_times_n2 (mx : Nat) (p q : ℝ) :
    KI.ascat_times_n2 (nat mx) p q = timesOf (fun l x => ascatTime mx (nat l) x) 2 [p, q] := by tie KI.ascat_times_n2
theorem ascat_times_n3 (mx : Nat) (p q : ℝ) :
    KI.ascat_times_n3 (nat mx) p q = timesOf (fun l x => ascatTime mx (nat l) x) 3 [p, q] := by tie KI.ascat_times_n3
/-- all 42 positions: the two `np.linspace` halves, concatenated -/
theorem ascat_fovs_full_n1 : (KI.ascat_fovs_full_n1 : List (List (List ℝ))) = fovsOf ascatAngle 1 (List.range 42) := by
  tie KI.ascat_fovs_full_n1
theorem ascat_fovs_full_n2 : (KI.ascat_fovs_full_n2 : List (List (List ℝ))) = fovsOf ascatAngle 2 (List.range 42) := by
  tie KI.ascat_fovs_full_n2
/-- the model's ASCAT arrays: times for the selection `[p, q]` (the sampling interval uses `maxPoint [p, q]`, the cut
    `np.max(scan_points)`), angles for the full set of positions -/
theorem ascat_arrays (p q : Nat) :
    (times .ascat 1 [p, q] : List (List ℝ)) = KI.ascat_times_n1 (nat (maxPoint [p, q])) (nat p) (nat q) ∧
    (times .ascat 2 [p, q] : List (List ℝ)) = KI.ascat_times_n2 (nat (maxPoint [p, q])) (nat p) (nat q) ∧
    (times .ascat 3 [p, q] : List (List ℝ)) = KI.ascat_times_n3 (nat (maxPoint [p, q])) (nat p) (nat q) ∧
    (fovs .ascat 1 (List.range (Inst.npos .ascat)) : List (List (List ℝ))) = KI.ascat_fovs_full_n1 ∧
    (fovs .ascat 2 (List.range (Inst.npos .ascat)) : List (List (List ℝ))) = KI.ascat_fovs_full_n2 := by
  simp only [ascat_times_n1, ascat_times_n2, ascat_times_n3, ascat_fovs_full_n1, ascat_fovs_full_n2]
  exact ⟨rfl, rfl, rfl, rfl, rfl⟩

/-! ### olci / slstr_nadir: `np.linspace(west, east, len(scan_points))`, zero times -/
theorem olci_fovs_n2_m1 (p : ℝ) (pts : List Nat) (h : pts.length = 1) : KI.olci_fovs_n2_m1 p = resampFovs .olci 2 pts := by
  rw [(resamp_length_only .olci 2 pts [0] h).1]; tie KI.olci_fovs_n2_m1
theorem olci_fovs_n1_m2 (p q : ℝ) (pts : List Nat) (h : pts.length = 2) : KI.olci_fovs_n1_m2 p q = resampFovs .olci 1 pts := by
  rw [(resamp_length_only .olci 1 pts [0, 0] h).1]; tie KI.olci_fovs_n1_m2
theorem olci_fovs_n2_m3 (p q r : ℝ) (pts : List Nat) (h : pts.length = 3) : KI.olci_fovs_n2_m3 p q r = resampFovs .olci 2 pts := by
  rw [(resamp_length_only .olci 2 pts [0, 0, 0] h).1]; tie KI.olci_fovs_n2_m3
theorem olci_times_n2_m1 (p : ℝ) (pts : List Nat) (h : pts.length = 1) : KI.olci_times_n2_m1 p = resampTimes .olci 2 pts := by
  rw [(resamp_length_only .olci 2 pts [0] h).2]; tie KI.olci_times_n2_m1
theorem olci_times_n1_m2 (p q : ℝ) (pts : List Nat) (h : pts.length = 2) : KI.olci_times_n1_m2 p q = resampTimes .olci 1 pts := by
  rw [(resamp_length_only .olci 1 pts [0, 0] h).2]; tie KI.olci_times_n1_m2
theorem olci_times_n2_m3 (p q r : ℝ) (pts : List Nat) (h : pts.length = 3) : KI.olci_times_n2_m3 p q r = resampTimes .olci 2 pts := by
  rw [(resamp_length_only .olci 2 pts [0, 0, 0] h).2]; tie KI.olci_times_n2_m3
theorem slstr_fovs_n2_m1 (p : ℝ) (pts : List Nat) (h : pts.length = 1) : KI.slstr_fovs_n2_m1 p = resampFovs .slstr 2 pts := by
  rw [(resamp_length_only .slstr 2 pts [0] h).1]; tie KI.slstr_fovs_n2_m1
theorem slstr_fovs_n1_m2 (p q : ℝ) (pts : List Nat) (h : pts.length = 2) : KI.slstr_fovs_n1_m2 p q = resampFovs .slstr 1 pts := by
  rw [(resamp_length_only .slstr 1 pts [0, 0] h).1]; tie KI.slstr_fovs_n1_m2
theorem slstr_fovs_n2_m3 (p q r : ℝ) (pts : List Nat) (h : pts.length = 3) : KI.slstr_fovs_n2_m3 p q r = resampFovs .slstr 2 pts := by
  rw [(resamp_length_only .slstr 2 pts [0, 0, 0] h).1]; tie KI.slstr_fovs_n2_m3
theorem slstr_times_n2_m1 (p : ℝ) (pts : List Nat) (h : pts.length = 1) : KI.slstr_times_n2_m1 p = resampTimes .slstr 2 pts := by
  rw [(resamp_length_only .slstr 2 pts [0] h).2]; tie KI.slstr_times_n2_m1
theorem slstr_times_n1_m2 (p q : ℝ) (pts : List Nat) (h : pts.length = 2) : KI.slstr_times_n1_m2 p q = resampTimes .slstr 1 pts := by
  rw [(resamp_length_only .slstr 1 pts [0, 0] h).2]; tie KI.slstr_times_n1_m2
theorem slstr_times_n2_m3 (p q r : ℝ) (pts : List Nat) (h : pts.length = 3) : KI.slstr_times_n2_m3 p q r = resampTimes .slstr 2 pts := by
  rw [(resamp_length_only .slstr 2 pts [0, 0, 0] h).2]; tie KI.slstr_times_n2_m3

/-! ### viirs: 32 detector lines per scan -/
theorem viirs_fovs_n1 (p q : ℝ) : KI.viirs_fovs_n1 p q = viirsFovsOf 1 [p, q] := by tie KI.viirs_fovs_n1
theorem viirs_fovs_n2 (p q : ℝ) : KI.viirs_fovs_n2 p q = viirsFovsOf 2 [p, q] := by tie KI.viirs_fovs_n2
theorem viirs_times_n1 (p q : ℝ) : KI.viirs_times_n1 p q = viirsTimesOf 1 [p, q] := by tie KI.viirs_times_n1
theorem viirs_times_n2 (p q : ℝ) : KI.viirs_times_n2 p q = viirsTimesOf 2 [p, q] := by tie KI.viirs_times_n2
/-- the model's VIIRS arrays for the pixel selection `[p, q]`, 1 and 2 scans -/
theorem viirs_arrays (p q : Nat) :
    (viirsFovs 1 [p, q] : List (List (List ℝ))) = KI.viirs_fovs_n1 (nat p) (nat q) ∧
    (viirsFovs 2 [p, q] : List (List (List ℝ))) = KI.viirs_fovs_n2 (nat p) (nat q) ∧
    (viirsTimes 1 [p, q] : List (List ℝ)) = KI.viirs_times_n1 (nat p) (nat q) ∧
    (viirsTimes 2 [p, q] : List (List ℝ)) = KI.viirs_times_n2 (nat p) (nat q) := by
  simp only [viirs_fovs_n1, viirs_fovs_n2, viirs_times_n1, viirs_times_n2, viirsFovs_structure, viirsTimes_structure,
    List.map_cons, List.map_nil, and_self]

/-! ### geoloc.ScanGeometry -/
/-- `self.fovs = np.array(fovs)`: stored unchanged -/
theorem scan_geometry_fovs (fx fy : ℝ) : KI.scan_geometry_fovs fx fy = [[[fx]], [[fy]]] := by
  simp only [KI.scan_geometry_fovs]
/-- `np.array(times) * np.timedelta64(1000000000, "ns")`: the float product is `t * 1e9` with the model's constant; the
    model's `toNs` is its floor (numpy's cast to int64 truncates toward zero, `floor` for the non-negative times of C19) -/
theorem scan_geometry_ns_floor (t u : ℝ) :
    (KI.scan_geometry_ns t u).map (·.map Num.floor) = [[toNs t, toNs u]] := by
  simp only [KI.scan_geometry_ns, List.map_cons, List.map_nil, toNs, instr__ScanGeometry___init___L3]
/-- `times(start) = _times + np.datetime64(start)`: the stored offsets shifted by the start instant -/
theorem scan_geometry_times (a b start : ℝ) : KI.scan_geometry_times a b start = [[a + start, b + start]] := by
  simp only [KI.scan_geometry_times]

end PV.Equiv.Instr
