/-
  PV.Equiv.Astro — T-C tie: the kernels traced from the current source of pyorbital/astronomy.py
  (PV/Generated/Kernels.lean, regenerated on every run) are, over ℝ and for every input, the functions of the
  hand-written model PV.Model.Astro that the property theorems are about.
-/
import PV.Equiv.Tactic
import PV.Model.Astro
import PV.Generated.Kernels
set_option linter.unusedTactic false
set_option linter.unreachableTactic false
set_option linter.unnecessarySeqFocus false

namespace PV.Equiv
open PV

namespace Astro
open PV.Astro

theorem gmst_eq (d : ℝ) : Gen.K.astronomy_gmst d = [gmst d] := by
  simp only [Gen.K.astronomy_gmst, gmst, gmstTheta] <;> kernel_eq

theorem sun_ecliptic_longitude_eq (d : ℝ) : Gen.K.astronomy_sun_ecliptic_longitude d = [sunEclipticLongitude d] := by
  simp only [Gen.K.astronomy_sun_ecliptic_longitude, sunEclipticLongitude, sunMeanAnomaly] <;> kernel_eq

theorem sun_ra_dec_eq (d : ℝ) : Gen.K.astronomy_sun_ra_dec d = [(sunRaDec d).1, (sunRaDec d).2] := by
  simp only [Gen.K.astronomy_sun_ra_dec, sun_ecliptic_longitude_eq, Gen.K.nth, List.getD_cons_zero, List.getD_cons_succ,
    sunRaDec, obliquity] <;> kernel_eq

theorem cos_zen_eq (d lon lat : ℝ) : Gen.K.astronomy_cos_zen d lon lat = [cosZen d lon lat] := by
  simp only [Gen.K.astronomy_cos_zen, sun_ra_dec_eq, gmst_eq, Gen.K.nth, List.getD_cons_zero, List.getD_cons_succ,
    cosZen, cosZenRad, hourAngle, lmst] <;> kernel_eq

theorem sun_zenith_angle_eq (d lon lat : ℝ) : Gen.K.astronomy_sun_zenith_angle d lon lat = [sunZenithAngle d lon lat] := by
  simp only [Gen.K.astronomy_sun_zenith_angle, cos_zen_eq, Gen.K.nth, List.getD_cons_zero, List.getD_cons_succ,
    sunZenithAngle] <;> kernel_eq

theorem get_alt_az_eq (d lon lat : ℝ) :
    Gen.K.astronomy_get_alt_az d lon lat = [(altAz d lon lat).1, (altAz d lon lat).2] := by
  simp only [Gen.K.astronomy_get_alt_az, sun_ra_dec_eq, gmst_eq, Gen.K.nth, List.getD_cons_zero, List.getD_cons_succ,
    altAz, hourAngle, lmst] <;> kernel_eq

theorem sun_earth_distance_correction_eq (d : ℝ) :
    Gen.K.astronomy_sun_earth_distance_correction d = [sunEarthDistanceCorrection d] := by
  simp only [Gen.K.astronomy_sun_earth_distance_correction, sunEarthDistanceCorrection] <;> kernel_eq

theorem observer_position_eq (d lon lat alt : ℝ) :
    Gen.K.astronomy_observer_position d lon lat alt =
      [(observerPosition d lon lat alt).1.x, (observerPosition d lon lat alt).1.y, (observerPosition d lon lat alt).1.z,
       (observerPosition d lon lat alt).2.x, (observerPosition d lon lat alt).2.y, (observerPosition d lon lat alt).2.z] := by
  simp only [Gen.K.astronomy_observer_position, gmst_eq, Gen.K.nth, List.getD_cons_zero, List.getD_cons_succ,
    observerPosition] <;> kernel_eq

end Astro
end PV.Equiv
