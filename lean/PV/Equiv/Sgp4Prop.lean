/-
  PV.Equiv.Sgp4Prop — T-C tie for the propagation (see the table in PV/Equiv/Sgp4.lean): `_SGDP4.propagate`,
  `_Keplerians.calculate` with all its helper methods, the Kepler iteration `_iterate_newton_raphson` pass by pass, and
  the normalisation of `Orbital.get_position`, traced from the current source with cut points
  (PV/Generated/KernelsSgp4.lean), against PV.Model.Sgp4 (`secular`, `clampE`, `longPeriod`, `newtonLoop`, `newton`,
  `shortPeriod`, `calculate`, `propagate`, `getPosition`).

  Every statement has the form: the traced stage, applied (with NAMED arguments) to the model's values of the symbols
  it reads, is the model's value of what it stores.  `p : Params ℝ`, `s : Secular ℝ`, `l : LongPeriod ℝ`,
  `nw : Newton ℝ` are arbitrary; the model's `calculate` chains them exactly as the source does
  (`calculate_eq_stages`).  Intermediates of the source that are not fields of the model's structures are the small
  functions of `S`.
-/
import PV.Equiv.Sgp4Init
set_option linter.unusedTactic false
set_option linter.unreachableTactic false
set_option linter.unnecessarySeqFocus false
set_option linter.unusedSimpArgs false
set_option linter.unusedVariables false

namespace PV.Equiv.Sgp4Prop
open PV PV.Num PV.Sgp4 PV.Equiv.Sgp4Init

namespace S
section
variable {α : Type} [Num α]

/-- `self._xmp` after its first store -/
def xmp0 (p : Params α) (ts : α) : α := p.xmo + p.xmdot * ts
/-- `self._temp0` after its first store (`ts * omgcof + delm`) -/
def temp0 (p : Params α) (ts : α) : α :=
  ts * p.omgcof + p.xmcof * (cube ((1 : α) + p.eta * Num.cos (xmp0 p ts)) - p.delmo)
/-- `self._temp0` after its second store, in `_calculate_axn_and_ayn` -/
def lpT0 (s : Secular α) : α := (1 : α) / (s.a * ((1 : α) - sq (clampE s.e0)))

/-- the locals `cosu`, `sinu` of `_calculate_preliminary_short_period` -/
def cosu (s : Secular α) (l : LongPeriod α) (nw : Newton α) : α :=
  let a := s.a
  let r := a * ((1 : α) - nw.ecosE)
  let temp2 := a * ((1 : α) / r)
  let temp3 := (1 : α) / ((1 : α) + Num.sqrt ((1 : α) - l.elsq))
  temp2 * (nw.cosEPW - l.axn + l.ayn * nw.esinE * temp3)
def sinu (s : Secular α) (l : LongPeriod α) (nw : Newton α) : α :=
  let a := s.a
  let r := a * ((1 : α) - nw.ecosE)
  let temp2 := a * ((1 : α) / r)
  let temp3 := (1 : α) / ((1 : α) + Num.sqrt ((1 : α) - l.elsq))
  temp2 * (nw.sinEPW - l.ayn - l.axn * nw.esinE * temp3)
/-- `self._temp0` (fourth store), `self._temp1`, `self._temp2` -/
def ipl (s : Secular α) (l : LongPeriod α) : α := (1 : α) / (s.a * ((1 : α) - l.elsq))
def tk1 (s : Secular α) (l : LongPeriod α) : α := CK2 * ipl s l
def tk2 (s : Secular α) (l : LongPeriod α) : α := tk1 s l * ipl s l

/-- one Newton correction: the iterate after a pass that does not exit (`first` = the pass with `i == 0`) -/
def nrNext (first : Bool) (capu ecc ecosE epw esinE : α) : α :=
  let f := capu - epw + esinE
  let df := (1 : α) - ecosE
  let nr := f / df
  let nr := if first && Num.gt (Num.abs nr) ((1.25 : α) * ecc) then Num.sign nr * ecc
            else f / (df + (0.5 : α) * esinE * nr)
  epw + nr
/-- the exit test of a pass -/
def nrExit (capu epw esinE : α) : Bool := Num.lt (Num.abs (capu - epw + esinE)) NR_EPS

end
end S

/-! ## secular terms, drag terms in both modes (`calculate` up to `_calculate_a`) -/
section secularp
variable (p : Params ℝ) (ts : ℝ)

theorem modeCode_eq_simp (m : Mode) : (modeCode m == 2) = (m == .nearSimp) := by cases m <;> rfl
theorem modeCode_eq_norm (m : Mode) : (modeCode m == 3) = (m == .nearNorm) := by cases m <;> rfl
theorem modeCode_ne_zero (m : Mode) : (modeCode m == 0) = false := by cases m <;> rfl

theorem kep_ts_eq : Gen.KS.kep_ts (tsince := ts) = ts := by
  simp only [Gen.KS.kep_ts] <;> stage_eq
theorem kep_xmp_1_eq : Gen.KS.kep_xmp_1 (p_xmdot := p.xmdot) (p_xmo := p.xmo) (ts := ts) = S.xmp0 p ts := by
  simp only [Gen.KS.kep_xmp_1, S.xmp0] <;> stage_eq
theorem kep_xnode_eq :
    Gen.KS.kep_xnode (p_xnodcf := p.xnodcf) (p_xnodeo := p.xnodeo) (p_xnodot := p.xnodot) (ts := ts) =
      (secular p ts).xnode := by
  simp only [Gen.KS.kep_xnode, secular] <;> stage_eq
theorem kep_temp0_1_eq :
    Gen.KS.kep_temp0_1 (p_delmo := p.delmo) (p_eta := p.eta) (p_omgcof := p.omgcof) (p_xmcof := p.xmcof) (ts := ts)
      (xmp_1 := S.xmp0 p ts) = S.temp0 p ts := by
  simp only [Gen.KS.kep_temp0_1, S.temp0] <;> stage_eq
theorem kep_xmp_2_eq : Gen.KS.kep_xmp_2 (temp0_1 := S.temp0 p ts) (xmp_1 := S.xmp0 p ts) = (secular p ts).xmp := by
  simp only [Gen.KS.kep_xmp_2, secular, S.xmp0, S.temp0] <;> stage_eq
theorem kep_omega_eq :
    Gen.KS.kep_omega (p_omegao := p.omegao) (p_omgdot := p.omgdot) (temp0_1 := S.temp0 p ts) (ts := ts) =
      (secular p ts).omega := by
  simp only [Gen.KS.kep_omega, secular, S.xmp0, S.temp0] <;> stage_eq
theorem kep_tempe_eq :
    Gen.KS.kep_tempe (p_bstar := p.bstar) (p_c4 := p.c4) (p_c5 := p.c5) (p_sinXMO := p.sinXMO) (ts := ts)
      (xmp_2 := (secular p ts).xmp) (p_mode := modeCode p.mode) = (secular p ts).tempe := by
  simp only [Gen.KS.kep_tempe, modeCode_eq_simp, secular, S.xmp0, S.temp0] <;> stage_eq
theorem kep_templ_eq :
    Gen.KS.kep_templ (p_t2cof := p.t2cof) (p_t3cof := p.t3cof) (p_t4cof := p.t4cof) (p_t5cof := p.t5cof) (ts := ts)
      (p_mode := modeCode p.mode) = (secular p ts).templ := by
  simp only [Gen.KS.kep_templ, modeCode_eq_simp, secular] <;> stage_eq
theorem kep_a_eq :
    Gen.KS.kep_a (p_aodp := p.aodp) (p_c1 := p.c1) (p_d2 := p.d2) (p_d3 := p.d3) (p_d4 := p.d4) (ts := ts)
      (p_mode := modeCode p.mode) = (secular p ts).a := by
  simp only [Gen.KS.kep_a, modeCode_eq_simp, secular] <;> stage_eq
/-- the eccentricity before the guard and the clamp: `self._params.eo - tempe` (local `e` of `_calculate_e`) -/
theorem secular_e0 : (secular p ts).e0 = p.eo - (secular p ts).tempe := rfl

end secularp

/-! ## eccentricity clamp, long-period terms (`_calculate_e`, `_calculate_axn_and_ayn`, `_calculate_elsq`, `xlt`) -/
section longp
variable (p : Params ℝ) (s : Secular ℝ)

theorem kep_calculate_e_r_eq (p_eo tempe : ℝ) :
    Gen.KS.kep_calculate_e_r (p_eo := p_eo) (tempe := tempe) = clampE (p_eo - tempe) := by
  simp only [Gen.KS.kep_calculate_e_r, clampE, Num.gt, ECC_EPS, ECC_LIMIT_HIGH] <;> stage_eq
theorem longPeriod_e : (longPeriod p s).e = clampE s.e0 := rfl
theorem longPeriod_elsq : (longPeriod p s).elsq = Num.sq (longPeriod p s).axn + Num.sq (longPeriod p s).ayn := rfl
theorem kep_temp0_2_eq : Gen.KS.kep_temp0_2 (a := s.a) (calculate_e_r := (longPeriod p s).e) = S.lpT0 s := by
  simp only [Gen.KS.kep_temp0_2, S.lpT0, longPeriod_e] <;> stage_eq
theorem kep_axn_eq : Gen.KS.kep_axn (calculate_e_r := (longPeriod p s).e) (omega := s.omega) = (longPeriod p s).axn := by
  simp only [Gen.KS.kep_axn, longPeriod] <;> stage_eq
theorem kep_ayn_eq :
    Gen.KS.kep_ayn (calculate_e_r := (longPeriod p s).e) (omega := s.omega) (p_aycof := p.aycof) (temp0_2 := S.lpT0 s) =
      (longPeriod p s).ayn := by
  simp only [Gen.KS.kep_ayn, longPeriod, S.lpT0] <;> stage_eq
theorem kep_elsq_eq :
    Gen.KS.kep_elsq (axn := (longPeriod p s).axn) (ayn := (longPeriod p s).ayn) = (longPeriod p s).elsq := by
  simp only [Gen.KS.kep_elsq, longPeriod] <;> stage_eq
theorem kep_ecc_eq : Gen.KS.kep_ecc (elsq := (longPeriod p s).elsq) = Num.sqrt (longPeriod p s).elsq := by
  simp only [Gen.KS.kep_ecc] <;> stage_eq
theorem kep_xlt_eq :
    Gen.KS.kep_xlt (axn := (longPeriod p s).axn) (omega := s.omega) (p_xlcof := p.xlcof) (p_xnodp := p.xnodp)
      (temp0_2 := S.lpT0 s) (templ := s.templ) (xmp_2 := s.xmp) (xnode := s.xnode) = (longPeriod p s).xlt := by
  simp only [Gen.KS.kep_xlt, longPeriod, S.lpT0] <;> stage_eq

end longp

/-! ## the Kepler iteration, pass by pass -/
section newtonp
variable (axn ayn capu ecc epw sinE cosE ecosE esinE : ℝ)

/-- `for i in range(10)`: the model's fuel -/
theorem nr_range_eq : Gen.KS.nr_range = 10 := rfl
/-- the traced passes: 0 (`nr_first_*`), 1..8 followed by the next pass and the last pass 9 (`nr_later_*`) -/
theorem nr_passes_eq : 0 :: Gen.KS.nr_later_passes ++ [Gen.KS.nr_range - 1] = List.range Gen.KS.nr_range := by decide

/-- the initial iterate and `capu = np.array(epw)` -/
theorem nr_epw_init_eq (p : Params ℝ) (s : Secular ℝ) :
    Gen.KS.nr_epw_init (xlt := (longPeriod p s).xlt) (xnode := s.xnode) = (longPeriod p s).capu := by
  simp only [Gen.KS.nr_epw_init, longPeriod] <;> stage_eq
theorem nr_capu_init_eq : Gen.KS.nr_capu_init (epw := epw) = epw := by
  simp only [Gen.KS.nr_capu_init] <;> stage_eq

theorem nr_first_sinEPW_eq : Gen.KS.nr_first_sinEPW (epw := epw) = Num.sin epw := by
  simp only [Gen.KS.nr_first_sinEPW] <;> stage_eq
theorem nr_first_cosEPW_eq : Gen.KS.nr_first_cosEPW (epw := epw) = Num.cos epw := by
  simp only [Gen.KS.nr_first_cosEPW] <;> stage_eq
theorem nr_first_ecosE_eq :
    Gen.KS.nr_first_ecosE (axn := axn) (ayn := ayn) (cosEPW := cosE) (sinEPW := sinE) = axn * cosE + ayn * sinE := by
  simp only [Gen.KS.nr_first_ecosE] <;> stage_eq
theorem nr_first_esinE_eq :
    Gen.KS.nr_first_esinE (axn := axn) (ayn := ayn) (cosEPW := cosE) (sinEPW := sinE) = axn * sinE - ayn * cosE := by
  simp only [Gen.KS.nr_first_esinE] <;> stage_eq
theorem nr_first_exit_eq : Gen.KS.nr_first_exit (capu := capu) (epw := epw) (esinE := esinE) = S.nrExit capu epw esinE := by
  simp only [Gen.KS.nr_first_exit, S.nrExit, NR_EPS] <;> stage_eq
theorem nr_first_next_sinEPW_eq :
    Gen.KS.nr_first_next_sinEPW (capu := capu) (ecc := ecc) (ecosE := ecosE) (epw := epw) (esinE := esinE) =
      Num.sin (S.nrNext true capu ecc ecosE epw esinE) := by
  simp only [Gen.KS.nr_first_next_sinEPW, S.nrNext, Num.gt, Bool.true_and] <;> stage_eq
theorem nr_first_next_cosEPW_eq :
    Gen.KS.nr_first_next_cosEPW (capu := capu) (ecc := ecc) (ecosE := ecosE) (epw := epw) (esinE := esinE) =
      Num.cos (S.nrNext true capu ecc ecosE epw esinE) := by
  simp only [Gen.KS.nr_first_next_cosEPW, S.nrNext, Num.gt, Bool.true_and] <;> stage_eq
theorem nr_first_next_ecosE_eq (cosE' sinE' : ℝ) :
    Gen.KS.nr_first_next_ecosE (axn := axn) (ayn := ayn) (cosEPW_next := cosE') (sinEPW_next := sinE') =
      axn * cosE' + ayn * sinE' := by
  simp only [Gen.KS.nr_first_next_ecosE] <;> stage_eq
theorem nr_first_next_esinE_eq (cosE' sinE' : ℝ) :
    Gen.KS.nr_first_next_esinE (axn := axn) (ayn := ayn) (cosEPW_next := cosE') (sinEPW_next := sinE') =
      axn * sinE' - ayn * cosE' := by
  simp only [Gen.KS.nr_first_next_esinE] <;> stage_eq

theorem nr_later_sinEPW_eq : Gen.KS.nr_later_sinEPW (epw := epw) = Num.sin epw := by
  simp only [Gen.KS.nr_later_sinEPW] <;> stage_eq
theorem nr_later_cosEPW_eq : Gen.KS.nr_later_cosEPW (epw := epw) = Num.cos epw := by
  simp only [Gen.KS.nr_later_cosEPW] <;> stage_eq
theorem nr_later_ecosE_eq :
    Gen.KS.nr_later_ecosE (axn := axn) (ayn := ayn) (cosEPW := cosE) (sinEPW := sinE) = axn * cosE + ayn * sinE := by
  simp only [Gen.KS.nr_later_ecosE] <;> stage_eq
theorem nr_later_esinE_eq :
    Gen.KS.nr_later_esinE (axn := axn) (ayn := ayn) (cosEPW := cosE) (sinEPW := sinE) = axn * sinE - ayn * cosE := by
  simp only [Gen.KS.nr_later_esinE] <;> stage_eq
theorem nr_later_exit_eq : Gen.KS.nr_later_exit (capu := capu) (epw := epw) (esinE := esinE) = S.nrExit capu epw esinE := by
  simp only [Gen.KS.nr_later_exit, S.nrExit, NR_EPS] <;> stage_eq
theorem nr_later_next_sinEPW_eq :
    Gen.KS.nr_later_next_sinEPW (capu := capu) (ecc := ecc) (ecosE := ecosE) (epw := epw) (esinE := esinE) =
      Num.sin (S.nrNext false capu ecc ecosE epw esinE) := by
  simp only [Gen.KS.nr_later_next_sinEPW, S.nrNext, Bool.false_and, Bool.false_eq_true, if_false] <;> stage_eq
theorem nr_later_next_cosEPW_eq :
    Gen.KS.nr_later_next_cosEPW (capu := capu) (ecc := ecc) (ecosE := ecosE) (epw := epw) (esinE := esinE) =
      Num.cos (S.nrNext false capu ecc ecosE epw esinE) := by
  simp only [Gen.KS.nr_later_next_cosEPW, S.nrNext, Bool.false_and, Bool.false_eq_true, if_false] <;> stage_eq
theorem nr_later_next_ecosE_eq (cosE' sinE' : ℝ) :
    Gen.KS.nr_later_next_ecosE (axn := axn) (ayn := ayn) (cosEPW_next := cosE') (sinEPW_next := sinE') =
      axn * cosE' + ayn * sinE' := by
  simp only [Gen.KS.nr_later_next_ecosE] <;> stage_eq
theorem nr_later_next_esinE_eq (cosE' sinE' : ℝ) :
    Gen.KS.nr_later_next_esinE (axn := axn) (ayn := ayn) (cosEPW_next := cosE') (sinEPW_next := sinE') =
      axn * sinE' - ayn * cosE' := by
  simp only [Gen.KS.nr_later_next_esinE] <;> stage_eq

/-- the model's loop is exactly: the stores of one pass, its exit test, else the same pass from the corrected iterate
    (`i == 0` selects the capped first-order step of the first pass) -/
theorem newtonLoop_succ (fuel i : Nat) (st : Newton ℝ) :
    newtonLoop axn ayn capu ecc (fuel + 1) i epw st =
      let sinE := Num.sin epw
      let cosE := Num.cos epw
      let ecosE := axn * cosE + ayn * sinE
      let esinE := axn * sinE - ayn * cosE
      if S.nrExit capu epw esinE then ⟨epw, sinE, cosE, ecosE, esinE, i + 1, true⟩
      else newtonLoop axn ayn capu ecc fuel (i + 1) (S.nrNext (i == 0) capu ecc ecosE epw esinE)
             ⟨S.nrNext (i == 0) capu ecc ecosE epw esinE, sinE, cosE, ecosE, esinE, i + 1, false⟩ := rfl
/-- when the passes are used up the attributes are those of the last pass -/
theorem newtonLoop_zero (i : Nat) (st : Newton ℝ) : newtonLoop axn ayn capu ecc 0 i epw st = st := rfl
theorem newton_eq_loop :
    newton axn ayn capu ecc =
      newtonLoop axn ayn capu ecc Gen.KS.nr_range 0 capu ⟨capu, (0 : ℝ), (0 : ℝ), (0 : ℝ), (0 : ℝ), 0, false⟩ := rfl

end newtonp

/-! ## short-period terms (`_calculate_preliminary_short_period` after the iteration, `_update_short_period`,
`_collect_return_values`) -/
section shortp
variable (p : Params ℝ) (s : Secular ℝ) (l : LongPeriod ℝ) (nw : Newton ℝ)

/-- the four attributes the iteration leaves behind are read as they are -/
theorem kep_newton_alias :
    Gen.KS.kep_sinEPW (newton_sinEPW := nw.sinEPW) = nw.sinEPW ∧ Gen.KS.kep_cosEPW (newton_cosEPW := nw.cosEPW) = nw.cosEPW ∧
    Gen.KS.kep_ecosE (newton_ecosE := nw.ecosE) = nw.ecosE ∧ Gen.KS.kep_esinE (newton_esinE := nw.esinE) = nw.esinE :=
  ⟨rfl, rfl, rfl, rfl⟩

theorem kep_temp0_3_eq : Gen.KS.kep_temp0_3 (elsq := l.elsq) = (1 : ℝ) - l.elsq := by
  simp only [Gen.KS.kep_temp0_3] <;> stage_eq
theorem kep_betal_eq (t1 : ℝ) : Gen.KS.kep_betal (temp0_3 := t1) = Num.sqrt t1 := by
  simp only [Gen.KS.kep_betal] <;> stage_eq
theorem kep_pl_eq : Gen.KS.kep_pl (a := s.a) (temp0_3 := (1 : ℝ) - l.elsq) = (shortPeriod p s l nw).pl := by
  simp only [Gen.KS.kep_pl, shortPeriod] <;> stage_eq
theorem kep_r_eq : Gen.KS.kep_r (a := s.a) (ecosE := nw.ecosE) = (shortPeriod p s l nw).r := by
  simp only [Gen.KS.kep_r, shortPeriod] <;> stage_eq
theorem kep_invR_eq (r : ℝ) : Gen.KS.kep_invR (r := r) = 1 / r := by simp only [Gen.KS.kep_invR] <;> stage_eq

theorem kep_u_eq :
    Gen.KS.kep_u (a := s.a) (axn := l.axn) (ayn := l.ayn) (betal := Num.sqrt ((1 : ℝ) - l.elsq)) (cosEPW := nw.cosEPW)
      (esinE := nw.esinE) (invR := 1 / (shortPeriod p s l nw).r) (sinEPW := nw.sinEPW) = (shortPeriod p s l nw).u := by
  simp only [Gen.KS.kep_u, shortPeriod] <;> stage_eq
theorem shortPeriod_u : (shortPeriod p s l nw).u = Num.atan2 (S.sinu s l nw) (S.cosu s l nw) := rfl
theorem kep_sin2u_eq :
    Gen.KS.kep_sin2u (a := s.a) (axn := l.axn) (ayn := l.ayn) (betal := Num.sqrt ((1 : ℝ) - l.elsq)) (cosEPW := nw.cosEPW)
      (esinE := nw.esinE) (invR := 1 / (shortPeriod p s l nw).r) (sinEPW := nw.sinEPW) =
      2 * S.sinu s l nw * S.cosu s l nw := by
  simp only [Gen.KS.kep_sin2u, shortPeriod, S.sinu, S.cosu] <;> stage_eq
theorem kep_cos2u_eq :
    Gen.KS.kep_cos2u (a := s.a) (axn := l.axn) (ayn := l.ayn) (betal := Num.sqrt ((1 : ℝ) - l.elsq)) (cosEPW := nw.cosEPW)
      (esinE := nw.esinE) (invR := 1 / (shortPeriod p s l nw).r) = 2 * S.cosu s l nw ^ 2 - 1 := by
  simp only [Gen.KS.kep_cos2u, shortPeriod, S.cosu] <;> stage_eq

theorem kep_temp0_4_eq : Gen.KS.kep_temp0_4 (pl := (shortPeriod p s l nw).pl) = S.ipl s l := by
  simp only [Gen.KS.kep_temp0_4, shortPeriod, S.ipl] <;> stage_eq
theorem kep_temp1_eq : Gen.KS.kep_temp1 (temp0_4 := S.ipl s l) = S.tk1 s l := by
  simp only [Gen.KS.kep_temp1, S.tk1, S.ipl, CK2] <;> stage_eq
theorem kep_temp2_eq : Gen.KS.kep_temp2 (temp0_4 := S.ipl s l) (temp1 := S.tk1 s l) = S.tk2 s l := by
  simp only [Gen.KS.kep_temp2, S.tk2, S.tk1, S.ipl, CK2] <;> stage_eq

theorem kep_rk_eq :
    Gen.KS.kep_rk (betal := Num.sqrt ((1 : ℝ) - l.elsq)) (cos2u := 2 * S.cosu s l nw ^ 2 - 1) (p_x1mth2 := p.x1mth2)
      (p_x3thm1 := p.x3thm1) (r := (shortPeriod p s l nw).r) (temp1 := S.tk1 s l) (temp2 := S.tk2 s l) =
      (shortPeriod p s l nw).rk := by
  simp only [Gen.KS.kep_rk, shortPeriod, S.cosu, S.tk1, S.tk2, S.ipl, CK2] <;> stage_eq
theorem kep_uk_eq :
    Gen.KS.kep_uk (p_x7thm1 := p.x7thm1) (sin2u := 2 * S.sinu s l nw * S.cosu s l nw) (temp2 := S.tk2 s l)
      (u := (shortPeriod p s l nw).u) = (shortPeriod p s l nw).theta := by
  simp only [Gen.KS.kep_uk, shortPeriod, S.cosu, S.sinu, S.tk1, S.tk2, S.ipl, CK2] <;> stage_eq
theorem kep_xnodek_eq :
    Gen.KS.kep_xnodek (p_cosIO := p.cosIO) (sin2u := 2 * S.sinu s l nw * S.cosu s l nw) (temp2 := S.tk2 s l)
      (xnode := s.xnode) = (shortPeriod p s l nw).ascn := by
  simp only [Gen.KS.kep_xnodek, shortPeriod, S.cosu, S.sinu, S.tk1, S.tk2, S.ipl, CK2] <;> stage_eq
theorem kep_xinc_eq :
    Gen.KS.kep_xinc (cos2u := 2 * S.cosu s l nw ^ 2 - 1) (p_cosIO := p.cosIO) (p_sinIO := p.sinIO) (p_xincl := p.xincl)
      (temp2 := S.tk2 s l) = (shortPeriod p s l nw).eqinc := by
  simp only [Gen.KS.kep_xinc, shortPeriod, S.cosu, S.tk1, S.tk2, S.ipl, CK2] <;> stage_eq
theorem kep_temp0_5_eq : Gen.KS.kep_temp0_5 (a := s.a) = Num.sqrt s.a := by
  simp only [Gen.KS.kep_temp0_5] <;> stage_eq
theorem kep_rdotk_eq :
    Gen.KS.kep_rdotk (a := s.a) (esinE := nw.esinE) (invR := 1 / (shortPeriod p s l nw).r) (p_x1mth2 := p.x1mth2)
      (sin2u := 2 * S.sinu s l nw * S.cosu s l nw) (temp0_5 := Num.sqrt s.a) (temp1 := S.tk1 s l) =
      (shortPeriod p s l nw).rdotk := by
  simp only [Gen.KS.kep_rdotk, shortPeriod, S.cosu, S.sinu, S.tk1, S.ipl, CK2, XKE, XKMPER, AE, XMNPDA] <;> stage_eq
theorem kep_rfdotk_eq :
    Gen.KS.kep_rfdotk (a := s.a) (cos2u := 2 * S.cosu s l nw ^ 2 - 1) (invR := 1 / (shortPeriod p s l nw).r)
      (p_x1mth2 := p.x1mth2) (p_x3thm1 := p.x3thm1) (pl := (shortPeriod p s l nw).pl) (temp0_5 := Num.sqrt s.a)
      (temp1 := S.tk1 s l) = (shortPeriod p s l nw).rfdotk := by
  simp only [Gen.KS.kep_rfdotk, shortPeriod, S.cosu, S.tk1, S.ipl, CK2, XKE, XKMPER, AE, XMNPDA] <;> stage_eq

/-- `_collect_return_values` and the value `propagate` returns -/
theorem kep_collect_radius_eq :
    Gen.KS.kep_collect_return_values_radius (rk := (shortPeriod p s l nw).rk) = (shortPeriod p s l nw).radius := by
  simp only [Gen.KS.kep_collect_return_values_radius, shortPeriod, XKMPER, AE] <;> stage_eq
theorem kep_collect_smjaxs_eq :
    Gen.KS.kep_collect_return_values_smjaxs (a := s.a) = (shortPeriod p s l nw).smjaxs := by
  simp only [Gen.KS.kep_collect_return_values_smjaxs, shortPeriod, XKMPER, AE] <;> stage_eq
theorem kep_collect_ecc_eq : Gen.KS.kep_collect_return_values_ecc (ecc := Num.sqrt l.elsq) = (shortPeriod p s l nw).ecc := by
  simp only [Gen.KS.kep_collect_return_values_ecc, shortPeriod] <;> stage_eq
theorem kep_collect_argp_eq : Gen.KS.kep_collect_return_values_argp (omega := s.omega) = (shortPeriod p s l nw).argp := by
  simp only [Gen.KS.kep_collect_return_values_argp, shortPeriod] <;> stage_eq
theorem kep_collect_alias (uk xinc xnodek rdotk rfdotk : ℝ) :
    Gen.KS.kep_collect_return_values_theta (uk := uk) = uk ∧ Gen.KS.kep_collect_return_values_eqinc (xinc := xinc) = xinc ∧
    Gen.KS.kep_collect_return_values_ascn (xnodek := xnodek) = xnodek ∧
    Gen.KS.kep_collect_return_values_rdotk (rdotk := rdotk) = rdotk ∧
    Gen.KS.kep_collect_return_values_rfdotk (rfdotk := rfdotk) = rfdotk := ⟨rfl, rfl, rfl, rfl, rfl⟩
theorem kep_out_alias (ecc radius theta eqinc ascn argp smjaxs rdotk rfdotk : ℝ) :
    Gen.KS.kep_out_ecc (collect_return_values_ecc := ecc) = ecc ∧
    Gen.KS.kep_out_radius (collect_return_values_radius := radius) = radius ∧
    Gen.KS.kep_out_theta (collect_return_values_theta := theta) = theta ∧
    Gen.KS.kep_out_eqinc (collect_return_values_eqinc := eqinc) = eqinc ∧
    Gen.KS.kep_out_ascn (collect_return_values_ascn := ascn) = ascn ∧
    Gen.KS.kep_out_argp (collect_return_values_argp := argp) = argp ∧
    Gen.KS.kep_out_smjaxs (collect_return_values_smjaxs := smjaxs) = smjaxs ∧
    Gen.KS.kep_out_rdotk (collect_return_values_rdotk := rdotk) = rdotk ∧
    Gen.KS.kep_out_rfdotk (collect_return_values_rfdotk := rfdotk) = rfdotk := ⟨rfl, rfl, rfl, rfl, rfl, rfl, rfl, rfl, rfl⟩

end shortp

/-! ## `calculate` chains the stages as the source does; the guards in source order -/
section outcome

/-- the model's `calculate`, with the values each guard and each stage group reads made explicit -/
theorem calculate_eq_stages {α : Type} [Num α] (p : Params α) (ts : α) :
    calculate p ts =
      let s := secular p ts
      if Num.lt s.a (1 : α) then .error .crashedA else
      if Num.lt s.e0 ECC_LIMIT_LOW then .error .eccLow else
      let l := longPeriod p s
      if Num.ge l.elsq (1 : α) then .error .elsqGe1 else
      let nw := newton l.axn l.ayn l.capu (Num.sqrt l.elsq)
      let k := shortPeriod p s l nw
      if Num.lt k.rk (1 : α) then .error .crashedRk else .ok k := rfl

variable (p : Params ℝ) (ts : ℝ)

def propLabel : Except PropErr (Kep ℝ) → String
  | .ok _ => "ok"
  | .error .notImplemented => "NotImplementedError:Deep space calculations not supported"
  | .error .crashedA => "Exception:Satellite crashed at time"
  | .error .eccLow => "ValueError:Satellite modified eccentricity too low"
  | .error .elsqGe1 => "Exception:e**2 >= 1 at"
  | .error .crashedRk => "Exception:Satellite crashed at time"

/-- what `propagate` does (returns, or which exception) is what the model says, guard by guard in the same order -/
theorem kep_outcome_eq :
    Gen.KS.kep_outcome (a := (secular p ts).a) (axn := (longPeriod p (secular p ts)).axn)
      (ayn := (longPeriod p (secular p ts)).ayn) (p_eo := p.eo)
      (rk := (shortPeriod p (secular p ts) (longPeriod p (secular p ts))
              (newton (longPeriod p (secular p ts)).axn (longPeriod p (secular p ts)).ayn (longPeriod p (secular p ts)).capu
                (Num.sqrt (longPeriod p (secular p ts)).elsq))).rk)
      (tempe := (secular p ts).tempe) (p_mode := modeCode p.mode) = propLabel (propagate p ts) := by
  have he0 : (secular p ts).e0 = p.eo - (secular p ts).tempe := rfl
  have hel := longPeriod_elsq p (secular p ts)
  simp only [propagate, calculate_eq_stages]
  generalize (shortPeriod p (secular p ts) (longPeriod p (secular p ts)) _) = k
  simp only [he0, hel]
  generalize (longPeriod p (secular p ts)).axn = axn
  generalize (longPeriod p (secular p ts)).ayn = ayn
  generalize (secular p ts).a = a
  generalize (secular p ts).tempe = tempe
  simp only [Gen.KS.kep_outcome, modeCode_ne_zero, modeCode_eq_norm]
  cases p.mode <;>
    simp only [show (Mode.nearSimp == Mode.nearNorm) = false from rfl, show (Mode.nearNorm == Mode.nearNorm) = true from rfl,
      Bool.not_false, Bool.not_true, Bool.false_eq_true, if_true, if_false, propLabel, apply_ite propLabel, Num.ge,
      ECC_LIMIT_LOW]
  kernel_bridge
  ring_nf
  split_ifs <;> first | rfl | contradiction

end outcome

/-! ## Orbital.get_position: the normalisation after `kep2xyz` -/
theorem gp_normalized_eq (pos vel : V3 ℝ) :
    Gen.KS.gp_normalized pos.x pos.y pos.z vel.x vel.y vel.z =
      [pos.x / XKMPER, pos.y / XKMPER, pos.z / XKMPER,
       vel.x / (XKMPER * XMNPDA / SECDAY), vel.y / (XKMPER * XMNPDA / SECDAY), vel.z / (XKMPER * XMNPDA / SECDAY)] := by
  simp only [Gen.KS.gp_normalized, XKMPER, XMNPDA, SECDAY] <;> stage_eq
theorem gp_raw_eq (pos vel : V3 ℝ) :
    Gen.KS.gp_raw pos.x pos.y pos.z vel.x vel.y vel.z = [pos.x, pos.y, pos.z, vel.x, vel.y, vel.z] := by
  simp only [Gen.KS.gp_raw] <;> stage_eq

/-- the model's `getPosition` is: `propagate`, `kep2xyz`, then exactly that normalisation -/
theorem getPosition_eq (p : Params ℝ) (ts : ℝ) (normalize : Bool) :
    getPosition p ts normalize =
      match propagate p ts with
      | .error e => .error e
      | .ok k =>
        if normalize then
          .ok (⟨(kep2xyz k).1.x / XKMPER, (kep2xyz k).1.y / XKMPER, (kep2xyz k).1.z / XKMPER⟩,
               ⟨(kep2xyz k).2.x / (XKMPER * XMNPDA / SECDAY), (kep2xyz k).2.y / (XKMPER * XMNPDA / SECDAY),
                (kep2xyz k).2.z / (XKMPER * XMNPDA / SECDAY)⟩)
        else .ok (kep2xyz k) := by
  unfold getPosition
  cases propagate p ts <;> rfl
end PV.Equiv.Sgp4Prop
