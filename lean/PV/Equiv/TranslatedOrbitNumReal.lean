/-
  PV.Equiv.TranslatedOrbitNumReal — tie T-D for C11: the arithmetic of the translated `Orbital.get_orbit_number`
  (`tle.orbit + dt / orbit_period + ndot * dt ** 2 + nddot * dt ** 3`, `int()`, `+ 1` for TBUS), read over ℝ, is the model
  `PV.OrbitNum.orbitNumber` the C11 theorems are about.  `dt` and the period are `astronomy._days` of the time differences
  with the loaded slot values (kernels: parameters).
-/
import PV.Equiv.TranslatedOrbitNum
import PV.Lemmas.C11Orbit

set_option linter.unusedSectionVars false

namespace PV.Equiv.TranslatedOrbitNumReal
open PV PV.Py PV.Gen.T PV.Cache PV.Equiv.TranslatedOrbitNum PV.OrbitNum

/-- the float operations of the translation, read over ℝ -/
noncomputable instance : FloatOps ℝ where
  ofInt i := (i : ℝ)
  intPow b e := (b : ℝ) ^ e
  mul a b := a * b
  sub a b := a - b

noncomputable instance : FloatArith ℝ where
  add a b := a + b
  div a b := a / b
  powNat x n := x ^ n
  abs x := |x|
  gt a b := decide (a > b)
  lt a b := decide (a < b)
  le a b := decide (a ≤ b)
  ge a b := decide (a ≥ b)
  max a b := if b > a then b else a
  min a b := if b < a then b else a
  lit m e := (m : ℝ) * (10 : ℝ) ^ e
  toInt x := if x < 0 then ⌈x⌉ else ⌊x⌋

variable {T TD TimeArg Vec : Type} [TimeOps T TD] [Inhabited TD] (k : Kernels ℝ T TD TimeArg Vec)

/-- `as_float=True`: the returned float is the model's `orbitNumber … tbus true` -/
theorem orbit_float_eq (self : Orbital.Self ℝ T) (utc : TimeArg) (tbus : Bool) (t : T) (p : TD) :
    (semFloat k self).orbit () (utc, tbus) t p =
      orbitNumber (self.tle_orbit : ℝ) (k.days (TimeOps.diff (k.toT utc) t)) (k.days p)
        self.tle_mean_motion_derivative self.tle_mean_motion_sec_derivative tbus true := by
  simp only [semFloat, TranslatedOrbitNum.orbitFloat, orbitNumber, OrbitNum.orbitFloat, FloatArith.add, FloatArith.div,
    FloatOps.mul, FloatOps.ofInt, FloatArith.powNat, r_add, r_mul, r_div, r_rpow, r_ofNat, if_true]
  cases tbus
  · simp only [Bool.false_eq_true, if_false, Real.rpow_natCast]
  · simp only [if_true, Real.rpow_natCast, Nat.cast_one, Int.cast_one]

/-- `as_float=False`: the returned int, as a real, is the model's `orbitNumber … tbus false` (`int()` truncates toward zero) -/
theorem orbit_int_eq (self : Orbital.Self ℝ T) (utc : TimeArg) (tbus : Bool) (t : T) (p : TD) :
    (((semInt k self).orbit () (utc, tbus) t p : Int) : ℝ) =
      orbitNumber (self.tle_orbit : ℝ) (k.days (TimeOps.diff (k.toT utc) t)) (k.days p)
        self.tle_mean_motion_derivative self.tle_mean_motion_sec_derivative tbus false := by
  have hf := orbit_float_eq k self utc false t p
  simp only [semFloat, orbitNumber, if_true, Bool.false_eq_true, if_false] at hf
  simp only [semInt, orbitNumber, Bool.false_eq_true, if_false, C11L.pyInt_real, FloatArith.toInt]
  rw [← hf]
  cases tbus <;> simp

end PV.Equiv.TranslatedOrbitNumReal
