/-
  PV.Equiv.TranslatedSources — tie T-D for C16 (source precedence): the translations of `_get_config_path`,
  `get_platforms_filepath`, `_get_local_tle_path_from_env`, `_get_uris_and_open_func` and the branch of `Tle._read_tle`
  are the model functions `PV.Sources.configPath / registryFrom / urisAndOpen / choose`, for every environment, every
  `exists()`/`glob()`/`getctime()` (parameters) and every `tle_file` argument.

  The model speaks about classes of situations (`Config`); `configOf` computes the class of a concrete situation
  (environment dict, isfile predicate, glob result with ctimes, `tle_file` value, which lines are given), and
  `realise` says which (uris, open_func) pair / exception each model `Source` stands for.
-/
import PV.Equiv.TranslatedInit
import PV.Model.Sources
set_option linter.unusedSimpArgs false
set_option linter.unusedVariables false
set_option linter.unusedSectionVars false

namespace PV.Equiv.TranslatedSources
open PV.Py PV.Gen.T PV.Sources PV.Equiv.TL

variable {IO : Type}

def kTLES : Str := ['T', 'L', 'E', 'S']
def kADMIN : Str := ['A', 'D', 'M', 'I', 'N', '_', 'M', 'E', 'S', 'S', 'A', 'G', 'E']
def kPPP : Str := ['P', 'P', 'P', '_', 'C', 'O', 'N', 'F', 'I', 'G', '_', 'D', 'I', 'R']
def kCFG : Str := ['P', 'Y', 'O', 'R', 'B', 'I', 'T', 'A', 'L', '_', 'C', 'O', 'N', 'F', 'I', 'G', '_', 'P', 'A', 'T', 'H']
def kPLAT : Str := ['p', 'l', 'a', 't', 'f', 'o', 'r', 'm', 's', '.', 't', 'x', 't']

example : kTLES = "TLES".toList ∧ kADMIN = "ADMIN_MESSAGE".toList ∧ kPPP = "PPP_CONFIG_DIR".toList ∧
    kCFG = "PYORBITAL_CONFIG_PATH".toList ∧ kPLAT = "platforms.txt".toList := by decide +kernel

/-! ### the class of a concrete situation -/

/-- the class of the `tle_file` argument -/
def tleFileOf : FileArg IO → TleFile
  | .none => .none
  | .io _ => .stringIO
  | .path s =>
    if s.isEmpty then .falsy
    else if Py.contains kADMIN s then .adminXml (String.ofList s)
    else .path (String.ofList s)

/-- `TLES` in the environment together with what `glob.glob` and `os.path.getctime` answer -/
def tlesOf (env : Dict Str Str) (glob : Str → List Str) (ctime : Str → Nat) : TlesEnv :=
  match dictGet? env kTLES with
  | none => .unset
  | some p => if p.isEmpty then .emptyString else .glob ((glob p).map fun f => (String.ofList f, ctime f))

def cfgPathOf (env : Dict Str Str) (join : Str → Str → Str) (isfile : Str → Bool) : CfgPathEnv :=
  match dictGet? env kCFG with
  | none => .unset
  | some d => if isfile (join d kPLAT) then .dirWithFile else .dirWithout

def configOf (env : Dict Str Str) (join : Str → Str → Str) (isfile : Str → Bool) (glob : Str → List Str)
    (ctime : Str → Nat) (tle_file : FileArg IO) (line1 line2 : Option Str) : Config :=
  { line1 := line1.isSome, line2 := line2.isSome, tleFile := tleFileOf tle_file, tles := tlesOf env glob ctime,
    cfgPath := cfgPathOf env join isfile, ppp := dictHas env kPPP }

/-! ### configuration directory and platforms file -/

/-- the directory a model `CfgDir` stands for -/
def dirOf (env : Dict Str Str) (pkg : Str) : CfgDir → Str
  | .pkg => pkg
  | .env _ => dictGetD env kCFG pkg

theorem get_config_path_eq (env : Dict Str Str) (pkg : Str) (join : Str → Str → Str) (isfile : Str → Bool)
    (glob : Str → List Str) (ctime : Str → Nat) (tf : FileArg IO) (a b : Option Str) :
    _get_config_path (os_environ := env) (PKG_CONFIG_DIR := pkg) = Except.ok (dirOf env pkg (configPath (configOf env join isfile glob ctime tf a b))) := by
  unfold _get_config_path configPath configOf cfgPathOf dirOf
  simp only [← kPPP.eq_def, ← kCFG.eq_def, dictHas, dictGetD]
  rcases Bool.eq_false_or_eq_true (dictGet? env kPPP).isSome with hp | hp <;>
  cases h2 : dictGet? env kCFG with
  | none => simp [hp, h2]
  | some d => rcases Bool.eq_false_or_eq_true (isfile (join d kPLAT)) with h4 | h4 <;> simp [hp, h2, h4]

/-- `get_platforms_filepath()`: the configured directory's platforms.txt when it is a file, else the packaged one
    (OSError when that is missing too: the model does not have this case) -/
theorem get_platforms_filepath_eq (env : Dict Str Str) (pkg : Str) (join : Str → Str → Str) (isfile : Str → Bool)
    (glob : Str → List Str) (ctime : Str → Nat) (tf : FileArg IO) (a b : Option Str) :
    get_platforms_filepath (os_environ := env) (PKG_CONFIG_DIR := pkg) (os_path_join := join) (os_path_isfile := isfile) =
      match registryFrom (configOf env join isfile glob ctime tf a b) with
      | .custom => Except.ok (join (dictGetD env kCFG pkg) kPLAT)
      | .packaged => if isfile (join pkg kPLAT) then Except.ok (join pkg kPLAT) else Except.error Exc.OSError := by
  unfold get_platforms_filepath
  rw [get_config_path_eq env pkg join isfile glob ctime tf a b]
  unfold registryFrom
  simp only [← kPLAT.eq_def, ok_bind, pure_eq, throw_eq]
  unfold configPath configOf cfgPathOf dirOf dictGetD dictHas
  rcases Bool.eq_false_or_eq_true (dictGet? env kPPP).isSome with hp | hp <;>
  rcases Bool.eq_false_or_eq_true (isfile (join pkg kPLAT)) with h3 | h3 <;>
  cases h2 : dictGet? env kCFG with
  | none => simp [hp, h2, h3]
  | some d => rcases Bool.eq_false_or_eq_true (isfile (join d kPLAT)) with h4 | h4 <;> simp [hp, h2, h3, h4]

/-! ### `_get_uris_and_open_func` -/

theorem maxLoop_map (ctime : Str → Nat) (x : Str) (xs : List Str) :
    pyMaxLoop (fun f : String × Nat => f.2) (String.ofList x, ctime x) (xs.map fun f => (String.ofList f, ctime f)) =
      (String.ofList (maxLoop ctime x xs), ctime (maxLoop ctime x xs)) := by
  induction xs generalizing x with
  | nil => rfl
  | cons y ys ih =>
    simp only [List.map_cons, pyMaxLoop, maxLoop]
    by_cases h : ctime x < ctime y <;> simp [h, ih]

/-- Python's `max(files, key=getctime)` as the prelude has it is the model's `pyMaxBy` -/
theorem maxByKey_eq (ctime : Str → Nat) (l : List Str) :
    maxByKey ctime l =
      match pyMaxBy (fun f : String × Nat => f.2) (l.map fun f => (String.ofList f, ctime f)) with
      | some f => Except.ok f.1.toList
      | none => Except.error Exc.ValueError := by
  cases l with
  | nil => rfl
  | cons x xs => simp [maxByKey, pyMaxBy, maxLoop_map, String.toList_ofList]

/-- the (uris, open_func) pair, or the exception, that each model `Source` stands for -/
def realise (readxml : Str → M Str) (sio : Str → IO) (urls : List Str) (tle_file : FileArg IO) :
    Source → M (List (FileArg IO) × FnRef)
  | .lines => Except.error Exc.unmodelled                      -- `_get_uris_and_open_func` is not called
  | .stream => Except.ok ([tle_file], FnRef._dummy_open_stringio)
  | .xml p => readxml p.toList >>= fun t => Except.ok ([FileArg.io (sio t)], FnRef._dummy_open_stringio)
  | .path p => Except.ok ([FileArg.path p.toList], FnRef._open)
  | .newestByCtime p => Except.ok ([FileArg.path p.toList], FnRef._open)
  | .network => Except.ok (urls.map FileArg.path, FnRef.urlopen)
  | .error => Except.error Exc.ValueError                      -- `max([])`

/-- **C16 tie.**  `_get_uris_and_open_func(tle_file)` as the source has it now is the model's `urisAndOpen` on the
    class of the situation: a truthy `tle_file` first (stream / admin-message XML / path), else a non-empty `TLES`
    (newest by ctime, first of equals; ValueError when the pattern matches nothing), else the network. -/
theorem get_uris_and_open_func_eq (env : Dict Str Str) (readxml : Str → M Str) (sio : Str → IO) (glob : Str → List Str)
    (ctime : Str → Nat) (urls : List Str) (tle_file : FileArg IO) :
    _get_uris_and_open_func (os_environ := env) (read_tle_from_mmam_xml_file := readxml) (io_StringIO := sio) (glob_glob := glob) (os_path_getctime := ctime) (TLE_URLS := urls) tle_file =
      realise readxml sio urls tle_file (urisAndOpen (tleFileOf tle_file) (tlesOf env glob ctime)) := by
  unfold _get_uris_and_open_func _get_local_tle_path_from_env urisAndOpen tleFileOf tlesOf
  simp only [← kTLES.eq_def, ← kADMIN.eq_def, pure_eq, ok_bind]
  cases tle_file with
  | io f => simp [truthy, FileArg.isIO, realise]
  | path s =>
    rcases Bool.eq_false_or_eq_true s.isEmpty with he | he
    · simp only [truthy, he, Bool.not_true, Bool.false_eq_true, if_false, if_true]
      cases hT : dictGet? env kTLES with
      | none => simp [hT, realise, truthy]
      | some p =>
        rcases Bool.eq_false_or_eq_true p.isEmpty with hp | hp
        · simp [hT, hp, realise, truthy]
        · simp only [hT, hp, truthy, Bool.not_false, if_true, need_some, ok_bind, maxByKey_eq, Bool.false_eq_true, if_false]
          cases pyMaxBy (fun f : String × Nat => f.2) ((glob p).map fun f => (String.ofList f, ctime f)) with
          | none => simp [realise]
          | some f => simp [realise, Py.index]
    · rcases Bool.eq_false_or_eq_true (Py.contains kADMIN s) with hc | hc
      · simp [truthy, he, hc, FileArg.isIO, strInFileArg, realise, FileArg.asPath, String.toList_ofList]
      · simp [truthy, he, hc, FileArg.isIO, strInFileArg, realise, String.toList_ofList]
  | none =>
    simp only [truthy, Bool.false_eq_true, if_false]
    cases hT : dictGet? env kTLES with
    | none => simp [hT, realise, truthy]
    | some p =>
      rcases Bool.eq_false_or_eq_true p.isEmpty with hp | hp
      · simp [hT, hp, realise, truthy]
      · simp only [hT, hp, truthy, Bool.not_false, if_true, need_some, ok_bind, maxByKey_eq, Bool.false_eq_true, if_false]
        cases pyMaxBy (fun f : String × Nat => f.2) ((glob p).map fun f => (String.ofList f, ctime f)) with
        | none => simp [realise]
        | some f => simp [realise, Py.index]

/-! ### `Tle._read_tle`: the given lines win only when BOTH are given -/

variable {F T : Type}

/-- both lines given: the model chooses `.lines`, the real code never looks at `tle_file`, `TLES` or the network
    (`TranslatedInit.read_tle_lines` says what it does with the lines) -/
theorem choose_lines (env : Dict Str Str) (join : Str → Str → Str) (isfile : Str → Bool) (glob : Str → List Str)
    (ctime : Str → Nat) (tf : FileArg IO) (l1 l2 : Str) :
    choose (configOf env join isfile glob ctime tf (some l1) (some l2)) = Source.lines := rfl

/-- a line is missing: the source is the model's `choose`, realised through `_get_uris_and_open_func`; then
    `_get_first_tle` on it; an empty answer is KeyError; the entry is split at "\n" into exactly two lines -/
theorem read_tle_choose (env : Dict Str Str) (join : Str → Str → Str) (isfile : Str → Bool) (readxml : Str → M Str)
    (sio : Str → IO) (glob : Str → List Str) (ctime : Str → Nat) (urls : List Str)
    (gf : List (FileArg IO) → FnRef → Str → M Str) (self : Tle.Self F IO T)
    (h : self._line1 = none ∨ self._line2 = none) :
    Tle._read_tle (get_uris_and_open_func := _get_uris_and_open_func (os_environ := env) (read_tle_from_mmam_xml_file := readxml) (io_StringIO := sio) (glob_glob := glob) (os_path_getctime := ctime) (TLE_URLS := urls)) (get_first_tle := gf) self =
      (realise readxml sio urls self._tle_file
          (choose (configOf env join isfile glob ctime self._tle_file self._line1 self._line2)) >>= fun uo =>
        gf uo.1 uo.2 self._platform >>= fun tle =>
          if tle.isEmpty then Except.error Exc.KeyError else
          Py.unpack2 (Py.splitChar '\n' tle) >>= fun p =>
            Except.ok { self with _line1 := some p.1, _line2 := some p.2 }) := by
  rw [TranslatedInit.read_tle_source _ gf self h, get_uris_and_open_func_eq]
  have hc : choose (configOf env join isfile glob ctime self._tle_file self._line1 self._line2) =
      urisAndOpen (tleFileOf self._tle_file) (tlesOf env glob ctime) := by
    unfold choose configOf
    rcases h with h | h <;> simp [h]
  rw [hc]

end PV.Equiv.TranslatedSources
