/-
  PV.Equiv.TranslatedOrbitNum — tie T-D for C18 and C11: the translation of `Orbital.get_orbit_number`
  (PV/Generated/Translated.lean; the `try: ... except AttributeError:` lazy initialisation of
  `orbit_elements.an_time` / `.an_period`) performs exactly the loads and stores of the small-step cache model
  `PV.Cache` (one call alone on an object, from every state of the two slots), in the same order, through the same store
  statement, with the same values, and returns the model's result; its arithmetic is `PV.OrbitNum.orbitNumber` over ℝ.

  The numeric kernels are parameters (total here): `get_position`, `get_last_an_time`, `np.datetime64`,
  `astronomy._days`, `v[i]`; float and time arithmetic is uninterpreted (`FloatOps`, `FloatArith`, `TimeOps`).
  As parameters, `get_position` and `get_last_an_time` cannot touch the two slots: that they do not is what makes every
  other query a silent step of the model.
-/
import PV.Equiv.TranslatedLemmas
import PV.Generated.Translated
import PV.Lemmas.C18Run
import Lean
set_option linter.unusedVariables false
set_option linter.unusedSectionVars false

namespace PV.Equiv.TranslatedOrbitNum
open PV.Py PV.Gen.T PV.Cache

open Lean Elab Tactic Meta in
/-- close `a = b` by `Eq.refl a`, leaving the definitional-equality check to the kernel: the two sides are closed
    computations (a straight-line run of the translated function and ten steps of the model) which the kernel evaluates in
    milliseconds where the elaborator's `rfl` times out.  No axioms: if the sides differ the declaration is rejected. -/
elab "kernel_rfl" : tactic => do
  let g ← getMainGoal
  let t ← g.getType'
  let some (_, lhs, _) := t.eq? | throwError "kernel_rfl: the goal is not an equality"
  g.assign (← mkEqRefl lhs)

/-! ### evaluating the heap monad `MS` -/
section ms
variable {σ α β ρ : Type}
theorem ms_bind (x : MS σ α) (f : α → MS σ β) (s : σ) :
    (x >>= f) s = match x s with
      | (Except.ok a, s') => f a s'
      | (Except.error e, s') => (Except.error e, s') := rfl
theorem ms_pure (a : α) (s : σ) : (pure a : MS σ α) s = (Except.ok a, s) := rfl
theorem ms_throw (e : Exc) (s : σ) : (throw e : MS σ α) s = (Except.error e, s) := rfl
theorem ms_tryCatch (x : MS σ α) (h : Exc → MS σ α) (s : σ) :
    (tryCatch x h) s = match x s with
      | (Except.ok a, s') => (Except.ok a, s')
      | (Except.error e, s') => h e s' := rfl
theorem ms_lift (x : Except Exc α) (s : σ) : (liftM x : MS σ α) s = (x, s) := rfl
theorem ms_monadLift (x : Except Exc α) (s : σ) : (monadLift x : MS σ α) s = (x, s) := rfl
theorem ms_lift_ok_bind (a : α) (f : α → MS σ β) : (liftM (Except.ok a : Except Exc α) >>= f) = f a := by
  funext s; rfl
theorem stateT_pure_ms (a : α) (r : ρ) : (pure a : StateT ρ (MS σ) α) r = (pure (a, r) : MS σ (α × ρ)) := rfl
end ms

/-! ### one call alone in the cache model, thread-level -/
section solo
variable {E A T P R : Type}

/-- one call alone: `n` steps of its thread (slots, program counter, trace) -/
def solo (sem : Sem E A T P R) (e : E) (a : A) :
    Nat → Shared T P × PC T P R × List (Event T P) → Shared T P × PC T P R × List (Event T P)
  | 0, x => x
  | n + 1, (sh, pc, tr) =>
    let r := stepThread sem e 0 sh ⟨Kind.orbit, a, pc⟩
    solo sem e a n (r.1, r.2.1, tr ++ r.2.2.toList)

theorem run_solo (sem : Sem E A T P R) (e : E) (a : A) :
    ∀ (n : Nat) (sh : Shared T P) (pc : PC T P R) (tr : List (Event T P)),
    run sem ⟨e, sh, [⟨Kind.orbit, a, pc⟩], tr⟩ (List.replicate n 0) =
      ⟨e, (solo sem e a n (sh, pc, tr)).1, [⟨Kind.orbit, a, (solo sem e a n (sh, pc, tr)).2.1⟩],
        (solo sem e a n (sh, pc, tr)).2.2⟩
  | 0, sh, pc, tr => rfl
  | n + 1, sh, pc, tr => by
    rw [List.replicate_succ, PV.C18.run_cons]
    have : step sem ⟨e, sh, [⟨Kind.orbit, a, pc⟩], tr⟩ 0 =
        ⟨e, (stepThread sem e 0 sh ⟨Kind.orbit, a, pc⟩).1,
          [⟨Kind.orbit, a, (stepThread sem e 0 sh ⟨Kind.orbit, a, pc⟩).2.1⟩],
          tr ++ (stepThread sem e 0 sh ⟨Kind.orbit, a, pc⟩).2.2.toList⟩ := by
      simp [step]
    rw [this, run_solo sem e a n]
    rfl
end solo

variable {F T TD TimeArg Vec : Type} [FloatOps F] [FloatArith F] [TimeOps T TD] [Inhabited F] [Inhabited TD]

/-- the kernels the code calls, as total functions -/
structure Kernels (F T TD TimeArg Vec : Type) where
  days : TD → F
  lastAn : T → T
  pos : T → Vec
  vel : T → Vec
  toT : TimeArg → T
  get : Vec → Int → F

variable (k : Kernels F T TD TimeArg Vec)

/-- `not (np.abs(pos_epoch[2]) > 1 or not vel_epoch[2] > 0)` -/
def atNode (self : Orbital.Self F T) : Bool :=
  !(FloatArith.gt (FloatArith.abs (k.get (k.pos self.tle_epoch) 2)) (FloatOps.ofInt 1) ||
    !(FloatArith.gt (k.get (k.vel self.tle_epoch) 2) (FloatOps.ofInt 0)))

/-- `node_shift`, computed in the branch that stores `an_time` -/
def nodeShift (self : Orbital.Self F T) : TD :=
  if atNode k self then
    TimeOps.diff (k.lastAn (TimeOps.add self.tle_epoch (TimeOps.td (T := T) 10 "m" : TD))) self.tle_epoch
  else TimeOps.td (T := T) 0 "us"

/-- `tle.orbit + dt / orbit_period + ndot * dt ** 2 + nddot * dt ** 3` -/
def orbitFloat (self : Orbital.Self F T) (utc : T) (t : T) (p : TD) : F :=
  let dt := k.days (TimeOps.diff utc t)
  let per := k.days p
  FloatArith.add (FloatArith.add (FloatArith.add (FloatOps.ofInt self.tle_orbit) (FloatArith.div dt per))
    (FloatOps.mul self.tle_mean_motion_derivative (FloatArith.powNat dt 2)))
    (FloatOps.mul self.tle_mean_motion_sec_derivative (FloatArith.powNat dt 3))

/-- what the code computes on the object `self` (its TLE attributes and the kernels are "everything a query reads
    besides its arguments and the two slots": the model's `E` is `Unit` here), `as_float=True` -/
def semFloat (self : Orbital.Self F T) : Sem Unit (TimeArg × Bool) T TD F where
  atNode := fun _ => atNode k self
  epoch := fun _ => self.tle_epoch
  lastAn := fun _ => k.lastAn self.tle_epoch
  period := fun _ t1 t2 =>
    TimeOps.diff (TimeOps.add t1 (nodeShift k self))
      (k.lastAn (TimeOps.sub (TimeOps.add t2 (nodeShift k self)) (TimeOps.td (T := T) 10 "m" : TD)))
  orbit := fun _ a t p =>
    let o := orbitFloat k self (k.toT a.1) t p
    if a.2 then FloatArith.add o (FloatOps.ofInt 1) else o
  other := fun _ _ => default

/-- `as_float=False`: `int(orbit)`, then `+ 1` on the int -/
def semInt (self : Orbital.Self F T) : Sem Unit (TimeArg × Bool) T TD Int where
  atNode := fun _ => atNode k self
  epoch := fun _ => self.tle_epoch
  lastAn := fun _ => k.lastAn self.tle_epoch
  period := fun _ t1 t2 =>
    TimeOps.diff (TimeOps.add t1 (nodeShift k self))
      (k.lastAn (TimeOps.sub (TimeOps.add t2 (nodeShift k self)) (TimeOps.td (T := T) 10 "m" : TD)))
  orbit := fun _ a t p =>
    let o := FloatArith.toInt (orbitFloat k self (k.toT a.1) t p)
    if a.2 then o + 1 else o
  other := fun _ _ => default

/-- the model's events in the translation's vocabulary: the store of `an_time` names its statement (0: the branch
    `an_time = get_last_an_time(epoch)`, 1: the branch `an_time = epoch`) -/
def evOf : Event T TD → Orbital.Ev T TD
  | .loadT _ v => .load_an_time v
  | .loadP _ v => .load_an_period v
  | .storeT _ atNode v => .store_an_time (if atNode then 1 else 0) v
  | .storeP _ v => .store_an_period 0 v

/-- one call alone on an object whose slots are `sh`, in the model: result, slots afterwards, trace -/
def modelCall {R : Type} (sem : Sem Unit (TimeArg × Bool) T TD R)
    (sh : Shared T TD) (a : TimeArg × Bool) : Except Exc R × Orbital.Heap T TD :=
  let s := run sem (start () sh [(Kind.orbit, a)]) (List.replicate maxSteps 0)
  (match resultOf s 0 with
   | some r => Except.ok r
   | none => Except.error Exc.AttributeError,
   ⟨s.sh.anTime, s.sh.anPeriod, s.trace.map evOf⟩)

theorem modelCall_solo {R : Type} (sem : Sem Unit (TimeArg × Bool) T TD R)
    (sh : Shared T TD) (a : TimeArg × Bool) :
    modelCall sem sh a =
      (match (solo sem () a 10 (sh, PC.tryT, [])).2.1 with
       | .done r => Except.ok r
       | _ => Except.error Exc.AttributeError,
       ⟨(solo sem () a 10 (sh, PC.tryT, [])).1.anTime, (solo sem () a 10 (sh, PC.tryT, [])).1.anPeriod,
        (solo sem () a 10 (sh, PC.tryT, [])).2.2.map evOf⟩) := by
  unfold modelCall start
  simp only [List.map, mkThread, initPC, maxSteps, run_solo, resultOf]
  cases (solo sem () a 10 (sh, PC.tryT, [])).2.1 <;> rfl

/-- **C18 tie.**  `get_orbit_number(utc_time, tbus_style, as_float=True)` as the source has it now, run on an object whose two
    slots are in ANY state: the loads and stores of the cache model in the model's order, the model's slots afterwards,
    the model's result. -/
theorem get_orbit_number_float_eq (self : Orbital.Self F T) (sh : Shared T TD) (utc : TimeArg) (tbus : Bool) :
    Orbital.get_orbit_number__as_float_True (astronomy_days := k.days)
        (get_last_an_time := fun t => Except.ok (k.lastAn t)) (get_position := fun t => Except.ok (k.pos t, k.vel t))
        (np_datetime64 := fun a => Except.ok (k.toT a)) (vec_get := k.get) self utc tbus ⟨sh.anTime, sh.anPeriod, []⟩ =
      modelCall (semFloat k self) sh (utc, tbus) := by
  rw [modelCall_solo]
  obtain ⟨t, p⟩ := sh
  unfold Orbital.get_orbit_number__as_float_True semFloat nodeShift atNode
  simp only [ms_lift_ok_bind]
  generalize FloatArith.gt (FloatArith.abs (k.get (k.pos self.tle_epoch) 2)) (FloatOps.ofInt 1) = c
  generalize FloatArith.gt (k.get (k.vel self.tle_epoch) 2) (FloatOps.ofInt 0) = d
  cases t <;> cases p <;> cases tbus <;> cases c <;> cases d <;> kernel_rfl

/-- the same for `as_float=False` (`int(orbit)`, TBUS adds 1 to the int) -/
theorem get_orbit_number_int_eq (self : Orbital.Self F T) (sh : Shared T TD) (utc : TimeArg) (tbus : Bool) :
    Orbital.get_orbit_number__as_float_False (astronomy_days := k.days)
        (get_last_an_time := fun t => Except.ok (k.lastAn t)) (get_position := fun t => Except.ok (k.pos t, k.vel t))
        (np_datetime64 := fun a => Except.ok (k.toT a)) (vec_get := k.get) self utc tbus ⟨sh.anTime, sh.anPeriod, []⟩ =
      modelCall (semInt k self) sh (utc, tbus) := by
  rw [modelCall_solo]
  obtain ⟨t, p⟩ := sh
  unfold Orbital.get_orbit_number__as_float_False semInt nodeShift atNode
  simp only [ms_lift_ok_bind]
  generalize FloatArith.gt (FloatArith.abs (k.get (k.pos self.tle_epoch) 2)) (FloatOps.ofInt 1) = c
  generalize FloatArith.gt (k.get (k.vel self.tle_epoch) 2) (FloatOps.ofInt 0) = d
  cases t <;> cases p <;> cases tbus <;> cases c <;> cases d <;> kernel_rfl

/-! ### consequences through the theorems of the cache model (C18) -/

/-- `modelCall` is the model's `callOn` (one call alone on an object whose slots are `sh`) -/
theorem modelCall_callOn {R : Type} (sem : Sem Unit (TimeArg × Bool) T TD R) (sh : Shared T TD) (a : TimeArg × Bool) :
    ((modelCall sem sh a).2.an_time, (modelCall sem sh a).2.an_period) =
        ((callOn sem () sh (Kind.orbit, a)).1.anTime, (callOn sem () sh (Kind.orbit, a)).1.anPeriod) ∧
      (modelCall sem sh a).1 = (match (callOn sem () sh (Kind.orbit, a)).2 with
        | some r => Except.ok r | none => Except.error Exc.AttributeError) := by
  constructor <;> kernel_rfl

/-- On an object whose slots are empty or canonical (`SlotsOK`: what any history of calls leaves), the real
    `get_orbit_number` returns the closed form `sem.answer` (a function of the TLE and the arguments only): no
    AttributeError escapes, whatever was called before. -/
theorem get_orbit_number_float_answer (self : Orbital.Self F T) (sh : Shared T TD) (utc : TimeArg) (tbus : Bool)
    (hs : PV.C18.SlotsOK (semFloat k self) () sh) :
    (Orbital.get_orbit_number__as_float_True (astronomy_days := k.days)
        (get_last_an_time := fun t => Except.ok (k.lastAn t)) (get_position := fun t => Except.ok (k.pos t, k.vel t))
        (np_datetime64 := fun a => Except.ok (k.toT a)) (vec_get := k.get) self utc tbus ⟨sh.anTime, sh.anPeriod, []⟩).1 =
      Except.ok ((semFloat k self).answer () (Kind.orbit, (utc, tbus))) := by
  rw [get_orbit_number_float_eq, (modelCall_callOn _ _ _).2, (PV.C18.callOn_ok _ _ _ _ hs).1]

end PV.Equiv.TranslatedOrbitNum
