/-
  PV.Equiv.TranslatedLemmas — facts about the Python prelude (PV/Py/Prelude.lean) used by the T-D equivalence proofs
  PV/Equiv/Translated*.lean: evaluation of the `Except Exc` monad, the ASCII part of the generated Unicode character
  classes, slices and indices with the literal bounds the source uses.
-/
import PV.Py.Prelude
import PV.Model.Text

namespace PV.Equiv.TL
open PV.Py PV.Text

deriving instance DecidableEq for Except

/-! ### evaluating `Except Exc` -/
section monad
variable {α β : Type}
@[simp] theorem ok_bind (a : α) (f : α → M β) : (Except.ok a >>= f) = f a := rfl
@[simp] theorem error_bind (e : Exc) (f : α → M β) : ((Except.error e : M α) >>= f) = Except.error e := rfl
@[simp] theorem pure_eq (a : α) : (pure a : M α) = Except.ok a := rfl
@[simp] theorem throw_eq (e : Exc) : (throw e : M α) = Except.error e := rfl
@[simp] theorem tryCatch_ok (a : α) (h : Exc → M α) : (tryCatch (Except.ok a : M α) h) = Except.ok a := rfl
@[simp] theorem tryCatch_error (e : Exc) (h : Exc → M α) : (tryCatch (Except.error e : M α) h) = h e := rfl
@[simp] theorem need_some (a : α) : need (some a) = Except.ok a := rfl
@[simp] theorem need_none : need (none : Option α) = Except.error Exc.TypeError := rfl
@[simp] theorem needAttr_some (a : α) : needAttr (some a) = Except.ok a := rfl
@[simp] theorem needAttr_none : needAttr (none : Option α) = Except.error Exc.AttributeError := rfl
end monad

/-! ### the ASCII part of the generated character classes -/

def Ascii (s : Str) : Prop := ∀ c ∈ s, c.toNat < 128

theorem isspaceN_ascii : ∀ n < 128, isspaceN n =
    (n = 32 || n = 9 || n = 10 || n = 13 || n = 11 || n = 12 || n = 28 || n = 29 || n = 30 || n = 31) := by
  decide +kernel

theorem decimalValueN_ascii : ∀ n < 128, decimalValueN n = if 48 ≤ n ∧ n ≤ 57 then some (n - 48) else none := by
  decide +kernel

theorem isdigitN_ascii : ∀ n < 128, isdigitN n = decide (48 ≤ n ∧ n ≤ 57) := by
  decide +kernel

theorem isIntSpaceN_not_decimal : ∀ n, isIntSpaceN n = true → decimalValueN n = none := by
  intro n h
  have hall : Gen.U.intWhitespace.all (fun n => decimalValueN n = none) = true := by decide +kernel
  rw [List.all_eq_true] at hall
  have := hall n (by simpa [isIntSpaceN] using h)
  simpa using this

private theorem char_eq_of_toNat {c d : Char} (h : c.toNat = d.toNat) : c = d := by
  apply Char.ext; apply UInt32.toNat_inj.mp; exact h

theorem isspace_ascii {c : Char} (h : c.toNat < 128) : isspace c = isPyWs c := by
  have h1 := isspaceN_ascii c.toNat h
  unfold isspace
  rw [h1]
  unfold isPyWs
  have e : ∀ d : Char, (c = d) = (c.toNat = d.toNat) := fun d =>
    propext ⟨fun h => h ▸ rfl, char_eq_of_toNat⟩
  simp only [e]
  have : ' '.toNat = 32 ∧ '\t'.toNat = 9 ∧ '\n'.toNat = 10 ∧ '\r'.toNat = 13 ∧ '\x0b'.toNat = 11 ∧ '\x0c'.toNat = 12 ∧
    '\x1c'.toNat = 28 ∧ '\x1d'.toNat = 29 ∧ '\x1e'.toNat = 30 ∧ '\x1f'.toNat = 31 := by decide
  simp only [this]

theorem decimalValue_asciiDigit {c : Char} (h : isAsciiDigit c = true) : decimalValue c = some (digitVal c) := by
  simp only [isAsciiDigit, decide_eq_true_eq] at h
  unfold decimalValue digitVal
  rw [decimalValueN_ascii _ (by omega)]
  simp [h]

theorem isdigitChar_ascii {c : Char} (h : c.toNat < 128) : isdigitChar c = isAsciiDigit c := by
  unfold isdigitChar isAsciiDigit
  exact isdigitN_ascii _ h

theorem decimalValue_ascii {c : Char} (h : c.toNat < 128) :
    decimalValue c = if isAsciiDigit c then some (digitVal c) else none := by
  unfold decimalValue isAsciiDigit digitVal
  rw [decimalValueN_ascii _ h]
  simp

/-! ### slices, indices, `int`, `%` with the literal arguments the source uses -/

theorem slice_to_neg1 {α : Type} (l : List α) : Py.slice l none (some (-1)) = l.dropLast := by
  simp only [Py.slice, bound, List.drop_zero, List.dropLast_eq_take]
  congr 1
  simp only [show ((-1 : Int) < 0) from by decide, if_true]
  omega

theorem index_neg1 {α : Type} (l : List α) :
    Py.index l (-1) = match l.getLast? with | some d => Except.ok d | none => Except.error Exc.IndexError := by
  unfold Py.index
  cases l with
  | nil => simp
  | cons a t =>
    have h : ((-1 : Int) + ((a :: t).length : Nat)).toNat = (a :: t).length - 1 := by omega
    have h0 : ¬ ((-1 : Int) + ((a :: t).length : Nat) < 0) := by simp only [List.length_cons]; omega
    simp only [show ((-1 : Int) < 0) from by decide, if_true, h0, if_false, h]
    rw [List.getLast?_eq_getElem?]
    rfl

theorem mod_natCast (k : Nat) : Py.mod (k : Int) 10 = Except.ok ((k % 10 : Nat) : Int) := by
  simp only [Py.mod, show ¬ ((10 : Int) = 0) by decide, if_false, pure_eq]
  congr 1
  rw [Int.fmod_eq_emod_of_nonneg _ (by decide)]
  omega

theorem int_singleton (c : Char) :
    Py.int [c] = match decimalValue c with | some v => Except.ok (v : Int) | none => Except.error Exc.ValueError := by
  unfold Py.int
  by_cases hs : isIntSpace c = true
  · have hd : decimalValue c = none := isIntSpaceN_not_decimal _ hs
    simp [hs, hd, intDigits]
  · have hs' : isIntSpace c = false := by simpa using hs
    simp only [List.dropWhile_cons, hs', List.dropWhile_nil, List.reverse_cons, List.reverse_nil, List.nil_append, Bool.false_eq_true, if_false]
    by_cases hm : c = '-'
    · subst hm
      have : decimalValue '-' = none := by decide +kernel
      simp [this, intDigits]
    by_cases hp : c = '+'
    · subst hp
      have : decimalValue '+' = none := by decide +kernel
      simp [this, intDigits]
    by_cases hu : c = '_'
    · subst hu
      have : decimalValue '_' = none := by decide +kernel
      simp [this, intDigits]
    · cases hd : decimalValue c with
      | none => simp [intDigits, hu, hd, hm, hp]
      | some v => simp [intDigits, hu, hd, hm, hp, intMaxStrDigits]

/-! ### `strip` and `split` -/

theorem dropWhile_congr_mem {α : Type} {p q : α → Bool} : ∀ {l : List α}, (∀ x ∈ l, p x = q x) → l.dropWhile p = l.dropWhile q
  | [], _ => rfl
  | x :: xs, h => by
    have hx := h x (by simp)
    simp only [List.dropWhile_cons, hx]
    cases q x
    · rfl
    · exact dropWhile_congr_mem (fun y hy => h y (by simp [hy]))

theorem lstrip_eq_dropWhile : ∀ l : List Char, lstrip l = l.dropWhile isPyWs
  | [] => rfl
  | c :: cs => by
    simp only [lstrip, List.dropWhile_cons]
    cases isPyWs c
    · rfl
    · simp [lstrip_eq_dropWhile cs]

theorem ascii_dropWhile {p : Char → Bool} {l : List Char} (h : Ascii l) : Ascii (l.dropWhile p) :=
  fun c hc => h c ((List.dropWhile_sublist p).subset hc)

theorem ascii_reverse {l : List Char} (h : Ascii l) : Ascii l.reverse := fun c hc => h c (List.mem_reverse.mp hc)

/-- on ASCII text Python's `strip()` is the model's -/
theorem strip_ascii {l : List Char} (h : Ascii l) : Py.strip l = Text.strip l := by
  unfold Py.strip Text.strip rstrip
  rw [lstrip_eq_dropWhile, lstrip_eq_dropWhile]
  have e1 : l.dropWhile isspace = l.dropWhile isPyWs := dropWhile_congr_mem (fun c hc => isspace_ascii (h c hc))
  rw [e1]
  have h2 : Ascii (l.dropWhile isPyWs).reverse := ascii_reverse (ascii_dropWhile h)
  rw [dropWhile_congr_mem (fun c hc => isspace_ascii (h2 c hc))]

theorem ascii_strip {l : List Char} (h : Ascii l) : Ascii (Text.strip l) := by
  unfold Text.strip rstrip
  rw [lstrip_eq_dropWhile, lstrip_eq_dropWhile]
  exact ascii_reverse (ascii_dropWhile (ascii_reverse (ascii_dropWhile h)))

theorem splitChar_no_sep {sep : Char} : ∀ {a : List Char}, sep ∉ a → splitChar sep a = [a]
  | [], _ => rfl
  | c :: cs, h => by
    have hc : c ≠ sep := fun e => h (by simp [e])
    have := splitChar_no_sep (sep := sep) (a := cs) (fun hm => h (by simp [hm]))
    simp [splitChar, hc, this]

/-- `(a + sep + b).split(sep)` when neither part contains the separator -/
theorem splitChar_two {sep : Char} : ∀ {a b : List Char}, sep ∉ a → sep ∉ b → splitChar sep (a ++ sep :: b) = [a, b]
  | [], b, _, hb => by simp [splitChar, splitChar_no_sep hb]
  | c :: cs, b, ha, hb => by
    have hc : c ≠ sep := fun e => ha (by simp [e])
    have := splitChar_two (sep := sep) (a := cs) (b := b) (fun hm => ha (by simp [hm])) hb
    simp [splitChar, hc, this]
end PV.Equiv.TL
