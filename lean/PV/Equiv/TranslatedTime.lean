/-
  PV.Equiv.TranslatedTime — tie T-D for C08 / C12: the translations of `pyorbital.dt2np`, `astronomy._days`,
  `astronomy.jdays2000`, `astronomy.jdays`, `astronomy._float_to_sibling_result`, `orbital._get_tz_unaware_utctime` and
  `Orbital.utc2local` against the models `PV.Kinds` (which branch for which kind of value) and `PV.Time` (the integer
  tick arithmetic in each branch).

  The translated code runs on the tagged values `Np.Val` of the prelude (what kind of object a value is, its unit /
  dtype, shape and tick counts); the float operations (`int -> double`, `/`, `+`, the literal `2451545.0`) are read in
  the model's `Num α`.
-/
import PV.Equiv.TranslatedLemmas
import PV.Generated.Translated
import PV.Model.Kinds
import PV.Model.Look
set_option linter.unusedVariables false
set_option linter.unusedSectionVars false
set_option linter.unusedSimpArgs false

namespace PV.Equiv.TranslatedTime
open PV PV.Py PV.Gen.T PV.Equiv.TL

variable {α : Type} [Num α]

/-- the float operations of the translation read in the model's `Num α` -/
instance : FloatOps α where
  ofInt := Time.ofInt
  intPow _ _ := Num.ofNat 0
  mul a b := a * b
  sub a b := a - b

instance : FloatArith α where
  add a b := a + b
  div a b := a / b
  powNat x n := Num.rpow x (Num.ofNat n)
  abs := Num.abs
  gt a b := Num.lt b a
  lt a b := Num.lt a b
  le a b := Num.le a b
  ge a b := Num.le b a
  max := Num.max
  min := Num.min
  lit m e := if e < 0 then OfScientific.ofScientific m true (-e).toNat else OfScientific.ofScientific m false e.toNat
  toInt _ := 0

/-- the numpy name of a unit of the model -/
def unitStr : Time.Unit → Str
  | .ns => ['n', 's']
  | .us => ['u', 's']
  | .ms => ['m', 's']
  | .s => ['s']
  | .m => ['m']

/-! ### lists -/

theorem mapM_ok {β γ : Type} (f : β → M γ) (g : β → γ) (h : ∀ x, f x = Except.ok (g x)) :
    ∀ xs : List β, xs.mapM f = Except.ok (xs.map g)
  | [] => rfl
  | x :: xs => by
    rw [List.mapM_cons, h x, mapM_ok f g h xs]; rfl

theorem zip_map_map {β γ δ : Type} (f : β → γ) (g : β → δ) :
    ∀ xs : List β, (xs.map f).zip (xs.map g) = xs.map fun x => (f x, g x)
  | [] => rfl
  | x :: xs => by simp [zip_map_map f g xs]

theorem map_zip_self {β γ : Type} (f : β × β → γ) : ∀ xs : List β, (xs.zip xs).map f = xs.map fun x => f (x, x)
  | [] => rfl
  | x :: xs => by simp [map_zip_self f xs]

/-! ### units -/

theorem conv_to_ns (u : Time.Unit) (t : Int) :
    Np.convTicks (unitStr u) ['n', 's'] t = Except.ok (t * Time.nsPerTick u) := by
  cases u <;> rfl

/-! ### `dt2np` -/

/-- the UTC instant numpy takes from a datetime (an aware one is converted with its offset) -/
def utcUs (us : Int) : Option Np.Tz → Int
  | some (.other off) => us - off
  | _ => us

/-- the `try` / `except ValueError` of `dt2np` -/
theorem dt2np_def (v : Np.Val α) :
    dt2np v = match Np.datetime64 v with
      | .ok w => Except.ok w
      | .error e => if e = Exc.ValueError then Np.astype v ['d', 'a', 't', 'e', 't', 'i', 'm', 'e', '6', '4', '[', 'n', 's', ']']
                    else Except.error e := by
  unfold dt2np
  cases h : Np.datetime64 v with
  | ok w => rfl
  | error e =>
    by_cases he : e = Exc.ValueError
    · subst he
      simp only [if_true]
      cases h2 : Np.astype v ['d', 'a', 't', 'e', 't', 'i', 'm', 'e', '6', '4', '[', 'n', 's', ']'] <;> simp [h2] <;> rfl
    · simp [he]

theorem parse_dt_ns : Np.parseDtype ['d', 'a', 't', 'e', 't', 'i', 'm', 'e', '6', '4', '[', 'n', 's', ']'] = some (.dt, ['n', 's']) := by
  decide

theorem parse_td_us : Np.parseDtype ['t', 'i', 'm', 'e', 'd', 'e', 'l', 't', 'a', '6', '4', '[', 'u', 's', ']'] = some (.td, ['u', 's']) := by
  decide

theorem astype_objarr_ns (sh : List Nat) (us : List Int) :
    Np.astype (F := α) (.objArr sh us) ['d', 'a', 't', 'e', 't', 'i', 'm', 'e', '6', '4', '[', 'n', 's', ']']
      = Except.ok (.time .dt ['n', 's'] (.arr false sh) (us.map (· * 1000))) := by
  have h := mapM_ok (Np.convTicks ['u', 's'] ['n', 's']) (· * 1000) (fun t => conv_to_ns .us t) us
  have h0 := conv_to_ns .us 0
  simp only [unitStr] at h0
  simp [Np.astype, parse_dt_ns, h, h0]

theorem astype_time_ns (u : Time.Unit) (c : Np.Cont) (ts : List Int) :
    Np.astype (F := α) (.time .dt (unitStr u) c ts) ['d', 'a', 't', 'e', 't', 'i', 'm', 'e', '6', '4', '[', 'n', 's', ']']
      = Except.ok (.time .dt ['n', 's'] c (ts.map (· * Time.nsPerTick u))) := by
  have h := mapM_ok (Np.convTicks (unitStr u) ['n', 's']) (· * Time.nsPerTick u) (fun t => conv_to_ns u t) ts
  have h0 := conv_to_ns u 0
  simp [Np.astype, parse_dt_ns, h, h0]

theorem dt2np_datetime (us : Int) (tz : Option Np.Tz) :
    dt2np (F := α) (.datetime us tz) = Except.ok (.time .dt ['u', 's'] .scalar [utcUs us tz]) := by
  rcases tz with _ | _ | off <;> rfl

theorem dt2np_scalar (u : Str) (ts : List Int) :
    dt2np (F := α) (.time .dt u .scalar ts) = Except.ok (.time .dt u .scalar ts) := rfl

theorem dt2np_objarr (sh : List Nat) (us : List Int) :
    dt2np (F := α) (.objArr sh us) = Except.ok (.time .dt ['n', 's'] (.arr false sh) (us.map (· * 1000))) := by
  rw [dt2np_def]; simp only [Np.datetime64, throw_eq, if_true]; exact astype_objarr_ns sh us

/-- an array that `np.datetime64` does not take for a scalar: lazy, or of rank >= 1 -/
theorem dt2np_dtarr (u : Time.Unit) (lazy : Bool) (sh : List Nat) (ts : List Int) (h : lazy = true ∨ sh ≠ []) :
    dt2np (F := α) (.time .dt (unitStr u) (.arr lazy sh) ts)
      = Except.ok (.time .dt ['n', 's'] (.arr lazy sh) (ts.map (· * Time.nsPerTick u))) := by
  rw [dt2np_def]
  have hd : Np.datetime64 (F := α) (.time .dt (unitStr u) (.arr lazy sh) ts) = Except.error Exc.ValueError := by
    rcases h with h | h
    · subst h; rfl
    · cases lazy
      · cases sh with
        | nil => exact absurd rfl h
        | cons a b => rfl
      · rfl
  rw [hd]; simp only [if_true]; exact astype_time_ns u _ ts

/-! ### `_days` -/

/-- a payload fits its container: a 0-d value has exactly one element -/
def WF (c : Np.Cont) (ts : List Int) : Prop := c.shape = [] → ∃ t, ts = [t]

theorem bcast_right {β γ : Type} (c : Np.Cont) (xs : List β) (y : γ) (hwf : c.shape = [] → ∃ x, xs = [x]) :
    Np.bcast c .scalar xs [y] = Except.ok (Np.mkCont c.lazy c.shape, xs.map fun x => (x, y)) := by
  cases c with
  | scalar =>
    obtain ⟨x, rfl⟩ := hwf rfl
    simp [Np.bcast, Np.Cont.shape, Np.Cont.lazy]
  | arr l sh =>
    cases sh with
    | nil =>
      obtain ⟨x, rfl⟩ := hwf rfl
      simp [Np.bcast, Np.Cont.shape, Np.Cont.lazy]
    | cons a b =>
      simp [Np.bcast, Np.Cont.shape, Np.Cont.lazy]

theorem bcast_same {β γ : Type} (c : Np.Cont) (xs : List β) (ys : List γ) :
    Np.bcast c c xs ys = Except.ok (Np.mkCont c.lazy c.shape, xs.zip ys) := by
  simp [Np.bcast]

@[simp] theorem lazy_arr (l : Bool) (sh : List Nat) : (Np.Cont.arr l sh).lazy = l := rfl
@[simp] theorem shape_arr (l : Bool) (sh : List Nat) : (Np.Cont.arr l sh).shape = sh := rfl

theorem mkCont_shape (l : Bool) (sh : List Nat) : (Np.mkCont l sh).shape = sh := by
  unfold Np.mkCont
  split
  · rename_i h; simp at h; simp [Np.Cont.shape, h.2]
  · rfl

theorem mkCont_lazy (l : Bool) (sh : List Nat) : (Np.mkCont l sh).lazy = l := by
  unfold Np.mkCont
  split
  · rename_i h; simp at h; simp [Np.Cont.lazy, h.1]
  · rfl

theorem hasattr_shape (k : Np.TKind) (u : Str) (c : Np.Cont) (ts : List Int) :
    Np.hasattr (F := α) (.time k u c ts) ['s', 'h', 'a', 'p', 'e'] = Except.ok true := by
  cases c <;> rfl

theorem hasattr_dtype (k : Np.TKind) (u : Str) (c : Np.Cont) (ts : List Int) :
    Np.hasattr (F := α) (.time k u c ts) ['d', 't', 'y', 'p', 'e'] = Except.ok true := by
  cases c <;> rfl

theorem fine_unit (u : Time.Unit) :
    [['n', 's'], ['p', 's'], ['f', 's'], ['a', 's']].contains (unitStr u) = (u == .ns) := by
  cases u <;> decide

/-- ticks per day of a unit -/
def perDay (u : Time.Unit) : Int := 86400000000000 / Time.nsPerTick u

theorem conv_self (u : Time.Unit) (t : Int) : Np.convTicks (unitStr u) (unitStr u) t = Except.ok t := by
  cases u <;> exact congrArg Except.ok (Int.mul_one t)

theorem conv_day (u : Time.Unit) : Np.convTicks ['D'] (unitStr u) 1 = Except.ok (perDay u) := by
  cases u <;> rfl

theorem finer_day (u : Time.Unit) : Np.finer (unitStr u) ['D'] = Except.ok (unitStr u) := by
  cases u <;> rfl

theorem conv_day0 (u : Time.Unit) : Np.convTicks ['D'] (unitStr u) 0 = Except.ok 0 := by
  cases u <;> rfl

/-- `td / np.timedelta64(1, "D")`: the tick counts and the ticks per day as doubles, divided -/
theorem div_day (u : Time.Unit) (c : Np.Cont) (ts : List Int) (hwf : WF c ts) :
    Np.div (F := α) (.time .td (unitStr u) c ts) (Np.timedelta64 1 ['D'])
      = Except.ok (.num .f64 (Np.mkCont c.lazy c.shape) (ts.map fun n => (Time.ofInt n : α) / Time.ofInt (perDay u))) := by
  have h1 := mapM_ok (Np.convTicks (unitStr u) (unitStr u)) id (fun t => conv_self u t) ts
  have hb := bcast_right (γ := Int) c ts (perDay u) hwf
  simp [Np.div, Np.timedelta64, finer_day, conv_self, conv_day, conv_day0, h1, hb, FloatArith.div, FloatOps.ofInt]

/-- what `_days` makes of one tick count of unit `u`: for nanoseconds the whole microseconds and the remainder
    separately, else the count over the ticks per day -/
def daysOf (u : Time.Unit) (n : Int) : α :=
  match u with
  | .ns => Time.ofInt (n / 1000) / Time.ofInt 86400000000 + Time.ofInt (n - n / 1000 * 1000) / Time.ofInt 86400000000000
  | _ => Time.ofInt n / Time.ofInt (perDay u)

theorem wf_map (c : Np.Cont) (ts : List Int) (f : Int → Int) (h : WF c ts) : WF c (ts.map f) := by
  intro hs; obtain ⟨t, rfl⟩ := h hs; exact ⟨f t, rfl⟩

theorem conv_ns_us (t : Int) : Np.convTicks ['n', 's'] ['u', 's'] t = Except.ok (t / 1000) := rfl
theorem conv_us_ns (t : Int) : Np.convTicks ['u', 's'] ['n', 's'] t = Except.ok (t * 1000) := rfl
theorem conv_ns_ns (t : Int) : Np.convTicks ['n', 's'] ['n', 's'] t = Except.ok t := conv_self .ns t

theorem astype_td_us (c : Np.Cont) (ts : List Int) :
    Np.astype (F := α) (.time .td ['n', 's'] c ts) ['t', 'i', 'm', 'e', 'd', 'e', 'l', 't', 'a', '6', '4', '[', 'u', 's', ']']
      = Except.ok (.time .td ['u', 's'] c (ts.map (· / 1000))) := by
  have h := mapM_ok (Np.convTicks ['n', 's'] ['u', 's']) (· / 1000) conv_ns_us ts
  simp [Np.astype, parse_td_us, h, conv_ns_us]

/-- `dt - whole` in the split branch -/
theorem sub_whole (c : Np.Cont) (ts : List Int) :
    Np.sub (F := α) (.time .td ['n', 's'] c ts) (.time .td ['u', 's'] c (ts.map (· / 1000)))
      = Except.ok (.time .td ['n', 's'] (Np.mkCont c.lazy c.shape) (ts.map fun n => n - n / 1000 * 1000)) := by
  have hf : Np.finer ['n', 's'] ['u', 's'] = Except.ok ['n', 's'] := rfl
  have h1 := mapM_ok (Np.convTicks ['n', 's'] ['n', 's']) id conv_ns_ns ts
  have h2 := mapM_ok (Np.convTicks ['u', 's'] ['n', 's'] ∘ fun x => x / 1000) (fun x => x / 1000 * 1000) (fun _ => rfl) ts
  simp [Np.sub, hf, h1, h2, conv_ns_ns, conv_us_ns, bcast_same, List.zip_map_right, map_zip_self]

theorem add_same (c : Np.Cont) (xs ys : List α) :
    Np.add (.num .f64 c xs) (.num .f64 c ys)
      = Except.ok (.num .f64 (Np.mkCont c.lazy c.shape) ((xs.zip ys).map fun p => p.1 + p.2)) := by
  simp [Np.add, bcast_same, FloatArith.add]

/-- `astronomy._days` on a timedelta64 value (scalar, array, dask array) of a unit of the model: every tick count goes
    through `daysOf`; the result is a float64 numpy scalar for a 0-d value, an ndarray of the same shape otherwise -/
theorem days_eq (u : Time.Unit) (c : Np.Cont) (ts : List Int) (hwf : WF c ts) :
    _days (F := α) (.time .td (unitStr u) c ts)
      = Except.ok (.num .f64 (Np.mkCont false c.shape) (ts.map (daysOf u))) := by
  have hwf' : WF (.arr false c.shape) ts := hwf
  unfold _days
  simp only [hasattr_shape, hasattr_dtype, Np.asanyarrayTimedelta, Np.datetimeUnit, fine_unit, ok_bind, pure_eq, if_true,
    bind_pure_comp]
  generalize c.shape = sh at hwf' ⊢
  cases u
  case ns =>
    have e1 := astype_td_us (α := α) (.arr false sh) ts
    have e2 := div_day (α := α) .us (.arr false sh) (ts.map (· / 1000)) (wf_map _ _ _ hwf')
    have e3 := sub_whole (α := α) (.arr false sh) ts
    have e4 := div_day (α := α) .ns (Np.mkCont false sh) (ts.map fun n => n - n / 1000 * 1000)
      (wf_map _ _ _ (by intro h; exact hwf' (by simpa [mkCont_shape] using h)))
    simp only [unitStr, lazy_arr, shape_arr, mkCont_shape, mkCont_lazy] at e1 e2 e3 e4 ⊢
    simp only [e1, e2, e3, e4, ok_bind, add_same, mkCont_shape, mkCont_lazy, beq_self_eq_true, if_true]
    simp only [List.map_map, zip_map_map, Function.comp_def, daysOf, show perDay .us = 86400000000 from rfl,
      show perDay .ns = 86400000000000 from rfl]
    rfl
  all_goals
    rw [if_neg (by decide), div_day _ _ _ hwf']
    simp only [lazy_arr, shape_arr]
    rfl

/-! ### `jdays2000`, `jdays` -/

/-- the literal `np.datetime64("2000-01-01T12:00")`: minute unit, 15778800 minutes after 1970 -/
theorem iso_j2000 :
    Np.datetime64Iso (F := α) ['2', '0', '0', '0', '-', '0', '1', '-', '0', '1', 'T', '1', '2', ':', '0', '0']
      = Except.ok (.time .dt ['m'] .scalar [15778800]) := rfl

/-- ... which is the model's reference instant `j2000us` -/
theorem j2000_minutes : (15778800 : Int) * 60000000 = Time.j2000us := by decide

theorem time_jdays2000 (u : Time.Unit) (t : Int) : (Time.jdays2000 u t : α) = daysOf u (Time.jd2000Ticks u t).1 := by
  cases u <;> rfl

theorem finer_min (u : Time.Unit) : Np.finer (unitStr u) ['m'] = Except.ok (unitStr u) := by
  cases u <;> rfl

theorem conv_ref (u : Time.Unit) :
    Np.convTicks ['m'] (unitStr u) 15778800 = Except.ok (Time.j2000us * 1000 / Time.nsPerTick u) := by
  cases u <;> rfl

theorem conv_min0 (u : Time.Unit) : Np.convTicks ['m'] (unitStr u) 0 = Except.ok 0 := by
  cases u <;> rfl

/-- `dt2np(t) - np.datetime64("2000-01-01T12:00")`: in the unit of the instant, the model's tick difference -/
theorem sub_ref (u : Time.Unit) (c : Np.Cont) (ts : List Int) (hwf : WF c ts) :
    Np.sub (F := α) (.time .dt (unitStr u) c ts) (.time .dt ['m'] .scalar [15778800])
      = Except.ok (.time .td (unitStr u) (Np.mkCont c.lazy c.shape) (ts.map fun t => (Time.jd2000Ticks u t).1)) := by
  have h1 := mapM_ok (Np.convTicks (unitStr u) (unitStr u)) id (fun t => conv_self u t) ts
  have hb := bcast_right (γ := Int) c ts (Time.j2000us * 1000 / Time.nsPerTick u) hwf
  simp [Np.sub, finer_min, conv_self, conv_ref, conv_min0, h1, hb, Time.jd2000Ticks]

/-- `jdays2000` of a value that `dt2np` turns into datetime64 ticks of a unit of the model -/
theorem jdays2000_of_dt2np (v : Np.Val α) (u : Time.Unit) (c : Np.Cont) (ts : List Int) (hwf : WF c ts)
    (hv : dt2np v = Except.ok (.time .dt (unitStr u) c ts)) :
    jdays2000 v = Except.ok (.num .f64 (Np.mkCont false c.shape) (ts.map fun t => (Time.jdays2000 u t : α))) := by
  unfold jdays2000
  have hwf2 : WF (Np.mkCont c.lazy c.shape) (ts.map fun t => (Time.jd2000Ticks u t).1) :=
    wf_map _ _ _ (by intro h; exact hwf (by simpa [mkCont_shape] using h))
  simp only [hv, iso_j2000, sub_ref u c ts hwf, ok_bind, pure_eq, bind_pure_comp, days_eq u _ _ hwf2, mkCont_shape,
    List.map_map, Function.comp_def, time_jdays2000]

theorem wf_scalar (t : Int) : WF .scalar [t] := fun _ => ⟨t, rfl⟩

/-- a datetime (naive, or aware: numpy takes its UTC instant): microsecond ticks, the direct division -/
theorem jdays2000_datetime (us : Int) (tz : Option Np.Tz) :
    jdays2000 (F := α) (.datetime us tz) = Except.ok (.num .f64 .scalar [Time.jdays2000 .us (utcUs us tz)]) :=
  jdays2000_of_dt2np _ .us .scalar [utcUs us tz] (wf_scalar _) (dt2np_datetime us tz)

/-- a datetime64 scalar keeps its unit -/
theorem jdays2000_dt64 (u : Time.Unit) (t : Int) :
    jdays2000 (F := α) (.time .dt (unitStr u) .scalar [t]) = Except.ok (.num .f64 .scalar [Time.jdays2000 u t]) :=
  jdays2000_of_dt2np _ u .scalar [t] (wf_scalar _) (dt2np_scalar _ _)

/-- an object array of datetimes: nanosecond ticks, the split division, elementwise -/
theorem jdays2000_objarr (sh : List Nat) (us : List Int) (hwf : sh = [] → ∃ t, us = [t]) :
    jdays2000 (F := α) (.objArr sh us)
      = Except.ok (.num .f64 (Np.mkCont false sh) (us.map fun t => Time.jdays2000 .ns (t * 1000))) := by
  have h := jdays2000_of_dt2np (α := α) _ .ns (.arr false sh) (us.map (· * 1000))
    (wf_map (.arr false sh) us _ hwf) (dt2np_objarr sh us)
  simpa [List.map_map, Function.comp_def] using h

/-- a datetime64 array (numpy of rank >= 1, or dask) of any unit of the model: converted to nanoseconds first -/
theorem jdays2000_dtarr (u : Time.Unit) (lazy : Bool) (sh : List Nat) (ts : List Int) (h : lazy = true ∨ sh ≠ [])
    (hwf : sh = [] → ∃ t, ts = [t]) :
    jdays2000 (F := α) (.time .dt (unitStr u) (.arr lazy sh) ts)
      = Except.ok (.num .f64 (Np.mkCont false sh) (ts.map fun t => Time.jdays2000 .ns (t * Time.nsPerTick u))) := by
  have h := jdays2000_of_dt2np (α := α) _ .ns (.arr lazy sh) (ts.map (· * Time.nsPerTick u))
    (wf_map (.arr lazy sh) ts _ hwf) (dt2np_dtarr u lazy sh ts h)
  simpa [List.map_map, Function.comp_def] using h

/-- `jdays`: `+ 2451545.0` on every element -/
theorem jdays_of_jdays2000 (v : Np.Val α) (c : Np.Cont) (xs : List α) (hc : c.lazy = false)
    (hv : jdays2000 v = Except.ok (.num .f64 c xs)) :
    jdays v = Except.ok (.num .f64 (Np.mkCont false c.shape) (xs.map fun x => x + (OfScientific.ofScientific 2451545 false 0 : α))) := by
  unfold jdays
  simp [hv, Np.add, hc, FloatArith.add, FloatArith.lit]

/-! ### the kinds of `PV.Kinds`: which branch runs for which kind of value, and the kind of the result -/

/-- the concrete values of each time kind of the model -/
inductive OfKind : Kinds.TK → Np.Val α → Prop
  | datetime (us : Int) (tz : Option Np.Tz) : OfKind .datetime (.datetime us tz)
  | dt64 (u : Time.Unit) (t : Int) : OfKind (.dt64 u) (.time .dt (unitStr u) .scalar [t])
  | objarr (r : Kinds.Rk12) (sh : List Nat) (us : List Int) (hr : sh.length = r.toNat) : OfKind (.objarr r) (.objArr sh us)
  | dtarr (r : Kinds.Rk12) (u : Time.Unit) (lazy : Bool) (sh : List Nat) (ts : List Int) (hr : sh.length = r.toNat) :
      OfKind (.dtarr r) (.time .dt (unitStr u) (.arr lazy sh) ts)

def unitOf (s : Str) : Option Time.Unit :=
  [Time.Unit.ns, .us, .ms, .s, .m].find? fun u => unitStr u == s

theorem unitOf_unitStr (u : Time.Unit) : unitOf (unitStr u) = some u := by cases u <;> rfl

/-- the model's abstraction of a datetime64 / timedelta64 value: unit, and rank when it is an array -/
def tvOf : Np.Val α → Option Kinds.TV
  | .time _ u .scalar _ => (unitOf u).map Kinds.TV.scalar
  | .time _ u (.arr _ sh) _ => (unitOf u).map fun x => Kinds.TV.array x sh.length
  | _ => none

def dtOf : Np.NumDT → Kinds.DT
  | .f32 => .f32
  | .f64 => .f64
  | .i64 => .i64

/-- the model's abstraction of a number -/
def avOf : Np.Val α → Option Kinds.AV
  | .pyint _ => some .pyint
  | .pyfloat _ => some .pyfloat
  | .num d .scalar _ => some (.np (dtOf d))
  | .num d (.arr false sh) _ => some (.nd (dtOf d) sh.length)
  | .num d (.arr true sh) _ => some (.da (dtOf d) sh.length)
  | _ => none

/-- what each branch of `dt2np` does -/
def dt2npBranch (v : Np.Val α) : Kinds.Dt2npBranch → M (Np.Val α)
  | .direct => Np.datetime64 v
  | .astypeNs => Np.astype v ['d', 'a', 't', 'e', 't', 'i', 'm', 'e', '6', '4', '[', 'n', 's', ']']

theorem rk_pos (r : Kinds.Rk12) (sh : List Nat) (h : sh.length = r.toNat) : sh ≠ [] := by
  intro h2; subst h2; cases r <;> simp [Kinds.Rk12.toNat] at h

/-- `dt2np` takes, for every kind of time value, the branch the model says, and gives a value of the unit and rank the
    model says -/
theorem dt2np_kinds (tk : Kinds.TK) (v : Np.Val α) (h : OfKind tk v) :
    dt2np v = dt2npBranch v (Kinds.dt2np tk).1 ∧ ∃ w, dt2np v = Except.ok w ∧ tvOf w = some (Kinds.dt2np tk).2 := by
  cases h with
  | datetime us tz =>
    refine ⟨?_, _, dt2np_datetime us tz, rfl⟩
    rcases tz with _ | _ | off <;> rfl
  | dt64 u t =>
    exact ⟨rfl, _, dt2np_scalar _ _, by simp [tvOf, unitOf_unitStr, Kinds.dt2np]⟩
  | objarr r sh us hr =>
    refine ⟨?_, _, dt2np_objarr sh us, by simp [tvOf, Kinds.dt2np, hr]; rfl⟩
    rw [dt2np_objarr]; exact (astype_objarr_ns sh us).symm
  | dtarr r u lazy sh ts hr =>
    have hs := rk_pos r sh hr
    refine ⟨?_, _, dt2np_dtarr u lazy sh ts (Or.inr hs), by simp [tvOf, Kinds.dt2np, hr]; rfl⟩
    rw [dt2np_dtarr u lazy sh ts (Or.inr hs)]; exact (astype_time_ns u _ ts).symm

/-- `_days` takes the branch of the model: the split exactly for nanosecond ticks -/
theorem daysOf_branch (tv : Kinds.TV) (n : Int) :
    (daysOf tv.unit n : α) = match Kinds.daysBranch tv with
      | .split => Time.ofInt (n / 1000) / Time.ofInt 86400000000 + Time.ofInt (n - n / 1000 * 1000) / Time.ofInt 86400000000000
      | .direct => Time.ofInt n / Time.ofInt (perDay tv.unit) := by
  cases tv with
  | scalar u => cases u <;> rfl
  | array u r => cases u <;> rfl

/-- the kind of the value `jdays2000` returns is the model's, for every kind of time value -/
theorem jdays2000_kinds (tk : Kinds.TK) (v : Np.Val α) (h : OfKind tk v) :
    ∃ w, jdays2000 v = Except.ok w ∧ avOf w = some (Kinds.jdays2000 tk) := by
  cases h with
  | datetime us tz => exact ⟨_, jdays2000_datetime us tz, rfl⟩
  | dt64 u t => exact ⟨_, jdays2000_dt64 u t, by cases u <;> rfl⟩
  | objarr r sh us hr =>
    have hs := rk_pos r sh hr
    refine ⟨_, jdays2000_objarr sh us (fun h => absurd h hs), ?_⟩
    cases sh with
    | nil => exact absurd rfl hs
    | cons a b => simp only [Np.mkCont, avOf]; cases r <;> simp_all [Kinds.Rk12.toNat] <;> rfl
  | dtarr r u lazy sh ts hr =>
    have hs := rk_pos r sh hr
    refine ⟨_, jdays2000_dtarr u lazy sh ts (Or.inr hs) (fun h => absurd h hs), ?_⟩
    cases sh with
    | nil => exact absurd rfl hs
    | cons a b => simp only [Np.mkCont, avOf]; cases r <;> simp_all [Kinds.Rk12.toNat] <;> rfl

/-! ### `_float_to_sibling_result` -/

/-- the model's reading of an outcome: a value of a kind, or the AttributeError / TypeError it records -/
def outAV : M (Np.Val α) → Option Kinds.AV
  | .ok w => avOf w
  | .error .AttributeError => some (.err .attributeError)
  | .error .TypeError => some (.err .typeError)
  | .error _ => none

/-- `_float_to_sibling_result(x, template)` for a Python float `x` and a template of every kind of number of the model:
    the `isinstance(template, float)` / `hasattr(template, "__array_function__")` / `.data` dispatch gives the kind (or
    the exception) the model says -/
theorem sibling_kinds (x : α) (t : Np.Val α) (a : Kinds.AV) (h : avOf t = some a) :
    outAV (_float_to_sibling_result (.pyfloat x) t) = some (Kinds.floatToSibling a) := by
  cases t with
  | pyint n => cases h; rfl
  | pyfloat y => cases h; rfl
  | num d c xs =>
    cases c with
    | scalar => cases h; cases d <;> rfl
    | arr lazy sh => cases lazy <;> cases h <;> cases d <;> rfl
  | datetime us tz => cases h
  | time k u c ts => cases h
  | objArr sh us => cases h
  | memoryview => cases h

/-! ### `_get_tz_unaware_utctime` -/

/-- a datetime whose `tzinfo` is None or `dt.timezone.utc` loses its `tzinfo`; any other aware datetime is a
    ValueError; everything that is not a datetime is returned as it is -/
theorem tz_unaware_eq (v : Np.Val α) :
    _get_tz_unaware_utctime v = match v with
      | .datetime us none => Except.ok (.datetime us none)
      | .datetime us (some .utc) => Except.ok (.datetime us none)
      | .datetime us (some (.other _)) => Except.error Exc.ValueError
      | w => Except.ok w := by
  cases v with
  | datetime us tz => rcases tz with _ | _ | off <;> rfl
  | pyint n => rfl
  | pyfloat y => rfl
  | num d c xs => rfl
  | time k u c ts => rfl
  | objArr sh us => rfl
  | memoryview => rfl

/-- after `_get_tz_unaware_utctime` the instant `np.datetime64` takes is the instant it took before: stripping
    `timezone.utc` does not move the time -/
theorem tz_unaware_same_instant (us : Int) (tz : Option Np.Tz) (w : Np.Val α)
    (h : _get_tz_unaware_utctime (.datetime us tz) = Except.ok w) :
    Np.datetime64 w = Np.datetime64 (F := α) (.datetime us tz) := by
  rw [tz_unaware_eq] at h
  rcases tz with _ | _ | off
  · cases h; rfl
  · cases h; rfl
  · cases h

/-! ### `Orbital.utc2local` -/

/-- `utc2local`: the longitude of the sub-satellite point, `lon * 24 / 360.0` hours added (`Look.localHours`; the source
    writes the divisor as the float literal `360.0`, the model as the integer 360: `hlit`) -/
theorem utc2local_eq {T UTC : Type} (add_hours : UTC → α → M UTC) (get_lonlatalt : UTC → M (α × α × α))
    (self : Orbital.Self α T) (t : UTC) (hlit : (OfScientific.ofScientific 36 false 1 : α) = (360 : α)) :
    Orbital.utc2local (add_hours := add_hours) (get_lonlatalt := get_lonlatalt) self t
      = (do let r ← get_lonlatalt t; add_hours t (Look.localHours r.1)) := by
  unfold Orbital.utc2local
  cases h : get_lonlatalt t with
  | error e => rfl
  | ok r =>
    simp only [ok_bind, pure_eq, bind_pure_comp, FloatArith.div, FloatOps.mul, FloatOps.ofInt, FloatArith.lit, Look.localHours]
    rw [if_neg (by decide), show Int.toNat 1 = 1 from rfl, hlit]
    rfl

end PV.Equiv.TranslatedTime
